(** C36 — the MiniPy value of the modelled Python expression equals the Fortran value on the class. *)
From Coq Require Import ZArith QArith List Bool String Lia ZifyBool.
From LV Require Import Base.Expr Base.MiniF models.M_C10 models.M_C36 proofs.P_C36_base.
Import ListNotations.
Open Scope Z_scope.

(** * Unfolding lemmas for the nested fixpoints of [evalPy] *)
Definition short (is_and : bool) (v : pyval) : bool := if is_and then negb (truthy v) else truthy v.

Definition eval_boolop (pe : pyenv) (is_and : bool) : list pyexpr -> pyres :=
  fix go (l : list pyexpr) : pyres :=
    match l with
    | [] => PErr EUnmodelled
    | c :: r =>
        match r with
        | [] => evalPy pe c
        | _ :: _ =>
            match evalPy pe c with
            | POk v => if (if is_and then negb (truthy v) else truthy v) then POk v else go r
            | PErr err => PErr err
            end
        end
    end.

Definition eval_args (pe : pyenv) : list pyexpr -> list pyval + pyerr :=
  fix go (l : list pyexpr) : list pyval + pyerr :=
    match l with
    | [] => inl []
    | a :: r => match evalPy pe a with
                | POk v => match go r with inl vs => inl (v :: vs) | inr err => inr err end
                | PErr err => inr err
                end
    end.

Definition eval_idxs (pe : pyenv) : list pyexpr -> list Z + pyerr :=
  fix go (l : list pyexpr) : list Z + pyerr :=
    match l with
    | [] => inl []
    | i :: r => match evalPy pe i with
                | POk v => match as_index v with
                           | Some k => match go r with inl ks => inl (k :: ks) | inr err => inr err end
                           | None => inr EIndexError
                           end
                | PErr err => inr err
                end
    end.

Lemma evalPy_boolop pe k l : evalPy pe (PBoolOp k l) = eval_boolop pe k l.
Proof. reflexivity. Qed.
Lemma evalPy_call pe f args :
  evalPy pe (PCall f args) =
  if known_fun f then match eval_args pe args with inl vs => py_builtin f vs | inr err => PErr err end
  else PErr (ENameError f).
Proof. reflexivity. Qed.
Lemma evalPy_index pe a idx :
  evalPy pe (PIndex a idx) = match eval_idxs pe idx with inl ks => py_read pe a ks | inr err => PErr err end.
Proof. reflexivity. Qed.
Lemma evalPy_bin pe op a b x y :
  evalPy pe a = POk x -> evalPy pe b = POk y -> evalPy pe (PBin op a b) = py_binop op x y.
Proof. intros Ha Hb. cbn [evalPy]. rewrite Ha, Hb. reflexivity. Qed.

Lemma eval_args_ints pe ps xs :
  Forall2 (fun p x => evalPy pe p = POk (VInt x)) ps xs -> eval_args pe ps = inl (map VInt xs).
Proof.
  induction 1 as [|p x ps xs Hp _ IH]; [reflexivity|].
  cbn [eval_args map]. rewrite Hp. fold (eval_args pe). rewrite IH. reflexivity.
Qed.

Lemma eval_idxs_ints pe ps xs :
  Forall2 (fun p x => evalPy pe p = POk (VInt x)) ps xs -> eval_idxs pe ps = inl xs.
Proof.
  induction 1 as [|p x ps xs Hp _ IH]; [reflexivity|].
  cbn [eval_idxs]. rewrite Hp. cbn [as_index]. fold (eval_idxs pe). rewrite IH. reflexivity.
Qed.

(** * Chains *)
Lemma eval_chain_mul pe r : forall xs p0 x0,
  evalPy pe p0 = POk (VInt x0) -> Forall2 (fun p x => evalPy pe p = POk (VInt x)) r xs ->
  evalPy pe (fold_left (PBin BMul) r p0) = POk (VInt (x0 * prodz xs)).
Proof.
  induction r as [|p r IH]; intros xs p0 x0 H0 HF; inversion HF as [|? y ? ys Hp Hr]; subst; cbn [fold_left prodz].
  - rewrite H0. do 2 f_equal. lia.
  - rewrite (IH ys (PBin BMul p0 p) (x0 * y)); [do 2 f_equal; lia | | exact Hr].
    rewrite (evalPy_bin pe BMul p0 p _ _ H0 Hp). reflexivity.
Qed.

Lemma prod_ast_chain cs ps :
  (forall c0 c1, cs = [c0; c1] -> is_m1 c0 = false) -> prod_ast cs ps = chain BMul ps.
Proof.
  intros H. destruct cs as [|c0 [|c1 [|c2 cr]]]; try reflexivity.
  destruct ps as [|p0 [|p1 [|p2 pr]]]; try reflexivity.
  cbn [prod_ast]. rewrite (H c0 c1 eq_refl). reflexivity.
Qed.

Lemma prod_ast_eval pe cs ps vs :
  Forall2 (fun p x => evalPy pe p = POk (VInt x)) ps vs ->
  Forall2 (fun c x => is_m1 c = true -> x = -1) cs vs ->
  ps <> [] ->
  evalPy pe (prod_ast cs ps) = POk (VInt (prodz vs)).
Proof.
  intros HP HM Hne.
  assert (Hchain : evalPy pe (chain BMul ps) = POk (VInt (prodz vs))).
  { destruct ps as [|p0 r]; [congruence|]. inversion HP as [|? x0 ? xs Hq0 Hr]; subst.
    cbn [chain prodz]. apply eval_chain_mul; assumption. }
  destruct cs as [|c0 [|c1 [|c2 cr]]].
  1, 2, 4: rewrite prod_ast_chain; [exact Hchain | intros ? ? [=]].
  destruct (is_m1 c0) eqn:Em.
  - inversion HM as [|? x0 ? vs1 Hm0 HM1]; subst. inversion HM1 as [|? x1 ? vs2 Hm1 HM2]; subst. inversion HM2; subst.
    inversion HP as [|p0 ? ps1 ? Hp0 HP1]; subst. inversion HP1 as [|p1 ? ps2 ? Hp1 HP2]; subst. inversion HP2; subst.
    cbn [prod_ast]. rewrite Em. cbn [evalPy]. rewrite Hp1. cbn. rewrite (Hm0 Em). do 2 f_equal. lia.
  - rewrite prod_ast_chain; [exact Hchain|]. intros ? ? [= <- <-]. exact Em.
Qed.

Lemma sum_fold_eval pe r : forall xs acc a,
  evalPy pe acc = POk (VInt a) ->
  Forall2 (fun (np : bool * pyexpr) x => evalPy pe (snd np) = POk (VInt (if fst np then - x else x))) r xs ->
  evalPy pe (fold_left (fun acc (np : bool * pyexpr) => PBin (if fst np then BSub else BAdd) acc (snd np)) r acc)
  = POk (VInt (a + sumz xs)).
Proof.
  induction r as [|[n p] r IH]; intros xs acc a Ha HF; inversion HF as [|? x ? ys Hp Hr]; subst; cbn [fold_left sumz].
  - rewrite Ha. do 2 f_equal. lia.
  - cbn [fst snd] in *.
    rewrite (IH ys _ (a + x)); [do 2 f_equal; lia | | exact Hr].
    rewrite (evalPy_bin pe _ acc p _ _ Ha Hp). destruct n; cbn; do 2 f_equal; lia.
Qed.

Lemma sum_ast_eval pe ts xs :
  Forall2 (fun (np : bool * pyexpr) x => evalPy pe (snd np) = POk (VInt (if fst np then - x else x))) ts xs ->
  ts <> [] -> evalPy pe (sum_ast ts) = POk (VInt (sumz xs)).
Proof.
  intros HF Hne. destruct ts as [|[n0 p0] r]; [congruence|].
  inversion HF as [|? x0 ? ys Hs0 Hr]; subst. cbn [sum_ast sumz]. cbn [fst snd] in Hs0.
  apply sum_fold_eval; [|exact Hr].
  destruct n0; [|exact Hs0]. cbn [evalPy]. rewrite Hs0. cbn. do 2 f_equal. lia.
Qed.

Lemma sum_ast_snoc l p : l <> [] -> sum_ast (l ++ [(true, p)]) = PBin BSub (sum_ast l) p.
Proof.
  destruct l as [|[n0 p0] r]; [congruence|]. intros _. cbn [sum_ast app]. rewrite fold_left_app. reflexivity.
Qed.

Lemma lit_ast_eval pe v : evalPy pe (lit_ast v) = POk (VInt v).
Proof. unfold lit_ast. destruct (v <? 0) eqn:E; cbn; do 2 f_equal; lia. Qed.

(** * Python's min / max on ints *)
Lemma fold_min_ints r : forall a,
  fold_left (fun acc v => if lt_val v acc then v else acc) (map VInt r) (VInt a) = VInt (fold_left Z.min r a).
Proof.
  induction r as [|x r IH]; intros a; [reflexivity|]. cbn [map fold_left lt_val].
  destruct (x <? a) eqn:E; rewrite IH; do 2 f_equal; lia.
Qed.
Lemma fold_max_ints r : forall a,
  fold_left (fun acc v => if lt_val acc v then v else acc) (map VInt r) (VInt a) = VInt (fold_left Z.max r a).
Proof.
  induction r as [|x r IH]; intros a; [reflexivity|]. cbn [map fold_left lt_val].
  destruct (a <? x) eqn:E; rewrite IH; do 2 f_equal; lia.
Qed.

(** * and / or chains with spliced same-operator children *)
Lemma eval_boolop_app pe k L : forall rest v,
  eval_boolop pe k L = POk v -> rest <> [] ->
  eval_boolop pe k (L ++ rest) = if short k v then POk v else eval_boolop pe k rest.
Proof.
  induction L as [|c r IH]; intros rest v H Hne; [discriminate|].
  destruct r as [|c2 r'].
  - cbn [eval_boolop] in H. destruct rest as [|x rest']; [congruence|].
    cbn [app eval_boolop]. rewrite H. reflexivity.
  - change ((c :: c2 :: r') ++ rest) with (c :: ((c2 :: r') ++ rest)).
    assert (E1 : eval_boolop pe k (c :: c2 :: r') =
                 match evalPy pe c with
                 | POk w => if short k w then POk w else eval_boolop pe k (c2 :: r')
                 | PErr err => PErr err end) by reflexivity.
    assert (E2 : eval_boolop pe k (c :: ((c2 :: r') ++ rest)) =
                 match evalPy pe c with
                 | POk w => if short k w then POk w else eval_boolop pe k ((c2 :: r') ++ rest)
                 | PErr err => PErr err end) by reflexivity.
    rewrite E2. rewrite E1 in H. destruct (evalPy pe c) as [w|err]; [|discriminate].
    destruct (short k w) eqn:Es.
    + injection H as <-. rewrite Es. reflexivity.
    + apply IH; assumption.
Qed.

Definition splice (is_and : bool) (p : pyexpr) : list pyexpr :=
  match p with PBoolOp b l => if Bool.eqb b is_and then l else [p] | _ => [p] end.

Lemma splice_eval pe k p v : evalPy pe p = POk v -> eval_boolop pe k (splice k p) = POk v /\ splice k p <> [].
Proof.
  intros H. destruct p; try (split; [exact H | discriminate]).
  cbn [splice]. destruct (Bool.eqb is_and k) eqn:E.
  - apply eqb_prop in E. subst. rewrite evalPy_boolop in H. split; [exact H|]. intros ->. discriminate.
  - split; [exact H | discriminate].
Qed.

Lemma boolop_ast_flat k ps : boolop_ast k ps = PBoolOp k (flat_map (splice k) ps).
Proof. reflexivity. Qed.

Lemma boolop_eval pe k ps bs :
  Forall2 (fun p b => evalPy pe p = POk (VBool b)) ps bs -> ps <> [] ->
  evalPy pe (boolop_ast k ps) = POk (VBool (if k then andl bs else orl bs)).
Proof.
  intros HF Hne. rewrite boolop_ast_flat, evalPy_boolop.
  induction HF as [|p b ps bs Hp HF IH]; [congruence|]. clear Hne.
  cbn [flat_map]. destruct (splice_eval pe k p _ Hp) as [Hs Hn].
  destruct ps as [|p2 ps'].
  - inversion HF; subst. cbn [flat_map]. rewrite app_nil_r, Hs. destruct k, b; reflexivity.
  - assert (Hne2 : flat_map (splice k) (p2 :: ps') <> []).
    { inversion HF as [|? b2 ? ? Hp2 _]; subst. cbn [flat_map]. destruct (splice_eval pe k p2 _ Hp2) as [_ Hn2].
      destruct (splice k p2); [congruence | discriminate]. }
    rewrite (eval_boolop_app pe k _ _ _ Hs Hne2).
    rewrite IH by discriminate.
    destruct k, b; cbn; reflexivity.
Qed.

(** * Structural facts about [pre_py] / [py_ast] on the class *)
Lemma py_ast_t arrs e : term_neg e = false -> py_ast arrs e true = py_ast arrs e false.
Proof. destruct e; try reflexivity. intros H. cbn [py_ast]. rewrite H. reflexivity. Qed.

Lemma mapped_not_sign f n : mapped_intrinsic f n = true -> String.eqb f "sign" = false.
Proof.
  unfold mapped_intrinsic. intros H.
  destruct (String.eqb f "min") eqn:E1; [apply String.eqb_eq in E1; subst; reflexivity|].
  destruct (String.eqb f "max") eqn:E2; [apply String.eqb_eq in E2; subst; reflexivity|].
  destruct (String.eqb f "abs") eqn:E3; [apply String.eqb_eq in E3; subst; reflexivity|].
  discriminate.
Qed.

Lemma pre_call_class arrs f args :
  py_class arrs (ECall f args) = true ->
  pre_py arrs (ECall f args) =
  if is_arr arrs f then ECall f (map shift_idx args) else ECall f (map (pre_py arrs) args).
Proof.
  intros H. cbn [pre_py]. destruct (is_arr arrs f) eqn:Ea; [reflexivity|].
  cbn [py_class] in H. rewrite Ea in H. apply andb_prop in H. destruct H as [_ H].
  rewrite (mapped_not_sign _ _ H). reflexivity.
Qed.

Lemma is_py_m1_pre arrs c : py_class arrs c = true -> is_py_m1 (pre_py arrs c) = is_py_m1 c.
Proof.
  intros H. destruct c; try reflexivity.
  rewrite (pre_call_class _ _ _ H). destruct (is_arr arrs f); reflexivity.
Qed.

Lemma is_m1_pre arrs c : py_class arrs c = true -> is_m1 (pre_py arrs c) = is_m1 c.
Proof.
  intros H. destruct c; try reflexivity.
  rewrite (pre_call_class _ _ _ H). destruct (is_arr arrs f); reflexivity.
Qed.

Lemma term_neg_pre arrs c : py_class arrs c = true -> term_neg (pre_py arrs c) = term_neg c.
Proof.
  intros H. destruct c; try reflexivity.
  - cbn [pre_py term_neg]. destruct paren; [reflexivity|]. destruct cs as [|c0 r]; [reflexivity|].
    cbn [map]. apply is_py_m1_pre.
    cbn [py_class] in H. apply andb_prop in H. destruct H as [H _]. apply andb_prop in H. destruct H as [_ H].
    cbn [forallb] in H. apply andb_prop in H. tauto.
  - rewrite (pre_call_class _ _ _ H). destruct (is_arr arrs f); reflexivity.
Qed.

Lemma is_m1_val rho c : is_m1 c = true -> evalZ rho c = Some (-1).
Proof. destruct c; cbn; try discriminate; intros H; f_equal; lia. Qed.

(** no array reference and no sign call: [pre_py] is the identity *)
Lemma pre_id arrs : forall e, no_arr arrs e = true -> py_class arrs e = true -> pre_py arrs e = e.
Proof.
  assert (Hmap : forall cs, Forall (fun e => no_arr arrs e = true -> py_class arrs e = true -> pre_py arrs e = e) cs ->
                 forallb (no_arr arrs) cs = true -> forallb (py_class arrs) cs = true -> map (pre_py arrs) cs = cs).
  { induction 1 as [|c r Hc _ IH]; [reflexivity|]. cbn [forallb map]. intros H1 H2.
    apply andb_prop in H1. apply andb_prop in H2. destruct H1, H2. rewrite Hc, IH by assumption. reflexivity. }
  induction e using expr_ind'; cbn [no_arr py_class]; intros Hn Hc; try reflexivity; try discriminate.
  - cbn [pre_py]. apply andb_prop in Hc. destruct Hc as [_ Hc]. rewrite Hmap by assumption. reflexivity.
  - cbn [pre_py]. apply andb_prop in Hc. destruct Hc as [Hc _]. apply andb_prop in Hc. destruct Hc as [_ Hc].
    rewrite Hmap by assumption. reflexivity.
  - destruct e2; try discriminate. apply andb_prop in Hn. destruct Hn as [Hn _]. apply andb_prop in Hc. destruct Hc as [Hc _].
    cbn [pre_py]. rewrite IHe1 by assumption. reflexivity.
  - apply andb_prop in Hn. destruct Hn as [Hf Hn]. apply negb_true_iff in Hf.
    assert (Hc' := Hc). cbn [py_class] in Hc'. apply andb_prop in Hc'. destruct Hc' as [Hca _].
    rewrite (pre_call_class arrs f args) by exact Hc. rewrite Hf. rewrite Hmap by assumption. reflexivity.
Qed.

(** * The main induction *)
Section Preservation.
  Variable decl : list (string * list (Z * Z)).
  Let arrs := map fst decl.
  Variables (rho : env) (pe : pyenv).
  Hypothesis Hrel : env_rel decl rho pe.
  Hypothesis Hlb : lower_one decl.
  Hypothesis Hok : arrs_ok arrs = true.

  Lemma not_intrinsic f : is_arr arrs f = true -> forall vs, intrinsic f vs = None.
  Proof.
    intros H vs. unfold is_arr in H. apply existsb_exists in H. destruct H as (a & Hin & Heq).
    apply String.eqb_eq in Heq. subst a.
    unfold arrs_ok in Hok. rewrite forallb_forall in Hok. specialize (Hok f Hin). apply negb_true_iff in Hok.
    unfold intrinsic_name in Hok. cbn [existsb] in Hok. rewrite !orb_false_iff in Hok.
    destruct Hok as (E1 & E2 & E3 & E4 & E5 & E6 & _).
    unfold intrinsic. rewrite E1, E2, E3, E4, E5. reflexivity.
  Qed.

  Lemma box_norm bs idx : Forall (fun b => fst b = 1) bs -> in_box bs idx ->
    norm_idxs (map extent bs) (map (fun k => k - 1) idx) = Some (map (fun k => k - 1) idx) /\
    pos_of bs idx = map (fun k => k - 1) idx.
  Proof.
    intros Hb Hbox. unfold in_box in Hbox. induction Hbox as [|[lo hi] k bs idx Hk _ IH]; [split; reflexivity|].
    inversion Hb as [|? ? Hb1 Hb']; subst. cbn [fst snd] in *. subst lo.
    destruct (IH Hb') as [IH1 IH2]. split.
    - cbn [map norm_idxs]. rewrite IH1. unfold norm_idx, extent. cbn [fst snd].
      assert (E : (0 <=? k - 1) && (k - 1 <? hi - 1 + 1) = true) by lia. rewrite E. reflexivity.
    - unfold pos_of in *. cbn [combine map fst snd]. rewrite IH2. reflexivity.
  Qed.

  Lemma array_read a idx v : is_arr arrs a = true -> ev_fun rho a idx = Some v ->
    py_read pe a (map (fun k => k - 1) idx) = POk (VInt v).
  Proof.
    intros Ha Hv. destruct Hrel as (_ & Hs & Hc).
    destruct (Hc a idx v Ha Hv) as (bs & Hin & Hbox & Hcell).
    unfold py_read. rewrite (Hs a bs Hin).
    destruct (box_norm bs idx (Hlb a bs Hin) Hbox) as [Hn Hp]. rewrite Hn. rewrite <- Hp, Hcell. reflexivity.
  Qed.

  (** the subscript [d - 1] *)
  Lemma shift_idx_eval d k :
    evalPy pe (py_ast arrs d false) = POk (VInt k) ->
    (term_neg d = true -> evalPy pe (py_ast arrs d true) = POk (VInt (- k))) ->
    evalPy pe (py_ast arrs (shift_idx d) false) = POk (VInt (k - 1)).
  Proof.
    intros HA HB.
    assert (Hgen : evalPy pe (py_ast arrs (ESum false [d; M1]) false) = POk (VInt (k - 1))).
    { cbn [py_ast map]. change (term_neg M1) with true.
      change (py_ast arrs M1 true) with (PNum 1).
      cbn [sum_ast fold_left fst snd].
      assert (H0 : evalPy pe (if term_neg d then PNeg (py_ast arrs d true) else py_ast arrs d true) = POk (VInt k)).
      { destruct (term_neg d) eqn:Et.
        - cbn [evalPy]. rewrite (HB eq_refl). cbn. do 2 f_equal. lia.
        - rewrite py_ast_t by exact Et. exact HA. }
      rewrite (evalPy_bin pe BSub _ (PNum 1) _ _ H0 eq_refl). reflexivity. }
    destruct d; try exact Hgen.
    - (* EInt *) destruct v; exact Hgen.
    - (* ESum *) cbn [shift_idx py_ast]. cbn [py_ast] in HA. rewrite map_app. cbn [map].
      change (term_neg M1) with true. change (py_ast arrs M1 true) with (PNum 1).
      destruct cs as [|c0 r]; [discriminate|].
      rewrite sum_ast_snoc by discriminate.
      rewrite (evalPy_bin pe BSub _ (PNum 1) _ _ HA eq_refl). reflexivity.
  Qed.

  Definition Pa (e : expr) : Prop :=
    py_class arrs e = true -> forall v, evalZ rho e = Some v ->
    evalPy pe (py_ast arrs (pre_py arrs e) false) = POk (VInt v) /\
    (term_neg e = true -> evalPy pe (py_ast arrs (pre_py arrs e) true) = POk (VInt (- v))).

  Lemma children_false cs vs :
    Forall Pa cs -> forallb (py_class arrs) cs = true ->
    Forall2 (fun c x => evalZ rho c = Some x) cs vs ->
    Forall2 (fun p x => evalPy pe p = POk (VInt x)) (map (fun c => py_ast arrs c false) (map (pre_py arrs) cs)) vs.
  Proof.
    intros HF Hc H2. induction H2 as [|c x cs vs Hx _ IH]; [constructor|].
    inversion HF as [|? ? Hc0 HF']; subst. cbn [forallb] in Hc. apply andb_prop in Hc. destruct Hc as [Hc1 Hc2].
    cbn [map]. constructor; [apply (Hc0 Hc1 x Hx) | apply IH; assumption].
  Qed.

  Lemma children_m1 cs vs :
    forallb (py_class arrs) cs = true ->
    Forall2 (fun c x => evalZ rho c = Some x) cs vs ->
    Forall2 (fun c x => is_m1 c = true -> x = -1) (map (pre_py arrs) cs) vs.
  Proof.
    intros Hc H2. induction H2 as [|c x cs vs Hx _ IH]; [constructor|].
    cbn [forallb] in Hc. apply andb_prop in Hc. destruct Hc as [Hc1 Hc2].
    cbn [map]. constructor; [|apply IH; assumption].
    rewrite is_m1_pre by exact Hc1. intros Hm. rewrite (is_m1_val rho c Hm) in Hx. congruence.
  Qed.

  Lemma children_term cs vs :
    Forall Pa cs -> forallb (py_class arrs) cs = true ->
    Forall2 (fun c x => evalZ rho c = Some x) cs vs ->
    Forall2 (fun (np : bool * pyexpr) x => evalPy pe (snd np) = POk (VInt (if fst np then - x else x)))
            (map (fun c => (term_neg c, py_ast arrs c true)) (map (pre_py arrs) cs)) vs.
  Proof.
    intros HF Hc H2. induction H2 as [|c x cs vs Hx _ IH]; [constructor|].
    inversion HF as [|? ? Hc0 HF']; subst. cbn [forallb] in Hc. apply andb_prop in Hc. destruct Hc as [Hc1 Hc2].
    cbn [map]. constructor; [|apply IH; assumption].
    cbn [fst snd]. destruct (Hc0 Hc1 x Hx) as [HA HB]. rewrite term_neg_pre by exact Hc1.
    destruct (term_neg c) eqn:Et; [apply HB; reflexivity|].
    rewrite py_ast_t; [exact HA|]. rewrite term_neg_pre by exact Hc1. exact Et.
  Qed.

  Lemma Pa_all : forall e, Pa e.
  Proof.
    induction e using expr_ind'; unfold Pa; intros Hc w Hv; try discriminate.
    - (* EInt *) cbn in Hv. injection Hv as <-. split; [apply lit_ast_eval | discriminate].
    - (* EPy *) cbn in Hv. injection Hv as <-. split; [apply lit_ast_eval | discriminate].
    - (* EVar *) cbn in Hv. injection Hv as <-. split; [|discriminate].
      cbn. destruct Hrel as (Hvar & _). rewrite Hvar. reflexivity.
    - (* ESum *) cbn [py_class] in Hc. apply andb_prop in Hc. destruct Hc as [Hne Hc].
      rewrite evalZ_sum in Hv. destruct (omap_list (evalZ rho) cs) as [vs|] eqn:E; [|discriminate].
      cbn [obind] in Hv. injection Hv as <-. apply omap_list_Forall2 in E.
      split; [|discriminate]. cbn [pre_py py_ast].
      apply sum_ast_eval; [apply children_term; assumption|].
      destruct cs; [discriminate | discriminate].
    - (* EProd *) assert (Hc' := Hc). cbn [py_class] in Hc. apply andb_prop in Hc. destruct Hc as [Hc Hsingle].
      apply andb_prop in Hc. destruct Hc as [Hne Hc].
      rewrite evalZ_prod in Hv. destruct (omap_list (evalZ rho) cs) as [vs|] eqn:E; [|discriminate].
      cbn [obind] in Hv. injection Hv as <-. apply omap_list_Forall2 in E.
      pose proof (children_false cs vs H Hc E) as HP.
      pose proof (children_m1 cs vs Hc E) as HM.
      split.
      + cbn [pre_py py_ast andb]. apply prod_ast_eval; [exact HP | exact HM|].
        destruct cs; [discriminate | discriminate].
      + intros Ht. cbn [pre_py py_ast].
        change (EProd p (map (pre_py arrs) cs)) with (pre_py arrs (EProd p cs)).
        rewrite term_neg_pre by exact Hc'. rewrite Ht. cbn [andb].
        destruct p; [discriminate|]. destruct cs as [|c0 r]; [discriminate|]. cbn [term_neg] in Ht.
        destruct r as [|c1 r']; [cbn [term_neg] in Hsingle; rewrite Ht in Hsingle; discriminate|].
        inversion E as [|? x0 ? vs' Hx0 E']; subst.
        inversion HP as [|? ? ? ? _ HP']; subst. inversion HM as [|? ? ? ? _ HM']; subst.
        cbn [map tl]. cbn [map] in HP', HM'.
        rewrite (prod_ast_eval pe _ _ vs' HP' HM') by discriminate.
        destruct c0; try discriminate. cbn in Ht. cbn in Hx0. injection Hx0 as <-.
        cbn [prodz]. do 2 f_equal. lia.
    - (* EPow *) cbn [py_class] in Hc. destruct e2; try discriminate.
      apply andb_prop in Hc. destruct Hc as [Hc Hn].
      cbn [evalZ] in Hv. destruct (evalZ rho e1) as [a|] eqn:Ea; [|discriminate]. cbn [obind] in Hv.
      unfold pow_z in Hv. rewrite Hn in Hv. injection Hv as <-.
      split; [|discriminate]. cbn [pre_py py_ast].
      destruct (IHe1 Hc a Ea) as [HA _].
      rewrite (evalPy_bin pe BPow _ _ _ _ HA (lit_ast_eval pe v)). cbn. rewrite Hn. reflexivity.
    - (* ECall *) split; [|discriminate].
      rewrite (pre_call_class arrs f args) by exact Hc.
      cbn [py_class] in Hc. apply andb_prop in Hc. destruct Hc as [Hca Hk].
      rewrite evalZ_call in Hv. destruct (omap_list (evalZ rho) args) as [vs|] eqn:E; [|discriminate].
      cbn [obind] in Hv. apply omap_list_Forall2 in E.
      destruct (is_arr arrs f) eqn:Ea.
      + (* array read *)
        rewrite (not_intrinsic f Ea) in Hv.
        cbn [py_ast]. rewrite Ea. rewrite evalPy_index.
        assert (HI : Forall2 (fun p x => evalPy pe p = POk (VInt x))
                       (map (fun a => py_ast arrs a false) (map shift_idx args)) (map (fun k => k - 1) vs)).
        { clear Hv. induction E as [|a x args vs Hx _ IH]; [constructor|].
          inversion H as [|? ? Ha0 H']; subst. cbn [forallb] in Hca, Hk.
          apply andb_prop in Hca. destruct Hca as [Hc1 Hc2]. apply andb_prop in Hk. destruct Hk as [Hk1 Hk2].
          cbn [map]. constructor; [|apply IH; assumption].
          destruct (Ha0 Hc1 x Hx) as [HA HB]. rewrite (pre_id arrs a Hk1 Hc1) in HA, HB.
          apply shift_idx_eval; assumption. }
        rewrite (eval_idxs_ints pe _ _ HI). apply array_read; assumption.
      + (* min / max / abs *)
        pose proof (children_false args vs H Hca E) as HP.
        cbn [py_ast]. rewrite Ea. rewrite evalPy_call.
        pose proof (Forall2_length' _ _ _ E) as Hlen.
        unfold mapped_intrinsic in Hk.
        destruct (String.eqb f "min") eqn:E1.
        { apply String.eqb_eq in E1. subst f. cbn [orb andb] in Hk.
          change (String.eqb "min" "abs") with false in Hk. cbn [andb] in Hk. rewrite orb_false_r in Hk.
          change (rename_py "min") with "min"%string. change (known_fun "min") with true. cbn iota.
          rewrite (eval_args_ints pe _ _ HP).
          assert (Hl2 : (2 <= List.length vs)%nat) by (rewrite <- Hlen; apply Nat.leb_le; exact Hk).
          destruct vs as [|a [|b r]]; [cbn in Hl2; lia | cbn in Hl2; lia |].
          cbn in Hv. injection Hv as <-. cbn [map]. unfold py_builtin. cbn [String.eqb Ascii.eqb Bool.eqb].
          change (VInt b :: map VInt r) with (map VInt (b :: r)). rewrite fold_min_ints. reflexivity. }
        destruct (String.eqb f "max") eqn:E2.
        { apply String.eqb_eq in E2. subst f. cbn [orb andb] in Hk.
          change (String.eqb "max" "abs") with false in Hk. cbn [andb] in Hk. rewrite orb_false_r in Hk.
          change (rename_py "max") with "max"%string. change (known_fun "max") with true. cbn iota.
          rewrite (eval_args_ints pe _ _ HP).
          assert (Hl2 : (2 <= List.length vs)%nat) by (rewrite <- Hlen; apply Nat.leb_le; exact Hk).
          destruct vs as [|a [|b r]]; [cbn in Hl2; lia | cbn in Hl2; lia |].
          cbn in Hv. injection Hv as <-. cbn [map]. unfold py_builtin. cbn [String.eqb Ascii.eqb Bool.eqb].
          change (VInt b :: map VInt r) with (map VInt (b :: r)). rewrite fold_max_ints. reflexivity. }
        cbn [orb andb] in Hk.
        destruct (String.eqb f "abs") eqn:E3; [|discriminate].
        apply String.eqb_eq in E3. subst f. cbn [andb] in Hk. apply Nat.eqb_eq in Hk.
        change (rename_py "abs") with "abs"%string. change (known_fun "abs") with true. cbn iota.
        rewrite (eval_args_ints pe _ _ HP).
        rewrite Hk in Hlen. destruct vs as [|a [|b r]]; cbn in Hlen; try discriminate.
        cbn in Hv. injection Hv as <-. reflexivity.
  Qed.

  Theorem pyexpr_preserves e v :
    py_class arrs e = true -> evalZ rho e = Some v -> evalPy pe (pygen_model arrs e) = POk (VInt v).
  Proof. intros Hc Hv. exact (proj1 (Pa_all e Hc v Hv)). Qed.

  (** logical expressions *)
  Definition Pb (e : expr) : Prop :=
    py_class_b arrs e = true -> forall b, evalB rho e = Some b ->
    evalPy pe (py_ast arrs (pre_py arrs e) false) = POk (VBool b).

  Lemma children_bool cs bs :
    Forall Pb cs -> forallb (py_class_b arrs) cs = true ->
    Forall2 (fun c x => evalB rho c = Some x) cs bs ->
    Forall2 (fun p x => evalPy pe p = POk (VBool x)) (map (fun c => py_ast arrs c false) (map (pre_py arrs) cs)) bs.
  Proof.
    intros HF Hc H2. induction H2 as [|c x cs vs Hx _ IH]; [constructor|].
    inversion HF as [|? ? Hc0 HF']; subst. cbn [forallb] in Hc. apply andb_prop in Hc. destruct Hc as [Hc1 Hc2].
    cbn [map]. constructor; [apply (Hc0 Hc1 x Hx) | apply IH; assumption].
  Qed.

  Lemma Pb_all : forall e, Pb e.
  Proof.
    induction e using expr_ind'; unfold Pb; intros Hc b0 Hv; try discriminate.
    - (* ELog *) cbn in Hv. injection Hv as <-. reflexivity.
    - (* ECmp *) cbn [py_class_b] in Hc. apply andb_prop in Hc. destruct Hc as [Hc1 Hc2].
      cbn [evalB] in Hv. destruct (evalZ rho e1) as [x|] eqn:E1; [|discriminate].
      destruct (evalZ rho e2) as [y|] eqn:E2; [|discriminate]. cbn [obind] in Hv. injection Hv as <-.
      cbn [pre_py py_ast evalPy].
      rewrite (proj1 (Pa_all e1 Hc1 x E1)), (proj1 (Pa_all e2 Hc2 y E2)). reflexivity.
    - (* EAnd *) cbn [py_class_b] in Hc. apply andb_prop in Hc. destruct Hc as [Hn Hc].
      rewrite evalB_and in Hv. destruct (omap_list (evalB rho) cs) as [bs|] eqn:E; [|discriminate].
      cbn [obind] in Hv. injection Hv as <-. apply omap_list_Forall2 in E.
      cbn [pre_py py_ast]. apply (boolop_eval pe true); [apply children_bool; assumption|].
      destruct cs; [discriminate | discriminate].
    - (* EOr *) cbn [py_class_b] in Hc. apply andb_prop in Hc. destruct Hc as [Hn Hc].
      rewrite evalB_or in Hv. destruct (omap_list (evalB rho) cs) as [bs|] eqn:E; [|discriminate].
      cbn [obind] in Hv. injection Hv as <-. apply omap_list_Forall2 in E.
      cbn [pre_py py_ast]. apply (boolop_eval pe false); [apply children_bool; assumption|].
      destruct cs; [discriminate | discriminate].
    - (* ENot *) cbn [py_class_b] in Hc. cbn [evalB] in Hv.
      destruct (evalB rho e) as [x|] eqn:E1; [|discriminate]. cbn [obind] in Hv. injection Hv as <-.
      cbn [pre_py py_ast evalPy]. rewrite (IHe Hc x E1). reflexivity.
  Qed.

  Theorem pycond_preserves e b :
    py_class_b arrs e = true -> evalB rho e = Some b -> evalPy pe (pygen_model arrs e) = POk (VBool b).
  Proof. intros Hc Hv. exact (Pb_all e Hc b Hv). Qed.
End Preservation.
