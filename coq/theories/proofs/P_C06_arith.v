(** C06 — the arithmetic layer: [classify e m = Some k] implies that the printed text is a phrase of
    class [k] with the value of [e]. *)
From Coq Require Import ZArith List Bool String Lia ZifyBool.
From LV Require Import Base.Expr models.M_C06 proofs.P_C06_base.
Import ListNotations.
Open Scope Z_scope.

Definition stmt (e : expr) (m : mode) (k : cls) : Prop :=
  match m with
  | MP p => exists t, RA k (print LF e (MP p)) t /\ forall rho, evalF rho t = evalZ rho e
  | MT => exists ts t, print LF e MT = (if term_neg e then TMinus else TPlus) :: ts /\ RA k ts t /\
            forall rho, evalZ rho e = if term_neg e then oneg (evalF rho t) else evalF rho t
  end.

Definition IH (e : expr) : Prop := forall m k, classify e m = Some k -> stmt e m k.

Lemma stmt_MT_of_MP e :
  term_neg e = false ->
  print LF e MT = TPlus :: print LF e (MP PREC_SUM) ->
  classify e MT = classify e (MP PREC_SUM) ->
  (forall p k, classify e (MP p) = Some k -> stmt e (MP p) k) -> IH e.
Proof.
  intros Hn Hp Hc H m k. destruct m as [p|]; [apply H|].
  rewrite Hc. intro E. destruct (H _ _ E) as (t & HR & Hv).
  cbn [stmt]. rewrite Hn. exists (print LF e (MP PREC_SUM)), t.
  split; [exact Hp|]. split; [exact HR|]. intro rho; symmetry; apply Hv.
Qed.

Lemma paren_prim k ts t : RA k ts t -> G LPrim (paren ts) t.
Proof. intro H. unfold paren. apply G_paren, RA_expr with k, H. Qed.

Lemma to_prim_some o k : to_prim o = Some k -> k = KPrim /\ exists k', o = Some k'.
Proof. destruct o; cbn; intros [= <-]; eauto. Qed.

(** generic wrapper: a node whose body has class [kb] and which is parenthesised when [par] or the
    enclosing precedence exceeds [my] *)
Lemma wrap_ok (par : bool) (my p : nat) (body : option cls) (toks : list token) (v : env -> option Z) k :
  (forall kb, body = Some kb -> exists t, RA kb toks t /\ forall rho, evalF rho t = v rho) ->
  (if par || Nat.ltb my p then to_prim body else body) = Some k ->
  exists t, RA k (if par then paren toks else paren_if p my toks) t /\ forall rho, evalF rho t = v rho.
Proof.
  intros Hb. unfold paren_if. destruct par; cbn [orb].
  - intro E. apply to_prim_some in E. destruct E as (-> & kb & ->).
    destruct (Hb kb eq_refl) as (t & HR & Hv). exists t. split; [apply paren_prim with kb, HR | exact Hv].
  - destruct (Nat.ltb my p).
    + intro E. apply to_prim_some in E. destruct E as (-> & kb & ->).
      destruct (Hb kb eq_refl) as (t & HR & Hv). exists t. split; [apply paren_prim with kb, HR | exact Hv].
    + intro E. apply Hb, E.
Qed.

(** * Leaves *)
Lemma IH_int v : IH (EInt v).
Proof.
  apply stmt_MT_of_MP; try reflexivity.
  intros p k. cbn [classify cat_mode print at_mode stmt]. unfold tok_int.
  destruct (v <? 0) eqn:E.
  - destruct (Nat.ltb PREC_PRODUCT p); [discriminate|]. intros [= <-].
    exists (FNeg (FInt (- v))). split.
    + cbn [RA]. exists [TInt (- v)], (FInt (- v)). repeat split. apply G_prim_add, G_int. lia.
    + intro rho. cbn. f_equal. lia.
  - intros [= <-]. exists (FInt v). split; [cbn [RA]; apply G_int; lia | reflexivity].
Qed.

Lemma IH_py v : IH (EPy v).
Proof.
  apply stmt_MT_of_MP; try reflexivity.
  intros p k. cbn [classify cat_mode print at_mode stmt]. unfold print_const, tok_int.
  destruct (v <? 0) eqn:E; cbn [andb].
  - destruct (Nat.ltb PREC_SUM p); intros [= <-].
    + exists (FNeg (FInt (- v))). split.
      * cbn [RA]. unfold paren. apply G_paren, G_l2_expr, G_neg, G_prim_add, G_int. lia.
      * intro rho. cbn. f_equal. lia.
    + exists (FNeg (FInt (- v))). split.
      * cbn [RA]. exists [TInt (- v)], (FInt (- v)). repeat split. apply G_prim_add, G_int. lia.
      * intro rho. cbn. f_equal. lia.
  - intros [= <-]. exists (FInt v). split; [cbn [RA]; apply G_int; lia | reflexivity].
Qed.

Lemma IH_var x : IH (EVar x).
Proof.
  apply stmt_MT_of_MP; try reflexivity.
  intros p k. cbn [classify print at_mode stmt]. intros [= <-].
  exists (FVar x). split; [apply G_var | reflexivity].
Qed.

(** * Sums *)
Definition tcls (c : expr) := (term_neg c, classify c MT).

Lemma osub_oadd_neg a b c : oadd (osub a b) c = oadd a (oadd (oneg b) c). Proof. oz. Qed.

Lemma sum_rest (H : list token -> fx -> Prop) : forall r, Forall IH r ->
  forallb (term_ok false) (map tcls r) = true ->
  forall X tx, addchain H X tx ->
  exists t, addchain H (X ++ List.concat (map (fun c => print LF c MT) r)) t /\
    forall rho, evalF rho t = oadd (evalF rho tx) (fold_right (fun c acc => oadd (evalZ rho c) acc) (Some 0) r).
Proof.
  induction r as [|c r IHr]; intros HF Hok X tx HX.
  - exists tx. cbn. rewrite app_nil_r. split; [exact HX|]. intro; symmetry; apply oadd_0_r.
  - inversion HF as [|? ? Hc Hr]; subst.
    cbn [map forallb] in Hok. apply andb_prop in Hok. destruct Hok as [Hok1 Hok2].
    unfold tcls at 1 in Hok1.
    destruct (classify c MT) as [k|] eqn:Ek; [|destruct (term_neg c); discriminate].
    destruct (Hc MT k Ek) as (ts & t & Hp & HR & Hv).
    cbn [map List.concat]. rewrite Hp.
    destruct (term_neg c) eqn:En; cbn [term_ok] in Hok1.
    + assert (HA := RA_le_add _ _ _ Hok1 HR).
      destruct (IHr Hr Hok2 (X ++ TMinus :: ts) (FBin BSub tx t) (ac_minus _ _ _ _ _ HX HA)) as (t' & Ht' & Hv').
      exists t'. split.
      * rewrite <- app_assoc in Ht'. exact Ht'.
      * intro rho. rewrite Hv'. cbn [evalF fold_right]. rewrite Hv. apply osub_oadd_neg.
    + assert (HA := RA_unsigned _ _ _ (le_unsigned_4 _ Hok1) HR).
      destruct (addchain_app_plus H ts t HA X tx HX) as (t1 & Ht1 & Hv1).
      destruct (IHr Hr Hok2 (X ++ TPlus :: ts) t1 Ht1) as (t' & Ht' & Hv').
      exists t'. split.
      * rewrite <- app_assoc in Ht'. exact Ht'.
      * intro rho. rewrite Hv', Hv1. cbn [fold_right]. rewrite Hv. apply oadd_assoc.
Qed.

Lemma sum_from_head (H : list token -> fx -> Prop) par c0 r hd thd :
  Forall IH r -> forallb (term_ok false) (map tcls r) = true ->
  addchain H hd thd -> (forall rho, evalF rho thd = evalZ rho c0) ->
  exists t, addchain H (hd ++ List.concat (map (fun c => print LF c MT) r)) t /\
            forall rho, evalF rho t = evalZ rho (ESum par (c0 :: r)).
Proof.
  intros Hr Hok Hh Hv. destruct (sum_rest H r Hr Hok hd thd Hh) as (t & Ht & E).
  exists t. split; [exact Ht|]. intro rho. rewrite E, Hv, evalZ_sum. reflexivity.
Qed.

Lemma sum_body par cs kb : Forall IH cs -> sum_cls (map tcls cs) = Some kb ->
  exists t, RA kb (sum_toks (map (fun c => print LF c MT) cs)) t /\ forall rho, evalF rho t = evalZ rho (ESum par cs).
Proof.
  intros HF. destruct cs as [|c0 r]; [discriminate|].
  inversion HF as [|? ? Hc Hr]; subst.
  cbn [map sum_cls]. unfold tcls at 1.
  destruct (classify c0 MT) as [k0|] eqn:Ek.
  2:{ destruct (term_neg c0); cbn; discriminate. }
  destruct (Hc MT k0 Ek) as (ts & t & Hp & HR & Hv).
  destruct (term_ok true (term_neg c0, Some k0) && forallb (term_ok false) (map tcls r)) eqn:Eok; [|discriminate].
  apply andb_prop in Eok; destruct Eok as [Eok1 Eok2]. intros [= <-].
  unfold sum_toks. cbn [List.concat]. rewrite Hp.
  destruct (term_neg c0) eqn:En; cbn [term_ok orb] in *.
  - (* "-x ..." *)
    assert (HA := RA_le_add _ _ _ Eok1 HR).
    destruct (sum_from_head (signed (G LAdd)) par c0 r (TMinus :: ts) (FNeg t) Hr Eok2) as (t' & Ht' & Hv').
    + apply ac_hd. exists ts, t. repeat split. exact HA.
    + intro rho. rewrite Hv. reflexivity.
    + exists t'. split; [exact Ht' | exact Hv'].
  - destruct (cls_signed k0) eqn:Es.
    + destruct (sum_from_head (signed (G LAdd)) par c0 r ts t Hr Eok2) as (t' & Ht' & Hv').
      * apply RA_signed with k0; assumption.
      * intro rho. rewrite Hv. reflexivity.
      * exists t'. split; [exact Ht' | exact Hv'].
    + destruct (sum_from_head (G LAdd) par c0 r ts t Hr Eok2) as (t' & Ht' & Hv').
      * apply RA_unsigned with k0; assumption.
      * intro rho. rewrite Hv. reflexivity.
      * exists t'. split; [exact Ht' | exact Hv'].
Qed.

Lemma IH_sum par cs : Forall IH cs -> IH (ESum par cs).
Proof.
  intro HF. apply stmt_MT_of_MP; try reflexivity.
  intros p k. cbn [classify cat_mode print at_mode stmt]. intro E.
  change (map (fun c => (term_neg c, classify c MT)) cs) with (map tcls cs) in E.
  refine (wrap_ok par PREC_SUM p _ _ (fun rho => evalZ rho (ESum par cs)) k _ E).
  intros kb Hb. apply sum_body; assumption.
Qed.

(** * Products *)
Definition le2 (k : option cls) : bool := match k with Some k => le_unsigned k 2 | None => false end.
Definition c12 (c : expr) := classify c (MP PREC_PRODUCT).
Definition p12 (c : expr) := print LF c (MP PREC_PRODUCT).

Lemma prod_rest (A : list token -> fx -> Prop)
  (step : forall X tx Y ty, A X tx -> G LMul Y ty -> A (X ++ TStar :: Y) (FBin BMul tx ty)) :
  forall r, Forall IH r -> forallb le2 (map c12 r) = true ->
  forall X tx, A X tx ->
  exists t, A (X ++ flat_map (fun p => TStar :: p) (map p12 r)) t /\
     forall rho, evalF rho t = omul (evalF rho tx) (fold_right (fun c acc => omul (evalZ rho c) acc) (Some 1) r).
Proof.
  induction r as [|c r IHr]; intros HF Hok X tx HX.
  - exists tx. cbn. rewrite app_nil_r. split; [exact HX|]. intro; symmetry; apply omul_1_r.
  - inversion HF as [|? ? Hc Hr]; subst.
    cbn [map forallb] in Hok. apply andb_prop in Hok. destruct Hok as [Hok1 Hok2].
    unfold c12 at 1 in Hok1. destruct (classify c (MP PREC_PRODUCT)) as [k|] eqn:Ek; [|discriminate].
    cbn [le2] in Hok1.
    destruct (Hc _ k Ek) as (t & HR & Hv).
    assert (HC := RA_le_chain _ _ _ Hok1 HR).
    destruct (chain_app (option Z) evalF omul BMul TStar evalF_mul omul_assoc A (G LMul) step _ _ HC X tx HX)
      as (t1 & Ht1 & Hv1).
    destruct (IHr Hr Hok2 _ t1 Ht1) as (t' & Ht' & Hv').
    exists t'. split.
    + cbn [map flat_map]. unfold p12 at 1. rewrite <- app_assoc in Ht'. exact Ht'.
    + intro rho. rewrite Hv', Hv1. cbn [fold_right]. rewrite Hv. apply omul_assoc.
Qed.

Lemma is_m1_val c rho : is_m1 c = true -> evalZ rho c = Some (-1).
Proof. destruct c; cbn; try discriminate; intro E; f_equal; lia. Qed.
Lemma is_py_m1_val c rho : is_py_m1 c = true -> evalZ rho c = Some (-1).
Proof. destruct c; cbn; try discriminate; intro E; f_equal; lia. Qed.

Lemma prod_shape cs :
  (exists c0 c1, cs = [c0; c1] /\ is_m1 c0 = true) \/
  (prod_cls cs (map c12 cs) = chain_cls (map c12 cs) /\ prod_toks cs (map p12 cs) = join TStar (map p12 cs)).
Proof.
  destruct cs as [|c0 [|c1 [|c2 r]]]; try (right; split; reflexivity).
  cbn [map prod_cls prod_toks]. destruct (is_m1 c0) eqn:E; [left; eauto | right; split; reflexivity].
Qed.

Lemma chain_cls_some ks kb : chain_cls ks = Some kb ->
  exists k0 r, ks = Some k0 :: r /\ forallb le2 r = true /\
    ((le_unsigned k0 2 = true /\ kb = KChain) \/ (k0 = KAdd /\ kb = KAdd) \/ (k0 = KSAdd /\ kb = KSAdd)).
Proof.
  destruct ks as [|[k0|] r]; cbn [chain_cls]; try discriminate.
  change (forallb _ r) with (forallb le2 r).
  destruct (forallb le2 r) eqn:Er; [|discriminate].
  intro E. exists k0, r. split; [reflexivity|]. split; [exact Er|].
  destruct k0; inversion E; subst; auto.
Qed.

Lemma prod_body cs kb : Forall IH cs -> prod_cls cs (map c12 cs) = Some kb ->
  exists t, RA kb (prod_toks cs (map p12 cs)) t /\ forall rho, evalF rho t = evalZ rho (EProd false cs).
Proof.
  intros HF. destruct (prod_shape cs) as [(c0 & c1 & -> & Em) | (Ec & Et)].
  - (* "-x" *)
    cbn [map prod_cls prod_toks]. rewrite Em.
    inversion HF as [|? ? H0 HF1]; subst. inversion HF1 as [|? ? H1 _]; subst.
    unfold c12 at 1. destruct (classify c1 (MP PREC_PRODUCT)) as [k|] eqn:Ek; [|discriminate].
    destruct (le_unsigned k 3) eqn:El; [|discriminate]. intros [= <-].
    destruct (H1 _ k Ek) as (t & HR & Hv).
    exists (FNeg t). split.
    + cbn [RA]. exists (p12 c1), t. repeat split. apply RA_le_add with k; assumption.
    + intro rho. rewrite evalZ_prod. cbn [fold_right evalF]. rewrite (is_m1_val _ _ Em), omul_1_r, (omul_m1_l (evalZ rho c1)), Hv.
      reflexivity.
  - rewrite Ec, Et. intro E. apply chain_cls_some in E. destruct E as (k0 & rk & Eks & Hrest & Hk).
    destruct cs as [|c0 r]; [discriminate|].
    cbn [map] in Eks. injection Eks as E0 Er. subst rk.
    inversion HF as [|? ? H0 Hr]; subst.
    destruct (H0 _ k0 E0) as (t0 & HR0 & Hv0).
    cbn [map join].
    destruct Hk as [(Hle & ->) | [(-> & ->) | (-> & ->)]].
    + destruct (prod_rest mchain (ch_more (G LMul) TStar BMul) r Hr Hrest (p12 c0) t0 (RA_le_chain _ _ _ Hle HR0))
        as (t & Ht & Hv).
      exists t. split; [exact Ht|]. intro rho. rewrite Hv, Hv0, evalZ_prod. reflexivity.
    + destruct (prod_rest (G LAdd) G_times r Hr Hrest (p12 c0) t0 HR0) as (t & Ht & Hv).
      exists t. split; [exact Ht|]. intro rho. rewrite Hv, Hv0, evalZ_prod. reflexivity.
    + destruct HR0 as (ts' & t' & Ep & HA & ->).
      destruct (prod_rest (G LAdd) G_times r Hr Hrest ts' t' HA) as (t & Ht & Hv).
      exists (FNeg t). split.
      * cbn [RA]. exists (ts' ++ flat_map (fun p => TStar :: p) (map p12 r)), t.
        split; [unfold p12 at 1; rewrite Ep; reflexivity|]. split; [exact Ht | reflexivity].
      * intro rho. cbn [evalF]. rewrite Hv, evalZ_prod. cbn [fold_right]. rewrite <- Hv0. cbn [evalF].
        symmetry. apply omul_neg_l.
Qed.

Lemma IH_prod par cs : Forall IH cs -> IH (EProd par cs).
Proof.
  intro HF. destruct par.
  - (* ParenthesisedMul *)
    apply stmt_MT_of_MP; try reflexivity.
    intros p k. cbn [classify print at_mode stmt].
    change (map (fun c => classify c (MP PREC_PRODUCT)) cs) with (map c12 cs).
    change (map (fun c => print LF c (MP PREC_PRODUCT)) cs) with (map p12 cs).
    intro E. apply to_prim_some in E. destruct E as (-> & kb & Eb).
    destruct (prod_body cs kb HF Eb) as (t & HR & Hv).
    exists t. split; [apply paren_prim with kb, HR | exact Hv].
  - intros m k. destruct m as [p|].
    + cbn [classify print stmt].
      change (map (fun c => classify c (MP PREC_PRODUCT)) cs) with (map c12 cs).
      change (map (fun c => print LF c (MP PREC_PRODUCT)) cs) with (map p12 cs).
      intro E.
      refine (wrap_ok false PREC_PRODUCT p _ (prod_toks cs (map p12 cs)) (fun rho => evalZ rho (EProd false cs)) k _ E).
      intros kb Hb. apply prod_body; assumption.
    + cbn [classify print stmt term_neg].
      change (map (fun c => classify c (MP PREC_PRODUCT)) cs) with (map c12 cs).
      change (map (fun c => print LF c (MP PREC_PRODUCT)) cs) with (map p12 cs).
      destruct cs as [|c0 rcs]; [discriminate|]. cbn [map].
      inversion HF as [|? ? H0 Hr]; subst.
      destruct (is_py_m1 c0) eqn:Em.
      * intro E. destruct (prod_body rcs k Hr E) as (t & HR & Hv).
        exists (prod_toks rcs (map p12 rcs)), t. split; [reflexivity|]. split; [exact HR|].
        intro rho. rewrite evalZ_prod. cbn [fold_right]. rewrite (is_py_m1_val _ _ Em), Hv, evalZ_prod. apply omul_m1_l.
      * intro E. destruct (prod_body (c0 :: rcs) k HF E) as (t & HR & Hv).
        exists (prod_toks (c0 :: rcs) (map p12 (c0 :: rcs))), t. split; [reflexivity|]. split; [exact HR|].
        intro rho. symmetry. apply Hv.
Qed.

(** * Quotients and powers *)
Lemma IH_quot par n d : IH n -> IH d -> IH (EQuot par n d).
Proof.
  intros Hn Hd. apply stmt_MT_of_MP; try reflexivity.
  intros p k. cbn [classify cat_mode print at_mode stmt]. intro E.
  refine (wrap_ok par PREC_PRODUCT p _ _ (fun rho => evalZ rho (EQuot par n d)) k _ E).
  clear E. intros kb.
  destruct (classify n (MP PREC_PRODUCT)) as [kn|] eqn:En; [|discriminate].
  destruct (classify d (MP PREC_PRODUCT)) as [kd|] eqn:Ed; [|discriminate].
  destruct (le_unsigned kd 1) eqn:Eld; [|discriminate].
  destruct (Hn _ kn En) as (tn & HRn & Hvn). destruct (Hd _ kd Ed) as (td & HRd & Hvd).
  assert (HD := RA_le_mul _ _ _ Eld HRd).
  destruct (le_unsigned kn 3) eqn:Eln.
  - intros [= <-]. exists (FBin BDiv tn td). split.
    + cbn [RA]. apply G_div; [apply RA_le_add with kn; assumption | exact HD].
    + intro rho. cbn [evalF evalZ]. rewrite Hvn, Hvd. reflexivity.
  - destruct kn; try discriminate. intros [= <-].
    destruct HRn as (ts' & t' & Ep & HA & ->).
    exists (FNeg (FBin BDiv t' td)). split.
    + cbn [RA]. exists (ts' ++ TSlash :: print LF d (MP PREC_PRODUCT)), (FBin BDiv t' td).
      split; [rewrite Ep; reflexivity|]. split; [apply G_div; assumption | reflexivity].
    + intro rho. cbn [evalF evalZ]. rewrite <- Hvn, <- Hvd. cbn [evalF]. symmetry. apply odiv_neg_l.
Qed.

Lemma IH_pow par b x : IH b -> IH x -> IH (EPow par b x).
Proof.
  intros Hb Hx. apply stmt_MT_of_MP; try reflexivity.
  intros p k. cbn [classify cat_mode print at_mode stmt]. intro E.
  refine (wrap_ok par PREC_POWER p _ _ (fun rho => evalZ rho (EPow par b x)) k _ E).
  clear E. intros kb.
  destruct (classify b (MP PREC_POWER)) as [kb0|] eqn:Eb; [|discriminate].
  destruct (classify x (MP PREC_POWER)) as [kx|] eqn:Ex; [|destruct kb0; discriminate].
  destruct kb0; try discriminate.
  destruct (le_unsigned kx 1) eqn:El; [|discriminate]. intros [= <-].
  destruct (Hb _ _ Eb) as (tb & HRb & Hvb). destruct (Hx _ _ Ex) as (tx & HRx & Hvx).
  exists (FBin BPow tb tx). split.
  - cbn [RA]. apply G_pow; [exact HRb | apply RA_le_mul with kx; assumption].
  - intro rho. cbn [evalF evalZ]. rewrite Hvb, Hvx. reflexivity.
Qed.

(** * Calls *)
Definition evalF_list (rho : env) : list fx -> option (list Z) :=
  fix go (l : list fx) : option (list Z) :=
    match l with
    | [] => Some []
    | a :: r => obind (evalF rho a) (fun v => obind (go r) (fun vs => Some (v :: vs)))
    end.
Definition evalZ_list (rho : env) : list expr -> option (list Z) :=
  fix go (l : list expr) : option (list Z) :=
    match l with
    | [] => Some []
    | a :: r => obind (evalZ rho a) (fun v => obind (go r) (fun vs => Some (v :: vs)))
    end.
Definition call_k (rho : env) (f : string) (vs : list Z) : option Z :=
  match intrinsic f vs with Some r => r | None => ev_fun rho f vs end.
Lemma evalF_call rho f ts : evalF rho (FCall f ts) = obind (evalF_list rho ts) (call_k rho f).
Proof. reflexivity. Qed.
Lemma evalZ_call rho f args : evalZ rho (ECall f args) = obind (evalZ_list rho args) (call_k rho f).
Proof. reflexivity. Qed.

Lemma eval_args rho ts args : Forall2 (fun t a => forall rho, evalF rho t = evalZ rho a) ts args ->
  evalF_list rho ts = evalZ_list rho args.
Proof. induction 1 as [|t a ts args H _ IHf]; [reflexivity|]. cbn. rewrite H, IHf. reflexivity. Qed.

Lemma args_lemma : forall args, args <> [] -> Forall IH args ->
  forallb (fun a => is_some (classify a (MP PREC_NONE))) args = true ->
  exists ts, Gargs (join TComma (map (fun a => print LF a (MP PREC_NONE)) args)) ts /\
     Forall2 (fun t a => forall rho, evalF rho t = evalZ rho a) ts args.
Proof.
  induction args as [|a r IHr]; [congruence|]. intros _ HF Hok.
  inversion HF as [|? ? Ha Hr]; subst. cbn [forallb] in Hok. apply andb_prop in Hok. destruct Hok as [Hoka Hokr].
  destruct (classify a (MP PREC_NONE)) as [k|] eqn:Ek; [|discriminate].
  destruct (Ha _ k Ek) as (t & HR & Hv).
  destruct r as [|b r'].
  - exists [t]. split.
    + cbn. rewrite app_nil_r. apply Gargs_one, RA_expr with k, HR.
    + constructor; [exact Hv | constructor].
  - destruct (IHr ltac:(discriminate) Hr Hokr) as (ts & Hts & Hall).
    exists (t :: ts). split.
    + change (join TComma (map (fun a => print LF a (MP PREC_NONE)) (a :: b :: r')))
        with (print LF a (MP PREC_NONE) ++ TComma :: join TComma (map (fun a => print LF a (MP PREC_NONE)) (b :: r'))).
      apply Gargs_cons; [apply RA_expr with k, HR | exact Hts].
    + constructor; assumption.
Qed.

Lemma IH_call f args : Forall IH args -> IH (ECall f args).
Proof.
  intro HF. apply stmt_MT_of_MP; try reflexivity.
  intros p k. cbn [classify print at_mode stmt].
  destruct (forallb (fun a => is_some (classify a (MP PREC_NONE))) args) eqn:Eok; [|discriminate].
  intros [= <-]. destruct args as [|a r].
  - exists (FCall f []). split; [apply G_call0 | reflexivity].
  - destruct (args_lemma (a :: r) ltac:(discriminate) HF Eok) as (ts & Hts & Hall).
    exists (FCall f ts). split.
    + cbn [RA]. apply G_call, Hts.
    + intro rho. rewrite evalF_call, evalZ_call, (eval_args rho _ _ Hall). reflexivity.
Qed.

(** * The arithmetic layer *)
Lemma classify_sound : forall e, IH e.
Proof.
  induction e using expr_ind'.
  - apply IH_int.
  - apply IH_py.
  - apply IH_var.
  - intros m k; destruct m; discriminate.
  - apply IH_sum; assumption.
  - apply IH_prod; assumption.
  - apply IH_quot; assumption.
  - apply IH_pow; assumption.
  - intros m k; destruct m; discriminate.
  - intros m k; destruct m; discriminate.
  - intros m k; destruct m; discriminate.
  - intros m k; destruct m; discriminate.
  - apply IH_call; assumption.
Qed.

Lemma classify_mp e p k : classify e (MP p) = Some k ->
  exists t, RA k (print LF e (MP p)) t /\ forall rho, evalF rho t = evalZ rho e.
Proof. intro E. exact (classify_sound e (MP p) k E). Qed.
