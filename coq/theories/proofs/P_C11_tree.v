(** C11 — lemmas about trees: the printer is insensitive to the letter case of identifiers, hence so is the view. *)
From Coq Require Import ZArith List Bool String Ascii Arith Lia.
From LV Require Import Base.Strings models.M_C11 proofs.P_C11.
Import ListNotations.
Open Scope string_scope.
Open Scope Z_scope.

(* ---------------- trees: printing is insensitive to the letter case of identifiers ---------------- *)

Section TreeInd.
  Variable P : tree -> Prop.
  Hypothesis H : forall k name z lit kws ch, Forall P ch -> P (TN k name z lit kws ch).
  Fixpoint tree_ind' (t : tree) : P t :=
    match t with
    | TN k name z lit kws ch =>
        H k name z lit kws ch
          ((fix go (l : list tree) : Forall P l :=
              match l with
              | [] => Forall_nil P
              | x :: r => Forall_cons x (tree_ind' x) (go r)
              end) ch)
    end.
End TreeInd.

Lemma tsim_unfold k name z lit kws ch k' name' z' lit' kws' ch' :
  tsim (TN k name z lit kws ch) (TN k' name' z' lit' kws' ch') <->
  k = k' /\ lower name = lower name' /\ z = z' /\ lit = lit'
  /\ Forall2 (fun a b => lower a = lower b) kws kws' /\ Forall2 tsim ch ch'.
Proof.
  cbn [tsim].
  assert (A : forall l l',
             (fix all2 (l l' : list tree) : Prop :=
                match l, l' with
                | [], [] => True
                | a :: r, b :: r' => tsim a b /\ all2 r r'
                | _, _ => False
                end) l l' <-> Forall2 tsim l l').
  { induction l as [|a r IH]; destruct l' as [|b r'].
    - split; intros; [constructor|exact I].
    - split; intros Hx; [contradiction|inversion Hx].
    - split; intros Hx; [contradiction|inversion Hx].
    - split.
      + intros [H1 H2]. constructor; [exact H1|apply IH; exact H2].
      + intros Hx. inversion Hx; subst. split; [assumption|apply IH; assumption]. }
  rewrite A. tauto.
Qed.

Definition csim (s s' : string) : Prop := canon s = canon s'.

Lemma strip_blanks_app a b : strip_blanks (a ++ b) = strip_blanks a ++ strip_blanks b.
Proof. induction a as [|c r IH]; cbn; [reflexivity|]. destruct (Ascii.eqb c " "); cbn; now rewrite IH. Qed.
Lemma canon_app a b : canon (a ++ b) = canon a ++ canon b.
Proof. unfold canon. now rewrite lower_app, strip_blanks_app. Qed.

Lemma csim_refl s : csim s s. Proof. reflexivity. Qed.
Lemma csim_app a a' b b' : csim a a' -> csim b b' -> csim (a ++ b) (a' ++ b').
Proof. unfold csim. intros H1 H2. now rewrite !canon_app, H1, H2. Qed.
Lemma csim_name n n' : lower n = lower n' -> csim n n'.
Proof. unfold csim, canon. now intros ->. Qed.
Lemma csim_paren s s' : csim s s' -> csim (paren s) (paren s').
Proof. intros H. unfold paren. repeat apply csim_app; auto using csim_refl. Qed.
Lemma csim_paren_if s s' e m : csim s s' -> csim (paren_if s e m) (paren_if s' e m).
Proof. intros H. unfold paren_if. destruct (_ <? _)%nat; auto using csim_paren. Qed.
Lemma csim_join sep l l' : Forall2 csim l l' -> csim (join sep l) (join sep l').
Proof.
  induction 1 as [|x y r r' Hxy Hr IH]; [apply csim_refl|].
  cbn [join]. destruct Hr as [|x2 y2 r2 r2' Hxy2 Hr2]; [exact Hxy|].
  repeat apply csim_app; auto using csim_refl.
Qed.

Definition psim (p p' : pinfo) : Prop :=
  (forall e, csim (p_at p e) (p_at p' e)) /\ p_neg p = p_neg p' /\ csim (p_term p) (p_term p').

Lemma psim_refl p : psim p p.
Proof. repeat split. Qed.
Lemma psim_mk_plain f f' : (forall e, csim (f e) (f' e)) -> psim (mk_plain f) (mk_plain f').
Proof. intros H. repeat split; cbn; auto. Qed.
Lemma psim_at p p' e : psim p p' -> csim (p_at p e) (p_at p' e).
Proof. intros H. apply H. Qed.

Lemma Forall2_nth {A} (R : A -> A -> Prop) l l' d i : R d d -> Forall2 R l l' -> R (nth i l d) (nth i l' d).
Proof. intros Hd H. revert i. induction H; intros [|i]; cbn; auto. Qed.
Lemma Forall2_firstn {A} (R : A -> A -> Prop) n l l' : Forall2 R l l' -> Forall2 R (firstn n l) (firstn n l').
Proof. intros H. revert n. induction H; intros [|n]; cbn; auto. Qed.
Lemma Forall2_skipn {A} (R : A -> A -> Prop) n l l' : Forall2 R l l' -> Forall2 R (skipn n l) (skipn n l').
Proof. intros H. revert n. induction H; intros [|n]; cbn; auto. Qed.
Lemma Forall2_tl {A} (R : A -> A -> Prop) l l' : Forall2 R l l' -> Forall2 R (tl l) (tl l').
Proof. intros H. destruct H; cbn; auto. Qed.
Lemma Forall2_len {A} (R : A -> A -> Prop) l l' : Forall2 R l l' -> List.length l = List.length l'.
Proof. induction 1; cbn; auto. Qed.
Lemma Forall2_map2 {A B} (R : A -> A -> Prop) (S : B -> B -> Prop) (f : A -> B) l l' :
  (forall a b, R a b -> S (f a) (f b)) -> Forall2 R l l' -> Forall2 S (map f l) (map f l').
Proof. intros Hf H. induction H; cbn; auto. Qed.
Lemma Forall2_app2 {A} (R : A -> A -> Prop) l1 l1' l2 l2' :
  Forall2 R l1 l1' -> Forall2 R l2 l2' -> Forall2 R (l1 ++ l2)%list (l1' ++ l2')%list.
Proof. intros H1 H2. induction H1; cbn; auto. Qed.

Section PrNode.
  Variables cs cs' : list pinfo.
  Hypothesis Hcs : Forall2 psim cs cs'.

  Lemma nthp_sim i : psim (nthp cs i) (nthp cs' i).
  Proof. unfold nthp. apply Forall2_nth; [apply psim_refl|exact Hcs]. Qed.
  Lemma nthp_at i e : csim (p_at (nthp cs i) e) (p_at (nthp cs' i) e).
  Proof. apply psim_at, nthp_sim. Qed.
  Lemma len_cs : List.length cs = List.length cs'.
  Proof. eapply Forall2_len; eauto. Qed.
End PrNode.

Lemma map_at_sim cs cs' e : Forall2 psim cs cs' -> Forall2 csim (map (fun p => p_at p e) cs) (map (fun p => p_at p e) cs').
Proof. apply Forall2_map2. intros a b H. now apply psim_at. Qed.
Lemma args_at0_sim cs cs' : Forall2 psim cs cs' -> Forall2 csim (args_at0 cs) (args_at0 cs').
Proof. apply map_at_sim. Qed.

Lemma product_body_sim tags cs cs' : Forall2 psim cs cs' -> csim (product_body tags cs) (product_body tags cs').
Proof.
  intros H. unfold product_body. rewrite (Forall2_len _ _ _ H).
  destruct (_ && _).
  - apply csim_app; [apply csim_refl|]. apply csim_join, Forall2_tl, map_at_sim, H.
  - apply csim_join, map_at_sim, H.
Qed.

Lemma sum_terms_sim cs cs' : Forall2 psim cs cs' -> forall first, csim (sum_terms first cs) (sum_terms first cs').
Proof.
  induction 1 as [|p p' r r' Hp Hr IH]; intros first; [apply csim_refl|].
  cbn [sum_terms]. destruct Hp as (_ & Hn & Ht). rewrite Hn.
  repeat apply csim_app; auto using csim_refl.
Qed.

Lemma quotient_body_sim tags cs cs' : Forall2 psim cs cs' -> csim (quotient_body tags cs) (quotient_body tags cs').
Proof.
  intros H. unfold quotient_body.
  repeat apply csim_app; auto using csim_refl, nthp_at.
  destruct (fst (nthk tags 1)); auto using csim_paren, nthp_at.
Qed.

Lemma power_body_sim cs cs' : Forall2 psim cs cs' -> csim (power_body cs) (power_body cs').
Proof. intros H. unfold power_body. repeat apply csim_app; auto using csim_refl, nthp_at. Qed.

Lemma sym_text_sim n n' cs cs' : lower n = lower n' -> Forall2 psim cs cs' -> csim (sym_text n cs) (sym_text n' cs').
Proof.
  intros Hn H. unfold sym_text. destruct H as [|p p' r r' Hp Hr]; [now apply csim_name|].
  repeat apply csim_app; auto using csim_refl, csim_name, psim_at.
Qed.

Lemma kw_strings_sim kws kws' : Forall2 (fun a b => lower a = lower b) kws kws' ->
  forall cs cs', Forall2 psim cs cs' -> Forall2 csim (kw_strings kws cs) (kw_strings kws' cs').
Proof.
  induction 1 as [|k k' r r' Hk Hr IH]; intros cs cs' H; [constructor|].
  destruct H as [|p p' q q' Hp Hq]; cbn [kw_strings]; constructor; auto.
  repeat apply csim_app; auto using csim_refl, csim_name, psim_at.
Qed.

Lemma range_text_sim tags cs cs' : Forall2 psim cs cs' -> csim (range_text tags cs) (range_text tags cs').
Proof.
  intros H. unfold range_text.
  destruct (fst (nthk tags 2)); apply csim_join; auto using Forall2_firstn, args_at0_sim.
Qed.

Ltac csim_tac :=
  repeat lazymatch goal with
  | |- csim ?x ?x => apply csim_refl
  | |- csim (paren_if _ _ _) (paren_if _ _ _) => apply csim_paren_if
  | |- csim (paren _) (paren _) => apply csim_paren
  | |- csim (_ ++ _) (_ ++ _) => apply csim_app
  | |- csim (join _ _) (join _ _) => apply csim_join
  | |- csim (p_at (nthp _ _) _) (p_at (nthp _ _) _) => apply nthp_at; assumption
  | |- csim (sum_terms _ _) (sum_terms _ _) => apply sum_terms_sim
  | |- csim (product_body _ _) (product_body _ _) => apply product_body_sim
  | |- csim (quotient_body _ _) (quotient_body _ _) => apply quotient_body_sim
  | |- csim (power_body _) (power_body _) => apply power_body_sim
  | |- csim (range_text _ _) (range_text _ _) => apply range_text_sim
  | |- csim (sym_text _ _) (sym_text _ _) => apply sym_text_sim; [assumption|]
  | |- Forall2 csim (args_at0 _) (args_at0 _) => apply args_at0_sim
  | |- Forall2 csim (map _ _) (map _ _) => apply map_at_sim
  | |- Forall2 psim (tl _) (tl _) => apply Forall2_tl
  | |- Forall2 psim (firstn _ _) (firstn _ _) => apply Forall2_firstn
  | |- Forall2 psim (skipn _ _) (skipn _ _) => apply Forall2_skipn
  | |- Forall2 psim ?a ?b => assumption
  | |- csim ?n ?m => match goal with H : lower n = lower m |- _ => apply csim_name; exact H end
  | _ => fail
  end.

Lemma pr_node_sim k name name' z lit kws kws' tags cs cs' :
  lower name = lower name' -> Forall2 (fun a b => lower a = lower b) kws kws' -> Forall2 psim cs cs' ->
  psim (pr_node k name z lit kws tags cs) (pr_node k name' z lit kws' tags cs').
Proof.
  intros Hn Hk H.
  destruct k; cbn [pr_node];
    try solve [apply psim_mk_plain; intros e; csim_tac].
  - (* Array *)
    destruct (z =? 1).
    + apply psim_mk_plain; intros e.
      pose proof (Forall2_skipn _ 1%nat _ _ H) as Hd. pose proof (Forall2_firstn _ 1%nat _ _ H) as Hp.
      destruct Hd; csim_tac; constructor; assumption.
    + apply psim_mk_plain; intros e.
      destruct H; csim_tac; constructor; assumption.
  - (* Float *)
    apply psim_mk_plain; intros e. destruct (fst (nthk tags 0)); csim_tac.
  - (* Product *)
    destruct (is_pyneg1 (nthk tags 0)).
    + repeat split; cbn [p_at p_neg p_term fst snd].
      * intros e. csim_tac.
      * rewrite (Forall2_len _ _ _ H). destruct (_ =? _)%nat; csim_tac.
    + apply psim_mk_plain; intros e. csim_tac.
  - (* Cast *)
    apply psim_mk_plain; intros e. csim_tac. destruct (fst (nthk tags 1)); csim_tac.
  - (* Call *)
    apply psim_mk_plain; intros e. csim_tac.
    apply Forall2_app2; [csim_tac|].
    apply kw_strings_sim; [exact Hk|csim_tac].
Qed.

Definition tgood (t u : tree) : Prop :=
  ttag t = ttag u /\ psim (pr t) (pr u) /\ pyconst t = pyconst u /\ vsim (view_of t) (view_of u).

Lemma Forall_Forall2 {A} (P : A -> A -> Prop) (R : A -> A -> Prop) l l' :
  Forall (fun a => forall b, R a b -> P a b) l -> Forall2 R l l' -> Forall2 P l l'.
Proof.
  intros H H2. induction H2; constructor; inversion H; subst; auto.
Qed.

Lemma Forall2_map_eq {A B} (R : A -> A -> Prop) (f : A -> B) l l' :
  (forall a b, R a b -> f a = f b) -> Forall2 R l l' -> map f l = map f l'.
Proof. intros Hf H. induction H; cbn; [reflexivity|]. now rewrite (Hf _ _ H), IHForall2. Qed.

Lemma view_node_sim k z lit s s' fl vs vs' :
  csim s s' -> Forall2 vsim vs vs' -> vsim (view_node k z lit s fl vs) (view_node k z lit s' fl vs').
Proof.
  intros Hs Hv.
  assert (N : forall i, vsim (nthv vs i) (nthv vs' i))
    by (intros i; unfold nthv; apply Forall2_nth; [exact I|exact Hv]).
  destruct k; cbn [view_node vsim]; auto 10.
Qed.

Lemma tsim_good : forall t u, tsim t u -> tgood t u.
Proof.
  induction t as [k name z lit kws ch IH] using tree_ind'.
  intros [k' name' z' lit' kws' ch'] Hs.
  apply tsim_unfold in Hs. destruct Hs as (<- & Hn & <- & <- & Hk & Hc).
  pose proof (Forall_Forall2 tgood tsim _ _ IH Hc) as G.
  assert (Ht : map ttag ch = map ttag ch') by (eapply Forall2_map_eq; [|exact G]; intros a b H; apply H).
  assert (Hp : Forall2 psim (map pr ch) (map pr ch')) by (eapply Forall2_map2; [|exact G]; intros a b H; apply H).
  assert (Hy : map pyconst ch = map pyconst ch') by (eapply Forall2_map_eq; [|exact G]; intros a b H; apply H).
  assert (Hv : Forall2 vsim (map view_of ch) (map view_of ch')) by (eapply Forall2_map2; [|exact G]; intros a b H; apply H).
  assert (P : psim (pr (TN k name z lit kws ch)) (pr (TN k name' z lit kws' ch'))).
  { cbn [pr]. rewrite Ht. now apply pr_node_sim. }
  assert (Y : pyconst (TN k name z lit kws ch) = pyconst (TN k name' z lit kws' ch')).
  { cbn [pyconst]. rewrite Hy. destruct G; reflexivity. }
  repeat split.
  - apply P.
  - apply P.
  - apply P.
  - exact Y.
  - cbn [view_of]. rewrite Y. apply view_node_sim; [|exact Hv]. unfold tstr. apply P.
Qed.

Theorem tsim_view t u : tsim t u -> vsim (view_of t) (view_of u).
Proof. intros H. apply tsim_good in H. apply H. Qed.

Theorem tsim_canon t u : tsim t u -> canon (tstr t) = canon (tstr u).
Proof. intros H. apply tsim_good in H. destruct H as (_ & P & _). apply P. Qed.
