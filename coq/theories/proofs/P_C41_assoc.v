(** C41 — do_resolve_associates (start_depth 0) at unit level: on the class where C29's substitution is
    defined everywhere ([M_C29.valid]: ranks fit, no subscripted / assigned expression selector, DO variables
    are plain aliases) the unit produced by [T_assoc] is well-scoped: every name left in the flat body is a
    name of the enclosing unit, used with the kind it is declared with.

    Outside of the class: a whole-section assignment [q = 0] under [associate(q => arr(2:4))] is well-scoped
    in the source, the model of the mapper keeps [q] (the ranks do not fit) and the flat body refers to a name
    that no longer exists ([T_assoc_unresolved_refuted]). *)
From Coq Require Import ZArith List Bool String Ascii Lia.
From LV Require Import Base.Expr Base.MiniF models.M_C41 proofs.P_C41_base.
From LV Require models.M_C29.
Import ListNotations.

Module A := M_C29.

(* ------------------------------------------------------------------------------------------ *)
(** * small helpers *)

Lemma uses_ok_app env a b : uses_ok env (a ++ b) = uses_ok env a && uses_ok env b.
Proof. unfold uses_ok. apply forallb_app. Qed.

Lemma uses_ok_cons env u r : uses_ok env (u :: r) = use_ok env u && uses_ok env r.
Proof. reflexivity. Qed.

Lemma use_ok_any env x : use_ok env (x, UAny) = true <-> klookup env x <> None.
Proof.
  unfold use_ok. cbn. destruct (klookup env x); cbn; split; congruence.
Qed.

(** a use only depends on the kind the environment gives the name *)
Lemma use_ok_transfer env env' x y g :
  klookup env' y = klookup env x -> use_ok env (x, g) = true -> use_ok env' (y, g) = true.
Proof. unfold use_ok. cbn. intros ->. exact (fun H => H). Qed.

Lemma free_dims_cons d r :
  free_dims (d :: r) = (match d with A.DFree _ => S (free_dims r) | A.DFix _ => free_dims r end).
Proof. unfold free_dims. cbn. destruct d; reflexivity. Qed.

Lemma free_dims_subst sg ds : free_dims (map (A.subst_dim sg) ds) = free_dims ds.
Proof.
  induction ds as [|d r IH]; [reflexivity|].
  cbn [map]. rewrite !free_dims_cons, IH. destruct d; reflexivity.
Qed.

Lemma option_map_some {X Y} (f : X -> Y) o y : option_map f o = Some y -> exists x, o = Some x /\ y = f x.
Proof. destruct o as [x|]; cbn; [|discriminate]. intros H. inversion H. exists x. split; reflexivity. Qed.

(* ------------------------------------------------------------------------------------------ *)
(** * rank bookkeeping of [fille] / [filld] *)

Lemma fille_spec env ds : forall args idx,
  A.fille ds args = Some idx ->
  List.length idx = List.length ds
  /\ List.length args = free_dims ds
  /\ (uses_ok env (flat_map uses_dim ds) = true -> uses_ok env (uses_es args) = true ->
      uses_ok env (uses_es idx) = true).
Proof.
  induction ds as [|d r IH]; intros args idx H.
  - cbn in H. destruct args; [|discriminate]. inversion H; subst. repeat split; reflexivity.
  - destruct d as [e|off]; cbn [A.fille] in H.
    + apply option_map_some in H. destruct H as [i' [Hf ->]].
      destruct (IH _ _ Hf) as [L [F U]]. rewrite free_dims_cons. repeat split.
      * cbn. rewrite L. reflexivity.
      * exact F.
      * cbn [flat_map uses_dim uses_es]. rewrite !uses_ok_app. intros Hd Ha.
        apply andb_true_iff in Hd. destruct Hd as [He Hr]. rewrite He. cbn. apply U; assumption.
    + destruct args as [|a ar]; [discriminate|].
      apply option_map_some in H. destruct H as [i' [Hf ->]].
      destruct (IH _ _ Hf) as [L [F U]]. rewrite free_dims_cons. repeat split.
      * cbn. rewrite L. reflexivity.
      * cbn. rewrite F. reflexivity.
      * cbn [flat_map uses_dim uses_es app]. rewrite !uses_ok_app. intros Hd Ha.
        apply andb_true_iff in Ha. destruct Ha as [He Hr]. rewrite He. cbn. apply U; assumption.
Qed.

Lemma filld_spec env ds0 : forall ds r,
  A.filld ds0 ds = Some r ->
  List.length r = List.length ds0
  /\ free_dims r = free_dims ds
  /\ List.length ds = free_dims ds0
  /\ (uses_ok env (flat_map uses_dim ds0) = true -> uses_ok env (flat_map uses_dim ds) = true ->
      uses_ok env (flat_map uses_dim r) = true).
Proof.
  induction ds0 as [|d q IH]; intros ds r H.
  - cbn in H. destruct ds; [|discriminate]. inversion H; subst. repeat split; reflexivity.
  - destruct d as [e|off]; cbn [A.filld] in H.
    + apply option_map_some in H. destruct H as [r' [Hf ->]].
      destruct (IH _ _ Hf) as [L [F [G U]]]. rewrite !free_dims_cons. repeat split.
      * cbn. rewrite L. reflexivity.
      * exact F.
      * exact G.
      * cbn [flat_map uses_dim]. rewrite !uses_ok_app. intros Hd Ha.
        apply andb_true_iff in Hd. destruct Hd as [He Hr]. rewrite He. cbn. apply U; assumption.
    + destruct ds as [|a ar]; [discriminate|].
      apply option_map_some in H. destruct H as [r' [Hf ->]].
      destruct (IH _ _ Hf) as [L [F [G U]]]. rewrite !free_dims_cons. repeat split.
      * cbn. rewrite L. reflexivity.
      * rewrite F. reflexivity.
      * cbn. rewrite G. reflexivity.
      * cbn [flat_map uses_dim app]. rewrite !uses_ok_app. intros Hd Ha.
        apply andb_true_iff in Ha. destruct Ha as [He Hr]. rewrite He. cbn. apply U; assumption.
Qed.

Lemma is_some_inv {X} (o : option X) : A.is_some o = true -> exists x, o = Some x.
Proof. destruct o as [x|]; [exists x; reflexivity | discriminate]. Qed.

(* ------------------------------------------------------------------------------------------ *)
(** * the invariant between the substitution map and the scoped environment *)

(** [sg]: already-resolved selectors (innermost first); [envs]: the environment [ws_astmt] threads;
    [env0]: the environment of the unit.  An associate name has, inside the blocks, the kind of its
    resolved selector in the unit, and the resolved selector only uses names of the unit; any other name
    means inside the blocks what it means in the unit. *)
Definition inv (env0 : denv) (sg : A.smap) (envs : denv) : Prop :=
  forall x,
    match A.lookup sg x with
    | Some sl => uses_ok env0 (uses_sel sl) = true /\ sel_kind env0 sl = klookup envs x
    | None => klookup envs x = klookup env0 x
    end.

Lemma inv_nil env0 : inv env0 [] env0.
Proof. intros x. reflexivity. Qed.

Section Subst.
  Variables (env0 : denv) (sg : A.smap) (envs : denv).
  Hypothesis I : inv env0 sg envs.

  Definition PE (e : expr) : Prop :=
    uses_ok envs (uses_e e) = true -> A.okE sg e = true -> uses_ok env0 (uses_e (A.subst sg e)) = true.

  Lemma subst_list_ok cs :
    Forall PE cs ->
    uses_ok envs (flat_map uses_e cs) = true -> forallb (A.okE sg) cs = true ->
    uses_ok env0 (flat_map uses_e (map (A.subst sg) cs)) = true.
  Proof.
    induction 1 as [|e r He Hr IH]; [reflexivity|].
    cbn [flat_map map forallb]. rewrite !uses_ok_app, !andb_true_iff.
    intros [U1 U2] [O1 O2]. split; [apply He; assumption | apply IH; assumption].
  Qed.

  Lemma subst_ok e : PE e.
  Proof.
    induction e using expr_ind'; unfold PE in *.
    - reflexivity.
    - reflexivity.
    - (* EVar *)
      cbn [uses_e A.okE A.subst]. intros U O. specialize (I x).
      destruct (A.lookup sg x) as [[y|a ds|e']|].
      + destruct I as [I1 _]. exact I1.
      + apply is_some_inv in O. destruct O as [idx Hf]. rewrite Hf.
        destruct I as [I1 _]. cbn [uses_sel] in I1. rewrite uses_ok_cons in I1.
        apply andb_true_iff in I1. destruct I1 as [Ia Id].
        destruct (fille_spec env0 _ _ _ Hf) as [L [_ Uf]].
        cbn [uses_e]. rewrite uses_ok_app. apply andb_true_iff. split.
        * destruct (is_intr a); [reflexivity|]. rewrite uses_ok_cons, L, Ia. reflexivity.
        * apply Uf; [exact Id | reflexivity].
      + destruct I as [I1 _]. exact I1.
      + cbn [uses_e]. rewrite uses_ok_cons in *. apply andb_true_iff in U. destruct U as [U _].
        rewrite (use_ok_transfer envs env0 x x UAny); [reflexivity | symmetry; exact I | exact U].
    - reflexivity.
    - cbn [uses_e A.okE A.subst]. apply subst_list_ok. exact H.
    - cbn [uses_e A.okE A.subst]. apply subst_list_ok. exact H.
    - cbn [uses_e A.okE A.subst]. rewrite !uses_ok_app, !andb_true_iff.
      intros [U1 U2] [O1 O2]. split; [apply IHe1 | apply IHe2]; assumption.
    - cbn [uses_e A.okE A.subst]. rewrite !uses_ok_app, !andb_true_iff.
      intros [U1 U2] [O1 O2]. split; [apply IHe1 | apply IHe2]; assumption.
    - cbn [uses_e A.okE A.subst]. rewrite !uses_ok_app, !andb_true_iff.
      intros [U1 U2] [O1 O2]. split; [apply IHe1 | apply IHe2]; assumption.
    - cbn [uses_e A.okE A.subst]. apply subst_list_ok. exact H.
    - cbn [uses_e A.okE A.subst]. apply subst_list_ok. exact H.
    - cbn [uses_e A.okE A.subst]. exact IHe.
    - (* ECall *)
      cbn [uses_e A.okE A.subst]. change (A.is_intr f) with (is_intr f).
      rewrite uses_ok_app, !andb_true_iff.
      intros [U1 U2] [O1 O2].
      assert (Ua : uses_ok env0 (flat_map uses_e (map (A.subst sg) args)) = true)
        by (apply subst_list_ok; assumption).
      destruct (is_intr f) eqn:Ef.
      + cbn [uses_e]. rewrite Ef. cbn [app]. exact Ua.
      + rewrite uses_ok_cons in U1. apply andb_true_iff in U1. destruct U1 as [U1 _].
        specialize (I f).
        destruct (A.lookup sg f) as [[y|a ds|e']|].
        * destruct I as [_ I2]. cbn [sel_kind] in I2.
          cbn [uses_e]. rewrite uses_ok_app, Ua, andb_true_r.
          destruct (is_intr y); [reflexivity|]. rewrite uses_ok_cons, map_length, andb_true_r.
          apply (use_ok_transfer envs env0 f y); [exact I2 | exact U1].
        * apply is_some_inv in O2. destruct O2 as [idx Hf]. rewrite Hf.
          destruct I as [I1 _]. cbn [uses_sel] in I1. rewrite uses_ok_cons in I1.
          apply andb_true_iff in I1. destruct I1 as [Ia Id].
          destruct (fille_spec env0 _ _ _ Hf) as [L [_ Uf]].
          cbn [uses_e]. rewrite uses_ok_app. apply andb_true_iff. split.
          -- destruct (is_intr a); [reflexivity|]. rewrite uses_ok_cons, L, Ia. reflexivity.
          -- apply Uf; [exact Id | exact Ua].
        * discriminate.
        * cbn [uses_e]. rewrite Ef, uses_ok_app, Ua, andb_true_r, uses_ok_cons, map_length, andb_true_r.
          apply (use_ok_transfer envs env0 f f); [symmetry; exact I | exact U1].
  Qed.

  Lemma subst_es_ok l :
    uses_ok envs (uses_es l) = true -> forallb (A.okE sg) l = true ->
    uses_ok env0 (uses_es (map (A.subst sg) l)) = true.
  Proof.
    unfold uses_es. apply subst_list_ok. apply Forall_forall. intros e _. apply subst_ok.
  Qed.

  Lemma subst_oe_ok o :
    uses_ok envs (uses_oe o) = true -> match o with Some e => A.okE sg e | None => true end = true ->
    uses_ok env0 (uses_oe (option_map (A.subst sg) o)) = true.
  Proof. destruct o as [e|]; cbn [uses_oe option_map]; [apply subst_ok | reflexivity]. Qed.

  Lemma subst_dims_ok ds :
    uses_ok envs (flat_map uses_dim ds) = true -> forallb (A.okD sg) ds = true ->
    uses_ok env0 (flat_map uses_dim (map (A.subst_dim sg) ds)) = true.
  Proof.
    induction ds as [|d r IH]; [reflexivity|].
    cbn [flat_map map forallb]. rewrite !uses_ok_app, !andb_true_iff.
    intros [U1 U2] [O1 O2]. split; [|apply IH; assumption].
    destruct d as [e|off]; cbn [A.subst_dim uses_dim]; [apply subst_ok; assumption | reflexivity].
  Qed.

  (** selectors of an inner block *)
  Lemma subst_sel_ok sl :
    uses_ok envs (uses_sel sl) = true -> A.okS sg sl = true ->
    uses_ok env0 (uses_sel (A.subst_sel sg sl)) = true
    /\ sel_kind env0 (A.subst_sel sg sl) = sel_kind envs sl
    /\ sel_kind envs sl <> None.
  Proof.
    destruct sl as [y|a ds|e]; cbn [uses_sel A.okS A.subst_sel sel_kind].
    - intros U _. rewrite uses_ok_cons, andb_true_r in U. specialize (I y).
      destruct (A.lookup sg y) as [v|].
      + destruct I as [I1 I2]. repeat split; [exact I1 | exact I2|].
        apply use_ok_any. exact U.
      + cbn [uses_sel sel_kind]. rewrite uses_ok_cons, andb_true_r. repeat split.
        * apply (use_ok_transfer envs env0 y y); [symmetry; exact I | exact U].
        * symmetry. exact I.
        * apply use_ok_any. exact U.
    - rewrite uses_ok_cons, !andb_true_iff. intros [Ua Ud] [Od Ol].
      assert (Ud' := subst_dims_ok _ Ud Od).
      specialize (I a).
      destruct (A.lookup sg a) as [[b|b ds0|e']|].
      + destruct I as [_ I2]. cbn [sel_kind] in I2.
        cbn [uses_sel sel_kind]. rewrite free_dims_subst, uses_ok_cons, map_length, Ud', andb_true_r.
        repeat split; [|discriminate].
        apply (use_ok_transfer envs env0 a b); [exact I2 | exact Ua].
      + apply is_some_inv in Ol. destruct Ol as [r Hf]. rewrite Hf.
        destruct I as [I1 _]. cbn [uses_sel] in I1. rewrite uses_ok_cons in I1.
        apply andb_true_iff in I1. destruct I1 as [Ib Id0].
        destruct (filld_spec env0 _ _ _ Hf) as [L [F [_ Uf]]].
        cbn [uses_sel sel_kind]. rewrite F, free_dims_subst, uses_ok_cons, L, Ib.
        repeat split; [|discriminate]. apply Uf; assumption.
      + discriminate.
      + cbn [uses_sel sel_kind]. rewrite free_dims_subst, uses_ok_cons, map_length, Ud', andb_true_r.
        repeat split; [|discriminate].
        apply (use_ok_transfer envs env0 a a); [symmetry; exact I | exact Ua].
    - intros U O. repeat split; [apply subst_ok; assumption | discriminate].
  Qed.

  (** the block case: both maps are extended in step *)
  Lemma inv_ext l :
    forallb (fun p => uses_ok envs (uses_sel (snd p))) l = true ->
    forallb (fun p => A.okS sg (snd p)) l = true ->
    inv env0 (A.subst_assocs sg l ++ sg) (assoc_env envs l ++ envs).
  Proof.
    induction l as [|[x sl] r IH]; [intros _ _; exact I|].
    cbn [forallb snd]. rewrite !andb_true_iff. intros [U1 U2] [O1 O2].
    specialize (IH U2 O2).
    destruct (subst_sel_ok sl U1 O1) as [S1 [S2 S3]].
    intros y. specialize (IH y).
    unfold A.subst_assocs, assoc_env in *. cbn [map flat_map fst snd app A.lookup].
    destruct (sel_kind envs sl) as [k|] eqn:Ek; [|congruence].
    cbn [app klookup].
    destruct (String.eqb x y); [split; assumption | exact IH].
  Qed.

  (** left-hand sides and DO variables *)
  Lemma resolve_assign_ok x rhs :
    use_ok envs (x, UAny) = true -> A.okW sg x = true -> uses_ok env0 (uses_e rhs) = true ->
    uses_ok env0 (uses_stmt (A.resolve_assign sg x rhs)) = true.
  Proof.
    unfold A.okW, A.resolve_assign. intros U O R. specialize (I x).
    destruct (A.lookup sg x) as [[y|a ds|e']|].
    - destruct I as [I1 _]. cbn [uses_sel] in I1. rewrite uses_ok_cons, andb_true_r in I1.
      cbn [uses_stmt]. rewrite uses_ok_cons, I1. exact R.
    - apply is_some_inv in O. destruct O as [idx Hf]. rewrite Hf.
      destruct I as [I1 _]. cbn [uses_sel] in I1. rewrite uses_ok_cons in I1.
      apply andb_true_iff in I1. destruct I1 as [Ia Id].
      destruct (fille_spec env0 _ _ _ Hf) as [L [_ Uf]].
      cbn [uses_stmt]. rewrite uses_ok_cons, uses_ok_app, L, Ia, R, andb_true_r. cbn [andb].
      apply Uf; [exact Id | reflexivity].
    - discriminate.
    - cbn [uses_stmt]. rewrite uses_ok_cons, R, andb_true_r.
      apply (use_ok_transfer envs env0 x x); [symmetry; exact I | exact U].
  Qed.

  Lemma resolve_store_ok a idx rhs n :
    use_ok envs (a, UArr n) = true -> List.length idx = n -> A.okWa sg a idx = true ->
    uses_ok env0 (uses_es idx) = true -> uses_ok env0 (uses_e rhs) = true ->
    uses_ok env0 (uses_stmt (A.resolve_store sg a idx rhs)) = true.
  Proof.
    unfold A.okWa, A.resolve_store. intros U Hn O Ui R. specialize (I a).
    destruct (A.lookup sg a) as [[b|b ds|e']|].
    - destruct I as [_ I2]. cbn [sel_kind] in I2.
      cbn [uses_stmt]. rewrite uses_ok_cons, uses_ok_app, Ui, R, Hn, andb_true_r.
      apply (use_ok_transfer envs env0 a b); [exact I2 | exact U].
    - apply is_some_inv in O. destruct O as [i Hf]. rewrite Hf.
      destruct I as [I1 _]. cbn [uses_sel] in I1. rewrite uses_ok_cons in I1.
      apply andb_true_iff in I1. destruct I1 as [Ib Id].
      destruct (fille_spec env0 _ _ _ Hf) as [L [_ Uf]].
      cbn [uses_stmt]. rewrite uses_ok_cons, uses_ok_app, L, Ib, R, andb_true_r. cbn [andb].
      apply Uf; assumption.
    - discriminate.
    - cbn [uses_stmt]. rewrite uses_ok_cons, uses_ok_app, Ui, R, Hn, andb_true_r.
      apply (use_ok_transfer envs env0 a a); [symmetry; exact I | exact U].
  Qed.

  Lemma subst_name_ok v :
    use_ok envs (v, UScal) = true -> A.okV sg v = true -> use_ok env0 (A.subst_name sg v, UScal) = true.
  Proof.
    unfold A.okV, A.subst_name. intros U O. specialize (I v).
    destruct (A.lookup sg v) as [[y|a ds|e']|]; try discriminate.
    - destruct I as [_ I2]. cbn [sel_kind] in I2.
      apply (use_ok_transfer envs env0 v y); [exact I2 | exact U].
    - apply (use_ok_transfer envs env0 v v); [symmetry; exact I | exact U].
  Qed.
End Subst.

(* ------------------------------------------------------------------------------------------ *)
(** * statements *)

Definition PS (env0 : denv) (st : A.astmt) : Prop :=
  forall sg envs, inv env0 sg envs -> ws_astmt envs st = true -> A.valid_stmt sg st = true ->
                  uses_ok env0 (uses_stmts (A.resolve_stmt sg st)) = true.

Lemma resolve_list_ok env0 l :
  Forall (PS env0) l ->
  forall sg envs, inv env0 sg envs ->
    forallb (ws_astmt envs) l = true -> forallb (A.valid_stmt sg) l = true ->
    uses_ok env0 (flat_map uses_stmt (flat_map (A.resolve_stmt sg) l)) = true.
Proof.
  induction 1 as [|st r Hs Hr IH]; intros sg envs I W V; [reflexivity|].
  cbn [flat_map forallb] in *. apply andb_true_iff in W, V. destruct W as [W1 W2], V as [V1 V2].
  rewrite flat_map_app, uses_ok_app. apply andb_true_iff. split.
  - apply (Hs sg envs); assumption.
  - apply (IH sg envs); assumption.
Qed.

Lemma resolve_stmt_ok env0 st : PS env0 st.
Proof.
  induction st using A.astmt_ind'; unfold PS; intros sg envs I W V;
    cbn [ws_astmt A.valid_stmt A.resolve_stmt] in *; unfold uses_stmts; cbn [flat_map]; rewrite ?app_nil_r.
  - (* AAssign *)
    apply andb_true_iff in W, V. destruct W as [W1 W2], V as [V1 V2].
    apply (resolve_assign_ok env0 sg envs I); [exact W1 | exact V2|].
    apply (subst_ok env0 sg envs I); assumption.
  - (* AStore *)
    rewrite !andb_true_iff in W, V. destruct W as [[W1 W2] W3], V as [[V1 V2] V3].
    apply (resolve_store_ok env0 sg envs I a _ _ (List.length i)).
    + exact W1.
    + apply map_length.
    + exact V3.
    + apply (subst_es_ok env0 sg envs I); assumption.
    + apply (subst_ok env0 sg envs I); assumption.
  - (* ADo *)
    rewrite !andb_true_iff in W, V.
    destruct W as [[[[W1 W2] W3] W4] W5], V as [[[[V1 V2] V3] V4] V5].
    cbn [uses_stmt]. rewrite uses_ok_cons, !uses_ok_app, !andb_true_iff. repeat split.
    + apply (subst_name_ok env0 sg envs I); assumption.
    + apply (subst_ok env0 sg envs I); assumption.
    + apply (subst_ok env0 sg envs I); assumption.
    + apply (subst_oe_ok env0 sg envs I); assumption.
    + apply (resolve_list_ok env0 b H sg envs I); assumption.
  - (* AIf *)
    rewrite !andb_true_iff in W, V. destruct W as [[W1 W2] W3], V as [[V1 V2] V3].
    cbn [uses_stmt]. rewrite !uses_ok_app, !andb_true_iff. repeat split.
    + apply (subst_ok env0 sg envs I); assumption.
    + apply (resolve_list_ok env0 t H sg envs I); assumption.
    + apply (resolve_list_ok env0 e H0 sg envs I); assumption.
  - reflexivity.
  - (* AAssoc *)
    rewrite !andb_true_iff in W, V. destruct W as [W1 W2], V as [V1 V2].
    apply (resolve_list_ok env0 b H (A.subst_assocs sg a ++ sg) (assoc_env envs a ++ envs)).
    + apply inv_ext; assumption.
    + exact W2.
    + exact V2.
Qed.

(* ------------------------------------------------------------------------------------------ *)
(** * the unit-level theorem *)

Theorem T_assoc_preserves_well_scoped (u : unit (list A.astmt)) :
  well_scoped_a u ->
  A.valid (u_body u) = true ->
  well_scoped uses_stmts (T_assoc u).
Proof.
  intros [[N [Ar [_ [Sh [In Sk]]]]] W] V.
  unfold T_assoc, T_body, set_body, well_scoped, u_env in *. cbn.
  repeat split; try assumption.
  apply uses_ok_Forall. unfold A.resolve, A.resolve_list, uses_stmts.
  apply (resolve_list_ok (u_decls u ++ u_ext u) (u_body u)) with (envs := u_decls u ++ u_ext u).
  - apply Forall_forall. intros st _. apply resolve_stmt_ok.
  - apply inv_nil.
  - exact W.
  - exact V.
Qed.

(* ------------------------------------------------------------------------------------------ *)
(** * the class is inhabited; outside of it the property fails *)

Local Open Scope string_scope.

(** nested blocks, the inner one shadows both names of the outer one (its selectors are resolved in the
    outer scope); a section selector is used with a subscript on both sides, composed with a section of
    itself, and an element selector is assigned *)
Definition ex_unit : unit (list A.astmt) :=
  mkUnit ["arr"]
         [("arr", KArray 2); ("n", KScalar); ("i", KScalar); ("x", KScalar)]
         [] [("kmax", KScalar)] []
         [A.AAssoc [("q", A.SSec "arr" [A.DFree 0; A.DFix (EVar "n")]); ("s", A.SName "x")]
            [A.ADo "i" (EInt 1) (EVar "kmax") None
               [A.AStore "q" [EVar "i"] (ESum false [EVar "s"; ECall "q" [ECall "max" [EVar "i"; EInt 1]]]);
                A.AAssoc [("s", A.SSec "q" [A.DFix (EVar "i")]); ("q", A.SName "s"); ("r", A.SSec "q" [A.DFree 0])]
                  [A.AAssign "s" (ESum false [EVar "q"; ECall "r" [EVar "i"]]);
                   A.AAssoc [("i", A.SName "q")]
                     [A.ADo "i" (EInt 1) (EInt 2) None [A.AStore "r" [EInt 1] (EVar "i")]]]]]].

Example T_assoc_class_inhabited :
  well_scoped_ab ex_unit = true
  /\ A.valid (u_body ex_unit) = true
  /\ well_scopedb uses_stmts (T_assoc ex_unit) = true
  /\ u_body (T_assoc ex_unit) =
     [SDo "i" (EInt 1) (EVar "kmax") None
        [SStore "arr" [EVar "i"; EVar "n"]
                (ESum false [EVar "x"; ECall "arr" [ECall "max" [EVar "i"; EInt 1]; EVar "n"]]);
         SStore "arr" [EVar "i"; EVar "n"] (ESum false [EVar "x"; ECall "arr" [EVar "i"; EVar "n"]]);
         SDo "x" (EInt 1) (EInt 2) None [SStore "arr" [EInt 1; EVar "n"] (EVar "x")]]].
Proof. vm_compute. repeat split; reflexivity. Qed.

(** [associate(q => arr(2:4)); q = 0; end associate]: the whole-section assignment is well-scoped, the
    substitution is not defined on it (no subscript to bind the range to), the model keeps [q] *)
Definition bad_unit : unit (list A.astmt) :=
  mkUnit [] [("arr", KArray 1)] [] [] []
         [A.AAssoc [("q", A.SSec "arr" [A.DFree 1])] [A.AAssign "q" (EInt 0)]].

Example bad_unit_outside_class : A.valid (u_body bad_unit) = false.
Proof. vm_compute. reflexivity. Qed.

Theorem T_assoc_unresolved_refuted :
  exists u, well_scoped_a u /\ ~ well_scoped uses_stmts (T_assoc u).
Proof.
  exists bad_unit. split; [split|].
  - apply well_scopedb_spec. vm_compute. reflexivity.
  - vm_compute. reflexivity.
  - intros H. apply well_scopedb_spec in H. vm_compute in H. discriminate.
Qed.

Print Assumptions T_assoc_preserves_well_scoped.
Print Assumptions T_assoc_unresolved_refuted.
