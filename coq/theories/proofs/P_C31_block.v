(** C31 — split_loop: the blocked nest visits the same indices in the same order (index arithmetic). *)
From Coq Require Import ZArith List Bool Lia.
From LV Require Import models.M_C10 proofs.P_C10 models.M_C31.
Import ListNotations.
Open Scope Z_scope.

Lemma do_trips_unit m : do_trips 1 m 1 = iota_steps (Z.to_nat m) 1 1.
Proof.
  unfold do_trips, M_C10.trip_count. replace (m - 1 + 1) with m by lia. rewrite Z.quot_1_r. f_equal. lia.
Qed.

Lemma map_iota (f : Z -> Z) k s a : (forall l, f l = (l + k) * s + a) ->
  forall c l0, map f (iota_steps c l0 1) = iota_steps c ((l0 + k) * s + a) s.
Proof.
  intros Hf. induction c as [|c IH]; intros l0; cbn [iota_steps map]; [reflexivity|].
  rewrite Hf, IH. f_equal. f_equal. lia.
Qed.

Lemma iota_app m r : forall a s, iota_steps (m + r) a s = iota_steps m a s ++ iota_steps r (a + Z.of_nat m * s) s.
Proof.
  induction m as [|m IH]; intros a s; cbn [iota_steps Nat.add app].
  - f_equal. lia.
  - rewrite IH. f_equal. f_equal. f_equal. lia.
Qed.

Lemma blocks_from a s n B : 0 < B -> forall nb k0, 1 <= k0 ->
  nb = Z.to_nat (if n - (k0 - 1) * B <=? 0 then 0 else (n - (k0 - 1) * B - 1) / B + 1) ->
  flat_map (block_indices a s n B) (iota_steps nb k0 1) =
  iota_steps (Z.to_nat (n - (k0 - 1) * B)) (a + (k0 - 1) * B * s) s.
Proof.
  intros HB. induction nb as [|nb IH]; intros k0 Hk Hnb.
  - destruct (n - (k0 - 1) * B <=? 0) eqn:E.
    + replace (Z.to_nat (n - (k0 - 1) * B)) with 0%nat by lia. reflexivity.
    + assert (0 <= (n - (k0 - 1) * B - 1) / B) by (apply Z.div_pos; lia). lia.
  - destruct (n - (k0 - 1) * B <=? 0) eqn:E; [cbn in Hnb; lia|].
    set (r := n - (k0 - 1) * B) in *. assert (Hr : 0 < r) by lia.
    cbn [iota_steps flat_map]. unfold block_indices at 1. cbv zeta.
    rewrite do_trips_unit.
    rewrite (map_iota _ ((k0 - 1) * B + 1 - 1 - 1) s a) by (intros l; f_equal; lia).
    replace ((1 + ((k0 - 1) * B + 1 - 1 - 1)) * s + a) with (a + (k0 - 1) * B * s) by lia.
    replace (Z.min (k0 * B) n - ((k0 - 1) * B + 1) + 1) with (Z.min B r) by (unfold r; lia).
    rewrite (IH (k0 + 1)); [|lia|].
    + replace (k0 + 1 - 1) with k0 by lia.
      destruct (Z_le_gt_dec r B) as [Hle|Hgt].
      * replace (Z.to_nat (n - k0 * B)) with 0%nat by (unfold r in *; lia).
        replace (Z.min B r) with r by lia. cbn [iota_steps]. now rewrite app_nil_r.
      * replace (Z.min B r) with B by lia.
        replace (Z.to_nat r) with (Z.to_nat B + Z.to_nat (n - k0 * B))%nat by (unfold r in *; lia).
        rewrite iota_app. f_equal. f_equal. lia.
    + replace (k0 + 1 - 1) with k0 by lia.
      destruct (Z_le_gt_dec r B) as [Hle|Hgt].
      * assert (Hq : (r - 1) / B = 0) by (apply Z.div_small; lia).
        rewrite Hq in Hnb. replace (n - k0 * B <=? 0) with true by (unfold r in *; lia). lia.
      * replace (n - k0 * B <=? 0) with false by (unfold r in *; lia).
        assert (Hq : (r - 1) / B = (n - k0 * B - 1) / B + 1).
        { replace (r - 1) with ((n - k0 * B - 1) + 1 * B) by (unfold r; lia). now rewrite Z.div_add by lia. }
        rewrite Hq in Hnb.
        assert (0 <= (n - k0 * B - 1) / B) by (apply Z.div_pos; unfold r in *; lia). lia.
Qed.

(** the blocked nest enumerates a, a+s, ..., a+(n-1)s in order, for every block size B > 0 and every value n
    of num_iterations (nothing is visited when n <= 0) *)
Theorem block_split_indices a s n B : 0 < B -> blocked_indices a s n B = iota_steps (Z.to_nat n) a s.
Proof.
  intros HB. unfold blocked_indices. rewrite do_trips_unit. unfold num_blocks.
  destruct (Z_lt_le_dec 0 n) as [Hn|Hn].
  - rewrite (blocks_from a s n B HB _ 1) by
      (try lia; replace (n - (1 - 1) * B) with n by lia;
       replace (n <=? 0) with false by lia; rewrite Z.quot_div_nonneg by lia; reflexivity).
    replace (n - (1 - 1) * B) with n by lia. f_equal. lia.
  - replace (Z.to_nat n) with 0%nat by lia. cbn [iota_steps].
    assert (Hq : Z.quot (n - 1) B <= 0).
    { rewrite <- (Z.opp_involutive (n - 1)), Z.quot_opp_l by lia.
      assert (0 <= Z.quot (- (n - 1)) B) by (apply Z.quot_pos; lia). lia. }
    destruct (Z.to_nat (Z.quot (n - 1) B + 1)) as [|[|k]] eqn:Ek; [reflexivity| |lia].
    cbn [iota_steps flat_map]. unfold block_indices. cbv zeta. rewrite do_trips_unit.
    replace (Z.to_nat (Z.min (1 * B) n - ((1 - 1) * B + 1) + 1)) with 0%nat by lia. reflexivity.
Qed.

(** on the class where LoopRange.num_iterations is the Fortran trip count (or both denote an empty loop) the
    blocked nest visits exactly the DO-loop trips, in order *)
Theorem block_split_preserves a b s B :
  0 < B -> split_ok a b s = true ->
  blocked_indices a s (num_iterations a b s) B = do_trips a b s.
Proof.
  intros HB Hok. rewrite block_split_indices by exact HB. unfold do_trips. f_equal.
  unfold split_ok in Hok. apply Z.eqb_eq in Hok. lia.
Qed.

(** non-empty loops are in the class (C10) *)
Lemma split_ok_nonempty a b s : s <> 0 -> nonempty a b s = true -> split_ok a b s = true.
Proof.
  intros Hs Hne. unfold split_ok. apply Z.eqb_eq.
  pose proof (num_iterations_count a b s Hs Hne) as H. unfold do_trips in H. rewrite iota_steps_length in H.
  unfold nonempty in Hne. apply Z.ltb_lt in Hne. lia.
Qed.

(** outside the class the blocked loop runs an iteration that the DO loop does not have:
    DO i = 2, 1, 2 has no trip, num_iterations = (1-2)/2 + 1 = 1 *)
Theorem block_split_empty_refuted :
  exists a b s B, 0 < B /\ s <> 0 /\ blocked_indices a s (num_iterations a b s) B <> do_trips a b s.
Proof. exists 2, 1, 2, 3. repeat split; try lia. vm_compute. discriminate. Qed.

Example block_split_nonvacuous :
  split_ok 9 2 (-3) = true /\ blocked_indices 9 (-3) (num_iterations 9 2 (-3)) 2 = [9; 6; 3] /\
  split_ok 1 7 1 = true /\ blocked_indices 1 1 (num_iterations 1 7 1) 3 = [1; 2; 3; 4; 5; 6; 7] /\
  split_ok 5 1 1 = true /\ blocked_indices 5 1 (num_iterations 5 1 1) 2 = [].
Proof. vm_compute. repeat split; reflexivity. Qed.
