(** C43 — DynamicUboundCheckRule on MiniF: removing run-time checks that never fire preserves every run. *)
From Coq Require Import List String Ascii Bool Arith ZArith Lia.
From LV Require Import Base.Strings Base.Expr Base.MiniF Base.MiniFFacts models.M_C43.
Import ListNotations.

Lemma uboundfix_preserves ps : forall p s s',
  quiet (runs1 ps) p s ->
  (runs ps (ub_prog p) s s' <-> runs ps (ub_prog (ub_fix p)) s s').
Proof.
  induction p as [|u p IH]; intros s s' Hq; [reflexivity|].
  destruct u as [c b|st]; cbn [ub_prog ub_fix map filter to_minif] in *.
  - destruct Hq as [Hc Hq]. rewrite <- (IH s s' Hq). split.
    + intros H. apply runs_cons_inv in H as [s1 [H1 H2]].
      apply (runs1_if ps c b [] s s1 false Hc) in H1. apply runs_nil_inv in H1. subst. exact H2.
    + intros H. apply (runs_cons ps _ _ s s s'); [|exact H].
      apply (runs1_if ps c b [] s s false Hc). apply runs_nil.
  - split; intros H; apply runs_cons_inv in H as [s1 [H1 H2]]; apply (runs_cons ps _ _ s s1 s'); try exact H1;
      apply (IH s1 s' (Hq s1 H1)); exact H2.
Qed.

(** the hypothesis is satisfiable and necessary: a check that fires makes the two programs differ *)
Definition ub_ex : list ustmt :=
  [UStmt (SAssign "m" (EInt 1));
   UCheck (ECmp Clt (ECall "ubound" [EInt 1]) (EVar "n")) [SAssign "m" (EInt 99)];
   UStmt (SAssign "k" (ESum false [EVar "m"; EInt 1]))].

Definition st_of (ub n : Z) : store :=
  {| sv := fun x => if String.eqb x "n" then n else 0; av := fun a _ => if String.eqb a "ubound" then ub else 0 |}.

Definition run_k (p : list ustmt) (s : store) : option Z :=
  match exec [] 10 (ub_prog p) s with Some s' => Some (sv s' "k") | None => None end.

(** the check does not fire (extent 5 >= n = 3): same result *)
Example ub_quiet_example :
  quiet (runs1 []) ub_ex (st_of 5 3) /\ run_k ub_ex (st_of 5 3) = Some 2%Z /\ run_k (ub_fix ub_ex) (st_of 5 3) = Some 2%Z.
Proof.
  split; [|split; vm_compute; reflexivity].
  cbn [quiet ub_ex]. intros s1 H1. apply runs1_assign_inv in H1. destruct H1 as [v [Hv ->]].
  cbn in Hv. inversion Hv; subst. split; [vm_compute; reflexivity|]. intros s2 _. exact I.
Qed.

(** the check fires (extent 2 < n = 3): removing it changes the result - the hypothesis of the theorem is needed *)
Example ub_firing_check_changes_result :
  run_k ub_ex (st_of 2 3) = Some 100%Z /\ run_k (ub_fix ub_ex) (st_of 2 3) = Some 2%Z.
Proof. vm_compute. split; reflexivity. Qed.

(** * The selected extent belongs to a comparison of THIS array and THIS dimension *)
Lemma last_opt_In {A} (l : list A) x : last_opt l = Some x -> In x l.
Proof.
  induction l as [|y l IH]; cbn; [discriminate|]. destruct l as [|z l]; [intros H; inversion H; auto|].
  intros H. right. apply IH. exact H.
Qed.

Lemma ub_pick_sound conds a d b :
  ub_pick conds a d = Some b ->
  exists cs c, In cs conds /\ In c cs /\ lower (uc_arr c) = lower a /\ uc_dim c = d /\ uc_bound c = b.
Proof.
  unfold ub_pick, ub_cond. destruct (last_opt _) as [cs|] eqn:E; [|discriminate].
  apply last_opt_In in E. apply filter_In in E as [Hin _].
  destruct (find (ub_match a d) cs) as [c|] eqn:F; [|discriminate]. intros H. inversion H; subst.
  apply find_some in F as [Hc Hm]. unfold ub_match in Hm. apply andb_true_iff in Hm as [H1 H2].
  apply String.eqb_eq in H1. apply Nat.eqb_eq in H2. exists cs, c. auto.
Qed.

(** the order of the comparisons inside one conditional is irrelevant when every (array, dimension) is checked once *)
Example ub_pick_order :
  let c1 := [ {| uc_arr := "a"; uc_dim := 1; uc_bound := "n" |}; {| uc_arr := "B"; uc_dim := 1; uc_bound := "m" |} ] in
  let c2 := [ {| uc_arr := "B"; uc_dim := 1; uc_bound := "m" |}; {| uc_arr := "a"; uc_dim := 1; uc_bound := "n" |} ] in
  ub_pick [c1] "b" 1 = Some "m" /\ ub_pick [c2] "b" 1 = Some "m" /\ ub_pick [c1] "A" 1 = Some "n" /\ ub_pick [c2] "a" 1 = Some "n"
  /\ ub_pick [c1] "a" 2 = None.
Proof. vm_compute. repeat split; reflexivity. Qed.
