(** C32 — proofs, part 1: the constants map, expression rewriting ([simp], [simp_cond]) is exact. *)
From Coq Require Import ZArith List Bool String Lia.
From LV Require Import Base.Expr Base.MiniF Base.MiniFFacts models.M_C32.
Import ListNotations.
Open Scope Z_scope.

(** * the constants map *)

Lemma lookup_remove_eq m x : lookup (remove m x) x = None.
Proof.
  induction m as [|[k v] r IH]; cbn; [reflexivity|].
  destruct (String.eqb k x) eqn:E; [exact IH|]. cbn. now rewrite E.
Qed.

Lemma lookup_remove_neq m x y : x <> y -> lookup (remove m y) x = lookup m x.
Proof.
  intros N. induction m as [|[k v] r IH]; cbn; [reflexivity|].
  destruct (String.eqb k y) eqn:E.
  - apply String.eqb_eq in E. subst k.
    destruct (String.eqb y x) eqn:E2; [apply String.eqb_eq in E2; congruence|exact IH].
  - cbn. destruct (String.eqb k x); [reflexivity|exact IH].
Qed.

Lemma lookup_remove_some m x y v : lookup (remove m y) x = Some v -> lookup m x = Some v /\ x <> y.
Proof.
  intros H. destruct (String.eqb x y) eqn:E.
  - apply String.eqb_eq in E. subst. rewrite lookup_remove_eq in H. discriminate.
  - apply String.eqb_neq in E. rewrite lookup_remove_neq in H by exact E. now split.
Qed.

Lemma lookup_in m x v : lookup m x = Some v -> In (x, v) m.
Proof.
  induction m as [|[k w] r IH]; cbn; [discriminate|].
  destruct (String.eqb k x) eqn:E.
  - apply String.eqb_eq in E. intros H. inversion H. subst. now left.
  - intros H. right. now apply IH.
Qed.

Lemma has_val_true m x v : has_val m x v = true -> lookup m x = Some v.
Proof.
  unfold has_val. destruct (lookup m x) as [w|]; [|discriminate].
  intros H. apply Z.eqb_eq in H. now subst.
Qed.

Lemma lookup_merge m1 m2 x v : lookup (merge m1 m2) x = Some v -> lookup m1 x = Some v /\ lookup m2 x = Some v.
Proof.
  intros H. apply lookup_in in H. unfold merge in H. apply filter_In in H. destruct H as [_ H].
  cbn in H. apply andb_true_iff in H. destruct H as [A B]. split; now apply has_val_true.
Qed.

Lemma unknown_none m x : unknown m x = true -> lookup m x = None.
Proof. unfold unknown. destruct (lookup m x); [discriminate|reflexivity]. Qed.

Lemma disjoint_spec ws m x : disjoint ws m = true -> In x ws -> lookup m x = None.
Proof.
  unfold disjoint. intros H I. rewrite forallb_forall in H. apply unknown_none. now apply H.
Qed.

Lemma disjoint_not_in ws m x v : disjoint ws m = true -> lookup m x = Some v -> ~ In x ws.
Proof. intros H L I. rewrite (disjoint_spec ws m x H I) in L. discriminate. Qed.

Lemma submap_spec m1 m x v : submap m1 m = true -> lookup m1 x = Some v -> lookup m x = Some v.
Proof.
  unfold submap. intros H L. rewrite forallb_forall in H.
  apply lookup_in in L. apply H in L. cbn in L. now apply has_val_true.
Qed.

(** the map describes the store *)
Definition agrees (m : cmap) (s : store) : Prop := forall x v, lookup m x = Some v -> sv s x = v.

Lemma agrees_nil s : agrees [] s.
Proof. intros x v H. discriminate. Qed.

Lemma sv_set_same x v s : sv (set_sv x v s) x = v.
Proof. cbn. now rewrite String.eqb_refl. Qed.

Lemma sv_set_other x y v s : y <> x -> sv (set_sv x v s) y = sv s y.
Proof. intros N. cbn. destruct (String.eqb y x) eqn:E; [apply String.eqb_eq in E; congruence|reflexivity]. Qed.

Lemma agrees_remove m s x : agrees m s -> agrees (remove m x) s.
Proof. intros A y v H. apply lookup_remove_some in H. now apply A. Qed.

Lemma agrees_remove_set m s x v : agrees m s -> agrees (remove m x) (set_sv x v s).
Proof.
  intros A y w H. apply lookup_remove_some in H. destruct H as [H N].
  rewrite sv_set_other by exact N. now apply A.
Qed.

Lemma agrees_setc m s x v : agrees m s -> agrees (setc m x v) (set_sv x v s).
Proof.
  intros A y w H. unfold setc in H. cbn in H.
  destruct (String.eqb x y) eqn:E.
  - apply String.eqb_eq in E. subst y. inversion H. subst. apply sv_set_same.
  - apply String.eqb_neq in E. apply lookup_remove_some in H. destruct H as [H N].
    rewrite sv_set_other by exact N. now apply A.
Qed.

Lemma agrees_set_unknown m s x v : agrees m s -> lookup m x = None -> agrees m (set_sv x v s).
Proof.
  intros A U y w H. destruct (String.eqb y x) eqn:E.
  - apply String.eqb_eq in E. subst. congruence.
  - apply String.eqb_neq in E. rewrite sv_set_other by exact E. now apply A.
Qed.

Lemma agrees_merge_l m1 m2 s : agrees m1 s -> agrees (merge m1 m2) s.
Proof. intros A x v H. apply lookup_merge in H. now apply A. Qed.

Lemma agrees_merge_r m1 m2 s : agrees m2 s -> agrees (merge m1 m2) s.
Proof. intros A x v H. apply lookup_merge in H. now apply A. Qed.

Lemma agrees_submap m1 m s : submap m1 m = true -> agrees m s -> agrees m1 s.
Proof. intros S A x v H. apply A. eapply submap_spec; eassumption. Qed.

Lemma agrees_same_sv m s s' : (forall x, sv s' x = sv s x) -> agrees m s -> agrees m s'.
Proof. intros E A x v H. rewrite E. now apply A. Qed.

(** * structural equality of expressions decides equality *)

Lemma list_expr_eqb_eq cs :
  Forall (fun x => forall y, expr_eqb x y = true -> x = y) cs ->
  forall ds, list_expr_eqb cs ds = true -> cs = ds.
Proof.
  induction 1 as [|x r Hx Hr IH]; intros [|y q]; cbn; try discriminate; [reflexivity|].
  intros H. apply andb_true_iff in H. destruct H as [A B]. f_equal; [now apply Hx|now apply IH].
Qed.

Lemma bool_eqb_eq a b : Bool.eqb a b = true -> a = b.
Proof. destruct a, b; cbn; congruence. Qed.

Lemma expr_eqb_eq : forall a b, expr_eqb a b = true -> a = b.
Proof.
  induction a using expr_ind'; intros y; destruct y; try (cbn; discriminate).
  - cbn. intros E. apply Z.eqb_eq in E. now subst.
  - cbn. intros E. apply Z.eqb_eq in E. now subst.
  - cbn. intros E. apply String.eqb_eq in E. now subst.
  - cbn. intros E. apply bool_eqb_eq in E. now subst.
  - intros E. change (Bool.eqb p paren && list_expr_eqb cs cs0 = true) in E.
    apply andb_true_iff in E. destruct E as [A B]. apply bool_eqb_eq in A.
    apply (list_expr_eqb_eq cs H) in B. now subst.
  - intros E. change (Bool.eqb p paren && list_expr_eqb cs cs0 = true) in E.
    apply andb_true_iff in E. destruct E as [A B]. apply bool_eqb_eq in A.
    apply (list_expr_eqb_eq cs H) in B. now subst.
  - cbn. intros E. apply andb_true_iff in E. destruct E as [E C]. apply andb_true_iff in E. destruct E as [A B].
    apply bool_eqb_eq in A. apply IHa1 in B. apply IHa2 in C. now subst.
  - cbn. intros E. apply andb_true_iff in E. destruct E as [E C]. apply andb_true_iff in E. destruct E as [A B].
    apply bool_eqb_eq in A. apply IHa1 in B. apply IHa2 in C. now subst.
  - cbn. intros E. apply andb_true_iff in E. destruct E as [E C]. apply andb_true_iff in E. destruct E as [A B].
    apply IHa1 in B. apply IHa2 in C. subst. destruct op, op0; try discriminate; reflexivity.
  - intros E. change (list_expr_eqb cs cs0 = true) in E. apply (list_expr_eqb_eq cs H) in E. now subst.
  - intros E. change (list_expr_eqb cs cs0 = true) in E. apply (list_expr_eqb_eq cs H) in E. now subst.
  - cbn. intros E. apply IHa in E. now subst.
  - intros E. change (String.eqb f f0 && list_expr_eqb args args0 = true) in E.
    apply andb_true_iff in E. destruct E as [A B]. apply String.eqb_eq in A.
    apply (list_expr_eqb_eq args H) in B. now subst.
Qed.

(** * evaluation of the shapes the rewriting builds *)

Lemma ev_lit rho v : evalZ rho (lit v) = Some v.
Proof.
  unfold lit. destruct (v <? 0); cbn [evalZ fold_right obind]; [|reflexivity]. f_equal. lia.
Qed.

Lemma ev_sum2 rho p a b :
  evalZ rho (ESum p [a; b]) = obind (evalZ rho a) (fun x => obind (evalZ rho b) (fun y => Some (x + y))).
Proof.
  cbn [evalZ fold_right]. destruct (evalZ rho a) as [x|]; cbn [obind]; [|reflexivity].
  destruct (evalZ rho b) as [y|]; cbn [obind]; [|reflexivity]. f_equal. lia.
Qed.

Lemma ev_prod2 rho p a b :
  evalZ rho (EProd p [a; b]) = obind (evalZ rho a) (fun x => obind (evalZ rho b) (fun y => Some (x * y))).
Proof.
  cbn [evalZ fold_right]. destruct (evalZ rho a) as [x|]; cbn [obind]; [|reflexivity].
  destruct (evalZ rho b) as [y|]; cbn [obind]; [|reflexivity]. f_equal. lia.
Qed.

Lemma ev_negx rho x : evalZ rho (negx x) = obind (evalZ rho x) (fun v => Some (- v)).
Proof.
  unfold negx. rewrite ev_prod2. cbn [evalZ obind]. destruct (evalZ rho x); cbn [obind]; [f_equal; lia|reflexivity].
Qed.

Lemma ev_quot rho p a b :
  evalZ rho (EQuot p a b) = obind (evalZ rho a) (fun x => obind (evalZ rho b) (fun y => div_z x y)).
Proof. reflexivity. Qed.

Lemma is_intr_false f vs : is_intr f = false -> intrinsic f vs = None.
Proof.
  unfold is_intr, intrinsic. intros H.
  repeat (apply orb_false_iff in H; destruct H as [H ?]).
  now repeat match goal with E : String.eqb _ _ = false |- _ => rewrite E; clear E end.
Qed.

Lemma total_e_ev s : forall e, total_e e = true -> exists v, evalZ (env_st s) e = Some v.
Proof.
  induction e using expr_ind'; cbn [total_e]; try discriminate; intros T.
  - eexists; reflexivity.
  - eexists; reflexivity.
  - eexists; reflexivity.
  - cbn. induction H as [|c r Hc Hr IH]; cbn; [eexists; reflexivity|].
    cbn in T. apply andb_true_iff in T. destruct T as [T1 T2].
    destruct (Hc T1) as [v Ev]. destruct (IH T2) as [w Ew]. rewrite Ev. cbn in Ew |- *. rewrite Ew. cbn. eexists; reflexivity.
  - cbn. induction H as [|c r Hc Hr IH]; cbn; [eexists; reflexivity|].
    cbn in T. apply andb_true_iff in T. destruct T as [T1 T2].
    destruct (Hc T1) as [v Ev]. destruct (IH T2) as [w Ew]. rewrite Ev. cbn in Ew |- *. rewrite Ew. cbn. eexists; reflexivity.
  - apply andb_true_iff in T. destruct T as [T0 T]. apply negb_true_iff in T0.
    cbn [evalZ].
    assert (A : exists vs, (fix go (l : list expr) : option (list Z) :=
                match l with
                | [] => Some []
                | a :: r => obind (evalZ (env_st s) a) (fun v => obind (go r) (fun vs => Some (v :: vs)))
                end) args = Some vs).
    { induction H as [|c r Hc Hr IH]; [eexists; reflexivity|].
      cbn in T. apply andb_true_iff in T. destruct T as [T1 T2].
      destruct (Hc T1) as [v Ev]. destruct (IH T2) as [w Ew]. rewrite Ev. cbn [obind]. rewrite Ew. cbn. eexists; reflexivity. }
    destruct A as [vs A]. rewrite A. cbn [obind]. rewrite (is_intr_false f vs T0). cbn. eexists; reflexivity.
Qed.

(** * the binary rules are exact *)

Ltac ev_norm :=
  cbn [expr_of];
  repeat (progress (rewrite ?ev_lit, ?ev_negx, ?ev_sum2, ?ev_prod2, ?ev_quot; cbn [obind evalZ])).

Ltac z_hyps :=
  repeat match goal with
         | H : (_ =? _) = true |- _ => apply Z.eqb_eq in H
         | H : (_ =? _) = false |- _ => apply Z.eqb_neq in H
         | H : (_ <? _) = true |- _ => apply Z.ltb_lt in H
         | H : (_ <? _) = false |- _ => apply Z.ltb_ge in H
         | H : (_ <=? _) = true |- _ => apply Z.leb_le in H
         | H : (_ <=? _) = false |- _ => apply Z.leb_gt in H
         end.

Ltac ev_done :=
  try reflexivity;
  repeat match goal with
         | |- context [evalZ ?r ?e] => destruct (evalZ r e); cbn [obind]
         end;
  try reflexivity; try (f_equal; lia); try (f_equal; ring).

Definition sem (s : store) (a : sval) : option Z := evalZ (env_st s) (expr_of a).

Lemma sum2_sound s a b r :
  sum2 a b = Some r ->
  sem s r = obind (sem s a) (fun x => obind (sem s b) (fun y => Some (x + y))).
Proof.
  unfold sem. destruct a as [x|x|x|x], b as [y|y|y|y]; cbn [sum2]; try discriminate.
  - intros H; inversion H; subst; ev_norm; ev_done.
  - intros H; inversion H; subst. destruct (x =? 0) eqn:E; z_hyps; subst; ev_norm; ev_done.
  - intros H; inversion H; subst. destruct (x =? 0) eqn:E; z_hyps; subst; ev_norm; ev_done.
  - intros H; inversion H; subst. destruct (y =? 0) eqn:E; z_hyps; subst; ev_norm; ev_done.
  - destruct (expr_eqb x y) eqn:E; intros H; inversion H; subst.
    + apply expr_eqb_eq in E. subst. ev_norm. ev_done.
    + ev_norm. ev_done.
  - destruct (expr_eqb x y) eqn:E.
    + apply expr_eqb_eq in E. subst. destruct (total_e y) eqn:T; [|discriminate].
      intros H; inversion H; subst. destruct (total_e_ev s y T) as [v Ev]. ev_norm. rewrite Ev. cbn. f_equal. lia.
    + intros H; inversion H; subst. ev_norm. ev_done.
  - intros H; inversion H; subst. destruct (y =? 0) eqn:E; z_hyps; subst; ev_norm; ev_done.
  - destruct (expr_eqb x y) eqn:E.
    + apply expr_eqb_eq in E. subst. destruct (total_e y) eqn:T; [|discriminate].
      intros H; inversion H; subst. destruct (total_e_ev s y T) as [v Ev]. ev_norm. rewrite Ev. cbn. f_equal. lia.
    + intros H; inversion H; subst. ev_norm. ev_done.
Qed.

Lemma coef_sound s c y r :
  coef c y = Some r ->
  sem s r = obind (evalZ (env_st s) y) (fun v => Some (c * v)).
Proof.
  unfold coef, sem.
  destruct (c =? 0) eqn:E0.
  { destruct (total_e y) eqn:T; [|discriminate]. intros H; inversion H; subst. z_hyps; subst.
    destruct (total_e_ev s y T) as [v Ev]. rewrite Ev. cbn. reflexivity. }
  destruct (c =? 1) eqn:E1.
  { intros H; inversion H; subst. z_hyps; subst. cbn [expr_of]. ev_done. }
  destruct (c =? -1) eqn:E2.
  { intros H; inversion H; subst. z_hyps; subst. ev_norm. ev_done. }
  destruct (0 <? c) eqn:E3; intros H; inversion H; subst; ev_norm; ev_done.
Qed.

Lemma prod2_sound s a b r :
  prod2 a b = Some r ->
  sem s r = obind (sem s a) (fun x => obind (sem s b) (fun y => Some (x * y))).
Proof.
  destruct a as [x|x|x|x], b as [y|y|y|y]; cbn [prod2]; try discriminate.
  - unfold sem. intros H; inversion H; subst; ev_norm; ev_done.
  - intros H. rewrite (coef_sound s _ _ _ H). unfold sem. ev_norm. ev_done.
  - intros H. rewrite (coef_sound s _ _ _ H). unfold sem. ev_norm. ev_done.
  - unfold sem. intros H; inversion H; subst; ev_norm; ev_done.
Qed.

Lemma div_z_nz a b : b <> 0 -> div_z a b = Some (Z.quot a b).
Proof. intros N. unfold div_z. destruct (b =? 0) eqn:E; [apply Z.eqb_eq in E; congruence|reflexivity]. Qed.

Lemma div_z_0 a : div_z a 0 = None.
Proof. reflexivity. Qed.

Lemma quot2_sound s force a b r :
  quot2 force a b = Some r ->
  sem s r = obind (sem s a) (fun x => obind (sem s b) (fun y => div_z x y)).
Proof.
  unfold sem. destruct a as [x|x|x|x], b as [y|y|y|y]; cbn [quot2]; try discriminate.
  - destruct (y =? 0) eqn:E0; [discriminate|]. z_hyps.
    destruct force.
    { intros H; inversion H; subst. ev_norm. now rewrite div_z_nz. }
    destruct ((0 <=? x) && (0 <? y)); [|discriminate].
    destruct (Z.rem x y =? 0).
    { intros H; inversion H; subst. ev_norm. now rewrite div_z_nz. }
    destruct (Z.gcd x y =? 1); [|discriminate].
    intros H; inversion H; subst. ev_norm. reflexivity.
  - destruct (x =? 0) eqn:E0; [discriminate|]. z_hyps.
    destruct (0 <? x) eqn:E1; intros H; inversion H; subst; ev_norm.
    + reflexivity.
    + destruct (evalZ (env_st s) y) as [w|]; cbn [obind]; [|reflexivity].
      unfold div_z. destruct (w =? 0) eqn:Ew; cbn [obind]; [reflexivity|]. z_hyps.
      f_equal. rewrite Z.quot_opp_l by exact Ew. lia.
  - destruct (y =? 1) eqn:E1.
    { intros H; inversion H; subst. z_hyps; subst. ev_norm.
      destruct (evalZ (env_st s) x) as [w|]; cbn [obind]; [|reflexivity].
      rewrite div_z_nz by lia. now rewrite Z.quot_1_r. }
    destruct (y =? -1) eqn:E2.
    { intros H; inversion H; subst. z_hyps; subst. ev_norm.
      destruct (evalZ (env_st s) x) as [w|]; cbn [obind]; [|reflexivity].
      rewrite div_z_nz by lia. f_equal. change (-1) with (- (1)). rewrite Z.quot_opp_r by lia. now rewrite Z.quot_1_r. }
    destruct (0 <=? y) eqn:E3; intros H; inversion H; subst; ev_norm.
    + reflexivity.
    + z_hyps. destruct (evalZ (env_st s) x) as [w|]; cbn [obind]; [|reflexivity].
      rewrite !div_z_nz by lia. cbn [obind]. f_equal.
      rewrite Z.quot_opp_r by lia. lia.
  - intros H; inversion H; subst. ev_norm. reflexivity.
Qed.

(** * [simp] preserves the value of an expression (exactly, including undefinedness) *)

Theorem simp_sound force m s : agrees m s ->
  forall e r, simp force m e = Some r -> evalZ (env_st s) (expr_of r) = evalZ (env_st s) e.
Proof.
  intros A. induction e using expr_ind'; intros r; cbn [simp]; try discriminate.
  - intros H; inversion H; subst. apply ev_lit.
  - intros H; inversion H; subst. cbn [expr_of]. rewrite ev_lit. reflexivity.
  - destruct (lookup m x) as [v|] eqn:L; intros H; inversion H; subst; cbn [expr_of].
    + rewrite ev_lit. cbn. f_equal. symmetry. now apply A.
    + reflexivity.
  - destruct cs as [|a [|b [|c q]]]; try discriminate.
    inversion H as [|? ? Ha Hr]; subst. inversion Hr as [|? ? Hb _]; subst.
    destruct (simp force m a) as [x|] eqn:Ea; [|discriminate].
    destruct (simp force m b) as [y|] eqn:Eb; [|discriminate].
    intros S. pose proof (sum2_sound s _ _ _ S) as Q. unfold sem in Q. rewrite Q.
    rewrite (Ha _ eq_refl), (Hb _ eq_refl). now rewrite ev_sum2.
  - destruct cs as [|a [|b [|c q]]]; try discriminate.
    inversion H as [|? ? Ha Hr]; subst. inversion Hr as [|? ? Hb _]; subst.
    destruct (simp force m a) as [x|] eqn:Ea; [|discriminate].
    destruct (simp force m b) as [y|] eqn:Eb; [|discriminate].
    intros S. pose proof (prod2_sound s _ _ _ S) as Q. unfold sem in Q. rewrite Q.
    rewrite (Ha _ eq_refl), (Hb _ eq_refl). now rewrite ev_prod2.
  - destruct (simp force m e1) as [x|] eqn:Ea; [|discriminate].
    destruct (simp force m e2) as [y|] eqn:Eb; [|discriminate].
    intros S. pose proof (quot2_sound s _ _ _ _ S) as Q. unfold sem in Q. rewrite Q.
    rewrite (IHe1 _ eq_refl), (IHe2 _ eq_refl). reflexivity.
  - destruct (is_intr f); [discriminate|]. intros E; inversion E; subst. reflexivity.
Qed.

Lemma simp_e_sound force m s e e' : agrees m s -> simp_e force m e = Some e' ->
  evalZ (env_st s) e' = evalZ (env_st s) e.
Proof.
  unfold simp_e. intros A. destruct (simp force m e) as [r|] eqn:E; [|discriminate].
  intros H; inversion H; subst. eapply simp_sound; eassumption.
Qed.

Lemma simp_sv_value force m s e v : agrees m s -> simp force m e = Some (SV v) -> evalZ (env_st s) e = Some v.
Proof. intros A H. rewrite <- (simp_sound force m s A e _ H). apply ev_lit. Qed.

Lemma simp_list_sound force m s : agrees m s ->
  forall l l', simp_list force m l = Some l' -> eval_idx s l' = eval_idx s l.
Proof.
  intros A. induction l as [|e r IH]; intros l'; cbn.
  - intros H; inversion H; reflexivity.
  - destruct (simp_e force m e) as [e'|] eqn:E; [|discriminate].
    destruct (simp_list force m r) as [r'|] eqn:R; [|discriminate].
    intros H; inversion H; subst. unfold eval_idx in *. cbn.
    rewrite (simp_e_sound _ _ _ _ _ A E). now rewrite (IH _ eq_refl).
Qed.
