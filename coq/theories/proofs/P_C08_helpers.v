(** C08 — soundness of the helper functions of symbolic.py for truncating integer division
    (each helper preserves [tv] and definedness on the inputs where its guard holds). *)
From Coq Require Import ZArith List Bool String Lia.
From LV Require Import Base.Expr models.M_C08 proofs.P_C08_sem.
Import ListNotations.
Open Scope Z_scope.

Section Helpers.
Variable rho : env.

Notation tv := (tv rho).
Notation df := (df rho).
Notation sumv := (sumv rho).
Notation prodv := (prodv rho).
Notation alldf := (alldf rho).

(** value preservation on defined inputs *)
Definition zsound (e e' : sx) : Prop := df e = true -> df e' = true /\ tv e' = tv e.

Lemma zsound_refl e : zsound e e. Proof. intros H; auto. Qed.
Lemma zsound_trans a b c : zsound a b -> zsound b c -> zsound a c.
Proof. intros H1 H2 Ha. destruct (H1 Ha) as [Hb E1]. destruct (H2 Hb) as [Hc E2]. split; congruence. Qed.

(** * minus prefixes *)
Lemma is_py_m1_spec c : is_py_m1 c = true -> c = SPy (-1).
Proof. destruct c; try discriminate. cbn. intros H. apply Z.eqb_eq in H. congruence. Qed.

Lemma is_m1_tv c : is_m1 c = true -> tv c = -1 /\ df c = true.
Proof. destruct c; try discriminate; cbn; intros H; apply Z.eqb_eq in H; auto. Qed.

Lemma strip_spec e : is_minus_prefix e = true ->
  tv e = - tv (strip_minus_prefix e) /\ df e = df (strip_minus_prefix e).
Proof.
  destruct e; try discriminate. destruct cs as [|c0 rest]; [discriminate|].
  cbn [is_minus_prefix]. intros H. apply andb_true_iff in H as [_ H]. apply is_py_m1_spec in H. subst c0.
  cbn [strip_minus_prefix]. rewrite tv_prod, df_prod, prodv_cons, alldf_cons.
  change (tv (SPy (-1))) with (-1). change (df (SPy (-1))) with true. cbn [andb].
  destruct rest as [|c [|c' r]].
  - rewrite tv_prod, df_prod. split; [lia|reflexivity].
  - rewrite prodv_cons, prodv_nil, alldf_cons. cbn [P_C08_sem.alldf forallb]. rewrite andb_true_r. split; [lia|reflexivity].
  - rewrite tv_prod, df_prod. split; [lia|reflexivity].
Qed.

Lemma peel_f_spec fuel : forall e k c, peel_f fuel e = (k, c) ->
  tv e = sgn_of k * tv c /\ df e = df c.
Proof.
  induction fuel as [|f IH]; intros e k c; cbn [peel_f].
  - intros H; injection H as <- <-. change (sgn_of 0) with 1. split; [lia|reflexivity].
  - destruct (is_minus_prefix e) eqn:E.
    + destruct (peel_f f (strip_minus_prefix e)) as [n x] eqn:P. intros H; injection H as <- <-.
      destruct (strip_spec e E) as [Hv Hd]. destruct (IH _ _ _ P) as [Hv' Hd'].
      rewrite sgn_of_S, Hv, Hv', Hd, Hd'. split; [lia|reflexivity].
    + intros H; injection H as <- <-. change (sgn_of 0) with 1. split; [lia|reflexivity].
Qed.

Lemma peel_spec e k c : peel e = (k, c) -> tv e = sgn_of k * tv c /\ df e = df c.
Proof. apply peel_f_spec. Qed.

Lemma wrap_neg_spec k r : tv (wrap_neg k r) = sgn_of k * tv r /\ df (wrap_neg k r) = df r.
Proof.
  induction k as [|k [IHv IHd]]; cbn [wrap_neg].
  - change (sgn_of 0) with 1. split; [lia|reflexivity].
  - rewrite tv_prod, df_prod, prodv_cons, prodv_cons, prodv_nil, !alldf_cons, sgn_of_S, IHv, IHd.
    change (tv (SPy (-1))) with (-1). change (df (SPy (-1))) with true.
    cbn [P_C08_sem.alldf forallb andb]. rewrite andb_true_r. split; [lia|reflexivity].
Qed.

Lemma neg_pair_spec r : tv (SProd KL [SPy (-1); r]) = - tv r /\ df (SProd KL [SPy (-1); r]) = df r.
Proof. apply (wrap_neg_spec 1 r). Qed.

(** * bool(expr) *)
Lemma forallb_false_ex {A} (f : A -> bool) l : forallb f l = false -> exists x, In x l /\ f x = false.
Proof.
  induction l as [|a l IH]; cbn; [discriminate|]. destruct (f a) eqn:E; cbn.
  - intros H. destruct (IH H) as [x [Hi Hx]]. eauto.
  - intros _. eauto.
Qed.

Lemma truthy_false e : df e = true -> truthy e = false -> tv e = 0.
Proof.
  induction e using sx_ind'; cbn [truthy]; try discriminate.
  - cbn. intros _ H. apply negb_false_iff, Z.eqb_eq in H. assumption.
  - cbn. intros _ H. apply negb_false_iff, Z.eqb_eq in H. assumption.
  - destruct cs as [|c [|c' r]]; try discriminate. intros Hd Ht.
    inversion H as [|? ? Hc _]; subst. rewrite df_sum, alldf_cons in Hd. apply andb_true_iff in Hd as [Hd _].
    rewrite tv_sum, sumv_cons, sumv_nil, (Hc Hd Ht). lia.
  - intros Hd Ht. rewrite tv_prod. apply prodv_zero.
    destruct (forallb_false_ex _ _ Ht) as [c [Hin Hc]]. exists c. split; [assumption|].
    rewrite Forall_forall in H. apply (H c Hin); [|assumption].
    rewrite df_prod in Hd. apply alldf_forall in Hd. rewrite Forall_forall in Hd. auto.
  - intros Hd Ht. cbn [P_C08_sem.df] in Hd. apply andb_true_iff in Hd as [Hd _]. apply andb_true_iff in Hd as [Hd _].
    cbn [P_C08_sem.tv]. rewrite (IHe1 Hd Ht). reflexivity.
Qed.

(** * Python's [*] on expressions *)
Lemma is_py_some e a : is_py e = Some a -> e = SPy a.
Proof. destruct e; try discriminate. cbn. congruence. Qed.
Lemma prod_children_some e cs : prod_children e = Some cs -> exists k, e = SProd k cs.
Proof. destruct e; try discriminate. cbn. intros H; injection H as <-. eauto. Qed.

Lemma py_mul_spec x y : df x = true -> df y = true ->
  df (py_mul x y) = true /\ tv (py_mul x y) = tv x * tv y.
Proof.
  intros Hx Hy. unfold py_mul.
  assert (Hy0 : truthy y = false -> tv y = 0) by (apply truthy_false; assumption).
  destruct (is_py x) as [a|] eqn:Ex.
  - apply is_py_some in Ex; subst x. change (tv (SPy a)) with a.
    destruct (is_py y) as [b|] eqn:Ey.
    + apply is_py_some in Ey; subst y. split; reflexivity.
    + destruct (a =? 1) eqn:E1. { apply Z.eqb_eq in E1; subst. split; [assumption|lia]. }
      destruct (a =? 0) eqn:E0. { apply Z.eqb_eq in E0; subst. change (tv (SPy 0)) with 0. split; [reflexivity|lia]. }
      destruct (prod_children y) as [ys|] eqn:Py.
      * apply prod_children_some in Py as [k ->]. rewrite df_prod in Hy.
        rewrite !tv_prod, df_prod, alldf_cons, prodv_cons, Hy. split; reflexivity.
      * rewrite tv_prod, df_prod, !alldf_cons, !prodv_cons, prodv_nil, Hy. split; [reflexivity|].
        change (tv (SPy a)) with a. lia.
  - destruct (match is_py y with Some b => b =? 1 | None => false end) eqn:E1.
    + destruct (is_py y) as [b|] eqn:Ey; [|discriminate]. apply is_py_some in Ey; subst.
      apply Z.eqb_eq in E1; subst. change (tv (SPy 1)) with 1. split; [assumption|lia].
    + clear E1. destruct (prod_children x) as [xs|] eqn:Px.
      * apply prod_children_some in Px as [k ->]. rewrite df_prod in Hx. rewrite tv_prod.
        destruct (prod_children y) as [ys|] eqn:Py.
        -- apply prod_children_some in Py as [k' ->]. rewrite df_prod in Hy.
           rewrite !tv_prod, df_prod, alldf_app, prodv_app, Hx, Hy. split; reflexivity.
        -- destruct (truthy y) eqn:T.
           ++ rewrite tv_prod, df_prod, alldf_app, prodv_app, Hx, alldf_cons, prodv_cons, prodv_nil, Hy.
              split; [reflexivity|lia].
           ++ rewrite (Hy0 eq_refl). change (tv (SPy 0)) with 0. split; [reflexivity|lia].
      * destruct (truthy y) eqn:T.
        -- rewrite tv_prod, df_prod, !alldf_cons, !prodv_cons, prodv_nil, Hx, Hy. split; [reflexivity|lia].
        -- rewrite (Hy0 eq_refl). change (tv (SPy 0)) with 0. split; [reflexivity|lia].
Qed.

(** * distribute_product *)
Definition dpv (done : list (list sx)) : Z := fold_right (fun l a => prodv l + a) 0 done.
Definition dpd (done : list (list sx)) : bool := forallb alldf done.

Lemma dpv_cons l done : dpv (l :: done) = prodv l + dpv done. Proof. reflexivity. Qed.
Lemma dpv_app a b : dpv (a ++ b) = dpv a + dpv b.
Proof. induction a as [|x a IH]; cbn [app]; [reflexivity|]. rewrite !dpv_cons, IH. lia. Qed.
Lemma dpd_app a b : dpd (a ++ b) = dpd a && dpd b.
Proof. unfold dpd. apply forallb_app. Qed.

Lemma dpv_snoc done x : dpv (map (fun l => l ++ [x]) done) = dpv done * tv x.
Proof.
  induction done as [|l done IH]; [reflexivity|].
  cbn [map]. rewrite !dpv_cons, IH, prodv_app, prodv_cons, prodv_nil. lia.
Qed.
Lemma dpd_snoc done x : dpd done = true -> df x = true -> dpd (map (fun l => l ++ [x]) done) = true.
Proof.
  intros Hd Hx. induction done as [|l done IH]; [reflexivity|].
  cbn [map dpd forallb] in *. apply andb_true_iff in Hd as [Hl Hd].
  rewrite alldf_app, Hl, alldf_cons, Hx. cbn. apply IH. assumption.
Qed.
Lemma dpv_flat done cs : dpv (flat_map (fun c => map (fun l => l ++ [c]) done) cs) = dpv done * sumv cs.
Proof.
  induction cs as [|c cs IH]; cbn [flat_map]; [rewrite sumv_nil; cbn; lia|].
  rewrite dpv_app, dpv_snoc, IH, sumv_cons. lia.
Qed.
Lemma dpd_flat done cs : dpd done = true -> alldf cs = true ->
  dpd (flat_map (fun c => map (fun l => l ++ [c]) done) cs) = true.
Proof.
  intros Hd. induction cs as [|c cs IH]; cbn [flat_map]; [reflexivity|].
  rewrite alldf_cons. intros H. apply andb_true_iff in H as [Hc Hcs].
  rewrite dpd_app, dpd_snoc, IH by assumption. reflexivity.
Qed.

Definition dp_item_ok (item : sx) : Prop :=
  qfree item = true -> forall done den,
  exists done', dp_process item (done, den) = (done', den) /\
    dpv done' = dpv done * tv item /\
    (dpd done = true -> df item = true -> dpd done' = true) /\
    (done <> [] -> done' <> []).

Lemma dp_other_ok item done (den : list sx) :
  exists done', (map (fun l => l ++ [item]) done, den) = (done', den) /\
    dpv done' = dpv done * tv item /\
    (dpd done = true -> df item = true -> dpd done' = true) /\
    (done <> [] -> done' <> []).
Proof.
  eexists. split; [reflexivity|]. split; [apply dpv_snoc|]. split; [apply dpd_snoc|].
  destruct done; [congruence|discriminate].
Qed.

Lemma dp_fold_ok cs : Forall dp_item_ok cs -> forallb qfree cs = true -> forall done den,
  exists done', fold_left (fun s c => dp_process c s) cs (done, den) = (done', den) /\
    dpv done' = dpv done * prodv cs /\
    (dpd done = true -> alldf cs = true -> dpd done' = true) /\
    (done <> [] -> done' <> []).
Proof.
  induction 1 as [|c cs Hc _ IH]; intros Hq done den.
  - exists done. cbn [fold_left]. rewrite prodv_nil. repeat split; auto; lia.
  - cbn [forallb] in Hq. apply andb_true_iff in Hq as [Hqc Hqs].
    destruct (Hc Hqc done den) as [d1 [E1 [V1 [D1 N1]]]].
    destruct (IH Hqs d1 den) as [d2 [E2 [V2 [D2 N2]]]].
    exists d2. cbn [fold_left]. rewrite E1, E2. split; [reflexivity|]. rewrite V2, V1, prodv_cons.
    split; [lia|]. split; [|auto].
    intros Hd Ha. rewrite alldf_cons in Ha. apply andb_true_iff in Ha as [Ha1 Ha2]. auto.
Qed.

Lemma dp_process_qfree item : dp_item_ok item.
Proof.
  induction item using sx_ind'; unfold dp_item_ok; intros Hq done den; cbn [dp_process fst snd];
    try apply dp_other_ok.
  - destruct (v =? 1) eqn:E; [|apply dp_other_ok].
    apply Z.eqb_eq in E; subst. exists done. change (tv (SInt 1)) with 1. repeat split; auto; lia.
  - cbn [qfree] in Hq. destruct (is_KN k); [apply dp_other_ok|].
    destruct cs as [|c0 cs']; [discriminate|]. cbn [negb] in Hq.
    eexists. split; [reflexivity|]. rewrite tv_sum. split; [apply dpv_flat|]. split.
    + intros Hd Hs. apply dpd_flat; assumption.
    + intros Hn. destruct done as [|l done]; [congruence|]. discriminate.
  - cbn [qfree] in Hq. destruct (is_KN k); [apply dp_other_ok|].
    rewrite tv_prod. apply dp_fold_ok; assumption.
  - discriminate.
Qed.

Lemma parity_S n : Nat.odd (S n) = negb (Nat.odd n).
Proof. rewrite Nat.odd_succ, <- Nat.negb_odd. reflexivity. Qed.

Lemma prodv_filter_m1 comps :
  prodv comps = (if Nat.odd (List.length (filter is_m1 comps)) then -1 else 1)
                * prodv (filter (fun v => negb (is_m1 v)) comps).
Proof.
  induction comps as [|a comps IH]; [reflexivity|].
  cbn [filter]. rewrite prodv_cons, IH. destruct (is_m1 a) eqn:E; cbn [negb].
  - destruct (is_m1_tv a E) as [-> _]. cbn [List.length]. rewrite parity_S.
    destruct (Nat.odd (List.length (filter is_m1 comps))); cbn [negb]; lia.
  - rewrite prodv_cons. lia.
Qed.

Lemma alldf_filter f comps : alldf comps = true -> alldf (filter f comps) = true.
Proof.
  induction comps as [|a comps IH]; [reflexivity|]. rewrite alldf_cons. intros H.
  apply andb_true_iff in H as [Ha Hc]. cbn [filter]. destruct (f a); [rewrite alldf_cons, Ha|]; auto.
Qed.

Lemma list_node_spec (cs : list sx) (one : sx) : alldf cs = true ->
  df (match cs with [] => SInt 1 | [x] => x | _ => SProd KL cs end) = true /\
  tv (match cs with [] => SInt 1 | [x] => x | _ => SProd KL cs end) = prodv cs.
Proof.
  intros H. destruct cs as [|x [|y r]].
  - split; reflexivity.
  - rewrite alldf_cons in H. apply andb_true_iff in H as [H _]. rewrite prodv_cons, prodv_nil. split; [assumption|lia].
  - rewrite df_prod, tv_prod. auto.
Qed.

Lemma dp_component_spec comps : alldf comps = true ->
  df (dp_component comps) = true /\ tv (dp_component comps) = prodv comps.
Proof.
  intros H. unfold dp_component.
  pose proof (alldf_filter (fun v => negb (is_m1 v)) comps H) as Hf.
  destruct (list_node_spec (filter (fun v => negb (is_m1 v)) comps) (SInt 1) Hf) as [Hd Hv].
  rewrite (prodv_filter_m1 comps).
  destruct (Nat.odd (List.length (filter is_m1 comps))).
  - destruct (neg_pair_spec (match filter (fun v => negb (is_m1 v)) comps with [] => SInt 1 | [x] => x | _ => SProd KL (filter (fun v => negb (is_m1 v)) comps) end)) as [Nv Nd].
    rewrite Nv, Nd, Hv. split; [assumption|lia].
  - rewrite Hv. split; [assumption|lia].
Qed.

Lemma dp_sum_spec done : done <> [] -> dpd done = true ->
  df (match map dp_component done with [x] => x | ch => SSum KL ch end) = true /\
  tv (match map dp_component done with [x] => x | ch => SSum KL ch end) = dpv done.
Proof.
  intros Hn Hd.
  assert (G : alldf (map dp_component done) = true /\ sumv (map dp_component done) = dpv done).
  { clear Hn. induction done as [|l done IH]; [split; reflexivity|].
    cbn [dpd forallb] in Hd. apply andb_true_iff in Hd as [Hl Hd].
    destruct (dp_component_spec l Hl) as [Cd Cv]. destruct (IH Hd) as [Id Iv].
    cbn [map]. rewrite alldf_cons, sumv_cons, Cd, Cv, Id, Iv. split; reflexivity. }
  destruct G as [Gd Gv].
  destruct done as [|l1 [|l2 r]]; [congruence| |].
  - cbn [map] in *. rewrite alldf_cons in Gd. apply andb_true_iff in Gd as [Gd _].
    rewrite sumv_cons, sumv_nil in Gv. split; [assumption|lia].
  - cbn [map] in *. rewrite df_sum, tv_sum. auto.
Qed.

Lemma quot_node X d : df X = true -> df d = true -> tv d <> 0 ->
  df (SQuot false X d) = true /\ tv (SQuot false X d) = Z.quot (tv X) (tv d).
Proof.
  intros H1 H2 H3. cbn [P_C08_sem.df P_C08_sem.tv]. rewrite H1, H2. cbn [andb].
  split; [apply negb_true_iff, Z.eqb_neq; assumption|reflexivity].
Qed.

Lemma distribute_product_sound e : dp_safe e = true -> zsound e (distribute_product e).
Proof.
  intros Hs Hd. destruct e; try (split; [assumption|reflexivity]).
  cbn [distribute_product]. destruct (is_KN k) eqn:K; [split; [assumption|reflexivity]|].
  unfold dp_safe in Hs. apply orb_true_iff in Hs as [Hq|Hs].
  - (* quotient-free: a ring identity *)
    cbn [qfree] in Hq. rewrite K in Hq. unfold dp_children.
    assert (Hall : Forall dp_item_ok cs) by (apply Forall_forall; intros; apply dp_process_qfree).
    destruct (dp_fold_ok cs Hall Hq [[]] []) as [done [E [V [D N]]]].
    rewrite E. rewrite df_prod in Hd.
    assert (Hne : done <> []) by (apply N; discriminate).
    assert (Hdd : dpd done = true) by (apply D; [reflexivity|assumption]).
    destruct done as [|l0 done0]; [congruence|].
    destruct (dp_sum_spec (l0 :: done0) Hne Hdd) as [Sd Sv].
    assert (V' : dpv (l0 :: done0) = tv (SProd k cs)).
    { rewrite V, tv_prod. change (dpv [[]]) with 1. lia. }
    destruct (map dp_component (l0 :: done0)) as [|x [|y r]] eqn:M.
    + discriminate.
    + cbn [dp_retval]. split; [assumption|congruence].
    + cbn [dp_retval]. split; [assumption|congruence].
  - (* (-1) * (n / d) with quotient-free n *)
    destruct cs as [|u [|q [|x3 r3]]]; try discriminate; destruct q; try discriminate.
    rewrite K in Hs. cbn [negb andb] in Hs. apply andb_true_iff in Hs as [Hu Hq].
    destruct (is_m1_tv u Hu) as [Uv Ud].
    unfold dp_children. cbn [fold_left].
    assert (E0 : dp_process u ([[]], []) = ([[u]], [])).
    { destruct u; try discriminate; cbn [dp_process fst snd map app]; [|reflexivity].
      cbn in Hu. apply Z.eqb_eq in Hu. subst v. reflexivity. }
    rewrite E0. cbn [dp_process fst snd app].
    destruct (dp_process_qfree q1 Hq [[u]] [q2]) as [done [E [V [D N]]]].
    rewrite E.
    rewrite df_prod, !alldf_cons in Hd. cbn [P_C08_sem.alldf forallb] in Hd. rewrite andb_true_r in Hd.
    apply andb_true_iff in Hd as [_ Hd]. cbn [P_C08_sem.df] in Hd.
    apply andb_true_iff in Hd as [Hd Hz]. apply andb_true_iff in Hd as [Hd1 Hd2].
    apply negb_true_iff, Z.eqb_neq in Hz.
    assert (Hne : done <> []) by (apply N; discriminate).
    assert (Hdd : dpd done = true).
    { apply D; [|assumption]. cbn [dpd forallb]. rewrite alldf_cons, Ud. reflexivity. }
    assert (V' : dpv done = - tv q1).
    { rewrite V. cbn [dpv fold_right]. rewrite prodv_cons, prodv_nil, Uv. lia. }
    destruct done as [|l0 done0]; [congruence|].
    destruct (dp_sum_spec (l0 :: done0) Hne Hdd) as [Sd Sv].
    assert (G : tv (SProd k [u; SQuot p q1 q2]) = - Z.quot (tv q1) (tv q2)).
    { rewrite tv_prod, !prodv_cons, prodv_nil, Uv. cbn [P_C08_sem.tv]. lia. }
    rewrite G. rewrite <- Z.quot_opp_l by assumption. rewrite <- V', <- Sv.
    destruct (map dp_component (l0 :: done0)) as [|x [|y r]] eqn:M.
    + discriminate.
    + cbn [dp_retval]. apply quot_node; assumption.
    + cbn [dp_retval]. apply quot_node; assumption.
Qed.


(** * distribute_quotient *)
Definition dq_ok (r : sx * bool) (n d : sx) : Prop :=
  snd r = true -> df n = true -> df d = true -> tv d <> 0 ->
  df (fst r) = true /\ tv (fst r) = Z.quot (tv n) (tv d).

(** every item stands for a summand [v] of the numerator; a safe item has the value [v / dc] *)
Definition items_ok (dc : sx) (items : list (sx * bool)) (total : Z) : Prop :=
  exists vs, fold_right Z.add 0 vs = total /\
    Forall2 (fun it v => snd it = true -> df (fst it) = true /\ tv (fst it) = Z.quot v (tv dc)) items vs.

Lemma items_ok_app dc a b ta tb : items_ok dc a ta -> items_ok dc b tb -> items_ok dc (a ++ b) (ta + tb).
Proof.
  intros [va [Sa Fa]] [vb [Sb Fb]]. exists (va ++ vb). split.
  - rewrite fold_right_app. rewrite Sb. clear Fa. revert ta Sa. induction va as [|x va IH]; cbn; intros; [lia|].
    rewrite (IH (fold_right Z.add 0 va) eq_refl). lia.
  - apply Forall2_app; assumption.
Qed.

Lemma items_ok_single dc m : df m = true -> df dc = true -> tv dc <> 0 ->
  items_ok dc [(SQuot false m dc, true)] (tv m).
Proof.
  intros Hm Hd Hz. exists [tv m]. split; [cbn; lia|]. constructor; [|constructor].
  intros _. apply quot_node; assumption.
Qed.

Lemma dq_items_spec rec dc : (forall x y, dq_ok (rec x y) x y) -> df dc = true -> tv dc <> 0 ->
  forall m, df m = true -> items_ok dc (dq_items rec dc m) (tv m).
Proof.
  intros Hrec Hd Hz. induction m using sx_ind'; intros Hm; cbn [dq_items];
    try (apply items_ok_single; assumption).
  - destruct (v =? 0) eqn:E; [|apply items_ok_single; assumption].
    apply Z.eqb_eq in E; subst. exists []. split; [reflexivity|constructor].
  - destruct (is_KN k); [apply items_ok_single; assumption|].
    rewrite tv_sum. rewrite df_sum in Hm. induction H as [|c cs Hc _ IH]; cbn [flat_map].
    + exists []. split; [reflexivity|constructor].
    + rewrite alldf_cons in Hm. apply andb_true_iff in Hm as [Hm1 Hm2]. rewrite sumv_cons.
      apply items_ok_app; auto.
  - cbn [P_C08_sem.df] in Hm. apply andb_true_iff in Hm as [Hm Hnz]. apply andb_true_iff in Hm as [Hm1 Hm2].
    apply negb_true_iff, Z.eqb_neq in Hnz.
    destruct (py_mul_spec m2 dc Hm2 Hd) as [Pd Pv].
    exists [tv (SQuot p m1 m2)]. split; [cbn; lia|]. constructor; [|constructor].
    intros Hs. destruct (Hrec m1 (py_mul m2 dc) Hs Hm1 Pd) as [Rd Rv].
    { rewrite Pv. lia. }
    split; [assumption|]. rewrite Rv, Pv. cbn [P_C08_sem.tv]. rewrite Z.quot_quot by assumption. reflexivity.
Qed.

Lemma dq_finish_spec kd dc items n : items_ok dc items (tv n) ->
  snd (dq_finish kd items) = true ->
  df (fst (dq_finish kd items)) = true /\ tv (fst (dq_finish kd items)) = sgn_of kd * Z.quot (tv n) (tv dc).
Proof.
  intros [vs [S F]] Hs. unfold dq_finish in *. cbn [fst snd] in *.
  apply andb_true_iff in Hs as [Hl Ha]. apply Nat.eqb_eq in Hl.
  destruct items as [|[r s] [|? ?]]; try discriminate.
  inversion F as [|? v ? vs' Hv F']; subst. inversion F'; subst.
  cbn [forallb snd fst] in *. rewrite andb_true_r in Ha. destruct (Hv Ha) as [Rd Rv].
  destruct (wrap_neg_spec kd r) as [Wv Wd]. rewrite Wv, Wd, Rv. split; [assumption|].
  cbn in S. replace (tv n) with v by lia. reflexivity.
Qed.

Lemma dq_spec fuel : forall n d, dq_ok (dq fuel n d) n d.
Proof.
  induction fuel as [|f IH]; intros n d; cbn [dq]; [intros H; discriminate|].
  destruct (is_minus_prefix n) eqn:E.
  - intros Hs Hn Hd Hz. unfold neg_r in *. cbn [fst snd] in *.
    destruct (strip_spec n E) as [Sv Sd]. rewrite Sd in Hn.
    destruct (IH _ _ Hs Hn Hd Hz) as [Rd Rv].
    destruct (neg_pair_spec (fst (dq f (strip_minus_prefix n) d))) as [Nv Nd].
    rewrite Nv, Nd, Rv, Sv. split; [assumption|]. rewrite Z.quot_opp_l by assumption. reflexivity.
  - destruct (peel d) as [kd dc] eqn:P. intros Hs Hn Hd Hz.
    destruct (peel_spec d kd dc P) as [Pv Pd]. rewrite Pd in Hd.
    assert (Hz' : tv dc <> 0).
    { intros C. apply Hz. rewrite Pv, C. lia. }
    pose proof (dq_items_spec (dq f) dc IH Hd Hz' n Hn) as Hi.
    destruct (dq_finish_spec kd dc _ n Hi Hs) as [Fd Fv].
    split; [assumption|]. rewrite Fv, Pv. rewrite quot_sgn_r; [reflexivity|apply sgn_of_cases|assumption].
Qed.

Lemma distribute_quotient_sound fuel e :
  snd (distribute_quotient_i fuel e) = true -> zsound e (fst (distribute_quotient_i fuel e)).
Proof.
  destruct e; cbn [distribute_quotient_i fst snd]; try (intros _; apply zsound_refl).
  intros Hs Hd. cbn [P_C08_sem.df] in Hd. apply andb_true_iff in Hd as [Hd Hz]. apply andb_true_iff in Hd as [Hd1 Hd2].
  apply negb_true_iff, Z.eqb_neq in Hz. apply (dq_spec fuel e1 e2 Hs Hd1 Hd2 Hz).
Qed.

(** * flatten_expr *)
Lemma flat_loop_flag wf : forall q dr s l b, flat_loop wf q dr s = Ok (l, b) -> b = true -> s = true.
Proof.
  induction wf as [|wf IH]; intros q dr s l b; destruct q as [|item q]; cbn [flat_loop].
  - intros H; injection H as _ <-. auto.
  - discriminate.
  - intros H; injection H as _ <-. auto.
  - destruct (negb (truthy item)); [apply IH|].
    match goal with |- context [distribute_quotient_i ?w ?x] => set (r2 := distribute_quotient_i w x) end.
    intros H Hb.
    assert (G : s && (if lprod item then dp_safe item else true) && snd r2 = true).
    { destruct (fst r2); try (eapply IH; eassumption). destruct (is_KN k); eapply IH; eassumption. }
    apply andb_true_iff in G as [G _]. apply andb_true_iff in G as [G _]. assumption.
Qed.

Lemma flat_loop_spec wf : forall q dr s l,
  flat_loop wf q dr s = Ok (l, true) -> alldf q = true -> alldf dr = true ->
  alldf l = true /\ sumv l = sumv q + sumv dr.
Proof.
  induction wf as [|wf IH]; intros q dr s l; destruct q as [|item q]; cbn [flat_loop].
  - intros H _ Hd. injection H as H1 H2. subst. rewrite alldf_rev, sumv_rev, sumv_nil. split; [assumption|lia].
  - discriminate.
  - intros H _ Hd. injection H as H1 H2. subst. rewrite alldf_rev, sumv_rev, sumv_nil. split; [assumption|lia].
  - intros H Hq Hd. rewrite alldf_cons in Hq. apply andb_true_iff in Hq as [Hi Hq]. rewrite sumv_cons.
    destruct (truthy item) eqn:T; cbn [negb] in H.
    2:{ destruct (IH _ _ _ _ H Hq Hd) as [B C]. rewrite (truthy_false item Hi T). split; [assumption|lia]. }
    set (it1 := if lprod item then distribute_product item else item) in *.
    set (s1 := if lprod item then dp_safe item else true) in *.
    set (r2 := distribute_quotient_i (S wf) it1) in *.
    assert (Hsound : s && s1 && snd r2 = true -> df (fst r2) = true /\ tv (fst r2) = tv item).
    { intros Hs. apply andb_true_iff in Hs as [Hs Hs2]. apply andb_true_iff in Hs as [_ Hs1].
      assert (Z1 : zsound item it1).
      { subst it1 s1. destruct (lprod item); [apply distribute_product_sound; assumption|apply zsound_refl]. }
      assert (Z2 : zsound it1 (fst r2)) by (apply distribute_quotient_sound; assumption).
      apply (zsound_trans _ _ _ Z1 Z2 Hi). }
    assert (Hother : flat_loop wf q (fst r2 :: dr) (s && s1 && snd r2) = Ok (l, true) ->
                     alldf l = true /\ sumv l = tv item + sumv q + sumv dr).
    { intros H'. pose proof (flat_loop_flag _ _ _ _ _ _ H' eq_refl) as Hf.
      destruct (Hsound Hf) as [Sd Sv].
      destruct (IH _ _ _ _ H' Hq) as [B C]; [rewrite alldf_cons, Sd, Hd; reflexivity|].
      rewrite sumv_cons, Sv in C. split; [assumption|lia]. }
    destruct (fst r2) as [v|v|x|b|k cs|k cs|p n d|p b e|op a b|cs|cs|e|f args] eqn:F; try (apply Hother; assumption).
    destruct (is_KN k); [apply Hother; assumption|].
    pose proof (flat_loop_flag _ _ _ _ _ _ H eq_refl) as Hf.
    destruct (Hsound Hf) as [Sd Sv]. rewrite df_sum in Sd. rewrite tv_sum in Sv.
    destruct (IH _ _ _ _ H) as [B C]; [rewrite alldf_app, Sd, Hq; reflexivity|assumption|].
    rewrite sumv_app, Sv in C. split; [assumption|lia].
Qed.

Lemma flatten_sound wf e r : flatten_i wf e = Ok (r, true) -> zsound e r.
Proof.
  unfold flatten_i. destruct (flat_loop wf [e] [] true) as [[l b]| |] eqn:F; cbn [rbind]; try discriminate.
  intros H. injection H as <- ->. cbn [fst snd] in *. intros Hd.
  destruct (flat_loop_spec _ _ _ _ _ F) as [B C].
  { rewrite alldf_cons, Hd. reflexivity. } { reflexivity. }
  rewrite sumv_cons, sumv_nil in C.
  destruct l as [|x [|y l']].
  - cbn in *. split; [reflexivity|lia].
  - rewrite alldf_cons in B. apply andb_true_iff in B as [B _]. rewrite sumv_cons, sumv_nil in C. split; [assumption|lia].
  - rewrite df_sum, tv_sum. split; [assumption|lia].
Qed.

(** * sum_literals *)
Lemma sl_val_spec lit c w : sl_val lit c = Some w -> tv c = w.
Proof.
  unfold sl_val. destruct (peel c) as [k core] eqn:P. destruct (peel_spec c k core P) as [Pv _].
  destruct core; try discriminate. destruct lit; [|discriminate].
  destruct k as [|k'].
  - intros H; injection H as <-. rewrite Pv. change (sgn_of 0) with 1. cbn [P_C08_sem.tv]. lia.
  - destruct (v =? 0); [discriminate|]. intros H; injection H as <-. rewrite Pv. reflexivity.
Qed.

Lemma sl_split_spec lit cs : forall v rem, sl_split lit cs = (v, rem) ->
  sumv cs = v + sumv rem /\ (alldf cs = true -> alldf rem = true).
Proof.
  induction cs as [|c cs IH]; cbn [sl_split]; intros v rem.
  - intros H; injection H as <- <-. split; [reflexivity|auto].
  - destruct (sl_split lit cs) as [v0 rem0]. destruct (IH _ _ eq_refl) as [Iv Id].
    rewrite sumv_cons, alldf_cons. destruct (sl_val lit c) as [w|] eqn:V; intros H; injection H as <- <-.
    + rewrite (sl_val_spec _ _ _ V). split; [lia|]. intros Hd. apply andb_true_iff in Hd as [_ Hd]. auto.
    + rewrite sumv_cons, alldf_cons. split; [lia|]. intros Hd. apply andb_true_iff in Hd as [-> Hd]. auto.
Qed.

Lemma sum_node_spec (l : list sx) : alldf l = true ->
  df (match l with [] => SInt 0 | [x] => x | _ => SSum KL l end) = true /\
  tv (match l with [] => SInt 0 | [x] => x | _ => SSum KL l end) = sumv l.
Proof.
  intros H. destruct l as [|x [|y r]].
  - split; reflexivity.
  - rewrite alldf_cons in H. apply andb_true_iff in H as [H _]. rewrite sumv_cons, sumv_nil. split; [assumption|lia].
  - rewrite df_sum, tv_sum. auto.
Qed.

Lemma sum_node_spec' (l : list sx) : alldf l = true ->
  df (match l with [] => SInt 0 | [x] => x | x :: y :: r => SSum KL (x :: y :: r) end) = true /\
  tv (match l with [] => SInt 0 | [x] => x | x :: y :: r => SSum KL (x :: y :: r) end) = sumv l.
Proof. intros H. pose proof (sum_node_spec l H) as G. destruct l as [|x [|y r]]; exact G. Qed.

Lemma sum_literals_sound ia fp e : zsound e (sum_literals ia fp e).
Proof.
  destruct e; try apply zsound_refl. cbn [sum_literals]. destruct (is_KN k); [apply zsound_refl|].
  destruct (sl_split (ia || fp) cs) as [value rem] eqn:S. destruct (sl_split_spec _ _ _ _ S) as [Sv Sd].
  destruct (negb ia); [apply zsound_refl|]. intros Hd. rewrite df_sum in Hd. rewrite tv_sum, Sv.
  specialize (Sd Hd). destruct (value =? 0) eqn:E.
  - apply Z.eqb_eq in E. subst. destruct (sum_node_spec' rem Sd) as [A B]. split; [assumption|lia].
  - assert (Hl : alldf (SInt value :: rem) = true) by (rewrite alldf_cons, Sd; reflexivity).
    destruct (sum_node_spec' (SInt value :: rem) Hl) as [A B]. split; [assumption|].
    rewrite B, sumv_cons. reflexivity.
Qed.

(** * separate_coefficients / mul_literals *)
Definition opt_tv (o : option sx) : Z := match o with Some x => tv x | None => 1 end.
Definition opt_df (o : option sx) : bool := match o with Some x => df x | None => true end.

Lemma sc_process_spec lit c : forall w o, sc_process lit c = (w, o) ->
  tv c = w * opt_tv o /\ (df c = true -> opt_df o = true).
Proof.
  unfold sc_process. destruct (peel c) as [k core] eqn:P. destruct (peel_spec c k core P) as [Pv Pd].
  intros w o. rewrite Pv, Pd.
  assert (Hdef : (sgn_of k, Some core) = (w, o) ->
                 sgn_of k * tv core = w * opt_tv o /\ (df core = true -> opt_df o = true)).
  { intros E; injection E as <- <-. cbn [opt_tv opt_df]. auto. }
  destruct core; try exact Hdef.
  - destruct lit; [|exact Hdef]. intros E; injection E as <- <-. cbn [opt_tv opt_df P_C08_sem.tv]. split; [lia|auto].
  - destruct lit; [|exact Hdef]. intros E; injection E as <- <-. cbn [opt_tv opt_df P_C08_sem.tv]. split; [lia|auto].
Qed.

Lemma sc_children_spec lit cs : forall v rem, sc_children lit cs = (v, rem) ->
  prodv cs = v * prodv rem /\ (alldf cs = true -> alldf rem = true).
Proof.
  induction cs as [|c cs IH]; cbn [sc_children]; intros v rem.
  - intros H; injection H as <- <-. split; [reflexivity|auto].
  - destruct (sc_children lit cs) as [v0 rem0].
    destruct (IH _ _ eq_refl) as [Iv Id].
    destruct (sc_process lit c) as [w o] eqn:P. destruct (sc_process_spec lit c _ _ P) as [Pv Pd].
    intros H; injection H as <- <-. rewrite prodv_cons, alldf_cons, Pv, Iv.
    destruct o as [x|]; cbn [opt_tv opt_df] in *.
    + rewrite prodv_cons, alldf_cons. split; [lia|]. intros Hd. apply andb_true_iff in Hd as [H1 H2].
      rewrite (Pd H1), (Id H2). reflexivity.
    + split; [lia|]. intros Hd. apply andb_true_iff in Hd as [_ H2]. auto.
Qed.

Lemma separate_spec ia fp e : forall v rem, separate_coefficients ia fp e = (v, rem) ->
  tv e = v * prodv rem /\ (df e = true -> alldf rem = true).
Proof.
  unfold separate_coefficients. destruct (peel e) as [k core] eqn:P.
  destruct (peel_spec e k core P) as [Pv Pd]. intros v rem.
  assert (Hdef : forall v0 rem0, (1, [core]) = (v0, rem0) -> (sgn_of k * v0, rem0) = (v, rem) ->
                 tv e = v * prodv rem /\ (df e = true -> alldf rem = true)).
  { intros v0 rem0 E1 E2. injection E1 as <- <-. injection E2 as <- <-.
    rewrite prodv_cons, prodv_nil, alldf_cons, Pv, Pd. cbn [P_C08_sem.alldf forallb]. rewrite andb_true_r. split; [lia|auto]. }
  destruct core; try (apply Hdef; reflexivity).
  - destruct (ia || fp); [|apply Hdef; reflexivity].
    intros E; injection E as <- <-. rewrite Pv. cbn [P_C08_sem.tv]. rewrite prodv_nil. split; [lia|auto].
  - destruct (is_KN k0); [apply Hdef; reflexivity|]. destruct (negb ia); [apply Hdef; reflexivity|].
    destruct (sc_children (ia || fp) cs) as [v0 rem0] eqn:S.
    destruct (sc_children_spec _ _ _ _ S) as [Sv Sd].
    intros E; injection E as <- <-. rewrite Pv, Pd, tv_prod, df_prod, Sv. split; [lia|assumption].
Qed.

Lemma prod_node_spec (l : list sx) : alldf l = true ->
  df (match l with [] => SInt 1 | [x] => x | _ => SProd KL l end) = true /\
  tv (match l with [] => SInt 1 | [x] => x | _ => SProd KL l end) = prodv l.
Proof. apply (list_node_spec l (SInt 1)). Qed.

Lemma mul_literals_sound ia fp e : zsound e (mul_literals ia fp e).
Proof.
  unfold mul_literals. destruct (lprod e); [|apply zsound_refl].
  destruct (separate_coefficients ia fp e) as [v rem0] eqn:S.
  destruct (separate_spec ia fp e _ _ S) as [Sv Sd]. intros Hd. specialize (Sd Hd).
  destruct (v =? 0) eqn:E0.
  - apply Z.eqb_eq in E0. subst v. rewrite Sv. split; [reflexivity|cbn [P_C08_sem.tv]; lia].
  - apply Z.eqb_neq in E0.
    set (rem := if Z.abs v =? 1 then rem0 else SInt (Z.abs v) :: rem0).
    assert (Hr : alldf rem = true /\ prodv rem = Z.abs v * prodv rem0).
    { subst rem. destruct (Z.abs v =? 1) eqn:E1.
      - apply Z.eqb_eq in E1. rewrite E1. split; [assumption|lia].
      - rewrite alldf_cons, prodv_cons, Sd. split; reflexivity. }
    destruct Hr as [Rd Rv]. destruct (prod_node_spec rem Rd) as [Nd Nv].
    destruct (v <? 0) eqn:En.
    + apply Z.ltb_lt in En.
      destruct (neg_pair_spec (match rem with [] => SInt 1 | [x] => x | _ => SProd KL rem end)) as [Gv Gd].
      rewrite Gv, Gd, Nv, Rv, Sv. split; [assumption|lia].
    + apply Z.ltb_ge in En. rewrite Nv, Rv, Sv. split; [assumption|lia].
Qed.

(** * div_literals *)
Lemma quot_gcd_cancel a b : b <> 0 ->
  Z.quot a b = Z.quot (a / Z.gcd a b) (b / Z.gcd a b).
Proof.
  intros Hb. set (g := Z.gcd a b).
  assert (Hg : g <> 0). { intros C. apply Z.gcd_eq_0_r in C. contradiction. }
  destruct (Z.gcd_divide_l a b) as [a' Ha]. destruct (Z.gcd_divide_r a b) as [b' Hb'].
  fold g in Ha, Hb'. rewrite Ha at 1 2. rewrite Hb' at 1 2. rewrite !Z.div_mul by assumption.
  rewrite (Z.mul_comm a' g), (Z.mul_comm b' g). rewrite Z.quot_mul_cancel_l; [reflexivity| |assumption].
  intros C. subst b'. lia.
Qed.

Lemma quot_neg_l a b : b <> 0 -> Z.quot (- a) b = - Z.quot a b.
Proof. intros. apply Z.quot_opp_l. assumption. Qed.
Lemma quot_neg_r a b : b <> 0 -> Z.quot a (- b) = - Z.quot a b.
Proof. intros. apply Z.quot_opp_r. assumption. Qed.

Lemma div_result_spec k n2 d2 X : d2 <> 0 -> df n2 = true -> Z.quot (tv n2) d2 = X ->
  df (wrap_neg k (if d2 =? 1 then n2 else SQuot false n2 (SInt d2))) = true /\
  tv (wrap_neg k (if d2 =? 1 then n2 else SQuot false n2 (SInt d2))) = sgn_of k * X.
Proof.
  intros Hz Hn HX.
  destruct (wrap_neg_spec k (if d2 =? 1 then n2 else SQuot false n2 (SInt d2))) as [Wv Wd]. rewrite Wv, Wd.
  destruct (d2 =? 1) eqn:E.
  - apply Z.eqb_eq in E. subst d2. rewrite Z.quot_1_r in HX. split; [assumption|congruence].
  - destruct (quot_node n2 (SInt d2) Hn eq_refl Hz) as [Qd Qv]. rewrite Qv. split; [assumption|].
    cbn [P_C08_sem.tv]. congruence.
Qed.

Lemma div_literals_sound fp e r : div_literals_i fp e = Ok (r, true) -> zsound e r.
Proof.
  destruct e; cbn [div_literals_i]; try (intros H; injection H as <-; apply zsound_refl).
  destruct (peel e1) as [kn nc] eqn:Pn. destruct (peel e2) as [kd dc] eqn:Pd.
  destruct (peel_spec _ _ _ Pn) as [Nv Nd]. destruct (peel_spec _ _ _ Pd) as [Dv Dd].
  set (k := (kn + kd)%nat).
  intros H Hdf. cbn [P_C08_sem.df] in Hdf. apply andb_true_iff in Hdf as [Hdf Hz].
  apply andb_true_iff in Hdf as [Hd1 Hd2]. apply negb_true_iff, Z.eqb_neq in Hz.
  rewrite Nd in Hd1. rewrite Dd in Hd2.
  assert (Hz' : tv dc <> 0). { intros C. apply Hz. rewrite Dv, C. lia. }
  assert (Hval : tv (SQuot p e1 e2) = sgn_of k * Z.quot (tv nc) (tv dc)).
  { cbn [P_C08_sem.tv]. rewrite Nv, Dv. unfold k. rewrite sgn_of_add.
    rewrite quot_sgn_l; [|apply sgn_of_cases|]. 2:{ destruct (sgn_of_cases kd) as [-> | ->]; lia. }
    rewrite quot_sgn_r; [|apply sgn_of_cases|assumption]. lia. }
  rewrite Hval.
  (* the branch that returns the (possibly rebuilt) quotient unchanged *)
  assert (Hcur : forall x, x = wrap_neg k (match k with O => SQuot p e1 e2 | _ => SQuot false nc dc end) ->
                 df x = true /\ tv x = sgn_of k * Z.quot (tv nc) (tv dc)).
  { intros x ->. destruct (wrap_neg_spec k (match k with O => SQuot p e1 e2 | _ => SQuot false nc dc end)) as [Wv Wd].
    rewrite Wv, Wd. destruct k as [|k'] eqn:K.
    - assert (kn = O /\ kd = O) as [-> ->] by (unfold k in K; lia).
      change (sgn_of 0) with 1 in *. cbn [P_C08_sem.df P_C08_sem.tv].
      rewrite Nd, Dd, Hd1, Hd2. cbn [andb]. split; [apply negb_true_iff, Z.eqb_neq; assumption|].
      rewrite Nv, Dv. f_equal. f_equal; lia.
    - destruct (quot_node nc dc Hd1 Hd2 Hz') as [Qd Qv]. rewrite Qv. auto. }
  assert (Hone : forall dv, dc = SInt dv ->
                 df (wrap_neg k (if dv =? 1 then nc else SQuot false nc dc)) = true /\
                 tv (wrap_neg k (if dv =? 1 then nc else SQuot false nc dc)) = sgn_of k * Z.quot (tv nc) (tv dc)).
  { intros dv ->. apply div_result_spec; auto. }
  destruct dc as [dv| | | | | | | | | | | |]; try (injection H as <-; apply Hcur; reflexivity).
  cbn [P_C08_sem.tv] in Hz'.
  destruct nc as [nv| | | |kk cs|kk cs| | | | | | |]; try (injection H as <-; apply Hone; reflexivity).
  - (* literal / literal *)
    destruct (Z.gcd nv dv =? 0) eqn:G; [discriminate|]. injection H as <-.
    apply div_result_spec.
    + intros C. destruct (Z.gcd_divide_r nv dv) as [b' Hb']. rewrite Hb' in C at 1.
      apply Z.eqb_neq in G. rewrite Z.div_mul in C by assumption. subst b'. lia.
    + reflexivity.
    + cbn [P_C08_sem.tv]. symmetry. apply quot_gcd_cancel. assumption.
  - (* product / literal *)
    destruct (is_KN kk) eqn:KK; [injection H as <-; apply Hone; reflexivity|].
    destruct (separate_coefficients true fp (SProd kk cs)) as [v rem] eqn:S.
    destruct (Z.gcd v dv =? 0) eqn:G; [discriminate|]. apply Z.eqb_neq in G.
    injection H as <-.
    destruct (separate_spec true fp _ _ _ S) as [Sv Sd]. specialize (Sd Hd1).
    assert (Hp2 : df (SProd KL (SInt (v / Z.gcd v dv) :: rem)) = true).
    { rewrite df_prod, alldf_cons, Sd. reflexivity. }
    destruct (mul_literals_sound true fp _ Hp2) as [Md Mv].
    apply div_result_spec.
    + intros C. destruct (Z.gcd_divide_r v dv) as [b' Hb']. rewrite Hb' in C at 1.
      rewrite Z.div_mul in C by assumption. subst b'. lia.
    + assumption.
    + rewrite Mv, Sv, tv_prod, prodv_cons. change (tv (SInt (v / Z.gcd v dv))) with (v / Z.gcd v dv).
      change (tv (SInt dv)) with dv.
      destruct (Z.gcd_divide_l v dv) as [a' Ha]. destruct (Z.gcd_divide_r v dv) as [b' Hb'].
      set (g := Z.gcd v dv) in *.
      clearbody g. subst v dv. rewrite !Z.div_mul by assumption.
      replace (a' * g * prodv rem) with ((a' * prodv rem) * g) by lia.
      rewrite Z.quot_mul_cancel_r; [reflexivity| |assumption].
      intros C. subst b'. lia.
Qed.


(** * collect_coefficients *)
Lemma sx_eqb_eq a : forall b, sx_eqb a b = true -> a = b.
Proof.
  assert (L : forall cs, Forall (fun a => forall b, sx_eqb a b = true -> a = b) cs ->
              forall ds, (fix leqb (l1 l2 : list sx) : bool :=
                            match l1, l2 with
                            | [], [] => true
                            | x :: r1, y :: r2 => sx_eqb x y && leqb r1 r2
                            | _, _ => false
                            end) cs ds = true -> cs = ds).
  { induction 1 as [|c cs Hc _ IH]; intros [|d ds]; try discriminate; [reflexivity|].
    intros H. apply andb_true_iff in H as [H1 H2]. f_equal; auto. }
  induction a using sx_ind'; intros b0; destruct b0; cbn [sx_eqb]; try discriminate; intros E.
  - apply Z.eqb_eq in E. congruence.
  - apply Z.eqb_eq in E. congruence.
  - apply String.eqb_eq in E. congruence.
  - apply Bool.eqb_prop in E. congruence.
  - apply andb_true_iff in E as [E1 E2]. apply L in E2; [|assumption]. destruct k, k0; try discriminate; congruence.
  - apply andb_true_iff in E as [E1 E2]. apply L in E2; [|assumption]. destruct k, k0; try discriminate; congruence.
  - apply andb_true_iff in E as [E E3]. apply andb_true_iff in E as [E1 E2].
    apply Bool.eqb_prop in E1. f_equal; auto.
  - apply andb_true_iff in E as [E E3]. apply andb_true_iff in E as [E1 E2].
    apply Bool.eqb_prop in E1. f_equal; auto.
  - apply andb_true_iff in E as [E E3]. apply andb_true_iff in E as [E1 E2].
    f_equal; auto. destruct op, op0; try discriminate; reflexivity.
  - apply L in E; [|assumption]. congruence.
  - apply L in E; [|assumption]. congruence.
  - f_equal; auto.
  - apply andb_true_iff in E as [E1 E2]. apply String.eqb_eq in E1. apply L in E2; [|assumption]. congruence.
Qed.

Lemma list_sx_eqb_eq k : forall k', list_eqb sx_eqb k k' = true -> k = k'.
Proof.
  induction k as [|a k IH]; intros [|b k']; cbn [list_eqb]; try discriminate; [reflexivity|].
  intros H. apply andb_true_iff in H as [H1 H2]. f_equal; [apply sx_eqb_eq; assumption|auto].
Qed.

Definition av (assoc : list (list sx * Z)) : Z :=
  fold_right (fun kf a => snd kf * prodv (fst kf) + a) 0 assoc.
Definition ad (assoc : list (list sx * Z)) : bool := forallb (fun kf => alldf (fst kf)) assoc.
Lemma av_cons k f r : av ((k, f) :: r) = f * prodv k + av r. Proof. reflexivity. Qed.
Lemma ad_cons k f r : ad ((k, f) :: r) = alldf k && ad r. Proof. reflexivity. Qed.

Lemma acc_add_spec key v assoc : forall assoc', acc_add key v assoc = (assoc', true) ->
  av assoc' = av assoc + v * prodv key /\ (ad assoc = true -> alldf key = true -> ad assoc' = true).
Proof.
  induction assoc as [|[k f] r IH]; cbn [acc_add]; intros assoc'.
  - intros H; injection H as <-. rewrite av_cons, ad_cons. cbn. split; [lia|]. intros _ ->. reflexivity.
  - destruct (key_eq k key).
    + intros H; injection H as <- E. apply list_sx_eqb_eq in E. subst key.
      rewrite !av_cons, !ad_cons. split; [lia|auto].
    + destruct (acc_add key v r) as [r' s] eqn:A. intros H; injection H as <- ->.
      destruct (IH _ eq_refl) as [Iv Id]. rewrite !av_cons, !ad_cons, Iv. split; [lia|].
      intros H1 H2. apply andb_true_iff in H1 as [-> H1]. cbn. auto.
Qed.

Lemma insert_key_spec x l :
  prodv (map snd (insert_key x l)) = tv (snd x) * prodv (map snd l) /\
  alldf (map snd (insert_key x l)) = df (snd x) && alldf (map snd l).
Proof.
  induction l as [|y l [IHv IHd]]; cbn [insert_key].
  - split; reflexivity.
  - destruct (String.ltb (fst x) (fst y)).
    + split; reflexivity.
    + cbn [map]. rewrite !prodv_cons, !alldf_cons, IHv, IHd. split; [lia|].
      destruct (df (snd y)), (df (snd x)); reflexivity.
Qed.

Lemma sort_by_str_spec l : prodv (sort_by_str l) = prodv l /\ alldf (sort_by_str l) = alldf l.
Proof.
  unfold sort_by_str.
  assert (G : forall acc, prodv (map snd (fold_left (fun acc x => insert_key (str_of x, x) acc) l acc))
                          = prodv l * prodv (map snd acc) /\
                          alldf (map snd (fold_left (fun acc x => insert_key (str_of x, x) acc) l acc))
                          = alldf l && alldf (map snd acc)).
  { induction l as [|a l IH]; intros acc; cbn [fold_left].
    - rewrite prodv_nil. split; [lia|reflexivity].
    - destruct (IH (insert_key (str_of a, a) acc)) as [Iv Id].
      destruct (insert_key_spec (str_of a, a) acc) as [Kv Kd]. cbn [snd] in *.
      rewrite Iv, Id, Kv, Kd, prodv_cons, alldf_cons. split; [lia|].
      destruct (alldf l), (df a); reflexivity. }
  destruct (G []) as [Gv Gd]. rewrite Gv, Gd. cbn [map]. rewrite prodv_nil. split; [lia|].
  cbn. apply andb_true_r.
Qed.

Definition acc_inv (st : acc_state) (total : Z) : Prop :=
  a_const st + av (a_assoc st) = total /\ ad (a_assoc st) = true.

Lemma acc_item_spec st item : a_safe (acc_item st item) = true ->
  a_safe st = true /\
  (df item = true -> forall total, acc_inv st total -> acc_inv (acc_item st item) (total + tv item)).
Proof.
  unfold acc_item. destruct (lprod item) eqn:L.
  - destruct (separate_coefficients true false item) as [v rem] eqn:S.
    assert (Hsep : tv item = v * prodv rem /\ (df item = true -> alldf rem = true)).
    { apply (separate_spec true false item _ _ S). }
    destruct (v =? 0) eqn:E0.
    + cbn [a_safe a_const a_assoc]. intros H1. split; [assumption|].
      destruct Hsep as [Sv _]. apply Z.eqb_eq in E0. subst v. intros _ total [I1 I2].
      split; cbn [a_const a_assoc]; [lia|assumption].
    + destruct rem as [|r0 rem'].
      * cbn [a_safe a_const a_assoc]. intros H1. split; [assumption|].
        destruct Hsep as [Sv _]. rewrite prodv_nil in Sv. intros _ total [I1 I2].
        split; cbn [a_const a_assoc]; [lia|assumption].
      * destruct (acc_add (sort_by_str (r0 :: rem')) v (a_assoc st)) as [as' s'] eqn:A.
        cbn [a_safe a_const a_assoc]. intros H. apply andb_true_iff in H as [H1 H3].
        split; [assumption|]. subst s'.
        destruct Hsep as [Sv Sd]. destruct (acc_add_spec _ _ _ _ A) as [Av Ad].
        destruct (sort_by_str_spec (r0 :: rem')) as [Tv Td].
        intros Hd total [I1 I2]. split; cbn [a_const a_assoc].
        -- rewrite Av, Tv. lia.
        -- apply Ad; [assumption|]. rewrite Td. auto.
  - assert (Hgen : forall as' s', acc_add [item] 1 (a_assoc st) = (as', s') ->
             a_safe {| a_const := a_const st; a_assoc := as'; a_safe := a_safe st && s' |} = true ->
             a_safe st = true /\
             (df item = true -> forall total, acc_inv st total ->
              acc_inv {| a_const := a_const st; a_assoc := as'; a_safe := a_safe st && s' |} (total + tv item))).
    { intros as' s' A. cbn [a_safe]. intros H. apply andb_true_iff in H as [H1 H2]. split; [assumption|]. subst s'.
      destruct (acc_add_spec _ _ _ _ A) as [Av Ad]. intros Hd total [I1 I2]. split; cbn [a_const a_assoc].
      - rewrite Av, prodv_cons, prodv_nil. lia.
      - apply Ad; [assumption|]. rewrite alldf_cons, Hd. reflexivity. }
    destruct item;
      try (match goal with |- context [acc_add ?k 1 (a_assoc st)] =>
             destruct (acc_add k 1 (a_assoc st)) as [as' s']; exact (Hgen _ _ eq_refl) end).
    + cbn [a_safe]. intros H. split; [assumption|]. intros _ total [I1 I2]. split; cbn [a_const a_assoc P_C08_sem.tv]; [lia|assumption].
    + cbn [a_safe]. intros H. split; [assumption|]. intros _ total [I1 I2]. split; cbn [a_const a_assoc P_C08_sem.tv]; [lia|assumption].
Qed.

Lemma acc_fold_spec items : forall st, a_safe (fold_left acc_item items st) = true ->
  a_safe st = true /\
  (alldf items = true -> forall total, acc_inv st total -> acc_inv (fold_left acc_item items st) (total + sumv items)).
Proof.
  induction items as [|it items IH]; intros st; cbn [fold_left].
  - intros H. split; [assumption|]. intros _ total I. rewrite sumv_nil, Z.add_0_r. assumption.
  - intros H. destruct (IH _ H) as [H1 H2]. destruct (acc_item_spec st it H1) as [H3 H4]. split; [assumption|].
    rewrite alldf_cons, sumv_cons. intros Hd total I. apply andb_true_iff in Hd as [Hd1 Hd2].
    replace (total + (tv it + sumv items)) with ((total + tv it) + sumv items) by lia. auto.
Qed.

Lemma cc_coeff_spec f : alldf (cc_coeff f) = true /\ prodv (cc_coeff f) = f.
Proof.
  unfold cc_coeff. destruct (f =? 1) eqn:E1; [apply Z.eqb_eq in E1; subst; split; reflexivity|].
  destruct (f =? -1) eqn:E2; [apply Z.eqb_eq in E2; subst; split; reflexivity|].
  destruct (f <? 0) eqn:E3; [apply Z.ltb_lt in E3|apply Z.ltb_ge in E3];
    rewrite ?prodv_cons, prodv_nil; cbn [P_C08_sem.tv]; split; try reflexivity; lia.
Qed.

Lemma cc_terms_spec assoc : ad assoc = true ->
  alldf (cc_terms assoc) = true /\ sumv (cc_terms assoc) = av assoc.
Proof.
  induction assoc as [|[base f] r IH]; cbn [cc_terms]; [split; reflexivity|].
  rewrite ad_cons, av_cons. intros H. apply andb_true_iff in H as [Hb Hr]. destruct (IH Hr) as [Id Iv].
  destruct (f =? 0) eqn:E0; [apply Z.eqb_eq in E0; subst; split; [assumption|lia]|].
  destruct (cc_coeff_spec f) as [Cd Cv].
  assert (Hp : df (SProd KL (cc_coeff f ++ base)) = true /\ tv (SProd KL (cc_coeff f ++ base)) = f * prodv base).
  { rewrite df_prod, tv_prod, alldf_app, prodv_app, Cd, Cv, Hb. split; reflexivity. }
  destruct Hp as [Pd Pv].
  assert (Hgen : alldf (SProd KL (cc_coeff f ++ base) :: cc_terms r) = true /\
                 sumv (SProd KL (cc_coeff f ++ base) :: cc_terms r) = f * prodv base + av r).
  { rewrite alldf_cons, sumv_cons, Pd, Pv, Id, Iv. split; reflexivity. }
  destruct base as [|b [|b' base']]; try exact Hgen.
  destruct (f =? 1) eqn:E1; [|exact Hgen]. apply Z.eqb_eq in E1. subst f.
  rewrite alldf_cons in Hb. apply andb_true_iff in Hb as [Hb _].
  rewrite alldf_cons, sumv_cons, Hb, Id, Iv, prodv_cons, prodv_nil. split; [reflexivity|lia].
Qed.

Lemma collect_sound e r : collect_i e = (r, true) -> zsound e r.
Proof.
  unfold collect_i, accumulate. intros H. injection H as <- Hs. intros Hd.
  set (items := if lsum e then match e with SSum _ cs => cs | _ => [e] end else [e]) in *.
  assert (Hitems : alldf items = true /\ sumv items = tv e).
  { subst items. destruct e; cbn [lsum]; try (rewrite alldf_cons, sumv_cons, sumv_nil, Hd; split; [reflexivity|lia]).
    destruct (negb (is_KN k)); [rewrite df_sum in Hd; rewrite tv_sum; auto|].
    rewrite alldf_cons, sumv_cons, sumv_nil, Hd; split; [reflexivity|lia]. }
  destruct Hitems as [Hi1 Hi2].
  destruct (acc_fold_spec items _ Hs) as [_ Hf].
  destruct (Hf Hi1 0) as [I1 I2]. { split; reflexivity. }
  set (st := fold_left acc_item items {| a_const := 0; a_assoc := []; a_safe := true |}) in *.
  destruct (cc_terms_spec _ I2) as [Td Tv].
  set (c := a_const st) in *.
  set (pre := if c <? 0 then [SProd KL [SPy (-1); SInt (Z.abs c)]] else if 0 <? c then [SInt c] else []).
  assert (Hpre : alldf pre = true /\ sumv pre = c).
  { subst pre. destruct (c <? 0) eqn:E1; [apply Z.ltb_lt in E1|apply Z.ltb_ge in E1].
    - rewrite alldf_cons, sumv_cons, sumv_nil. destruct (neg_pair_spec (SInt (Z.abs c))) as [Nv Nd].
      rewrite Nv, Nd. cbn [P_C08_sem.tv P_C08_sem.df]. split; [reflexivity|lia].
    - destruct (0 <? c) eqn:E2; [apply Z.ltb_lt in E2|apply Z.ltb_ge in E2].
      + split; [reflexivity|]. rewrite sumv_cons, sumv_nil. cbn [P_C08_sem.tv]. lia.
      + split; [reflexivity|]. rewrite sumv_nil. lia. }
  destruct Hpre as [Pd Pv].
  assert (Hall : alldf (pre ++ cc_terms (a_assoc st)) = true /\ sumv (pre ++ cc_terms (a_assoc st)) = tv e).
  { rewrite alldf_app, sumv_app, Pd, Td, Pv, Tv. split; [reflexivity|lia]. }
  destruct Hall as [Ad Av]. destruct (sum_node_spec _ Ad) as [Nd Nv]. rewrite Nv. auto.
Qed.


End Helpers.
