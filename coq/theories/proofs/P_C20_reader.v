(** C20 — FortranReader: sanitized_spans are strictly increasing; a line-aligned span of the sanitised string
    maps to the physical lines of the sanitised lines it touches. *)
From Coq Require Import ZArith List Bool String Ascii Lia Arith Sorting.Sorted.
From LV Require Import Base.Strings models.M_C20 proofs.P_C20_base.
Import ListNotations.
Open Scope Z_scope.

(** * sanitized_spans *)
Lemma accum_lower : forall l acc k y, nth_error (accum acc l) k = Some y -> acc < y.
Proof.
  induction l as [|x r IH]; intros acc k y H; [destruct k; discriminate|].
  cbn [accum] in H. destruct k as [|k]; cbn [nth_error] in H.
  - injection H as <-. lia.
  - specialize (IH _ _ _ H). lia.
Qed.

Lemma accum_incr : forall l acc k t x y, (k < t)%nat ->
  nth_error (accum acc l) k = Some x -> nth_error (accum acc l) t = Some y -> x < y.
Proof.
  induction l as [|z r IH]; intros acc k t x y Hkt Hk Ht; [destruct k; discriminate|].
  cbn [accum] in Hk, Ht. destruct t as [|t]; [lia|]. cbn [nth_error] in Ht.
  destruct k as [|k]; cbn [nth_error] in Hk.
  - injection Hk as <-. exact (accum_lower _ _ _ _ Ht).
  - apply (IH (acc + Z.of_nat (slen (r_text z)) + 1) k t x y); [lia|assumption|assumption].
Qed.

Lemma length_accum : forall l acc, List.length (accum acc l) = List.length l.
Proof. induction l as [|x r IH]; intros acc; cbn; [reflexivity|]. now rewrite IH. Qed.

Definition incr (l : list Z) : Prop :=
  forall k t x y, (k < t)%nat -> nth_error l k = Some x -> nth_error l t = Some y -> x < y.

Lemma spans_incr src items : incr (rd_spans (mk_reader src items)).
Proof.
  unfold mk_reader, incr. cbn [rd_spans]. intros k t x y Hkt Hk Ht.
  destruct t as [|t]; [lia|]. cbn [nth_error] in Ht.
  destruct k as [|k]; cbn [nth_error] in Hk.
  - injection Hk as <-. exact (accum_lower _ _ _ _ Ht).
  - apply (accum_incr (sanitize items) 0 k t x y); [lia|assumption|assumption].
Qed.

Lemma spans_shape src items :
  let rd := mk_reader src items in
  List.length (rd_spans rd) = S (List.length (rd_san rd)) /\ nth_error (rd_spans rd) 0 = Some 0 /\
  rd_str rd = join_nl (map r_text (rd_san rd)).
Proof. unfold mk_reader. cbn. rewrite length_accum. repeat split. Qed.

(** * bisect_left on an increasing list *)
Lemma bisect_from_spec : forall l x i lo t y,
  (forall k z, (k < t)%nat -> nth_error l k = Some z -> z < x \/ i + Z.of_nat k < lo) ->
  nth_error l t = Some y -> x <= y -> lo <= i + Z.of_nat t ->
  bisect_from l x i lo = i + Z.of_nat t.
Proof.
  induction l as [|z r IH]; intros x i lo t y Hbefore Ht Hxy Hlo; [destruct t; discriminate|].
  cbn [bisect_from]. destruct t as [|t].
  - cbn in Ht. injection Ht as <-.
    assert (E1 : (lo <=? i) = true) by (apply Z.leb_le; lia).
    assert (E2 : (x <=? z) = true) by (apply Z.leb_le; lia).
    rewrite E1, E2. cbn. lia.
  - cbn [nth_error] in Ht.
    assert (E : (lo <=? i) && (x <=? z) = false).
    { destruct (Hbefore 0%nat z ltac:(lia) eq_refl) as [H|H].
      - apply andb_false_intro2. apply Z.leb_gt. exact H.
      - apply andb_false_intro1. apply Z.leb_gt. lia. }
    rewrite E. rewrite (IH x (i + 1) lo t y); [lia| |exact Ht|exact Hxy|lia].
    intros k w Hk Hw. destruct (Hbefore (S k) w ltac:(lia) Hw) as [H|H]; [left; exact H|right; lia].
Qed.

Lemma incr_le l : incr l -> forall k t x y, (k <= t)%nat -> nth_error l k = Some x -> nth_error l t = Some y -> x <= y.
Proof.
  intros H k t x y Hkt Hk Ht. destruct (Nat.eq_dec k t) as [->|N].
  - rewrite Hk in Ht. injection Ht as <-. lia.
  - specialize (H k t x y ltac:(lia) Hk Ht). lia.
Qed.

Lemma py_nth_ok {A} (l : list A) k x : nth_error l k = Some x -> py_nth l (Z.of_nat k) = Ok x.
Proof.
  intros H. unfold py_nth, zlen.
  assert (Hk : (k < List.length l)%nat) by (apply nth_error_Some; congruence).
  assert (E1 : (Z.of_nat k <? 0) = false) by (apply Z.ltb_ge; lia).
  rewrite E1.
  assert (E2 : (Z.of_nat k <? 0) || (Z.of_nat (List.length l) <=? Z.of_nat k) = false).
  { rewrite E1. cbn. apply Z.leb_gt. lia. }
  rewrite E2, Nat2Z.id, H. reflexivity.
Qed.

(** * get_line_indices_from_span on a line-aligned span *)
Lemma get_indices_aligned src items i j x y a b p q :
  (i < j)%nat ->
  nth_error (rd_spans (mk_reader src items)) i = Some a ->
  nth_error (rd_spans (mk_reader src items)) (j - 1) = Some p ->
  nth_error (rd_spans (mk_reader src items)) j = Some q -> p < b <= q ->
  nth_error (rd_san (mk_reader src items)) i = Some x ->
  nth_error (rd_san (mk_reader src items)) (j - 1) = Some y ->
  get_indices (mk_reader src items) a (Some b) false = Ok (Z.of_nat i, Z.of_nat j, r_s x - 1, r_e y).
Proof.
  intros Hij Ha Hp Hq Hb Hx Hy.
  set (rd := mk_reader src items) in *.
  pose proof (spans_incr src items) as Hinc. fold rd in Hinc.
  assert (Hjn : (j <= List.length (rd_san rd))%nat).
  { assert (j - 1 < List.length (rd_san rd))%nat by (apply nth_error_Some; congruence). lia. }
  unfold get_indices, bisect_left.
  assert (Ess : bisect_from (rd_spans rd) a 0 0 = Z.of_nat i).
  { rewrite (bisect_from_spec (rd_spans rd) a 0 0 i a); [lia| |exact Ha|lia|lia].
    intros k z Hk Hz. left. exact (Hinc k i z a Hk Hz Ha). }
  rewrite Ess.
  assert (Ese : bisect_from (rd_spans rd) b 0 (Z.of_nat i) = Z.of_nat j).
  { rewrite (bisect_from_spec (rd_spans rd) b 0 (Z.of_nat i) j q); [lia| |exact Hq|lia|lia].
    intros k z Hk Hz. left.
    pose proof (incr_le _ Hinc k (j - 1)%nat z p ltac:(lia) Hz Hp). lia. }
  rewrite Ese.
  assert (Emin : Z.min (zlen (rd_san rd)) (Z.of_nat j) = Z.of_nat j) by (unfold zlen; lia).
  rewrite Emin.
  assert (En : (zlen (rd_san rd) <=? Z.of_nat i) = false) by (apply Z.leb_gt; unfold zlen; lia).
  rewrite En.
  rewrite (py_nth_ok _ _ _ Hx). cbn [bind].
  replace (Z.of_nat j - 1) with (Z.of_nat (j - 1)) by lia.
  rewrite (py_nth_ok _ _ _ Hy). cbn [bind].
  unfold line_index, rd, mk_reader. cbn [rd_off].
  replace (r_s x - 0 - 1) with (r_s x - 1) by lia. replace (r_e y + 1 - 0 - 1) with (r_e y) by lia. reflexivity.
Qed.

Lemma py_lslice_in_range {A} (l : list A) a b : 0 <= a -> a <= b -> b <= zlen l ->
  py_lslice l a b = firstn (Z.to_nat (b - a)) (skipn (Z.to_nat a) l).
Proof.
  intros Ha Hab Hb. unfold py_lslice, clampi.
  assert (E1 : (a <? 0) = false) by (apply Z.ltb_ge; lia).
  assert (E2 : (b <? 0) = false) by (apply Z.ltb_ge; lia).
  rewrite E1, E2. rewrite !Z.min_l by lia. reflexivity.
Qed.

Lemma source_from_span_aligned src items i j x y a b p q :
  (i < j)%nat ->
  nth_error (rd_spans (mk_reader src items)) i = Some a ->
  nth_error (rd_spans (mk_reader src items)) (j - 1) = Some p ->
  nth_error (rd_spans (mk_reader src items)) j = Some q -> p < b <= q ->
  nth_error (rd_san (mk_reader src items)) i = Some x ->
  nth_error (rd_san (mk_reader src items)) (j - 1) = Some y ->
  1 <= r_s x -> r_s x <= r_e y -> r_e y <= zlen src ->
  source_from_span (mk_reader src items) a (Some b) false =
    (if sempty (join_nl (firstn (Z.to_nat (r_e y - r_s x + 1)) (skipn (Z.to_nat (r_s x - 1)) src))) then Ok None
     else Ok (Some (mk (r_s x) (Some (r_e y))
                       (join_nl (firstn (Z.to_nat (r_e y - r_s x + 1)) (skipn (Z.to_nat (r_s x - 1)) src))) None))).
Proof.
  intros Hij Ha Hp Hq Hb Hx Hy H1 H2 H3.
  unfold source_from_span. rewrite (get_indices_aligned src items i j x y a b p q Hij Ha Hp Hq Hb Hx Hy).
  cbn [bind]. change (rd_src (mk_reader src items)) with src. change (rd_off (mk_reader src items)) with 0.
  rewrite py_lslice_in_range by lia.
  replace (r_e y - (r_s x - 1)) with (r_e y - r_s x + 1) by lia.
  destruct (sempty _) eqn:E; [reflexivity|].
  unfold mk_source. replace (0 + (r_s x - 1) + 1) with (r_s x) by lia. replace (0 + r_e y) with (r_e y) by lia.
  assert (E2 : (r_e y <? r_s x) = false) by (apply Z.ltb_ge; lia).
  rewrite E2. reflexivity.
Qed.

(** * reading order gives containment of all touched lines *)
Lemma after_p_bounds n x y : span_ok_p n x -> span_ok_p n y -> after_p x y -> r_s x <= r_s y /\ r_e x <= r_e y.
Proof. unfold span_ok_p, after_p. intros Hx Hy [H|[H1 H2]]; lia. Qed.

Lemma sorted_nth n (l : list ritem) : StronglySorted after_p l -> Forall (span_ok_p n) l ->
  forall k t x y, (k <= t)%nat -> nth_error l k = Some x -> nth_error l t = Some y ->
  r_s x <= r_s y /\ r_e x <= r_e y.
Proof.
  induction 1 as [|z r Hs IH Hall]; intros Hok k t x y Hkt Hk Ht; [destruct k; discriminate|].
  inversion Hok as [|? ? Hz Hr]; subst.
  destruct k as [|k].
  - cbn in Hk. injection Hk as <-. destruct t as [|t].
    + cbn in Ht. injection Ht as <-. lia.
    + cbn [nth_error] in Ht. apply (after_p_bounds n); [exact Hz| |].
      * rewrite Forall_forall in Hr. apply Hr. eapply nth_error_In; exact Ht.
      * rewrite Forall_forall in Hall. apply Hall. eapply nth_error_In; exact Ht.
  - destruct t as [|t]; [lia|]. cbn [nth_error] in Hk, Ht. apply (IH Hr k t); [lia|assumption|assumption].
Qed.

(** * refutations: spans that start inside a line; sub-readers that stop inside the text *)
Definition demo_text : string := ("a = 1" ++ String nl ("b = 2" ++ String nl "c = 3"))%string.

Lemma midline_start_refuted_lemma :
  exists rd a b s, rd = reader_of_text demo_text /\
    (* offsets 2..8 of the sanitised string lie on its lines 0 and 1, i.e. on physical lines 1-2 *)
    a = 2 /\ b = 8 /\ rd_spans rd = [0; 6; 12; 18] /\
    source_from_span rd a (Some b) false = Ok (Some s) /\ s_l0 s = 2 /\ s_l1 s = Some 2.
Proof.
  eexists. exists 2, 8. eexists. split; [reflexivity|]. split; [reflexivity|]. split; [reflexivity|].
  split; [vm_compute; reflexivity|]. split; [vm_compute; reflexivity|]. split; vm_compute; reflexivity.
Qed.

Lemma sub_reader_string_refuted_lemma :
  exists rd sub, rd = reader_of_text demo_text /\
    reader_from_span rd 0 (Some 5) false = Ok (Some sub) /\
    map r_text (rd_san sub) = ["a = 1"%string] /\
    rd_str sub = ("a = 1" ++ String nl ("b = 2" ++ String nl ""))%string.
Proof.
  eexists. eexists. split; [reflexivity|]. split; [vm_compute; reflexivity|].
  split; vm_compute; reflexivity.
Qed.
