(** C37 — proofs, part 5: soundness of the validator, loop distribution / interchange as corollaries, witnesses. *)
From Coq Require Import ZArith List Bool String Lia.
From LV Require Import Base.Expr Base.MiniF Base.MiniFFacts models.M_C37
     proofs.P_C37_base proofs.P_C37_in proofs.P_C37_out proofs.P_C37_dem.
Import ListNotations.
Open Scope Z_scope.

Lemma outside_dec k s a idx :
  outside k s a idx \/
  (mem a (k_H k) = true /\ exists j r, idx = j :: r /\ sv s (k_lo k) <= j <= sv s (k_hi k)).
Proof.
  unfold outside. destruct (mem a (k_H k)) eqn:Ha; [|now left; left].
  destruct idx as [|j r]; [left; now right|].
  destruct (Z_lt_dec j (sv s (k_lo k))); [left; right; now left|].
  destruct (Z_lt_dec (sv s (k_hi k)) j); [left; right; now right|].
  right. split; [reflexivity|]. exists j, r. split; [reflexivity|lia].
Qed.

(** * two class programs with the same column program compute the same arrays (no demotion) *)
Theorem sound_core0 k k' ps p p' s s1 s1' :
  in_class k false p = true -> in_class k' false p' = true ->
  k_h k' = k_h k -> k_lo k' = k_lo k -> k_hi k' = k_hi k -> k_H k' = k_H k ->
  project (k_h k) p = project (k_h k) p' ->
  runs ps p s s1 -> runs ps p' s s1' -> forall a idx, av s1 a idx = av s1' a idx.
Proof.
  intros C1 C2 Eh El Eu EH Ep R1 R2 a idx.
  unfold in_class in C1, C2. apply andb_true_iff in C1. destruct C1 as [WF1 C1].
  apply andb_true_iff in C2. destruct C2 as [WF2 C2].
  destruct (out_sim k ps WF1 p s s1 C1 R1) as [_ _ F1 S1].
  destruct (out_sim k' ps WF2 p' s s1' C2 R2) as [_ _ F2 S2].
  destruct (outside_dec k s a idx) as [Ho|[Ha [j [r [-> Hj]]]]].
  - rewrite F1 by exact Ho. rewrite F2; [reflexivity|]. unfold outside in *. now rewrite EH, El, Eu.
  - destruct (S1 j _ Hj (agr_start k j s)) as [c1 [Q1 A1]].
    assert (Hj' : sv s (k_lo k') <= j <= sv s (k_hi k')) by (now rewrite El, Eu).
    destruct (S2 j _ Hj' (agr_start k' j s)) as [c2 [Q2 A2]].
    rewrite Eh, <- Ep in Q2. pose proof (runs_det _ _ _ _ _ Q1 Q2) as E. subst c2.
    rewrite (ag_col k _ _ _ _ A1 a r Ha). rewrite <- EH in Ha. now rewrite (ag_col k' _ _ _ _ A2 a r Ha).
Qed.

(** * the validator *)
Lemma mem_filter_not a Dm H :
  mem a (filter (fun x => negb (mem x Dm)) H) = mem a H && negb (mem a Dm).
Proof.
  induction H as [|y r IH]; [reflexivity|]. cbn [filter].
  destruct (negb (mem y Dm)) eqn:Ey.
  - rewrite !mem_cons, IH. destruct (String.eqb a y) eqn:E; [|reflexivity].
    apply String.eqb_eq in E. subst. cbn. now rewrite Ey.
  - rewrite mem_cons, IH. destruct (String.eqb a y) eqn:E; [|reflexivity].
    apply String.eqb_eq in E. subst. cbn. rewrite Ey. now rewrite andb_false_r.
Qed.

Lemma addh_id h Dm : forall s, dclean_s h Dm false s = true -> addh_s h s = s.
Proof.
  assert (L : forall l, Forall (fun s => dclean_s h Dm false s = true -> addh_s h s = s) l ->
                        forallb (dclean_s h Dm false) l = true -> map (addh_s h) l = l).
  { induction 1 as [|x r Hx _ IH]; intros E; [reflexivity|]. cbn in E. apply andb_true_iff in E. destruct E as [E1 E2].
    cbn. now rewrite Hx, IH. }
  induction s using stmt_ind'; intros E; cbn [addh_s]; try reflexivity.
  - cbn [dclean_s] in E. apply andb_true_iff in E. destruct E as [_ E]. now rewrite (L b H E).
  - cbn in E. discriminate.
  - cbn [dclean_s] in E. apply andb_true_iff in E. destruct E as [E E3]. apply andb_true_iff in E. destruct E as [_ E2].
    now rewrite (L t H E2), (L e H0 E3).
  - cbn in E. discriminate.
Qed.

Lemma addh_id_list h Dm l : dclean h Dm false l = true -> map (addh_s h) l = l.
Proof.
  unfold dclean. induction l as [|x r IH]; intros E; [reflexivity|]. cbn in E. apply andb_true_iff in E.
  destruct E as [E1 E2]. cbn. now rewrite (addh_id h Dm x E1), IH.
Qed.

Theorem V_sound seqv ar h lo hi H Dm p p' ps s s1 s1' :
  V false seqv ar h lo hi H Dm p p' = true ->
  runs ps p s s1 -> runs ps p' s s1' -> arrays_agree_except Dm s1 s1'.
Proof.
  intros HV R1 R2 a idx Ha. unfold V in HV.
  set (k := mk_ctx h lo hi H (locals h p)) in *.
  set (k' := mk_ctx h lo hi (filter (fun a => negb (mem a Dm)) H) (locals h p')) in *.
  apply andb_true_iff in HV. destruct HV as [HV Heq]. apply andb_true_iff in HV. destruct HV as [HV Hcl].
  apply andb_true_iff in HV. destruct HV as [HV Hintr]. apply andb_true_iff in HV. destruct HV as [HV HhD].
  apply andb_true_iff in HV. destruct HV as [HV HsL]. apply andb_true_iff in HV. destruct HV as [HV HsH].
  apply andb_true_iff in HV. destruct HV as [C1 C2]. apply negb_true_iff in HhD.
  assert (Heq' : demote h Dm (project h p) = project h p').
  { apply stmts_eqb_eq. destruct seqv; [|exact Heq]. now rewrite (addh_id_list h Dm _ Hcl) in Heq. }
  unfold in_class in C1, C2. apply andb_true_iff in C1. destruct C1 as [WF1 C1].
  apply andb_true_iff in C2. destruct C2 as [WF2 C2].
  destruct (out_sim k ps WF1 p s s1 C1 R1) as [_ _ F1 S1].
  destruct (out_sim k' ps WF2 p' s s1' C2 R2) as [_ _ F2 S2].
  assert (HH' : mem a (k_H k') = mem a (k_H k)).
  { unfold k', k. cbn [k_H mk_ctx]. rewrite mem_filter_not, Ha. cbn [negb]. apply andb_true_r. }
  destruct (outside_dec k s a idx) as [Ho|[HaH [j [r [-> Hj]]]]].
  - rewrite F1 by exact Ho. rewrite F2; [reflexivity|]. unfold outside in *. rewrite HH'. exact Ho.
  - destruct (S1 j _ Hj (agr_start k j s)) as [c1 [Q1 A1]].
    set (c0 := set_sv h j s) in *.
    assert (Hc0 : sv c0 h = j) by (unfold c0; cbn; now rewrite String.eqb_refl).
    pose proof (drel_dinit h Dm j c0 Hc0) as DR0.
    destruct (dem_sim h Dm ps j HhD Hintr (project h p) c0 (dinit j Dm c0) c1 Hcl DR0 Q1) as [q1 [Q1' DR1]].
    rewrite Heq' in Q1'.
    assert (AG : agr k' [] j s (dinit j Dm c0)).
    { split.
      - intros x Hx [Hl|Hd]; [|cbn in Hd; discriminate]. rewrite dinit_sv.
        destruct (mem x Dm) eqn:Hm.
        + pose proof (subset_mem _ _ _ HsL Hm) as Hc. cbn in Hl, Hc. congruence.
        + unfold c0. cbn. cbn in Hx. destruct (String.eqb x h) eqn:E; [apply String.eqb_eq in E; congruence|reflexivity].
      - unfold k'. cbn [k_h mk_ctx]. rewrite dinit_sv, HhD. exact Hc0.
      - intros b q _. now rewrite dinit_av.
      - intros b q _. now rewrite dinit_av. }
    destruct (S2 j _ Hj AG) as [q2 [Q2 A2]].
    pose proof (runs_det _ _ _ _ _ Q1' Q2) as E. subst q2.
    rewrite (ag_col k _ _ _ _ A1 a r HaH).
    rewrite <- HH' in HaH. rewrite (ag_col k' _ _ _ _ A2 a r HaH).
    apply (dr_av h Dm j _ _ DR1). intros [A _]. congruence.
Qed.

(** * loop distribution / fusion of horizontal loops *)
Definition hl (k : ctx) (body : list stmt) : stmt := SDo (k_h k) (EVar (k_lo k)) (EVar (k_hi k)) None body.

Section Mono.
Variable k : ctx.

Definition mono_s (s : stmt) : Prop :=
  forall D1 D2 D1', (forall x, mem x D1 = true -> mem x D2 = true) -> chk_in_s k false D1 s = Some D1' ->
  exists D2', chk_in_s k false D2 s = Some D2' /\ (forall x, mem x D1' = true -> mem x D2' = true).

Lemma mono_list l : Forall mono_s l ->
  forall D1 D2 D1', (forall x, mem x D1 = true -> mem x D2 = true) -> chk_in k false D1 l = Some D1' ->
  exists D2', chk_in k false D2 l = Some D2' /\ (forall x, mem x D1' = true -> mem x D2' = true).
Proof.
  induction 1 as [|s r Hs _ IH]; intros D1 D2 D1' Hsub E; cbn in E.
  - inversion E. subst. exists D2. split; [reflexivity|exact Hsub].
  - destruct (chk_in_s k false D1 s) as [Da|] eqn:E1; [|discriminate].
    destruct (Hs D1 D2 Da Hsub E1) as [Db [E2 Hab]].
    destruct (IH Da Db D1' Hab E) as [D2' [E3 H3]].
    exists D2'. split; [|exact H3]. cbn. now rewrite E2.
Qed.

Lemma forallb_ok_mono D1 D2 l :
  (forall x, mem x D1 = true -> mem x D2 = true) -> forallb (ok_e k true D1) l = true -> forallb (ok_e k true D2) l = true.
Proof.
  intros Hs H. rewrite forallb_forall in *. intros e He. eapply ok_e_mono; [exact Hs|now apply H].
Qed.

Lemma mem_cons_mono (v : string) D1 D2 :
  (forall x, mem x D1 = true -> mem x D2 = true) -> forall x, mem x (v :: D1) = true -> mem x (v :: D2) = true.
Proof.
  intros Hs x. rewrite !mem_cons. intros H. apply orb_true_iff in H. apply orb_true_iff.
  destruct H; [now left|right; now apply Hs].
Qed.

Lemma mono_all : forall s, mono_s s.
Proof.
  induction s using stmt_ind'; intros D1 D2 D1' Hsub E.
  - cbn in E. destruct (mem x (k_L k)) eqn:Hx; [|discriminate]. cbn in E.
    destruct (ok_e k true D1 e) eqn:He; inversion E. subst.
    exists (x :: D2). cbn. rewrite Hx, (ok_e_mono k true D1 D2 e Hsub He). split; [reflexivity|now apply mem_cons_mono].
  - cbn in E. destruct (mem a (k_H k)) eqn:Ha; [|discriminate]. cbn in E.
    destruct (head_is (k_h k) i) eqn:Hh; [|discriminate]. cbn in E.
    destruct (forallb (ok_e k true D1) i) eqn:Hi; [|discriminate]. cbn in E.
    destruct (ok_e k true D1 e) eqn:He; inversion E. subst D1'.
    exists D2. cbn. rewrite Ha, Hh, (forallb_ok_mono D1 D2 i Hsub Hi), (ok_e_mono k true D1 D2 e Hsub He).
    split; [reflexivity|exact Hsub].
  - rewrite chk_in_s_do in E.
    destruct (mem v (k_L k)) eqn:Hv; [|discriminate]. cbn in E.
    destruct (ok_e k true D1 lo) eqn:Hlo; [|discriminate]. cbn in E.
    destruct (ok_e k true D1 hi) eqn:Hhi; [|discriminate]. cbn in E.
    destruct (ok_oe k true D1 st) eqn:Hst; [|discriminate]. cbn in E.
    destruct (chk_in k false (v :: D1) b) as [Db|] eqn:Eb; inversion E. subst.
    destruct (mono_list b H (v :: D1) (v :: D2) Db (mem_cons_mono v D1 D2 Hsub) Eb) as [Db2 [Eb2 _]].
    exists (v :: D2). rewrite chk_in_s_do, Hv, (ok_e_mono k true D1 D2 lo Hsub Hlo), (ok_e_mono k true D1 D2 hi Hsub Hhi).
    assert (Hst2 : ok_oe k true D2 st = true).
    { destruct st; [|reflexivity]. cbn in *. eapply ok_e_mono; eassumption. }
    rewrite Hst2, Eb2. cbn. split; [reflexivity|now apply mem_cons_mono].
  - cbn in E. discriminate.
  - rewrite chk_in_s_if in E. destruct (ok_e k true D1 c) eqn:Hc; [|discriminate].
    destruct (chk_in k false D1 t) as [Dt|] eqn:Et; [|discriminate].
    destruct (chk_in k false D1 e) as [De|] eqn:Ee; inversion E. subst.
    destruct (mono_list t H D1 D2 Dt Hsub Et) as [Dt2 [Et2 Ht]].
    destruct (mono_list e H0 D1 D2 De Hsub Ee) as [De2 [Ee2 He]].
    exists (inter Dt2 De2). rewrite chk_in_s_if, (ok_e_mono k true D1 D2 c Hsub Hc), Et2, Ee2.
    split; [reflexivity|]. intros x. rewrite !mem_inter. intros Hx. apply andb_true_iff in Hx. destruct Hx as [A B].
    now rewrite (Ht x A), (He x B).
  - cbn in E. discriminate.
  - cbn in E. inversion E. subst. exists D2. split; [reflexivity|exact Hsub].
Qed.

Lemma chk_in_mono l D1 D2 D1' :
  (forall x, mem x D1 = true -> mem x D2 = true) -> chk_in k false D1 l = Some D1' ->
  exists D2', chk_in k false D2 l = Some D2' /\ (forall x, mem x D1' = true -> mem x D2' = true).
Proof. apply mono_list. apply Forall_forall. intros s _. apply mono_all. Qed.

Lemma chk_in_app A B D :
  chk_in k false D (A ++ B) = match chk_in k false D A with Some D1 => chk_in k false D1 B | None => None end.
Proof.
  revert D. induction A as [|s r IH]; intros D; [reflexivity|]. cbn.
  destruct (chk_in_s k false D s); [apply IH|reflexivity].
Qed.

(** fusing two adjacent horizontal loops stays inside the class *)
Lemma fusion_in_class A B : in_class k false [hl k A; hl k B] = true -> in_class k false [hl k (A ++ B)] = true.
Proof.
  unfold in_class, chk_out. cbn [forallb chk_out_s hl]. rewrite String.eqb_refl.
  intros H. apply andb_true_iff in H. destruct H as [WF H]. rewrite WF. cbn [andb].
  apply andb_true_iff in H. destruct H as [HA H]. apply andb_true_iff in H. destruct H as [HB _].
  apply andb_true_iff in HA. destruct HA as [HA1 HA]. apply andb_true_iff in HB. destruct HB as [_ HB].
  rewrite HA1. cbn [andb]. rewrite andb_true_r.
  destruct (chk_in k false [] A) as [DA|] eqn:EA; [|discriminate].
  destruct (chk_in k false [] B) as [DB|] eqn:EB; [|discriminate].
  rewrite chk_in_app, EA.
  destruct (chk_in_mono B [] DA DB (fun x Hx => False_ind _ (Bool.diff_false_true Hx)) EB) as [D2 [E2 _]].
  now rewrite E2.
Qed.

End Mono.

Lemma project_hl k body : project (k_h k) [hl k body] = project (k_h k) body.
Proof. unfold project, hl. cbn [flat_map proj_s]. rewrite String.eqb_refl. apply app_nil_r. Qed.

(** the loop-distribution core of SCCDevector + SCCRevector: a horizontal loop around a sequence computes the same arrays
    as the sequence of horizontal loops (both directions of the rewrite; the fused form is in the class whenever the
    distributed one is) *)
Theorem loop_distribution k ps A B s s1 s2 :
  in_class k false [hl k A; hl k B] = true ->
  runs ps [hl k A; hl k B] s s1 -> runs ps [hl k (A ++ B)] s s2 ->
  forall a idx, av s1 a idx = av s2 a idx.
Proof.
  intros C R1 R2. apply (sound_core0 k k ps _ _ s s1 s2 C (fusion_in_class k A B C)); auto.
  rewrite project_hl. unfold project, hl. cbn [flat_map proj_s]. rewrite String.eqb_refl.
  rewrite app_nil_r. unfold project. now rewrite flat_map_app.
Qed.

(** the general form for any list of loop bodies *)
Fixpoint hloops (k : ctx) (bodies : list (list stmt)) : list stmt :=
  match bodies with [] => [] | b :: r => hl k b :: hloops k r end.

Lemma project_hloops k bodies : project (k_h k) (hloops k bodies) = project (k_h k) (List.concat bodies).
Proof.
  induction bodies as [|b r IH]; [reflexivity|]. cbn [hloops List.concat].
  change (hl k b :: hloops k r) with ([hl k b] ++ hloops k r). unfold project in *.
  rewrite !flat_map_app. f_equal; [|exact IH]. apply (project_hl k b).
Qed.

Theorem loop_distribution_n k ps bodies s s1 s2 :
  in_class k false (hloops k bodies) = true -> in_class k false [hl k (List.concat bodies)] = true ->
  runs ps (hloops k bodies) s s1 -> runs ps [hl k (List.concat bodies)] s s2 ->
  forall a idx, av s1 a idx = av s2 a idx.
Proof.
  intros C1 C2 R1 R2. apply (sound_core0 k k ps _ _ s s1 s2 C1 C2); auto.
  now rewrite project_hloops, project_hl.
Qed.

(** interchange of a vertical loop with the horizontal loop (vector sections that contain a vertical loop) *)
Theorem loop_interchange k1 k2 ps v lo hi st A s s1 s2 :
  k_h k2 = k_h k1 -> k_lo k2 = k_lo k1 -> k_hi k2 = k_hi k1 -> k_H k2 = k_H k1 ->
  in_class k1 false [SDo v lo hi st [hl k1 A]] = true ->
  in_class k2 false [hl k2 [SDo v lo hi st A]] = true ->
  runs ps [SDo v lo hi st [hl k1 A]] s s1 -> runs ps [hl k2 [SDo v lo hi st A]] s s2 ->
  forall a idx, av s1 a idx = av s2 a idx.
Proof.
  intros Eh El Eu EH C1 C2 R1 R2.
  apply (sound_core0 k1 k2 ps _ _ s s1 s2 C1 C2 Eh El Eu EH); auto.
  assert (Hv : String.eqb v (k_h k1) = false).
  { unfold in_class, chk_out in C2. cbn [forallb chk_out_s hl] in C2. rewrite String.eqb_refl in C2.
    apply andb_true_iff in C2. destruct C2 as [WF C2].
    apply andb_true_iff in C2. destruct C2 as [C2 _]. apply andb_true_iff in C2. destruct C2 as [_ C2].
    cbn [chk_in] in C2. rewrite chk_in_s_do in C2.
    destruct (mem v (k_L k2)) eqn:Hm; [|discriminate].
    destruct (String.eqb v (k_h k1)) eqn:E; [|reflexivity]. apply String.eqb_eq in E. subst v.
    rewrite <- Eh in Hm. pose proof (h_not_local k2 WF). congruence. }
  unfold project, hl. cbn [flat_map proj_s]. rewrite Eh, String.eqb_refl, Hv. cbn [flat_map proj_s].
  now rewrite !app_nil_r.
Qed.
