(** C38 — refutation witnesses (computed), addressing of the FtrPtr / DirectIdx variants, substitution along a
    call path, non-vacuity examples. *)
From Coq Require Import ZArith List Bool String Lia.
From LV Require Import Base.Expr models.M_C38 proofs.P_C38_expr proofs.P_C38.
Import ListNotations.
Open Scope string_scope.
Open Scope list_scope.
Open Scope Z_scope.

(** ** the double substitution of BaseStackTransformation._determine_stack_size under-estimates *)
(** k0(nlon,p,q) has t1(nlon) and calls k1(nlon, q, p); k1(nlon,p,q) has w(nlon,p); the driver calls k0(nlon, 1, nz) *)
Definition w_k1 : ktree := KT ["nlon"; "p"; "q"] [EProd false [EVar "nlon"; EVar "p"]] KNil.
Definition w_k0 : ktree := KT ["nlon"; "p"; "q"] [EProd false [EVar "nlon"]]
                              (KCons [EVar "nlon"; EVar "q"; EVar "p"] w_k1 KNil).
Definition w_root : ktree := KT ["nlon"; "nz"; "nb"] [] (KCons [EVar "nlon"; EInt 1; EVar "nz"] w_k0 KNil).
Definition w_rho : env := cenv [("nlon", 3); ("nz", 2); ("nb", 1)].

Lemma dbl_subst_refuted :
  exists k rho h v,
    closed_tree k = true /\
    highwater (sim (cenv []) k rho 1 []) = Some h /\
    evalZ rho (ssize true k) = Some v /\ 1 + v < h.
Proof.
  exists w_root, w_rho, 10, 6. repeat split; vm_compute; reflexivity.
Qed.

(** the same tree is handled correctly by the single substitution (pool allocator, raw stack) *)
Lemma single_subst_witness_ok :
  highwater (sim (cenv []) w_root w_rho 1 []) = Some 10 /\ evalZ w_rho (ssize false w_root) = Some 9.
Proof. split; vm_compute; reflexivity. Qed.

Lemma witness_not_idem : idem_tree w_root = false.
Proof. vm_compute. reflexivity. Qed.

(** ** addressing: FtrPtr stays inside the stack, DirectIdx is one too high *)
Theorem ftr_indices_in_bounds dbl g k rho d h sn v :
  closed_tree k = true -> (dbl = true -> idem_tree k = true) -> funeq rho g ->
  sim g k rho 1 [] = Some (d, h, sn) -> evalZ rho (ssize dbl k) = Some v ->
  Forall (fun s => Forall (fun iv => forall i, 1 <= i <= snd iv - fst iv ->
                                               1 <= addr_ftr (fst iv) i <= v) s) sn.
Proof.
  intros C I F H E.
  pose proof (allocations_disjoint dbl g k rho 1 d h sn v C I F H E) as A.
  eapply Forall_impl; [|exact A]. intros s [_ B].
  eapply Forall_impl; [|exact B]. intros iv [L1 [L2 L3]] i Hi. unfold addr_ftr. lia.
Qed.

Theorem idx_top_index_exceeds_stack lo hi v :
  hi = 1 + v -> lo < hi -> addr_idx lo (hi - lo) = v + 1.
Proof. unfold addr_idx. lia. Qed.

(** one kernel, one temporary t(nlon, m), nlon = 3, m = 2: the stack has 6 elements, DirectIdx writes element 7 *)
Lemma idx_off_by_one_refuted :
  exists k rho iv v,
    sim (cenv []) k rho 1 [] = Some (1, 1 + v, [[iv]]) /\ evalZ rho (ssize true k) = Some v /\
    addr_idx (fst iv) (snd iv - fst iv) > v.
Proof.
  exists (KT ["nlon"; "m"] [EProd false [EVar "nlon"; EVar "m"]] KNil), (cenv [("nlon", 3); ("m", 2)]), (1, 7), 6.
  repeat split; vm_compute; reflexivity.
Qed.

(** DirectIdx, rank-1 temporaries: two different temporaries are mapped to the same stack elements *)
Lemma idx_rank1_alias_refuted :
  exists jd1 jd2 i, jd1 <> jd2 /\ addr_idx_rank1 jd1 i = addr_idx_rank1 jd2 i.
Proof. exists 1, 4, 1. split; [lia|reflexivity]. Qed.

(** ** substitution along a whole call path (what the driver-level declaration of a hoisted array relies on) *)
Fixpoint subst_path (path : list (list string * list expr)) (e : expr) : expr :=
  match path with
  | [] => e
  | (ps, acts) :: rest => subst (combine ps acts) (subst_path rest e)
  end.

Fixpoint env_path (g rho : env) (path : list (list string * list expr)) : option env :=
  match path with
  | [] => Some rho
  | (ps, acts) :: rest =>
      match call_env g rho ps acts with
      | Some rc => env_path g rc rest
      | None => None
      end
  end.

(** every call's actuals mention only the dummies of the calling kernel; the expression only those of the last callee *)
Fixpoint closed_path (cur : list string) (path : list (list string * list expr)) (e : expr) : bool :=
  match path with
  | [] => closedb cur e
  | (ps, acts) :: rest => forallb (closedb cur) acts && closed_path ps rest e
  end.

Lemma path_subst_gen g path :
  forall cur rho rho' rl e,
    closed_path cur path e = true -> funeq rho g -> agree cur rho' rho ->
    env_path g rho path = Some rl ->
    evalZ rho' (subst_path path e) = evalZ rl e.
Proof.
  induction path as [|[ps acts] rest IH]; intros cur rho rho' rl e C F A E.
  - cbn in *. inversion E; subst. eapply eval_closed; eauto.
  - cbn [closed_path] in C. apply andb_prop in C. destruct C as [Ca Cr].
    cbn [env_path] in E. destruct (call_env g rho ps acts) as [rc|] eqn:CE; [|discriminate].
    unfold call_env in CE. destruct (Nat.eqb (List.length ps) (List.length acts)) eqn:HL; [|discriminate].
    apply Nat.eqb_eq in HL. destruct (omap_list (evalZ rho) acts) as [vs|] eqn:EA; [|discriminate].
    inversion CE; subst rc. cbn [subst_path].
    assert (EA' : omap_list (evalZ rho') acts = Some vs) by (rewrite (omap_closed cur rho' rho acts Ca A); exact EA).
    rewrite (subst_eval rho' ps acts vs _ HL EA').
    eapply IH; [exact Cr| |apply agree_bind|exact E].
    + intros f a. reflexivity.
    + rewrite (omap_list_length _ _ _ EA). exact HL.
    + intros f a. destruct A as [_ Af]. rewrite Af. apply F.
Qed.

Theorem hoist_path_subst_correct g cur rho path rl e :
  closed_path cur path e = true -> funeq rho g -> env_path g rho path = Some rl ->
  evalZ rho (subst_path path e) = evalZ rl e.
Proof. intros C F E. eapply path_subst_gen; eauto. apply agree_refl. Qed.

(** ** hoisting: the last call statement decides the size *)
Definition h_k1 : kernel := Kern "k1" ["nlon"; "p"] [{| t_name := "w"; t_cls := 0; t_bytes := 4; t_dims := [EVar "nlon"; EVar "p"] |}] CNil.
Definition h_k0 : kernel := Kern "k0" ["nlon"; "m"] []
  (CCons [EVar "nlon"; ESum false [EVar "m"; EInt 1]] h_k1 (CCons [EVar "nlon"; EInt 2] h_k1 CNil)).
Definition h_root : kernel := Kern "driver" ["nlon"; "nz"; "nb"] [] (CCons [EVar "nlon"; EVar "nz"] h_k0 CNil).

Lemma hoist_last_call_refuted :
  exists k rho, hoist_enough (cenv []) k rho = Some false.
Proof. exists h_root, (cenv [("nlon", 3); ("nz", 2); ("nb", 1)]). vm_compute. reflexivity. Qed.

(** with a single call the same kernel is served correctly *)
Definition h_k0' : kernel := Kern "k0" ["nlon"; "m"] [] (CCons [EVar "nlon"; ESum false [EVar "m"; EInt 1]] h_k1 CNil).
Definition h_root' : kernel := Kern "driver" ["nlon"; "nz"; "nb"] [] (CCons [EVar "nlon"; EVar "nz"] h_k0' CNil).
Lemma hoist_single_call_ok : hoist_enough (cenv []) h_root' (cenv [("nlon", 3); ("nz", 2); ("nb", 1)]) = Some true.
Proof. vm_compute. reflexivity. Qed.

(** ** the hypotheses of the storage theorems are satisfiable by a non-trivial tree *)
(** driver -> k0(nlon, m) {t(nlon), u(nlon,m)} -> k1(nlon, p) {w(nlon, p)} called with p = m+1 and p = 2 *)
Definition e_k1 : ktree := KT ["nlon"; "p"] [EProd false [EVar "nlon"; EVar "p"]] KNil.
Definition e_k0 : ktree := KT ["nlon"; "m"] [EProd false [EVar "nlon"]; EProd false [EVar "nlon"; EVar "m"]]
  (KCons [EVar "nlon"; ESum false [EVar "m"; EInt 1]] e_k1 (KCons [EVar "nlon"; EInt 2] e_k1 KNil)).
Definition e_root : ktree := KT ["nlon"; "nz"; "nb"] [] (KCons [EVar "nlon"; EVar "nz"] e_k0 KNil).

Example storage_nonvacuous :
  closed_tree e_root = true /\ idem_tree e_root = true /\
  exists d h sn, sim (cenv []) e_root (cenv [("nlon", 3); ("nz", 2); ("nb", 1)]) 0 [] = Some (d, h, sn) /\
                 h = 18 /\ List.length sn = 4%nat /\
                 evalZ (cenv [("nlon", 3); ("nz", 2); ("nb", 1)]) (ssize false e_root) = Some 18.
Proof.
  split; [vm_compute; reflexivity|]. split; [vm_compute; reflexivity|].
  eexists _, _, _. split; [vm_compute; reflexivity|]. repeat split; vm_compute; reflexivity.
Qed.
