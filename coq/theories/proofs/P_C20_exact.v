(** C20 — the model of fparser's line reader: every logical line is made of pieces of the physical lines
    g_s .. g_e, in order; the lines in between are blank or comment lines. *)
From Coq Require Import ZArith List Bool String Ascii Lia Arith Sorting.Sorted.
From LV Require Import Base.Strings models.M_C20 proofs.P_C20_base proofs.P_C20_scan.
Import ListNotations.
Open Scope list_scope.
Open Scope Z_scope.

(** * pieces of a line *)
Lemma stake_stake_min n : forall m s, stake n (stake m s) = stake (Nat.min n m) s.
Proof.
  induction n as [|n IH]; intros m s; [now rewrite !stake_0|].
  destruct m as [|m]; [now rewrite !stake_0|]. destruct s as [|c r]; cbn [stake Nat.min]; [reflexivity|].
  now rewrite IH.
Qed.

Lemma sskip_stake_gen c : forall m s, sskip c (stake m s) = stake (m - c) (sskip c s).
Proof.
  induction c as [|c IH]; intros m s; [now rewrite Nat.sub_0_r|].
  destruct m as [|m]; [rewrite !stake_0; reflexivity|].
  destruct s as [|x r]; cbn [stake sskip Nat.sub]; [now rewrite stake_0 || (destruct (m - c)%nat; reflexivity)|]. apply IH.
Qed.

Lemma is_sub_refl l : is_sub l l.
Proof. exists 0%nat, (len l). cbn [sskip]. symmetry. apply stake_all. lia. Qed.
Lemma is_sub_stake n p l : is_sub p l -> is_sub (stake n p) l.
Proof. intros (a & m & ->). exists a, (Nat.min n m). apply stake_stake_min. Qed.
Lemma is_sub_sskip n p l : is_sub p l -> is_sub (sskip n p) l.
Proof. intros (a & m & ->). exists (a + n)%nat, (m - n)%nat. rewrite sskip_stake_gen, sskip_sskip. reflexivity. Qed.

Lemma rstrip_prefix s : exists n, rstrip s = stake n s.
Proof.
  induction s as [|c r (n & IH)]; [exists 0%nat; reflexivity|]. cbn [rstrip].
  destruct (is_ws c && sempty (rstrip r)); [exists 0%nat; reflexivity|].
  exists (S n). cbn [stake]. now rewrite IH.
Qed.

Lemma split_cmt_prefix : forall s q, exists n, fst (fst (split_cmt q s)) = stake n s.
Proof.
  induction s as [|c r IH]; intros q; [exists 0%nat; reflexivity|]. cbn [split_cmt].
  destruct (q_is_none q && Ascii.eqb c "!"); [exists 0%nat; reflexivity|].
  destruct (IH (qstep q c)) as (n & E). destruct (split_cmt (qstep q c) r) as [[a b] q']. cbn [fst] in *.
  exists (S n). cbn [stake]. now rewrite E.
Qed.

Lemma drop_last_prefix s : exists n, drop_last s = stake n s.
Proof.
  induction s as [|c r (n & IH)]; [exists 0%nat; reflexivity|]. cbn [drop_last].
  destruct r as [|c2 r']; [exists 0%nat; reflexivity|]. exists (S n). cbn [stake]. now rewrite IH.
Qed.

Lemma lead_amp_cut_sub s : is_sub (lead_amp_cut s) s.
Proof.
  unfold lead_amp_cut. destruct (find_sub "&" s) as [k|]; [|apply is_sub_refl].
  destruct (Nat.eqb k 1 || sempty (lstrip (stake k s))); [|apply is_sub_refl].
  apply is_sub_sskip, is_sub_refl.
Qed.

Lemma is_sub_rstrip p l : is_sub p l -> is_sub (rstrip p) l.
Proof. intros H. destruct (rstrip_prefix p) as (n & ->). now apply is_sub_stake. Qed.
Lemma is_sub_drop_last p l : is_sub p l -> is_sub (drop_last p) l.
Proof. intros H. destruct (drop_last_prefix p) as (n & ->). now apply is_sub_stake. Qed.
Lemma is_sub_lead p l : is_sub p l -> is_sub (lead_amp_cut p) l.
Proof. intros (a & m & ->). destruct (lead_amp_cut_sub (stake m (sskip a l))) as (a' & m' & ->).
  apply is_sub_stake, is_sub_sskip. exists a, m. reflexivity. Qed.
Lemma is_sub_code q p l code cm q' : is_sub p l -> split_cmt q p = (code, cm, q') -> is_sub code l.
Proof. intros H E. destruct (split_cmt_prefix p q) as (n & F). rewrite E in F. cbn in F. subst code. now apply is_sub_stake. Qed.

(** * line numbers *)
Lemma line_at_here pre l r : line_at (pre ++ l :: r) (zlen pre + 1) = Some l.
Proof.
  unfold line_at, zlen. assert (E : (Z.of_nat (List.length pre) + 1 <? 1) = false) by (apply Z.ltb_ge; lia).
  rewrite E. replace (Z.of_nat (List.length pre) + 1 - 1) with (Z.of_nat (List.length pre)) by lia.
  rewrite Nat2Z.id, nth_error_app2 by lia. now rewrite Nat.sub_diag.
Qed.

Lemma sorted_le_last : forall l x, StronglySorted Z.lt l -> In x l -> x <= List.last l 0.
Proof.
  induction l as [|y r IH]; intros x Hs Hin; [destruct Hin|].
  inversion Hs as [|? ? Hs' Hf]; subst. destruct r as [|z r'].
  - destruct Hin as [<-|[]]. cbn. lia.
  - change (List.last (y :: z :: r') 0) with (List.last (z :: r') 0). destruct Hin as [<-|Hin].
    + rewrite Forall_forall in Hf.
      assert (Hl : In (List.last (z :: r') 0) (z :: r')).
      { clear. revert z. induction r' as [|w t IHt]; intros z; [now left|]. right. apply IHt. }
      specialize (Hf _ Hl). lia.
    + apply IH; assumption.
Qed.

Lemma sorted_snoc l k : StronglySorted Z.lt l -> (forall x, In x l -> x < k) -> StronglySorted Z.lt (l ++ [k]).
Proof.
  intros Hs H. apply SS_app; [exact Hs|constructor; constructor|].
  intros x y Hx [<-|[]]. apply H, Hx.
Qed.

(** * the invariant of an open statement *)
Definition cs_exact (all : list string) (k : Z) (c : cstate) : Prop :=
  cs_parts c <> [] /\
  Forall (part_ok all) (cs_parts c) /\
  StronglySorted Z.lt (map fst (cs_parts c)) /\
  hd_error (map fst (cs_parts c)) = Some (cs_s c) /\
  List.last (map fst (cs_parts c)) 0 = cs_e c /\
  cs_e c < k /\
  (forall k', cs_s c <= k' < k -> ~ In k' (map fst (cs_parts c)) ->
     exists l, line_at all k' = Some l /\ skipped_line l = true).
Definition st_exact (all : list string) (k : Z) (st : option cstate) : Prop :=
  match st with None => True | Some c => cs_exact all k c end.

Lemma close_exact all k c : cs_exact all k c -> group_exact all (close_group c).
Proof.
  intros (A & B & C & D & E & F & G). unfold group_exact, close_group. cbn [g_parts g_s g_e].
  repeat split; try assumption. intros k' Hk Hn. apply G; [lia|exact Hn].
Qed.

(** appending the part of line k *)
Lemma snoc_facts all k c p l :
  cs_exact all k c -> line_at all k = Some l -> code_line l = true -> is_sub p l ->
  let parts := cs_parts c ++ [(k, p)] in
  parts <> [] /\ Forall (part_ok all) parts /\ StronglySorted Z.lt (map fst parts) /\
  hd_error (map fst parts) = Some (cs_s c) /\ List.last (map fst parts) 0 = k /\
  (forall k', cs_s c <= k' < k + 1 -> ~ In k' (map fst parts) ->
     exists l', line_at all k' = Some l' /\ skipped_line l' = true).
Proof.
  intros (A & B & C & D & E & F & G) Hl Hc Hp parts. unfold parts. rewrite map_app. cbn [map fst].
  split; [destruct (cs_parts c); discriminate|]. split.
  { apply Forall_app. split; [exact B|]. constructor; [|constructor]. exists l. cbn [fst snd]. auto. }
  split.
  { apply sorted_snoc; [exact C|]. intros x Hx. pose proof (sorted_le_last _ x C Hx). lia. }
  split.
  { destruct (cs_parts c) as [|y t]; [congruence|]. exact D. }
  split; [apply last_last|].
  intros k' Hk Hn. destruct (Z.eq_dec k' k) as [->|N].
  - exfalso. apply Hn. apply in_or_app. right. now left.
  - apply G; [lia|]. intros Hin. apply Hn. apply in_or_app. now left.
Qed.

Lemma groups_of_app a b : groups_of (a ++ b) = groups_of a ++ groups_of b.
Proof. unfold groups_of. apply flat_map_app. Qed.

Lemma code_line_of l ch : first_nonws l = Some ch -> Ascii.eqb ch "!" = false -> code_line l = true.
Proof. intros H E. unfold code_line. rewrite H, E. reflexivity. Qed.
Lemma skipped_blank l : first_nonws l = None -> skipped_line l = true.
Proof. intros H. unfold skipped_line. now rewrite H. Qed.
Lemma skipped_cmt l ch : first_nonws l = Some ch -> Ascii.eqb ch "!" = true -> skipped_line l = true.
Proof. intros H E. unfold skipped_line. now rewrite H. Qed.

(** one physical line *)
Lemma step_exact all k st l :
  line_at all k = Some l -> st_exact all k st ->
  Forall (group_exact all) (groups_of (fst (step k st l))) /\ st_exact all (k + 1) (snd (step k st l)).
Proof.
  intros Hl Hst. destruct st as [c|]; cbn [step].
  - cbn [st_exact] in Hst. unfold scan_cont.
    destruct (first_nonws l) as [ch|] eqn:Hf.
    2:{ cbn [fst snd groups_of flat_map st_exact]. split; [constructor|].
        destruct Hst as (A & B & C & D & E & F & G). repeat split; try assumption; try lia.
        intros k' Hk Hn. destruct (Z.eq_dec k' k) as [->|N]; [exists l; split; [exact Hl|now apply skipped_blank]|].
        apply G; [lia|exact Hn]. }
    destruct (Ascii.eqb ch "!") eqn:Hb.
    { cbn [fst snd groups_of flat_map st_exact]. split; [constructor|].
      destruct Hst as (A & B & C & D & E & F & G). unfold cs_exact. cbn [cs_parts cs_s cs_e].
      repeat split; try assumption; try lia.
      intros k' Hk Hn. destruct (Z.eq_dec k' k) as [->|N]; [exists l; split; [exact Hl|now apply (skipped_cmt l ch)]|].
      apply G; [lia|exact Hn]. }
    destruct (split_cmt (cs_q c) (rstrip l)) as [[code cm] q] eqn:Hs.
    assert (Hcode : is_sub code l) by (apply (is_sub_code _ _ _ _ _ _ (is_sub_rstrip _ _ (is_sub_refl l)) Hs)).
    assert (Hcl : code_line l = true) by (apply (code_line_of l ch Hf Hb)).
    destruct (ends_amp (rstrip code)).
    + cbn [fst snd groups_of flat_map st_exact]. split; [constructor|].
      destruct (snoc_facts all k c (lead_amp_cut (drop_last (rstrip code))) l Hst Hl Hcl
                  (is_sub_lead _ _ (is_sub_drop_last _ _ (is_sub_rstrip _ _ Hcode)))) as (A & B & C & D & E & G).
      unfold cs_exact. cbn [cs_parts cs_s cs_e]. repeat split; try assumption; lia.
    + cbn [fst snd groups_of flat_map app st_exact]. split; [|exact I].
      constructor; [|constructor].
      destruct (snoc_facts all k c (lead_amp_cut code) l Hst Hl Hcl (is_sub_lead _ _ Hcode)) as (A & B & C & D & E & G).
      unfold group_exact. cbn [g_parts g_s g_e]. repeat split; try assumption.
      intros k' Hk Hn. apply G; [lia|exact Hn].
  - unfold scan_fresh. destruct (first_nonws l) as [ch|] eqn:Hf.
    2:{ cbn. split; [constructor|exact I]. }
    destruct (Ascii.eqb ch "!") eqn:Hb; [cbn; split; [constructor|exact I]|].
    destruct (Ascii.eqb ch "#"); [cbn; split; [constructor|exact I]|].
    destruct (split_cmt QN l) as [[code cm] q] eqn:Hs.
    assert (Hcode : is_sub code l) by (apply (is_sub_code _ _ _ _ _ _ (is_sub_refl l) Hs)).
    assert (Hcl : code_line l = true) by (apply (code_line_of l ch Hf Hb)).
    assert (Hpart : forall p, is_sub p l -> part_ok all (k, p)) by (intros p Hp; exists l; cbn [fst snd]; auto).
    destruct (ends_amp (rstrip code)).
    + cbn [fst snd groups_of flat_map st_exact]. split; [constructor|].
      unfold cs_exact. cbn [cs_parts cs_s cs_e map fst hd_error List.last].
      split; [discriminate|]. split; [constructor; [apply Hpart, is_sub_drop_last, is_sub_rstrip, Hcode|constructor]|].
      split; [constructor; constructor|]. split; [reflexivity|]. split; [reflexivity|]. split; [lia|].
      intros k' Hk Hn. exfalso. apply Hn. left. lia.
    + cbn [fst snd groups_of flat_map app st_exact]. split; [|exact I].
      constructor; [|constructor]. unfold group_exact. cbn [g_parts g_s g_e map fst hd_error List.last].
      split; [discriminate|]. split; [constructor; [apply Hpart, is_sub_rstrip, Hcode|constructor]|].
      split; [constructor; constructor|]. split; [reflexivity|]. split; [reflexivity|].
      intros k' Hk Hn. exfalso. apply Hn. left. lia.
Qed.

Lemma scan_exact all : forall ls pre k st,
  all = pre ++ ls -> k = zlen pre + 1 -> st_exact all k st ->
  Forall (group_exact all) (groups_of (scan k st ls)).
Proof.
  induction ls as [|l r IH]; intros pre k st Hall Hk Hst.
  - cbn [scan]. destruct st as [c|]; [|constructor]. cbn. constructor; [|constructor].
    apply (close_exact all k). exact Hst.
  - rewrite scan_cons, groups_of_app.
    assert (Hl : line_at all k = Some l) by (subst all k; apply line_at_here).
    destruct (step_exact all k st l Hl Hst) as [H1 H2].
    apply Forall_app. split; [exact H1|].
    apply (IH (pre ++ [l])); [subst all; now rewrite <- app_assoc| |exact H2].
    subst k. unfold zlen. rewrite app_length. cbn [List.length]. lia.
Qed.

Lemma fp_groups_exact_lemma ls : Forall (group_exact ls) (groups_of (scan 1 None ls)).
Proof. apply (scan_exact ls ls [] 1 None); [reflexivity|reflexivity|exact I]. Qed.

(** single items are comments or preprocessor lines *)
Lemma scan_single_not_line : forall ls k st i, In (EvI i) (scan k st ls) -> r_kind i <> KLine.
Proof.
  induction ls as [|l r IH]; intros k st i He.
  - cbn in He. destruct st; [destruct He as [E|[]]; discriminate|destruct He].
  - rewrite scan_cons in He. apply in_app_or in He. destruct He as [He|He]; [|exact (IH _ _ _ He)].
    unfold step, scan_fresh, scan_cont in He. destruct st as [c|].
    + destruct (first_nonws l); [|destruct He]. destruct (Ascii.eqb a "!"); [destruct He|].
      destruct (split_cmt (cs_q c) (rstrip l)) as [[? ?] ?]. destruct (ends_amp _); [destruct He|].
      destruct He as [E|[]]; discriminate.
    + destruct (first_nonws l).
      2:{ destruct He as [E|[]]; injection E as <-; discriminate. }
      destruct (Ascii.eqb a "!"); [destruct He as [E|[]]; injection E as <-; discriminate|].
      destruct (Ascii.eqb a "#"); [destruct He as [E|[]]; injection E as <-; discriminate|].
      destruct (split_cmt QN l) as [[? ?] ?]. destruct (ends_amp _); [destruct He|].
      destruct He as [E|[]]; discriminate.
Qed.

Definition cms_are_comments (st : option cstate) : Prop :=
  match st with Some c => Forall (fun y => r_kind y = KComment) (cs_cms c) | None => True end.

Lemma inline_cmt_comment cm k : Forall (fun y => r_kind y = KComment) (inline_cmt cm k).
Proof. destruct cm; cbn; repeat constructor. Qed.

Lemma scan_group_cms : forall ls k st, cms_are_comments st ->
  forall g, In (EvG g) (scan k st ls) -> Forall (fun y => r_kind y = KComment) (g_cms g).
Proof.
  induction ls as [|l r IH]; intros k st Hst g He.
  - cbn in He. destruct st; [destruct He as [E|[]]; injection E as <-; exact Hst|destruct He].
  - rewrite scan_cons in He. apply in_app_or in He. destruct He as [He|He].
    + unfold step, scan_fresh, scan_cont in He. destruct st as [c|].
      * destruct (first_nonws l); [|destruct He]. destruct (Ascii.eqb a "!"); [destruct He|].
        destruct (split_cmt (cs_q c) (rstrip l)) as [[? ?] ?]. destruct (ends_amp _); [destruct He|].
        destruct He as [E|[]]. injection E as <-. cbn [g_cms]. apply Forall_app. split; [exact Hst|apply inline_cmt_comment].
      * destruct (first_nonws l); [|destruct He as [E|[]]; discriminate].
        destruct (Ascii.eqb a "!"); [destruct He as [E|[]]; discriminate|].
        destruct (Ascii.eqb a "#"); [destruct He as [E|[]]; discriminate|].
        destruct (split_cmt QN l) as [[? ?] ?]. destruct (ends_amp _); [destruct He|].
        destruct He as [E|[]]. injection E as <-. cbn [g_cms]. apply inline_cmt_comment.
    + apply (IH (k + 1) (snd (step k st l))); [|exact He].
      unfold step, scan_fresh, scan_cont. destruct st as [c|].
      * destruct (first_nonws l); [|exact Hst]. destruct (Ascii.eqb a "!").
        { cbn. apply Forall_app. split; [exact Hst|repeat constructor]. }
        destruct (split_cmt (cs_q c) (rstrip l)) as [[? ?] ?]. destruct (ends_amp _); [|exact I].
        cbn. apply Forall_app. split; [exact Hst|apply inline_cmt_comment].
      * destruct (first_nonws l); [|exact I]. destruct (Ascii.eqb a "!"); [exact I|].
        destruct (Ascii.eqb a "#"); [exact I|].
        destruct (split_cmt QN l) as [[? ?] ?]. destruct (ends_amp _); [|exact I]. cbn. apply inline_cmt_comment.
Qed.

(** every statement item of the reader comes from such a group, with the group's span *)
Lemma fp_read_line_from_group_lemma ls x :
  In x (fp_read ls) -> r_kind x = KLine ->
  exists g, In g (groups_of (scan 1 None ls)) /\ r_s x = g_s g /\ r_e x = g_e g /\ In (r_text x) (pieces (g_content g)).
Proof.
  unfold fp_read. intros Hin Hk. apply in_flat_map in Hin. destruct Hin as (e & He & Hx).
  destruct e as [i|g].
  - destruct Hx as [<-|[]]. exfalso. exact (scan_single_not_line _ _ _ _ He Hk).
  - exists g. split.
    + unfold groups_of. apply in_flat_map. exists (EvG g). split; [exact He|now left].
    + cbn [ev_items] in Hx. apply in_app_or in Hx. destruct Hx as [Hx|Hx].
      * apply in_map_iff in Hx. destruct Hx as (p & <- & Hp). cbn. auto.
      * exfalso. pose proof (scan_group_cms ls 1 None I g He) as Hc.
        rewrite Forall_forall in Hc. specialize (Hc x Hx). congruence.
Qed.
