(** C33 — outlining preserves behaviour on the class [flow]; concrete refutations outside it. *)
From Coq Require Import ZArith List Bool String Lia.
From LV Require Import Base.Expr Base.MiniF Base.MiniFFacts models.M_C26 models.M_C33 proofs.P_C33_base proofs.P_C33_ni.
Import ListNotations.
Open Scope Z_scope.

(** * the transformation only moves statements *)
Lemma outline_items_inline h sg : forall its n cs, outline_items h sg n its = Some cs -> inline cs = orig its.
Proof.
  induction its as [|[s|rg] r IH]; intros n cs E; cbn in E.
  - inversion E; subst. reflexivity.
  - destruct (outline_items h sg n r) as [cs'|] eqn:E'; [|discriminate]. cbn in E. inversion E; subst.
    cbn. f_equal. now apply (IH n).
  - destruct (forallb _ _); [|discriminate].
    destruct (outline_items h sg (S n) r) as [cs'|] eqn:E'; [|discriminate]. cbn in E. inversion E; subst.
    cbn. f_equal. now apply (IH (S n)).
Qed.

Lemma outline_inline h sg its cs : outline h sg its = Some cs -> inline cs = orig its.
Proof. apply outline_items_inline. Qed.

(** the body of every new routine is the body of a region, verbatim *)
Lemma outline_bodies h sg : forall its n cs o,
  outline_items h sg n its = Some cs -> In (CCall o) cs -> exists rg, In (IRegion rg) its /\ o_body o = r_body rg.
Proof.
  induction its as [|[s|rg] r IH]; intros n cs o E Hin; cbn in E.
  - inversion E; subst. destruct Hin.
  - destruct (outline_items h sg n r) as [cs'|] eqn:E'; [|discriminate]. cbn in E. inversion E; subst.
    destruct Hin as [Hin|Hin]; [discriminate|]. destruct (IH n cs' o E' Hin) as [rg [A B]]. exists rg. split; [now right|exact B].
  - destruct (forallb _ _); [|discriminate].
    destruct (outline_items h sg (S n) r) as [cs'|] eqn:E'; [|discriminate]. cbn in E. inversion E; subst.
    destruct Hin as [Hin|Hin].
    + inversion Hin; subst. exists rg. split; [now left|reflexivity].
    + destruct (IH (S n) cs' o E' Hin) as [rg' [A B]]. exists rg'. split; [now right|exact B].
Qed.

(** * executable and relational semantics of the outlined program coincide *)
Lemma exec_c_runs_c ps strict g f : forall cs s s', exec_c ps strict g f cs s = Some s' -> runs_c ps strict g cs s s'.
Proof.
  induction cs as [|[st|o] r IH]; intros s s' E; cbn in E.
  - inversion E; subst. constructor.
  - apply obind_some in E. destruct E as [m [E1 E2]]. eapply RC_stmt; [exists f; exact E1|now apply IH].
  - apply obind_some in E. destruct E as [m [E1 E2]]. unfold ocall in E1.
    apply obind_some in E1. destruct E1 as [c [E1 E3]]. inversion E3; subst.
    eapply RC_call; [exists f; exact E1|now apply IH].
Qed.

Lemma runs_c_exec_c ps strict g : forall cs s s', runs_c ps strict g cs s s' -> exists f, exec_c ps strict g f cs s = Some s'.
Proof.
  intros cs s s' H. induction H as [s|st r s s1 s' [f1 E1] _ [f2 E2]|o r s c s' [f1 E1] _ [f2 E2]].
  - exists 0%nat. reflexivity.
  - exists (Nat.max f1 f2). cbn.
    rewrite (exec_fuel_mono ps f1 _ _ _ _ E1 (Nat.le_max_l _ _)). cbn [obind].
    clear E1. revert E2. generalize (Nat.le_max_r f1 f2). generalize (Nat.max f1 f2). intros F Hle.
    revert s1. induction r as [|[st'|o'] r' IHr]; intros s1 E2; cbn in E2 |- *; [exact E2| |].
    + apply obind_some in E2. destruct E2 as [m [A B]]. rewrite (exec_fuel_mono ps f2 F _ _ _ A Hle). cbn [obind]. now apply IHr.
    + apply obind_some in E2. destruct E2 as [m [A B]]. unfold ocall in A |- *.
      apply obind_some in A. destruct A as [c [A C]]. rewrite (exec_fuel_mono ps f2 F _ _ _ A Hle). cbn [obind].
      inversion C; subst. now apply IHr.
  - exists (Nat.max f1 f2). cbn. unfold ocall at 1.
    rewrite (exec_fuel_mono ps f1 _ _ _ _ E1 (Nat.le_max_l _ _)). cbn [obind].
    clear E1. revert E2. generalize (Nat.le_max_r f1 f2). generalize (Nat.max f1 f2). intros F Hle.
    generalize (pickT (o_exit o) c s). intros s1. revert s1.
    induction r as [|[st'|o'] r' IHr]; intros s1 E2; cbn in E2 |- *; [exact E2| |].
    + apply obind_some in E2. destruct E2 as [m [A B]]. rewrite (exec_fuel_mono ps f2 F _ _ _ A Hle). cbn [obind]. now apply IHr.
    + apply obind_some in E2. destruct E2 as [m [A B]]. unfold ocall in A |- *.
      apply obind_some in A. destruct A as [c' [A C]]. rewrite (exec_fuel_mono ps f2 F _ _ _ A Hle). cbn [obind].
      inversion C; subst. now apply IHr.
Qed.

(** * soundness of the class *)
Lemma agree_out_refl D s : agree_out D s s.
Proof. apply agreeP_refl. Qed.

Lemma tdisj_reads_ok a D : tdisj a D = true -> reads_ok (fun p => negb (tmemp p D)) a.
Proof. intros H p Hp. apply negb_true_iff. apply tmemp_false. exact (proj1 (tdisj_In a D) H p Hp). Qed.

Lemma pickT_agree X s g : agreeP (fun p => tmemp p X) s (pickT X s g).
Proof.
  split.
  - intros x Hx. cbn. unfold tmemp in Hx. cbn in Hx. now rewrite Hx.
  - intros a Ha i. cbn. unfold tmemp in Ha. cbn in Ha. now rewrite Ha.
Qed.

Lemma pickT_other X s g : agreeP (fun p => negb (tmemp p X)) g (pickT X s g).
Proof.
  split.
  - intros x Hx. cbn. unfold tmemp in Hx. cbn in Hx. apply negb_true_iff in Hx. now rewrite Hx.
  - intros a Ha i. cbn. unfold tmemp in Ha. cbn in Ha. apply negb_true_iff in Ha. now rewrite Ha.
Qed.

(** the step for one CALL, in the form used by both directions: [s1] runs the region in place, [s2]
    is the caller of the outlined routine *)
Lemma call_step ps strict g o D D' s1 s2 :
  flow_step ps strict D (CCall o) = Some D' -> agree_out D s1 s2 ->
  let c0 := pickT (o_entry strict o) s2 g in
  agreeP (fun p => tmemp p (o_entry strict o) && negb (tmemp p D)) s1 c0 /\
  reads_ok (fun p => tmemp p (o_entry strict o) && negb (tmemp p D)) (ue_l ps (o_body o)) /\
  (forall m1 c', agreeP (Pun (fun p => tmemp p (o_entry strict o) && negb (tmemp p D)) (mdef_l (o_body o))) m1 c' ->
                 untouched (wr_l ps (o_body o)) s1 m1 -> agree_out D' m1 (pickT (o_exit o) c' s2)).
Proof.
  intros F Ag c0. cbn [flow_step] in F.
  destruct (o_wf o && tsubset (ue_l ps (o_body o)) (o_entry strict o) && tdisj (ue_l ps (o_body o)) D) eqn:C; [|discriminate].
  inversion F; subst D'; clear F.
  apply andb_true_iff in C. destruct C as [C C3]. apply andb_true_iff in C. destruct C as [_ C2].
  split; [|split].
  - destruct Ag as [A B]. split.
    + intros x Hx. apply andb_true_iff in Hx. destruct Hx as [H1 H2]. subst c0. cbn.
      unfold tmemp in H1. cbn in H1. rewrite H1. now apply A.
    + intros a Ha i. apply andb_true_iff in Ha. destruct Ha as [H1 H2]. subst c0. cbn.
      unfold tmemp in H1. cbn in H1. rewrite H1. now apply B.
  - intros p Hp. apply andb_true_iff. split.
    + apply tmemp_In. exact (proj1 (tsubset_In _ _) C2 p Hp).
    + now apply (tdisj_reads_ok _ _ C3).
  - intros m1 c' Hm Hfr.
    assert (Key : forall p, negb (tmemp p (filter (fun p => negb ((tmemp p (o_entry strict o) && negb (tmemp p D)) || tmemp p (mdef_l (o_body o)))) (o_exit o)
                                       ++ filter (fun p => negb (tmemp p (o_exit o))) (D ++ wr_l ps (o_body o)))) = true ->
              if tmemp p (o_exit o) then Pun (fun p => tmemp p (o_entry strict o) && negb (tmemp p D)) (mdef_l (o_body o)) p = true
              else negb (tmemp p D) = true /\ negb (tmemp p (wr_l ps (o_body o))) = true).
    { intros p Hp. apply negb_true_iff in Hp. apply tmemp_false in Hp.
      destruct (tmemp p (o_exit o)) eqn:Eo.
      - unfold Pun. destruct ((tmemp p (o_entry strict o) && negb (tmemp p D)) || tmemp p (mdef_l (o_body o))) eqn:Ek; [reflexivity|].
        exfalso. apply Hp. apply in_or_app. left. apply filter_In. split; [now apply tmemp_In|]. now rewrite Ek.
      - assert (Hn : ~ In p (D ++ wr_l ps (o_body o))).
        { intros Hin. apply Hp. apply in_or_app. right. apply filter_In. split; [exact Hin|]. now rewrite Eo. }
        split; apply negb_true_iff; apply tmemp_false; intros Hin; apply Hn; apply in_or_app; [now left|now right]. }
    split.
    + intros x Hx. specialize (Key (x, false) Hx). cbn. unfold tmemp in Key. cbn [fst snd] in Key.
      destruct (tmem x false (o_exit o)).
      * destruct Hm as [A _]. now apply A.
      * destruct Key as [K1 K2]. destruct Hfr as [Fr _]. rewrite <- (Fr x K2). destruct Ag as [A _]. now apply A.
    + intros a Ha i. specialize (Key (a, true) Ha). cbn. unfold tmemp in Key. cbn [fst snd] in Key.
      destruct (tmem a true (o_exit o)).
      * destruct Hm as [_ B]. now apply B.
      * destruct Key as [K1 K2]. destruct Hfr as [_ Fr]. rewrite <- (Fr a K2 i). destruct Ag as [_ B]. now apply B.
Qed.

Lemma stmt_step ps strict D D' st :
  flow_step ps strict D (CStmt st) = Some D' ->
  reads_ok (fun p => negb (tmemp p D)) (ue_s ps st) /\
  (forall m1 m2, agreeP (Pun (fun p => negb (tmemp p D)) (mdef_s st)) m1 m2 -> agree_out D' m1 m2).
Proof.
  intros F. cbn [flow_step] in F. destruct (tdisj (ue_s ps st) D) eqn:C; [|discriminate]. inversion F; subst D'.
  split; [now apply tdisj_reads_ok|].
  intros m1 m2. apply agreeP_weaken. intros p Hp. unfold Pun.
  apply negb_true_iff in Hp. apply tmemp_false in Hp.
  destruct (tmemp p D) eqn:E1; [|reflexivity]. cbn. destruct (tmemp p (mdef_s st)) eqn:E2; [reflexivity|].
  exfalso. apply Hp. apply In_tdiff. split; [now apply tmemp_In|now apply tmemp_false].
Qed.

(** forward: whenever the original terminates, so does the outlined program, with the same values
    outside [Dn] — whatever the undefined variables of the callees hold *)
Theorem flow_sound ps strict g : forall cs D Dn s1 s2 s1',
  flow ps strict cs D = Some Dn -> agree_out D s1 s2 -> runs ps (inline cs) s1 s1' ->
  exists s2', runs_c ps strict g cs s2 s2' /\ agree_out Dn s1' s2'.
Proof.
  induction cs as [|[st|o] r IH]; intros D Dn s1 s2 s1' F Ag R; cbn [flow] in F.
  - inversion F; subst. cbn in R. apply runs_nil_inv in R. subst. exists s2. split; [constructor|exact Ag].
  - destruct (flow_step ps strict D (CStmt st)) as [D'|] eqn:Fs; [|discriminate].
    cbn [inline flat_map] in R. cbn [app] in R. apply runs_cons_inv in R. destruct R as [m1 [[f E1] R2]].
    destruct (stmt_step ps strict D D' st Fs) as [Rd Hk].
    destruct (ni_stmt ps f (ni_all ps f) _ st s1 s2 m1 Ag Rd E1) as [m2 [G1 G2]].
    destruct (IH D' Dn m1 m2 s1' F (Hk _ _ G2) R2) as [s2' [H1 H2]].
    exists s2'. split; [|exact H2]. eapply RC_stmt; [|exact H1].
    apply runs_single. now exists f.
  - destruct (flow_step ps strict D (CCall o)) as [D'|] eqn:Fs; [|discriminate].
    cbn [inline flat_map] in R. apply runs_app_inv in R. destruct R as [m1 [[f E1] R2]].
    destruct (call_step ps strict g o D D' s1 s2 Fs Ag) as [A0 [Rd Hk]].
    destruct (ni_list ps f _ (o_body o) s1 _ m1 A0 Rd E1) as [c' [G1 G2]].
    pose proof (frame_list ps f _ _ _ E1) as Fr.
    destruct (IH D' Dn m1 _ s1' F (Hk m1 c' G2 Fr) R2) as [s2' [H1 H2]].
    exists s2'. split; [|exact H2]. eapply RC_call; [exists f; exact G1|exact H1].
Qed.

(** backward: whenever the outlined program terminates, so does the original *)
Theorem flow_complete ps strict g : forall cs D Dn s1 s2 s2',
  flow ps strict cs D = Some Dn -> agree_out D s1 s2 -> runs_c ps strict g cs s2 s2' ->
  exists s1', runs ps (inline cs) s1 s1' /\ agree_out Dn s1' s2'.
Proof.
  induction cs as [|[st|o] r IH]; intros D Dn s1 s2 s2' F Ag R; cbn [flow] in F.
  - inversion F; subst. inversion R; subst. exists s1. split; [apply runs_nil|exact Ag].
  - destruct (flow_step ps strict D (CStmt st)) as [D'|] eqn:Fs; [|discriminate].
    inversion R as [|st' r' sa m2 sb R1 R2|]; subst.
    apply runs_single in R1. destruct R1 as [f E1].
    destruct (stmt_step ps strict D D' st Fs) as [Rd Hk].
    destruct (ni_stmt ps f (ni_all ps f) _ st s2 s1 m2 (agreeP_sym _ _ _ Ag) Rd E1) as [m1 [G1 G2]].
    destruct (IH D' Dn m1 m2 s2' F (Hk _ _ (agreeP_sym _ _ _ G2)) R2) as [s1' [H1 H2]].
    exists s1'. split; [|exact H2]. cbn [inline flat_map]. cbn [app].
    eapply runs_cons; [exists f; exact G1|exact H1].
  - destruct (flow_step ps strict D (CCall o)) as [D'|] eqn:Fs; [|discriminate].
    inversion R as [| |o' r' sa c' sb [f E1] R2]; subst.
    destruct (call_step ps strict g o D D' s1 s2 Fs Ag) as [A0 [Rd Hk]].
    destruct (ni_list ps f _ (o_body o) _ s1 c' (agreeP_sym _ _ _ A0) Rd E1) as [m1 [G1 G2]].
    pose proof (frame_list ps f _ _ _ G1) as Fr.
    destruct (IH D' Dn m1 _ s2' F (Hk m1 c' (agreeP_sym _ _ _ G2) Fr) R2) as [s1' [H1 H2]].
    exists s1'. split; [|exact H2]. cbn [inline flat_map].
    eapply runs_app; [exists f; exact G1|exact H1].
Qed.

(** * the property *)
Theorem outline_preserves h sg ps strict its cs D :
  outline h sg its = Some cs -> flow ps strict cs [] = Some D ->
  forall g s,
    (forall s', runs ps (orig its) s s' -> exists s'', runs_c ps strict g cs s s'' /\ agree_out D s' s'') /\
    (forall s'', runs_c ps strict g cs s s'' -> exists s', runs ps (orig its) s s' /\ agree_out D s' s'').
Proof.
  intros Ho Hf g s. rewrite <- (outline_inline h sg its cs Ho). split.
  - intros s' R. exact (flow_sound ps strict g cs [] D s s s' Hf (agree_out_refl _ _) R).
  - intros s'' R. exact (flow_complete ps strict g cs [] D s s s'' Hf (agree_out_refl _ _) R).
Qed.

(** on the caller-visible variables [obs] (the host's dummies) when they are disjoint from [D] *)
Corollary outline_preserves_observable h sg ps strict its cs D obs :
  outline h sg its = Some cs -> flow ps strict cs [] = Some D -> tdisj obs D = true ->
  forall g s s' s'', runs ps (orig its) s s' -> runs_c ps strict g cs s s'' -> agree_on obs s' s''.
Proof.
  intros Ho Hf Hd g s s' s'' R1 R2.
  destruct (proj1 (outline_preserves h sg ps strict its cs D Ho Hf g s) s' R1) as [t [T1 T2]].
  assert (t = s'').
  { destruct (runs_c_exec_c _ _ _ _ _ _ T1) as [f1 E1]. destruct (runs_c_exec_c _ _ _ _ _ _ R2) as [f2 E2].
    assert (M : forall f f' cs0 a b, exec_c ps strict g f cs0 a = Some b -> (f <= f')%nat -> exec_c ps strict g f' cs0 a = Some b).
    { intros f f' cs0. induction cs0 as [|[st|o] r IHr]; intros a b E Hle; cbn in E |- *; [exact E| |].
      - apply obind_some in E. destruct E as [m [A B]]. rewrite (exec_fuel_mono ps f f' _ _ _ A Hle). cbn [obind]. now apply IHr.
      - apply obind_some in E. destruct E as [m [A B]]. unfold ocall in A |- *. apply obind_some in A. destruct A as [c [A C]].
        rewrite (exec_fuel_mono ps f f' _ _ _ A Hle). cbn [obind]. inversion C; subst. now apply IHr. }
    pose proof (M f1 (Nat.max f1 f2) cs s t E1 (Nat.le_max_l _ _)) as A.
    pose proof (M f2 (Nat.max f1 f2) cs s s'' E2 (Nat.le_max_r _ _)) as B. congruence. }
  subst t. eapply agreeP_weaken; [|exact T2]. intros p Hp. apply negb_true_iff. apply tmemp_false.
  apply tmemp_In in Hp. exact (proj1 (tdisj_In _ _) Hd p Hp).
Qed.

(** the two conditions of the statement, read off [flow_step]: if the pass accepts a CALL then every
    upward-exposed read of the region is an argument that is defined on entry, and a location that the
    region may write and that is not passed back is recorded as unreliable *)
Theorem touched_vars_are_args ps strict D D' o :
  flow_step ps strict D (CCall o) = Some D' ->
  (forall p, In p (ue_l ps (o_body o)) -> In p (o_entry strict o)) /\
  (forall p, In p (wr_l ps (o_body o)) -> In p (o_exit o) \/ In p D').
Proof.
  intros F. cbn [flow_step] in F.
  destruct (o_wf o && tsubset (ue_l ps (o_body o)) (o_entry strict o) && tdisj (ue_l ps (o_body o)) D) eqn:C; [|discriminate].
  inversion F; subst D'; clear F.
  apply andb_true_iff in C. destruct C as [C _]. apply andb_true_iff in C. destruct C as [_ C2].
  split; [exact (proj1 (tsubset_In _ _) C2)|].
  intros p Hp. destruct (tmemp p (o_exit o)) eqn:E; [left; now apply tmemp_In|right].
  apply in_or_app. right. apply filter_In. split; [apply in_or_app; now right|now rewrite E].
Qed.

(** * outside the class: concrete refutations on the model's own output *)
Local Open Scope string_scope.
Definition w_host : hostd :=
  {| h_name := "host"; h_shapes := [("a", [4]); ("b", [4])]; h_pars := []; h_imps := [];
     h_vars := ["x"; "y"; "z"; "w"; "u"; "t1"; "t2"; "i"; "j"; "a"; "b"] |}%string.

(** (a) [x = 5; region { if (z > 0) x = 1 }; y = x]: x is only MAY-defined, the dataflow sets make it
    intent(out); under the standard's rule the caller's x is undefined after the call *)
Definition w_maydef : list item :=
  [IStmt (SAssign "x" (EInt 5));
   IRegion {| r_name := Some "foo"; r_in := []; r_inout := []; r_out := [];
              r_body := [SIf (ECmp Cgt (EVar "z") (EInt 0)) [SAssign "x" (EInt 1)] []] |};
   IStmt (SAssign "y" (EVar "x"))]%string.

Theorem outline_maydef_refuted :
  exists cs, outline w_host [] w_maydef = Some cs /\
    In ("x", false, IOut) (flat_map o_args (new_routines cs)) /\
    exists s1 s2, runs [] (orig w_maydef) empty_store s1 /\ runs_c [] true (gstore 7) cs empty_store s2 /\
                  sv s1 "y"%string = 5 /\ sv s2 "y"%string = 7.
Proof.
  eexists. split; [vm_compute; reflexivity|]. split; [vm_compute; tauto|].
  eexists. eexists. split; [exists 10%nat; vm_compute; reflexivity|].
  split; [eapply (exec_c_runs_c [] true (gstore 7) 10%nat); vm_compute; reflexivity|].
  split; reflexivity.
Qed.

(** (b) [region { do i = 1, 3: a(i) = i }; y = i]: the DO variable is in neither uses nor defines, so it
    is a local of the new routine; the caller's i keeps its old value (by-reference passing, no
    strictness needed) *)
Definition w_loopvar : list item :=
  [IRegion {| r_name := Some "foo"; r_in := []; r_inout := []; r_out := [];
              r_body := [SDo "i" (EInt 1) (EInt 3) None [SStore "a" [EVar "i"] (EVar "i")]] |};
   IStmt (SAssign "y" (EVar "i"))]%string.

Theorem loopvar_after_region_refuted :
  exists cs, outline w_host [] w_loopvar = Some cs /\
    (forall o, In o (new_routines cs) -> In "i"%string (o_locals o)) /\
    exists s1 s2, runs [] (orig w_loopvar) empty_store s1 /\ runs_c [] false (gstore 7) cs empty_store s2 /\
                  sv s1 "y"%string = 4 /\ sv s2 "y"%string = 0.
Proof.
  eexists. split; [vm_compute; reflexivity|]. split.
  - intros o Ho. vm_compute in Ho. destruct Ho as [Ho|[]]. subst o. vm_compute. tauto.
  - eexists. eexists. split; [exists 10%nat; vm_compute; reflexivity|].
    split; [eapply (exec_c_runs_c [] false (gstore 7) 10%nat); vm_compute; reflexivity|].
    split; reflexivity.
Qed.

(** (c) a variable written in the region and read only after it IS passed back (intent out) — the
    class is not empty and contains the expected good case; also a non-trivial instance of the
    hypotheses of [outline_preserves] *)
Definition w_good : list item :=
  [IStmt (SAssign "t1" (ESum false [EVar "x"; EInt 1]));
   IRegion {| r_name := None; r_in := []; r_inout := []; r_out := [];
              r_body := [SAssign "y" (ESum false [EVar "t1"; EVar "z"]);
                         SDo "i" (EInt 1) (EInt 3) None [SStore "a" [EVar "i"] (ESum false [ECall "a" [EVar "i"]; EVar "y"])];
                         SAssign "w" (EVar "y")] |};
   IStmt (SAssign "x" (ESum false [EVar "y"; EVar "w"]))]%string.

Example outline_good_in_class :
  exists cs, outline w_host [] w_good = Some cs /\ flow [] true cs [] = Some [("i", false)]%string /\
             map o_args (new_routines cs) =
               [[("a", true, IInOut); ("t1", false, IIn); ("w", false, IOut); ("y", false, IOut); ("z", false, IIn)]]%string.
Proof. eexists. split; [vm_compute; reflexivity|]. split; vm_compute; reflexivity. Qed.
