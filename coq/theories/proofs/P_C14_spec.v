(** C14 — [Transformer] (class TPlain) computes the declarative substitution [spec] on the class [spec_class]. *)
From Coq Require Import ZArith List Bool Lia Arith.
From LV Require Import models.M_C14 proofs.P_C14 proofs.P_C14_inject.
Import ListNotations.
Open Scope Z_scope.

(** * sequence *)
Lemma sequence_app {A} (a b : list (option A)) :
  sequence (a ++ b) = match sequence a, sequence b with Some x, Some y => Some (x ++ y) | _, _ => None end.
Proof.
  induction a as [|[x|] a IH]; cbn.
  - destruct (sequence b); reflexivity.
  - rewrite IH. destruct (sequence a), (sequence b); reflexivity.
  - reflexivity.
Qed.

Lemma sequence_map_ext {A B} (f g : A -> option B) l :
  (forall x, In x l -> f x = g x) -> sequence (map f l) = sequence (map g l).
Proof.
  induction l as [|x l IH]; intros H; cbn; [reflexivity|].
  rewrite (H x (or_introl eq_refl)), IH; [reflexivity|]. intros y Hy. apply H. now right.
Qed.

Lemma sequence_flat_map {A B C} (g : B -> option A) (s : C -> list B) l :
  sequence (map g (flat_map s l)) =
  match sequence (map (fun x => sequence (map g (s x))) l) with Some parts => Some (concat parts) | None => None end.
Proof.
  induction l as [|x l IH]; cbn; [reflexivity|].
  rewrite map_app, sequence_app, IH.
  destruct (sequence (map g (s x))); [|reflexivity].
  destruct (sequence (map (fun x0 => sequence (map g (s x0))) l)); reflexivity.
Qed.

(** * heights and fuel *)
Lemma fold_max_ge {A} (f : A -> nat) l x : In x l -> (f x <= fold_right (fun y m => Nat.max (f y) m) O l)%nat.
Proof. induction l as [|y l IH]; intros []; cbn; [subst; lia|]. specialize (IH H). lia. Qed.

Lemma height_pos o : (1 <= height o)%nat.
Proof. destruct o; cbn; lia. Qed.

Lemma height_Tup_child l x : In x l -> (height x < height (Tup l))%nat.
Proof. intros H. cbn [height]. pose proof (fold_max_ge height l x H). lia. Qed.

Lemma height_Nd_child i k s p ch x : In x ch -> (height x < height (Nd i k s p ch))%nat.
Proof. intros H. cbn [height]. pose proof (fold_max_ge height ch x H). lia. Qed.

Lemma hmax_ge M k hs h : In (k, HTup hs) M -> In h hs -> (height h <= hmax M)%nat.
Proof.
  intros HM Hh. unfold hmax.
  pose proof (fold_max_ge (fun e => fold_right (fun h m' => Nat.max (height h) m') O (handle_as_tuple (snd e))) M _ HM) as H1.
  cbn [snd handle_as_tuple] in H1. pose proof (fold_max_ge height hs h Hh). lia.
Qed.

Definition need (M : mapper) (o : item) : nat := (height o + (if keyfree M o then 0 else hmax M))%nat.

Lemma keyfree_Tup_child M l x : keyfree M (Tup l) = true -> In x l -> keyfree M x = true.
Proof. cbn [keyfree]. intros H Hx. rewrite forallb_forall in H. auto. Qed.

Lemma keyfree_Nd_inv M i k s p ch : keyfree M (Nd i k s p ch) = true ->
  mfind M (Nd i k s p ch) = None /\ forall x, In x ch -> keyfree M x = true.
Proof.
  cbn [keyfree]. destruct (mfind M _); [discriminate|]. intros H. split; [reflexivity|].
  rewrite forallb_forall in H. auto.
Qed.

Lemma need_Tup_child M l x : In x l -> (need M x < need M (Tup l))%nat.
Proof.
  intros Hx. unfold need. pose proof (height_Tup_child l x Hx).
  destruct (keyfree M (Tup l)) eqn:E.
  - rewrite (keyfree_Tup_child _ _ _ E Hx). lia.
  - destruct (keyfree M x); lia.
Qed.

Lemma need_Nd_child M i k s p ch x : In x ch -> (need M x < need M (Nd i k s p ch))%nat.
Proof.
  intros Hx. unfold need. pose proof (height_Nd_child i k s p ch x Hx).
  destruct (keyfree M (Nd i k s p ch)) eqn:E.
  - apply keyfree_Nd_inv in E as [_ E]. rewrite (E x Hx). lia.
  - destruct (keyfree M x); lia.
Qed.

(** * keys *)
Lemma mfind_non_nd M x : keys_ok M = true -> is_nd x = false -> mfind M x = None.
Proof.
  induction M as [|[k h] M IH]; intros HK Hx; [reflexivity|].
  apply keys_ok_cons in HK as (Hk & _ & HK). cbn.
  assert (ieqb k x = false) by (destruct k; try discriminate; destruct x; try reflexivity; discriminate).
  rewrite H. auto.
Qed.

Lemma keyfree_mfind M h : keys_ok M = true -> keyfree M h = true -> mfind M h = None.
Proof.
  intros HK H. destruct h; try (apply mfind_non_nd; [exact HK|reflexivity]).
  now apply keyfree_Nd_inv in H.
Qed.

Lemma keyfree_exact M : forall h, keyfree M h = true -> exact_keys M h = true.
Proof.
  induction h using item_ind'; intros Hk; try reflexivity.
  - cbn [exact_keys]. apply forallb_forall. intros x Hx. rewrite Forall_forall in H.
    apply H; [exact Hx|]. eapply keyfree_Tup_child; eauto.
  - apply keyfree_Nd_inv in Hk as [Hm Hc]. cbn [exact_keys]. rewrite Hm. cbn.
    apply forallb_forall. intros x Hx. rewrite Forall_forall in H. auto.
Qed.

Lemma keyfree_not_key M h x e : keys_ok M = true -> keyfree M h = true -> mfind M x = Some e -> ieqb h x = false.
Proof.
  intros HK Hh Hx. destruct (ieqb h x) eqn:E; [|reflexivity]. exfalso.
  destruct e as [k hd]. apply mfind_some in Hx as [Hk Hin].
  pose proof (keyfree_mfind _ _ HK Hh) as Hn.
  pose proof (mfind_none _ _ Hn _ _ Hin) as Hf.
  assert (ieqb k h = true) by (eapply ieqb_trans; [exact Hk|now rewrite ieqb_sym]).
  congruence.
Qed.

(** * unfolding the specification *)
Lemma spec_gen_Tup c lk rf l :
  spec_gen c lk rf (Tup l) =
  match sequence (map (fun x =>
           match lk x with
           | Some (_, HTup hs) => sequence (map (fun h => if ieqb h x then spec_gen c lk rf x else rf h) hs)
           | _ => match spec_gen c lk rf x with Some y => Some [y] | None => None end
           end) l) with
  | Some parts => Some (Tup (strip (concat parts)))
  | None => None
  end.
Proof. reflexivity. Qed.

Lemma spec_gen_Nd c lk rf i k s p ch :
  spec_gen c lk rf (Nd i k s p ch) =
  let through := match sequence (map (spec_gen c lk rf) ch) with
                 | Some chs => spec_node c (Nd i k s p ch) chs
                 | None => None
                 end in
  match lk (Nd i k s p ch) with
  | Some (_, HNone) => Some NoneI
  | Some (_, HNode h) => match h with Nd _ hk hs hp hc => mk_node hk hs hp hc | _ => None end
  | Some (_, HTup hs) => if mem (Nd i k s p ch) hs then through else None
  | None => through
  end.
Proof. reflexivity. Qed.

Lemma spec_keyfree c : keys_ok (c_map c) = true ->
  forall h, keyfree (c_map c) h = true -> spec c h = refresh c h.
Proof.
  intros HK. unfold spec, refresh. induction h using item_ind'; intros Hk; try reflexivity.
  - rewrite !spec_gen_Tup. rewrite Forall_forall in H.
    erewrite sequence_map_ext; [reflexivity|]. intros x Hx. cbv beta.
    pose proof (keyfree_Tup_child _ _ _ Hk Hx) as Hkx.
    rewrite (keyfree_mfind _ _ HK Hkx). now rewrite (H x Hx Hkx).
  - rewrite !spec_gen_Nd. cbv zeta. apply keyfree_Nd_inv in Hk as [Hm Hc]. rewrite Hm.
    rewrite Forall_forall in H. erewrite sequence_map_ext; [reflexivity|]. intros x Hx. auto.
Qed.

(** * model = specification *)
Definition agrees (r : res) (v : option item) (ms : mstate) : Prop :=
  match r with Ok it _ ms' _ _ => v = Some it /\ ms' = ms | Err _ => v = None end.

Lemma visit_list_agrees f (g : item -> option item) l :
  forall ms, (forall x, In x l -> forall ms, agrees (f x ms) (g x) ms) ->
  match visit_list f l ms with
  | OkL vs ms' _ _ => sequence (map g l) = Some vs /\ ms' = ms
  | ErrL _ => sequence (map g l) = None
  end.
Proof.
  induction l as [|x l IH]; intros ms H; cbn; [auto|].
  pose proof (H x (or_introl eq_refl) ms) as Hx. unfold agrees in Hx.
  destruct (f x ms) as [y sm ms1 lg1 rb1|e].
  - destruct Hx as [-> ->]. specialize (IH ms (fun y Hy => H y (or_intror Hy))).
    destruct (visit_list f l ms) as [ys ms2 lg2 rb2|e].
    + destruct IH as [-> ->]. auto.
    + now rewrite IH.
  - now rewrite Hx.
Qed.

Lemma mk_node_inv k s p ch n : mk_node k s p ch = Some n ->
  exists ch', norm_children (kind_slots k) ch = Some ch' /\ post_init_ok k p ch' = true /\ n = Nd 0 k s p ch'.
Proof.
  unfold mk_node. destruct (norm_children _ ch) as [ch'|]; [|discriminate].
  destruct (post_init_ok _ _ _) eqn:E; [|discriminate]. intros H. inversion H. eauto.
Qed.

Lemma visit_plain_S n c pa o ms : c_cls c = TPlain ->
  visit (S n) c pa o ms =
  match o with
  | Obj _ | NoneI => Ok o true ms [] []
  | Tup l => match visit_list (visit n c pa) (inject (c_map c) l) ms with
             | ErrL e => Err e
             | OkL vs ms1 lg rb => Ok (Tup (strip vs)) false ms1 lg rb
             end
  | Nd _ _ _ _ _ =>
      match h_plain_node c (visit n c) pa o ms with
      | Ok it same ms1 lg rb => Ok it same ms1 lg (if same then rb else rb ++ [(o, it)])
      | Err e => Err e
      end
  end.
Proof.
  intros H. cbn [visit]. unfold visit_body, is_masked, h_tuple. rewrite H. destruct o; reflexivity.
Qed.

Section Spec.
  Variable c : cfg.
  Hypothesis Hc : c_cls c = TPlain.
  Let M := c_map c.
  Hypothesis HK : keys_ok M = true.
  Hypothesis HH : handles_ok M = true.
  Hypothesis HN : forall e, In e M -> forallb normalized (handle_as_tuple (snd e)) = true.

  Lemma class_inj_ok x : exact_keys M x = true -> inj_ok M x.
  Proof.
    intros Hx k hs F h Hh. pose proof (mfind_some _ _ _ _ F) as [Hk Hin].
    unfold handles_ok in HH. rewrite forallb_forall in HH. specialize (HH _ Hin). cbn [snd fst] in HH.
    rewrite forallb_forall in HH. specialize (HH _ Hh).
    assert (k = x).
    { destruct x; try (rewrite (mfind_non_nd M _ HK) in F; [discriminate|reflexivity]).
      cbn [exact_keys] in Hx. fold M in Hx. rewrite F in Hx. apply andb_true_iff in Hx as [Hx _]. now apply ideqb_eq. }
    subst k. apply orb_true_iff in HH as [E|E].
    - left. now apply ideqb_eq.
    - right. now apply keyfree_mfind.
  Qed.

  Lemma exact_Tup_child l x : exact_keys M (Tup l) = true -> In x l -> exact_keys M x = true.
  Proof. cbn [exact_keys]. intros H Hx. rewrite forallb_forall in H. auto. Qed.
  Lemma normalized_Tup_child l x : normalized (Tup l) = true -> In x l -> normalized x = true.
  Proof. cbn [normalized]. intros H Hx. rewrite forallb_forall in H. auto. Qed.
  Lemma exact_Nd_child i k s p ch x : exact_keys M (Nd i k s p ch) = true -> In x ch -> exact_keys M x = true.
  Proof. cbn [exact_keys]. intros H Hx. apply andb_true_iff in H as [_ H]. rewrite forallb_forall in H. auto. Qed.
  Lemma normalized_Nd_child i k s p ch x : normalized (Nd i k s p ch) = true -> In x ch -> normalized x = true.
  Proof. cbn [normalized]. intros H Hx. apply andb_true_iff in H as [_ H]. rewrite forallb_forall in H. auto. Qed.

  Lemma agrees_wrap r v ms (o : item) :
    agrees r v ms ->
    agrees (match r with
            | Ok it same ms1 lg rb => Ok it same ms1 lg (if same then rb else rb ++ [(o, it)])
            | Err e => Err e
            end) v ms.
  Proof. destruct r; auto. Qed.

  Lemma plain_spec : forall n o pa ms,
    exact_keys M o = true -> normalized o = true -> (need M o <= n)%nat ->
    agrees (visit n c pa o ms) (spec c o) ms.
  Proof.
    induction n as [|n IH]; intros o pa ms He Hn Hf.
    { exfalso. unfold need in Hf. pose proof (height_pos o). lia. }
    rewrite (visit_plain_S n c pa o ms Hc). destruct o as [v| |l|i k s p ch].
    - cbn. auto.
    - cbn. auto.
    - (* tuples: splice, visit, strip *)
      fold M. rewrite (inject_spec M l HK) by (intros x Hx; apply class_inj_ok; eapply exact_Tup_child; eauto).
      assert (Hel : forall y, In y (flat_map (splice M) l) -> forall ms, agrees (visit n c pa y ms) (spec c y) ms).
      { intros y Hy ms0. apply in_flat_map in Hy as (x & Hx & Hy).
        pose proof (need_Tup_child M l x Hx) as Hnx.
        unfold splice in Hy. destruct (mfind M x) as [[k [|h|hs]]|] eqn:F;
          try (destruct Hy as [<-|[]]; apply IH; [eapply exact_Tup_child; eauto|eapply normalized_Tup_child; eauto|lia]).
        destruct (class_inj_ok x (exact_Tup_child _ _ He Hx) _ _ F y Hy) as [->|Hkf0].
        - apply IH; [eapply exact_Tup_child; eauto|eapply normalized_Tup_child; eauto|lia].
        - pose proof (mfind_some _ _ _ _ F) as [_ Hin].
          assert (Hkf : keyfree M y = true).
          { unfold handles_ok in HH. rewrite forallb_forall in HH. specialize (HH _ Hin). cbn [snd fst] in HH.
            rewrite forallb_forall in HH. specialize (HH _ Hy). apply orb_true_iff in HH as [E|E]; [|exact E].
            apply ideqb_eq in E. subst y. pose proof (mfind_some _ _ _ _ F) as [Hk _].
            pose proof (mfind_none _ _ Hkf0 _ _ Hin) as Hf2. rewrite ieqb_refl in Hf2. discriminate. }
          apply IH.
          + now apply keyfree_exact.
          + specialize (HN _ Hin). cbn [snd handle_as_tuple] in HN. rewrite forallb_forall in HN. auto.
          + unfold need. rewrite Hkf. pose proof (hmax_ge _ _ _ _ Hin Hy).
            assert (keyfree M (Tup l) = false).
            { destruct (keyfree M (Tup l)) eqn:E; [|reflexivity].
              pose proof (keyfree_Tup_child _ _ _ E Hx) as E2. rewrite (keyfree_mfind _ _ HK E2) in F. discriminate. }
            unfold need in Hf. rewrite H0 in Hf. pose proof (height_pos (Tup l)). lia. }
      pose proof (visit_list_agrees (visit n c pa) (spec c) (flat_map (splice M) l) ms Hel) as HV.
      assert (Hs : spec c (Tup l) =
                   match sequence (map (spec c) (flat_map (splice M) l)) with
                   | Some vs => Some (Tup (strip vs)) | None => None end).
      { unfold spec at 1. rewrite spec_gen_Tup. fold (spec c). rewrite sequence_flat_map.
        match goal with |- match sequence (map ?F l) with _ => _ end = _ =>
          assert (EF : sequence (map F l) = sequence (map (fun x => sequence (map (spec c) (splice M x))) l)) end;
          [|rewrite EF; destruct (sequence (map (fun x => sequence (map (spec c) (splice M x))) l)); reflexivity].
        apply sequence_map_ext. intros x Hx. cbv beta. fold M. unfold splice.
        destruct (mfind M x) as [[k [|h|hs]]|] eqn:F; try (cbn; destruct (spec c x); reflexivity).
        apply sequence_map_ext. intros h Hh.
        destruct (class_inj_ok x (exact_Tup_child _ _ He Hx) _ _ F h Hh) as [->|Hkf0].
        - now rewrite ieqb_refl.
        - pose proof (mfind_some _ _ _ _ F) as [_ Hin].
          assert (Hkf : keyfree M h = true).
          { unfold handles_ok in HH. rewrite forallb_forall in HH. specialize (HH _ Hin). cbn [snd fst] in HH.
            rewrite forallb_forall in HH. specialize (HH _ Hh). apply orb_true_iff in HH as [E|E]; [|exact E].
            apply ideqb_eq in E. subst h.
            pose proof (mfind_none _ _ Hkf0 _ _ Hin) as Hf2. rewrite ieqb_refl in Hf2. discriminate. }
          rewrite (keyfree_not_key M h x _ HK Hkf F). symmetry. now apply spec_keyfree. }
      rewrite Hs. destruct (visit_list _ _ ms) as [vs ms' lg rb|e].
      + destruct HV as [-> ->]. cbn. auto.
      + rewrite HV. cbn. reflexivity.
    - (* nodes *)
      apply agrees_wrap.
      assert (Hch : forall x, In x ch -> forall ms, agrees (visit n c pa x ms) (spec c x) ms).
      { intros x Hx ms0. pose proof (need_Nd_child M i k s p ch x Hx).
        apply IH; [eapply exact_Nd_child; eauto|eapply normalized_Nd_child; eauto|lia]. }
      set (through := match sequence (map (spec c) ch) with Some chs => spec_node c (Nd i k s p ch) chs | None => None end).
      assert (T : agrees (if kind_scoped (kind_of (Nd i k s p ch)) then h_scoped_tail c (visit n c) false pa (Nd i k s p ch) ms
                          else h_generic c (visit n c) pa (Nd i k s p ch) ms) through ms).
      { subst through. cbn [kind_of]. destruct (kind_scoped k) eqn:Hsc.
        - unfold h_scoped_tail. cbn [andb children_of].
          destruct (c_rebuild_scopes c) eqn:Hrs.
          + unfold do_rebuild. rewrite (zip_children_same ch ch eq_refl).
            destruct (c_inplace c) eqn:Hin.
            * cbn [children_of]. pose proof (visit_list_agrees _ _ ch ms Hch) as HV.
              destruct (visit_list _ ch ms) as [vs ms' lg rb|e] eqn:EV.
              -- destruct HV as [-> ->]. cbn [set_children agrees]. split; [|reflexivity].
                 unfold spec_node, src_after. cbn [kind_of src_of children_of]. rewrite Hsc, Hrs, Hin. cbn [andb negb].
                 rewrite zip_children_same by (eapply visit_list_length; eauto).
                 reflexivity.
              -- rewrite HV. reflexivity.
            * destruct (mk_node k (inv_src c s ch) p ch) as [o1|] eqn:Emk.
              -- apply mk_node_inv in Emk as (ch' & En & Ep & ->).
                 assert (ch' = ch).
                 { cbn [normalized] in Hn. rewrite Hsc, En in Hn. apply andb_true_iff in Hn as [Hn _].
                   now apply list_ideqb_eq. }
                 subst ch'. cbn [children_of].
                 pose proof (visit_list_agrees _ _ ch ms Hch) as HV.
                 destruct (visit_list _ ch ms) as [vs ms' lg rb|e] eqn:EV.
                 ++ destruct HV as [-> ->]. cbn [set_children agrees]. split; [|reflexivity].
                    unfold spec_node, src_after. cbn [kind_of src_of children_of]. rewrite Hsc, Hrs, Hin. cbn [andb negb].
                    unfold mk_node. rewrite En, Ep.
                    rewrite zip_children_same by (eapply visit_list_length; eauto).
                    reflexivity.
                 ++ rewrite HV. reflexivity.
              -- cbn [agrees]. destruct (sequence (map (spec c) ch)); [|reflexivity].
                 unfold spec_node, src_after. cbn [kind_of src_of children_of]. rewrite Hsc, Hrs, Hin. cbn [andb negb].
                 now rewrite Emk.
          + cbn [children_of]. pose proof (visit_list_agrees _ _ ch ms Hch) as HV.
            destruct (visit_list _ ch ms) as [vs ms' lg rb|e] eqn:EV.
            * destruct HV as [-> ->]. cbn [set_children agrees]. split; [|reflexivity].
              unfold spec_node, src_after. cbn [kind_of src_of children_of]. rewrite Hsc, Hrs. cbn [andb].
              rewrite zip_children_same by (eapply visit_list_length; eauto). reflexivity.
            * rewrite HV. reflexivity.
        - unfold h_generic. cbn [children_of]. pose proof (visit_list_agrees _ _ ch ms Hch) as HV.
          destruct (visit_list _ ch ms) as [vs ms' lg rb|e] eqn:EV.
          + destruct HV as [-> ->]. unfold do_rebuild.
            rewrite zip_children_same by (eapply visit_list_length; eauto).
            unfold spec_node, src_after. cbn [kind_of src_of children_of]. rewrite Hsc.
            destruct (c_inplace c).
            * cbn. auto.
            * destruct (mk_node k (inv_src c s vs) p vs); cbn; auto.
          + rewrite HV. reflexivity. }
      unfold spec. rewrite spec_gen_Nd. fold (spec c). cbv zeta. fold through. fold M.
      unfold h_plain_node. fold M.
      destruct (mfind M (Nd i k s p ch)) as [[k0 [|h|hs]]|].
      + cbn. auto.
      + unfold copy_handle. destruct h; try reflexivity. destruct (mk_node _ _ _ _); cbn; auto.
      + destruct (mem (Nd i k s p ch) hs); [exact T|reflexivity].
      + exact T.
  Qed.
End Spec.

Lemma spec_class_inv M t : spec_class M t = true ->
  keys_ok M = true /\ handles_ok M = true /\ exact_keys M t = true /\ normalized t = true /\
  (forall e, In e M -> forallb normalized (handle_as_tuple (snd e)) = true).
Proof.
  unfold spec_class. intros H.
  apply andb_true_iff in H as [H H5]. apply andb_true_iff in H as [H H4].
  apply andb_true_iff in H as [H H3]. apply andb_true_iff in H as [H1 H2].
  repeat split; auto. rewrite forallb_forall in H5. exact H5.
Qed.

Theorem transform_spec : forall c t n pa ms,
  c_cls c = TPlain -> spec_class (c_map c) t = true -> (height t + hmax (c_map c) <= n)%nat ->
  res_item (visit n c pa t ms) = spec c t.
Proof.
  intros c t n pa ms Hc Hcl Hn. apply spec_class_inv in Hcl as (HK & HH & He & Hnm & HN).
  pose proof (plain_spec c Hc HK HH HN n t pa ms He Hnm) as H.
  assert (need (c_map c) t <= n)%nat by (unfold need; destruct (keyfree _ _); lia).
  specialize (H H0). unfold agrees in H. destruct (visit n c pa t ms); cbn.
  - now destruct H as [-> _].
  - now rewrite H.
Qed.
