(** C25 — the invariant of the scheduler state over processing histories (model M_C25). *)
From Coq Require Import List Bool String Ascii Arith.
From LV Require Import models.M_C25 proofs.P_C25_graph proofs.P_C25_keys.
Import ListNotations.
Open Scope string_scope.
Open Scope list_scope.

(** the structural invariant:
    - every cache key is the name of the item stored under it, keys are pairwise distinct;
    - the seed is a node; every dependency (call, import, interface, planned addition) of a node is a node;
    - every edge joins two nodes and is a dependency of its source;
    - every node is reachable from the seed. *)
Definition inv (seed : list nref) (st : state) : Prop :=
  (forall e, In e (st_cache st) -> e_key e = e_name e) /\
  NoDup (map e_key (st_cache st)) /\
  incl seed (st_nodes st) /\
  (forall x d, In x (st_nodes st) -> In d (deps_of st x) -> In d (st_nodes st)) /\
  (forall x y, In (x, y) (st_edges st) -> In x (st_nodes st) /\ In y (st_nodes st) /\ In y (deps_of st x)) /\
  (forall x, In x (st_nodes st) -> exists s, In s seed /\ reach st s x).

Lemma mem_s_In x l : mem_s x l = true <-> In x l.
Proof.
  induction l as [|y r IH]; cbn; [split; [discriminate|contradiction]|].
  rewrite orb_true_iff, String.eqb_eq, IH. tauto.
Qed.

Lemma nodup_s_NoDup l : nodup_s l = true <-> NoDup l.
Proof.
  induction l as [|x r IH]; cbn; [split; [constructor|reflexivity]|].
  rewrite andb_true_iff, negb_true_iff, IH. split.
  - intros [M N]. constructor; [|exact N]. intros I. apply mem_s_In in I. congruence.
  - intros N. inversion N as [|? ? Hx Hr]; subst. split; [|exact Hr].
    destruct (mem_s x r) eqn:E; [|reflexivity]. apply mem_s_In in E. contradiction.
Qed.

Lemma kok_props c : kok c -> (forall e, In e c -> e_key e = e_name e) /\ NoDup (map e_key c).
Proof.
  intros [K N]. split; [|now apply nodup_s_NoDup].
  intros e He. rewrite forallb_forall in K. specialize (K e He). now apply String.eqb_eq in K.
Qed.

Lemma inv_of seed st st0 :
  rebuild seed st0 = Some st -> kok (st_cache st) -> inv seed st.
Proof.
  intros R K. destruct (kok_props _ K) as [K1 K2]. destruct (rebuild_spec _ _ _ R) as (A & B & Cc & D).
  repeat split; auto; apply (Cc x y); assumption.
Qed.

Theorem init_inv disk seed st : init disk seed = Some st -> inv seed st.
Proof. intros H. eapply inv_of; [exact H|]. eapply init_kok; eauto. Qed.

Theorem step_inv disk seed st o st' :
  kok (st_cache st) -> step disk seed st o = Some st' -> inv (next_seeds o st seed) st' /\ kok (st_cache st').
Proof.
  intros K H. pose proof (step_kok _ _ _ _ _ H K) as K'. split; [|exact K'].
  unfold step in H. destruct (transform o st); [|discriminate]. eapply inv_of; eauto.
Qed.

(** the seed list a state of a history was rebuilt from, paired with the state *)
Fixpoint run_seeds (disk : list source) (seed : list nref) (st : state) (ops : list op) : list (list nref) :=
  match ops with
  | [] => []
  | o :: r => match step disk seed st o with
              | Some st' => next_seeds o st seed :: run_seeds disk (next_seeds o st seed) st' r
              | None => []
              end
  end.

(** every state of every history, each with the seed list as renamed so far *)
Theorem history_inv disk : forall ops seed st0 sts,
  kok (st_cache st0) -> run disk seed st0 ops = Some sts ->
  Forall2 inv (run_seeds disk seed st0 ops) sts.
Proof.
  induction ops as [|o r IH]; intros seed st0 sts K H; cbn [run run_seeds] in *.
  - inversion H; constructor.
  - destruct (step disk seed st0 o) as [st1|] eqn:S; [|discriminate].
    destruct (run disk (next_seeds o st0 seed) st1 r) as [l|] eqn:R; [|discriminate]. inversion H; subst.
    destruct (step_inv _ _ _ _ _ K S) as [I1 K1]. constructor; [exact I1|]. eapply IH; eauto.
Qed.

Corollary history_inv_from_init disk seed ops st0 sts :
  init disk seed = Some st0 -> run disk seed st0 ops = Some sts ->
  Forall2 inv (seed :: run_seeds disk seed st0 ops) (st0 :: sts).
Proof.
  intros H0 H. constructor; [now apply (init_inv disk)|].
  eapply history_inv; [|exact H]. eapply init_kok; eauto.
Qed.

(** the operations as a fold over (seed list, state) *)
Definition step_opt disk (acc : option (list nref * state)) (o : op) : option (list nref * state) :=
  match acc with
  | Some (seed, s) => match step disk seed s o with Some s' => Some (next_seeds o s seed, s') | None => None end
  | None => None
  end.

Lemma fold_none disk ops : fold_left (step_opt disk) ops None = None.
Proof. induction ops; cbn; auto. Qed.

Theorem fold_history_inv disk seed ops st0 seed' st :
  init disk seed = Some st0 -> fold_left (step_opt disk) ops (Some (seed, st0)) = Some (seed', st) -> inv seed' st.
Proof.
  intros H0. assert (K : kok (st_cache st0)) by (eapply init_kok; eauto).
  assert (I : inv seed st0) by (now apply (init_inv disk)).
  clear H0. revert seed st0 K I. induction ops as [|o r IH]; intros seed st0 K I H; cbn [fold_left] in H.
  - inversion H; now subst.
  - cbn [step_opt] in H. destruct (step disk seed st0 o) as [st1|] eqn:S.
    + destruct (step_inv _ _ _ _ _ K S) as [I1 K1]. eapply IH; eauto.
    + rewrite fold_none in H. discriminate.
Qed.

(** * a later processing visits exactly the surviving procedure nodes *)
Lemma in_proc_nodes st s r : In (s, r) (proc_nodes st) <-> In (NProc s r) (st_nodes st).
Proof.
  unfold proc_nodes. rewrite in_flat_map. split.
  - intros (n & Hn & H). destruct n; cbn in H; try contradiction. destruct H as [E|[]]. inversion E; subst. exact Hn.
  - intros H. exists (NProc s r). split; [exact H|now left].
Qed.

Theorem later_processing_visits_survivors seed st :
  inv seed st ->
  forall x, In x (visits st) <->
            exists s r, x = (s ++ "#" ++ r)%string /\ In (NProc s r) (st_nodes st) /\
                        exists s0, In s0 seed /\ reach st s0 (NProc s r).
Proof.
  intros (_ & _ & _ & _ & _ & R) x. unfold visits. rewrite in_map_iff. split.
  - intros ([s r] & <- & H). apply in_proc_nodes in H. exists s, r. cbn. auto.
  - intros (s & r & -> & H & _). exists (s, r). split; [reflexivity|now apply in_proc_nodes].
Qed.

(** * examples and class boundary *)
Definition rt (n : string) (calls : list string) (imps : list (string * list string)) (intfs : list string) := mk_routine n calls imps intfs.

(** driver -> ka (m_mod), kf (free, interface block); kf -> kb (m_mod); ka, kb -> kl (l_mod); kc is unreferenced; d_mod is a data module *)
Definition ex_disk : list source :=
  [ mk_source "/driver.f90" [TFree (rt "driver" ["ka"; "kf"] [("m_mod", ["ka"]); ("d_mod", ["gv"])] ["kf"])];
    mk_source "/kf.f90" [TFree (rt "kf" ["kb"] [("m_mod", ["kb"])] [])];
    mk_source "/mfile.f90" [TMod "m_mod" [rt "ka" ["kl"] [("l_mod", ["kl"])] []; rt "kb" ["kl"] [("l_mod", ["kl"]); ("d_mod", ["gv"])] []; rt "kc" [] [] []]];
    mk_source "/sub/l_mod.f90" [TMod "l_mod" [rt "kl" [] [] []]];
    mk_source "/d_mod.f90" [TMod "d_mod" []] ].
Definition ex_seed := [NProc "" "driver"].
Definition ex_ops := [ODup "ka" "_dup" "_dup" true; OWrap "_mod"; ODep "_test" "_mod"; ORem "zz"].

Definition names_of (st : state) : list string := map nname (st_nodes st).

(** a non-trivial history inside the class: every state is consistent, and these are the surviving nodes *)
Example example_history :
  exists st0 sts st,
    init ex_disk ex_seed = Some st0 /\ run ex_disk ex_seed st0 ex_ops = Some sts /\
    forallb consistent_b (st0 :: sts) = true /\
    last sts st0 = st /\
    names_of st = ["#driver"; "d_mod"; "m_test_mod#ka_test"; "m_mod_dup_test_mod#ka_dup_test"; "kf_test_mod#kf_test";
                   "l_test_mod#kl_test"; "l_mod_dup_test_mod#kl_dup_test"; "m_test_mod#kb_test"] /\
    visits st = ["#driver"; "m_test_mod#ka_test"; "m_mod_dup_test_mod#ka_dup_test"; "kf_test_mod#kf_test";
                 "l_test_mod#kl_test"; "l_mod_dup_test_mod#kl_dup_test"; "m_test_mod#kb_test"].
Proof.
  eexists. eexists. eexists. split; [vm_compute; reflexivity|]. split; [vm_compute; reflexivity|].
  split; [vm_compute; reflexivity|]. split; [reflexivity|]. split; vm_compute; reflexivity.
Qed.

(** several seeds, two of them kernels: the seed list is renamed element by element and the renamed entry points are
    graph nodes *)
Definition ex_seeds2 := [NProc "" "driver"; NProc "m_mod" "kc"; NProc "" "kf"].
Example multi_seed_history :
  exists st0 sts,
    init ex_disk ex_seeds2 = Some st0 /\ run ex_disk ex_seeds2 st0 [OWrap "_mod"; ODep "_test" "_mod"] = Some sts /\
    forallb consistent_b (st0 :: sts) = true /\
    seeds_after ex_disk ex_seeds2 st0 [OWrap "_mod"; ODep "_test" "_mod"] =
      [NProc "" "driver"; NProc "m_test_mod" "kc_test"; NProc "kf_test_mod" "kf_test"] /\
    forallb (fun n => mem_n n (st_nodes (last sts st0)))
            [NProc "" "driver"; NProc "m_test_mod" "kc_test"; NProc "kf_test_mod" "kf_test"] = true.
Proof.
  eexists. eexists. split; [vm_compute; reflexivity|]. split; [vm_compute; reflexivity|].
  split; [vm_compute; reflexivity|]. split; vm_compute; reflexivity.
Qed.

(** between the transformation and rekey_item_cache the keys are stale: the re-keying is needed *)
Example rekey_needed :
  exists st0, init ex_disk ex_seed = Some st0 /\
              keys_are_names (apply_dep "_test" "_mod" st0) = false /\
              keys_are_names (rekey (apply_dep "_test" "_mod" st0)) = true.
Proof. eexists. split; [vm_compute; reflexivity|]. split; vm_compute; reflexivity. Qed.

(** RemoveKernel deletes the call but leaves the USE statement: once the module leaves the graph the processed
    source imports from a module that is not part of the output (finding F-C25-1) *)
Definition ex_disk2 : list source :=
  [ mk_source "/driver.f90" [TFree (rt "driver" ["ka"] [("ka_mod", ["ka"])] [])];
    mk_source "/ka_mod.f90" [TMod "ka_mod" [rt "ka" [] [] []]] ].
Example remove_leaves_import_refuted :
  exists st0 st1,
    init ex_disk2 ex_seed = Some st0 /\ consistent_b st0 = true /\
    step ex_disk2 ex_seed st0 (ORem "ka") = Some st1 /\
    inv_b st1 = true /\ imports_written st1 = false.
Proof.
  eexists. eexists. split; [vm_compute; reflexivity|]. split; [vm_compute; reflexivity|].
  split; [vm_compute; reflexivity|]. split; vm_compute; reflexivity.
Qed.

(** outside the modelled class the step is undefined: the same suffix twice (the implementation then renames the
    callers' calls but not the routines, finding F-C25-2), a module wrap with a caller that has no interface block *)
Example same_suffix_twice_outside_class :
  exists st0 st1,
    init ex_disk ex_seed = Some st0 /\ step ex_disk ex_seed st0 (ODep "_test" "_mod") = Some st1 /\
    step ex_disk ex_seed st1 (ODep "_test" "_mod") = None.
Proof. eexists. eexists. split; [vm_compute; reflexivity|]. split; vm_compute; reflexivity. Qed.

Definition ex_disk3 : list source :=
  [ mk_source "/driver.f90" [TFree (rt "driver" ["kf"] [] [])];
    mk_source "/kf.f90" [TFree (rt "kf" [] [] [])] ].
Example wrap_without_interface_outside_class :
  exists st0, init ex_disk3 ex_seed = Some st0 /\ step ex_disk3 ex_seed st0 (OWrap "_mod") = None.
Proof. eexists. split; vm_compute; reflexivity. Qed.
