From Coq Require Import ZArith List Bool Lia ZifyBool.
From LV Require Import models.M_C10.
Import ListNotations.
Open Scope Z_scope.
Ltac Zify.zify_post_hook ::= Z.to_euclidean_division_equations.

Lemma quot_flip x s : s <> 0 -> Z.quot x s = Z.quot (- x) (- s).
Proof. intros Hs. now rewrite Z.quot_opp_opp by exact Hs. Qed.

Lemma iota_steps_length n a s : length (iota_steps n a s) = n.
Proof. revert a; induction n as [|n IH]; intros a; cbn; [reflexivity|now rewrite IH]. Qed.

Lemma iota_steps_nth n a s k : (k < n)%nat -> nth k (iota_steps n a s) 0 = a + Z.of_nat k * s.
Proof.
  revert a k; induction n as [|n IH]; intros a k Hk; [lia|].
  destruct k as [|k]; cbn [iota_steps nth]; [lia|].
  rewrite IH by lia. lia.
Qed.

(** the two length formulas agree *)
Lemma len_pos a b s : 0 < s -> py_range_len a (b + 1) s = trip_count a b s.
Proof.
  intros Hs. unfold py_range_len, trip_count.
  destruct (0 <? s) eqn:E1; [|lia].
  destruct (a <? b + 1) eqn:E2.
  - assert (Hq : Z.quot (b - a + s) s = (b - a + s) / s) by (apply Z.quot_div_nonneg; lia).
    rewrite Hq. replace (b + 1 - a - 1) with (b - a) by lia.
    replace (b - a + s) with ((b - a) + 1 * s) by lia. rewrite Z.div_add by lia.
    assert (0 <= (b - a) / s) by (apply Z.div_pos; lia). lia.
  - assert (b - a + s < s) by lia.
    destruct (Z.eq_dec (b - a + s) 0) as [E0|N0]; [rewrite E0, Z.quot_0_l by lia; lia|].
    destruct (Z_lt_le_dec (b - a + s) 0) as [Hn|Hp].
    + assert (Z.quot (b - a + s) s <= 0).
      { rewrite <- (Z.opp_involutive (b - a + s)), Z.quot_opp_l by lia.
        assert (0 <= Z.quot (- (b - a + s)) s) by (apply Z.quot_pos; lia). lia. }
      lia.
    + rewrite Z.quot_small by lia. lia.
Qed.

Lemma len_neg a b s : s < 0 -> py_range_len a (b - 1) s = trip_count a b s.
Proof.
  intros Hs. unfold py_range_len, trip_count.
  destruct (0 <? s) eqn:E1; [lia|].
  assert (Hq : Z.quot (b - a + s) s = Z.quot (a - b + - s) (- s)).
  { replace (b - a + s) with (- (a - b + - s)) by lia.
    replace s with (- - s) at 2 by lia. now rewrite Z.quot_opp_opp by lia. }
  rewrite Hq. clear Hq.
  destruct (b - 1 <? a) eqn:E2.
  - assert (Hq : Z.quot (a - b + - s) (- s) = (a - b + - s) / (- s)) by (apply Z.quot_div_nonneg; lia).
    rewrite Hq. replace (a - (b - 1) - 1) with (a - b) by lia.
    replace (a - b + - s) with ((a - b) + 1 * (- s)) by lia. rewrite Z.div_add by lia.
    assert (0 <= (a - b) / (- s)) by (apply Z.div_pos; lia). lia.
  - destruct (Z.eq_dec (a - b + - s) 0) as [E0|N0]; [rewrite E0, Z.quot_0_l by lia; lia|].
    destruct (Z_lt_le_dec (a - b + - s) 0) as [Hn|Hp].
    + assert (Z.quot (a - b + - s) (- s) <= 0).
      { rewrite <- (Z.opp_involutive (a - b + - s)), Z.quot_opp_l by lia.
        assert (0 <= Z.quot (- (a - b + - s)) (- s)) by (apply Z.quot_pos; lia). lia. }
      lia.
    + rewrite Z.quot_small by lia. lia.
Qed.

Lemma pyrange_eq_trips a b s : s <> 0 -> get_pyrange a b s = do_trips a b s.
Proof.
  intros Hs. unfold get_pyrange, do_trips, py_range.
  destruct (0 <? s) eqn:E.
  - now rewrite len_pos by lia.
  - now rewrite len_neg by lia.
Qed.

(** The unrepaired helper was wrong for descending loops (finding F5). *)
Lemma pyrange_old_refuted : exists a b s, s <> 0 /\ get_pyrange_old a b s <> do_trips a b s.
Proof. exists 10, 1, (-1). split; [lia|]. vm_compute. discriminate. Qed.

(** trips are exactly a, a+s, ..., and all lie between the bounds *)
Lemma do_trips_nth a b s k :
  (k < length (do_trips a b s))%nat -> nth k (do_trips a b s) 0 = a + Z.of_nat k * s.
Proof. unfold do_trips. rewrite iota_steps_length. apply iota_steps_nth. Qed.

Lemma trip_count_nonempty_quot a b s :
  s <> 0 -> 0 < trip_count a b s -> Z.quot (b - a + s) s = Z.quot (b - a) s + 1.
Proof.
  intros Hs Hne. unfold trip_count in Hne.
  assert (Hq : 0 < Z.quot (b - a + s) s) by lia.
  (* (b-a) and s have the same sign or b = a *)
  destruct (Z_lt_le_dec 0 s) as [Hp|Hn].
  - assert (0 <= b - a).
    { destruct (Z_lt_le_dec (b - a) 0) as [H|H]; [|lia]. exfalso.
      destruct (Z_lt_le_dec (b - a + s) 0) as [H1|H1].
      - assert (Z.quot (b - a + s) s <= 0).
        { rewrite <- (Z.opp_involutive (b - a + s)), Z.quot_opp_l by lia.
          assert (0 <= Z.quot (- (b - a + s)) s) by (apply Z.quot_pos; lia). lia. }
        lia.
      - rewrite Z.quot_small in Hq by lia. lia. }
    rewrite !Z.quot_div_nonneg by lia.
    replace (b - a + s) with ((b - a) + 1 * s) by lia. rewrite Z.div_add by lia. lia.
  - assert (Hs' : s < 0) by lia.
    assert (Hle : b - a <= 0).
    { destruct (Z_lt_le_dec 0 (b - a)) as [H|H]; [|lia]. exfalso.
      destruct (Z_lt_le_dec 0 (b - a + s)) as [H1|H1].
      - assert (Z.quot (b - a + s) s <= 0).
        { replace s with (- - s) at 2 by lia. rewrite Z.quot_opp_r by lia.
          assert (0 <= Z.quot (b - a + s) (- s)) by (apply Z.quot_pos; lia). lia. }
        lia.
      - assert (b - a + s <= 0) by lia.
        destruct (Z.eq_dec (b - a + s) 0) as [E|E]; [rewrite E, Z.quot_0_l in Hq by lia; lia|].
        replace (b - a + s) with (- (-(b - a + s))) in Hq by lia.
        replace s with (- - s) in Hq at 2 by lia.
        rewrite Z.quot_opp_opp in Hq by lia.
        rewrite Z.quot_small in Hq by lia. lia. }
    rewrite (quot_flip (b - a + s) s), (quot_flip (b - a) s) by lia.
    replace (- (b - a + s)) with (a - b + - s) by lia.
    replace (- (b - a)) with (a - b) by lia.
    rewrite !Z.quot_div_nonneg by lia.
    replace (a - b + - s) with ((a - b) + 1 * (- s)) by lia. rewrite Z.div_add by lia. lia.
Qed.

Lemma num_iterations_count a b s :
  s <> 0 -> nonempty a b s = true -> num_iterations a b s = Z.of_nat (length (do_trips a b s)).
Proof.
  intros Hs Hne. unfold nonempty in Hne. apply Z.ltb_lt in Hne.
  unfold do_trips. rewrite iota_steps_length.
  unfold num_iterations. pose proof (trip_count_nonempty_quot a b s Hs Hne) as H.
  unfold trip_count in *. lia.
Qed.

Lemma normalized_same_count a b s :
  s <> 0 -> nonempty a b s = true ->
  length (normalized_trips a b s) = length (do_trips a b s) /\
  (forall k, (k < length (do_trips a b s))%nat -> nth k (normalized_trips a b s) 0 = Z.of_nat k + 1).
Proof.
  intros Hs Hne. pose proof (num_iterations_count a b s Hs Hne) as Hn.
  unfold normalized_trips.
  assert (Hl : length (do_trips 1 (num_iterations a b s) 1) = length (do_trips a b s)).
  { unfold do_trips at 1. rewrite iota_steps_length. unfold trip_count.
    rewrite Hn. replace (Z.of_nat (length (do_trips a b s)) - 1 + 1) with (Z.of_nat (length (do_trips a b s))) by lia.
    rewrite Z.quot_1_r. lia. }
  split; [exact Hl|]. intros k Hk. rewrite do_trips_nth by lia. lia.
Qed.

(** iteration_number / iteration_index are mutually inverse on the trip sequence
    and enumerate it in order *)
Lemma iteration_index_enumerates a b s k :
  (k < length (do_trips a b s))%nat ->
  iteration_index (Z.of_nat k + 1) a s = nth k (do_trips a b s) 0.
Proof. intros Hk. rewrite do_trips_nth by exact Hk. unfold iteration_index. lia. Qed.

Lemma iteration_number_of_trip a b s k :
  s <> 0 -> (k < length (do_trips a b s))%nat ->
  iteration_number (nth k (do_trips a b s) 0) a s = Z.of_nat k + 1.
Proof.
  intros Hs Hk. rewrite do_trips_nth by exact Hk. unfold iteration_number.
  replace (a + Z.of_nat k * s - a) with (Z.of_nat k * s) by lia.
  rewrite Z.quot_mul by exact Hs. reflexivity.
Qed.

Lemma iter_number_index_inverse a s k : s <> 0 -> iteration_number (iteration_index k a s) a s = k.
Proof.
  intros Hs. unfold iteration_number, iteration_index.
  replace ((k - 1) * s + a - a) with ((k - 1) * s) by lia.
  rewrite Z.quot_mul by exact Hs. lia.
Qed.

(** every trip lies within the bounds (no overshoot) *)
Lemma trips_within_bounds a b s x :
  s <> 0 -> In x (do_trips a b s) -> (0 < s -> a <= x <= b) /\ (s < 0 -> b <= x <= a).
Proof.
  intros Hs Hin. apply (In_nth _ _ 0) in Hin. destruct Hin as [k [Hk Hx]].
  rewrite do_trips_nth in Hx by exact Hk. subst x.
  unfold do_trips in Hk. rewrite iota_steps_length in Hk. unfold trip_count in Hk.
  split; intros Hsg.
  - assert (Z.of_nat k < Z.quot (b - a + s) s) by lia.
    assert (0 <= b - a + s).
    { destruct (Z_lt_le_dec (b - a + s) 0) as [H1|H1]; [|lia]. exfalso.
      assert (Z.quot (b - a + s) s <= 0).
      { rewrite <- (Z.opp_involutive (b - a + s)), Z.quot_opp_l by lia.
        assert (0 <= Z.quot (- (b - a + s)) s) by (apply Z.quot_pos; lia). lia. }
      lia. }
    rewrite Z.quot_div_nonneg in H by lia. nia.
  - assert (Hk' : Z.of_nat k < Z.quot (b - a + s) s) by lia.
    assert (b - a + s <= 0).
    { destruct (Z_lt_le_dec 0 (b - a + s)) as [H1|H1]; [|lia]. exfalso.
      assert (Z.quot (b - a + s) s <= 0).
      { replace s with (- - s) at 2 by lia. rewrite Z.quot_opp_r by lia.
        assert (0 <= Z.quot (b - a + s) (- s)) by (apply Z.quot_pos; lia). lia. }
      lia. }
    replace (b - a + s) with (- (a - b + - s)) in Hk' by lia.
    replace s with (- - s) in Hk' at 2 by lia.
    rewrite Z.quot_opp_opp in Hk' by lia.
    rewrite Z.quot_div_nonneg in Hk' by lia. nia.
Qed.

(** non-vacuity *)
Example c10_nonvacuous :
  nonempty 10 1 (-3) = true /\ do_trips 10 1 (-3) = [10; 7; 4; 1] /\
  get_pyrange 10 1 (-3) = [10; 7; 4; 1] /\ num_iterations 10 1 (-3) = 4 /\
  nonempty 3 11 2 = true /\ do_trips 3 11 2 = [3; 5; 7; 9; 11].
Proof. vm_compute. repeat split; reflexivity. Qed.
