(** C29 — proofs, part 1: expression / selector substitution lemmas, frame and stability. *)
From Coq Require Import ZArith List Bool String Lia.
From LV Require Import Base.Expr Base.MiniF Base.MiniFFacts models.M_C29.
Import ListNotations.
Open Scope Z_scope.

(** * Small facts *)

Lemma intrinsic_not_intr f vs : is_intr f = false -> intrinsic f vs = None.
Proof.
  unfold is_intr, intrinsic. intros H.
  destruct (String.eqb f "mod"); [discriminate|].
  destruct (String.eqb f "modulo"); [discriminate|].
  destruct (String.eqb f "abs"); [discriminate|].
  destruct (String.eqb f "min"); [discriminate|].
  destruct (String.eqb f "max"); [discriminate|]. reflexivity.
Qed.

Lemma intrinsic_intr f vs : is_intr f = true -> exists r, intrinsic f vs = Some r.
Proof.
  unfold is_intr, intrinsic. intros H.
  destruct (String.eqb f "mod"); [destruct vs as [|a [|b [|? ?]]]; eauto|].
  destruct (String.eqb f "modulo"); [destruct vs as [|a [|b [|? ?]]]; eauto|].
  destruct (String.eqb f "abs"); [destruct vs as [|a [|? ?]]; eauto|].
  destruct (String.eqb f "min"); [destruct vs; eauto|].
  destruct (String.eqb f "max"); [destruct vs; eauto|]. discriminate.
Qed.

Lemma evalZ_call rho f args :
  evalZ rho (ECall f args) =
  obind (omap_list (evalZ rho) args)
        (fun vs => match intrinsic f vs with Some r => r | None => ev_fun rho f vs end).
Proof.
  cbn [evalZ]. f_equal.
  induction args as [|a r IH]; [reflexivity|]. cbn [omap_list]. rewrite <- IH. reflexivity.
Qed.

Lemma omap_ext {A B} (f : A -> option B) (g : A -> option B) l :
  Forall (fun x => f x = g x) l -> omap_list f l = omap_list g l.
Proof. induction 1 as [|x l H _ IH]; cbn; [reflexivity|]. now rewrite H, IH. Qed.

Lemma omap_map {A B C} (f : B -> option C) (h : A -> B) l :
  omap_list f (map h l) = omap_list (fun x => f (h x)) l.
Proof. induction l as [|x l IH]; cbn; [reflexivity|]. now rewrite IH. Qed.

Lemma fold_ext {A} (r1 r2 : expr -> option A) (k : A -> A -> A) (z : A) (h : expr -> expr) cs :
  Forall (fun c => r1 c = r2 (h c)) cs ->
  fold_right (fun c acc => obind (r1 c) (fun v => obind acc (fun a => Some (k v a)))) (Some z) cs =
  fold_right (fun c acc => obind (r2 c) (fun v => obind acc (fun a => Some (k v a)))) (Some z) (map h cs).
Proof. induction 1 as [|x l H _ IH]; cbn; [reflexivity|]. now rewrite H, IH. Qed.

Lemma Forall_forallb_imp {A} (P : A -> Prop) (b : A -> bool) l :
  Forall (fun x => b x = true -> P x) l -> forallb b l = true -> Forall P l.
Proof.
  induction 1 as [|x l H _ IH]; cbn; intros E; [constructor|].
  apply andb_prop in E. destruct E as [E1 E2]. constructor; auto.
Qed.

Lemma evalZ_some_evalB_none rho e v : evalZ rho e = Some v -> evalB rho e = None.
Proof. destruct e; cbn; try discriminate; reflexivity. Qed.

Lemma env_a_nil s : env_a [] s = env_st s.
Proof. reflexivity. Qed.

Lemma lookup_app {A} (l1 l2 : list (string * A)) x :
  lookup (l1 ++ l2) x = match lookup l1 x with Some v => Some v | None => lookup l2 x end.
Proof.
  induction l1 as [|[k v] r IH]; cbn; [reflexivity|]. destruct (String.eqb k x); [reflexivity|exact IH].
Qed.

(** * The invariant between run-time bindings and the substitution *)

Inductive agree (s : store) : aenv -> smap -> Prop :=
| agree_nil : agree s [] []
| agree_cons x b sl rho sg :
    bind_of [] s sl = Some b -> agree s rho sg -> agree s ((x, b) :: rho) ((x, sl) :: sg).

Lemma agree_lookup s rho sg : agree s rho sg -> forall x,
  match lookup rho x, lookup sg x with
  | None, None => True
  | Some b, Some sl => bind_of [] s sl = Some b
  | _, _ => False
  end.
Proof.
  induction 1 as [|y b sl rho sg Hb _ IH]; intros x; cbn; [exact I|].
  destruct (String.eqb y x); [exact Hb|apply IH].
Qed.

Lemma agree_app s r1 g1 r2 g2 : agree s r1 g1 -> agree s r2 g2 -> agree s (r1 ++ r2) (g1 ++ g2).
Proof. induction 1; cbn; [auto|]. intros. constructor; auto. Qed.

Definition sg_ok (sg : smap) : Prop := Forall (fun p => sel_ok (snd p) = true) sg.

Lemma sg_ok_lookup sg x sl : sg_ok sg -> lookup sg x = Some sl -> sel_ok sl = true.
Proof.
  induction 1 as [|[k v] r H _ IH]; cbn; [discriminate|].
  destruct (String.eqb k x); [intros E; inversion E; subst; exact H|exact IH].
Qed.

(** * Filling the free ranges: syntax vs run time *)

Lemma fill_eval s : forall ds bds args idx,
  omap_list (eval_dim [] s) ds = Some bds -> forallb unshifted ds = true -> fille ds args = Some idx ->
  omap_list (evalZ (env_st s)) idx = obind (omap_list (evalZ (env_st s)) args) (fillz bds).
Proof.
  induction ds as [|d r IH]; intros bds args idx Hb Hu Hf.
  - cbn in Hb. inversion Hb; subst. destruct args; cbn in Hf; [|discriminate]. inversion Hf; subst. reflexivity.
  - cbn [omap_list] in Hb. apply obind_some in Hb. destruct Hb as [bd [Hd Hb]].
    apply obind_some in Hb. destruct Hb as [br [Hr Hb]]. inversion Hb; subst; clear Hb.
    cbn [forallb] in Hu. apply andb_prop in Hu. destruct Hu as [Hu1 Hu2].
    destruct d as [e|off].
    + cbn [fille] in Hf. destruct (fille r args) as [idx'|] eqn:Hf'; [|discriminate]. inversion Hf; subst; clear Hf.
      cbn [eval_dim] in Hd. rewrite env_a_nil in Hd.
      destruct (evalZ (env_st s) e) as [v|] eqn:Ev; [|discriminate]. inversion Hd; subst; clear Hd.
      cbn [omap_list]. rewrite Ev. cbn [obind]. rewrite (IH _ _ _ Hr Hu2 Hf').
      destruct (omap_list (evalZ (env_st s)) args) as [va|]; cbn [obind fillz]; [|reflexivity].
      destruct (fillz br va); reflexivity.
    + cbn [eval_dim] in Hd. inversion Hd; subst; clear Hd.
      cbn [unshifted] in Hu1. apply Z.eqb_eq in Hu1. subst off.
      cbn [fille] in Hf. destruct args as [|a ar]; [discriminate|].
      destruct (fille r ar) as [idx'|] eqn:Hf'; [|discriminate]. inversion Hf; subst; clear Hf.
      cbn [omap_list]. destruct (evalZ (env_st s) a) as [x|]; cbn [obind]; [|reflexivity].
      rewrite (IH _ _ _ Hr Hu2 Hf').
      destruct (omap_list (evalZ (env_st s)) ar) as [va|]; cbn [obind fillz]; [|reflexivity].
      rewrite Z.add_0_r. destruct (fillz br va); reflexivity.
Qed.

Lemma fill_nil_some s : forall ds bds idx,
  omap_list (eval_dim [] s) ds = Some bds -> fille ds [] = Some idx -> exists i, fillz bds [] = Some i.
Proof.
  induction ds as [|d r IH]; intros bds idx Hb Hf.
  - cbn in Hb. inversion Hb; subst. cbn. eauto.
  - cbn [omap_list] in Hb. apply obind_some in Hb. destruct Hb as [bd [Hd Hb]].
    apply obind_some in Hb. destruct Hb as [br [Hr Hb]]. inversion Hb; subst; clear Hb.
    destruct d as [e|off]; [|discriminate].
    cbn [fille] in Hf. destruct (fille r []) as [idx'|] eqn:Hf'; [|discriminate].
    cbn [eval_dim] in Hd. destruct (evalZ (env_a [] s) e) as [v|]; [|discriminate]. inversion Hd; subst.
    destruct (IH _ idx' Hr eq_refl) as [i Hi]. cbn [fillz]. rewrite Hi. cbn. eauto.
Qed.

Lemma compose_eval s : forall ds0 bds0 ds r,
  omap_list (eval_dim [] s) ds0 = Some bds0 -> forallb unshifted ds0 = true -> filld ds0 ds = Some r ->
  omap_list (eval_dim [] s) r = obind (omap_list (eval_dim [] s) ds) (compose bds0).
Proof.
  induction ds0 as [|d r0 IH]; intros bds0 ds r Hb Hu Hf.
  - cbn in Hb. inversion Hb; subst. destruct ds; cbn in Hf; [|discriminate]. inversion Hf; subst. reflexivity.
  - cbn [omap_list] in Hb. apply obind_some in Hb. destruct Hb as [bd [Hd Hb]].
    apply obind_some in Hb. destruct Hb as [br [Hr Hb]]. inversion Hb; subst; clear Hb.
    cbn [forallb] in Hu. apply andb_prop in Hu. destruct Hu as [Hu1 Hu2].
    destruct d as [e|off].
    + cbn [filld] in Hf. destruct (filld r0 ds) as [r'|] eqn:Hf'; [|discriminate]. inversion Hf; subst; clear Hf.
      cbn [omap_list]. rewrite Hd. cbn [obind]. rewrite (IH _ _ _ Hr Hu2 Hf').
      cbn [eval_dim] in Hd. destruct (evalZ (env_a [] s) e) as [v|]; [|discriminate]. inversion Hd; subst; clear Hd.
      destruct (omap_list (eval_dim [] s) ds) as [bds|]; cbn [obind compose]; [|reflexivity].
      destruct (compose br bds); reflexivity.
    + cbn [eval_dim] in Hd. inversion Hd; subst; clear Hd.
      cbn [unshifted] in Hu1. apply Z.eqb_eq in Hu1. subst off.
      cbn [filld] in Hf. destruct ds as [|d' dr]; [discriminate|].
      destruct (filld r0 dr) as [r'|] eqn:Hf'; [|discriminate]. inversion Hf; subst; clear Hf.
      cbn [omap_list]. destruct (eval_dim [] s d') as [bd'|] eqn:Ed; cbn [obind]; [|reflexivity].
      rewrite (IH _ _ _ Hr Hu2 Hf').
      destruct (omap_list (eval_dim [] s) dr) as [bdr|]; cbn [obind]; [|reflexivity].
      destruct bd' as [i|off]; cbn [compose]; rewrite Z.add_0_r; destruct (compose br bdr); reflexivity.
Qed.

(** * Expressions: evaluating through the bindings = evaluating the substituted expression *)

Lemma is_some_true {A} (o : option A) : is_some o = true -> exists a, o = Some a.
Proof. destruct o; [eauto|discriminate]. Qed.

Lemma subst_evalZ s rho sg : agree s rho sg -> sg_ok sg -> forall e, okE sg e = true ->
  evalZ (env_a rho s) e = evalZ (env_st s) (subst sg e).
Proof.
  intros Hag Hok. induction e using expr_ind'; intros Hk; try reflexivity.
  - (* EVar *)
    pose proof (agree_lookup _ _ _ Hag x) as L. cbn [subst okE] in *.
    cbn [evalZ env_a ev_var]. unfold var_of.
    destruct (lookup rho x) as [b|] eqn:Lr; destruct (lookup sg x) as [sl|] eqn:Ls; try contradiction; [|reflexivity].
    pose proof (sg_ok_lookup _ _ _ Hok Ls) as Hs.
    destruct sl as [y|a ds|e'].
    + cbn in L. inversion L; subst. reflexivity.
    + cbn [bind_of lookup] in L. apply obind_some in L. destruct L as [bds [Hb L]]. inversion L; subst; clear L.
      cbn [sel_ok] in Hs. apply andb_prop in Hs. destruct Hs as [Hi Hu].
      apply is_some_true in Hk. destruct Hk as [idx Hf]. rewrite Hf.
      rewrite evalZ_call. rewrite (fill_eval s ds bds [] idx Hb Hu Hf). cbn [omap_list obind].
      destruct (fill_nil_some s ds bds idx Hb Hf) as [i Hi']. rewrite Hi'. cbn [obind].
      rewrite intrinsic_not_intr; [reflexivity|]. now apply negb_true_iff in Hi.
    + cbn [bind_of] in L. rewrite env_a_nil in L. destruct (evalZ (env_st s) e') as [v|]; [|discriminate].
      cbn in L. inversion L; subst. reflexivity.
  - (* ESum *)
    cbn [okE] in Hk. cbn [subst evalZ]. apply fold_ext.
    eapply Forall_forallb_imp; [|exact Hk]. exact H.
  - cbn [okE] in Hk. cbn [subst evalZ]. apply fold_ext.
    eapply Forall_forallb_imp; [|exact Hk]. exact H.
  - cbn [okE] in Hk. apply andb_prop in Hk. destruct Hk as [H1 H2].
    cbn [subst evalZ]. now rewrite IHe1, IHe2.
  - cbn [okE] in Hk. apply andb_prop in Hk. destruct Hk as [H1 H2].
    cbn [subst evalZ]. now rewrite IHe1, IHe2.
  - (* ECall *)
    cbn [okE] in Hk. apply andb_prop in Hk. destruct Hk as [Hargs Hk].
    assert (Ea : omap_list (evalZ (env_a rho s)) args = omap_list (evalZ (env_st s)) (map (subst sg) args)).
    { rewrite omap_map. apply omap_ext. eapply Forall_forallb_imp; [|exact Hargs]. exact H. }
    cbn [subst]. rewrite evalZ_call, Ea.
    destruct (is_intr f) eqn:Hif.
    + rewrite evalZ_call.
      destruct (omap_list (evalZ (env_st s)) (map (subst sg) args)) as [vs|]; cbn [obind]; [|reflexivity].
      destruct (intrinsic_intr f vs Hif) as [r Hr]. now rewrite Hr.
    + pose proof (agree_lookup _ _ _ Hag f) as L.
      cbn [env_a ev_fun]. unfold fun_of.
      destruct (lookup rho f) as [b|] eqn:Lr; destruct (lookup sg f) as [sl|] eqn:Ls; try contradiction.
      * pose proof (sg_ok_lookup _ _ _ Hok Ls) as Hs.
        destruct sl as [y|a ds|e'].
        -- cbn in L. inversion L; subst. rewrite evalZ_call.
           destruct (omap_list (evalZ (env_st s)) (map (subst sg) args)) as [vs|]; cbn [obind]; [|reflexivity].
           cbn [sel_ok] in Hs. apply negb_true_iff in Hs.
           rewrite (intrinsic_not_intr f vs Hif), (intrinsic_not_intr y vs Hs). reflexivity.
        -- cbn [bind_of lookup] in L. apply obind_some in L. destruct L as [bds [Hb L]]. inversion L; subst; clear L.
           cbn [sel_ok] in Hs. apply andb_prop in Hs. destruct Hs as [Hi Hu]. apply negb_true_iff in Hi.
           apply is_some_true in Hk. destruct Hk as [idx Hf]. rewrite Hf.
           rewrite evalZ_call. rewrite (fill_eval s ds bds _ idx Hb Hu Hf).
           destruct (omap_list (evalZ (env_st s)) (map (subst sg) args)) as [vs|]; cbn [obind]; [|reflexivity].
           rewrite (intrinsic_not_intr f vs Hif).
           destruct (fillz bds vs) as [i|]; cbn [obind option_map]; [|reflexivity].
           now rewrite (intrinsic_not_intr a i Hi).
        -- discriminate.
      * rewrite evalZ_call.
        destruct (omap_list (evalZ (env_st s)) (map (subst sg) args)) as [vs|]; cbn [obind]; reflexivity.
Qed.

Lemma subst_evalB s rho sg : agree s rho sg -> sg_ok sg -> forall e, okE sg e = true ->
  evalB (env_a rho s) e = evalB (env_st s) (subst sg e).
Proof.
  intros Hag Hok. induction e using expr_ind'; intros Hk; try reflexivity.
  - (* EVar *)
    pose proof (agree_lookup _ _ _ Hag x) as L. cbn [subst okE] in *. cbn [evalB].
    destruct (lookup rho x) as [b|] eqn:Lr; destruct (lookup sg x) as [sl|] eqn:Ls; try contradiction; [|reflexivity].
    destruct sl as [y|a ds|e']; [reflexivity| |].
    + destruct (fille ds []); reflexivity.
    + cbn [bind_of] in L. rewrite env_a_nil in L. destruct (evalZ (env_st s) e') as [v|] eqn:Ev; [|discriminate].
      symmetry. eapply evalZ_some_evalB_none; exact Ev.
  - (* ECmp *)
    cbn [okE] in Hk. apply andb_prop in Hk. destruct Hk as [H1 H2].
    cbn [subst evalB]. now rewrite (subst_evalZ s rho sg Hag Hok e1 H1), (subst_evalZ s rho sg Hag Hok e2 H2).
  - cbn [okE] in Hk. cbn [subst evalB]. apply fold_ext. eapply Forall_forallb_imp; [|exact Hk]. exact H.
  - cbn [okE] in Hk. cbn [subst evalB]. apply fold_ext. eapply Forall_forallb_imp; [|exact Hk]. exact H.
  - cbn [okE] in Hk. cbn [subst evalB]. now rewrite IHe.
  - (* ECall *)
    cbn [subst]. destruct (is_intr f); [reflexivity|].
    destruct (lookup sg f) as [[y|a ds|e']|]; try reflexivity.
    destruct (fille ds (map (subst sg) args)); reflexivity.
Qed.

Lemma subst_idx s rho sg : agree s rho sg -> sg_ok sg -> forall idx, forallb (okE sg) idx = true ->
  omap_list (evalZ (env_a rho s)) idx = omap_list (evalZ (env_st s)) (map (subst sg) idx).
Proof.
  intros Hag Hok idx Hk. rewrite omap_map. apply omap_ext.
  eapply Forall_forallb_imp; [|exact Hk]. apply Forall_forall. intros e _ He. now apply subst_evalZ.
Qed.

(** * Selectors *)

Lemma bind_subst s rho sg : agree s rho sg -> sg_ok sg -> forall sl, okS sg sl = true ->
  bind_of rho s sl = bind_of [] s (subst_sel sg sl).
Proof.
  intros Hag Hok sl Hk. destruct sl as [y|a ds|e].
  - pose proof (agree_lookup _ _ _ Hag y) as L. cbn [bind_of subst_sel].
    destruct (lookup rho y) as [b|]; destruct (lookup sg y) as [sl|]; try contradiction; [now rewrite L|reflexivity].
  - cbn [okS] in Hk. apply andb_prop in Hk. destruct Hk as [Hd Hk].
    assert (Ed : omap_list (eval_dim rho s) ds = omap_list (eval_dim [] s) (map (subst_dim sg) ds)).
    { rewrite omap_map. apply omap_ext. eapply Forall_forallb_imp; [|exact Hd].
      apply Forall_forall. intros d _ Hd'. destruct d as [e|off]; [|reflexivity].
      cbn [okD] in Hd'. cbn [eval_dim subst_dim]. rewrite env_a_nil. now rewrite (subst_evalZ s rho sg Hag Hok e Hd'). }
    pose proof (agree_lookup _ _ _ Hag a) as L. cbn [bind_of subst_sel]. rewrite Ed.
    destruct (lookup rho a) as [b|] eqn:Lr; destruct (lookup sg a) as [sl|] eqn:Ls; try contradiction; [|reflexivity].
    pose proof (sg_ok_lookup _ _ _ Hok Ls) as Hs.
    destruct sl as [y|b0 ds0|e'].
    + cbn in L. inversion L; subst. reflexivity.
    + cbn [bind_of lookup] in L. apply obind_some in L. destruct L as [bds0 [Hb L]]. inversion L; subst; clear L.
      cbn [sel_ok] in Hs. apply andb_prop in Hs. destruct Hs as [_ Hu].
      apply is_some_true in Hk. destruct Hk as [r Hf]. rewrite Hf.
      cbn [bind_of lookup]. rewrite (compose_eval s ds0 bds0 _ r Hb Hu Hf).
      destruct (omap_list (eval_dim [] s) (map (subst_dim sg) ds)) as [bds|]; cbn [obind]; [|reflexivity].
      destruct (compose bds0 bds); reflexivity.
    + discriminate.
  - cbn [okS] in Hk. cbn [bind_of subst_sel]. rewrite env_a_nil. now rewrite (subst_evalZ s rho sg Hag Hok e Hk).
Qed.

Lemma bind_all_subst s rho sg : agree s rho sg -> sg_ok sg -> forall l,
  forallb (fun p => okS sg (snd p)) l = true ->
  bind_all rho s l = bind_all [] s (subst_assocs sg l).
Proof.
  intros Hag Hok. induction l as [|[x sl] r IH]; intros Hk; [reflexivity|].
  cbn [forallb snd] in Hk. apply andb_prop in Hk. destruct Hk as [H1 H2].
  cbn [bind_all subst_assocs map fst snd]. rewrite (bind_subst s rho sg Hag Hok sl H1).
  fold (subst_assocs sg r). now rewrite (IH H2).
Qed.

Lemma bind_all_agree s : forall l beta, bind_all [] s l = Some beta -> agree s beta l.
Proof.
  induction l as [|[x sl] r IH]; intros beta H; cbn in H.
  - inversion H. constructor.
  - apply obind_some in H. destruct H as [b [Hb H]]. apply obind_some in H. destruct H as [bs [Hbs H]].
    inversion H; subst. constructor; auto.
Qed.

(** * Frame property of the target interpreter *)

Definition same_on (n : string) (s s' : store) : Prop := sv s' n = sv s n /\ forall i, av s' n i = av s n i.

Lemma same_on_refl n s : same_on n s s. Proof. split; auto. Qed.
Lemma same_on_trans n s1 s2 s3 : same_on n s1 s2 -> same_on n s2 s3 -> same_on n s1 s3.
Proof. intros [A B] [C D]. split; [congruence|]. intros i. now rewrite D, B. Qed.

Lemma same_on_set_sv n x v s : n <> x -> same_on n s (set_sv x v s).
Proof.
  intros H. split; cbn; [|auto]. destruct (String.eqb n x) eqn:E; [apply String.eqb_eq in E; contradiction|reflexivity].
Qed.

Lemma same_on_set_av n a i v s : n <> a -> same_on n s (set_av a i v s).
Proof.
  intros H. split; cbn; [reflexivity|]. intros j.
  destruct (String.eqb n a) eqn:E; [apply String.eqb_eq in E; contradiction|reflexivity].
Qed.

Lemma writes_app p q : writes (p ++ q) = writes p ++ writes q.
Proof. unfold writes. apply flat_map_app. Qed.

Lemma exec_frame f : forall p s s', exec [] f p s = Some s' -> forall n, ~ In n (writes p) -> same_on n s s'.
Proof.
  induction f as [|f IH]; intros p s s' E n Hn; [discriminate|].
  destruct p as [|st rest]; [inversion E; apply same_on_refl|].
  rewrite exec_unfold in E. apply obind_some in E. destruct E as [s1 [E1 E2]].
  change (writes (st :: rest)) with (writes_stmt st ++ writes rest) in Hn.
  assert (Hn1 : ~ In n (writes_stmt st)) by (intros X; apply Hn; apply in_or_app; now left).
  assert (Hn2 : ~ In n (writes rest)) by (intros X; apply Hn; apply in_or_app; now right).
  eapply same_on_trans; [|eapply IH; eassumption].
  clear E2 Hn Hn2.
  destruct st as [x e|a idx e|v lo hi stp body|c body|c tb eb|g args|l]; cbn [exec1] in E1.
  - apply obind_some in E1. destruct E1 as [v [_ E1]]. inversion E1; subst.
    apply same_on_set_sv. intros ->. apply Hn1. now left.
  - apply obind_some in E1. destruct E1 as [i [_ E1]]. apply obind_some in E1. destruct E1 as [v [_ E1]].
    inversion E1; subst. apply same_on_set_av. intros ->. apply Hn1. now left.
  - apply obind_some in E1. destruct E1 as [a [_ E1]]. apply obind_some in E1. destruct E1 as [b [_ E1]].
    apply obind_some in E1. destruct E1 as [d [_ E1]]. destruct (d =? 0); [discriminate|].
    cbn [writes_stmt] in Hn1.
    assert (Hv : n <> v) by (intros ->; apply Hn1; now left).
    assert (Hb : ~ In n (writes body)) by (intros X; apply Hn1; now right).
    clear Hn1. remember (Z.to_nat (trip_count a b d)) as k eqn:Hk. clear Hk. revert a s E1.
    induction k as [|k IHk]; intros i s E1; cbn [do_loop] in E1.
    + inversion E1; subst. now apply same_on_set_sv.
    + apply obind_some in E1. destruct E1 as [s2 [Ea Eb]].
      eapply same_on_trans; [apply same_on_set_sv; exact Hv|].
      eapply same_on_trans; [eapply IH; eassumption|]. eapply IHk; eassumption.
  - apply obind_some in E1. destruct E1 as [b [_ E1]]. destruct b; [|inversion E1; apply same_on_refl].
    apply obind_some in E1. destruct E1 as [s2 [Ea Eb]].
    cbn [writes_stmt] in Hn1.
    eapply same_on_trans; [eapply IH; eassumption|].
    eapply IH; [exact Eb|]. unfold writes. cbn [flat_map writes_stmt]. now rewrite app_nil_r.
  - apply obind_some in E1. destruct E1 as [b [_ E1]]. cbn [writes_stmt] in Hn1.
    eapply IH; [exact E1|]. intros X. apply Hn1. apply in_or_app. destruct b; [now left|now right].
  - cbn in E1. discriminate.
  - inversion E1; apply same_on_refl.
Qed.

Lemma runs_frame p s s' : runs [] p s s' -> forall n, ~ In n (writes p) -> same_on n s s'.
Proof. intros [f E]. eapply exec_frame; exact E. Qed.

(** * Stability of bindings under writes elsewhere *)

Lemma evalZ_same s s' : forall e, (forall n, In n (fv e) -> same_on n s s') ->
  evalZ (env_st s') e = evalZ (env_st s) e.
Proof.
  induction e using expr_ind'; intros Hs; try reflexivity.
  - cbn. f_equal. apply (Hs x). now left.
  - cbn [evalZ fv] in *. rewrite <- (map_id cs) at 1. symmetry. apply fold_ext.
    apply Forall_forall. intros c Hc. symmetry. rewrite Forall_forall in H. apply H; [exact Hc|].
    intros n Hn. apply Hs. apply in_flat_map. eauto.
  - cbn [evalZ fv] in *. rewrite <- (map_id cs) at 1. symmetry. apply fold_ext.
    apply Forall_forall. intros c Hc. symmetry. rewrite Forall_forall in H. apply H; [exact Hc|].
    intros n Hn. apply Hs. apply in_flat_map. eauto.
  - cbn [evalZ fv] in *. rewrite IHe1, IHe2; [reflexivity| |]; intros n Hn; apply Hs; apply in_or_app; auto.
  - cbn [evalZ fv] in *. rewrite IHe1, IHe2; [reflexivity| |]; intros n Hn; apply Hs; apply in_or_app; auto.
  - rewrite !evalZ_call. cbn [fv] in Hs.
    assert (Ea : omap_list (evalZ (env_st s')) args = omap_list (evalZ (env_st s)) args).
    { apply omap_ext. apply Forall_forall. intros c Hc. rewrite Forall_forall in H. apply H; [exact Hc|].
      intros n Hn. apply Hs. right. apply in_flat_map. eauto. }
    rewrite Ea. destruct (omap_list (evalZ (env_st s)) args) as [vs|]; cbn [obind]; [|reflexivity].
    destruct (intrinsic f vs); [reflexivity|]. cbn. f_equal. apply (Hs f). now left.
Qed.

Lemma bind_same s s' sl : (forall n, In n (dyn_fv sl) -> same_on n s s') -> bind_of [] s' sl = bind_of [] s sl.
Proof.
  intros Hs. destruct sl as [y|a ds|e]; [reflexivity| |].
  - cbn [bind_of lookup]. f_equal. apply omap_ext. apply Forall_forall. intros d Hd.
    destruct d as [e|off]; [|reflexivity]. cbn [eval_dim]. rewrite !env_a_nil. f_equal.
    apply evalZ_same. intros n Hn. apply Hs. cbn [dyn_fv]. apply in_flat_map. exists (DFix e). split; [exact Hd|exact Hn].
  - cbn [bind_of]. rewrite !env_a_nil. f_equal. apply evalZ_same. exact Hs.
Qed.

Definition stableP (sg : smap) (w : list string) : Prop :=
  forall p, In p sg -> forall n, In n (dyn_fv (snd p)) -> ~ In n w.

Lemma agree_same s s' rho sg : agree s rho sg ->
  (forall p, In p sg -> forall n, In n (dyn_fv (snd p)) -> same_on n s s') -> agree s' rho sg.
Proof.
  induction 1 as [|x b sl rho sg Hb _ IH]; intros Hs; constructor.
  - rewrite (bind_same s s' sl); [exact Hb|]. intros n Hn. apply (Hs (x, sl)); [now left|exact Hn].
  - apply IH. intros p Hp. apply Hs. now right.
Qed.

Lemma agree_runs s s' rho sg p : agree s rho sg -> runs [] p s s' -> stableP sg (writes p) -> agree s' rho sg.
Proof.
  intros Hag Hr Hst. eapply agree_same; [exact Hag|].
  intros q Hq n Hn. eapply runs_frame; [exact Hr|]. eapply Hst; eassumption.
Qed.

Lemma stableP_incl sg w w' : stableP sg w -> incl w' w -> stableP sg w'.
Proof. intros H Hi p Hp n Hn X. eapply H; eauto. Qed.

Lemma stableP_app sg1 sg2 w : stableP sg1 w -> stableP sg2 w -> stableP (sg1 ++ sg2) w.
Proof. intros H1 H2 p Hp. apply in_app_or in Hp. destruct Hp; [now apply H1|now apply H2]. Qed.

Lemma memb_false x l : memb x l = false -> ~ In x l.
Proof.
  unfold memb. intros H X. assert (existsb (String.eqb x) l = true); [|congruence].
  apply existsb_exists. exists x. split; [exact X|apply String.eqb_refl].
Qed.

Lemma disjointb_spec l1 l2 : disjointb l1 l2 = true -> forall n, In n l1 -> ~ In n l2.
Proof.
  unfold disjointb. intros H n Hn. rewrite forallb_forall in H. specialize (H n Hn).
  apply negb_true_iff in H. now apply memb_false.
Qed.

Lemma stable_sels_spec sgn w : stable_sels sgn w = true -> stableP sgn w.
Proof.
  unfold stable_sels. intros H p Hp n Hn. rewrite forallb_forall in H. specialize (H p Hp).
  eapply disjointb_spec; eassumption.
Qed.
