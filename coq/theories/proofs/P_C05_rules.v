(** C05 — facts about the six line scanners: what a match decomposes into, and when nothing matches. *)
From Coq Require Import String Ascii List Bool Arith NArith ZArith Lia.
From LV Require Import Base.Strings models.M_C05 proofs.P_C05_base.
Import ListNotations.
Open Scope string_scope.

Ltac norm := repeat (first [rewrite sapp_assoc | progress (cbn [append])]).

(** * the shape of "only the matched spans differ" *)
(** [seg_rel R a b]: [b] is [a] with some disjoint segments [t] replaced by [t'] where [R t t']; every other character is kept *)
Inductive seg_rel (R : string -> string -> Prop) : string -> string -> Prop :=
| seg_nil : seg_rel R "" ""
| seg_keep c a b : seg_rel R a b -> seg_rel R (String c a) (String c b)
| seg_rw t t' a b : R t t' -> seg_rel R a b -> seg_rel R (t ++ a) (t' ++ b).

Lemma seg_rel_prefix R m a b : seg_rel R a b -> seg_rel R (m ++ a) (m ++ b).
Proof. intro H. induction m as [|c m IH]; cbn; [exact H|now apply seg_keep]. Qed.
Lemma seg_rel_refl R a : seg_rel R a a.
Proof. induction a; [constructor|now apply seg_keep]. Qed.

(** some suffix of [s] starts with a token *)
Fixpoint has_tok (tok_at : string -> option string) (s : string) : bool :=
  is_some (tok_at s) || match s with "" => false | String _ r => has_tok tok_at r end.

Lemma has_tok_app_r tk a b : has_tok tk (a ++ b) = false -> has_tok tk b = false.
Proof.
  induction a as [|x a IH]; cbn [append]; [trivial|]. intro H. cbn [has_tok] in H.
  apply orb_false_elim in H. now apply IH.
Qed.

Lemma rw_go_id tk repl s : has_tok tk s = false -> rw_go tk repl 0 s = (s, []).
Proof.
  induction s as [|c s IH]; [reflexivity|]. cbn [has_tok]. intro H.
  apply orb_false_elim in H. destruct H as [H1 H2].
  cbn [rw_go]. destruct (tk (String c s)); [discriminate|]. now rewrite (IH H2).
Qed.

Lemma first_tok_some toks s t : first_tok toks s = Some t -> In t toks /\ exists r, starts t s = Some r.
Proof.
  unfold first_tok. intro H. apply find_some in H. destruct H as [Hi Hs].
  split; [exact Hi|]. destruct (starts t s) as [r|]; [eauto|discriminate].
Qed.

Lemma contains_of_starts t s r : starts t s = Some r -> contains t s = true.
Proof. intro H. destruct s; cbn [contains]; now rewrite H. Qed.
Lemma contains_cons_false t c s : contains t (String c s) = false -> contains t s = false.
Proof. cbn [contains]. destruct (is_some _); [discriminate|trivial]. Qed.
Lemma contains_ci_cons p c s : contains_ci p s = true -> contains_ci p (String c s) = true.
Proof. intro H. cbn [contains_ci]. destruct (is_some _); [reflexivity|exact H]. Qed.

Lemma has_tok_first_false toks s :
  (forall t, In t toks -> contains t s = false) -> has_tok (first_tok toks) s = false.
Proof.
  induction s as [|c s IH]; intro H; cbn [has_tok].
  - destruct (first_tok toks "") as [t|] eqn:E; [|reflexivity].
    apply first_tok_some in E. destruct E as [Hi [r Hr]]. apply contains_of_starts in Hr. rewrite (H _ Hi) in Hr. discriminate.
  - destruct (first_tok toks (String c s)) as [t|] eqn:E.
    + apply first_tok_some in E. destruct E as [Hi [r Hr]]. apply contains_of_starts in Hr. rewrite (H _ Hi) in Hr. discriminate.
    + cbn. apply IH. intros t Hi. apply (contains_cons_false _ c). now apply H.
Qed.

Lemma rw_go_seg (R : string -> string -> Prop) tk repl :
  (forall s t, tk s = Some t -> t <> "" /\ (exists r, s = t ++ r) /\ R t (repl t)) ->
  forall s k, k <= String.length s -> seg_rel R (sdrop k s) (fst (rw_go tk repl k s)).
Proof.
  intros Htk. induction s as [|c s IH]; intros k Hk.
  - cbn in Hk. assert (k = 0) by lia. subst. cbn. constructor.
  - destruct k as [|k].
    + cbn [sdrop rw_go]. destruct (tk (String c s)) as [t|] eqn:T.
      * destruct (Htk _ _ T) as [Hne [[r0 Hr] HR]].
        destruct t as [|c' t']; [contradiction|]. cbn [append] in Hr. inversion Hr; subst c' s.
        cbn [String.length pred].
        destruct (rw_go tk repl (String.length t') (t' ++ r0)) as [o ts] eqn:G. cbn [fst].
        change (String c (t' ++ r0)) with (String c t' ++ r0).
        apply seg_rw; [exact HR|].
        specialize (IH (String.length t')). rewrite G, sdrop_app in IH. cbn [fst] in IH. apply IH.
        rewrite slength_app. lia.
      * destruct (rw_go tk repl 0 s) as [o ts] eqn:G. cbn [fst]. apply seg_keep.
        specialize (IH 0). rewrite G in IH. cbn in IH. apply IH. lia.
    + cbn [sdrop rw_go]. apply IH. cbn in Hk. lia.
Qed.

Lemma rw_first_seg (R : string -> string -> Prop) toks repl s :
  ~ In "" toks -> (forall t, In t toks -> R t (repl t)) ->
  seg_rel R s (fst (rw_go (first_tok toks) repl 0 s)).
Proof.
  intros Hne HR. apply (rw_go_seg R (first_tok toks) repl) with (k := 0) (s := s); [|lia].
  intros s0 t Ht. apply first_tok_some in Ht. destruct Ht as [Hi [r Hr]].
  split; [intro; subst; contradiction|]. split; [exists r; now apply starts_app|now apply HR].
Qed.

(** * rule 1 *)
Definition R_ibm (l l' : string) : Prop :=
  l' = l \/ exists a m rest, l = a ++ kw_process ++ m ++ String NL rest /\ l' = a ++ String NL rest.

Lemma f_ibm_rel l : R_ibm l (fst (f_ibm l)).
Proof.
  unfold f_ibm. destruct (find_lit kw_process l) as [[a b]|] eqn:F; [|now left].
  destruct (find_lit_some _ _ _ _ F) as [-> [r Hr]].
  apply starts_app in Hr. subst b.
  destruct (split_nl (kw_process ++ r)) as [[m rest]|] eqn:S; [|now left].
  right. cbn [fst].
  unfold kw_process in S. cbn in S.
  destruct (split_nl r) as [[m' rest']|] eqn:S'; [|discriminate]. inversion S; subst.
  apply split_nl_app in S'. subst r. exists a, m', rest. split; reflexivity.
Qed.
Lemma f_ibm_id l : contains kw_process l = false -> f_ibm l = (l, []).
Proof. intro H. unfold f_ibm. now rewrite (find_lit_none _ _ H). Qed.

(** * rules 2 and 3 *)
Definition R_macro (t t' : string) : Prop := In t macro_toks /\ t' = dquote t.
Definition R_lineno (t t' : string) : Prop := t = kw_line /\ t' = "0".

Lemma last_tok_app s a t rest : last_tok s = Some (a, t, rest) -> s = a ++ t ++ rest.
Proof.
  revert a. induction s as [|c s IH]; intros a H; cbn [last_tok] in H; [discriminate|].
  destruct (is_nl c); [discriminate|].
  destruct (last_tok s) as [[[a' t'] rest']|] eqn:L.
  - inversion H; subst. cbn. now rewrite (IH _ eq_refl).
  - destruct (macro_at (String c s)) as [t0|] eqn:M; [|discriminate].
    destruct (starts t0 (String c s)) as [r|] eqn:S; [|discriminate].
    inversion H; subst. cbn [append]. now apply starts_app.
Qed.
Lemma last_tok_none s : has_tok macro_at s = false -> last_tok s = None.
Proof.
  induction s as [|c s IH]; [reflexivity|]. cbn [has_tok]. intro H.
  apply orb_false_elim in H. destruct H as [H1 H2]. cbn [last_tok].
  destruct (is_nl c); [reflexivity|]. rewrite (IH H2).
  destruct (macro_at (String c s)); [discriminate|reflexivity].
Qed.
Lemma pp_alt_app l m rest : pp_alt l = Some (m, rest) -> l = m ++ rest.
Proof.
  unfold pp_alt, span_ws. destruct (span is_ws l) as [w r] eqn:S. apply span_app in S. subst l.
  destruct r as [|c r']; [discriminate|].
  destruct (Ascii.eqb c "#"); [|discriminate].
  destruct (last_tok r') as [[[a t] rest']|] eqn:L; [|discriminate].
  intro H. inversion H; subst. apply last_tok_app in L. subst r'. now norm.
Qed.
Lemma pp_alt_none l : has_tok macro_at l = false -> pp_alt l = None.
Proof.
  intro H. unfold pp_alt, span_ws. destruct (span is_ws l) as [w r] eqn:S. apply span_app in S. subst l.
  apply has_tok_app_r in H. destruct r as [|c r']; [reflexivity|].
  destruct (Ascii.eqb c "#"); [|reflexivity].
  cbn [has_tok] in H. apply orb_false_elim in H. destruct H as [_ H]. now rewrite (last_tok_none _ H).
Qed.

Lemma macro_toks_nonempty : ~ In "" macro_toks.
Proof. cbn. intros [H|[H|[H|[H|[]]]]]; discriminate. Qed.

Lemma f_strpp_rel l : seg_rel R_macro l (fst (f_strpp l)).
Proof.
  unfold f_strpp. destruct (pp_alt l) as [[m rest]|] eqn:P.
  - apply pp_alt_app in P. subst l.
    pose proof (rw_first_seg R_macro macro_toks dquote rest macro_toks_nonempty) as H.
    unfold macro_at. destruct (rw_go (first_tok macro_toks) dquote 0 rest) as [o ts]. cbn [fst] in *.
    apply seg_rel_prefix. apply H. intros t Ht. now split.
  - pose proof (rw_first_seg R_macro macro_toks dquote l macro_toks_nonempty) as H.
    unfold macro_at. destruct (rw_go (first_tok macro_toks) dquote 0 l) as [o ts]. cbn [fst] in *.
    apply H. intros t Ht. now split.
Qed.
Lemma f_strpp_id l : (forall t, In t macro_toks -> contains t l = false) -> f_strpp l = (l, []).
Proof.
  intro H. apply has_tok_first_false in H. unfold f_strpp.
  rewrite (pp_alt_none _ H). unfold macro_at. now rewrite (rw_go_id _ _ _ H).
Qed.

Lemma f_line_rel l : seg_rel R_lineno l (fst (f_line l)).
Proof.
  unfold f_line, line_at.
  pose proof (rw_first_seg R_lineno [kw_line] (fun _ => "0") l) as H.
  destruct (rw_go (first_tok [kw_line]) (fun _ : string => "0") 0 l) as [o ts]. cbn [fst] in *.
  apply H.
  - cbn. intros [E|[]]. discriminate.
  - intros t [<-|[]]. now split.
Qed.
Lemma f_line_id l : contains kw_line l = false -> f_line l = (l, []).
Proof.
  intro H. unfold f_line, line_at.
  rewrite (rw_go_id (first_tok [kw_line]) _ l); [reflexivity|].
  apply has_tok_first_false. intros t [<-|[]]. exact H.
Qed.

(** * rule 4 *)
Lemma starts_ci_self p s m r : starts_ci p s = Some (m, r) -> forall x, starts_ci p (m ++ x) = Some (m, x).
Proof.
  revert s m. induction p as [|a p IH]; intros s m H x; cbn in *.
  - inversion H. reflexivity.
  - destruct s as [|b s]; [discriminate|].
    destruct (Ascii.eqb a (lower_ascii b)) eqn:E; [|discriminate].
    destruct (starts_ci p s) as [[m' r']|] eqn:S; [|discriminate].
    inversion H; subst. cbn. rewrite E. now rewrite (IH _ _ S x).
Qed.

Lemma contains_ci_mid p a b c : contains_ci p b = true -> contains_ci p (a ++ b ++ c) = true.
Proof.
  intro H. destruct (contains_ci p (a ++ b ++ c)) eqn:E; [reflexivity|].
  apply contains_ci_app_r in E. apply contains_ci_app_l in E. congruence.
Qed.

Lemma conv_body_app s cv rest : conv_body s = Some (cv, rest) -> s = cv ++ rest /\ contains_ci "convert=" cv = true.
Proof.
  unfold conv_body, span_ws. destruct (span is_ws s) as [w r] eqn:S. apply span_app in S. subst s.
  destruct (starts_ci "convert=" r) as [[m1 r1]|] eqn:K; [|discriminate].
  destruct r1 as [|q1 r2]; [discriminate|].
  destruct (is_quote q1); [|discriminate].
  destruct (match starts_ci "big" r2 with Some x => Some x | None => starts_ci "little" r2 end) as [[m2 r3]|] eqn:B; [|discriminate].
  destruct (starts_ci "_endian" r3) as [[m3 r4]|] eqn:N; [|discriminate].
  destruct r4 as [|q2 r5]; [discriminate|].
  destruct (is_quote q2); [|discriminate].
  destruct (span is_ws r5) as [w2 r6] eqn:S2. apply span_app in S2. subst r5.
  intro H. inversion H; subst.
  pose proof (starts_ci_self _ _ _ _ K) as Kself.
  apply starts_ci_app in K. apply starts_ci_app in N.
  assert (r2 = m2 ++ r3) as ->.
  { destruct (starts_ci "big" r2) as [[x y]|] eqn:B1.
    - inversion B; subst. now apply starts_ci_app in B1.
    - now apply starts_ci_app in B. }
  subst. split; [now norm|].
  apply contains_ci_intro. now rewrite Kself.
Qed.

Lemma conv_at_app s cv rest : conv_at s = Some (cv, rest) -> s = cv ++ rest /\ contains_ci "convert=" cv = true.
Proof.
  unfold conv_at. destruct s as [|c r]; [apply conv_body_app|].
  destruct (Ascii.eqb c ","); [|apply conv_body_app].
  destruct (conv_body r) as [[cv' rest']|] eqn:B; [|apply conv_body_app].
  intro H. inversion H; subst. apply conv_body_app in B. destruct B as [-> Hc].
  split; [reflexivity|now apply contains_ci_cons].
Qed.

Lemma find_conv_app s a cv rest : find_conv s = Some (a, cv, rest) -> s = a ++ cv ++ rest /\ contains_ci "convert=" cv = true.
Proof.
  revert a. induction s as [|c s IH]; intros a H; cbn [find_conv] in H.
  - destruct (conv_at "") as [[cv' rest']|] eqn:C; [|discriminate]. inversion H; subst. exact (conv_at_app _ _ _ C).
  - destruct (conv_at (String c s)) as [[cv' rest']|] eqn:C.
    + inversion H; subst. exact (conv_at_app _ _ _ C).
    + destruct (is_nl c); [discriminate|].
      destruct (find_conv s) as [[[a' cv'] rest']|] eqn:F; [|discriminate]. inversion H; subst.
      destruct (IH _ eq_refl) as [-> Hc]. split; [reflexivity|exact Hc].
Qed.
Lemma find_conv_none s : contains_ci "convert=" s = false -> find_conv s = None.
Proof.
  intro H. destruct (find_conv s) as [[[a cv] rest]|] eqn:F; [|reflexivity].
  apply find_conv_app in F. destruct F as [-> Hc]. rewrite (contains_ci_mid _ a cv rest Hc) in H. discriminate.
Qed.

Lemma open_head_app l w op r3 : open_head l = Some (w, op, r3) -> l = w ++ op ++ r3.
Proof.
  unfold open_head, span_ws. destruct (span is_ws l) as [w0 r] eqn:S. apply span_app in S. subst l.
  destruct (starts_ci "open" r) as [[m r1]|] eqn:K; [|discriminate]. apply starts_ci_app in K. subst r.
  destruct (span is_ws r1) as [w1 r2] eqn:S1. apply span_app in S1. subst r1.
  destruct r2 as [|c r3']; [discriminate|]. destruct (Ascii.eqb c "("); [|discriminate].
  intro H. inversion H; subst. now norm.
Qed.

Lemma conv_match_app l g tail : conv_match l = Some (g, tail) ->
  l = cg_ws g ++ cg_pre g ++ cg_convert g ++ cg_post g ++ tail /\ (tail = "" \/ tail = String NL "")
  /\ contains_ci "convert=" (cg_convert g) = true.
Proof.
  unfold conv_match. destruct (open_head l) as [[[w op] r3]|] eqn:O; [|discriminate].
  apply open_head_app in O. subst l.
  destruct (find_conv r3) as [[[a cv] rest]|] eqn:F; [|discriminate].
  apply find_conv_app in F. destruct F as [-> Hc].
  destruct (split_eol rest) as [[post tl]|] eqn:E; [|discriminate].
  apply split_eol_app in E. destruct E as [-> Ht].
  intro H. inversion H; subst. cbn. split; [now norm|]. split; assumption.
Qed.
Lemma conv_match_none l : contains_ci "convert=" l = false -> conv_match l = None.
Proof.
  intro H. unfold conv_match. destruct (open_head l) as [[[w op] r3]|] eqn:O; [|reflexivity].
  apply open_head_app in O. subst l. apply contains_ci_app_r in H. apply contains_ci_app_r in H.
  now rewrite (find_conv_none _ H).
Qed.
Lemma f_conv_id l : contains_ci "convert=" l = false -> f_conv l = (l, []).
Proof. intro H. unfold f_conv. now rewrite (conv_match_none _ H). Qed.

(** * rule 5 *)
Lemma key_body_app x k0 r0 : key_body x = Some (k0, r0) -> x = k0 ++ r0 /\ contains_ci "newunit=" k0 = true.
Proof.
  unfold key_body, span_ws. destruct (span is_ws x) as [w r] eqn:S. apply span_app in S. subst x.
  destruct (starts_ci "newunit=" r) as [[m r1]|] eqn:K; [|discriminate].
  intro H. inversion H; subst. pose proof (starts_ci_self _ _ _ _ K "") as Ks.
  apply starts_ci_app in K. subst r. split; [now norm|].
  rewrite sapp_nil_r in Ks. apply contains_ci_intro. now rewrite Ks.
Qed.
Lemma key_at_app s k rest : key_at s = Some (k, rest) -> s = k ++ rest /\ contains_ci "newunit=" k = true.
Proof.
  unfold key_at. destruct s as [|c r]; [apply key_body_app|].
  destruct (Ascii.eqb c ","); [|apply key_body_app].
  destruct (key_body r) as [[k' rest']|] eqn:E; [|apply key_body_app].
  intro H. inversion H; subst. apply key_body_app in E. destruct E as [-> Hc]. split; [reflexivity|now apply contains_ci_cons].
Qed.

Lemma val_split_app s v r : val_split s = Some (v, r) -> s = v ++ r.
Proof.
  revert v. induction s as [|c s IH]; intros v H; cbn [val_split] in H; [discriminate|].
  destruct (is_term c); [inversion H; reflexivity|].
  destruct (is_nl c); [discriminate|].
  destruct (val_split s) as [[v' r']|]; [|discriminate]. inversion H; subst. cbn. now rewrite (IH _ eq_refl).
Qed.

Lemma nu_fin_app d x d' k v a2 tail : nu_fin d x = Some (d', k, v, a2, tail) ->
  d' = d /\ x = k ++ v ++ a2 ++ tail /\ (tail = "" \/ tail = String NL "") /\ contains_ci "newunit=" k = true.
Proof.
  unfold nu_fin. destruct (key_at x) as [[k0 r]|] eqn:K; [|discriminate].
  apply key_at_app in K. destruct K as [-> Hc].
  destruct (val_split r) as [[v0 r2]|] eqn:V; [|discriminate]. apply val_split_app in V. subst r.
  destruct (split_eol r2) as [[a20 tl]|] eqn:E; [|discriminate]. apply split_eol_app in E. destruct E as [-> Ht].
  intro H. inversion H; subst. repeat split; try assumption.
Qed.

Lemma nu_tail_app s d k v a2 tail : nu_tail s = Some (d, k, v, a2, tail) ->
  s = ostr d ++ k ++ v ++ a2 ++ tail /\ (tail = "" \/ tail = String NL "") /\ contains_ci "newunit=" k = true.
Proof.
  unfold nu_tail.
  destruct s as [|c r].
  - intro H. apply nu_fin_app in H. destruct H as [-> [-> [Ht Hc]]]. cbn. auto.
  - destruct (Ascii.eqb c ",") eqn:EC.
    + destruct (nu_fin (Some (String c "")) r) as [[[[[d0 k0] v0] a20] tl0]|] eqn:F.
      * intro H. inversion H; subst. apply nu_fin_app in F. destruct F as [Hd [Hx [Ht Hc]]]. subst. cbn.
        apply ascii_eqb_true in EC. subst c. repeat split; auto.
      * intro H. apply nu_fin_app in H. destruct H as [-> [-> [Ht Hc]]]. cbn. auto.
    + intro H. apply nu_fin_app in H. destruct H as [-> [-> [Ht Hc]]]. cbn. auto.
Qed.

Lemma find_nu_app s a d k v a2 tail : find_nu s = Some (a, (d, k, v, a2, tail)) ->
  s = a ++ ostr d ++ k ++ v ++ a2 ++ tail /\ (tail = "" \/ tail = String NL "") /\ contains_ci "newunit=" k = true.
Proof.
  revert a. induction s as [|c s IH]; intros a H; cbn [find_nu] in H.
  - destruct (nu_tail "") as [x|] eqn:N; [|discriminate]. inversion H; subst. exact (nu_tail_app _ _ _ _ _ _ N).
  - destruct (nu_tail (String c s)) as [x|] eqn:N.
    + inversion H; subst. exact (nu_tail_app _ _ _ _ _ _ N).
    + destruct (is_nl c); [discriminate|].
      destruct (find_nu s) as [[a' x]|] eqn:F; [|discriminate]. inversion H; subst.
      destruct (IH _ eq_refl) as [-> Hr]. split; [reflexivity|exact Hr].
Qed.

Lemma nu_match_app l g tail : nu_match l = Some (g, tail) ->
  l = ng_ws g ++ ng_open g ++ ng_args1 g ++ ostr (ng_delim g) ++ ng_key g ++ ng_val g ++ ng_args2 g ++ tail
  /\ (tail = "" \/ tail = String NL "") /\ contains_ci "newunit=" (ng_key g) = true.
Proof.
  unfold nu_match. destruct (open_head l) as [[[w op] r3]|] eqn:O; [|discriminate].
  apply open_head_app in O. subst l.
  destruct (find_nu r3) as [[a1 [[[[d k] v] a2] tl]]|] eqn:F; [|discriminate].
  apply find_nu_app in F. destruct F as [-> [Ht Hc]].
  intro H. inversion H; subst. cbn. split; [reflexivity|]. split; assumption.
Qed.
Lemma nu_match_none l : contains_ci "newunit=" l = false -> nu_match l = None.
Proof.
  intro H. destruct (nu_match l) as [[g tail]|] eqn:M; [|reflexivity].
  apply nu_match_app in M. destruct M as [-> [_ Hc]].
  do 4 apply contains_ci_app_r in H.
  apply contains_ci_app_l in H. congruence.
Qed.
Lemma f_nu_id l : contains_ci "newunit=" l = false -> f_nu l = (l, []).
Proof. intro H. unfold f_nu. now rewrite (nu_match_none _ H). Qed.

(** * rule 6 *)
Definition kw_ypp : string := "ypp""".

Lemma fypp_end_contains s : fypp_end s = true -> contains kw_ypp s = true.
Proof.
  unfold fypp_end. destruct (starts ".fypp""" s) as [r|] eqn:A.
  - intros _. apply starts_app in A. subst s. apply (contains_intro kw_ypp ".f" r).
  - destruct (starts ".hypp""" s) as [r|] eqn:B; [|discriminate].
    intros _. apply starts_app in B. subst s. apply (contains_intro kw_ypp ".h" r).
Qed.
Lemma fypp_core_app s a : fypp_core s = Some a -> exists b, s = a ++ b /\ fypp_end b = true.
Proof.
  revert a. induction s as [|c s IH]; intros a H; cbn [fypp_core] in H.
  - destruct (fypp_end "") eqn:E; [|discriminate]. inversion H; subst. now exists "".
  - destruct (fypp_end (String c s)) eqn:E.
    + inversion H; subst. now exists (String c s).
    + destruct (is_nl c); [discriminate|].
      destruct (fypp_core s) as [a'|] eqn:F; [|discriminate]. inversion H; subst.
      destruct (IH _ eq_refl) as [b [-> Hb]]. now exists b.
Qed.
Lemma fypp_core_none s : contains kw_ypp s = false -> fypp_core s = None.
Proof.
  intro H. destruct (fypp_core s) as [a|] eqn:F; [|reflexivity].
  apply fypp_core_app in F. destruct F as [b [-> Hb]].
  apply contains_app_r in H. apply fypp_end_contains in Hb. congruence.
Qed.
Lemma f_fypp_id l : contains kw_ypp l = false -> f_fypp l = (l, []).
Proof. intro H. unfold f_fypp. now rewrite (fypp_core_none _ H). Qed.

Lemma fypp_find_app s a : fypp_find s = Some a -> exists m, s = a ++ m /\ fypp_head m = true.
Proof.
  revert a. induction s as [|c s IH]; intros a H; cbn [fypp_find] in H; [discriminate|].
  destruct (fypp_head (String c s)) eqn:E.
  - inversion H; subst. now exists (String c s).
  - destruct (fypp_find s) as [a'|] eqn:F; [|discriminate]. inversion H; subst.
    destruct (IH _ eq_refl) as [m [-> Hm]]. now exists m.
Qed.

Definition R_fypp (l l' : string) : Prop :=
  l' = l \/ exists a m, l = a ++ m /\ l' = a /\ is_some (starts "# " m) = true /\ contains kw_ypp m = true.

Lemma f_fypp_rel l : R_fypp l (fst (f_fypp l)).
Proof.
  unfold f_fypp. destruct (fypp_core l) as [core|] eqn:C; [|now left].
  destruct (fypp_find core) as [before|] eqn:F; [|now left].
  right. cbn [fst]. apply fypp_core_app in C. destruct C as [b [-> Hb]].
  apply fypp_find_app in F. destruct F as [m [-> Hm]].
  exists before, (m ++ b). split; [now norm|]. split; [reflexivity|]. split.
  - destruct m as [|x [|y [|z m]]]; try discriminate. cbn in Hm.
    destruct (Ascii.eqb x "#") eqn:E1; [|discriminate]. destruct (Ascii.eqb y " ") eqn:E2; [|discriminate].
    apply ascii_eqb_true in E1. apply ascii_eqb_true in E2. subst. reflexivity.
  - apply fypp_end_contains in Hb. destruct (contains kw_ypp (m ++ b)) eqn:E; [reflexivity|].
    apply contains_app_r in E. congruence.
Qed.

(** * relations for rules 4 and 5 *)
Definition R_conv (l l' : string) : Prop :=
  l' = l \/ exists w pre cv post tail,
     l = w ++ pre ++ cv ++ post ++ tail /\ l' = w ++ pre ++ post ++ tail /\
     (tail = "" \/ tail = String NL "") /\ contains_ci "convert=" cv = true.
Definition R_nu (l l' : string) : Prop :=
  l' = l \/ exists w op a1 d k v a2 tail,
     l = w ++ op ++ a1 ++ d ++ k ++ v ++ a2 ++ tail /\ l' = w ++ op ++ v ++ d ++ a1 ++ a2 ++ tail /\
     (tail = "" \/ tail = String NL "") /\ (d = "" \/ d = ",") /\ contains_ci "newunit=" k = true.

Lemma f_conv_rel l : R_conv l (fst (f_conv l)).
Proof.
  unfold f_conv. destruct (conv_match l) as [[g tail]|] eqn:M; [|now left].
  right. apply conv_match_app in M. destruct M as [E [Ht Hc]].
  exists (cg_ws g), (cg_pre g), (cg_convert g), (cg_post g), tail. cbn [fst]. auto.
Qed.

Lemma nu_delim_shape l g tail : nu_match l = Some (g, tail) -> ng_delim g = None \/ ng_delim g = Some ",".
Proof.
  unfold nu_match. destruct (open_head l) as [[[w op] r3]|]; [|discriminate].
  destruct (find_nu r3) as [[a1 [[[[d k] v] a2] tl]]|] eqn:F; [|discriminate].
  intro H. inversion H; subst. cbn. clear H.
  revert a1 F. induction r3 as [|c s IH]; intros a1 F; cbn [find_nu] in F.
  - destruct (nu_tail "") as [x|] eqn:N; [|discriminate]. inversion F; subst.
    unfold nu_tail in N. apply nu_fin_app in N. destruct N as [-> _]. now left.
  - destruct (nu_tail (String c s)) as [x|] eqn:N.
    + inversion F; subst. unfold nu_tail in N.
      destruct (Ascii.eqb c ",") eqn:EC.
      * apply ascii_eqb_true in EC. subst c.
        destruct (nu_fin (Some ",") s) as [[[[[d0 k0] v0] a20] tl0]|] eqn:G.
        -- inversion N; subst. apply nu_fin_app in G. destruct G as [-> _]. now right.
        -- apply nu_fin_app in N. destruct N as [-> _]. now left.
      * apply nu_fin_app in N. destruct N as [-> _]. now left.
    + destruct (is_nl c); [discriminate|].
      destruct (find_nu s) as [[a' x]|] eqn:F'; [|discriminate]. inversion F; subst. now apply (IH a').
Qed.

Lemma f_nu_rel l : R_nu l (fst (f_nu l)).
Proof.
  unfold f_nu. destruct (nu_match l) as [[g tail]|] eqn:M; [|now left].
  right. pose proof (nu_delim_shape _ _ _ M) as Hd. apply nu_match_app in M. destruct M as [E [Ht Hc]].
  exists (ng_ws g), (ng_open g), (ng_args1 g), (ostr (ng_delim g)), (ng_key g), (ng_val g), (ng_args2 g), tail.
  cbn [fst]. repeat split; try assumption.
  destruct Hd as [->| ->]; cbn; auto.
Qed.
