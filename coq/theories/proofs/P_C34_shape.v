(** P_C34_shape.v — explicit argument shapes: one call.

    The callee [k] has assumed-shape array dummies; the rewrite [es_proc] gives them explicit dimensions over new
    integer dummies [news] (appended to the dummy list) and the call passes the caller's variables of the same
    names.  Under the dynamic condition [es_match] (in the caller, at the call, the explicit dimensions evaluate
    to [1 : extent] of the actual) the two calls give the same result. *)
From Coq Require Import ZArith List Bool String Ascii Lia.
From LV Require Import Base.Expr Base.MiniF models.M_C34 proofs.P_C34_sim.
Import ListNotations.
Open Scope Z_scope.

(** the body of the routine is untouched and the new dummies are passed the caller's variables of the same name *)
Lemma es_body_unchanged sh news p : rp_body (es_proc sh news p) = rp_body p.
Proof. reflexivity. Qed.

(* ================================================================================================ *)
(** * 0. small list / table helpers *)

Lemma mem_s_true l x : mem_s l x = true <-> In x l.
Proof.
  unfold mem_s. rewrite existsb_exists. split.
  - intros [y [Hy E]]. apply String.eqb_eq in E. now subst.
  - intros H. exists x. split; [assumption|apply String.eqb_refl].
Qed.

Lemma mem_s_false l x : mem_s l x = false -> ~ In x l.
Proof. intros H Hin. apply mem_s_true in Hin. congruence. Qed.

Lemma combine_app' {A B} (l1 : list A) (l1' : list B) l2 l2' : List.length l1 = List.length l1' ->
  combine (l1 ++ l2) (l1' ++ l2') = combine l1 l1' ++ combine l2 l2'.
Proof.
  revert l1'. induction l1 as [|a l1 IH]; intros [|b l1'] H; try discriminate H; cbn [app combine]; [reflexivity|].
  f_equal. apply IH. now injection H.
Qed.

Lemma assoc_s_in {A} (l : list (string * A)) z v : assoc_s l z = Some v -> In (z, v) l.
Proof.
  induction l as [|[x w] l IH]; cbn [assoc_s]; [discriminate|].
  destruct (String.eqb x z) eqn:E.
  - intros H. injection H as ->. apply String.eqb_eq in E. subst. now left.
  - intros H. right. now apply IH.
Qed.

Lemma find_set_same ps k p p' : find_rproc ps k = Some p -> find_rproc (set_rproc ps k p') k = Some p'.
Proof.
  induction ps as [|[g q] ps IH]; cbn [find_rproc set_rproc]; [discriminate|].
  destruct (String.eqb g k) eqn:E; cbn [find_rproc]; rewrite E; [reflexivity|assumption].
Qed.

Lemma find_set_other ps k p' g : g <> k -> find_rproc (set_rproc ps k p') g = find_rproc ps g.
Proof.
  intros Hg. induction ps as [|[h q] ps IH]; cbn [find_rproc set_rproc]; [reflexivity|].
  destruct (String.eqb h k) eqn:E; cbn [find_rproc].
  - apply String.eqb_eq in E. subst h. destruct (String.eqb k g) eqn:E2; [|reflexivity].
    apply String.eqb_eq in E2. congruence.
  - destruct (String.eqb h g); [reflexivity|assumption].
Qed.

(* ================================================================================================ *)
(** * 1. binding only touches cells of the callee's depth *)

Lemma init_scalars_frame d fr s pa : forall s0 s1, init_scalars d fr s pa s0 = Some s1 ->
  (forall l, fst l <> d -> rsv s1 l = rsv s0 l) /\ (forall l i, rav s1 l i = rav s0 l i).
Proof.
  induction pa as [|[[z k] e] pa IH]; intros s0 s1; cbn [init_scalars].
  - intros H; injection H as <-. split; reflexivity.
  - destruct k.
    + destruct (scalar_init fr s e) as [o|]; cbn [obind]; [|discriminate].
      intros H. apply IH in H. destruct H as [H1 H2]. destruct o as [v|]; [|split; assumption].
      split.
      * intros l Hl. rewrite H1 by assumption. cbn [set_rsv rsv]. unfold loc_eqb. cbn [fst snd].
        destruct (Nat.eqb (fst l) d) eqn:E; [apply Nat.eqb_eq in E; contradiction|reflexivity].
      * intros l i. rewrite H2. reflexivity.
    + apply IH.
    + destruct (is_var e); [apply IH|discriminate].
Qed.

Lemma init_read d fr s pa s1 r :
  init_scalars (S d) fr s pa (clear_depth (S d) s) = Some s1 -> (sref_depth r <= d)%nat -> read_s s1 r = read_s s r.
Proof.
  intros H Hr. apply init_scalars_frame in H. destruct H as [H1 H2].
  destruct r as [l|l i]; cbn [read_s sref_depth] in *.
  - rewrite H1 by lia. cbn [clear_depth rsv].
    destruct (Nat.eqb (fst l) (S d)) eqn:E; [apply Nat.eqb_eq in E; lia|reflexivity].
  - rewrite H2. cbn [clear_depth rav].
    destruct (Nat.eqb (fst l) (S d)) eqn:E; [apply Nat.eqb_eq in E; lia|reflexivity].
Qed.

(* ================================================================================================ *)
(** * 2. evaluation only depends on the variables that occur (and, for pure expressions, not on [ev_fun]) *)

Definition funs_eq (c1 c2 : env) : Prop := forall f a, ev_fun c1 f a = ev_fun c2 f a.
Definition vars_eq (c1 c2 : env) (l : list string) : Prop := forall x, In x l -> ev_var c1 x = ev_var c2 x.

Lemma vars_eq_app_l c1 c2 a b : vars_eq c1 c2 (a ++ b) -> vars_eq c1 c2 a.
Proof. intros H x Hx. apply H. apply in_or_app. now left. Qed.
Lemma vars_eq_app_r c1 c2 a b : vars_eq c1 c2 (a ++ b) -> vars_eq c1 c2 b.
Proof. intros H x Hx. apply H. apply in_or_app. now right. Qed.
Lemma vars_eq_incl c1 c2 (a b : list string) : (forall x, In x a -> In x b) -> vars_eq c1 c2 b -> vars_eq c1 c2 a.
Proof. intros Hi H x Hx. apply H, Hi, Hx. Qed.

Lemma Forall_nx c1 c2 (P : expr -> Prop) cs :
  Forall (fun e => (pure_e e = true \/ funs_eq c1 c2) -> vars_eq c1 c2 (names_e e) -> P e) cs ->
  (forallb pure_e cs = true \/ funs_eq c1 c2) -> vars_eq c1 c2 (flat_map names_e cs) -> Forall P cs.
Proof.
  induction 1 as [|a l H _ IH]; intros Hp HN; constructor.
  - apply H.
    + destruct Hp as [Hp|Hp]; [left|now right]. cbn [forallb] in Hp. now apply andb_true_iff in Hp.
    + cbn [flat_map] in HN. eapply vars_eq_app_l; eassumption.
  - apply IH.
    + destruct Hp as [Hp|Hp]; [left|now right]. cbn [forallb] in Hp. now apply andb_true_iff in Hp.
    + cbn [flat_map] in HN. eapply vars_eq_app_r; eassumption.
Qed.

Lemma evalZ_nx c1 c2 : forall e, (pure_e e = true \/ funs_eq c1 c2) -> vars_eq c1 c2 (names_e e) ->
  evalZ c1 e = evalZ c2 e.
Proof.
  induction e using expr_ind'; intros Hp HN; try reflexivity.
  - cbn [evalZ]. rewrite HN; [reflexivity|now left].
  - cbn [evalZ]. rewrite <- (map_id cs) at 2. apply fold_sum_ext. exact (Forall_nx c1 c2 _ cs H Hp HN).
  - cbn [evalZ]. rewrite <- (map_id cs) at 2. apply fold_sum_ext. exact (Forall_nx c1 c2 _ cs H Hp HN).
  - cbn [evalZ]. cbn [names_e] in HN. rewrite IHe1, IHe2; [reflexivity| | | |].
    + destruct Hp as [Hp|Hp]; [left|now right]. cbn [pure_e] in Hp. now apply andb_true_iff in Hp.
    + eapply vars_eq_app_r; eassumption.
    + destruct Hp as [Hp|Hp]; [left|now right]. cbn [pure_e] in Hp. now apply andb_true_iff in Hp.
    + eapply vars_eq_app_l; eassumption.
  - cbn [evalZ]. cbn [names_e] in HN. rewrite IHe1, IHe2; [reflexivity| | | |].
    + destruct Hp as [Hp|Hp]; [left|now right]. cbn [pure_e] in Hp. now apply andb_true_iff in Hp.
    + eapply vars_eq_app_r; eassumption.
    + destruct Hp as [Hp|Hp]; [left|now right]. cbn [pure_e] in Hp. now apply andb_true_iff in Hp.
    + eapply vars_eq_app_l; eassumption.
  - destruct Hp as [Hp|Hp]; [discriminate Hp|].
    rewrite !evalZ_call. apply obind_ext.
    + rewrite <- (map_id args) at 2. apply omap_list_ext.
      apply (Forall_nx c1 c2 _ args H); [now right|].
      intros x Hx. apply HN. cbn [names_e]. now right.
    + intros vs. now rewrite Hp.
Qed.

Lemma expl_bnd_nx c1 c2 len : forall dims acc, (forallb pure_dim dims = true \/ funs_eq c1 c2) ->
  vars_eq c1 c2 (flat_map dim_names dims) -> expl_bnd c1 len dims acc = expl_bnd c2 len dims acc.
Proof.
  induction dims as [|dm dims IH]; intros acc Hp HN; [reflexivity|].
  assert (Hp' : forallb pure_dim dims = true \/ funs_eq c1 c2).
  { destruct Hp as [Hp|Hp]; [left|now right]. cbn [forallb] in Hp. now apply andb_true_iff in Hp. }
  assert (Hpd : pure_dim dm = true \/ funs_eq c1 c2).
  { destruct Hp as [Hp|Hp]; [left|now right]. cbn [forallb] in Hp. now apply andb_true_iff in Hp. }
  cbn [flat_map] in HN.
  pose proof (vars_eq_app_l _ _ _ _ HN) as HNd. pose proof (vars_eq_app_r _ _ _ _ HN) as HN'.
  destruct dm as [lo hi| |lo]; cbn [expl_bnd].
  - cbn [dim_names] in HNd.
    assert (Hlo : pure_e lo = true \/ funs_eq c1 c2).
    { destruct Hpd as [Hpd|Hpd]; [left|now right]. cbn [pure_dim] in Hpd. now apply andb_true_iff in Hpd. }
    assert (Hhi : pure_e hi = true \/ funs_eq c1 c2).
    { destruct Hpd as [Hpd|Hpd]; [left|now right]. cbn [pure_dim] in Hpd. now apply andb_true_iff in Hpd. }
    rewrite (evalZ_nx c1 c2 lo Hlo (vars_eq_app_l _ _ _ _ HNd)).
    rewrite (evalZ_nx c1 c2 hi Hhi (vars_eq_app_r _ _ _ _ HNd)).
    apply obind_ext; [reflexivity|]. intros a. apply obind_ext; [reflexivity|]. intros b.
    now rewrite (IH _ Hp' HN').
  - reflexivity.
  - destruct Hpd as [Hpd|Hpd]; [discriminate Hpd|]. cbn [dim_names] in HNd.
    rewrite (evalZ_nx c1 c2 lo (or_intror Hpd) HNd). reflexivity.
Qed.

Lemma dummy_bnd_nx c1 c2 sq dims : (forallb pure_dim dims = true \/ funs_eq c1 c2) ->
  vars_eq c1 c2 (flat_map dim_names dims) -> dummy_bnd c1 sq dims = dummy_bnd c2 sq dims.
Proof. intros Hp HN. unfold dummy_bnd. destruct (forallb is_shape dims); [reflexivity|]. now apply expl_bnd_nx. Qed.

Definition bnds_names (bs : list (expr * expr)) : list string :=
  flat_map (fun b => names_e (fst b) ++ names_e (snd b)) bs.

Lemma eval_bnds_nx c1 c2 : funs_eq c1 c2 -> forall bs, vars_eq c1 c2 (bnds_names bs) -> eval_bnds c1 bs = eval_bnds c2 bs.
Proof.
  intros HF. induction bs as [|[lo hi] bs IH]; intros HN; [reflexivity|].
  unfold bnds_names in HN. cbn [flat_map fst snd] in HN.
  pose proof (vars_eq_app_l _ _ _ _ HN) as HNd. pose proof (vars_eq_app_r _ _ _ _ HN) as HN'.
  cbn [eval_bnds].
  rewrite (evalZ_nx c1 c2 lo (or_intror HF) (vars_eq_app_l _ _ _ _ HNd)).
  rewrite (evalZ_nx c1 c2 hi (or_intror HF) (vars_eq_app_r _ _ _ _ HNd)).
  now rewrite (IH HN').
Qed.

(* ================================================================================================ *)
(** * 3. the two argument lists *)

Definition es_dims (sh : list (string * list dim)) (z : string) (ds : list dim) : list dim :=
  match assoc_s sh z with Some ds' => if all_shape ds then ds' else ds | None => ds end.
Definition es_kind (sh : list (string * list dim)) (z : string) (k : pkind) : pkind :=
  match k with PArr ds => PArr (es_dims sh z ds) | _ => k end.

Lemma es_param_eq sh z k : es_param sh (z, k) = (z, es_kind sh z k).
Proof.
  unfold es_param, es_kind, es_dims. cbn [fst snd]. destruct k; try reflexivity.
  destruct (assoc_s sh z); [|reflexivity]. destruct (all_shape dims); reflexivity.
Qed.

Lemma init_scalars_es sh d fr s P : forall args s0,
  init_scalars d fr s (combine (map (es_param sh) P) args) s0 = init_scalars d fr s (combine P args) s0.
Proof.
  induction P as [|[z k] P IH]; intros [|e args] s0; cbn [map combine]; try reflexivity.
  rewrite es_param_eq. cbn [init_scalars]. destruct k; cbn [es_kind].
  - apply obind_ext; [reflexivity|]. intros o. apply IH.
  - apply IH.
  - destruct (is_var e); [apply IH|reflexivity].
Qed.

Lemma init_scalars_app d fr s a : forall b s0,
  init_scalars d fr s (a ++ b) s0 = obind (init_scalars d fr s a s0) (fun s1 => init_scalars d fr s b s1).
Proof.
  induction a as [|[[z k] e] a IH]; intros b s0; [reflexivity|]. cbn [app init_scalars]. destruct k.
  - destruct (scalar_init fr s e) as [o|]; cbn [obind]; [apply IH|reflexivity].
  - apply IH.
  - destruct (is_var e); [apply IH|reflexivity].
Qed.

Lemma init_scalars_news d fr s news : forall s0,
  init_scalars d fr s (combine (map (fun x : string => (x, PScal)) news) (map EVar news)) s0 = Some s0.
Proof. induction news as [|z l IH]; intros s0; [reflexivity|]. cbn [map combine init_scalars scalar_init obind]. apply IH. Qed.

Lemma lookup_pa_app z a : forall b,
  lookup_pa z (a ++ b) = match lookup_pa z a with Some x => Some x | None => lookup_pa z b end.
Proof.
  induction a as [|[[x k] e] a IH]; intros b; [reflexivity|]. cbn [app lookup_pa].
  destruct (String.eqb x z); [reflexivity|apply IH].
Qed.

Lemma lookup_pa_es sh z P : forall args,
  lookup_pa z (combine (map (es_param sh) P) args) =
  option_map (fun ke => (es_kind sh z (fst ke), snd ke)) (lookup_pa z (combine P args)).
Proof.
  induction P as [|[x k] P IH]; intros [|e args]; cbn [map combine]; try reflexivity.
  rewrite es_param_eq. cbn [lookup_pa]. destruct (String.eqb x z) eqn:E; [|apply IH].
  apply String.eqb_eq in E. subst. reflexivity.
Qed.

Lemma lookup_pa_news z news :
  lookup_pa z (combine (map (fun x : string => (x, PScal)) news) (map EVar news)) =
  if mem_s news z then Some (PScal, EVar z) else None.
Proof.
  induction news as [|x l IH]; [reflexivity|]. cbn [map combine lookup_pa]. unfold mem_s. cbn [existsb].
  rewrite (String.eqb_sym z x). destruct (String.eqb x z) eqn:E; cbn [orb].
  - apply String.eqb_eq in E. subst. reflexivity.
  - exact IH.
Qed.

Lemma lookup_pa_notin z P : forall args, ~ In z (map fst P) -> lookup_pa z (combine P args) = None.
Proof.
  induction P as [|[x k] P IH]; intros [|e args] H; cbn [combine lookup_pa]; try reflexivity.
  destruct (String.eqb x z) eqn:E.
  - apply String.eqb_eq in E. subst. exfalso. apply H. now left.
  - apply IH. intros Hin. apply H. now right.
Qed.

Lemma arrays_ok_app fr s c a : forall b, arrays_ok fr s c (a ++ b) = arrays_ok fr s c a && arrays_ok fr s c b.
Proof.
  induction a as [|[[z k] e] a IH]; intros b; [reflexivity|]. cbn [app arrays_ok]. destruct k; try apply IH.
  destruct (actual_seq fr s e) as [sq|]; [|reflexivity].
  destruct (dummy_bnd c sq dims) as [bd|]; [|reflexivity].
  rewrite IH. apply andb_assoc.
Qed.

Lemma arrays_ok_news fr s c news :
  arrays_ok fr s c (combine (map (fun x : string => (x, PScal)) news) (map EVar news)) = true.
Proof. induction news as [|z l IH]; [reflexivity|]. cbn [map combine arrays_ok]. exact IH. Qed.

(** the condition of [es_match] on one entry *)
Definition es_entry (fr : frame) (s : rstore) (sh : list (string * list dim)) (z : string) (ds : list dim) (e : expr) : Prop :=
  match assoc_s sh z, actual_seq fr s e with
  | Some ds', Some sq => all_shape ds = true ->
                         expl_bnd (renv fr s) (sq_len sq) ds' 1 = Some (map (fun n => (1, n)) (sq_ext sq))
  | _, _ => True
  end.

Lemma es_match_lookup fr s sh z pa : es_match fr s sh pa ->
  forall ds e, lookup_pa z pa = Some (PArr ds, e) -> es_entry fr s sh z ds e.
Proof.
  induction pa as [|[[x k] e0] pa IH]; cbn [lookup_pa]; [discriminate|].
  destruct k; cbn [es_match].
  - intros Hm ds e. destruct (String.eqb x z); [discriminate|now apply IH].
  - intros [H1 H2] ds e. destruct (String.eqb x z) eqn:E; [|now apply IH].
    intros H. injection H as -> ->. apply String.eqb_eq in E. subst. exact H1.
  - intros Hm ds e. destruct (String.eqb x z); [discriminate|now apply IH].
Qed.

Section ESBind.
  Variable sh : list (string * list dim).
  Variable news : list string.
  Variable fr : frame.
  Variable s : rstore.
  Variables cenv cenv' : env.
  Hypothesis Hsh : forall z ds', assoc_s sh z = Some ds' ->
    forallb pure_dim ds' = true /\ forall x, In x (flat_map dim_names ds') -> In x news.
  Hypothesis HF : funs_eq cenv cenv'.
  Hypothesis HCV : forall x, ~ In x news -> ev_var cenv x = ev_var cenv' x.
  Hypothesis HCN : forall x, In x news -> ev_var cenv' x = ev_var (renv fr s) x.

  Lemma dummy_bnd_es z ds e sq :
    (forall x, In x (flat_map dim_names ds) -> ~ In x news) ->
    actual_seq fr s e = Some sq -> es_entry fr s sh z ds e ->
    dummy_bnd cenv sq ds = dummy_bnd cenv' sq (es_dims sh z ds).
  Proof.
    unfold es_dims, es_entry. intros Hnd Hseq He. rewrite Hseq in He.
    assert (Hsame : dummy_bnd cenv sq ds = dummy_bnd cenv' sq ds).
    { apply dummy_bnd_nx; [now right|]. intros x Hx. apply HCV, Hnd, Hx. }
    destruct (assoc_s sh z) as [ds'|] eqn:Ea; [|exact Hsame].
    destruct (all_shape ds) eqn:Eall; [|exact Hsame].
    destruct (Hsh z ds' Ea) as [Hpure Hnm]. specialize (He eq_refl).
    unfold dummy_bnd at 1. unfold all_shape in Eall. rewrite Eall.
    unfold dummy_bnd. destruct (forallb is_shape ds') eqn:Es; [reflexivity|].
    rewrite <- He. symmetry. apply expl_bnd_nx; [now left|].
    intros x Hx. apply HCN, Hnm, Hx.
  Qed.

  Lemma arrays_ok_es : forall P args,
    (forall q, In q P -> forall x, In x (kind_dim_names (snd q)) -> ~ In x news) ->
    es_match fr s sh (combine P args) ->
    arrays_ok fr s cenv (combine P args) = arrays_ok fr s cenv' (combine (map (es_param sh) P) args).
  Proof.
    induction P as [|[z k] P IH]; intros [|e args] HP Hm; cbn [map combine]; try reflexivity.
    rewrite es_param_eq.
    assert (HP' : forall q, In q P -> forall x, In x (kind_dim_names (snd q)) -> ~ In x news).
    { intros q Hq. apply HP. now right. }
    cbn [combine] in Hm.
    destruct k; cbn [es_kind arrays_ok]; cbn [es_match] in Hm.
    - apply IH; assumption.
    - destruct Hm as [He Hm].
      assert (He' : es_entry fr s sh z dims e) by exact He.
      destruct (actual_seq fr s e) as [sq|] eqn:Eq; [|reflexivity].
      rewrite <- (dummy_bnd_es z dims e sq (HP (z, PArr dims) (or_introl eq_refl)) Eq He').
      destruct (dummy_bnd cenv sq dims); [|reflexivity]. now rewrite (IH args HP' Hm).
    - apply IH; assumption.
  Qed.

  Lemma locals_ok_es : forall arrs,
    (forall l, In l arrs -> forall x, In x (bnds_names (snd l)) -> ~ In x news) ->
    locals_ok cenv arrs = locals_ok cenv' arrs.
  Proof.
    induction arrs as [|[z bs] arrs IH]; intros H; [reflexivity|]. cbn [locals_ok].
    rewrite (eval_bnds_nx cenv cenv' HF bs).
    - destruct (eval_bnds cenv' bs); [|reflexivity]. apply IH. intros l Hl. apply H. now right.
    - intros x Hx. apply HCV. apply (H (z, bs)); [now left|exact Hx].
  Qed.

  Lemma local_aref_es d arrs z :
    (forall l, In l arrs -> forall x, In x (bnds_names (snd l)) -> ~ In x news) ->
    local_aref d cenv arrs z = local_aref d cenv' arrs z.
  Proof.
    intros H. unfold local_aref. destruct (assoc_s arrs z) as [bs|] eqn:E; [|reflexivity].
    apply assoc_s_in in E. rewrite (eval_bnds_nx cenv cenv' HF bs); [reflexivity|].
    intros x Hx. apply HCV. apply (H (z, bs)); [exact E|exact Hx].
  Qed.
End ESBind.

(* ================================================================================================ *)
(** * 4. static facts *)

Lemma es_static_facts sh news p : es_static sh news p = true ->
  (forall x, In x news -> ~ In x (rproc_names p)) /\
  (forall z ds', assoc_s sh z = Some ds' ->
     forallb pure_dim ds' = true /\ forall x, In x (flat_map dim_names ds') -> In x news).
Proof.
  unfold es_static. intros H. apply andb_true_iff in H. destruct H as [H H3].
  apply andb_true_iff in H. destruct H as [_ H2].
  rewrite forallb_forall in H2, H3. split.
  - intros x Hx. specialize (H2 x Hx). apply andb_true_iff in H2. destruct H2 as [_ H2].
    apply negb_true_iff in H2. now apply mem_s_false.
  - intros z ds' Ha. apply assoc_s_in in Ha. specialize (H3 _ Ha). cbn [snd] in H3.
    apply andb_true_iff in H3. destruct H3 as [A B]. split; [exact A|].
    rewrite forallb_forall in B. intros x Hx. apply mem_s_true. now apply B.
Qed.

Lemma rpn_param p q : In q (rp_params p) -> In (fst q) (rproc_names p).
Proof. intros H. unfold rproc_names. apply in_or_app. left. now apply in_map. Qed.
Lemma rpn_param_dim p q x : In q (rp_params p) -> In x (kind_dim_names (snd q)) -> In x (rproc_names p).
Proof.
  intros H Hx. unfold rproc_names. apply in_or_app. right. apply in_or_app. left.
  apply in_flat_map. exists q. now split.
Qed.
Lemma rpn_array_bnd p l x : In l (rp_arrays p) -> In x (bnds_names (snd l)) -> In x (rproc_names p).
Proof.
  intros H Hx. unfold rproc_names. apply in_or_app. right. apply in_or_app. right. apply in_or_app. right.
  apply in_or_app. left. apply in_flat_map. exists l. now split.
Qed.
Lemma rpn_body p x : In x (names (rp_body p)) -> In x (rproc_names p).
Proof. intros H. unfold rproc_names. do 4 (apply in_or_app; right). exact H. Qed.

Lemma no_rec_es sh P :
  forallb (fun q : string * pkind => match snd q with PRec _ => false | _ => true end) P = true ->
  forallb (fun q : string * pkind => match snd q with PRec _ => false | _ => true end) (map (es_param sh) P) = true.
Proof.
  intros H. rewrite forallb_forall in *. intros q Hq. apply in_map_iff in Hq. destruct Hq as [[z k] [<- Hin]].
  specialize (H _ Hin). rewrite es_param_eq. cbn [snd] in *. destruct k; [reflexivity|reflexivity|discriminate H].
Qed.

(* ================================================================================================ *)
(** * 5. the two callee frames *)

Lemma es_bind sh news p d fr s args :
  no_rec p = true -> es_static sh news p = true ->
  List.length args = List.length (rp_params p) ->
  (forall z, In z news -> (sref_depth (fs fr z) <= d)%nat) ->
  es_match fr s sh (combine (rp_params p) args) ->
  match bind (S d) fr s p args, bind (S d) fr s (es_proc sh news p) (args ++ map EVar news) with
  | Some c1, Some c2 => snd c1 = snd c2 /\ frel (fun x => x) (fun x => ~ In x news) (fst c1) (fst c2)
  | None, None => True
  | _, _ => False
  end.
Proof.
  intros Hnr Hst Hlen Hdep Hm.
  destruct (es_static_facts sh news p Hst) as [Hnew Hsh].
  pose proof (rpn_param p) as Hn0. pose proof (rpn_param_dim p) as Hn1. pose proof (rpn_array_bnd p) as Hn2.
  unfold no_rec in Hnr. unfold bind. cbn [es_proc rp_params rp_arrays].
  set (P := rp_params p) in *. set (NP := map (fun x : string => (x, PScal)) news).
  assert (Hl1 : List.length (map (es_param sh) P) = List.length args) by (rewrite map_length; now symmetry).
  assert (Hlen2 : Nat.eqb (List.length (args ++ map EVar news)) (List.length (map (es_param sh) P ++ NP)) = true).
  { unfold NP. rewrite !app_length, !map_length, Hlen. apply Nat.eqb_refl. }
  assert (HFR : forall z, forward_root (combine P args) z = None) by (intros z; apply forward_root_none; exact Hnr).
  assert (HFR' : forall z, forward_root (combine (map (es_param sh) P ++ NP) (args ++ map EVar news)) z = None).
  { intros z. apply forward_root_none. rewrite forallb_app. apply andb_true_iff. split.
    - apply no_rec_es. exact Hnr.
    - unfold NP. rewrite forallb_forall. intros q Hq. apply in_map_iff in Hq. destruct Hq as [x [<- _]]. reflexivity. }
  rewrite Hlen2. rewrite Hlen, Nat.eqb_refl. cbn [negb].
  set (pa := combine P args) in *.
  set (pa' := combine (map (es_param sh) P ++ NP) (args ++ map EVar news)) in *.
  assert (Epa' : pa' = combine (map (es_param sh) P) args ++ combine NP (map EVar news)).
  { apply combine_app'. exact Hl1. }
  assert (Einit : forall s0, init_scalars (S d) fr s pa' s0 = init_scalars (S d) fr s pa s0).
  { intros s0. rewrite Epa', init_scalars_app, init_scalars_es. fold pa.
    destruct (init_scalars (S d) fr s pa s0); cbn [obind]; [apply init_scalars_news|reflexivity]. }
  rewrite Einit.
  destruct (init_scalars (S d) fr s pa (clear_depth (S d) s)) as [s0|] eqn:E0; cbn [obind]; [|exact I].
  assert (Hlk : forall z, ~ In z news ->
            lookup_pa z pa' = option_map (fun ke => (es_kind sh z (fst ke), snd ke)) (lookup_pa z pa)).
  { intros z Hz. rewrite Epa', lookup_pa_app, lookup_pa_es. fold pa.
    destruct (lookup_pa z pa) as [[k e]|]; cbn [option_map]; [reflexivity|].
    unfold NP. rewrite lookup_pa_news. destruct (mem_s news z) eqn:E; [|reflexivity].
    apply mem_s_true in E. contradiction. }
  assert (Hlkn : forall z, In z news -> lookup_pa z pa' = Some (PScal, EVar z)).
  { intros z Hz. rewrite Epa', lookup_pa_app, lookup_pa_es. rewrite (lookup_pa_notin z P args).
    - cbn [option_map]. unfold NP. rewrite lookup_pa_news. apply mem_s_true in Hz. now rewrite Hz.
    - intros Hin. apply (Hnew z Hz). apply in_map_iff in Hin. destruct Hin as [q [<- Hq]]. now apply Hn0. }
  set (fsc := callee_fs (S d) fr s pa). set (fsc' := callee_fs (S d) fr s pa').
  assert (HV : forall x, ~ In x news -> fsc x = fsc' x).
  { intros x Hx. unfold fsc, fsc', callee_fs. rewrite (Hlk x Hx), HFR, HFR'.
    destruct (lookup_pa x pa) as [[k e]|]; cbn [option_map fst snd]; [|reflexivity].
    destruct k; reflexivity. }
  assert (HVn : forall x, In x news -> fsc' x = fs fr x).
  { intros x Hx. unfold fsc', callee_fs. rewrite (Hlkn x Hx). reflexivity. }
  set (cenv := scal_env fsc s0). set (cenv' := scal_env fsc' s0).
  assert (HF : funs_eq cenv cenv') by (intros g a; reflexivity).
  assert (HCV : forall x, ~ In x news -> ev_var cenv x = ev_var cenv' x).
  { intros x Hx. unfold cenv, cenv'. cbn [scal_env ev_var]. now rewrite (HV x Hx). }
  assert (HCN : forall x, In x news -> ev_var cenv' x = ev_var (renv fr s) x).
  { intros x Hx. unfold cenv'. cbn [scal_env ev_var renv]. rewrite (HVn x Hx).
    apply (init_read d fr s pa s0); [exact E0|]. apply Hdep. exact Hx. }
  assert (HPd : forall q, In q P -> forall x, In x (kind_dim_names (snd q)) -> ~ In x news).
  { intros q Hq x Hx Hin. apply (Hnew x Hin). now apply (Hn1 q). }
  assert (HAd : forall l, In l (rp_arrays p) -> forall x, In x (bnds_names (snd l)) -> ~ In x news).
  { intros l Hl x Hx Hin. apply (Hnew x Hin). now apply (Hn2 l). }
  assert (EA : arrays_ok fr s cenv' pa' = arrays_ok fr s cenv pa).
  { rewrite Epa', arrays_ok_app. unfold NP. rewrite arrays_ok_news, andb_true_r. symmetry.
    apply (arrays_ok_es sh news fr s cenv cenv' Hsh HF HCV HCN P args HPd Hm). }
  assert (EL : locals_ok cenv' (rp_arrays p) = locals_ok cenv (rp_arrays p)).
  { symmetry. apply (locals_ok_es news cenv cenv' HF HCV). exact HAd. }
  rewrite EA, EL.
  destruct (arrays_ok fr s cenv pa && locals_ok cenv (rp_arrays p)); [|exact I].
  cbn [fst snd]. split; [reflexivity|]. intros x Hx. cbn [fs fa]. split; [exact (HV x Hx)|].
  unfold callee_fa. rewrite (Hlk x Hx), HFR, HFR'.
  destruct (lookup_pa x pa) as [[k e]|] eqn:El; cbn [option_map fst snd].
  - destruct k; cbn [es_kind]; try apply aref_agree_refl.
    destruct (actual_seq fr s e) as [sq|] eqn:Eq; [|apply aref_agree_refl].
    assert (Hin : In (x, PArr dims) P) by (apply (lookup_pa_in x P args _ e); exact El).
    rewrite <- (dummy_bnd_es sh news fr s cenv cenv' Hsh HF HCV HCN x dims e sq (HPd _ Hin) Eq
                  (es_match_lookup fr s sh x pa Hm dims e El)).
    apply aref_agree_refl.
  - rewrite (local_aref_es news cenv cenv' HF HCV (S d) (rp_arrays p) x HAd). apply aref_agree_refl.
Qed.

(* ================================================================================================ *)
(** * 6. the theorem *)

Theorem explicit_shape_is_semantic_noop ps k p sh news args f d fr s :
  (forall g q, find_rproc ps g = Some q -> no_rec q = true /\ sites (fun g' _ => g' <> k) (rp_body q)) ->
  find_rproc ps k = Some p ->
  es_static sh news p = true ->
  List.length args = List.length (rp_params p) ->
  (forall z, In z news -> (sref_depth (fs fr z) <= d)%nat) ->
  es_match fr s sh (combine (rp_params p) args) ->
  rexec1 (rexec ps f) ps d fr (SCall k args) s =
  rexec1 (rexec (set_rproc ps k (es_proc sh news p)) f) (set_rproc ps k (es_proc sh news p)) d fr (SCall k (args ++ map EVar news)) s.
Proof.
  intros Htab Hk Hst Hlen Hdep Hm.
  destruct (Htab k p Hk) as [Hnr Hsk].
  destruct (es_static_facts sh news p Hst) as [Hnew _].
  set (p' := es_proc sh news p). set (ps' := set_rproc ps k p').
  cbn [rexec1]. rewrite Hk. unfold ps'. rewrite (find_set_same ps k p p' Hk). fold ps'. cbn [obind].
  pose proof (es_bind sh news p d fr s args Hnr Hst Hlen Hdep Hm) as HB. fold p' in HB.
  destruct (bind (S d) fr s p args) as [c1|]; destruct (bind (S d) fr s p' (args ++ map EVar news)) as [c2|];
    try contradiction; [|reflexivity].
  cbn [obind]. destruct HB as [Hs Hfr]. rewrite <- Hs.
  change (rp_body p') with (rp_body p).
  pose proof (coupled_sim ps ps' (fun _ x => x) (fun _ a => a) (fun _ g _ => g <> k) (fun _ _ => True)) as HC.
  rewrite <- (ren_id (rp_body p)) at 2. rewrite <- (tcalls_id (rp_body p)) at 2.
  apply HC; clear HC.
  - intros g. destruct (String.eqb g k) eqn:E.
    + apply String.eqb_eq in E. subst g. rewrite Hk. unfold ps'. rewrite (find_set_same ps k p p' Hk).
      rewrite tcalls_id, ren_id. split; [reflexivity|]. split; [apply ren_ok_id|exact Hsk].
    + assert (Hg : g <> k) by (intros ->; rewrite String.eqb_refl in E; discriminate E).
      unfold ps'. rewrite (find_set_other ps k p' g Hg).
      destruct (find_rproc ps g) as [q|] eqn:Eg; [|exact I].
      rewrite tcalls_id, ren_id. split; [reflexivity|]. split; [apply ren_ok_id|].
      exact (proj2 (Htab g q Eg)).
  - intros g p1 p2 d0 f1 f2 r0 args0 s0 E1 E2 Hok0 Hg Hr _. cbv beta in Hg.
    unfold ps' in E2. rewrite (find_set_other ps k p' g Hg), E1 in E2. injection E2 as <-.
    pose proof (bind_ren d0 r0 f1 f2 s0 p1 args0 (proj1 (Htab g p1 E1)) Hok0) as HB.
    cbv beta. destruct (bind d0 f1 s0 p1 args0) as [b1|]; destruct (bind d0 f2 s0 p1 (map (ren_e r0) args0)) as [b2|].
    + destruct HB as [HB1 HB2].
      * revert Hr. apply frel_weaken. intros x Hx. now left.
      * split; [assumption|]. split; [|exact I]. revert HB2. apply frel_weaken. intros; exact I.
    + apply HB. revert Hr. apply frel_weaken. intros x Hx. now left.
    + apply HB. revert Hr. apply frel_weaken. intros x Hx. now left.
    + exact I.
  - apply ren_ok_id.
  - exact Hsk.
  - revert Hfr. apply frel_weaken. unfold nm. rewrite tcalls_id. intros x Hx Hin.
    apply (Hnew x Hin). apply rpn_body. tauto.
  - exact I.
Qed.

Print Assumptions es_body_unchanged.
Print Assumptions explicit_shape_is_semantic_noop.
