(** C40 — proofs, part 4: do_remove_dead_code is idempotent (model of C32). *)
From Coq Require Import ZArith List Bool String Lia.
From LV Require Import Base.Expr Base.MiniF models.M_C32 models.M_C40 proofs.P_C40_base.
Import ListNotations.
Open Scope Z_scope.
Open Scope list_scope.

(** the local recursion of [dce1] over a body is [dce] *)
Lemma dce_go u : forall l,
  (fix go (l : list stmt) : option (list stmt) :=
     match l with
     | [] => Some []
     | s :: r => match dce1 u s, go r with Some a, Some b => Some (a ++ b) | _, _ => None end
     end) l = dce u l.
Proof. induction l as [|x r IH]; [reflexivity|]. cbn [dce]. now rewrite <- IH. Qed.

Lemma dce1_if u c t e :
  dce1 u (SIf c t e) =
  match (if u then simp_cond false [] c else Some c), dce u t, dce u e with
  | Some c', Some t', Some e' =>
      match c' with
      | ELog true => Some t'
      | ELog false => Some e'
      | _ => if is_elseif e && is_nil e' then None else Some [SIf c' t' e']
      end
  | _, _, _ => None
  end.
Proof. cbn [dce1]. now rewrite !dce_go. Qed.

Lemma dce1_do u v lo hi stp b :
  dce1 u (SDo v lo hi stp b) = match dce u b with Some b' => Some [SDo v lo hi stp b'] | None => None end.
Proof. cbn [dce1]. now rewrite dce_go. Qed.

Lemma dce1_while u c b :
  dce1 u (SWhile c b) = match dce u b with Some b' => Some [SWhile c b'] | None => None end.
Proof. cbn [dce1]. now rewrite dce_go. Qed.

Lemma elseif_nil_false e : is_elseif e && is_nil e = false.
Proof. destruct e as [|[] [|]]; reflexivity. Qed.

Lemma not_lit_match {A} (c : expr) (a b d : A) :
  is_lit c = false -> match c with ELog true => a | ELog false => b | _ => d end = d.
Proof. destruct c; try reflexivity. discriminate. Qed.

(** * normal form => fixed point *)
Lemma dce_fix_list u q :
  Forall (fun s => dce_nf u s = true -> dce1 u s = Some [s]) q -> forallb (dce_nf u) q = true -> dce u q = Some q.
Proof.
  induction 1 as [|s r H _ IH]; intros Hc; [reflexivity|].
  cbn [forallb] in Hc. apply andb_true_iff in Hc. destruct Hc as [H1 H2].
  cbn [dce]. now rewrite (H H1), (IH H2).
Qed.

Lemma cond_nf_simp u c : cond_nf u c = true ->
  (if u then simp_cond false [] c else Some c) = Some c /\ is_lit c = false.
Proof.
  unfold cond_nf. intros H. apply andb_true_iff in H. destruct H as [H1 H2].
  apply negb_true_iff in H1. split; [|exact H1].
  destruct u; [|reflexivity]. cbn [negb orb] in H2. unfold cond_stable in H2.
  destruct (simp_cond false [] c) as [c'|]; [|discriminate]. apply expr_eqb_true in H2. now subst.
Qed.

Lemma dce1_fix u : forall s, dce_nf u s = true -> dce1 u s = Some [s].
Proof.
  induction s using stmt_ind'; intros Hc; try reflexivity.
  - cbn [dce_nf] in Hc. now rewrite dce1_do, (dce_fix_list u b H Hc).
  - cbn [dce_nf] in Hc. now rewrite dce1_while, (dce_fix_list u b H Hc).
  - cbn [dce_nf] in Hc. apply andb_true_iff in Hc. destruct Hc as [Hc H2].
    apply andb_true_iff in Hc. destruct Hc as [H0' H1].
    destruct (cond_nf_simp u c H0') as [Ec Hl].
    rewrite dce1_if, Ec, (dce_fix_list u t H H1), (dce_fix_list u e H0 H2).
    rewrite (not_lit_match c _ _ _ Hl). now rewrite elseif_nil_false.
Qed.

Theorem dce_nf_fix u q : dce_nf_l u q = true -> dce u q = Some q.
Proof. intros H. apply dce_fix_list; [|exact H]. apply Forall_forall. intros s _. apply dce1_fix. Qed.

(** * the output is in normal form *)
Lemma forallb_app' {A} (f : A -> bool) a b : forallb f (a ++ b) = forallb f a && forallb f b.
Proof. apply forallb_app. Qed.

Definition out_nf (u : bool) (q : list stmt) : Prop := (u = true -> conds_stable q = true) -> dce_nf_l u q = true.

Lemma dce_out_list u l :
  Forall (fun s => forall q, dce1 u s = Some q -> out_nf u q) l ->
  forall q, dce u l = Some q -> out_nf u q.
Proof.
  induction 1 as [|s r H _ IH]; intros q E.
  - cbn [dce] in E. inversion E; subst. intros _. reflexivity.
  - cbn [dce] in E. destruct (dce1 u s) as [a|] eqn:E1; [|discriminate].
    destruct (dce u r) as [b|] eqn:E2; [|discriminate]. inversion E; subst.
    intros Hs. unfold dce_nf_l. rewrite forallb_app'. apply andb_true_iff. split.
    + apply (H a eq_refl). intros Hu. specialize (Hs Hu). unfold conds_stable in *.
      rewrite forallb_app' in Hs. now apply andb_true_iff in Hs.
    + apply (IH b eq_refl). intros Hu. specialize (Hs Hu). unfold conds_stable in *.
      rewrite forallb_app' in Hs. now apply andb_true_iff in Hs.
Qed.

Lemma lit_cases (c : expr) : (c = ELog true) \/ (c = ELog false) \/ is_lit c = false.
Proof. destruct c; auto. destruct b; auto. Qed.

Lemma dce1_out u : forall s q, dce1 u s = Some q -> out_nf u q.
Proof.
  induction s using stmt_ind'; intros q E.
  - cbn [dce1] in E. inversion E; subst. intros _. reflexivity.
  - cbn [dce1] in E. inversion E; subst. intros _. reflexivity.
  - rewrite dce1_do in E. destruct (dce u b) as [b'|] eqn:Eb; [|discriminate]. inversion E; subst.
    intros Hs. unfold dce_nf_l. cbn [forallb dce_nf]. rewrite andb_true_r.
    apply (dce_out_list u b H b' Eb). intros Hu. specialize (Hs Hu).
    unfold conds_stable in Hs. cbn [forallb conds_stable_stmt] in Hs. now rewrite andb_true_r in Hs.
  - rewrite dce1_while in E. destruct (dce u b) as [b'|] eqn:Eb; [|discriminate]. inversion E; subst.
    intros Hs. unfold dce_nf_l. cbn [forallb dce_nf]. rewrite andb_true_r.
    apply (dce_out_list u b H b' Eb). intros Hu. specialize (Hs Hu).
    unfold conds_stable in Hs. cbn [forallb conds_stable_stmt] in Hs. now rewrite andb_true_r in Hs.
  - rewrite dce1_if in E.
    destruct (if u then simp_cond false [] c else Some c) as [c'|] eqn:Ec; [|discriminate].
    destruct (dce u t) as [t'|] eqn:Et; [|discriminate].
    destruct (dce u e) as [e'|] eqn:Ee; [|discriminate].
    destruct (lit_cases c') as [L|[L|L]].
    + subst c'. inversion E; subst. apply (dce_out_list u t H q Et).
    + subst c'. inversion E; subst. apply (dce_out_list u e H0 q Ee).
    + rewrite (not_lit_match c' _ _ _ L) in E.
      destruct (is_elseif e && is_nil e'); [discriminate|]. inversion E; subst.
      intros Hs. unfold dce_nf_l. cbn [forallb dce_nf]. rewrite andb_true_r.
      assert (Hs' : u = true -> cond_stable c' = true /\ conds_stable t' = true /\ conds_stable e' = true).
      { intros Hu. specialize (Hs Hu). unfold conds_stable in Hs. cbn [forallb conds_stable_stmt] in Hs.
        rewrite andb_true_r in Hs. apply andb_true_iff in Hs. destruct Hs as [Hs H3].
        apply andb_true_iff in Hs. destruct Hs as [H1 H2]. auto. }
      apply andb_true_iff. split; [apply andb_true_iff; split|].
      * unfold cond_nf. rewrite L. cbn [negb andb]. destruct u; [|reflexivity]. cbn [negb orb]. now apply Hs'.
      * apply (dce_out_list u t H t' Et). intros Hu. now apply Hs'.
      * apply (dce_out_list u e H0 e' Ee). intros Hu. now apply Hs'.
  - cbn [dce1] in E. inversion E; subst. intros _. reflexivity.
  - cbn [dce1] in E. inversion E; subst. intros _. reflexivity.
Qed.

Theorem dce_out_nf u p q : dce u p = Some q -> (u = true -> conds_stable q = true) -> dce_nf_l u q = true.
Proof.
  intros E. apply (dce_out_list u p); [|exact E]. apply Forall_forall. intros s _. apply dce1_out.
Qed.

(** * idempotence *)
Theorem dce_idem_nosimplify p q : dce false p = Some q -> dce false q = Some q.
Proof. intros E. apply dce_nf_fix. apply (dce_out_nf false p q E). discriminate. Qed.

Theorem dce_idem_simplify_partial p q : dce true p = Some q -> conds_stable q = true -> dce true q = Some q.
Proof. intros E Hs. apply dce_nf_fix. apply (dce_out_nf true p q E). intros _. exact Hs. Qed.

(** a non-trivial instance: nested literal conditions are all removed in ONE application *)
Open Scope string_scope.
Example dce_nested_one_pass :
  let p := [SIf (ECmp Clt (EInt 1) (EInt 2))
              [SIf (ECmp Cgt (EVar "n") (EInt 0)) [SIf (ELog true) [SAssign "x" (EInt 1)] [SAssign "x" (EInt 2)]] []]
              [SAssign "y" (EInt 3)]] in
  dce true p = Some [SIf (ECmp Cgt (EVar "n") (EInt 0)) [SAssign "x" (EInt 1)] []]
  /\ conds_stable [SIf (ECmp Cgt (EVar "n") (EInt 0)) [SAssign "x" (EInt 1)] []] = true.
Proof. split; vm_compute; reflexivity. Qed.
