(** C41 — do_remove_unused_vars at unit level: "removed declarations ∩ names still used = ∅" is exactly the
    class [rm_class]; outside of it the real code deletes declarations that are still referenced
    (a DO variable that only lives inside its loop; a variable that only an internal procedure uses). *)
From Coq Require Import ZArith List Bool String Ascii Lia.
From LV Require Import Base.Expr Base.MiniF models.M_C41 proofs.P_C41_base.
From LV Require models.M_C30 models.M_C32.
Import ListNotations.

Lemma klookup_filter_names (rm : list string) env x :
  klookup (filter (fun d : string * kind => negb (mem (fst d) rm)) env) x
  = if mem x rm then None else klookup env x.
Proof.
  induction env as [|[y k] r IH]; cbn.
  - destruct (mem x rm); reflexivity.
  - destruct (mem y rm) eqn:My; cbn.
    + rewrite IH. destruct (String.eqb y x) eqn:E; [|reflexivity].
      apply String.eqb_eq in E. subst. rewrite My. reflexivity.
    + rewrite IH. destruct (String.eqb y x) eqn:E; [|reflexivity].
      apply String.eqb_eq in E. subst. rewrite My. reflexivity.
Qed.

Lemma NoDup_map_filter {A} (f : A -> string) (P : A -> bool) l : NoDup (map f l) -> NoDup (map f (filter P l)).
Proof.
  induction l as [|a r IH]; cbn; intros H; [constructor|].
  inversion H; subst. destruct (P a); cbn; [|apply IH; assumption].
  constructor; [|apply IH; assumption].
  intros Hin. apply H2. apply in_map_iff in Hin. destruct Hin as [b [E Hb]]. apply filter_In in Hb.
  apply in_map_iff. exists b. tauto.
Qed.

Lemma mem_str_mem x l : M_C32.mem_str x l = mem x l.
Proof. reflexivity. Qed.

Lemma removed_not_arg only (u : unit (list stmt)) x :
  In x (removed_vars only u) -> ~ In x (u_args u).
Proof.
  unfold removed_vars, M_C32.unused_locals. intros H. apply filter_In in H. destruct H as [H _].
  apply filter_In in H. destruct H as [_ H]. apply andb_true_iff in H. destruct H as [H _].
  apply negb_true_iff in H. rewrite mem_str_mem in H. apply mem_false in H. exact H.
Qed.

Lemma uses_shapes_filter (P : string * list M_C30.dshape -> bool) ss :
  incl (uses_shapes (filter P ss)) (uses_shapes ss).
Proof.
  unfold uses_shapes. induction ss as [|p r IH]; cbn; [apply incl_refl|].
  destruct (P p); cbn.
  - apply incl_app; [apply incl_appl, incl_refl | apply incl_appr, IH].
  - apply incl_appr, IH.
Qed.

Lemma forallb_names_notin rm us :
  forallb (fun x => negb (mem x rm)) (use_names us) = true -> forall g, In g us -> mem (fst g) rm = false.
Proof.
  intros H g Hg. rewrite forallb_forall in H. apply negb_true_iff. apply H. unfold use_names. apply in_map. exact Hg.
Qed.

Theorem T_rmunused_preserves_well_scoped only (u : unit (list stmt)) :
  well_scoped uses_stmts u -> rm_class only u = true -> well_scoped uses_stmts (T_rmunused only u).
Proof.
  intros [Hn [Ha [Hb [Hs [Hi Hk]]]]] Hc.
  unfold rm_class in Hc. apply andb_true_iff in Hc. destruct Hc as [Hc Hc3].
  apply andb_true_iff in Hc. destruct Hc as [Hc1 Hc2].
  set (rm := removed_vars only u) in *.
  assert (Hkeep : forall x, mem x rm = false ->
            forall k, klookup (u_env u) x = Some k -> klookup (u_env (T_rmunused only u)) x = Some k).
  { intros x Hx k Hl. unfold u_env, T_rmunused in *. cbn. fold rm.
    rewrite klookup_app in *. rewrite klookup_filter_names, Hx. exact Hl. }
  unfold well_scoped. repeat split.
  - unfold T_rmunused. cbn. apply NoDup_map_filter. exact Hn.
  - unfold T_rmunused. cbn. fold rm. intros a Hin. specialize (Ha a Hin).
    apply in_map_iff in Ha. destruct Ha as [[y k] [E Hy]]. cbn in E. subst y.
    apply in_map_iff. exists (a, k). split; [reflexivity|]. apply filter_In. split; [exact Hy|]. cbn.
    apply negb_true_iff. apply mem_false. intros Hr. apply (removed_not_arg only u a Hr). exact Hin.
  - change (u_body (T_rmunused only u)) with (u_body u).
    apply Forall_forall. intros g Hg. rewrite Forall_forall in Hb.
    apply (resolves_keep (u_env u)); [apply Hb; exact Hg|].
    apply Hkeep. apply (forallb_names_notin rm _ Hc1 g Hg).
  - unfold T_rmunused at 2. cbn. fold rm.
    apply Forall_forall. intros g Hg. rewrite Forall_forall in Hs.
    apply (resolves_keep (u_env u)); [apply Hs; apply (uses_shapes_filter _ _ g Hg)|].
    apply Hkeep. apply (forallb_names_notin rm _ Hc3 g Hg).
  - change (u_inner (T_rmunused only u)) with (u_inner u).
    apply Forall_forall. intros g Hg. rewrite Forall_forall in Hi.
    apply (resolves_keep (u_env u)); [apply Hi; exact Hg|].
    apply Hkeep. apply (forallb_names_notin rm _ Hc2 g Hg).
  - unfold T_rmunused at 2. cbn. fold rm.
    apply Forall_forall. intros p Hp. apply filter_In in Hp. destruct Hp as [Hp Hm].
    rewrite Forall_forall in Hk. apply (shape_ok_keep (u_env u)); [apply Hk; exact Hp|].
    apply Hkeep. apply negb_true_iff in Hm. exact Hm.
Qed.

(** [lv_live]: every name of the body is reported by the dataflow analysis, hence never "unused" *)
Lemma existsb_ext_in {A} (f g : A -> bool) l : (forall x, In x l -> f x = g x) -> existsb f l = existsb g l.
Proof.
  induction l as [|a r IH]; cbn; intros H; [reflexivity|].
  rewrite (H a (or_introl eq_refl)), IH; [reflexivity|]. intros x Hx. apply H. right. exact Hx.
Qed.

Lemma lv_live_body_class only (u : unit (list stmt)) :
  lv_live (u_body u) = true ->
  forallb (fun x => negb (mem x (removed_vars only u))) (use_names (uses_stmts (u_body u))) = true.
Proof.
  unfold lv_live. rewrite !forallb_forall. intros H x Hx. specialize (H x Hx).
  apply negb_true_iff. apply mem_false. intros Hr.
  unfold removed_vars in Hr. apply filter_In in Hr. destruct Hr as [Hr _].
  unfold M_C32.unused_locals in Hr. apply filter_In in Hr. destruct Hr as [_ Hr].
  apply andb_true_iff in Hr. destruct Hr as [_ Hr]. apply negb_true_iff in Hr.
  unfold M_C32.used in Hr. apply orb_false_iff in Hr. destruct Hr as [Hr _]. congruence.
Qed.

(** the class is inhabited by a unit that really loses declarations *)
Definition rm_good : unit (list stmt) :=
  mkUnit ["n"%string]
         [("n", KScalar); ("j", KScalar); ("b", KArray 1); ("w", KArray 1); ("z", KScalar)]%string
         [("b", [M_C30.DSize (EInt 10)]); ("w", [M_C30.DSize (EVar "n")])]%string [] []
         [SAssign "j" (EInt 0); SDo "j" (EInt 1) (EVar "n") None [SStore "b" [EVar "j"] (EVar "j")]]%string.

Example T_rmunused_class_inhabited :
  well_scoped uses_stmts rm_good /\ rm_class false rm_good = true /\ lv_live (u_body rm_good) = true
  /\ map fst (u_decls (T_rmunused false rm_good)) = ["n"; "j"; "b"]%string
  /\ map fst (u_decls (T_rmunused true rm_good)) = ["n"; "j"; "b"; "z"]%string.
Proof. split; [apply well_scopedb_spec; vm_compute; reflexivity | vm_compute; repeat split]. Qed.

(** F-C41-rm1: the DO variable [j] only lives inside its loop: the dataflow analysis does not report it,
    remove_only_arrays=False deletes its declaration, the loop still names it *)
Definition rm_loopvar : unit (list stmt) :=
  mkUnit [] [("j", KScalar); ("b", KArray 1)]%string [("b", [M_C30.DSize (EInt 10)])]%string [] []
         [SDo "j" (EInt 1) (EInt 3) None [SStore "b" [EVar "j"] (EVar "j")]]%string.

Theorem T_rmunused_loopvar_refuted :
  exists u, well_scoped uses_stmts u /\ ~ well_scoped uses_stmts (T_rmunused false u).
Proof.
  exists rm_loopvar. split.
  - apply well_scopedb_spec. vm_compute. reflexivity.
  - intros H. apply well_scopedb_spec in H. vm_compute in H. discriminate.
Qed.

(** F-C41-rm2: the array [w] is used only by an internal procedure (host association); the default
    remove_only_arrays=True deletes its declaration *)
Definition rm_host : unit (list stmt) :=
  mkUnit ["n"; "r"]%string [("n", KScalar); ("r", KScalar); ("w", KArray 1)]%string
         [("w", [M_C30.DSize (EInt 5)])]%string []
         [("w", UArr 1); ("n", UAny); ("r", UAny)]%string
         [SCall "inner" []]%string.

Theorem T_rmunused_host_refuted :
  exists u, well_scoped uses_stmts u /\ ~ well_scoped uses_stmts (T_rmunused true u).
Proof.
  exists rm_host. split.
  - apply well_scopedb_spec. vm_compute. reflexivity.
  - intros H. apply well_scopedb_spec in H. vm_compute in H. discriminate.
Qed.
