(** C27 — proofs, part 1: completeness of loop_carried_dependencies on the class; structural facts
    about the FindWrites / FindReads passes. *)
From Coq Require Import ZArith List Bool String Lia.
From LV Require Import Base.Expr Base.MiniF Base.MiniFFacts models.M_C26 models.M_C27
     proofs.P_C26 proofs.P_C26_def proofs.P_C26_use.
Import ListNotations.
Open Scope Z_scope.

(** * Loop-carried dependencies *)
Lemma iters_tr_nth run v d : forall n i s its k t,
  iters_tr run v d n i s = Some its -> nth_error its k = Some t ->
  exists s0 s1 tb, run s0 = Some (s1, tb) /\ t = seqT (wrT (LS v)) tb.
Proof.
  induction n as [|n IH]; intros i s its k t E Hk; cbn [iters_tr] in E.
  - inversion E; subst. destruct k; discriminate.
  - inv_obind E. destruct r as [s1 t1]. cbn [fst snd] in *. inversion E; subst.
    destruct k as [|k]; cbn in Hk.
    + inversion Hk; subst. eauto.
    + eapply IH; eauto.
Qed.

(** the iterations listed by [loop_iters] are those of the run of the loop *)
Lemma do_loop_iters run v d : forall n i s s' t,
  do_loop_tr run v d n i s = Some (s', t) ->
  exists its, iters_tr run v d n i s = Some its /\ List.length its = n /\
              (forall l, In l (fst t) <-> l = LS v \/ exists ti, In ti its /\ In l (fst ti)).
Proof.
  induction n as [|n IH]; intros i s s' t E; cbn [do_loop_tr] in E.
  - inversion E; subst. exists []. repeat split; auto.
    + intros H. apply wrT_w in H. auto.
    + intros [->|[ti [[] _]]]. now apply wrT_w.
  - inv_obind E. destruct r as [s1 t1], r0 as [s2 t2]. cbn [fst snd] in *. inversion E; subst.
    destruct (IH _ _ _ _ E1) as [its [Ei [Hlen Hw]]].
    exists (seqT (wrT (LS v)) t1 :: its). cbn [iters_tr]. rewrite E0. cbn [obind fst snd]. rewrite Ei. cbn [obind].
    split; [reflexivity|]. split; [cbn; now rewrite Hlen|].
    intros l. rewrite seqT_w, Hw. split.
    + intros [H|[H|[ti [H1 H2]]]]; auto.
      * right. exists (seqT (wrT (LS v)) t1). split; [now left|exact H].
      * right. exists ti. split; [now right|exact H2].
    + intros [H|[ti [[<-|H1] H2]]]; auto. right. right. eauto.
Qed.

Lemma loop_iters_of_run ps f v lo hi stp body s s' t :
  step_tr ps (exec_tr ps f) (SDo v lo hi stp body) s = Some (s', t) ->
  exists its, loop_iters ps f v lo hi stp body s = Some its /\
              (forall l, In l (fst t) <-> l = LS v \/ exists ti, In ti its /\ In l (fst ti)).
Proof.
  unfold step_tr, loop_iters. intros E. inv_obind E. rewrite E0, E1, E2. cbn [obind].
  destruct (r1 =? 0); [discriminate|]. inv_obind E. destruct r2 as [s2 t2]. inversion E; subst.
  destruct (do_loop_iters _ _ _ _ _ _ _ _ E3) as [its [Ei [_ Hw]]]. exists its. split; [exact Ei|].
  intros l. rewrite seqT_w, <- Hw. cbn. tauto.
Qed.

Section Lcd.
  Variables (mw : musts) (ps : procs) (sg : sigs).
  Hypothesis Hok : sigs_ok mw ps sg = true.

  Theorem lcd_complete_on_class f v lo hi stp body s its x :
    loop_iters ps f v lo hi stp body s = Some its ->
    definite_stmt mw ps sg (SDo v lo hi stp body) = true -> dsafe sg body = true ->
    carried x its -> ~ In x (dovars body) ->
    In x (lcd sg (SDo v lo hi stp body)).
  Proof.
    intros E Hd Hs [j [k [tj [tk [l [Hjk [Ej [Ek [Hw [Hr Hx]]]]]]]]]] Hnv.
    unfold loop_iters in E. inv_obind E. destruct (r1 =? 0); [discriminate|].
    cbn [definite_stmt] in Hd. rewrite !andb_true_iff, !negb_true_iff, !mem_false in Hd.
    destruct Hd as [[Hvb Hva] Hdb]. fold (definite mw ps sg body) in Hdb.
    destruct (iters_tr_nth _ _ _ _ _ _ _ _ _ E Ej) as [s0 [s1 [tb [Rj ->]]]].
    destruct (iters_tr_nth _ _ _ _ _ _ _ _ _ E Ek) as [s2 [s3 [tb' [Rk ->]]]].
    (* the read in iteration k *)
    apply seqT_r in Hr. destruct Hr as [Hr|[Hr Hn]]; [now apply wrT_r in Hr|].
    assert (l <> LS v) as Hlv by (intros ->; apply Hn; now apply wrT_w).
    pose proof (uses_sound_aux mw ps sg Hok _ _ _ _ _ Rk Hdb _ Hr) as HU.
    pose proof (anames_sound ps _ _ _ _ _ Rk l (or_intror Hr)) as HA.
    assert (x <> v) as Hxv.
    { intros ->. destruct l as [y|y i]; cbn [lname] in Hx; subst y; [now apply Hlv|]. cbn in HA. contradiction. }
    (* the write in iteration j *)
    apply seqT_w in Hw. destruct Hw as [Hw|Hw]; [apply wrT_w in Hw; subst l; cbn in Hx; congruence|].
    destruct (defines_sound_aux mw ps sg Hok _ _ _ _ _ Rj Hs _ Hw) as [HD|HD]; rewrite Hx in HD; [|contradiction].
    unfold lcd. apply In_inter. rewrite Hx in HU. split.
    - apply U_do. auto.
    - apply D_do. auto.
  Qed.
End Lcd.

(** * Structural facts about FindReads *)
Definition fa (a : frs) : bool := fst (fst a).
Definition fc (a : frs) : names := snd (fst a).
Definition fd (a : frs) : names := snd a.

Lemma fr_body_cons sg x r a : fr_body sg (x :: r) a = fr_body sg r (fr_stmt sg a x).
Proof. reflexivity. Qed.

Lemma fr_body_app sg a1 a2 a : fr_body sg (a1 ++ a2) a = fr_body sg a2 (fr_body sg a1 a).
Proof. unfold fr_body. apply fold_left_app. Qed.

Record fr_facts (sg : sigs) (dv : names) (nm : bool) (run : frs -> frs) : Prop := {
  ff_act : forall C Rd, fa (run (true, C, Rd)) = true;
  ff_indep : forall act C Rd Rd2, fa (run (act, C, Rd2)) = fa (run (act, C, Rd)) /\ fc (run (act, C, Rd2)) = fc (run (act, C, Rd));
  ff_reads : forall act C Rd n, In n Rd -> ~ In n dv -> In n (fd (run (act, C, Rd)));
  ff_cands : forall act C Rd n, In n (fc (run (act, C, Rd))) -> In n C;
  ff_idle : nm = true -> forall C Rd, run (false, C, Rd) = (false, C, Rd)
}.

Lemma fr_facts_body sg : forall ss,
  Forall (fun st => fr_facts sg (dovars_stmt st) (nomark_stmt st) (fun a => fr_stmt sg a st)) ss ->
  fr_facts sg (dovars ss) (nomark ss) (fr_body sg ss).
Proof.
  induction ss as [|st r IH]; intros HF.
  - constructor; cbn; auto.
  - inversion HF as [|? ? Hst Hr]; subst. specialize (IH Hr). destruct Hst as [A1 B1 C1 D1 E1]. destruct IH as [A2 B2 C2 D2 E2].
    constructor.
    + intros C Rd. rewrite fr_body_cons. specialize (A1 C Rd).
      destruct (fr_stmt sg (true, C, Rd) st) as [[a1 c1] r1]. unfold fa in A1. cbn in A1. subst a1. apply A2.
    + intros act C Rd Rd2. rewrite !fr_body_cons. destruct (B1 act C Rd Rd2) as [Ha Hc].
      destruct (fr_stmt sg (act, C, Rd) st) as [[a1 c1] r1]. destruct (fr_stmt sg (act, C, Rd2) st) as [[a2 c2] r2].
      unfold fa, fc in Ha, Hc. cbn in Ha, Hc. subst a2 c2. apply B2.
    + intros act C Rd n Hn Hd. rewrite fr_body_cons.
      unfold dovars in Hd. cbn [flat_map] in Hd. rewrite in_app_iff in Hd.
      pose proof (C1 act C Rd n Hn) as H1.
      destruct (fr_stmt sg (act, C, Rd) st) as [[a1 c1] r1]. apply C2; [|tauto]. apply H1. tauto.
    + intros act C Rd n Hn. rewrite fr_body_cons in Hn. pose proof (D1 act C Rd n) as H1.
      destruct (fr_stmt sg (act, C, Rd) st) as [[a1 c1] r1]. apply H1. eapply D2; eauto.
    + intros Hnm C Rd. rewrite fr_body_cons. cbn [nomark forallb] in Hnm. apply andb_true_iff in Hnm. destruct Hnm as [N1 N2].
      rewrite (E1 N1). apply (E2 N2).
Qed.

Lemma fr_stmt_do sg act0 C Rd v lo hi stp b :
  fr_stmt sg (act0, C, Rd) (SDo v lo hi stp b) =
  let act := act0 || false in
  let r := fr_body sg b (act, (if act then rem1 v C else C), (if act then Rd ++ inter (bound_vars lo hi stp) C else Rd)) in
  (fa r, fc r, if act then rem1 v (fd r) else fd r).
Proof.
  unfold fr_body. cbn [fr_stmt is_mark]. cbn zeta.
  destruct (fold_left (fr_stmt sg) b _) as [[a2 c2] r2]. reflexivity.
Qed.

Lemma fr_stmt_while sg act0 C Rd c b :
  fr_stmt sg (act0, C, Rd) (SWhile c b) =
  let act := act0 || false in
  fr_body sg b (act, C, (if act then Rd ++ inter (evars c) C else Rd)).
Proof. reflexivity. Qed.

Lemma fr_stmt_if sg act0 C Rd c tb eb :
  fr_stmt sg (act0, C, Rd) (SIf c tb eb) =
  let act := act0 || false in
  let r1 := fr_body sg tb (act, C, (if act then Rd ++ inter (evars c) C else Rd)) in
  let r2 := fr_body sg eb (fa r1, C, fd r1) in
  (fa r2, (if fa r2 then fc r2 ++ fc r1 else C), fd r2).
Proof.
  unfold fr_body. cbn [fr_stmt is_mark]. cbn zeta.
  destruct (fold_left (fr_stmt sg) tb _) as [[a1 c1] r1]. cbn [fa fc fd fst snd].
  destruct (fold_left (fr_stmt sg) eb _) as [[a2 c2] r2]. reflexivity.
Qed.

Definition is_leaf (st : stmt) : bool :=
  match st with SDo _ _ _ _ _ | SWhile _ _ | SIf _ _ _ => false | _ => true end.

Lemma fr_stmt_leaf sg act0 C Rd st :
  is_leaf st = true ->
  fr_stmt sg (act0, C, Rd) st =
  let act := act0 || is_mark st in
  (act, (if act then diff C (fst (du_stmt sg st)) else C), (if act then Rd ++ inter (snd (du_stmt sg st)) C else Rd)).
Proof. destruct st; cbn [is_leaf]; try discriminate; reflexivity. Qed.

Lemma orb_false_r' b : b || false = b.
Proof. now destruct b. Qed.

Lemma fr_facts_stmt sg : forall st, fr_facts sg (dovars_stmt st) (nomark_stmt st) (fun a => fr_stmt sg a st).
Proof.
  induction st using stmt_ind'.
  1, 2, 6, 7:
    (constructor;
     [ intros C Rd; rewrite fr_stmt_leaf by reflexivity; reflexivity
     | intros act C Rd Rd2; rewrite !fr_stmt_leaf by reflexivity; split; reflexivity
     | intros act C Rd n Hn _; rewrite fr_stmt_leaf by reflexivity; cbn [fd snd];
       destruct (act || _); [apply in_app_iff; now left|exact Hn]
     | intros act C Rd n; rewrite fr_stmt_leaf by reflexivity; cbn [fc fst snd];
       destruct (act || _); [rewrite In_diff; tauto|auto]
     | intros Hnm C Rd; rewrite fr_stmt_leaf by reflexivity; cbn [nomark_stmt] in Hnm;
       apply andb_true_iff in Hnm; destruct Hnm as [Hnm _]; apply negb_true_iff in Hnm; rewrite Hnm; reflexivity ]).
  - (* DO *)
    pose proof (fr_facts_body sg b H) as [A B Cc D E].
    constructor.
    + intros C Rd. rewrite fr_stmt_do. cbn. apply A.
    + intros act C Rd Rd2. rewrite !fr_stmt_do. cbn [fa fc fst snd]. rewrite orb_false_r'. apply B.
    + intros act C Rd n Hn Hd. rewrite fr_stmt_do. cbn [fd snd]. rewrite orb_false_r'.
      cbn [dovars_stmt] in Hd. fold (dovars b) in Hd. cbn [In] in Hd.
      destruct act.
      * apply In_rem1. split; [|intros ->; tauto]. apply Cc; [apply in_app_iff; now left|tauto].
      * apply Cc; tauto.
    + intros act C Rd n Hn. rewrite fr_stmt_do in Hn. cbn [fc fst snd] in Hn. rewrite orb_false_r' in Hn.
      apply D in Hn. destruct act; [now apply In_rem1 in Hn|exact Hn].
    + intros Hnm C Rd. rewrite fr_stmt_do. cbn [nomark_stmt is_mark negb andb] in Hnm. fold (nomark b) in Hnm.
      cbn [orb]. rewrite (E Hnm). reflexivity.
  - (* WHILE *)
    pose proof (fr_facts_body sg b H) as [A B Cc D E].
    constructor.
    + intros C Rd. rewrite fr_stmt_while. cbn. apply A.
    + intros act C Rd Rd2. rewrite !fr_stmt_while. cbn zeta. rewrite orb_false_r'. apply B.
    + intros act C Rd n Hn Hd. rewrite fr_stmt_while. cbn zeta. rewrite orb_false_r'.
      cbn [dovars_stmt] in Hd. fold (dovars b) in Hd. apply Cc; [|exact Hd].
      destruct act; [apply in_app_iff; now left|exact Hn].
    + intros act C Rd n Hn. rewrite fr_stmt_while in Hn. now apply D in Hn.
    + intros Hnm C Rd. rewrite fr_stmt_while. cbn [nomark_stmt is_mark negb andb] in Hnm. fold (nomark b) in Hnm.
      cbn [orb]. apply (E Hnm).
  - (* IF *)
    pose proof (fr_facts_body sg t H) as [A1 B1 C1 D1 E1].
    pose proof (fr_facts_body sg e H0) as [A2 B2 C2 D2 E2].
    constructor.
    + intros C Rd. rewrite fr_stmt_if. cbn zeta. cbn [orb fa fst]. rewrite A1. apply A2.
    + intros act C Rd Rd2. rewrite !fr_stmt_if. cbn zeta. rewrite orb_false_r'.
      destruct (B1 act C (if act then Rd ++ inter (evars c) C else Rd) (if act then Rd2 ++ inter (evars c) C else Rd2)) as [Ha Hc].
      revert Ha Hc. unfold frs, names in *.
      destruct (fr_body sg t (act, C, if act then Rd ++ inter (evars c) C else Rd)) as [[a1 c1] r1].
      destruct (fr_body sg t (act, C, if act then Rd2 ++ inter (evars c) C else Rd2)) as [[a2 c2] r2].
      unfold fa, fc. cbn [fst snd]. intros -> ->.
      destruct (B2 a1 C r1 r2) as [Ha' Hc']. revert Ha' Hc'. unfold fd. cbn [fst snd]. unfold frs, names in *.
      destruct (fr_body sg e (a1, C, r1)) as [[a3 c3] r3]. destruct (fr_body sg e (a1, C, r2)) as [[a4 c4] r4].
      unfold fa, fc. cbn [fst snd]. intros -> ->. split; reflexivity.
    + intros act C Rd n Hn Hd. rewrite fr_stmt_if. cbn zeta. rewrite orb_false_r'. cbn [fd snd].
      cbn [dovars_stmt] in Hd. fold (dovars t) in Hd. fold (dovars e) in Hd. rewrite in_app_iff in Hd.
      apply C2; [|tauto]. apply C1; [|tauto]. destruct act; [apply in_app_iff; now left|exact Hn].
    + intros act C Rd n Hn. rewrite fr_stmt_if in Hn. cbn zeta in Hn. cbn [fc fst snd] in Hn.
      destruct (fa (fr_body sg e _)); [|exact Hn].
      apply in_app_iff in Hn. destruct Hn as [Hn|Hn]; [now apply D2 in Hn|now apply D1 in Hn].
    + intros Hnm C Rd. rewrite fr_stmt_if. cbn [nomark_stmt is_mark negb andb] in Hnm.
      fold (nomark t) in Hnm. fold (nomark e) in Hnm. apply andb_true_iff in Hnm. destruct Hnm as [N1 N2].
      cbn zeta. cbn [orb]. rewrite (E1 N1). cbn [fa fd fst snd]. rewrite (E2 N2). reflexivity.
Qed.
