(** C39 — proofs about the model of ParametriseTransformation (M_C39).

    1. [subst_evalZ]/[subst_evalB]: replacing variables by the literals of a dictionary preserves evaluation
       in every environment that gives those variables those values;
    2.-6. the store relation [R], argument passing ([copy_in_sim], [copy_out_sim]), constants as initial assignments;
    7. [sim_fwd]/[sim_bwd]: simulation between the original tree and the transformed tree, by induction on the
       fuel of the run that is given, through DO / DO WHILE / IF / CALL (any depth of the call tree);
    8.-9. the entry point: guards are no-ops for matching inputs ([entry_fwd]/[entry_bwd]); the first failing
       guard takes its abort branch ([guard_triggers_gen]); PARAMETER-declaration and replace-by-value variants
       are equivalent ([replace_eq_decl]);
    12. declare_fixed_value_scalars_as_constants on call-free bodies ([dfv_sound_partial]);
    10.-11. instantiation on the dictionaries the code's propagation computes ([param_preserves]); a witness
       that the statement fails without [uniform_calls] and a non-trivial tree inside the class. *)
From Coq Require Import ZArith List Bool String Lia.
From LV Require Import Base.Expr Base.MiniF Base.MiniFFacts models.M_C39.
Import ListNotations.
Open Scope Z_scope.

(** * 1. substitution of constants in expressions *)
Definition env_rel (D : dict) (r r' : env) : Prop :=
  (forall y, lookup D y = None -> ev_var r y = ev_var r' y) /\
  ev_fun r = ev_fun r' /\
  (forall x v, lookup D x = Some v -> ev_var r x = v).

Lemma evalZ_call r f args :
  evalZ r (ECall f args) =
  obind (omap_list (evalZ r) args) (fun vs => match intrinsic f vs with Some x => x | None => ev_fun r f vs end).
Proof.
  cbn [evalZ]. f_equal. induction args as [|a l IH]; [reflexivity|].
  cbn [omap_list]. rewrite <- IH. reflexivity.
Qed.

Lemma omap_list_ext {A B} (f g : A -> option B) (h : A -> A) l :
  Forall (fun a => f a = g (h a)) l -> omap_list f l = omap_list g (map h l).
Proof. induction 1 as [|a l H _ IH]; cbn; [reflexivity|]. now rewrite H, IH. Qed.

Lemma fold_sum_ext (f g : expr -> option Z) (h : expr -> expr) (op : Z -> Z -> Z) z l :
  Forall (fun a => f a = g (h a)) l ->
  fold_right (fun c acc => obind (f c) (fun v => obind acc (fun a => Some (op v a)))) z l =
  fold_right (fun c acc => obind (g c) (fun v => obind acc (fun a => Some (op v a)))) z (map h l).
Proof. induction 1 as [|a l H _ IH]; cbn; [reflexivity|]. now rewrite H, IH. Qed.

Lemma fold_bool_ext (f g : expr -> option bool) (h : expr -> expr) (op : bool -> bool -> bool) z l :
  Forall (fun a => f a = g (h a)) l ->
  fold_right (fun c acc => obind (f c) (fun v => obind acc (fun a => Some (op v a)))) z l =
  fold_right (fun c acc => obind (g c) (fun v => obind acc (fun a => Some (op v a)))) z (map h l).
Proof. induction 1 as [|a l H _ IH]; cbn; [reflexivity|]. now rewrite H, IH. Qed.

Lemma subst_evalZ D r r' : env_rel D r r' -> forall e, evalZ r e = evalZ r' (subst D e).
Proof.
  intros [H1 [H2 H3]]. induction e using expr_ind'; cbn [subst].
  - reflexivity.
  - reflexivity.
  - destruct (lookup D x) as [v|] eqn:E; cbn [evalZ]; f_equal; [now apply H3|now apply H1].
  - reflexivity.
  - cbn [evalZ]. now apply fold_sum_ext.
  - cbn [evalZ]. now apply fold_sum_ext.
  - cbn [evalZ]. now rewrite IHe1, IHe2.
  - cbn [evalZ]. now rewrite IHe1, IHe2.
  - reflexivity.
  - reflexivity.
  - reflexivity.
  - reflexivity.
  - rewrite !evalZ_call. rewrite (omap_list_ext (evalZ r) (evalZ r') (subst D) args H), H2. reflexivity.
Qed.

Lemma subst_evalB D r r' : env_rel D r r' -> forall e, evalB r e = evalB r' (subst D e).
Proof.
  intros HR. induction e using expr_ind'; cbn [subst]; try reflexivity.
  - destruct (lookup D x); reflexivity.
  - cbn [evalB]. now rewrite !(subst_evalZ D r r' HR).
  - cbn [evalB]. now apply fold_bool_ext.
  - cbn [evalB]. now apply fold_bool_ext.
  - cbn [evalB]. now rewrite IHe.
Qed.

Lemma map_id_Forall {A} (f : A -> A) l : Forall (fun a => f a = a) l -> map f l = l.
Proof. induction 1 as [|a l H _ IH]; cbn; [reflexivity|]. now rewrite H, IH. Qed.

Lemma subst_nil e : subst [] e = e.
Proof.
  induction e using expr_ind'; cbn [subst lookup]; try reflexivity;
    try (now rewrite (map_id_Forall _ _ H)); try (now rewrite IHe1, IHe2); now rewrite IHe.
Qed.

(** * 2. the store relation and [te] *)
Lemma mem_false D x : negb (mem D x) = true -> lookup D x = None.
Proof. unfold mem. destruct (lookup D x); [discriminate|reflexivity]. Qed.

Lemma mem_true D x : mem D x = true -> exists v, lookup D x = Some v.
Proof. unfold mem. destruct (lookup D x) as [v|]; [eauto|discriminate]. Qed.

Lemma mem_lookup_none D x : lookup D x = None -> mem D x = false.
Proof. unfold mem. now intros ->. Qed.

Lemma mem_lookup_some D x v : lookup D x = Some v -> mem D x = true.
Proof. unfold mem. now intros ->. Qed.

Definition dsub (m : pmode) (D : dict) : dict := match m with MReplace => D | MDecl => [] end.

Lemma R_env m D s s' : R m D s s' -> env_rel (dsub m D) (env_st s) (env_st s').
Proof.
  intros [[H1 [H2 H3]] H4]. destruct m; cbn [dsub].
  - repeat split; cbn.
    + intros y _. destruct (lookup D y) as [v|] eqn:E.
      * rewrite (H3 _ _ E). symmetry. now apply H4.
      * now apply H1.
    + now rewrite H2.
    + intros x v E. discriminate.
  - repeat split; cbn; [exact H1|now rewrite H2|exact H3].
Qed.

Lemma te_dsub m D e : te m D e = subst (dsub m D) e.
Proof. destruct m; cbn; [now rewrite subst_nil|reflexivity]. Qed.

Lemma te_evalZ m D s s' e : R m D s s' -> evalZ (env_st s) e = evalZ (env_st s') (te m D e).
Proof. intros H. rewrite te_dsub. apply subst_evalZ. now apply R_env. Qed.

Lemma te_evalB m D s s' e : R m D s s' -> evalB (env_st s) e = evalB (env_st s') (te m D e).
Proof. intros H. rewrite te_dsub. apply subst_evalB. now apply R_env. Qed.

Lemma te_eval_idx m D s s' idx : R m D s s' -> eval_idx s idx = eval_idx s' (map (te m D) idx).
Proof.
  intros H. unfold eval_idx. apply omap_list_ext. apply Forall_forall. intros e _. now apply te_evalZ.
Qed.

Lemma te_var_none m D x : lookup D x = None -> te m D (EVar x) = EVar x.
Proof. intros E. destruct m; cbn; [reflexivity|now rewrite E]. Qed.

Definition is_var (e : expr) : bool := match e with EVar _ => true | _ => false end.

Lemma te_nonvar m D e : is_var e = false -> is_var (te m D e) = false.
Proof. destruct m; cbn; [auto|]. destruct e; cbn; auto. discriminate. Qed.

Lemma R_set_sv m D s s' x v : lookup D x = None -> R m D s s' -> R m D (set_sv x v s) (set_sv x v s').
Proof.
  intros E [[H1 [H2 H3]] H4]. repeat split; cbn.
  - intros y Ey. destruct (String.eqb y x); [reflexivity|now apply H1].
  - exact H2.
  - intros k w Ek. destruct (String.eqb_spec k x) as [->|_]; [congruence|now apply H3].
  - intros Hm k w Ek. destruct (String.eqb_spec k x) as [->|_]; [congruence|now apply H4].
Qed.

Lemma R_set_sv_left m D s s' x v : lookup D x = Some v -> R m D s s' -> R m D (set_sv x v s) s'.
Proof.
  intros E [[H1 [H2 H3]] H4]. repeat split; cbn.
  - intros y Ey. destruct (String.eqb_spec y x) as [->|_]; [congruence|now apply H1].
  - exact H2.
  - intros k w Ek. destruct (String.eqb_spec k x) as [->|_]; [congruence|now apply H3].
  - exact H4.
Qed.

Lemma R_set_av m D s s' a i v : R m D s s' -> R m D (set_av a i v s) (set_av a i v s').
Proof.
  intros [[H1 [H2 H3]] H4]. repeat split; cbn; [exact H1|now rewrite H2|exact H3|exact H4].
Qed.

Lemma R_set_arr m D s s' a g : R m D s s' -> R m D (set_arr a g s) (set_arr a g s').
Proof.
  intros [[H1 [H2 H3]] H4]. repeat split; cbn; [exact H1|now rewrite H2|exact H3|exact H4].
Qed.

Lemma R_obs m D s s' : R m D s s' -> (forall y, lookup D y = None -> sv s y = sv s' y) /\ av s = av s'.
Proof. intros [[H1 [H2 _]] _]. now split. Qed.

(** * 3. small facts about [runs1] that the shared library lacks *)
Lemma runs1_store ps a idx e s i v :
  eval_idx s idx = Some i -> evalZ (env_st s) e = Some v -> runs1 ps (SStore a idx e) s (set_av a i v s).
Proof. intros E1 E2. exists 0%nat. cbn. rewrite E1. cbn. now rewrite E2. Qed.

Lemma runs1_while_false ps c body s : evalB (env_st s) c = Some false -> runs1 ps (SWhile c body) s s.
Proof. intros E. exists 0%nat. cbn. now rewrite E. Qed.

Lemma runs1_while_true ps c body s s1 s2 :
  evalB (env_st s) c = Some true -> runs ps body s s1 -> runs ps [SWhile c body] s1 s2 ->
  runs1 ps (SWhile c body) s s2.
Proof.
  intros E [f1 E1] [f2 E2]. exists (Nat.max f1 f2). cbn. rewrite E. cbn.
  rewrite (exec_fuel_mono ps f1 _ _ _ _ E1 (Nat.le_max_l _ _)). cbn.
  apply (exec_fuel_mono ps f2); [exact E2|apply Nat.le_max_r].
Qed.

Lemma runs1_call ps g args p s c0 c1 :
  find_proc ps g = Some p -> copy_in s (p_params p) args empty_store = Some c0 ->
  runs ps (p_body p) c0 c1 -> runs1 ps (SCall g args) s (copy_out c1 (p_params p) args s).
Proof. intros E1 E2 [f E3]. exists f. cbn. rewrite E1. cbn. rewrite E2. cbn. now rewrite E3. Qed.

Lemma exec_app_inv ps f : forall a b s s',
  exec ps f (a ++ b) s = Some s' -> exists s1, exec ps f a s = Some s1 /\ exec ps f b s1 = Some s'.
Proof.
  induction f as [|f IH]; intros a b s s' E; [discriminate|].
  destruct a as [|st a]; cbn [app] in E.
  - exists s. split; [reflexivity|exact E].
  - rewrite exec_unfold in E. apply obind_some in E. destruct E as [s2 [E1 E2]].
    apply IH in E2. destruct E2 as [s1 [Ea Eb]]. exists s1. split.
    + rewrite exec_unfold, E1. exact Ea.
    + now apply exec_fuel_S.
Qed.

(** * 4. the procedure tables *)
Lemma find_proc_orig A g :
  find_proc (procs_orig A) g = option_map (fun a => proc_orig (a_unit a)) (find_aunit A g).
Proof.
  induction A as [|a A IH]; [reflexivity|]. cbn.
  destruct (String.eqb (u_name (a_unit a)) g); [reflexivity|exact IH].
Qed.

Lemma find_proc_trans_gen m abort A0 A g :
  find_proc (map (fun a => (u_name (a_unit a), proc_trans (transform_aunit A0 m abort a))) A) g =
  option_map (fun a => proc_trans (transform_aunit A0 m abort a)) (find_aunit A g).
Proof.
  induction A as [|a A IH]; [reflexivity|]. cbn.
  destruct (String.eqb (u_name (a_unit a)) g); [reflexivity|exact IH].
Qed.

Lemma find_proc_trans m abort A g :
  find_proc (procs_trans m abort A) g = option_map (fun a => proc_trans (transform_aunit A m abort a)) (find_aunit A g).
Proof. apply find_proc_trans_gen. Qed.

Lemma find_aunit_in A g a : find_aunit A g = Some a -> In a A.
Proof.
  induction A as [|b A IH]; [discriminate|]. cbn.
  destruct (String.eqb (u_name (a_unit b)) g); [intros H; inversion H; now left|intros H; right; now apply IH].
Qed.

Lemma find_aunit_succ A g a : find_aunit A g = Some a -> succ_of A g = true.
Proof.
  unfold succ_of, in_names. induction A as [|b A IH]; [discriminate|]. cbn.
  rewrite (String.eqb_sym g). destruct (String.eqb (u_name (a_unit b)) g); [reflexivity|exact IH].
Qed.

(** * 5. argument passing *)
Definition kparams (Dg : dict) (params : list (string * bool)) := filter (fun p => negb (mem Dg (fst p))) params.
Definition kargs (m : pmode) (Dc : dict) (args : list expr) := map (te m Dc) (filter_args Dc args).

Definition Ipre (Dg : dict) (rem : list string) (c c' : store) : Prop :=
  (forall y, lookup Dg y = None -> sv c y = sv c' y) /\ av c = av c' /\
  (forall d v, lookup Dg d = Some v -> sv c d = v \/ In d rem).

Lemma copy_in_arr s d ps a r c :
  copy_in s ((d, true) :: ps) (a :: r) c =
  match a with EVar x => copy_in s ps r (set_arr d (av s x) c) | _ => None end.
Proof. destruct a; reflexivity. Qed.

Lemma copy_in_sc s d ps a r c :
  copy_in s ((d, false) :: ps) (a :: r) c =
  match evalZ (env_st s) a with Some v => copy_in s ps r (set_sv d v c) | None => None end.
Proof. destruct a; reflexivity. Qed.

Definition orel {A} (P : A -> A -> Prop) (a b : option A) : Prop :=
  match a, b with Some x, Some y => P x y | None, None => True | _, _ => False end.

Lemma copy_in_sim m Dc Dg s s' : R m Dc s s' ->
  forall params args c c', call_ok Dc Dg params args = true -> Ipre Dg (param_names params) c c' ->
    orel (Ipre Dg []) (copy_in s params args c) (copy_in s' (kparams Dg params) (kargs m Dc args) c').
Proof.
  intros HR. induction params as [|[d isarr] ps IH]; intros args c c' Hok HI.
  - destruct args; [|discriminate]. cbn. exact HI.
  - destruct args as [|a r]; [discriminate|]. cbn [call_ok] in Hok.
    apply andb_true_iff in Hok. destruct Hok as [Ha Hok].
    destruct HI as [I1 [I2 I3]].
    assert (Hkeep : forall (c1 c1' : store), mem Dg d = false -> plain_key Dc a = false ->
              Ipre Dg (param_names ps) c1 c1' ->
              (copy_in s ((d, isarr) :: ps) (a :: r) c = copy_in s ps r c1) ->
              (copy_in s' ((d, isarr) :: kparams Dg ps) (te m Dc a :: kargs m Dc r) c' = copy_in s' (kparams Dg ps) (kargs m Dc r) c1') ->
              orel (Ipre Dg []) (copy_in s ((d, isarr) :: ps) (a :: r) c)
                   (copy_in s' (kparams Dg ((d, isarr) :: ps)) (kargs m Dc (a :: r)) c')).
    { intros c1 c1' Hm Hp HI1 E1 E2. unfold kparams, kargs, filter_args. cbn [filter fst]. rewrite Hm, Hp. cbn [negb map].
      fold (filter_args Dc r). fold (kargs m Dc r). fold (kparams Dg ps). rewrite E1, E2. now apply IH. }
    assert (Hnone : mem Dg d = false -> plain_key Dc a = false ->
              copy_in s ((d, isarr) :: ps) (a :: r) c = None ->
              copy_in s' ((d, isarr) :: kparams Dg ps) (te m Dc a :: kargs m Dc r) c' = None ->
              orel (Ipre Dg []) (copy_in s ((d, isarr) :: ps) (a :: r) c)
                   (copy_in s' (kparams Dg ((d, isarr) :: ps)) (kargs m Dc (a :: r)) c')).
    { intros Hm Hp E1 E2. unfold kparams, kargs, filter_args. cbn [filter fst]. rewrite Hm, Hp. cbn [negb map].
      fold (filter_args Dc r). fold (kargs m Dc r). fold (kparams Dg ps). rewrite E1, E2. exact I. }
    assert (Hstep_sv : forall v, lookup Dg d = None ->
              Ipre Dg (param_names ps) (set_sv d v c) (set_sv d v c')).
    { intros v Ed. repeat split; cbn.
      - intros y Ey. destruct (String.eqb y d); [reflexivity|now apply I1].
      - exact I2.
      - intros k w Ek. destruct (String.eqb_spec k d) as [->|Hne]; [congruence|].
        destruct (I3 _ _ Ek) as [H|H]; [now left|]. cbn in H. destruct H as [H|H]; [congruence|now right]. }
    destruct (is_var a) eqn:Hv.
    + destruct a as [| |x| | | | | | | | | |]; try discriminate. clear Hv.
      destruct (lookup Dc x) as [v|] eqn:Ex.
      * (* a parametrised variable of the caller: removed on both sides *)
        apply andb_true_iff in Ha. destruct Ha as [Harr Hd].
        destruct isarr; [discriminate|]. unfold oz_eqb in Hd.
        destruct (lookup Dg d) as [w|] eqn:Ed; [|discriminate]. apply Z.eqb_eq in Hd. subst w.
        unfold kparams, kargs, filter_args. cbn [filter fst plain_key].
        rewrite (mem_lookup_some _ _ _ Ed), (mem_lookup_some _ _ _ Ex). cbn [negb].
        fold (filter_args Dc r). fold (kargs m Dc r). fold (kparams Dg ps).
        rewrite copy_in_sc. cbn [evalZ env_st ev_var].
        destruct HR as [[_ [_ R3]] _]. rewrite (R3 _ _ Ex).
        apply IH; [exact Hok|]. repeat split; cbn.
        -- intros y Ey. destruct (String.eqb_spec y d) as [->|_]; [congruence|now apply I1].
        -- exact I2.
        -- intros k w Ek. destruct (String.eqb_spec k d) as [->|Hne]; [left; congruence|].
           destruct (I3 _ _ Ek) as [H|H]; [now left|]. cbn in H. destruct H as [H|H]; [congruence|now right].
      * (* an ordinary variable: kept *)
        assert (Ed : lookup Dg d = None) by now apply mem_false.
        assert (Hp : plain_key Dc (EVar x) = false) by (cbn; now apply mem_lookup_none).
        destruct isarr.
        -- apply (Hkeep (set_arr d (av s x) c) (set_arr d (av s' x) c') (mem_lookup_none _ _ Ed) Hp).
           ++ destruct HR as [[_ [R2 _]] _]. rewrite R2. repeat split; cbn.
              ** exact I1.
              ** now rewrite I2.
              ** intros k w Ek. destruct (I3 _ _ Ek) as [H|H]; [now left|]. cbn in H. destruct H as [H|H]; [congruence|now right].
           ++ now rewrite copy_in_arr.
           ++ rewrite (te_var_none m Dc x Ex). now rewrite copy_in_arr.
        -- apply (Hkeep (set_sv d (sv s x) c) (set_sv d (sv s' x) c') (mem_lookup_none _ _ Ed) Hp).
           ++ destruct HR as [[R1 _] _]. rewrite (R1 _ Ex). now apply Hstep_sv.
           ++ now rewrite copy_in_sc.
           ++ rewrite (te_var_none m Dc x Ex). now rewrite copy_in_sc.
    + assert (Ed : lookup Dg d = None) by (apply mem_false; destruct a; try exact Ha; discriminate).
      assert (Hp : plain_key Dc a = false) by (destruct a; try reflexivity; discriminate).
      pose proof (te_nonvar m Dc a Hv) as Hv'.
      destruct isarr.
      * apply (Hnone (mem_lookup_none _ _ Ed) Hp).
        -- rewrite copy_in_arr. destruct a; try reflexivity; discriminate.
        -- rewrite copy_in_arr. destruct (te m Dc a); try reflexivity; discriminate.
      * pose proof (te_evalZ m Dc s s' a HR) as Hev.
        destruct (evalZ (env_st s) a) as [v|] eqn:Ev.
        -- apply (Hkeep (set_sv d v c) (set_sv d v c') (mem_lookup_none _ _ Ed) Hp).
           ++ now apply Hstep_sv.
           ++ now rewrite copy_in_sc, Ev.
           ++ now rewrite copy_in_sc, <- Hev.
        -- apply (Hnone (mem_lookup_none _ _ Ed) Hp).
           ++ now rewrite copy_in_sc, Ev.
           ++ now rewrite copy_in_sc, <- Hev.
Qed.

Lemma copy_out_var_sc c1 d ps x r s :
  copy_out c1 ((d, false) :: ps) (EVar x :: r) s = copy_out c1 ps r (set_sv x (sv c1 d) s).
Proof. reflexivity. Qed.

Lemma copy_out_var_arr c1 d ps x r s :
  copy_out c1 ((d, true) :: ps) (EVar x :: r) s = copy_out c1 ps r (set_arr x (av c1 d) s).
Proof. reflexivity. Qed.

Lemma copy_out_nonvar c1 p ps a r s : is_var a = false -> copy_out c1 (p :: ps) (a :: r) s = copy_out c1 ps r s.
Proof. destruct p as [d []]; destruct a; try reflexivity; discriminate. Qed.

Lemma copy_out_sim m Dc Dg c1 c1' : Rpre Dg c1 c1' ->
  forall params args s s', call_ok Dc Dg params args = true -> R m Dc s s' ->
    R m Dc (copy_out c1 params args s) (copy_out c1' (kparams Dg params) (kargs m Dc args) s').
Proof.
  intros [C1 [C2 C3]]. induction params as [|[d isarr] ps IH]; intros args s s' Hok HR.
  - destruct args; [|discriminate]. exact HR.
  - destruct args as [|a r]; [discriminate|]. cbn [call_ok] in Hok.
    apply andb_true_iff in Hok. destruct Hok as [Ha Hok].
    destruct (is_var a) eqn:Hv.
    + destruct a as [| |x| | | | | | | | | |]; try discriminate. clear Hv.
      destruct (lookup Dc x) as [v|] eqn:Ex.
      * apply andb_true_iff in Ha. destruct Ha as [Harr Hd].
        destruct isarr; [discriminate|]. unfold oz_eqb in Hd.
        destruct (lookup Dg d) as [w|] eqn:Ed; [|discriminate]. apply Z.eqb_eq in Hd. subst w.
        unfold kparams, kargs, filter_args. cbn [filter fst plain_key].
        rewrite (mem_lookup_some _ _ _ Ed), (mem_lookup_some _ _ _ Ex). cbn [negb].
        fold (filter_args Dc r). fold (kargs m Dc r). fold (kparams Dg ps).
        rewrite copy_out_var_sc. apply IH; [exact Hok|].
        rewrite (C3 _ _ Ed). now apply R_set_sv_left.
      * assert (Ed : lookup Dg d = None) by now apply mem_false.
        unfold kparams, kargs, filter_args. cbn [filter fst plain_key].
        rewrite (mem_lookup_none _ _ Ed), (mem_lookup_none _ _ Ex). cbn [negb map].
        fold (filter_args Dc r). fold (kargs m Dc r). fold (kparams Dg ps).
        rewrite (te_var_none m Dc x Ex).
        destruct isarr.
        -- rewrite !copy_out_var_arr. apply IH; [exact Hok|]. rewrite C2. now apply R_set_arr.
        -- rewrite !copy_out_var_sc. apply IH; [exact Hok|]. rewrite (C1 _ Ed). now apply R_set_sv.
    + assert (Ed : lookup Dg d = None) by (apply mem_false; destruct a; try exact Ha; discriminate).
      assert (Hp : plain_key Dc a = false) by (destruct a; try reflexivity; discriminate).
      unfold kparams, kargs, filter_args. cbn [filter fst].
      rewrite (mem_lookup_none _ _ Ed), Hp. cbn [negb map].
      fold (filter_args Dc r). fold (kargs m Dc r). fold (kparams Dg ps).
      rewrite (copy_out_nonvar _ _ _ _ _ _ Hv), (copy_out_nonvar _ _ _ _ _ _ (te_nonvar m Dc a Hv)).
      now apply IH.
Qed.

(** * 6. the constants of a transformed routine *)
Fixpoint apply_consts (cs : list (string * Z)) (s : store) : store :=
  match cs with [] => s | (x, v) :: r => apply_consts r (set_sv x v s) end.

Lemma runs_consts ps cs : forall s, runs ps (const_stmts cs) s (apply_consts cs s).
Proof.
  induction cs as [|[x v] cs IH]; intros s; cbn; [apply runs_nil|].
  eapply runs_cons; [|apply IH]. now apply runs1_assign.
Qed.

Lemma consts_R Dg c decls : forall c',
  Rpre Dg c c' -> (forall x v, lookup Dg x = Some v -> In x decls \/ sv c' x = v) ->
  R MDecl Dg c (apply_consts (consts_of Dg decls) c').
Proof.
  induction decls as [|x l IH]; intros c' HR Hcov.
  - cbn. split; [exact HR|]. intros _ k v Ek. destruct (Hcov _ _ Ek) as [[]|H]. exact H.
  - unfold consts_of. cbn [flat_map]. fold (consts_of Dg l).
    destruct (lookup Dg x) as [v|] eqn:Ex.
    + cbn [app apply_consts]. apply IH.
      * destruct HR as [H1 [H2 H3]]. repeat split; cbn; [|exact H2|exact H3].
        intros y Ey. destruct (String.eqb_spec y x) as [->|_]; [congruence|now apply H1].
      * intros k w Ek. cbn. destruct (String.eqb_spec k x) as [->|Hne]; [right; congruence|].
        destruct (Hcov _ _ Ek) as [[H|H]|H]; [congruence|now left|now right].
    + cbn [app]. apply IH; [exact HR|].
      intros k w Ek. destruct (Hcov _ _ Ek) as [[H|H]|H]; [congruence|now left|now right].
Qed.

Lemma in_names_In l x : in_names l x = true -> In x l.
Proof.
  unfold in_names. intros H. apply existsb_exists in H. destruct H as [y [Hy E]].
  apply String.eqb_eq in E. now subst.
Qed.

Lemma scalar_params_names u x : In x (scalar_params u) -> In x (param_names (u_params u)).
Proof.
  unfold scalar_params, param_names. intros H. apply in_map_iff in H. destruct H as [p [E Hp]].
  apply filter_In in Hp. apply in_map_iff. exists p. tauto.
Qed.

(** * 7. simulation between the original and the transformed tree *)
Section Sim.
  Variable m : pmode.
  Variable abort : list stmt.
  Variable A : list aunit.
  Hypothesis Hwf : wf_assigned A = true.

  Let psO := procs_orig A.
  Let psT := procs_trans m abort A.
  Let T := tstmts (succ_of A) m.

  Lemma wf_of_found g ag : find_aunit A g = Some ag -> wf_aunit A ag = true.
  Proof.
    intros H. apply find_aunit_in in H. unfold wf_assigned in Hwf.
    rewrite forallb_forall in Hwf. now apply Hwf.
  Qed.

  Lemma callee_start Dg (u : unit) c0 c0' :
    (forall k, mem Dg k = true -> In k (u_decls u)) ->
    Ipre Dg [] c0 c0' ->
    exists c0'', runs psT (const_stmts (match m with MDecl => consts_of Dg (u_decls u) | MReplace => [] end)) c0' c0''
                 /\ R m Dg c0 c0''.
  Proof.
    intros Hd [I1 [I2 I3]].
    assert (HR : Rpre Dg c0 c0').
    { repeat split; [exact I1|exact I2|]. intros x v E. destruct (I3 _ _ E) as [H|[]]. exact H. }
    destruct m.
    - exists (apply_consts (consts_of Dg (u_decls u)) c0'). split; [apply runs_consts|].
      apply consts_R; [exact HR|]. intros x v E. left. apply Hd. now apply (mem_lookup_some _ _ v).
    - exists c0'. split; [apply runs_nil|]. split; [exact HR|discriminate].
  Qed.

  Lemma wf_keys_decls ag : wf_aunit A ag = true ->
    (forall k, mem (a_dict ag) k = true -> In k (u_decls (a_unit ag)) /\ In k (param_names (u_params (a_unit ag)))).
  Proof.
    intros H k Hk. unfold wf_aunit in H. apply andb_true_iff in H. destruct H as [H _].
    rewrite forallb_forall in H. apply mem_true in Hk. destruct Hk as [v Ev].
    assert (Hin : exists w, In (k, w) (a_dict ag)).
    { clear H. induction (a_dict ag) as [|[k' w] l IH]; [discriminate|]. cbn in Ev.
      destruct (String.eqb_spec k' k) as [->|_]; [exists w; now left|].
      destruct (IH Ev) as [w' Hw]. exists w'. now right. }
    destruct Hin as [w Hw]. specialize (H _ Hw). cbn in H. apply andb_true_iff in H. destruct H as [H1 H2].
    split; [now apply in_names_In|]. apply scalar_params_names. now apply in_names_In.
  Qed.

  Lemma wf_body ag : wf_aunit A ag = true -> forallb (wf_stmt A (a_dict ag)) (u_body (a_unit ag)) = true.
  Proof. intros H. unfold wf_aunit in H. apply andb_true_iff in H. tauto. Qed.

  Lemma te_step D s s' stp : R m D s s' ->
    match stp with None => Some 1 | Some e => evalZ (env_st s) e end =
    match option_map (te m D) stp with None => Some 1 | Some e => evalZ (env_st s') e end.
  Proof. intros HR. destruct stp; cbn; [now apply te_evalZ|reflexivity]. Qed.

  Lemma trans_params_kernel ag : a_entry ag = false ->
    p_params (proc_trans (transform_aunit A m abort ag)) = kparams (a_dict ag) (u_params (a_unit ag)).
  Proof. intros H. cbn. now rewrite H. Qed.

  Lemma trans_body_kernel ag : a_entry ag = false ->
    p_body (proc_trans (transform_aunit A m abort ag)) =
    const_stmts (match m with MDecl => consts_of (a_dict ag) (u_decls (a_unit ag)) | MReplace => [] end)
    ++ T (a_dict ag) (u_body (a_unit ag)).
  Proof. intros H. cbn. unfold tunit_stmts. cbn. now rewrite H. Qed.

  (** ** forward *)
  Lemma sim_fwd : forall f D ss s s' s1,
    forallb (wf_stmt A D) ss = true -> R m D s s' ->
    exec psO f ss s = Some s1 ->
    exists s1', runs psT (T D ss) s' s1' /\ R m D s1 s1'.
  Proof.
    induction f as [|f IH]; intros D ss s s' s1 Hw HR E; [discriminate|].
    destruct ss as [|st rest].
    - inversion E; subst. exists s'. split; [apply runs_nil|exact HR].
    - rewrite exec_unfold in E. apply obind_some in E. destruct E as [s2 [E1 E2]].
      cbn [forallb] in Hw. apply andb_true_iff in Hw. destruct Hw as [Hw1 Hw2].
      assert (Hst : exists s2', runs1 psT (tstmt (succ_of A) m D st) s' s2' /\ R m D s2 s2').
      { destruct st as [x e|a idx e|v lo hi stp body|c body|c tb eb|g args|l].
        - (* assign *)
          cbn in E1. apply obind_some in E1. destruct E1 as [w [Ew E1]]. inversion E1; subst.
          exists (set_sv x w s'). split.
          + cbn [tstmt]. apply runs1_assign. now rewrite <- (te_evalZ m D s s' e HR).
          + apply R_set_sv; [now apply mem_false|exact HR].
        - (* store *)
          cbn in E1. apply obind_some in E1. destruct E1 as [i [Ei E1]].
          apply obind_some in E1. destruct E1 as [w [Ew E1]]. inversion E1; subst.
          exists (set_av a i w s'). split.
          + cbn [tstmt]. apply runs1_store.
            * now rewrite <- (te_eval_idx m D s s' idx HR).
            * now rewrite <- (te_evalZ m D s s' e HR).
          + now apply R_set_av.
        - (* do *)
          cbn [wf_stmt] in Hw1. apply andb_true_iff in Hw1. destruct Hw1 as [Hv Hb].
          apply mem_false in Hv.
          cbn in E1. apply obind_some in E1. destruct E1 as [a [Ea E1]].
          apply obind_some in E1. destruct E1 as [b [Eb E1]].
          apply obind_some in E1. destruct E1 as [d [Ed E1]].
          destruct (d =? 0) eqn:Ez; [discriminate|].
          assert (Hloop : forall n i t t' t2, R m D t t' ->
                    do_loop (exec psO f body) v d n i t = Some t2 ->
                    exists t2', loop_runs psT (T D body) v d n i t' t2' /\ R m D t2 t2').
          { induction n as [|n IHn]; intros i t t' t2 Ht El; cbn in El.
            - inversion El; subst. exists (set_sv v i t'). split; [constructor|now apply R_set_sv].
            - apply obind_some in El. destruct El as [t1 [El1 El2]].
              destruct (IH D body (set_sv v i t) (set_sv v i t') t1 Hb (R_set_sv _ _ _ _ _ i Hv Ht) El1) as [t1' [Hr1 HR1]].
              destruct (IHn _ _ _ _ HR1 El2) as [t2' [Hr2 HR2]].
              exists t2'. split; [econstructor; eassumption|exact HR2]. }
          destruct (Hloop _ _ _ _ _ HR E1) as [s2' [Hl HR2]].
          exists s2'. split; [|exact HR2].
          cbn [tstmt]. apply runs1_do. exists a, b, d.
          rewrite <- (te_evalZ m D s s' lo HR), <- (te_evalZ m D s s' hi HR), <- (te_step D s s' stp HR).
          repeat split; try assumption. now apply Z.eqb_neq.
        - (* while *)
          cbn [wf_stmt] in Hw1.
          cbn in E1. apply obind_some in E1. destruct E1 as [b [Eb E1]].
          rewrite (te_evalB m D s s' c HR) in Eb.
          destruct b.
          + apply obind_some in E1. destruct E1 as [t1 [El1 El2]].
            destruct (IH D body s s' t1 Hw1 HR El1) as [t1' [Hr1 HR1]].
            assert (Hw' : forallb (wf_stmt A D) [SWhile c body] = true) by (cbn; now rewrite Hw1).
            destruct (IH D [SWhile c body] t1 t1' s2 Hw' HR1 El2) as [s2' [Hr2 HR2]].
            exists s2'. split; [|exact HR2]. cbn [tstmt]. eapply runs1_while_true; eassumption.
          + inversion E1; subst. exists s'. split; [|exact HR]. cbn [tstmt]. now apply runs1_while_false.
        - (* if *)
          cbn [wf_stmt] in Hw1. apply andb_true_iff in Hw1. destruct Hw1 as [Ht He].
          cbn in E1. apply obind_some in E1. destruct E1 as [b [Eb E1]].
          rewrite (te_evalB m D s s' c HR) in Eb.
          destruct (IH D (if b then tb else eb) s s' s2 (ltac:(destruct b; assumption)) HR E1) as [s2' [Hr HR2]].
          exists s2'. split; [|exact HR2]. cbn [tstmt]. apply (runs1_if psT _ _ _ _ _ b Eb).
          destruct b; exact Hr.
        - (* call *)
          cbn [wf_stmt] in Hw1. destruct (find_aunit A g) as [ag|] eqn:Eg; [|discriminate].
          apply andb_true_iff in Hw1. destruct Hw1 as [Hent Hok]. apply negb_true_iff in Hent.
          pose proof (wf_of_found _ _ Eg) as Hwa.
          cbn in E1. unfold psO in E1. rewrite find_proc_orig, Eg in E1. cbn in E1.
          apply obind_some in E1. destruct E1 as [c0 [Ec0 E1]].
          apply obind_some in E1. destruct E1 as [c1 [Ec1 E1]]. inversion E1; subst. clear E1.
          pose proof (copy_in_sim m D (a_dict ag) s s' HR (u_params (a_unit ag)) args empty_store empty_store Hok) as Hci.
          rewrite Ec0 in Hci.
          assert (HI0 : Ipre (a_dict ag) (param_names (u_params (a_unit ag))) empty_store empty_store).
          { repeat split. intros d w Ed. right. apply (wf_keys_decls _ Hwa). now apply (mem_lookup_some _ _ w). }
          specialize (Hci HI0).
          destruct (copy_in s' (kparams (a_dict ag) (u_params (a_unit ag))) (kargs m D args) empty_store) as [c0'|] eqn:Ec0'; [|contradiction].
          cbn in Hci.
          destruct (callee_start (a_dict ag) (a_unit ag) c0 c0' (fun k Hk => proj1 (wf_keys_decls _ Hwa k Hk)) Hci) as [c0'' [Hrc HRc]].
          destruct (IH (a_dict ag) (u_body (a_unit ag)) c0 c0'' c1 (wf_body _ Hwa) HRc Ec1) as [c1' [Hrb HRb]].
          pose proof (trans_params_kernel ag Hent) as Hpp. pose proof (trans_body_kernel ag Hent) as Hpb.
          exists (copy_out c1' (p_params (proc_trans (transform_aunit A m abort ag))) (kargs m D args) s'). split.
          + cbn [tstmt]. rewrite (find_aunit_succ _ _ _ Eg).
            change (map (te m D) (filter_args D args)) with (kargs m D args).
            apply (runs1_call psT g (kargs m D args) (proc_trans (transform_aunit A m abort ag)) s' c0').
            * unfold psT. now rewrite find_proc_trans, Eg.
            * rewrite Hpp. exact Ec0'.
            * rewrite Hpb. eapply runs_app; [exact Hrc|exact Hrb].
          + rewrite Hpp. apply copy_out_sim; [destruct HRb as [H _]; exact H|exact Hok|exact HR].
        - (* skip *)
          cbn in E1. inversion E1; subst. exists s'. split; [apply runs1_skip|exact HR]. }
      destruct Hst as [s2' [Hr1 HR2]].
      destruct (IH D rest s2 s2' s1 Hw2 HR2 E2) as [s1' [Hr2 HR1]].
      exists s1'. split; [|exact HR1]. cbn. eapply runs_cons; eassumption.
  Qed.

  (** ** backward *)
  Lemma runs_consts_inv ps cs s s1 : runs ps (const_stmts cs) s s1 -> s1 = apply_consts cs s.
  Proof. intros H. eapply runs_det; [exact H|apply runs_consts]. Qed.

  Lemma callee_start_inv Dg (u : unit) c0 c0' c0'' :
    (forall k, mem Dg k = true -> In k (u_decls u)) ->
    Ipre Dg [] c0 c0' ->
    runs psT (const_stmts (match m with MDecl => consts_of Dg (u_decls u) | MReplace => [] end)) c0' c0'' ->
    R m Dg c0 c0''.
  Proof.
    intros Hd HI Hr. destruct (callee_start Dg u c0 c0' Hd HI) as [c [Hc HR]].
    now rewrite (runs_det _ _ _ _ _ Hr Hc).
  Qed.

  Lemma sim_bwd : forall f D ss s s' s1',
    forallb (wf_stmt A D) ss = true -> R m D s s' ->
    exec psT f (T D ss) s' = Some s1' ->
    exists s1, runs psO ss s s1 /\ R m D s1 s1'.
  Proof.
    induction f as [|f IH]; intros D ss s s' s1' Hw HR E; [discriminate|].
    destruct ss as [|st rest].
    - inversion E; subst. exists s. split; [apply runs_nil|exact HR].
    - cbn [T tstmts map] in E. rewrite exec_unfold in E. apply obind_some in E. destruct E as [s2' [E1 E2]].
      cbn [forallb] in Hw. apply andb_true_iff in Hw. destruct Hw as [Hw1 Hw2].
      assert (Hst : exists s2, runs1 psO st s s2 /\ R m D s2 s2').
      { destruct st as [x e|a idx e|v lo hi stp body|c body|c tb eb|g args|l].
        - (* assign *)
          cbn in E1. apply obind_some in E1. destruct E1 as [w [Ew E1]]. inversion E1; subst.
          exists (set_sv x w s). split.
          + apply runs1_assign. now rewrite (te_evalZ m D s s' e HR).
          + apply R_set_sv; [now apply mem_false|exact HR].
        - (* store *)
          cbn in E1. apply obind_some in E1. destruct E1 as [i [Ei E1]].
          apply obind_some in E1. destruct E1 as [w [Ew E1]]. inversion E1; subst.
          exists (set_av a i w s). split.
          + apply runs1_store.
            * now rewrite (te_eval_idx m D s s' idx HR).
            * now rewrite (te_evalZ m D s s' e HR).
          + now apply R_set_av.
        - (* do *)
          cbn [wf_stmt] in Hw1. apply andb_true_iff in Hw1. destruct Hw1 as [Hv Hb].
          apply mem_false in Hv.
          cbn in E1. apply obind_some in E1. destruct E1 as [a [Ea E1]].
          apply obind_some in E1. destruct E1 as [b [Eb E1]].
          apply obind_some in E1. destruct E1 as [d [Ed E1]].
          destruct (d =? 0) eqn:Ez; [discriminate|].
          assert (Hloop : forall n i t t' t2', R m D t t' ->
                    do_loop (exec psT f (map (tstmt (succ_of A) m D) body)) v d n i t' = Some t2' ->
                    exists t2, loop_runs psO body v d n i t t2 /\ R m D t2 t2').
          { induction n as [|n IHn]; intros i t t' t2' Ht El; cbn in El.
            - inversion El; subst. exists (set_sv v i t). split; [constructor|now apply R_set_sv].
            - apply obind_some in El. destruct El as [t1' [El1 El2]].
              destruct (IH D body (set_sv v i t) (set_sv v i t') t1' Hb (R_set_sv _ _ _ _ _ i Hv Ht) El1) as [t1 [Hr1 HR1]].
              destruct (IHn _ _ _ _ HR1 El2) as [t2 [Hr2 HR2]].
              exists t2. split; [econstructor; eassumption|exact HR2]. }
          destruct (Hloop _ _ _ _ _ HR E1) as [s2 [Hl HR2]].
          exists s2. split; [|exact HR2].
          apply runs1_do. exists a, b, d.
          rewrite (te_evalZ m D s s' lo HR), (te_evalZ m D s s' hi HR), (te_step D s s' stp HR).
          repeat split; try assumption. now apply Z.eqb_neq.
        - (* while *)
          cbn [wf_stmt] in Hw1.
          cbn in E1. apply obind_some in E1. destruct E1 as [b [Eb E1]].
          rewrite <- (te_evalB m D s s' c HR) in Eb.
          destruct b.
          + apply obind_some in E1. destruct E1 as [t1' [El1 El2]].
            destruct (IH D body s s' t1' Hw1 HR El1) as [t1 [Hr1 HR1]].
            assert (Hw' : forallb (wf_stmt A D) [SWhile c body] = true) by (cbn; now rewrite Hw1).
            destruct (IH D [SWhile c body] t1 t1' s2' Hw' HR1 El2) as [s2 [Hr2 HR2]].
            exists s2. split; [|exact HR2]. eapply runs1_while_true; eassumption.
          + inversion E1; subst. exists s. split; [|exact HR]. now apply runs1_while_false.
        - (* if *)
          cbn [wf_stmt] in Hw1. apply andb_true_iff in Hw1. destruct Hw1 as [Ht He].
          cbn in E1. apply obind_some in E1. destruct E1 as [b [Eb E1]].
          rewrite <- (te_evalB m D s s' c HR) in Eb.
          assert (E1' : exec psT f (T D (if b then tb else eb)) s' = Some s2') by (destruct b; exact E1).
          destruct (IH D (if b then tb else eb) s s' s2' (ltac:(destruct b; assumption)) HR E1') as [s2 [Hr HR2]].
          exists s2. split; [|exact HR2]. now apply (runs1_if psO _ _ _ _ _ b Eb).
        - (* call *)
          cbn [wf_stmt] in Hw1. destruct (find_aunit A g) as [ag|] eqn:Eg; [|discriminate].
          apply andb_true_iff in Hw1. destruct Hw1 as [Hent Hok]. apply negb_true_iff in Hent.
          pose proof (wf_of_found _ _ Eg) as Hwa.
          pose proof (trans_params_kernel ag Hent) as Hpp. pose proof (trans_body_kernel ag Hent) as Hpb.
          cbn [tstmt] in E1. rewrite (find_aunit_succ _ _ _ Eg) in E1.
          change (map (te m D) (filter_args D args)) with (kargs m D args) in E1.
          cbn [exec1] in E1. unfold psT in E1. rewrite find_proc_trans, Eg in E1. cbn [option_map obind] in E1.
          apply obind_some in E1. destruct E1 as [c0' [Ec0' E1]].
          apply obind_some in E1. destruct E1 as [c1' [Ec1' E1]]. inversion E1; subst. clear E1.
          rewrite Hpp in Ec0'. rewrite Hpb in Ec1'.
          apply exec_app_inv in Ec1'. destruct Ec1' as [c0'' [Ecs Eb]].
          pose proof (copy_in_sim m D (a_dict ag) s s' HR (u_params (a_unit ag)) args empty_store empty_store Hok) as Hci.
          rewrite Ec0' in Hci.
          assert (HI0 : Ipre (a_dict ag) (param_names (u_params (a_unit ag))) empty_store empty_store).
          { repeat split. intros d w Ed. right. apply (wf_keys_decls _ Hwa). now apply (mem_lookup_some _ _ w). }
          specialize (Hci HI0).
          destruct (copy_in s (u_params (a_unit ag)) args empty_store) as [c0|] eqn:Ec0; [|contradiction].
          cbn in Hci.
          pose proof (callee_start_inv (a_dict ag) (a_unit ag) c0 c0' c0'' (fun k Hk => proj1 (wf_keys_decls _ Hwa k Hk)) Hci
                        (ex_intro _ f Ecs)) as HRc.
          destruct (IH (a_dict ag) (u_body (a_unit ag)) c0 c0'' c1' (wf_body _ Hwa) HRc Eb) as [c1 [Hrb HRb]].
          exists (copy_out c1 (u_params (a_unit ag)) args s). split.
          + apply (runs1_call psO g args (proc_orig (a_unit ag)) s c0).
            * unfold psO. now rewrite find_proc_orig, Eg.
            * exact Ec0.
            * exact Hrb.
          + rewrite Hent. apply (copy_out_sim m D (a_dict ag) c1 c1'); [destruct HRb as [H _]; exact H|exact Hok|exact HR].
        - (* skip *)
          cbn in E1. inversion E1; subst. exists s. split; [apply runs1_skip|exact HR]. }
      destruct Hst as [s2 [Hr1 HR2]].
      destruct (IH D rest s2 s2' s1' Hw2 HR2 E2) as [s1 [Hr2 HR1]].
      exists s1. split; [|exact HR1]. eapply runs_cons; eassumption.
  Qed.
End Sim.

Local Arguments pname : simpl never.
(** * 8. the entry point: guards *)
Definition guard_stmts (abort : list stmt) (gs : list (string * Z)) : list stmt :=
  map (fun kv => guard_stmt abort (pname (fst kv)) (snd kv)) gs.

Lemma guard_cond_eval s p v : evalB (env_st s) (guard_cond p v) = Some (negb (sv s p =? v)).
Proof. reflexivity. Qed.

Lemma guard_false ps abort p v s : sv s p = v -> runs1 ps (guard_stmt abort p v) s s.
Proof.
  intros E. unfold guard_stmt. apply (runs1_if ps (guard_cond p v) abort [] s s false); [|apply runs_nil].
  rewrite guard_cond_eval, E, Z.eqb_refl. reflexivity.
Qed.

Lemma guard_true ps abort p v s s1 :
  sv s p <> v -> (runs1 ps (guard_stmt abort p v) s s1 <-> runs ps abort s s1).
Proof.
  intros E. unfold guard_stmt. apply (runs1_if ps (guard_cond p v) abort [] s s1 true).
  rewrite guard_cond_eval. apply Z.eqb_neq in E. now rewrite E.
Qed.

Lemma guards_noop ps abort gs s : guards_pass gs s -> runs ps (guard_stmts abort gs) s s.
Proof.
  induction gs as [|[k v] gs IH]; intros H; cbn; [apply runs_nil|].
  eapply runs_cons; [|apply IH; intros k' v' Hin; apply H; now right].
  apply guard_false. apply H. now left.
Qed.

Lemma first_fail_none gs s : first_fail gs s = None <-> guards_pass gs s.
Proof.
  induction gs as [|[k v] gs IH]; cbn.
  - split; [intros _ k v []|reflexivity].
  - destruct (sv s (pname k) =? v) eqn:E.
    + rewrite IH. apply Z.eqb_eq in E. split.
      * intros H k' v' [Hin|Hin]; [inversion Hin; now subst|now apply H].
      * intros H k' v' Hin. apply H. now right.
    + split; [discriminate|]. intros H. apply Z.eqb_neq in E. exfalso. apply E. apply H. now left.
Qed.

Lemma guard_triggers_gen ps abort gs s k v :
  first_fail gs s = Some (k, v) ->
  sv s (pname k) <> v /\
  exists pre post, guard_stmts abort gs = pre ++ guard_stmt abort (pname k) v :: post /\
    runs ps pre s s /\
    evalB (env_st s) (guard_cond (pname k) v) = Some true /\
    (forall s1, runs1 ps (guard_stmt abort (pname k) v) s s1 <-> runs ps abort s s1).
Proof.
  induction gs as [|[k' v'] gs IH]; cbn; [discriminate|].
  destruct (sv s (pname k') =? v') eqn:E.
  - intros H. destruct (IH H) as [Hne [pre [post [E1 [Hr [Hc Hb]]]]]]. split; [exact Hne|].
    exists (guard_stmt abort (pname k') v' :: pre), post. split; [|split; [|split]].
    + cbn. unfold guard_stmts in E1. now rewrite E1.
    + eapply runs_cons; [|exact Hr]. apply guard_false. now apply Z.eqb_eq.
    + exact Hc.
    + exact Hb.
  - intros H. inversion H; subst. apply Z.eqb_neq in E. split; [exact E|].
    exists [], (guard_stmts abort gs). split; [reflexivity|split; [apply runs_nil|split]].
    + change (Some (negb (sv s (pname k) =? v)) = Some true). apply Z.eqb_neq in E. now rewrite E.
    + intros s1. now apply guard_true.
Qed.

(** * 9. the theorems about a tree with its dictionaries *)
Section Entry.
  Variable m : pmode.
  Variable abort : list stmt.
  Variable A : list aunit.
  Hypothesis Hwf : wf_assigned A = true.
  Variable a : aunit.
  Hypothesis Hin : In a A.
  Hypothesis Hent : a_entry a = true.

  Let D := a_dict a.
  Let gs := guards_of D (u_params (a_unit a)).

  Lemma wf_entry : wf_aunit A a = true.
  Proof. unfold wf_assigned in Hwf. rewrite forallb_forall in Hwf. now apply Hwf. Qed.

  Lemma entry_stmts_eq :
    tunit_stmts (transform_aunit A m abort a) =
    guard_stmts abort gs ++
    const_stmts (match m with MDecl => consts_of D (u_decls (a_unit a)) | MReplace => [] end) ++
    tstmts (succ_of A) m D (u_body (a_unit a)).
  Proof. unfold tunit_stmts, transform_aunit, transform_unit. cbn. now rewrite Hent. Qed.

  Lemma Rpre_Ipre s s' : Rpre D s s' -> Ipre D [] s s'.
  Proof. intros [H1 [H2 H3]]. repeat split; [exact H1|exact H2|]. intros d v E. left. now apply H3. Qed.

  Theorem entry_fwd s s' s1 :
    Rpre D s s' -> guards_pass gs s' ->
    runs (procs_orig A) (u_body (a_unit a)) s s1 ->
    exists s1', runs (procs_trans m abort A) (tunit_stmts (transform_aunit A m abort a)) s' s1' /\ R m D s1 s1'.
  Proof.
    intros HR Hg [f E]. rewrite entry_stmts_eq.
    destruct (callee_start m abort A D (a_unit a) s s' (fun k Hk => proj1 (wf_keys_decls A _ wf_entry k Hk)) (Rpre_Ipre _ _ HR))
      as [s'' [Hc HR']].
    destruct (sim_fwd m abort A Hwf f D _ s s'' s1 (wf_body A _ wf_entry) HR' E) as [s1' [Hr HR1]].
    exists s1'. split; [|exact HR1].
    eapply runs_app; [now apply guards_noop|]. eapply runs_app; eassumption.
  Qed.

  Theorem entry_bwd s s' s1' :
    Rpre D s s' -> guards_pass gs s' ->
    runs (procs_trans m abort A) (tunit_stmts (transform_aunit A m abort a)) s' s1' ->
    exists s1, runs (procs_orig A) (u_body (a_unit a)) s s1 /\ R m D s1 s1'.
  Proof.
    intros HR Hg Hr. rewrite entry_stmts_eq in Hr.
    apply runs_app_inv in Hr. destruct Hr as [t [Hg' Hr]].
    rewrite (runs_det _ _ _ _ _ Hg' (guards_noop _ abort gs s' Hg)) in Hr. clear Hg' t.
    apply runs_app_inv in Hr. destruct Hr as [s'' [Hc [f E]]].
    pose proof (callee_start_inv m abort A D (a_unit a) s s' s'' (fun k Hk => proj1 (wf_keys_decls A _ wf_entry k Hk)) (Rpre_Ipre _ _ HR) Hc) as HR'.
    exact (sim_bwd m abort A Hwf f D _ s s'' s1' (wf_body A _ wf_entry) HR' E).
  Qed.
End Entry.

(** both variants, started from the same store, are equivalent *)
Definition override (D : dict) (s : store) : store :=
  {| sv := fun y => match lookup D y with Some v => v | None => sv s y end; av := av s |}.

Lemma override_Rpre D s : Rpre D (override D s) s.
Proof.
  repeat split; cbn.
  - intros y E. now rewrite E.
  - intros x v E. now rewrite E.
Qed.

Theorem replace_eq_decl abort A a :
  wf_assigned A = true -> In a A -> a_entry a = true ->
  forall s', guards_pass (guards_of (a_dict a) (u_params (a_unit a))) s' ->
  forall m1 m2 t1,
    runs (procs_trans m1 abort A) (tunit_stmts (transform_aunit A m1 abort a)) s' t1 ->
    exists t2, runs (procs_trans m2 abort A) (tunit_stmts (transform_aunit A m2 abort a)) s' t2 /\
               (forall y, lookup (a_dict a) y = None -> sv t1 y = sv t2 y) /\ av t1 = av t2.
Proof.
  intros Hwf Hin Hent s' Hg m1 m2 t1 H1.
  destruct (entry_bwd m1 abort A Hwf a Hin Hent _ s' t1 (override_Rpre _ s') Hg H1) as [s1 [Ho HR1]].
  destruct (entry_fwd m2 abort A Hwf a Hin Hent _ s' s1 (override_Rpre _ s') Hg Ho) as [t2 [H2 HR2]].
  exists t2. split; [exact H2|].
  destruct (R_obs _ _ _ _ HR1) as [A1 B1]. destruct (R_obs _ _ _ _ HR2) as [A2 B2]. split.
  - intros y E. now rewrite <- (A1 y E), (A2 y E).
  - now rewrite <- B1.
Qed.

Local Open Scope string_scope.

(** * 10. the model of the algorithm: what [assign_dicts] yields *)
Lemma assign_go_entry us entries D0 : forall todo st a,
  In a (assign_go us entries D0 st todo) -> a_entry a = true -> a_dict a = D0.
Proof.
  induction todo as [|u r IH]; intros st a Hin He; [destruct Hin|].
  cbn in Hin. destruct Hin as [<-|Hin].
  - cbn in *. now rewrite He.
  - eapply IH; eassumption.
Qed.

Lemma assign_entry_dict us entries D0 a :
  In a (assign_dicts us entries D0) -> a_entry a = true -> a_dict a = D0.
Proof. apply assign_go_entry. Qed.

Lemma procs_trans_param_tree m abort us entries D0 :
  procs_trans m abort (assign_dicts us entries D0) =
  map (fun t => (t_name t, proc_trans t)) (param_tree m abort us entries D0).
Proof. unfold procs_trans, param_tree, param_assigned. rewrite map_map. reflexivity. Qed.

Theorem param_preserves m abort us entries D0 :
  uniform_calls us entries D0 = true ->
  forall a, In a (assign_dicts us entries D0) -> a_entry a = true ->
  forall s s', Rpre D0 s s' -> guards_pass (guards_of D0 (u_params (a_unit a))) s' ->
    let A := assign_dicts us entries D0 in
    let t := transform_aunit A m abort a in
    (forall s1, runs (procs_orig A) (u_body (a_unit a)) s s1 ->
       exists s1', runs (procs_trans m abort A) (tunit_stmts t) s' s1' /\ R m D0 s1 s1') /\
    (forall s1', runs (procs_trans m abort A) (tunit_stmts t) s' s1' ->
       exists s1, runs (procs_orig A) (u_body (a_unit a)) s s1 /\ R m D0 s1 s1').
Proof.
  intros Hu a Hin He s s' HR Hg A t.
  pose proof (assign_entry_dict _ _ _ _ Hin He) as ED.
  split; intros s1 Hr.
  - destruct (entry_fwd m abort A Hu a Hin He s s' s1) as [s1' [H1 H2]];
      [rewrite ED; exact HR|rewrite ED; exact Hg|exact Hr|].
    exists s1'. split; [exact H1|rewrite <- ED; exact H2].
  - destruct (entry_bwd m abort A Hu a Hin He s s' s1) as [s0 [H1 H2]];
      [rewrite ED; exact HR|rewrite ED; exact Hg|exact Hr|].
    exists s0. split; [exact H1|rewrite <- ED; exact H2].
Qed.

(** * 11. witness: the unconditional statement fails (swapped positions), and a tree in the class *)
Definition w_k : unit :=
  {| u_name := "k"; u_params := [("x", false); ("y", false); ("a", true)]; u_decls := ["x"; "y"];
     u_body := [SStore "a" [EVar "x"] (ESum false [ECall "a" [EVar "x"]; EProd false [EInt 10; EVar "y"]])] |}.
Definition w_drv : unit :=
  {| u_name := "drv"; u_params := [("n", false); ("f", false); ("a", true)]; u_decls := ["n"; "f"];
     u_body := [SCall "k" [EVar "n"; EVar "f"; EVar "a"]; SCall "k" [EVar "f"; EVar "n"; EVar "a"]] |}.
Definition w_us := [w_drv; w_k].
Definition w_D0 : dict := [("n", 3); ("f", 1)].
Definition w_store : store :=
  init_store [("n", 3); ("f", 1); ("parametrised_n", 3); ("parametrised_f", 1)]
             [("a", [1], 1); ("a", [2], 2); ("a", [3], 3); ("a", [4], 4)].

Lemma w_Rpre : Rpre w_D0 w_store w_store.
Proof.
  repeat split. intros x v E. unfold w_D0 in E. cbn [lookup] in E.
  destruct (String.eqb_spec "n" x) as [<-|_]; [inversion E; reflexivity|].
  destruct (String.eqb_spec "f" x) as [<-|_]; [inversion E; reflexivity|discriminate].
Qed.

Theorem param_preserves_refuted :
  exists us entries D0 a s,
    uniform_calls us entries D0 = false /\
    In a (assign_dicts us entries D0) /\ a_entry a = true /\
    Rpre D0 s s /\ guards_pass (guards_of D0 (u_params (a_unit a))) s /\
    exists s1 s1',
      runs (procs_orig (assign_dicts us entries D0)) (u_body (a_unit a)) s s1 /\
      runs (procs_trans MDecl [] (assign_dicts us entries D0))
           (tunit_stmts (transform_aunit (assign_dicts us entries D0) MDecl [] a)) s s1' /\
      av s1 "a" [1] <> av s1' "a" [1].
Proof.
  exists w_us, ["drv"], w_D0, {| a_unit := w_drv; a_entry := true; a_dict := w_D0 |}, w_store.
  split; [vm_compute; reflexivity|]. split; [left; reflexivity|]. split; [reflexivity|].
  split; [exact w_Rpre|]. split.
  - intros k v Hin. cbn in Hin. destruct Hin as [H|[H|[]]]; inversion H; reflexivity.
  - eexists. eexists. split; [exists 10%nat; reflexivity|]. split; [exists 10%nat; reflexivity|].
    vm_compute. discriminate.
Qed.

(** a non-trivial member of the class: driver -> k1 -> k3, the dummy is renamed on the way down *)
Definition e_k3 : unit :=
  {| u_name := "k3"; u_params := [("a", true); ("q", false)]; u_decls := ["q"];
     u_body := [SStore "a" [EInt 1] (EVar "q")] |}.
Definition e_k1 : unit :=
  {| u_name := "k1"; u_params := [("m", false); ("a", true); ("f", false); ("r", false)]; u_decls := ["m"; "f"; "r"; "i"];
     u_body := [SIf (ECmp Cgt (EVar "f") (EInt 0))
                    [SDo "i" (EInt 1) (EVar "m") None
                         [SStore "a" [EVar "i"] (ESum false [EProd false [ECall "a" [EVar "i"]; EInt 2]; EVar "m"])]] [];
                SAssign "r" (ESum false [EVar "m"; EVar "f"]);
                SCall "k3" [EVar "a"; EVar "m"]] |}.
Definition e_drv : unit :=
  {| u_name := "drv"; u_params := [("n", false); ("f", false); ("a", true); ("r", false)]; u_decls := ["n"; "f"; "r"; "i"];
     u_body := [SDo "i" (EInt 1) (EVar "n") None [SStore "a" [EVar "i"] (ESum false [ECall "a" [EVar "i"]; EVar "f"])];
                SCall "k1" [EVar "n"; EVar "a"; EVar "f"; EVar "r"];
                SCall "k1" [EVar "n"; EVar "a"; EVar "f"; EVar "r"];
                SAssign "r" (ESum false [EVar "r"; EVar "n"])] |}.

Example uniform_calls_example :
  uniform_calls [e_drv; e_k1; e_k3] ["drv"] [("n", 3)] = true /\
  map t_params (param_tree MDecl [] [e_drv; e_k1; e_k3] ["drv"] [("n", 3)]) =
    [[("parametrised_n", false); ("f", false); ("a", true); ("r", false)];
     [("a", true); ("f", false); ("r", false)];
     [("a", true)]] /\
  map t_consts (param_tree MDecl [] [e_drv; e_k1; e_k3] ["drv"] [("n", 3)]) = [[("n", 3)]; [("m", 3)]; [("q", 3)]].
Proof. vm_compute. repeat split. Qed.

Local Close Scope string_scope.
(** * 12. declare_fixed_value_scalars_as_constants: removing [x = c] when [x] holds [c] from the start *)
Definition ext_eq (s s' : store) : Prop := (forall y, sv s y = sv s' y) /\ av s = av s'.
Definition Inv (D : dict) (s : store) : Prop := forall x v, lookup D x = Some v -> sv s x = v.

Lemma ext_R s s' : ext_eq s s' -> R MDecl [] s s'.
Proof. intros [H1 H2]. repeat split; try assumption; try (intros; discriminate). intros y _. apply H1. Qed.

Lemma R_ext s s' : R MDecl [] s s' -> ext_eq s s'.
Proof. intros [[H1 [H2 _]] _]. split; [intros y; now apply H1|exact H2]. Qed.

Lemma ext_evalZ s s' e : ext_eq s s' -> evalZ (env_st s) e = evalZ (env_st s') e.
Proof. intros H. exact (te_evalZ MDecl [] s s' e (ext_R _ _ H)). Qed.

Lemma ext_evalB s s' e : ext_eq s s' -> evalB (env_st s) e = evalB (env_st s') e.
Proof. intros H. exact (te_evalB MDecl [] s s' e (ext_R _ _ H)). Qed.

Lemma ext_eval_idx s s' idx : ext_eq s s' -> eval_idx s idx = eval_idx s' idx.
Proof. intros H. rewrite (te_eval_idx MDecl [] s s' idx (ext_R _ _ H)). cbn [te]. now rewrite map_id. Qed.

Lemma ext_set_sv s s' x v : ext_eq s s' -> ext_eq (set_sv x v s) (set_sv x v s').
Proof. intros [H1 H2]. split; cbn; [intros y; destruct (String.eqb y x); [reflexivity|apply H1]|exact H2]. Qed.

Lemma ext_set_av s s' a i v : ext_eq s s' -> ext_eq (set_av a i v s) (set_av a i v s').
Proof. intros [H1 H2]. split; cbn; [exact H1|now rewrite H2]. Qed.

Lemma Inv_set_sv D s x v : lookup D x = None -> Inv D s -> Inv D (set_sv x v s).
Proof. intros E H k w Ek. cbn. destruct (String.eqb_spec k x) as [->|_]; [congruence|now apply H]. Qed.

Lemma lit_val_sound rho c v : lit_val c = Some v -> evalZ rho c = Some v.
Proof. destruct c; cbn; congruence. Qed.

Lemma const_value_sound rho e v : const_value e = Some v -> evalZ rho e = Some v.
Proof.
  destruct e; cbn [const_value]; try discriminate.
  - cbn. congruence.
  - cbn [evalZ]. revert v. induction cs as [|c cs IH]; intros v; cbn; [congruence|].
    intros H. apply obind_some in H. destruct H as [a [Ea H]]. apply obind_some in H. destruct H as [b [Eb H]].
    rewrite (lit_val_sound rho _ _ Ea). cbn. rewrite (IH _ Eb). exact H.
  - cbn [evalZ]. revert v. induction cs as [|c cs IH]; intros v; cbn; [congruence|].
    intros H. apply obind_some in H. destruct H as [a [Ea H]]. apply obind_some in H. destruct H as [b [Eb H]].
    rewrite (lit_val_sound rho _ _ Ea). cbn. rewrite (IH _ Eb). exact H.
Qed.

Section Dfv.
  Variable ps : procs.
  Variable D : dict.
  Let rm := dfv_rm (mem D).

  Lemma step_eq s s' stp : ext_eq s s' ->
    match stp with None => Some 1 | Some e => evalZ (env_st s) e end =
    match stp with None => Some 1 | Some e => evalZ (env_st s') e end.
  Proof. intros H. destruct stp; [now apply ext_evalZ|reflexivity]. Qed.

  Lemma dfv_fwd : forall f ss s s' s1,
    forallb (dfv_wf D) ss = true -> ext_eq s s' -> Inv D s ->
    exec ps f ss s = Some s1 ->
    exists s1', runs ps (rm ss) s' s1' /\ ext_eq s1 s1' /\ Inv D s1.
  Proof.
    induction f as [|f IH]; intros ss s s' s1 Hw HE HI E; [discriminate|].
    destruct ss as [|st rest].
    - inversion E; subst. exists s'. split; [apply runs_nil|now split].
    - rewrite exec_unfold in E. apply obind_some in E. destruct E as [s2 [E1 E2]].
      cbn [forallb] in Hw. apply andb_true_iff in Hw. destruct Hw as [Hw1 Hw2].
      assert (Hst : exists s2', runs ps (dfv_rm_stmt (mem D) st) s' s2' /\ ext_eq s2 s2' /\ Inv D s2).
      { destruct st as [x e|a idx e|v lo hi stp body|c body|c tb eb|g args|l].
        - cbn in E1. apply obind_some in E1. destruct E1 as [w [Ew E1]]. inversion E1; subst.
          cbn [dfv_wf] in Hw1. cbn [dfv_rm_stmt]. unfold mem. destruct (lookup D x) as [v|] eqn:Ex.
          + (* the removed assignment: x already holds the constant *)
            unfold oz_eqb in Hw1. destruct (const_value e) as [c|] eqn:Ec; [|discriminate].
            apply Z.eqb_eq in Hw1. subst c. rewrite (const_value_sound _ _ _ Ec) in Ew. inversion Ew; subst w.
            exists s'. split; [apply runs_nil|]. split.
            * destruct HE as [H1 H2]. split; [|exact H2]. intros y. cbn.
              destruct (String.eqb_spec y x) as [->|_]; [rewrite <- H1; symmetry; now apply HI|apply H1].
            * intros k w Ek. cbn. destruct (String.eqb_spec k x) as [->|_]; [congruence|now apply HI].
          + exists (set_sv x w s'). split; [|split].
            * apply runs_single. apply runs1_assign. now rewrite <- (ext_evalZ s s' e HE).
            * now apply ext_set_sv.
            * now apply Inv_set_sv.
        - cbn in E1. apply obind_some in E1. destruct E1 as [i [Ei E1]].
          apply obind_some in E1. destruct E1 as [w [Ew E1]]. inversion E1; subst.
          exists (set_av a i w s'). split; [|split].
          + cbn [dfv_rm_stmt]. apply runs_single. apply runs1_store.
            * now rewrite <- (ext_eval_idx s s' idx HE).
            * now rewrite <- (ext_evalZ s s' e HE).
          + now apply ext_set_av.
          + exact HI.
        - cbn [dfv_wf] in Hw1. apply andb_true_iff in Hw1. destruct Hw1 as [Hv Hb]. apply mem_false in Hv.
          cbn in E1. apply obind_some in E1. destruct E1 as [a [Ea E1]].
          apply obind_some in E1. destruct E1 as [b [Eb E1]].
          apply obind_some in E1. destruct E1 as [d [Ed E1]].
          destruct (d =? 0) eqn:Ez; [discriminate|].
          assert (Hloop : forall n i t t' t2, ext_eq t t' -> Inv D t ->
                    do_loop (exec ps f body) v d n i t = Some t2 ->
                    exists t2', loop_runs ps (rm body) v d n i t' t2' /\ ext_eq t2 t2' /\ Inv D t2).
          { induction n as [|n IHn]; intros i t t' t2 Ht Hi El; cbn in El.
            - inversion El; subst. exists (set_sv v i t'). split; [constructor|].
              split; [now apply ext_set_sv|now apply Inv_set_sv].
            - apply obind_some in El. destruct El as [t1 [El1 El2]].
              destruct (IH body (set_sv v i t) (set_sv v i t') t1 Hb (ext_set_sv _ _ _ _ Ht) (Inv_set_sv _ _ _ _ Hv Hi) El1)
                as [t1' [Hr1 [HE1 HI1]]].
              destruct (IHn _ _ _ _ HE1 HI1 El2) as [t2' [Hr2 HR2]].
              exists t2'. split; [econstructor; eassumption|exact HR2]. }
          destruct (Hloop _ _ _ _ _ HE HI E1) as [s2' [Hl HR2]].
          exists s2'. split; [|exact HR2].
          cbn [dfv_rm_stmt]. apply runs_single. apply runs1_do. exists a, b, d.
          rewrite <- (ext_evalZ s s' lo HE), <- (ext_evalZ s s' hi HE), <- (step_eq s s' stp HE).
          repeat split; try assumption. now apply Z.eqb_neq.
        - cbn [dfv_wf] in Hw1.
          cbn in E1. apply obind_some in E1. destruct E1 as [b [Eb E1]].
          rewrite (ext_evalB s s' c HE) in Eb.
          destruct b.
          + apply obind_some in E1. destruct E1 as [t1 [El1 El2]].
            destruct (IH body s s' t1 Hw1 HE HI El1) as [t1' [Hr1 [HE1 HI1]]].
            assert (Hw' : forallb (dfv_wf D) [SWhile c body] = true) by (cbn; now rewrite Hw1).
            destruct (IH [SWhile c body] t1 t1' s2 Hw' HE1 HI1 El2) as [s2' [Hr2 HR2]].
            exists s2'. split; [|exact HR2]. cbn [dfv_rm_stmt]. apply runs_single.
            eapply runs1_while_true; [exact Eb|exact Hr1|].
            unfold rm, dfv_rm in Hr2. cbn [flat_map dfv_rm_stmt app] in Hr2. exact Hr2.
          + inversion E1; subst. exists s'. split; [|now split]. cbn [dfv_rm_stmt]. apply runs_single.
            now apply runs1_while_false.
        - cbn [dfv_wf] in Hw1. apply andb_true_iff in Hw1. destruct Hw1 as [Ht He].
          cbn in E1. apply obind_some in E1. destruct E1 as [b [Eb E1]].
          rewrite (ext_evalB s s' c HE) in Eb.
          destruct (IH (if b then tb else eb) s s' s2 (ltac:(destruct b; assumption)) HE HI E1) as [s2' [Hr HR2]].
          exists s2'. split; [|exact HR2]. cbn [dfv_rm_stmt]. apply runs_single.
          apply (runs1_if ps _ _ _ _ _ b Eb). destruct b; exact Hr.
        - discriminate.
        - cbn in E1. inversion E1; subst. exists s'. split; [|now split]. cbn [dfv_rm_stmt]. apply runs_single. apply runs1_skip. }
      destruct Hst as [s2' [Hr1 [HE2 HI2]]].
      destruct (IH rest s2 s2' s1 Hw2 HE2 HI2 E2) as [s1' [Hr2 HR1]].
      exists s1'. split; [|exact HR1]. unfold rm, dfv_rm. cbn [flat_map]. eapply runs_app; eassumption.
  Qed.

  (** backward: the run of the shortened body is replayed by the original; removed assignments are
      executed in between (inner induction on the statement list at fixed fuel) *)
  Lemma dfv_bwd : forall f ss s s' s1',
    forallb (dfv_wf D) ss = true -> ext_eq s s' -> Inv D s ->
    exec ps f (rm ss) s' = Some s1' ->
    exists s1, runs ps ss s s1 /\ ext_eq s1 s1' /\ Inv D s1.
  Proof.
    induction f as [|f IH]; intros ss s s' s1' Hw HE HI E; [discriminate|].
    revert s s' Hw HE HI E. induction ss as [|st rest IHss]; intros s s' Hw HE HI E.
    - inversion E; subst. exists s. split; [apply runs_nil|now split].
    - cbn [forallb] in Hw. apply andb_true_iff in Hw. destruct Hw as [Hw1 Hw2].
      unfold rm, dfv_rm in E. cbn [flat_map] in E. fold (dfv_rm (mem D) rest) in E. fold (rm rest) in E.
      destruct st as [x e|a idx e|v lo hi stp body|c body|c tb eb|g args|l].
      + cbn [dfv_wf] in Hw1. cbn [dfv_rm_stmt] in E. unfold mem in E. destruct (lookup D x) as [v|] eqn:Ex.
        * (* removed: the original executes x = c, which changes nothing *)
          unfold oz_eqb in Hw1. destruct (const_value e) as [c0|] eqn:Ec; [|discriminate].
          apply Z.eqb_eq in Hw1. subst c0. cbn [app] in E.
          assert (HE' : ext_eq (set_sv x v s) s').
          { destruct HE as [H1 H2]. split; [|exact H2]. intros y. cbn.
            destruct (String.eqb_spec y x) as [->|_]; [rewrite <- H1; symmetry; now apply HI|apply H1]. }
          assert (HI' : Inv D (set_sv x v s)).
          { intros k w Ek. cbn. destruct (String.eqb_spec k x) as [->|_]; [congruence|now apply HI]. }
          destruct (IHss _ _ Hw2 HE' HI' E) as [s1 [Hr HR]].
          exists s1. split; [|exact HR]. eapply runs_cons; [|exact Hr].
          apply runs1_assign. now apply const_value_sound.
        * cbn [app] in E. rewrite exec_unfold in E. apply obind_some in E. destruct E as [s2' [E1 E2]].
          cbn in E1. apply obind_some in E1. destruct E1 as [w [Ew E1]]. inversion E1; subst.
          destruct (IH rest (set_sv x w s) (set_sv x w s') s1' Hw2 (ext_set_sv _ _ _ _ HE) (Inv_set_sv _ _ _ _ Ex HI) E2) as [s1 [Hr HR]].
          exists s1. split; [|exact HR]. eapply runs_cons; [|exact Hr].
          apply runs1_assign. now rewrite (ext_evalZ s s' e HE).
      + cbn [dfv_rm_stmt app] in E. rewrite exec_unfold in E. apply obind_some in E. destruct E as [s2' [E1 E2]].
        cbn in E1. apply obind_some in E1. destruct E1 as [i [Ei E1]].
        apply obind_some in E1. destruct E1 as [w [Ew E1]]. inversion E1; subst.
        destruct (IH rest (set_av a i w s) (set_av a i w s') s1' Hw2 (ext_set_av _ _ _ _ _ HE) HI E2) as [s1 [Hr HR]].
        exists s1. split; [|exact HR]. eapply runs_cons; [|exact Hr].
        apply runs1_store; [now rewrite (ext_eval_idx s s' idx HE)|now rewrite (ext_evalZ s s' e HE)].
      + cbn [dfv_rm_stmt app] in E. rewrite exec_unfold in E. apply obind_some in E. destruct E as [s2' [E1 E2]].
        cbn [dfv_wf] in Hw1. apply andb_true_iff in Hw1. destruct Hw1 as [Hv Hb]. apply mem_false in Hv.
        cbn in E1. apply obind_some in E1. destruct E1 as [a [Ea E1]].
        apply obind_some in E1. destruct E1 as [b [Eb E1]].
        apply obind_some in E1. destruct E1 as [d [Ed E1]].
        destruct (d =? 0) eqn:Ez; [discriminate|].
        assert (Hloop : forall n i t t' t2', ext_eq t t' -> Inv D t ->
                  do_loop (exec ps f (flat_map (dfv_rm_stmt (mem D)) body)) v d n i t' = Some t2' ->
                  exists t2, loop_runs ps body v d n i t t2 /\ ext_eq t2 t2' /\ Inv D t2).
        { induction n as [|n IHn]; intros i t t' t2' Ht Hi El; cbn in El.
          - inversion El; subst. exists (set_sv v i t). split; [constructor|].
            split; [now apply ext_set_sv|now apply Inv_set_sv].
          - apply obind_some in El. destruct El as [t1' [El1 El2]].
            destruct (IH body (set_sv v i t) (set_sv v i t') t1' Hb (ext_set_sv _ _ _ _ Ht) (Inv_set_sv _ _ _ _ Hv Hi) El1)
              as [t1 [Hr1 [HE1 HI1]]].
            destruct (IHn _ _ _ _ HE1 HI1 El2) as [t2 [Hr2 HR2]].
            exists t2. split; [econstructor; eassumption|exact HR2]. }
        destruct (Hloop _ _ _ _ _ HE HI E1) as [s2 [Hl [HE2 HI2]]].
        destruct (IH rest s2 s2' s1' Hw2 HE2 HI2 E2) as [s1 [Hr HR]].
        exists s1. split; [|exact HR]. eapply runs_cons; [|exact Hr].
        apply runs1_do. exists a, b, d.
        rewrite (ext_evalZ s s' lo HE), (ext_evalZ s s' hi HE), (step_eq s s' stp HE).
        repeat split; try assumption. now apply Z.eqb_neq.
      + cbn [dfv_rm_stmt app] in E. rewrite exec_unfold in E. apply obind_some in E. destruct E as [s2' [E1 E2]].
        cbn [dfv_wf] in Hw1.
        assert (Hst : exists s2, runs1 ps (SWhile c body) s s2 /\ ext_eq s2 s2' /\ Inv D s2).
        { cbn in E1. apply obind_some in E1. destruct E1 as [b [Eb E1]].
          rewrite <- (ext_evalB s s' c HE) in Eb.
          destruct b.
          - apply obind_some in E1. destruct E1 as [t1' [El1 El2]].
            destruct (IH body s s' t1' Hw1 HE HI El1) as [t1 [Hr1 [HE1 HI1]]].
            assert (Hw' : forallb (dfv_wf D) [SWhile c body] = true) by (cbn; now rewrite Hw1).
            destruct (IH [SWhile c body] t1 t1' s2' Hw' HE1 HI1 El2) as [s2 [Hr2 HR2]].
            exists s2. split; [|exact HR2]. eapply runs1_while_true; eassumption.
          - inversion E1; subst. exists s. split; [|now split]. now apply runs1_while_false. }
        destruct Hst as [s2 [Hr1 [HE2 HI2]]].
        destruct (IH rest s2 s2' s1' Hw2 HE2 HI2 E2) as [s1 [Hr HR]].
        exists s1. split; [|exact HR]. eapply runs_cons; eassumption.
      + cbn [dfv_rm_stmt app] in E. rewrite exec_unfold in E. apply obind_some in E. destruct E as [s2' [E1 E2]].
        cbn [dfv_wf] in Hw1. apply andb_true_iff in Hw1. destruct Hw1 as [Ht He].
        cbn in E1. apply obind_some in E1. destruct E1 as [b [Eb E1]].
        rewrite <- (ext_evalB s s' c HE) in Eb.
        assert (E1' : exec ps f (rm (if b then tb else eb)) s' = Some s2') by (destruct b; exact E1).
        destruct (IH (if b then tb else eb) s s' s2' (ltac:(destruct b; assumption)) HE HI E1') as [s2 [Hr1 [HE2 HI2]]].
        destruct (IH rest s2 s2' s1' Hw2 HE2 HI2 E2) as [s1 [Hr HR]].
        exists s1. split; [|exact HR]. eapply runs_cons; [|exact Hr].
        now apply (runs1_if ps _ _ _ _ _ b Eb).
      + discriminate.
      + cbn [dfv_rm_stmt app] in E. rewrite exec_unfold in E. apply obind_some in E. destruct E as [s2' [E1 E2]].
        cbn in E1. inversion E1; subst.
        destruct (IH rest s s2' s1' Hw2 HE HI E2) as [s1 [Hr HR]].
        exists s1. split; [|exact HR]. eapply runs_cons; [apply runs1_skip|exact Hr].
  Qed.

  Theorem dfv_sound_partial ss s s' :
    forallb (dfv_wf D) ss = true -> ext_eq s s' -> Inv D s ->
    (forall s1, runs ps ss s s1 -> exists s1', runs ps (dfv_rm (mem D) ss) s' s1' /\ ext_eq s1 s1') /\
    (forall s1', runs ps (dfv_rm (mem D) ss) s' s1' -> exists s1, runs ps ss s s1 /\ ext_eq s1 s1').
  Proof.
    intros Hw HE HI. split.
    - intros s1 [f E]. destruct (dfv_fwd f ss s s' s1 Hw HE HI E) as [s1' [H1 [H2 _]]]. eauto.
    - intros s1' [f E]. destruct (dfv_bwd f ss s s' s1' Hw HE HI E) as [s1 [H1 [H2 _]]]. eauto.
  Qed.
End Dfv.

(** the variables the code selects, and the link to the theorem above *)
Lemma dfv_chosen_const params decls body x e :
  In (x, e) (dfv_chosen params decls body) -> const_rhs e = true.
Proof.
  unfold dfv_chosen. intros H. apply in_flat_map in H. destruct H as [x0 [_ H]].
  destruct (in_names params x0 || in_names (flat_map arg_vars_stmt body) x0); [destruct H|].
  destruct (filter (fun a => String.eqb (fst a) x0) (flat_map assigns_stmt body)) as [|[y e0] [|? ?]]; try destruct H.
  destruct (const_rhs e0) eqn:Ec; [|destruct H]. destruct H as [H|[]]. inversion H; subst. exact Ec.
Qed.

Lemma dfv_dict_keys cs x :
  (forall k e, In (k, e) cs -> const_rhs e = true) -> mem (dfv_dict cs) x = in_names (map fst cs) x.
Proof.
  induction cs as [|[k e] r IH]; intros H; [reflexivity|].
  unfold dfv_dict. cbn [flat_map fst snd]. fold (dfv_dict r).
  pose proof (H k e (or_introl eq_refl)) as Hc. unfold const_rhs in Hc.
  destruct (const_value e) as [v|]; [|discriminate].
  unfold mem, in_names. cbn [app lookup map existsb fst]. rewrite (String.eqb_sym x k).
  destruct (String.eqb k x); [reflexivity|]. cbn [orb].
  apply IH. intros k' e' Hin. apply (H k' e'). now right.
Qed.

Lemma dfv_rm_stmt_ext c1 c2 : (forall x, c1 x = c2 x) -> forall st, dfv_rm_stmt c1 st = dfv_rm_stmt c2 st.
Proof.
  intros H. induction st using stmt_ind'; cbn [dfv_rm_stmt]; try reflexivity.
  - now rewrite H.
  - f_equal. f_equal. induction H0 as [|a l Ha _ IH]; cbn; [reflexivity|]. now rewrite Ha, IH.
  - f_equal. f_equal. induction H0 as [|a l Ha _ IH]; cbn; [reflexivity|]. now rewrite Ha, IH.
  - f_equal. f_equal.
    + induction H0 as [|a l Ha _ IH]; cbn; [reflexivity|]. now rewrite Ha, IH.
    + induction H1 as [|a l Ha _ IH]; cbn; [reflexivity|]. now rewrite Ha, IH.
Qed.

Lemma dfv_rm_ext c1 c2 ss : (forall x, c1 x = c2 x) -> dfv_rm c1 ss = dfv_rm c2 ss.
Proof.
  intros H. unfold dfv_rm. induction ss as [|st r IH]; cbn; [reflexivity|].
  now rewrite (dfv_rm_stmt_ext c1 c2 H st), IH.
Qed.

Theorem dfv_transform_sound_partial ps params decls body s s' :
  let cs := fst (dfv_transform params decls body) in
  let body' := snd (dfv_transform params decls body) in
  forallb (dfv_wf (dfv_dict cs)) body = true -> ext_eq s s' -> Inv (dfv_dict cs) s ->
  (forall s1, runs ps body s s1 -> exists s1', runs ps body' s' s1' /\ ext_eq s1 s1') /\
  (forall s1', runs ps body' s' s1' -> exists s1, runs ps body s s1 /\ ext_eq s1 s1').
Proof.
  intros cs body' Hw HE HI.
  assert (Eb : body' = dfv_rm (mem (dfv_dict cs)) body).
  { unfold body', dfv_transform. cbn [snd]. apply dfv_rm_ext. intros x. symmetry.
    apply dfv_dict_keys. intros k e. apply dfv_chosen_const. }
  rewrite Eb. now apply dfv_sound_partial.
Qed.

(** a loop variable initialised once with a literal is turned into a constant that the DO statement then writes *)
Example dfv_invalid_witness :
  let body := [SAssign "i" (EInt 0); SDo "i" (EInt 1) (EVar "n") None [SStore "a" [EVar "i"] (EVar "i")]]%string in
  let r := dfv_transform ["n"; "a"]%string ["n"; "i"]%string body in
  fst r = [("i"%string, EInt 0)] /\ dfv_valid (fst r) (snd r) = false.
Proof. vm_compute. split; reflexivity. Qed.
