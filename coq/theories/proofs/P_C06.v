(** C06 — main statements: the printed text denotes the tree on the class; witnesses outside the class. *)
From Coq Require Import ZArith List Bool String Lia.
From LV Require Import Base.Expr models.M_C06 proofs.P_C06_base proofs.P_C06_arith proofs.P_C06_logic.
Import ListNotations.
Open Scope Z_scope.
Open Scope string_scope.
Open Scope list_scope.

(** * On the class *)
Lemma print_denotes_arith e : arith_safe e = true ->
  exists t, G LExpr (print_f e PREC_NONE) t /\ forall rho, evalF rho t = evalZ rho e.
Proof.
  unfold arith_safe, print_f. destruct (classify e (MP PREC_NONE)) as [k|] eqn:E; [|discriminate]. intros _.
  destruct (classify_mp e _ k E) as (t & HR & Hv). exists t. split; [apply RA_expr with k, HR | exact Hv].
Qed.

Lemma print_denotes_logic e : logic_safe e = true ->
  exists t, G LExpr (print_f e PREC_NONE) t /\ forall rho, evalFB rho t = evalB rho e.
Proof.
  unfold logic_safe, print_f. destruct (classifyB e PREC_NONE) as [k|] eqn:E; [|discriminate]. intros _.
  destruct (classifyB_sound e _ k E) as (t & HR & Hv). exists t. split; [apply RB_expr with k, HR | exact Hv].
Qed.

Lemma print_denotes_on_class e : fortran_safe e = true ->
  exists t, G LExpr (print_f e PREC_NONE) t /\
    ((arith_safe e = true /\ forall rho, evalF rho t = evalZ rho e) \/
     (logic_safe e = true /\ forall rho, evalFB rho t = evalB rho e)).
Proof.
  unfold fortran_safe. destruct (arith_safe e) eqn:Ea.
  - intros _. destruct (print_denotes_arith e Ea) as (t & HG & Hv). exists t. split; [exact HG | left; split; [reflexivity | exact Hv]].
  - cbn [orb]. intro El. destruct (print_denotes_logic e El) as (t & HG & Hv).
    exists t. split; [exact HG | right; split; [exact El | exact Hv]].
Qed.

(** the statement with the enclosing precedence generalised: at every precedence at which the class predicate
    accepts the tree, the text is a phrase of the accepted grammar class *)
Lemma print_denotes_at_prec e p k : classify e (MP p) = Some k ->
  exists t, RA k (print_f e p) t /\ G LExpr (print_f e p) t /\ forall rho, evalF rho t = evalZ rho e.
Proof.
  intro E. destruct (classify_mp e p k E) as (t & HR & Hv). exists t.
  split; [exact HR|]. split; [apply RA_expr with k, HR | exact Hv].
Qed.

(** the hypotheses are satisfiable by non-trivial trees:  -a*b / c + (a - 2)**2 - mod(k, 3)  and
    a / (b*c) < -n .and. .not.(k == 1 .or. .false.) *)
Definition ex_arith : expr :=
  ESum false [EQuot false (EProd false [EPy (-1); EProd false [EVar "a"; EVar "b"]]) (EVar "c");
              EPow false (ESum true [EVar "a"; EProd false [EPy (-1); EInt 2]]) (EInt 2);
              EProd false [EPy (-1); ECall "mod" [EVar "k"; EInt 3]]].
Definition ex_logic : expr :=
  EAnd [ECmp Clt (EQuot false (EVar "a") (EProd true [EVar "b"; EVar "c"])) (EProd false [EPy (-1); EVar "n"]);
        ENot (EOr [ECmp Ceq (EVar "k") (EInt 1); ELog false])].
Lemma ex_arith_safe : arith_safe ex_arith = true. Proof. vm_compute. reflexivity. Qed.
Lemma ex_logic_safe : logic_safe ex_logic = true. Proof. vm_compute. reflexivity. Qed.

(** * Local well-formedness of derivable token lists (used to show that some printed texts are not Fortran) *)
Definition ender (t : token) : bool := match t with TInt _ | TVar _ | TTrue | TFalse | TRP => true | _ => false end.
Definition starter (t : token) : bool := match t with TInt _ | TVar _ | TTrue | TFalse | TLP => true | _ => false end.
Definition lvl_rank (l : lvl) : nat :=
  match l with LPrim => 0 | LMul => 1 | LAdd => 2 | L2 => 3 | L4 => 4 | LAndOp => 5 | LOrOp => 6 | LExpr => 7 end%nat.
Definition first_ok (l : lvl) (t : token) : bool :=
  match t with
  | TMinus | TPlus => Nat.leb 3 (lvl_rank l)
  | TNot => Nat.leb 5 (lvl_rank l)
  | _ => starter t
  end.
Definition after_operand (b : token) : bool :=
  match b with TPow | TStar | TSlash | TPlus | TMinus | TRel _ | TAnd | TOr | TRP | TComma => true | _ => false end.
Definition adj_ok (a b : token) : bool :=
  match a with
  | TInt _ | TTrue | TFalse | TRP => after_operand b
  | TVar _ => after_operand b || match b with TLP => true | _ => false end
  | TPow | TStar | TSlash => first_ok LMul b
  | TPlus | TMinus => first_ok LAdd b
  | TRel _ => first_ok L2 b
  | TNot => first_ok L4 b
  | TAnd => first_ok LAndOp b
  | TOr => first_ok LOrOp b
  | TLP => first_ok LExpr b || match b with TRP => true | _ => false end
  | TComma => first_ok LExpr b
  | TErr => false
  end.
Fixpoint okpairs (ts : list token) : bool :=
  match ts with
  | a :: ((b :: _) as r) => adj_ok a b && okpairs r
  | _ => true
  end.
Definition wf_toks (l : lvl) (ts : list token) : bool :=
  match ts with
  | [] => false
  | x :: _ => first_ok l x && ender (last ts TErr) && okpairs ts
  end.

Lemma okpairs_app xs y ys : xs <> [] ->
  okpairs (xs ++ y :: ys) = okpairs xs && adj_ok (last xs TErr) y && okpairs (y :: ys).
Proof.
  induction xs as [|a [|b r] IH]; [congruence | |]; intros _.
  - cbn. reflexivity.
  - change ((a :: b :: r) ++ y :: ys) with (a :: ((b :: r) ++ y :: ys)).
    change (okpairs (a :: (b :: r) ++ y :: ys)) with (adj_ok a b && okpairs ((b :: r) ++ y :: ys)).
    rewrite IH by discriminate.
    change (okpairs (a :: b :: r)) with (adj_ok a b && okpairs (b :: r)).
    change (last (a :: b :: r) TErr) with (last (b :: r) TErr).
    rewrite !andb_assoc. reflexivity.
Qed.

Lemma last_app_cons (xs : list token) y ys d : last (xs ++ y :: ys) d = last (y :: ys) d.
Proof.
  induction xs as [|a r IH]; [reflexivity|].
  cbn [app]. destruct (r ++ y :: ys) as [|t l] eqn:E; [destruct r; discriminate|].
  change (last (a :: t :: l) d) with (last (t :: l) d). exact IH.
Qed.

Lemma first_ok_mono l l' x : (lvl_rank l <= lvl_rank l')%nat -> first_ok l x = true -> first_ok l' x = true.
Proof.
  destruct x; try (intros _ E; exact E); destruct l, l'; cbn; intros; try reflexivity; try discriminate; lia.
Qed.

Lemma ender_after e op : ender e = true -> after_operand op = true -> adj_ok e op = true.
Proof. destruct e; cbn; try discriminate; intros _ E; rewrite ?E; reflexivity. Qed.

Lemma wf_bin l1 l2 l op ts1 ts2 :
  wf_toks l1 ts1 = true -> wf_toks l2 ts2 = true ->
  (lvl_rank l1 <= lvl_rank l)%nat -> after_operand op = true ->
  (forall x, first_ok l2 x = true -> adj_ok op x = true) ->
  wf_toks l (ts1 ++ op :: ts2) = true.
Proof.
  intros H1 H2 Hle Hop Hadj.
  destruct ts1 as [|x1 r1]; [discriminate|]. destruct ts2 as [|x2 r2]; [discriminate|].
  cbn [wf_toks] in H1, H2.
  apply andb_prop in H1. destruct H1 as [H1 Hp1]. apply andb_prop in H1. destruct H1 as [Hf1 He1].
  apply andb_prop in H2. destruct H2 as [H2 Hp2]. apply andb_prop in H2. destruct H2 as [Hf2 He2].
  change ((x1 :: r1) ++ op :: x2 :: r2) with (x1 :: (r1 ++ op :: x2 :: r2)). cbn [wf_toks].
  change (x1 :: r1 ++ op :: x2 :: r2) with ((x1 :: r1) ++ op :: x2 :: r2).
  rewrite last_app_cons, okpairs_app by discriminate.
  change (last (op :: x2 :: r2) TErr) with (last (x2 :: r2) TErr).
  change (okpairs (op :: x2 :: r2)) with (adj_ok op x2 && okpairs (x2 :: r2)).
  rewrite (first_ok_mono l1 l x1 Hle Hf1), He2, Hp1, Hp2, (ender_after _ _ He1 Hop), (Hadj _ Hf2). reflexivity.
Qed.

Lemma wf_pre l2 l op ts :
  wf_toks l2 ts = true -> first_ok l op = true ->
  (forall x, first_ok l2 x = true -> adj_ok op x = true) ->
  wf_toks l (op :: ts) = true.
Proof.
  intros H2 Hop Hadj. destruct ts as [|x2 r2]; [discriminate|].
  cbn [wf_toks] in H2.
  apply andb_prop in H2. destruct H2 as [H2 Hp2]. apply andb_prop in H2. destruct H2 as [Hf2 He2].
  cbn [wf_toks]. change (last (op :: x2 :: r2) TErr) with (last (x2 :: r2) TErr).
  change (okpairs (op :: x2 :: r2)) with (adj_ok op x2 && okpairs (x2 :: r2)).
  rewrite Hop, He2, Hp2, (Hadj _ Hf2). reflexivity.
Qed.

Lemma wf_mono l l' ts : (lvl_rank l <= lvl_rank l')%nat -> wf_toks l ts = true -> wf_toks l' ts = true.
Proof.
  intros Hle. destruct ts as [|x r]; [discriminate|]. cbn [wf_toks]. intro H.
  apply andb_prop in H. destruct H as [H Hp]. apply andb_prop in H. destruct H as [Hf He].
  rewrite (first_ok_mono l l' x Hle Hf), He, Hp. reflexivity.
Qed.

Lemma wf_close ts : wf_toks LExpr ts = true -> forall c, (c = TRP \/ c = TComma) ->
  exists x r, ts = x :: r /\ first_ok LExpr x = true /\ okpairs (ts ++ [c]) = true.
Proof.
  intros H c Hc. destruct ts as [|x r]; [discriminate|]. cbn [wf_toks] in H.
  apply andb_prop in H. destruct H as [H Hp]. apply andb_prop in H. destruct H as [Hf He].
  exists x, r. split; [reflexivity|]. split; [exact Hf|].
  rewrite okpairs_app by discriminate. rewrite Hp. cbn [okpairs]. rewrite andb_true_r.
  rewrite ender_after; [reflexivity | exact He | destruct Hc; subst; reflexivity].
Qed.

Lemma wf_paren_like (pre : list token) ts :
  wf_toks LExpr ts = true -> wf_toks LPrim (TLP :: ts ++ [TRP]) = true.
Proof.
  intros H. destruct (wf_close ts H TRP (or_introl eq_refl)) as (x & r & -> & Hf & Hp).
  cbn [wf_toks]. change (TLP :: (x :: r) ++ [TRP]) with ([TLP] ++ x :: (r ++ [TRP])).
  rewrite last_app_cons.
  change (x :: r ++ [TRP]) with ((x :: r) ++ [TRP]). rewrite last_app_cons.
  change ([TLP] ++ (x :: r) ++ [TRP]) with (TLP :: (x :: r) ++ [TRP]).
  change (okpairs (TLP :: (x :: r) ++ [TRP])) with (adj_ok TLP x && okpairs ((x :: r) ++ [TRP])).
  rewrite Hp. cbn [adj_ok]. rewrite Hf. reflexivity.
Qed.

Definition wf_args (ts : list token) : Prop :=
  exists x r, ts = x :: r /\ first_ok LExpr x = true /\ okpairs (ts ++ [TRP]) = true.

Scheme G_mind := Minimality for G Sort Prop
  with Gargs_mind := Minimality for Gargs Sort Prop.
Combined Scheme G_Gargs_mind from G_mind, Gargs_mind.

Lemma G_wf_both :
  (forall l ts t, G l ts t -> wf_toks l ts = true) /\ (forall ts args, Gargs ts args -> wf_args ts).
Proof.
  apply G_Gargs_mind; intros.
  - reflexivity.
  - reflexivity.
  - reflexivity.
  - reflexivity.
  - apply (wf_paren_like []); assumption.
  - reflexivity.
  - (* call *)
    destruct H0 as (x & r & -> & Hf & Hp).
    cbn [wf_toks first_ok starter andb].
    change (TVar f :: TLP :: (x :: r) ++ [TRP]) with ([TVar f; TLP] ++ x :: (r ++ [TRP])).
    rewrite last_app_cons. change (x :: r ++ [TRP]) with ((x :: r) ++ [TRP]). rewrite last_app_cons.
    change ([TVar f; TLP] ++ (x :: r) ++ [TRP]) with (TVar f :: TLP :: (x :: r) ++ [TRP]).
    change (okpairs (TVar f :: TLP :: (x :: r) ++ [TRP])) with (adj_ok (TVar f) TLP && (adj_ok TLP x && okpairs ((x :: r) ++ [TRP]))).
    rewrite Hp. cbn [adj_ok]. rewrite Hf. reflexivity.
  - apply wf_mono with LPrim; [cbn; lia | assumption].
  - apply wf_bin with LPrim LMul; try assumption; [cbn; lia | reflexivity | intros x Hx; exact Hx].
  - apply wf_mono with LMul; [cbn; lia | assumption].
  - apply wf_bin with LAdd LMul; try assumption; [cbn; lia | reflexivity | intros x Hx; exact Hx].
  - apply wf_bin with LAdd LMul; try assumption; [cbn; lia | reflexivity | intros x Hx; exact Hx].
  - apply wf_mono with LAdd; [cbn; lia | assumption].
  - apply wf_pre with LAdd; try assumption; [reflexivity | intros x Hx; exact Hx].
  - apply wf_pre with LAdd; try assumption; [reflexivity | intros x Hx; exact Hx].
  - apply wf_bin with L2 LAdd; try assumption; [cbn; lia | reflexivity | intros x Hx; exact Hx].
  - apply wf_bin with L2 LAdd; try assumption; [cbn; lia | reflexivity | intros x Hx; exact Hx].
  - apply wf_mono with L2; [cbn; lia | assumption].
  - apply wf_bin with L2 L2; try assumption; [cbn; lia | reflexivity | intros x Hx; exact Hx].
  - apply wf_mono with L4; [cbn; lia | assumption].
  - apply wf_pre with L4; try assumption; [reflexivity | intros x Hx; exact Hx].
  - apply wf_mono with LAndOp; [cbn; lia | assumption].
  - apply wf_bin with LOrOp LAndOp; try assumption; [cbn; lia | reflexivity | intros x Hx; exact Hx].
  - apply wf_mono with LOrOp; [cbn; lia | assumption].
  - apply wf_bin with LExpr LOrOp; try assumption; [cbn; lia | reflexivity | intros x Hx; exact Hx].
  - (* one argument *) apply wf_close; [assumption | left; reflexivity].
  - (* more arguments *)
    destruct (wf_close ts H0 TComma (or_intror eq_refl)) as (x & r & -> & Hf & Hp).
    destruct H2 as (y & s & -> & Hfy & Hpy).
    exists x, (r ++ TComma :: y :: s). split; [reflexivity|]. split; [exact Hf|].
    replace (((x :: r) ++ TComma :: y :: s) ++ [TRP]) with (((x :: r) ++ [TComma]) ++ y :: (s ++ [TRP]))
      by (rewrite <- !app_assoc; reflexivity).
    rewrite okpairs_app by (destruct r; discriminate).
    rewrite Hp. replace (last ((x :: r) ++ [TComma]) TErr) with TComma by (symmetry; apply (last_app_cons (x :: r) TComma [] TErr)).
    change (y :: s ++ [TRP]) with ((y :: s) ++ [TRP]). rewrite Hpy. cbn [adj_ok]. rewrite Hfy. reflexivity.
Qed.

Lemma G_wf l ts t : G l ts t -> wf_toks l ts = true.
Proof. apply (proj1 G_wf_both). Qed.

Lemma not_fortran ts : wf_toks LExpr ts = false -> forall t, ~ G LExpr ts t.
Proof. intros E t H. apply G_wf in H. congruence. Qed.

(** * Witnesses outside the class (finding F1): what FCodeMapper prints for them either is not a Fortran
    expression at all, or is one with a different value; the reference reader agrees in each case *)
Definition va := EVar "a". Definition vb := EVar "b". Definition vc := EVar "c".
Definition rho_w (a b c : Z) : env := env_of [("a", a); ("b", b); ("c", c)].

Ltac derive_step c l r := apply (c l _ r _).

(** a / (b*c) without the parentheses *)
Definition w_quot_prod := EQuot false va (EProd false [vb; vc]).
Lemma print_refuted_quot_prod :
  print_f w_quot_prod 0 = [TVar "a"; TSlash; TVar "b"; TStar; TVar "c"] /\
  (exists t, G LExpr (print_f w_quot_prod 0) t /\ ref_parse (print_f w_quot_prod 0) = Some t /\
             evalF (rho_w 8 2 2) t = Some 8 /\ evalZ (rho_w 8 2 2) w_quot_prod = Some 2).
Proof.
  split; [reflexivity|]. exists (FBin BMul (FBin BDiv (FVar "a") (FVar "b")) (FVar "c")).
  split; [|repeat split; vm_compute; reflexivity].
  apply (G_to_expr LAdd). change (print_f w_quot_prod 0) with ([TVar "a"; TSlash; TVar "b"] ++ TStar :: [TVar "c"]).
  apply G_times; [|apply G_mul_prim, G_var].
  change [TVar "a"; TSlash; TVar "b"] with ([TVar "a"] ++ TSlash :: [TVar "b"]).
  apply G_div; [apply G_prim_add, G_var | apply G_mul_prim, G_var].
Qed.

(** a / (b / c) without the parentheses *)
Definition w_quot_quot := EQuot false va (EQuot false vb vc).
Lemma print_refuted_quot_quot :
  print_f w_quot_quot 0 = [TVar "a"; TSlash; TVar "b"; TSlash; TVar "c"] /\
  (exists t, G LExpr (print_f w_quot_quot 0) t /\ ref_parse (print_f w_quot_quot 0) = Some t /\
             evalF (rho_w 8 4 2) t = Some 1 /\ evalZ (rho_w 8 4 2) w_quot_quot = Some 4).
Proof.
  split; [reflexivity|]. exists (FBin BDiv (FBin BDiv (FVar "a") (FVar "b")) (FVar "c")).
  split; [|repeat split; vm_compute; reflexivity].
  apply (G_to_expr LAdd). change (print_f w_quot_quot 0) with ([TVar "a"; TSlash; TVar "b"] ++ TSlash :: [TVar "c"]).
  apply G_div; [|apply G_mul_prim, G_var].
  change [TVar "a"; TSlash; TVar "b"] with ([TVar "a"] ++ TSlash :: [TVar "b"]).
  apply G_div; [apply G_prim_add, G_var | apply G_mul_prim, G_var].
Qed.

(** a * (b / c) without the parentheses: integer division *)
Definition w_prod_quot := EProd false [va; EQuot false vb vc].
Lemma print_refuted_prod_quot :
  print_f w_prod_quot 0 = [TVar "a"; TStar; TVar "b"; TSlash; TVar "c"] /\
  (exists t, G LExpr (print_f w_prod_quot 0) t /\ ref_parse (print_f w_prod_quot 0) = Some t /\
             evalF (rho_w 2 1 2) t = Some 1 /\ evalZ (rho_w 2 1 2) w_prod_quot = Some 0).
Proof.
  split; [reflexivity|]. exists (FBin BDiv (FBin BMul (FVar "a") (FVar "b")) (FVar "c")).
  split; [|repeat split; vm_compute; reflexivity].
  apply (G_to_expr LAdd). change (print_f w_prod_quot 0) with ([TVar "a"; TStar; TVar "b"] ++ TSlash :: [TVar "c"]).
  apply G_div; [|apply G_mul_prim, G_var].
  change [TVar "a"; TStar; TVar "b"] with ([TVar "a"] ++ TStar :: [TVar "b"]).
  apply G_times; [apply G_prim_add, G_var | apply G_mul_prim, G_var].
Qed.

(** (a**b)**c without the parentheses: ** associates to the right *)
Definition w_pow_pow := EPow false (EPow false va vb) vc.
Lemma print_refuted_pow_pow :
  print_f w_pow_pow 0 = [TVar "a"; TPow; TVar "b"; TPow; TVar "c"] /\
  (exists t, G LExpr (print_f w_pow_pow 0) t /\ ref_parse (print_f w_pow_pow 0) = Some t /\
             evalF (rho_w 2 3 2) t = Some 512 /\ evalZ (rho_w 2 3 2) w_pow_pow = Some 64).
Proof.
  split; [reflexivity|]. exists (FBin BPow (FVar "a") (FBin BPow (FVar "b") (FVar "c"))).
  split; [|repeat split; vm_compute; reflexivity].
  apply (G_to_expr LMul). change (print_f w_pow_pow 0) with ([TVar "a"] ++ TPow :: [TVar "b"; TPow; TVar "c"]).
  apply G_pow; [apply G_var|].
  change [TVar "b"; TPow; TVar "c"] with ([TVar "b"] ++ TPow :: [TVar "c"]).
  apply G_pow; [apply G_var | apply G_mul_prim, G_var].
Qed.

(** IntLiteral(-3)**2: the literal is printed bare and the sign applies to the power *)
Definition w_neg_base := EPow false (EInt (-3)) (EInt 2).
Lemma print_refuted_neg_base :
  print_f w_neg_base 0 = [TMinus; TInt 3; TPow; TInt 2] /\
  (exists t, G LExpr (print_f w_neg_base 0) t /\ ref_parse (print_f w_neg_base 0) = Some t /\
             evalF (rho_w 0 0 0) t = Some (-9) /\ evalZ (rho_w 0 0 0) w_neg_base = Some 9).
Proof.
  split; [reflexivity|]. exists (FNeg (FBin BPow (FInt 3) (FInt 2))).
  split; [|repeat split; vm_compute; reflexivity].
  apply G_l2_expr. change (print_f w_neg_base 0) with (TMinus :: [TInt 3] ++ TPow :: [TInt 2]).
  apply G_neg, G_add_mul, G_pow; [apply G_int; lia | apply G_mul_prim, G_int; lia].
Qed.

(** a * (-b): "a*-b" is not a Fortran expression (and the reference reader rejects it) *)
Definition w_mul_neg := EProd false [va; EProd false [EPy (-1); vb]].
Lemma print_refuted_mul_neg :
  print_f w_mul_neg 0 = [TVar "a"; TStar; TMinus; TVar "b"] /\
  (forall t, ~ G LExpr (print_f w_mul_neg 0) t) /\ ref_parse (print_f w_mul_neg 0) = None /\
  evalZ (rho_w 2 3 0) w_mul_neg = Some (-6).
Proof. split; [reflexivity|]. split; [apply not_fortran; reflexivity|]. split; vm_compute; reflexivity. Qed.

(** a + IntLiteral(-1): "a + -1" is not a Fortran expression *)
Definition w_add_neg := ESum false [va; EInt (-1)].
Lemma print_refuted_add_neg :
  print_f w_add_neg 0 = [TVar "a"; TPlus; TMinus; TInt 1] /\
  (forall t, ~ G LExpr (print_f w_add_neg 0) t) /\ ref_parse (print_f w_add_neg 0) = None /\
  evalZ (rho_w 2 0 0) w_add_neg = Some 1.
Proof. split; [reflexivity|]. split; [apply not_fortran; reflexivity|]. split; vm_compute; reflexivity. Qed.

(** .not. .not. (a < b): an and-operand takes a single .not. *)
Definition w_not_not := ENot (ENot (ECmp Clt va vb)).
Lemma print_refuted_not_not :
  print_f w_not_not 0 = [TNot; TNot; TLP; TVar "a"; TRel Clt; TVar "b"; TRP] /\
  (forall t, ~ G LExpr (print_f w_not_not 0) t) /\ ref_parse (print_f w_not_not 0) = None /\
  evalB (rho_w 1 2 0) w_not_not = Some true.
Proof. split; [reflexivity|]. split; [apply not_fortran; reflexivity|]. split; vm_compute; reflexivity. Qed.

(** none of the witnesses is in the class *)
Lemma witnesses_outside_class :
  forallb (fun e => negb (fortran_safe e))
    [w_quot_prod; w_quot_quot; w_prod_quot; w_pow_pow; w_neg_base; w_mul_neg; w_add_neg; w_not_not] = true.
Proof. vm_compute. reflexivity. Qed.
