(** C21 — proofs, part 3: SchedulerConfig.match_item_keys (case folding, scope rules, fnmatch subset),
    concrete witnesses for the places where the pruning is by-passed, and a non-trivial instance. *)
From Coq Require Import String Ascii List Bool Arith Lia.
From LV Require Import Base.Strings models.M_C21 proofs.P_C21 proofs.P_C21_fuel.
Import ListNotations.
Open Scope string_scope.
Open Scope list_scope.

(** * case folding *)
Lemma match_keys_case_insensitive pat par nm nm' keys keys' :
  lower nm = lower nm' -> map lower keys = map lower keys' ->
  match_keys pat par nm keys = match_keys pat par nm' keys'.
Proof. intros H1 H2. unfold match_keys, name_variants. now rewrite H1, H2. Qed.

Lemma matchb_case_insensitive pat par nm nm' keys keys' :
  lower nm = lower nm' -> map lower keys = map lower keys' ->
  matchb pat par nm keys = matchb pat par nm' keys'.
Proof. intros H1 H2. unfold matchb. now rewrite (match_keys_case_insensitive _ _ _ _ _ _ H1 H2). Qed.

Lemma match_keys_upper pat par nm keys :
  match_keys pat par (upper nm) (map upper keys) = match_keys pat par nm keys.
Proof.
  apply match_keys_case_insensitive; [apply lower_upper|].
  rewrite map_map. apply map_ext. intros; apply lower_upper.
Qed.

(** * splitting at '#' *)
Lemma split_on_none c s : has_char c s = false -> split_on c s = [s].
Proof.
  induction s as [|a r IH]; cbn; [reflexivity|].
  destruct (Ascii.eqb a c); [discriminate|]. intros H. now rewrite (IH H).
Qed.

Lemma split_on_app c a b : has_char c a = false ->
  split_on c (a +++ String c b) = a :: split_on c b.
Proof.
  induction a as [|x r IH]; cbn.
  - intros _. now rewrite Ascii.eqb_refl.
  - destruct (Ascii.eqb x c); [discriminate|]. intros H. now rewrite (IH H).
Qed.

Lemma lower_ascii_hash a : Ascii.eqb (lower_ascii a) "#" = Ascii.eqb a "#".
Proof. destruct a as [[] [] [] [] [] [] [] []]; reflexivity. Qed.
Lemma lower_ascii_pct a : Ascii.eqb (lower_ascii a) "%" = Ascii.eqb a "%".
Proof. destruct a as [[] [] [] [] [] [] [] []]; reflexivity. Qed.

Lemma has_hash_lower s : has_char "#" (lower s) = has_char "#" s.
Proof. induction s as [|a r IH]; cbn; [reflexivity|]. now rewrite lower_ascii_hash, IH. Qed.
Lemma has_pct_lower s : has_char "%" (lower s) = has_char "%" s.
Proof. induction s as [|a r IH]; cbn; [reflexivity|]. now rewrite lower_ascii_pct, IH. Qed.

Lemma lower_scoped a b : lower (a +++ "#" +++ b) = lower a +++ "#" +++ lower b.
Proof. rewrite !lower_app. reflexivity. Qed.

Lemma name_variants_local par local : has_char "#" local = false ->
  name_variants par local = Some (variants_of par (lower local) "" (lower local)).
Proof.
  intros H. unfold name_variants. rewrite split_on_none by now rewrite has_hash_lower. reflexivity.
Qed.

Lemma name_variants_scoped par scope local : has_char "#" scope = false -> has_char "#" local = false ->
  name_variants par (scope +++ "#" +++ local) =
  Some (variants_of par (lower scope +++ "#" +++ lower local) (lower scope) (lower local)).
Proof.
  intros H1 H2. unfold name_variants. rewrite lower_scoped.
  change (lower scope +++ "#" +++ lower local) with (lower scope +++ String "#" (lower local)).
  rewrite split_on_app by now rewrite has_hash_lower.
  rewrite split_on_none by now rewrite has_hash_lower. reflexivity.
Qed.

Lemma key_hits_plain vs k : key_hits false vs k = true <-> In k vs.
Proof.
  unfold key_hits. rewrite existsb_exists. split.
  - intros (v & Hv & E). apply String.eqb_eq in E. now subst.
  - intros H. exists k. split; [assumption|apply String.eqb_refl].
Qed.

(** default matching (what [create_item_config], the [disable] re-filter and the [block] test use):
    a key selects an item iff, after case folding, it is the fully qualified name or the local name *)
Lemma match_keys_spec scope local keys : has_char "#" scope = false -> has_char "#" local = false ->
  exists l, match_keys false false (scope +++ "#" +++ local) keys = Some l /\
    forall k, In k l <-> In k (map lower keys) /\
                         (k = lower scope +++ "#" +++ lower local \/ k = lower local).
Proof.
  intros H1 H2. unfold match_keys. rewrite name_variants_scoped by assumption. eexists. split; [reflexivity|].
  intros k. rewrite filter_In, key_hits_plain. cbn. intuition congruence.
Qed.

(** * the fnmatch subset *)
Inductive gmatch : string -> string -> Prop :=
| gm_nil : gmatch "" ""
| gm_star p s t : gmatch p t -> gmatch (String "*" p) (s +++ t)
| gm_q p c s : gmatch p s -> gmatch (String "?" p) (String c s)
| gm_lit c p s : c <> "*"%char -> c <> "?"%char -> gmatch p s -> gmatch (String c p) (String c s).

Lemma glob_star p s :
  glob (String "*" p) s =
  if glob p s then true else match s with EmptyString => false | String _ s' => glob (String "*" p) s' end.
Proof. destruct s; reflexivity. Qed.

Lemma glob_char c p s : c <> "*"%char ->
  glob (String c p) s =
  match s with
  | EmptyString => false
  | String d s' => if (Ascii.eqb c "?" || Ascii.eqb c d)%bool then glob p s' else false
  end.
Proof. intros H. cbn [glob]. destruct (Ascii.eqb_spec c "*"); [contradiction|reflexivity]. Qed.

Lemma gmatch_star_cons p a s : gmatch (String "*" p) s -> gmatch (String "*" p) (String a s).
Proof.
  intros H. inversion H; subst.
  - change (String a (s0 +++ t)) with (String a s0 +++ t). now constructor.
  - congruence.
Qed.

Lemma glob_sound : forall p s, glob p s = true -> gmatch p s.
Proof.
  induction p as [|c p IH]; intros s H.
  - destruct s; [constructor|discriminate].
  - destruct (ascii_dec c "*") as [->|Hc].
    + induction s as [|a s IHs].
      * rewrite glob_star in H. destruct (glob p "") eqn:E; [|discriminate].
        change "" with ("" +++ ""). constructor. now apply IH.
      * rewrite glob_star in H. destruct (glob p (String a s)) eqn:E.
        -- change (String a s) with ("" +++ String a s). constructor. now apply IH.
        -- apply gmatch_star_cons. now apply IHs.
    + rewrite glob_char in H by assumption. destruct s as [|d s]; [discriminate|].
      destruct (Ascii.eqb_spec c "?") as [->|Hq]; cbn [orb] in H.
      * constructor. now apply IH.
      * destruct (Ascii.eqb_spec c d) as [->|Hd]; [|discriminate]. constructor; auto.
Qed.

Lemma glob_complete p s : gmatch p s -> glob p s = true.
Proof.
  induction 1 as [|p s t H IH|p c s H IH|c p s Hc Hq H IH].
  - reflexivity.
  - induction s as [|a s IHs]; cbn [String.append].
    + rewrite glob_star, IH. reflexivity.
    + rewrite glob_star. destruct (glob p (String a (s +++ t))); [reflexivity|exact IHs].
  - rewrite glob_char by discriminate. replace (Ascii.eqb "?" "?") with true by reflexivity. cbn [orb]. exact IH.
  - rewrite glob_char by assumption. rewrite Ascii.eqb_refl, orb_true_r. exact IH.
Qed.

Lemma glob_spec p s : glob p s = true <-> gmatch p s.
Proof. split; [apply glob_sound|apply glob_complete]. Qed.

Lemma gmatch_refl s : gmatch s s.
Proof.
  induction s as [|c r IH]; [constructor|].
  destruct (ascii_dec c "*") as [->|Hs].
  - change (String "*" r) with ("*" +++ r) at 2. now constructor.
  - destruct (ascii_dec c "?") as [->|Hq]; [now constructor|now constructor].
Qed.

Lemma glob_refl s : glob s s = true.
Proof. apply glob_complete, gmatch_refl. Qed.

(** with [match_item_parents] the enclosing scope (module) name selects every member *)
Lemma match_keys_parent_scope pat scope local keys :
  has_char "#" scope = false -> has_char "#" local = false -> scope <> "" ->
  In (lower scope) (map lower keys) ->
  matchb pat true (scope +++ "#" +++ local) keys = true.
Proof.
  intros H1 H2 Hne Hk. unfold matchb, match_keys. rewrite name_variants_scoped by assumption.
  assert (Hin : In (lower scope) (filter (key_hits pat
              (variants_of true (lower scope +++ "#" +++ lower local) (lower scope) (lower local))) (map lower keys))).
  { apply filter_In. split; [assumption|]. unfold key_hits. apply existsb_exists. exists (lower scope). split.
    - unfold variants_of. right. right. apply in_app_iff. left.
      destruct (String.eqb_spec (lower scope) ""); [|now left].
      exfalso. apply Hne. destruct scope; [reflexivity|discriminate].
    - destruct pat; [|apply String.eqb_refl].
      apply glob_refl. }
  destruct (filter _ (map lower keys)); [destruct Hin|reflexivity].
Qed.

Definition no_wild (p : string) : bool := andb (negb (has_char "*" p)) (negb (has_char "?" p)).

(** a key without wildcards is matched literally, so plain matching is a special case of pattern matching *)
Lemma glob_literal : forall p s, no_wild p = true -> glob p s = String.eqb p s.
Proof.
  induction p as [|c p IH]; intros s H.
  - destruct s; reflexivity.
  - unfold no_wild in H. cbn [has_char] in H.
    destruct (Ascii.eqb_spec c "*") as [->|Hs]; [discriminate H|].
    destruct (Ascii.eqb_spec c "?") as [->|Hq]; [rewrite andb_false_r in H; discriminate H|].
    rewrite glob_char by assumption. destruct s as [|d s]; [reflexivity|].
    cbn [String.eqb]. destruct (Ascii.eqb_spec c "?"); [contradiction|]. cbn [orb].
    destruct (Ascii.eqb c d); [|reflexivity]. apply IH. exact H.
Qed.

Lemma key_hits_plain_pattern vs k : no_wild k = true -> key_hits true vs k = key_hits false vs k.
Proof.
  intros H. unfold key_hits. induction vs as [|v r IH]; cbn; [reflexivity|].
  now rewrite glob_literal, IH.
Qed.

(** * the two places where a dependency escapes the pattern / scope pruning (unqualified USE) *)
Definition cfg0 : icfg := mk_icfg true [] [] [] false.

Definition inp_block_escape : input :=
  mk_input false []
    [ ("#drv", (mk_icfg true [] ["k*"] [] false, [DImport "km_mod" []; DCallUnq "k1" ["km_mod"] false]));
      ("km_mod#k1", (cfg0, [])); ("km_mod", (cfg0, [])) ]
    ["drv"] ["#drv"] [("km_mod", (["k1"], ["k1"]))] true.

Lemma blocked_pattern_escapes_refuted :
  exists inp s x y c ds,
    populate inp = Ok s /\ In (x, y) (edges s) /\ lookup x (i_table inp) = Some (c, ds) /\
    early (i_gdisable inp) c y = true.
Proof.
  exists inp_block_escape. eexists. exists "#drv", "km_mod#k1". do 2 eexists.
  split; [vm_compute; reflexivity|]. split; [vm_compute; tauto|]. split; vm_compute; reflexivity.
Qed.

Definition inp_phantom : input :=
  mk_input false ["km_mod"]
    [ ("#drv", (cfg0, [DImport "km_mod" []; DCallUnq "k1" ["km_mod"] false])); ("km_mod", (cfg0, [])) ]
    ["drv"] ["#drv"] [("km_mod", (["k1"], ["k1"]))] true.

(** the only candidate of the call is disabled, yet a node "#k1" (an external item) enters the graph *)
Lemma disabled_callee_phantom_refuted :
  exists inp s x c ds p m,
    populate inp = Ok s /\ lookup x (i_table inp) = Some (c, ds) /\ In x (nodes s) /\
    In (DCallUnq p [m] false) ds /\ gdis inp (m +++ "#" +++ p) = true /\ In ("#" +++ p) (nodes s).
Proof.
  exists inp_phantom. eexists. exists "#drv". do 2 eexists. exists "k1", "km_mod".
  split; [vm_compute; reflexivity|]. split; [vm_compute; reflexivity|].
  split; [vm_compute; tauto|]. split; [cbn; tauto|]. split; vm_compute; tauto.
Qed.

(** * a non-trivial instance: modules, a type-bound call, a disabled and a blocked callee, recursion *)
Definition inp_example : input :=
  mk_input true ["abort*"]
    [ ("m1_mod#r1", (mk_icfg true ["abort*"] ["m3_mod"] ["free1"] false,
         [DImport "m3_mod" []; DItem "m1_mod#ty1"; DItem "m2_mod#r2"; DItem "m3_mod#r3";
          DItem "m1_mod#ty1%bnd"; DItem "#free1"; DItem "#abort_now"]));
      ("m1_mod#ty1", (cfg0, []));
      ("m1_mod#ty1%bnd", (cfg0, [DItem "m1_mod#r1b"]));
      ("m1_mod#r1b", (cfg0, [DItem "m1_mod#ty1"]));
      ("m2_mod#r2", (mk_icfg true [] [] [] true, [DItem "m2_mod#r2"; DItem "m1_mod#r1b"]));
      ("#free1", (cfg0, [DImport "m2_mod" [("nvar", SKvar); ("r2", SKsub)]; DItem "#free2"]));
      ("#free2", (mk_icfg false [] [] [] false, [DItem "m3_mod#r3"]));
      ("m2_mod", (cfg0, [])); ("m3_mod#r3", (cfg0, [])) ]
    ["R1"] ["#free1"; "#free2"]
    [("m1_mod", (["r1"; "r1b"], ["r1"; "r1b"; "ty1"])); ("m2_mod", (["r2"], ["r2"])); ("m3_mod", (["r3"], ["r3"]))]
    true.

Example example_graph :
  scheduler_graph inp_example =
  Ok (mk_graph
        ["m1_mod#r1"; "m1_mod#ty1"; "m2_mod#r2"; "m1_mod#ty1%bnd"; "#free1"; "m1_mod#r1b"; "m2_mod"; "#free2"]
        [("m1_mod#r1", "m1_mod#ty1"); ("m1_mod#r1", "m2_mod#r2"); ("m1_mod#r1", "m1_mod#ty1%bnd");
         ("m1_mod#r1", "#free1"); ("m2_mod#r2", "m1_mod#r1b"); ("m1_mod#ty1%bnd", "m1_mod#r1b");
         ("#free1", "m2_mod"); ("#free1", "#free2"); ("m1_mod#r1b", "m1_mod#ty1")]
        ["#free1"; "m2_mod"; "#free2"]).
Proof. vm_compute. reflexivity. Qed.
