(** C40 — proofs, part 2: do_resolve_associates is idempotent (full and partial resolution). *)
From Coq Require Import ZArith List Bool String Lia.
From LV Require Import Base.Expr Base.MiniF models.M_C29 proofs.P_C29_fwd proofs.P_C29_more models.M_C40 proofs.P_C40_base.
Import ListNotations.
Open Scope Z_scope.
Open Scope list_scope.

(** * full resolution (start_depth = 0) *)

(** re-export of C29's theorem in the endofunction form *)
Lemma T_assoc_idem_c29 ss : T_assoc (T_assoc ss) = T_assoc ss.
Proof. unfold T_assoc. now rewrite resolve_idempotent. Qed.

(** the normal-form route: the output has no ASSOCIATE block ... *)
Lemma assoc_free_embed_stmt : forall st, assoc_free_stmt (embed_stmt st) = true.
Proof.
  induction st using stmt_ind'; cbn [embed_stmt assoc_free_stmt]; try reflexivity.
  - apply forallb_F. apply Forall_map. exact H.
  - apply andb_true_iff. split; apply forallb_F; apply Forall_map; assumption.
Qed.

Lemma assoc_free_embed p : assoc_free (embed p) = true.
Proof. unfold assoc_free, embed. apply forallb_F. apply Forall_map. apply Forall_forall. intros st _. apply assoc_free_embed_stmt. Qed.

Lemma T_assoc_nf ss : assoc_free (T_assoc ss) = true.
Proof. apply assoc_free_embed. Qed.

(** ... and on programs without ASSOCIATE blocks the transformation is the identity *)
Lemma embed_app a b : embed (a ++ b) = embed a ++ embed b.
Proof. unfold embed. apply map_app. Qed.

Lemma embed_resolve_list b :
  Forall (fun st => assoc_free_stmt st = true -> embed (resolve_stmt [] st) = [st]) b ->
  forallb assoc_free_stmt b = true -> embed (resolve_list [] b) = b.
Proof.
  induction 1 as [|st r H _ IH]; intros Hc; [reflexivity|].
  cbn [forallb] in Hc. apply andb_true_iff in Hc. destruct Hc as [H1 H2].
  rewrite resolve_list_cons, embed_app, (H H1), (IH H2). reflexivity.
Qed.

Lemma embed_resolve_stmt : forall st, assoc_free_stmt st = true -> embed (resolve_stmt [] st) = [st].
Proof.
  induction st using astmt_ind'; intros Hc.
  - cbn [resolve_stmt]. unfold resolve_assign. cbn [lookup]. now rewrite subst_nil.
  - cbn [resolve_stmt]. unfold resolve_store. cbn [lookup]. rewrite subst_nil.
    rewrite (map_id_F (subst [])); [reflexivity|]. apply Forall_forall. intros x _. apply subst_nil.
  - cbn [assoc_free_stmt] in Hc. rewrite resolve_do. unfold embed at 1. cbn [map embed_stmt].
    fold (embed (resolve_list [] b)). rewrite (embed_resolve_list b H Hc).
    unfold subst_name. cbn [lookup]. rewrite !subst_nil.
    destruct st as [e|]; cbn [option_map]; [now rewrite subst_nil|reflexivity].
  - cbn [assoc_free_stmt] in Hc. apply andb_true_iff in Hc. destruct Hc as [H1 H2].
    rewrite resolve_if. unfold embed at 1. cbn [map embed_stmt].
    fold (embed (resolve_list [] t)) (embed (resolve_list [] e)).
    now rewrite (embed_resolve_list t H H1), (embed_resolve_list e H0 H2), subst_nil.
  - reflexivity.
  - discriminate.
Qed.

Lemma T_assoc_fix ss : assoc_free ss = true -> T_assoc ss = ss.
Proof.
  intros H. unfold T_assoc, resolve. apply embed_resolve_list; [|exact H].
  apply Forall_forall. intros st _. apply embed_resolve_stmt.
Qed.

Theorem T_assoc_idem ss : T_assoc (T_assoc ss) = T_assoc ss.
Proof. apply T_assoc_fix, T_assoc_nf. Qed.

(** * partial resolution (start_depth = sd) *)

Lemma assoc_free_shallow sd : forall st d, assoc_free_stmt st = true -> shallow_stmt sd d st = true.
Proof.
  induction st using astmt_ind'; intros d Hc; cbn [shallow_stmt]; try reflexivity.
  - cbn [assoc_free_stmt] in Hc. apply forallb_F. apply forallb_F in Hc.
    eapply Forall_mp; [|exact Hc]. eapply Forall_impl; [|exact H]. intros a Ha. apply Ha.
  - cbn [assoc_free_stmt] in Hc. apply andb_true_iff in Hc. destruct Hc as [H1 H2].
    apply andb_true_iff. split; apply forallb_F.
    + apply forallb_F in H1. eapply Forall_mp; [|exact H1]. eapply Forall_impl; [|exact H]. intros a Ha. apply Ha.
    + apply forallb_F in H2. eapply Forall_mp; [|exact H2]. eapply Forall_impl; [|exact H0]. intros a Ha. apply Ha.
  - discriminate.
Qed.

(** on shallow programs the partial resolution is the identity *)
Lemma resolve_sd_fix_list sd d b :
  Forall (fun st => forall d, shallow_stmt sd d st = true -> resolve_sd_stmt sd d [] st = [st]) b ->
  forallb (shallow_stmt sd d) b = true -> flat_map (resolve_sd_stmt sd d []) b = b.
Proof.
  induction 1 as [|st r H _ IH]; intros Hc; [reflexivity|].
  cbn [forallb] in Hc. apply andb_true_iff in Hc. destruct Hc as [H1 H2].
  cbn [flat_map]. now rewrite (H d H1), (IH H2).
Qed.

Lemma resolve_sd_fix_stmt sd : forall st d, shallow_stmt sd d st = true -> resolve_sd_stmt sd d [] st = [st].
Proof.
  induction st using astmt_ind'; intros d Hc.
  - cbn [resolve_sd_stmt]. unfold resolve_assign. cbn [lookup core_of]. now rewrite subst_nil.
  - cbn [resolve_sd_stmt]. unfold resolve_store. cbn [lookup core_of]. rewrite subst_nil.
    rewrite (map_id_F (subst [])); [reflexivity|]. apply Forall_forall. intros x _. apply subst_nil.
  - cbn [shallow_stmt] in Hc. cbn [resolve_sd_stmt]. rewrite (resolve_sd_fix_list sd d b H Hc).
    unfold subst_name. cbn [lookup]. rewrite !subst_nil.
    destruct st as [e|]; cbn [option_map]; [now rewrite subst_nil|reflexivity].
  - cbn [shallow_stmt] in Hc. apply andb_true_iff in Hc. destruct Hc as [H1 H2].
    cbn [resolve_sd_stmt]. now rewrite (resolve_sd_fix_list sd d t H H1), (resolve_sd_fix_list sd d e H0 H2), subst_nil.
  - reflexivity.
  - cbn [shallow_stmt] in Hc. apply andb_true_iff in Hc. destruct Hc as [H1 H2].
    cbn [resolve_sd_stmt]. rewrite H1. now rewrite (resolve_sd_fix_list sd (S d) b H H2).
Qed.

(** the output: shallow where blocks are kept, ASSOCIATE-free below the kept levels *)
Definition out_ok (sd d : nat) (st : astmt) : bool :=
  if (d <=? sd)%nat then shallow_stmt sd d st else assoc_free_stmt st.

Lemma out_ok_shallow sd d st : out_ok sd d st = true -> shallow_stmt sd d st = true.
Proof. unfold out_ok. destruct (d <=? sd)%nat; [auto|apply assoc_free_shallow]. Qed.

Lemma core_of_ok sd d st : out_ok sd d (core_of st) = true.
Proof. unfold out_ok. destruct st; cbn [core_of shallow_stmt assoc_free_stmt]; destruct (d <=? sd)%nat; reflexivity. Qed.

Lemma Forall_flat_map {A B} (P : B -> Prop) (f : A -> list B) l :
  Forall (fun x => Forall P (f x)) l -> Forall P (flat_map f l).
Proof. induction 1 as [|x l H _ IH]; cbn; [constructor|]. apply Forall_app. now split. Qed.

Lemma resolve_sd_out sd : forall st d sg, Forall (fun x => out_ok sd d x = true) (resolve_sd_stmt sd d sg st).
Proof.
  induction st using astmt_ind'; intros d sg.
  - cbn [resolve_sd_stmt]. constructor; [apply core_of_ok|constructor].
  - cbn [resolve_sd_stmt]. constructor; [apply core_of_ok|constructor].
  - cbn [resolve_sd_stmt]. constructor; [|constructor].
    assert (A : Forall (fun x => out_ok sd d x = true) (flat_map (resolve_sd_stmt sd d sg) b)).
    { apply Forall_flat_map. eapply Forall_impl; [|exact H]. intros a Ha. apply Ha. }
    unfold out_ok in *. destruct (d <=? sd)%nat; cbn [shallow_stmt assoc_free_stmt]; apply forallb_F; exact A.
  - cbn [resolve_sd_stmt]. constructor; [|constructor].
    assert (A : Forall (fun x => out_ok sd d x = true) (flat_map (resolve_sd_stmt sd d sg) t)).
    { apply Forall_flat_map. eapply Forall_impl; [|exact H]. intros a Ha. apply Ha. }
    assert (B : Forall (fun x => out_ok sd d x = true) (flat_map (resolve_sd_stmt sd d sg) e)).
    { apply Forall_flat_map. eapply Forall_impl; [|exact H0]. intros a Ha. apply Ha. }
    unfold out_ok in *. destruct (d <=? sd)%nat; cbn [shallow_stmt assoc_free_stmt];
      apply andb_true_iff; split; apply forallb_F; assumption.
  - cbn [resolve_sd_stmt]. constructor; [|constructor]. unfold out_ok. destruct (d <=? sd)%nat; reflexivity.
  - cbn [resolve_sd_stmt]. destruct (d <=? sd)%nat eqn:E.
    + constructor; [|constructor]. unfold out_ok. rewrite E. cbn [shallow_stmt]. rewrite E. cbn [andb].
      apply forallb_F.
      assert (A : Forall (fun x => out_ok sd (S d) x = true) (flat_map (resolve_sd_stmt sd (S d) sg) b)).
      { apply Forall_flat_map. eapply Forall_impl; [|exact H]. intros x Hx. apply Hx. }
      eapply Forall_impl; [|exact A]. intros x Hx. now apply out_ok_shallow.
    + assert (A : Forall (fun x => out_ok sd (S d) x = true)
                    (flat_map (resolve_sd_stmt sd (S d) (subst_assocs sg a ++ sg)) b)).
      { apply Forall_flat_map. eapply Forall_impl; [|exact H]. intros x Hx. apply Hx. }
      eapply Forall_impl; [|exact A]. intros x Hx. unfold out_ok in *. rewrite E.
      apply Nat.leb_gt in E. assert (E2 : (S d <=? sd)%nat = false) by (apply Nat.leb_gt; lia).
      now rewrite E2 in Hx.
Qed.

Lemma resolve_sd_nf sd ss : shallow sd (resolve_sd sd ss) = true.
Proof.
  unfold shallow, resolve_sd. apply forallb_F. apply Forall_flat_map.
  apply Forall_forall. intros st _. eapply Forall_impl; [|apply (resolve_sd_out sd st 1%nat [])].
  intros x Hx. now apply out_ok_shallow.
Qed.

Lemma resolve_sd_fix sd ss : shallow sd ss = true -> resolve_sd sd ss = ss.
Proof.
  intros H. unfold resolve_sd. apply resolve_sd_fix_list; [|exact H].
  apply Forall_forall. intros st _. apply resolve_sd_fix_stmt.
Qed.

Theorem resolve_sd_idem sd ss : resolve_sd sd (resolve_sd sd ss) = resolve_sd sd ss.
Proof. apply resolve_sd_fix, resolve_sd_nf. Qed.

(** * merging is NOT idempotent: three nested blocks need two applications (model of C29, witness) *)
Open Scope string_scope.
Definition w_merge3 : list astmt :=
  [AAssoc [("h", SName "b")]
     [AAssoc [("p", SSec "brr" [DFree 0])]
        [AAssoc [("g", SSec "p" [DFree 0]); ("x", SSec "brr" [DFix (EVar "k")])]
           [AStore "arr" [EVar "n"] (ESum false [ECall "g" [EInt 1]; EVar "x"])]]]].

Lemma merge_not_idempotent :
  exists ss m1 m2, merge_list ss = Some m1 /\ merge_list m1 = Some m2 /\ m2 <> m1.
Proof.
  exists w_merge3. eexists. eexists.
  split; [vm_compute; reflexivity|]. split; [vm_compute; reflexivity|].
  intros C. discriminate C.
Qed.
