(** C24 — facts about the path rule (FileWriteTransformation._get_file_path) of M_C24. *)
From Coq Require Import List Bool String Ascii Arith.
From LV Require Import models.M_C24.
Import ListNotations.
Open Scope string_scope.

(** * strings *)

Lemma app_assoc_s (a b c : string) : (a ++ b) ++ c = a ++ (b ++ c).
Proof. induction a as [|x a IH]; cbn; [reflexivity|now rewrite IH]. Qed.

Lemma app_nil_r_s (a : string) : a ++ "" = a.
Proof. induction a as [|x a IH]; cbn; [reflexivity|now rewrite IH]. Qed.

Lemma has_char_app c a b : has_char c (a ++ b) = has_char c a || has_char c b.
Proof. induction a as [|x a IH]; cbn; [reflexivity|]. rewrite IH. now rewrite orb_assoc. Qed.

Lemma rsplit_nochar c s : has_char c s = false -> rsplit c s = (s, None).
Proof.
  induction s as [|a r IH]; cbn; [reflexivity|]. intros H.
  apply orb_false_iff in H as [Ha Hr]. rewrite (IH Hr). now rewrite Ha.
Qed.

Lemma rsplit_last c b t : has_char c t = false -> rsplit c (b ++ String c t) = (b, Some t).
Proof.
  intros H. induction b as [|a b IH]; cbn.
  - rewrite (rsplit_nochar _ _ H). now rewrite Ascii.eqb_refl.
  - now rewrite IH.
Qed.

Lemma rsplit_some c s b t : rsplit c s = (b, Some t) -> s = b ++ String c t /\ has_char c t = false.
Proof.
  revert b t. induction s as [|a r IH]; cbn; intros b t H; [discriminate|].
  destruct (rsplit c r) as [b' [t'|]] eqn:E.
  - inversion H; subst. destruct (IH _ _ eq_refl) as [-> Ht]. now split.
  - destruct (Ascii.eqb a c) eqn:Ea; [|discriminate].
    inversion H; subst. apply Ascii.eqb_eq in Ea as ->.
    split; [reflexivity|].
    clear IH H. revert b' E. induction t as [|x t IHt]; cbn; intros; [reflexivity|].
    destruct (rsplit c t) as [b2 [t2|]] eqn:E2; [discriminate|].
    destruct (Ascii.eqb x c) eqn:Ex; [discriminate|]. cbn. eapply IHt. reflexivity.
Qed.

Lemma rsplit_none c s b : rsplit c s = (b, None) -> b = s /\ has_char c s = false.
Proof.
  revert b. induction s as [|a r IH]; cbn; intros b H; [inversion H; now split|].
  destruct (rsplit c r) as [b' [t'|]] eqn:E; [discriminate|].
  destruct (Ascii.eqb a c) eqn:Ea; [discriminate|]. inversion H; subst.
  destruct (IH _ eq_refl) as [_ Hr]. now rewrite Hr.
Qed.

(** * names and directories *)

Lemma basename_nochar p : has_char "/"%char (basename p) = false.
Proof.
  unfold basename. destruct (rsplit "/"%char p) as [b [t|]] eqn:E.
  - now destruct (rsplit_some _ _ _ _ E).
  - now destruct (rsplit_none _ _ _ E) as [-> H].
Qed.

Lemma dirpart_basename p : p = dirpart p ++ basename p.
Proof.
  unfold dirpart, basename. destruct (rsplit "/"%char p) as [b [t|]] eqn:E.
  - destruct (rsplit_some _ _ _ _ E) as [-> _]. now rewrite app_assoc_s.
  - now destruct (rsplit_none _ _ _ E) as [-> _].
Qed.

Lemma basename_dirpart p n : has_char "/"%char n = false -> basename (dirpart p ++ n) = n.
Proof.
  intros H. unfold dirpart, basename at 1. destruct (rsplit "/"%char p) as [b [t|]] eqn:E.
  - rewrite app_assoc_s. cbn [append]. now rewrite (rsplit_last _ _ _ H).
  - cbn [append]. now rewrite (rsplit_nochar _ _ H).
Qed.

Lemma dirpart_dirpart p n : has_char "/"%char n = false -> dirpart (dirpart p ++ n) = dirpart p.
Proof.
  intros H. unfold dirpart at 2 3. destruct (rsplit "/"%char p) as [b [t|]] eqn:E; unfold dirpart.
  - rewrite app_assoc_s. cbn [append]. now rewrite (rsplit_last _ _ _ H).
  - cbn [append]. now rewrite (rsplit_nochar _ _ H).
Qed.

Lemma py_stem_nochar c s : has_char c s = false -> has_char c (py_stem s) = false.
Proof.
  intros H. unfold py_stem. destruct (rsplit "."%char s) as [b [t|]] eqn:E; [|assumption].
  destruct (is_empty b || is_empty t); [assumption|].
  destruct (rsplit_some _ _ _ _ E) as [-> _]. rewrite has_char_app in H.
  now apply orb_false_iff in H as [H _].
Qed.

(** the name is the stem followed by the suffix *)
Lemma stem_suffix s : s = py_stem s ++ py_suffix s.
Proof.
  unfold py_stem, py_suffix. destruct (rsplit "."%char s) as [b [t|]] eqn:E.
  - destruct (is_empty b || is_empty t); [now rewrite app_nil_r_s|].
    now destruct (rsplit_some _ _ _ _ E) as [-> _].
  - now rewrite app_nil_r_s.
Qed.

Lemma replace_char_nochar a b s : a <> b -> has_char a (replace_char a b s) = false.
Proof.
  intros N. induction s as [|c r IH]; cbn; [reflexivity|]. rewrite IH, orb_false_r.
  destruct (Ascii.eqb c a) eqn:E; [|assumption].
  apply Ascii.eqb_neq. congruence.
Qed.

(** the mode part of a generated file name never contains a dash *)
Lemma mode_sanitised m : has_char "-"%char (mode_of m) = false.
Proof. unfold mode_of. apply replace_char_nochar. discriminate. Qed.

Lemma mode_default : mode_of None = "loki" /\ mode_of (Some "") = "loki".
Proof. split; reflexivity. Qed.

(** * with_suffix *)

Ltac dif := match goal with
            | |- context [if ?c then _ else _] => destruct c eqn:?
            | H : context [if ?c then _ else _] |- _ => destruct c eqn:?
            end.

Lemma with_suffix_some p sfx q :
  with_suffix p sfx = Some q ->
  q = dirpart p ++ py_stem (basename p) ++ sfx /\ has_char "/"%char sfx = false.
Proof.
  unfold with_suffix. intros E. repeat dif; try discriminate. inversion E. now split.
Qed.

Lemma with_suffix_basename p sfx q :
  with_suffix p sfx = Some q -> basename q = py_stem (basename p) ++ sfx /\ dirpart q = dirpart p.
Proof.
  intros H. destruct (with_suffix_some _ _ _ H) as [-> Hs].
  assert (N : has_char "/"%char (py_stem (basename p) ++ sfx) = false).
  { rewrite has_char_app, Hs, orb_false_r. apply py_stem_nochar, basename_nochar. }
  split; [now apply basename_dirpart|now apply dirpart_dirpart].
Qed.

(** with_suffix only looks at the name *)
Lemma with_suffix_name p p' sfx :
  basename p = basename p' ->
  match with_suffix p sfx, with_suffix p' sfx with
  | Some q, Some q' => basename q = basename q'
  | None, None => True
  | _, _ => False
  end.
Proof.
  intros E. destruct (with_suffix p sfx) as [q|] eqn:H; destruct (with_suffix p' sfx) as [q'|] eqn:H'.
  - destruct (with_suffix_basename _ _ _ H) as [-> _]. destruct (with_suffix_basename _ _ _ H') as [-> _]. now rewrite E.
  - unfold with_suffix in *. rewrite <- E in H'. repeat dif; discriminate.
  - unfold with_suffix in *. rewrite <- E in H'. repeat dif; discriminate.
  - exact I.
Qed.

(** * the path rule *)

Definition gen_name (cfg : fwcfg) (p : string) (m : option string) : string :=
  py_stem (basename p) ++ "." ++ mode_of m ++ suffix_str cfg p.

(** without an output directory the file is written next to the original *)
Lemma file_path_nodir cfg p m q :
  c_outdir cfg = None -> file_path_k cfg p m = Some q -> q = dirpart p ++ gen_name cfg p m.
Proof.
  unfold file_path_k, gen_name. intros -> H.
  destruct (with_suffix p _) as [sp|] eqn:E; [|discriminate]. inversion H; subst.
  now destruct (with_suffix_some _ _ _ E) as [-> _].
Qed.

(** with an output directory only the name survives *)
Lemma file_path_outdir cfg d p m q :
  c_outdir cfg = Some d -> file_path_k cfg p m = Some q -> q = join_dir d (gen_name cfg p m).
Proof.
  unfold file_path_k, gen_name. intros -> H.
  destruct (with_suffix p _) as [sp|] eqn:E; [|discriminate]. inversion H; subst.
  now destruct (with_suffix_basename _ _ _ E) as [-> _].
Qed.

(** the generated name keeps the original stem and, unless overridden, the original suffix *)
Lemma gen_name_keeps_suffix cfg p m :
  c_suffix cfg = None -> gen_name cfg p m = py_stem (basename p) ++ "." ++ mode_of m ++ py_suffix (basename p).
Proof. unfold gen_name, suffix_str. now intros ->. Qed.

Lemma suffix_str_name cfg p p' : basename p = basename p' -> suffix_str cfg p = suffix_str cfg p'.
Proof. unfold suffix_str. now intros ->. Qed.

(** two sources with the same file name and mode are written to the same file of the output directory *)
Lemma file_path_same_name cfg d p p' m :
  c_outdir cfg = Some d -> basename p = basename p' -> file_path_k cfg p m = file_path_k cfg p' m.
Proof.
  intros Hd E. unfold file_path_k. rewrite Hd, (suffix_str_name cfg p p' E).
  pose proof (with_suffix_name p p' ("." ++ mode_of m ++ suffix_str cfg p') E) as H.
  destruct (with_suffix p _) as [q|]; destruct (with_suffix p' _) as [q'|]; try contradiction; [now rewrite H|reflexivity].
Qed.

(** the rule is a function of (path, mode, configuration) only *)
Lemma file_path_deterministic cfg i j : wkey i = wkey j -> file_path cfg i = file_path cfg j.
Proof. unfold wkey, file_path. intros E. inversion E. now rewrite H0, H1. Qed.

Lemma mode_nonempty m : exists c r, mode_of m = String c r.
Proof. unfold mode_of. destruct m as [[|c r]|]; cbn; eauto. Qed.

Lemma with_suffix_dot p x :
  x <> "" ->
  with_suffix p (String "."%char x) =
  if has_char "/"%char x then None else if is_empty (basename p) then None
  else Some (dirpart p ++ py_stem (basename p) ++ String "."%char x).
Proof.
  intros N. destruct x as [|a x]; [congruence|]. unfold with_suffix.
  change (has_char "/"%char (String "."%char (String a x))) with (has_char "/"%char (String a x)).
  change (is_empty (String "."%char (String a x))) with false.
  change (starts_with_dot (String "."%char (String a x))) with true.
  change ((String "."%char (String a x) =? ".")%string) with false.
  reflexivity.
Qed.

(** it fails exactly when the suffix text contains a path separator or the path has no name *)
Lemma file_path_none cfg p m :
  file_path_k cfg p m = None <->
  has_char "/"%char (mode_of m ++ suffix_str cfg p) = true \/ is_empty (basename p) = true.
Proof.
  unfold file_path_k. change ("." ++ mode_of m ++ suffix_str cfg p) with (String "."%char (mode_of m ++ suffix_str cfg p)).
  rewrite with_suffix_dot.
  - destruct (has_char "/"%char (mode_of m ++ suffix_str cfg p)); [intuition|].
    destruct (is_empty (basename p)); [intuition|].
    destruct (c_outdir cfg); split; intros H; try discriminate; destruct H; discriminate.
  - destruct (mode_nonempty m) as (c & r & ->). discriminate.
Qed.

(** two different sources collide in the output directory (finding F-C24-2) *)
Lemma file_path_collision :
  exists cfg i j, f_path i <> f_path j /\ file_path cfg i = file_path cfg j /\ file_path cfg i <> None.
Proof.
  exists (mk_fwcfg None (Some "/R/build")),
         (mk_fitem "/R/src/sub/k3_mod.F90" true "" "" true "" false None (Some "idem") false true),
         (mk_fitem "/R/src/other/k3_mod.F90" true "" "" true "" false None (Some "idem") false true).
  split; [discriminate|]. split; [reflexivity|]. vm_compute. discriminate.
Qed.
