(** C35 — column-major index map, the canonical C environment, main statements and refutations. *)
From Coq Require Import ZArith QArith List Bool String Lia ZifyBool.
From LV Require models.M_C06.
From LV Require Import Base.Expr Base.MiniF models.M_C36 models.M_C35 proofs.P_C36_base proofs.P_C36_sem proofs.P_C36 proofs.P_C35_sem.
Import ListNotations.
Open Scope Z_scope.

(** * The column-major offset is a bijection between the (0-based) box and [0, size) *)
Lemma flat_nil sh : flat sh [] = 0.
Proof. destruct sh; reflexivity. Qed.

Lemma flat_cons n sh d r : flat (n :: sh) (d :: r) = d + n * flat sh r.
Proof. destruct r; [rewrite flat_nil; cbn; lia | reflexivity]. Qed.

Lemma size_pos sh : Forall (fun n => 0 < n) sh -> 0 < size sh.
Proof. induction 1 as [|n r Hn _ IH]; cbn [size]; nia. Qed.

Lemma flat_bounds sh idx : in_box0 sh idx -> 0 <= flat sh idx < size sh.
Proof.
  unfold in_box0. induction 1 as [|n d sh idx Hd Hr IH].
  - cbn. lia.
  - rewrite flat_cons. cbn [size]. nia.
Qed.

Lemma flat_inj sh : forall i1 i2, in_box0 sh i1 -> in_box0 sh i2 -> flat sh i1 = flat sh i2 -> i1 = i2.
Proof.
  unfold in_box0. induction sh as [|n sh IH]; intros i1 i2 H1 H2 Hf.
  - inversion H1; inversion H2; reflexivity.
  - inversion H1 as [|? d1 ? r1 Hd1 Hr1]; subst. inversion H2 as [|? d2 ? r2 Hd2 Hr2]; subst.
    rewrite !flat_cons in Hf.
    pose proof (flat_bounds sh r1 Hr1) as B1. pose proof (flat_bounds sh r2 Hr2) as B2.
    assert (flat sh r1 = flat sh r2 /\ d1 = d2) as [Ef Ed].
    { apply (Z.div_mod_unique n); lia. }
    subst. f_equal. apply IH; assumption.
Qed.

Lemma unflat_cons n m sh p : unflat (n :: m :: sh) p = (p mod n) :: unflat (m :: sh) (p / n).
Proof. reflexivity. Qed.

Lemma flat_surj sh : Forall (fun n => 0 < n) sh -> forall p, 0 <= p < size sh ->
  in_box0 sh (unflat sh p) /\ flat sh (unflat sh p) = p.
Proof.
  unfold in_box0. induction 1 as [|n sh Hn Hsh IH]; intros p Hp.
  - split; [constructor | cbn in *; lia].
  - destruct sh as [|m sh'].
    + cbn [size] in Hp. cbn [unflat]. split; [constructor; [lia | constructor] | reflexivity].
    + rewrite unflat_cons. cbn [size] in Hp.
      assert (Hq : 0 <= p / n < size (m :: sh')).
      { split; [apply Z.div_pos; lia|]. apply Z.div_lt_upper_bound; [lia|]. cbn [size]. nia. }
      destruct (IH (p / n) Hq) as [IB IF]. split.
      * constructor; [apply Z.mod_pos_bound; lia | exact IB].
      * rewrite flat_cons, IF. pose proof (Z.div_mod p n ltac:(lia)). lia.
Qed.

Lemma unflat_flat sh idx : Forall (fun n => 0 < n) sh -> in_box0 sh idx -> unflat sh (flat sh idx) = idx.
Proof.
  intros Hpos Hb. pose proof (flat_bounds sh idx Hb) as Hr.
  destruct (flat_surj sh Hpos _ Hr) as [Hb2 Hf]. apply (flat_inj sh); assumption.
Qed.

Lemma box1_box0 sh idx : box1 sh idx -> in_box0 sh (map (fun k => k - 1) idx).
Proof. unfold box1, in_box0. induction 1 as [|n k sh idx Hk _ IH]; cbn [map]; constructor; [lia | exact IH]. Qed.

Lemma box0_box1 sh l : in_box0 sh l -> box1 sh (map (Z.add 1) l).
Proof. unfold box1, in_box0. induction 1 as [|n d sh l Hd _ IH]; cbn [map]; constructor; [lia | exact IH]. Qed.

Lemma map_succ_pred idx : map (Z.add 1) (map (fun k => k - 1) idx) = idx.
Proof. induction idx as [|k r IH]; cbn [map]; [reflexivity|]. rewrite IH. f_equal. lia. Qed.

(** Fortran a(i1,..,ik) (1-based, column-major) <-> C a[flat] : a bijection between the declared box and [0, size) *)
Theorem index_map_bijection sh : Forall (fun n => 0 < n) sh ->
  (forall idx, box1 sh idx -> 0 <= flat sh (map (fun k => k - 1) idx) < size sh) /\
  (forall i1 i2, box1 sh i1 -> box1 sh i2 ->
     flat sh (map (fun k => k - 1) i1) = flat sh (map (fun k => k - 1) i2) -> i1 = i2) /\
  (forall p, 0 <= p < size sh -> exists idx, box1 sh idx /\ flat sh (map (fun k => k - 1) idx) = p).
Proof.
  intros Hpos. split; [|split].
  - intros idx Hb. apply flat_bounds, box1_box0, Hb.
  - intros i1 i2 H1 H2 Hf. apply (flat_inj sh _ _ (box1_box0 _ _ H1) (box1_box0 _ _ H2)) in Hf.
    rewrite <- (map_succ_pred i1), <- (map_succ_pred i2), Hf. reflexivity.
  - intros p Hp. destruct (flat_surj sh Hpos p Hp) as [Hb Hf].
    exists (map (Z.add 1) (unflat sh p)). split.
    + apply box0_box1, Hb.
    + assert (E : map (fun k => k - 1) (map (Z.add 1) (unflat sh p)) = unflat sh p).
      { clear. induction (unflat sh p) as [|k r IH]; cbn [map]; [reflexivity|]. rewrite IH. f_equal. lia. }
      rewrite E. exact Hf.
Qed.

(** * The canonical C environment is related to the Fortran environment *)
Lemma shift_cenv_rel byref decl rho : shapes_pos decl -> crho_ok decl rho ->
  c_env_rel byref decl rho (shift_cenv byref decl rho).
Proof.
  intros Hpos Hok. repeat split.
  - intros x Hx. cbn. rewrite Hx. reflexivity.
  - intros x Hx. cbn. rewrite Hx. reflexivity.
  - intros a idx v Ha Hv. destruct (is_arr_assoc decl a Ha) as (sh & Hsh).
    exists sh. split; [exact Hsh|]. pose proof (Hok a sh idx v Hsh Hv) as Hbox. split; [exact Hbox|].
    cbn. unfold shape_of in *. rewrite Hsh.
    pose proof (flat_bounds sh _ (box1_box0 _ _ Hbox)) as Hr.
    unfold in_range. assert (E : (0 <=? flat sh (map (fun k => k - 1) idx)) && (flat sh (map (fun k => k - 1) idx) <? size sh) = true) by lia.
    rewrite E, (unflat_flat sh _ (Hpos a sh Hsh) (box1_box0 _ _ Hbox)), map_succ_pred. exact Hv.
Qed.

Theorem cexpr_preserves_on_class byref decl rho e v :
  shapes_pos decl -> crho_ok decl rho -> arrs_ok (map fst decl) = true ->
  c_int_class (map fst decl) e = true -> evalZ rho e = Some v ->
  evalC (shift_cenv byref decl rho) (c_model byref decl e) = Some (CI v).
Proof.
  intros Hpos Hr Hok Hc Hv.
  exact (cexpr_preserves byref decl rho _ (shift_cenv_rel byref decl rho Hpos Hr) Hok Hpos e v Hc Hv).
Qed.

Theorem ccond_preserves_on_class byref decl rho e b :
  shapes_pos decl -> crho_ok decl rho -> arrs_ok (map fst decl) = true ->
  c_class_b (map fst decl) e = true -> evalB rho e = Some b ->
  evalC (shift_cenv byref decl rho) (c_model byref decl e) = Some (b2c b).
Proof.
  intros Hpos Hr Hok Hc Hv.
  exact (ccond_preserves byref decl rho _ (shift_cenv_rel byref decl rho Hpos Hr) Hok Hpos e b Hc Hv).
Qed.

(** the generated subscript: reading a(i1,..,ik) in Fortran = reading a[i1-1 + n1*(i2-1 + ...)] in C *)
Theorem c_index_map_correct byref decl rho a idx ks v :
  shapes_pos decl -> crho_ok decl rho -> arrs_ok (map fst decl) = true ->
  is_arr (map fst decl) a = true ->
  forallb (c_int_class (map fst decl)) idx = true -> forallb (no_arr (map fst decl)) idx = true ->
  omap_list (evalZ rho) idx = Some ks -> ev_fun rho a ks = Some v ->
  evalC (shift_cenv byref decl rho) (c_model byref decl (ECall a idx)) = Some (CI v).
Proof.
  intros Hpos Hr Hok Ha Hc Hn Hk Hv.
  apply cexpr_preserves_on_class; try assumption.
  - cbn [c_int_class]. rewrite Hc, Ha, Hn. reflexivity.
  - rewrite evalZ_call, Hk. cbn [obind]. rewrite (not_intrinsic (map (fun d => (fst d, map (fun n => (1, n)) (snd d))) decl)).
    + exact Hv.
    + rewrite map_map. cbn [fst]. exact Hok.
    + rewrite map_map. cbn [fst]. exact Ha.
Qed.

(** * The class is inhabited *)
Definition cex_decl : list (string * list Z) := [("a"%string, [4]); ("b"%string, [4; 3])].
Definition cex_rho : env := ex_rho.
(** a(i + 1) - mod(b(n, 2) * m, 3) / 2 + (-n) * r   with r passed by reference *)
Definition cex_expr : expr :=
  ESum false [ECall "a" [ESum false [EVar "i"; EInt 1]];
              EProd false [EPy (-1); EQuot false (ECall "mod" [EProd false [ECall "b" [EVar "n"; EInt 2]; EVar "m"]; EInt 3]) (EInt 2)];
              EProd false [EProd true [EPy (-1); EVar "n"]; EVar "r"]].

Lemma cex_shapes_pos : shapes_pos cex_decl.
Proof.
  intros a sh H. unfold cex_decl, shape_of in H. cbn [assoc_s] in H.
  destruct (String.eqb "a" a); [injection H as <-; repeat constructor|].
  destruct (String.eqb "b" a); [injection H as <-; repeat constructor | discriminate].
Qed.

Lemma cex_rho_ok : crho_ok cex_decl cex_rho.
Proof.
  intros a sh idx v Hsh Hv.
  assert (Hb : rho_ok ex_decl ex_rho) by exact ex_rho_ok.
  unfold cex_decl, shape_of in Hsh. cbn [assoc_s] in Hsh.
  destruct (String.eqb "a" a) eqn:Ea.
  - injection Hsh as <-. specialize (Hb a [(1, 4)] idx v). unfold ex_decl in Hb. cbn [assoc_s] in Hb. rewrite Ea in Hb.
    specialize (Hb eq_refl Hv). unfold in_box in Hb. unfold box1.
    inversion Hb as [|? k ? r Hk Hr]; subst. inversion Hr; subst. repeat constructor; cbn in *; lia.
  - destruct (String.eqb "b" a) eqn:Eb; [|discriminate]. injection Hsh as <-.
    specialize (Hb a [(1, 4); (1, 3)] idx v). unfold ex_decl in Hb. cbn [assoc_s] in Hb. rewrite Ea, Eb in Hb.
    specialize (Hb eq_refl Hv). unfold in_box in Hb. unfold box1.
    inversion Hb as [|? k ? r Hk Hr]; subst. inversion Hr as [|? k2 ? r2 Hk2 Hr2]; subst. inversion Hr2; subst.
    repeat constructor; cbn in *; lia.
Qed.

Lemma c_class_inhabited :
  shapes_pos cex_decl /\ crho_ok cex_decl cex_rho /\ arrs_ok (map fst cex_decl) = true /\
  c_int_class (map fst cex_decl) cex_expr = true /\ evalZ cex_rho cex_expr = Some 31 /\
  evalC (shift_cenv ["r"%string] cex_decl cex_rho) (c_model ["r"%string] cex_decl cex_expr) = Some (CI 31).
Proof.
  split; [exact cex_shapes_pos|]. split; [exact cex_rho_ok|]. repeat split.
Qed.

(** * Refutations of the unconditional statement *)
Definition ce_nm (n m : Z) : cenv := cenv_of [("n"%string, n); ("m"%string, m)] [] [].
Definition rho_nm (n m : Z) : env := fenv_of [("n"%string, n); ("m"%string, m)] [].

(** abs -> fabs makes the division a double division: abs(n)/2*2 is 2 in Fortran (n = 3), 3 after conversion to int in C *)
Lemma c_double_division_refuted :
  exists e, evalZ (rho_nm 3 0) e = Some 2 /\
    exists cv, evalC (ce_nm 3 0) (c_model [] [] e) = Some cv /\ c_to_int cv = 3.
Proof.
  exists (EProd false [EQuot false (ECall "abs" [EVar "n"]) (EInt 2); EInt 2]). split; [reflexivity|].
  eexists. split; reflexivity.
Qed.

(** mod is printed as (a)%(b) WITHOUT enclosing parentheses: as a factor, n*mod(m, 3) reads (n*m)%3 *)
Definition mod_factor_text : list ctok :=
  [KId "n"; KStar; KLP; KId "m"; KRP; KPct; KLP; KInt 3; KRP].
Lemma c_mod_factor_refuted :
  evalZ (rho_nm 2 5) (EProd false [EVar "n"; ECall "mod" [EVar "m"; EInt 3]]) = Some 4 /\
  exists t, c_parse mod_factor_text = Some t /\ evalC (ce_nm 2 5) t = Some (CI 1).
Proof. split; [reflexivity|]. eexists. split; reflexivity. Qed.

(** C06's F1i reached from real source (a module parameter hf = 7/2 inlined into n*hf): the text C06's model of
    CCodeMapper prints for Product(n, Quotient(7, 2)) reads (n*7)/2 *)
Lemma c_print_refuted_prod_quot :
  let e := EProd false [EVar "n"; EQuot false (EInt 7) (EInt 2)] in
  evalZ (rho_nm 3 0) e = Some 9 /\
  exists t, c_parse (map tok_c (M_C06.print_c e 0)) = Some t /\ evalC (ce_nm 3 0) t = Some (CI 10).
Proof. split; [reflexivity|]. eexists. split; reflexivity. Qed.

(** a subscript inside a subscript is neither shifted nor flattened: a(b(n)) becomes a[b[n] - 1] *)
Definition cnest_decl : list (string * list Z) := [("a"%string, [4]); ("b"%string, [4])].
Definition cnest_env : cenv :=
  cenv_of [("n"%string, 1)] [] [("a"%string, [(0, 10); (1, 20); (2, 30); (3, 40)]); ("b"%string, [(0, 2); (1, 3); (2, 4); (3, 1)])].
Lemma c_nested_index_refuted :
  exists e, evalZ nest_rho e = Some 20 /\ evalC cnest_env (c_model [] cnest_decl e) = Some (CI 30).
Proof. exists (ECall "a" [ECall "b" [EVar "n"]]). split; reflexivity. Qed.
