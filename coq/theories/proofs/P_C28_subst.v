(** C28 — expression-level lemmas: agreement of evaluations, the substitution lemma, statement functions. *)
From Coq Require Import ZArith List Bool String Lia.
From LV Require Import Base.Expr Base.MiniF Base.MiniFFacts models.M_C28 proofs.P_C28_norm.
Import ListNotations.
Open Scope Z_scope.

Lemma mem_In x l : mem x l = true <-> In x l.
Proof.
  unfold mem. rewrite existsb_exists. split.
  - intros [y [Hy E]]. apply String.eqb_eq in E. now subst.
  - intros H. exists x. split; [exact H|apply String.eqb_refl].
Qed.

Lemma mem_false_In x l : mem x l = false -> ~ In x l.
Proof. intros H Hin. apply mem_In in Hin. congruence. Qed.

Lemma omap_list_ext0 {A C} (f g : A -> option C) cs :
  Forall (fun c => f c = g c) cs -> omap_list f cs = omap_list g cs.
Proof. induction 1 as [|c cs Hc _ IH]; cbn; [reflexivity|]. rewrite Hc, IH. reflexivity. Qed.

Lemma fold_obind_ext0 {A V} (f g : A -> option V) (op : V -> V -> V) init cs :
  Forall (fun c => f c = g c) cs ->
  fold_right (fun c acc => obind (f c) (fun v => obind acc (fun a => Some (op v a)))) init cs =
  fold_right (fun c acc => obind (g c) (fun v => obind acc (fun a => Some (op v a)))) init cs.
Proof. induction 1 as [|c cs Hc _ IH]; cbn; [reflexivity|]. rewrite Hc, IH. reflexivity. Qed.

Lemma Forall_forallb_impl {A} (p : A -> bool) (P Q : A -> Prop) l :
  forallb p l = true -> Forall (fun c => p c = true -> P c) l -> (forall c, P c -> Q c) -> Forall Q l.
Proof.
  intros Hb HF HPQ. induction HF as [|c r Hc _ IH]; [constructor|].
  cbn in Hb. apply andb_prop in Hb. destruct Hb as [H1 H2]. constructor; [apply HPQ, Hc, H1|apply IH, H2].
Qed.

Lemma evalZ_some_evalB_none rho e v : evalZ rho e = Some v -> evalB rho e = None.
Proof. destruct e; cbn [evalZ evalB]; intros H; try reflexivity; discriminate. Qed.

Lemma intrinsic_name_false f : intrinsic_name f = false -> forall vs, intrinsic f vs = None.
Proof.
  unfold intrinsic_name, intrinsic. intros H vs.
  destruct (String.eqb f "mod"); [discriminate|].
  destruct (String.eqb f "modulo"); [discriminate|].
  destruct (String.eqb f "abs"); [discriminate|].
  destruct (String.eqb f "min"); [discriminate|].
  destruct (String.eqb f "max"); [discriminate|]. reflexivity.
Qed.

Lemma intrinsic_name_true f : intrinsic_name f = true -> forall vs, exists r, intrinsic f vs = Some r.
Proof.
  unfold intrinsic_name, intrinsic. intros H vs.
  destruct (String.eqb f "mod"). { destruct vs as [|a [|b [|c r]]]; eauto. }
  destruct (String.eqb f "modulo"). { destruct vs as [|a [|b [|c r]]]; eauto. }
  destruct (String.eqb f "abs"). { destruct vs as [|a [|b r]]; eauto. }
  destruct (String.eqb f "min"). { destruct vs as [|a r]; eauto. }
  destruct (String.eqb f "max"). { destruct vs as [|a r]; eauto. }
  discriminate.
Qed.

(** * agreement: an expression only depends on the variables / arrays it mentions *)
Lemma e_ok_agree pv pa rho1 rho2 e :
  e_ok pv pa e = true ->
  (forall y, pv y = true -> ev_var rho1 y = ev_var rho2 y) ->
  (forall a, pa a = true -> forall vs, ev_fun rho1 a vs = ev_fun rho2 a vs) ->
  evalZ rho1 e = evalZ rho2 e /\ evalB rho1 e = evalB rho2 e.
Proof.
  intros Hok Hv Ha. revert Hok.
  induction e using expr_ind'; cbn [e_ok]; intros Hok; try (split; reflexivity).
  - split; [|reflexivity]. cbn. f_equal. now apply Hv.
  - split; [|reflexivity]. cbn [evalZ]. apply fold_obind_ext0.
    eapply Forall_forallb_impl; [exact Hok|exact H|]. intros c Hc; apply Hc.
  - split; [|reflexivity]. cbn [evalZ]. apply fold_obind_ext0.
    eapply Forall_forallb_impl; [exact Hok|exact H|]. intros c Hc; apply Hc.
  - apply andb_prop in Hok. destruct Hok as [H1 H2]. split; [|reflexivity]. cbn [evalZ].
    rewrite (proj1 (IHe1 H1)), (proj1 (IHe2 H2)). reflexivity.
  - apply andb_prop in Hok. destruct Hok as [H1 H2]. split; [|reflexivity]. cbn [evalZ].
    rewrite (proj1 (IHe1 H1)), (proj1 (IHe2 H2)). reflexivity.
  - apply andb_prop in Hok. destruct Hok as [H1 H2]. split; [reflexivity|]. cbn [evalB].
    rewrite (proj1 (IHe1 H1)), (proj1 (IHe2 H2)). reflexivity.
  - split; [reflexivity|]. cbn [evalB]. apply fold_obind_ext0.
    eapply Forall_forallb_impl; [exact Hok|exact H|]. intros c Hc; apply Hc.
  - split; [reflexivity|]. cbn [evalB]. apply fold_obind_ext0.
    eapply Forall_forallb_impl; [exact Hok|exact H|]. intros c Hc; apply Hc.
  - split; [reflexivity|]. cbn [evalB]. rewrite (proj2 (IHe Hok)). reflexivity.
  - apply andb_prop in Hok. destruct Hok as [H1 H2]. split; [|reflexivity]. rewrite !evalZ_call.
    assert (E : omap_list (evalZ rho1) args = omap_list (evalZ rho2) args).
    { apply omap_list_ext0. eapply Forall_forallb_impl; [exact H2|exact H|]. intros c Hc; apply Hc. }
    rewrite E. destruct (omap_list (evalZ rho2) args) as [vs|]; cbn [obind]; [|reflexivity].
    destruct (intrinsic_name f) eqn:Ei.
    + destruct (intrinsic_name_true f Ei vs) as [r Er]. rewrite Er. reflexivity.
    + rewrite (intrinsic_name_false f Ei vs). cbn in H1. now apply Ha.
Qed.

(** * the substitution lemma for expressions *)
Lemma offs_of_cons o t : offs_of (DOff o :: t) = o :: offs_of t.
Proof. reflexivity. Qed.

Lemma fill_eval rho t : all_off t = true -> forall l,
  omap_list (evalZ rho) (fill t l) = option_map (shiftz (offs_of t)) (omap_list (evalZ rho) l).
Proof.
  induction t as [|d t IH]; intros Hall l.
  - cbn. destruct (omap_list (evalZ rho) l); reflexivity.
  - destruct d as [o|e]; [|discriminate]. cbn [all_off forallb] in Hall. cbn in Hall.
    rewrite offs_of_cons. destruct l as [|i q]; [reflexivity|].
    cbn [fill omap_list]. rewrite (IH Hall q).
    cbn [evalZ fold_right]. destruct (evalZ rho i) as [v|]; cbn [obind]; [|reflexivity].
    destruct (omap_list (evalZ rho) q) as [vs|]; cbn [obind option_map shiftz]; [|reflexivity].
    rewrite Z.add_0_r. reflexivity.
Qed.

Lemma shiftz_eqb o : forall a b, list_z_eqb (shiftz o a) (shiftz o b) = list_z_eqb a b.
Proof.
  induction o as [|k o IH]; intros a b; [reflexivity|].
  destruct a as [|x a], b as [|y b]; cbn [shiftz list_z_eqb]; try reflexivity.
  rewrite IH. f_equal.
  destruct (Z.eqb_spec x y), (Z.eqb_spec (x + k) (y + k)); try reflexivity; exfalso; lia.
Qed.

Lemma shiftz_inv o : forall j, shiftz o (shiftz (map Z.opp o) j) = j.
Proof.
  induction o as [|k o IH]; intros j; [reflexivity|].
  destruct j as [|x j]; cbn [map shiftz]; [reflexivity|]. rewrite IH. f_equal. lia.
Qed.

Section SubstE.
  Variable m : smap.

  Lemma subst_e_sound pv pa rho1 rho2 e :
    e_ok pv pa e = true ->
    (forall y, pv y = true -> evalZ rho2 (lk_s m y) = Some (ev_var rho1 y)) ->
    (forall a, pa a = true -> intrinsic_name a = false ->
       intrinsic_name (fst (lk_a m a)) = false /\ all_off (snd (lk_a m a)) = true /\
       forall vs, ev_fun rho1 a vs = ev_fun rho2 (fst (lk_a m a)) (shiftz (offs_of (snd (lk_a m a))) vs)) ->
    evalZ rho2 (subst_e m e) = evalZ rho1 e /\ evalB rho2 (subst_e m e) = evalB rho1 e.
  Proof.
    intros Hok Hv Ha. revert Hok.
    induction e using expr_ind'; cbn [e_ok subst_e]; intros Hok; try (split; reflexivity).
    - pose proof (Hv x Hok) as E. split; [exact E|]. cbn [evalB]. eapply evalZ_some_evalB_none; exact E.
    - split; [|reflexivity]. cbn [evalZ]. apply fold_obind_ext.
      eapply Forall_forallb_impl; [exact Hok|exact H|]. intros c Hc; apply Hc.
    - split; [|reflexivity]. cbn [evalZ]. apply fold_obind_ext.
      eapply Forall_forallb_impl; [exact Hok|exact H|]. intros c Hc; apply Hc.
    - apply andb_prop in Hok. destruct Hok as [H1 H2]. split; [|reflexivity]. cbn [evalZ].
      rewrite (proj1 (IHe1 H1)), (proj1 (IHe2 H2)). reflexivity.
    - apply andb_prop in Hok. destruct Hok as [H1 H2]. split; [|reflexivity]. cbn [evalZ].
      rewrite (proj1 (IHe1 H1)), (proj1 (IHe2 H2)). reflexivity.
    - apply andb_prop in Hok. destruct Hok as [H1 H2]. split; [reflexivity|]. cbn [evalB].
      rewrite (proj1 (IHe1 H1)), (proj1 (IHe2 H2)). reflexivity.
    - split; [reflexivity|]. cbn [evalB]. apply fold_obind_ext.
      eapply Forall_forallb_impl; [exact Hok|exact H|]. intros c Hc; apply Hc.
    - split; [reflexivity|]. cbn [evalB]. apply fold_obind_ext.
      eapply Forall_forallb_impl; [exact Hok|exact H|]. intros c Hc; apply Hc.
    - split; [reflexivity|]. cbn [evalB]. rewrite (proj2 (IHe Hok)). reflexivity.
    - apply andb_prop in Hok. destruct Hok as [H1 H2].
      assert (E : omap_list (evalZ rho2) (map (subst_e m) args) = omap_list (evalZ rho1) args).
      { apply omap_list_ext. eapply Forall_forallb_impl; [exact H2|exact H|]. intros c Hc; apply Hc. }
      destruct (intrinsic_name f) eqn:Ei.
      + split; [|reflexivity]. rewrite !evalZ_call, E.
        destruct (omap_list (evalZ rho1) args) as [vs|]; cbn [obind]; [|reflexivity].
        destruct (intrinsic_name_true f Ei vs) as [r Er]. rewrite Er. reflexivity.
      + cbn in H1. destruct (Ha f H1 Ei) as [Hn [Hall Hf]].
        split; [|reflexivity]. rewrite !evalZ_call, (fill_eval rho2 _ Hall), E.
        destruct (omap_list (evalZ rho1) args) as [vs|]; cbn [option_map obind]; [|reflexivity].
        rewrite (intrinsic_name_false _ Hn), (intrinsic_name_false _ Ei). symmetry. apply Hf.
  Qed.
End SubstE.

(** * statement functions *)
Lemma assoc_combine_upd rho ps : forall (args : list expr) vs,
  omap_list (evalZ rho) args = Some vs ->
  forall y, evalZ rho (lk_s {| sm_s := combine ps args; sm_a := [] |} y) = Some (ev_var (upd_env rho ps vs) y).
Proof.
  unfold lk_s, upd_env. cbn [sm_s ev_var].
  induction ps as [|p ps IH]; intros args vs Hev y.
  - cbn. reflexivity.
  - destruct args as [|a args].
    + cbn in Hev. inversion Hev. cbn. reflexivity.
    + cbn [omap_list] in Hev.
      destruct (evalZ rho a) as [v|] eqn:Ea; [|discriminate]. cbn [obind] in Hev.
      destruct (omap_list (evalZ rho) args) as [vs'|] eqn:Er; [|discriminate]. cbn [obind] in Hev.
      inversion Hev. subst vs. cbn [combine assoc].
      destruct (String.eqb p y); [exact Ea|]. apply IH. exact Er.
Qed.

(** an environment in which every statement function means its body *)
Definition sf_consistent (defs : list (string * sfdef)) (rho : env) : Prop :=
  forall f d, assoc defs f = Some d -> intrinsic_name f = false ->
  forall vs, ev_fun rho f vs = evalZ (upd_env rho (sf_params d) vs) (sf_body d).

Lemma omap_list_length {A B} (f : A -> option B) l vs : omap_list f l = Some vs -> List.length vs = List.length l.
Proof.
  revert vs. induction l as [|a l IH]; intros vs H; cbn in H.
  - inversion H. reflexivity.
  - destruct (f a); [|discriminate]. cbn in H. destruct (omap_list f l) as [r|]; [|discriminate].
    cbn in H. inversion H. cbn. f_equal. now apply IH.
Qed.

Lemma e_ok_true e : e_ok (fun _ => true) (fun _ => true) e = true.
Proof.
  induction e using expr_ind'; cbn [e_ok]; try reflexivity;
    try (apply forallb_forall; intros c Hc; rewrite Forall_forall in H; now apply H);
    try (rewrite IHe1, IHe2; reflexivity); try assumption.
  rewrite orb_true_r. cbn. apply forallb_forall. intros c Hc. rewrite Forall_forall in H. now apply H.
Qed.

Lemma Forall_all {A} (P : A -> Prop) l : (forall x, P x) -> Forall P l.
Proof. intros H. induction l; constructor; auto. Qed.

Lemma inline_sf_sound defs rho :
  sf_consistent defs rho ->
  forall n e,
    (forall v, evalZ rho e = Some v -> evalZ rho (inline_sf n defs e) = Some v) /\
    (forall b, evalB rho e = Some b -> evalB rho (inline_sf n defs e) = Some b).
Proof.
  intros Hc. induction n as [|n IH]; intros e; [split; intros; assumption|].
  assert (FZ : forall (op : Z -> Z -> Z) cs init v,
             fold_right (fun c acc => obind (evalZ rho c) (fun v => obind acc (fun a => Some (op v a)))) init cs = Some v ->
             fold_right (fun c acc => obind (evalZ rho c) (fun v => obind acc (fun a => Some (op v a)))) init (map (inline_sf n defs) cs) = Some v).
  { intros op cs init. induction cs as [|c cs IHc]; intros v H; cbn [map fold_right] in *; [exact H|].
    destruct (evalZ rho c) as [vc|] eqn:Ec; [|discriminate]. cbn [obind] in H.
    rewrite (proj1 (IH c) vc Ec). cbn [obind].
    destruct (fold_right _ init cs) as [a|] eqn:Ea; [|discriminate].
    rewrite (IHc a eq_refl). exact H. }
  assert (FB : forall (op : bool -> bool -> bool) cs init v,
             fold_right (fun c acc => obind (evalB rho c) (fun v => obind acc (fun a => Some (op v a)))) init cs = Some v ->
             fold_right (fun c acc => obind (evalB rho c) (fun v => obind acc (fun a => Some (op v a)))) init (map (inline_sf n defs) cs) = Some v).
  { intros op cs init. induction cs as [|c cs IHc]; intros v H; cbn [map fold_right] in *; [exact H|].
    destruct (evalB rho c) as [vc|] eqn:Ec; [|discriminate]. cbn [obind] in H.
    rewrite (proj2 (IH c) vc Ec). cbn [obind].
    destruct (fold_right _ init cs) as [a|] eqn:Ea; [|discriminate].
    rewrite (IHc a eq_refl). exact H. }
  assert (FO : forall cs vs, omap_list (evalZ rho) cs = Some vs -> omap_list (evalZ rho) (map (inline_sf n defs) cs) = Some vs).
  { induction cs as [|c cs IHc]; intros vs H; cbn [map omap_list] in *; [exact H|].
    destruct (evalZ rho c) as [vc|] eqn:Ec; [|discriminate]. cbn [obind] in H.
    rewrite (proj1 (IH c) vc Ec). cbn [obind].
    destruct (omap_list (evalZ rho) cs) as [a|] eqn:Ea; [|discriminate].
    rewrite (IHc a eq_refl). exact H. }
  destruct e; cbn [inline_sf]; try (split; intros; assumption).
  - split; [|intros; assumption]. intros v. cbn [evalZ]. apply FZ.
  - split; [|intros; assumption]. intros v. cbn [evalZ]. apply FZ.
  - split; [|intros; assumption]. intros v. cbn [evalZ]. intros H.
    destruct (evalZ rho e1) as [a|] eqn:E1; [|discriminate]. destruct (evalZ rho e2) as [b|] eqn:E2; [|discriminate].
    rewrite (proj1 (IH e1) a E1), (proj1 (IH e2) b E2). exact H.
  - split; [|intros; assumption]. intros v. cbn [evalZ]. intros H.
    destruct (evalZ rho e1) as [a|] eqn:E1; [|discriminate]. destruct (evalZ rho e2) as [b|] eqn:E2; [|discriminate].
    rewrite (proj1 (IH e1) a E1), (proj1 (IH e2) b E2). exact H.
  - split; [intros; assumption|]. intros v. cbn [evalB]. intros H.
    destruct (evalZ rho e1) as [a|] eqn:E1; [|discriminate]. destruct (evalZ rho e2) as [b|] eqn:E2; [|discriminate].
    rewrite (proj1 (IH e1) a E1), (proj1 (IH e2) b E2). exact H.
  - split; [intros; assumption|]. intros v. cbn [evalB]. apply FB.
  - split; [intros; assumption|]. intros v. cbn [evalB]. apply FB.
  - split; [intros; assumption|]. intros v. cbn [evalB]. intros H.
    destruct (evalB rho e) as [a|] eqn:E1; [|discriminate]. rewrite (proj2 (IH e) a E1). exact H.
  - (* ECall *)
    assert (CallSame : forall v, evalZ rho (ECall f args) = Some v ->
                                 evalZ rho (ECall f (map (inline_sf n defs) args)) = Some v).
    { intros v. rewrite !evalZ_call. intros H.
      destruct (omap_list (evalZ rho) args) as [vs|] eqn:Ea; [|discriminate].
      rewrite (FO args vs Ea). exact H. }
    destruct (assoc defs f) as [d|] eqn:Ed; [|split; [exact CallSame|intros; assumption]].
    destruct (intrinsic_name f) eqn:Ei; [split; [exact CallSame|intros; assumption]|].
    split; [|intros b Hb; discriminate].
    intros v. rewrite evalZ_call. intros H.
    destruct (omap_list (evalZ rho) args) as [vs|] eqn:Ea; [|discriminate]. cbn [obind] in H.
    rewrite (intrinsic_name_false f Ei) in H.
    rewrite (Hc f d Ed Ei vs) in H.
    apply (proj1 (IH _)).
    pose proof (FO args vs Ea) as Ea'.
    rewrite <- H.
    apply (subst_e_sound {| sm_s := combine (sf_params d) (map (inline_sf n defs) args); sm_a := [] |}
                         (fun _ => true) (fun _ => true) (upd_env rho (sf_params d) vs) rho (sf_body d)).
    + apply e_ok_true.
    + intros y _. apply assoc_combine_upd; assumption.
    + intros a _ Hia. unfold lk_a. cbn [sm_a assoc fst snd]. repeat split; try reflexivity. exact Hia.
Qed.
