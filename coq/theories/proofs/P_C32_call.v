(** C32 — proofs, part 7: removing unused scalar dummies together with the matching call arguments preserves the
    effect of a CALL (up to extensional equality of stores). *)
From Coq Require Import ZArith List Bool String Lia.
From LV Require Import Base.Expr Base.MiniF Base.MiniFFacts models.M_C32 proofs.P_C32 proofs.P_C32_cp proofs.P_C32_unused.
Import ListNotations.
Open Scope Z_scope.

(** ** what is written occurs *)
Lemma evars_occurs x : forall args, In x (evars args) -> existsb (occurs_e x) args = true.
Proof.
  induction args as [|e r IH]; intros I; [destruct I|].
  destruct e; cbn [evars] in I; cbn [existsb]; try (rewrite (IH I); apply orb_true_r).
  destruct I as [I|I]; [subst; cbn; now rewrite String.eqb_refl|rewrite (IH I); apply orb_true_r].
Qed.

Lemma writes_occurs x : forall st, In x (writes st) -> occurs x st = true.
Proof.
  induction st using stmt_ind'; intros I.
  - cbn in I. destruct I as [I|[]]. subst. cbn. now rewrite String.eqb_refl.
  - destruct I.
  - rewrite writes_do in I.
    change (occurs x (SDo v lo hi st b)) with
      (String.eqb v x || occurs_e x lo || occurs_e x hi
       || (match st with Some e => occurs_e x e | None => false end) || existsb (occurs x) b).
    destruct I as [I|I]; [subst; now rewrite String.eqb_refl|].
    assert (G : existsb (occurs x) b = true).
    { revert I. unfold writes_l. induction H as [|s r Hs Hr IH]; intros I; [destruct I|].
      cbn in I. apply in_app_or in I. cbn. destruct I as [I|I]; [rewrite (Hs I); reflexivity|rewrite (IH I); apply orb_true_r]. }
    rewrite G. apply orb_true_r.
  - rewrite writes_while in I.
    change (occurs x (SWhile c b)) with (occurs_e x c || existsb (occurs x) b).
    assert (G : existsb (occurs x) b = true).
    { revert I. unfold writes_l. induction H as [|s r Hs Hr IH]; intros I; [destruct I|].
      cbn in I. apply in_app_or in I. cbn. destruct I as [I|I]; [rewrite (Hs I); reflexivity|rewrite (IH I); apply orb_true_r]. }
    rewrite G. apply orb_true_r.
  - rewrite writes_if in I.
    change (occurs x (SIf c t e)) with (occurs_e x c || existsb (occurs x) t || existsb (occurs x) e).
    assert (G : forall l, Forall (fun s => In x (writes s) -> occurs x s = true) l -> In x (writes_l l) -> existsb (occurs x) l = true).
    { unfold writes_l. induction 1 as [|s r Hs Hr IH]; intros J; [destruct J|].
      cbn in J. apply in_app_or in J. cbn. destruct J as [J|J]; [rewrite (Hs J); reflexivity|rewrite (IH J); apply orb_true_r]. }
    apply in_app_or in I. destruct I as [I|I].
    + rewrite (G t H I). rewrite orb_true_r. reflexivity.
    + rewrite (G e H0 I). apply orb_true_r.
  - cbn in I |- *. now apply evars_occurs.
  - destruct I.
Qed.

Lemma writes_l_occurs x l : In x (writes_l l) -> occurs_l x l = true.
Proof.
  unfold writes_l, occurs_l. induction l as [|s r IH]; intros I; [destruct I|].
  cbn in I. apply in_app_or in I. cbn. destruct I as [I|I]; [rewrite (writes_occurs x s I); reflexivity|rewrite (IH I); apply orb_true_r].
Qed.

Lemma nonoccurring_unchanged ps f l s s' x : exec ps f l s = Some s' -> occurs_l x l = false -> sv s' x = sv s x.
Proof.
  intros E O. apply (frame ps f l s s' E). intros I. apply writes_l_occurs in I. congruence.
Qed.

(** ** values bound by copy-in *)
Lemma copy_in_other s d : forall params args c c1,
  copy_in s params args c = Some c1 -> ~ In d (map fst params) -> sv c1 d = sv c d.
Proof.
  induction params as [|[d0 b] ps IH]; intros args c c1 E N.
  - destruct args; [|discriminate]. cbn in E. now inversion E.
  - destruct args as [|e r]; [destruct b; discriminate|]. cbn [map fst] in N.
    assert (N0 : d <> d0) by (intros Q; apply N; now left).
    assert (N1 : ~ In d (map fst ps)) by (intros Q; apply N; now right).
    destruct b.
    + destruct e; try discriminate. cbn [copy_in] in E. rewrite (IH _ _ _ E N1). reflexivity.
    + rewrite copy_in_scalar in E. destruct (evalZ (env_st s) e) as [w|]; [|discriminate].
      rewrite (IH _ _ _ E N1). now apply sv_set_other.
Qed.

(** position-wise: a scalar dummy bound to a variable actual holds the caller's value of that variable *)
Fixpoint bound_ok (s c1 : store) (params : list (string * bool)) (args : list expr) : Prop :=
  match params, args with
  | (d, b) :: ps, e :: r => (b = false -> forall y, e = EVar y -> sv c1 d = sv s y) /\ bound_ok s c1 ps r
  | _, _ => True
  end.

Lemma copy_in_bound s : forall params args c c1,
  copy_in s params args c = Some c1 -> NoDup (map fst params) -> bound_ok s c1 params args.
Proof.
  induction params as [|[d b] ps IH]; intros args c c1 E N; [exact I|].
  destruct args as [|e r]; [exact I|]. cbn [map fst] in N. inversion N as [|? ? Nd Nr]; subst.
  destruct b.
  - destruct e; try discriminate. cbn [copy_in] in E. split; [discriminate|]. exact (IH _ _ _ E Nr).
  - rewrite copy_in_scalar in E. destruct (evalZ (env_st s) e) as [w|] eqn:Ew; [|discriminate].
    split; [|exact (IH _ _ _ E Nr)].
    intros _ y Ey. subst e. cbn in Ew. inversion Ew; subst.
    rewrite (copy_in_other s d _ _ _ _ E Nd). apply sv_set_same.
Qed.

(** ** copy-out with removed positions *)
Fixpoint kept_ok (X : string -> Prop) (k : nat) (ks : list nat) (params : list (string * bool)) : Prop :=
  match params with
  | [] => True
  | (d, b) :: r => (existsb (Nat.eqb k) ks = false -> ~ X d) /\ kept_ok X (S k) ks r
  end.

(** the removed positions write back what the caller variable already holds *)
Fixpoint wb_ok (s c1' : store) (k : nat) (ks : list nat) (params : list (string * bool)) (args : list expr) : Prop :=
  match params, args with
  | (d, b) :: ps, e :: r =>
      (existsb (Nat.eqb k) ks = true -> forall y, e = EVar y -> sv c1' d = sv s y) /\ wb_ok s c1' (S k) ks ps r
  | _, _ => True
  end.

Lemma sim_none_set_same t1 t2 y : sim none t1 t2 -> sim none (set_sv y (sv t1 y) t1) t2.
Proof.
  intros [A B]. split; [|exact B]. intros z N. cbn. destruct (String.eqb z y) eqn:E; [|now apply A].
  apply String.eqb_eq in E. subst. now apply A.
Qed.

Lemma copy_out_removed (X : string -> Prop) s c1' c2' ks : sim X c1' c2' ->
  forall params k args t1 t2,
    rem_ok X k ks params -> kept_ok X k ks params -> wb_ok s c1' k ks params args ->
    NoDup (evars args) -> (forall y, In y (evars args) -> sv t1 y = sv s y) -> sim none t1 t2 ->
    sim none (copy_out c1' params args t1) (copy_out c2' (remove_pos_from k ks params) (remove_pos_from k ks args) t2).
Proof.
  intros C. induction params as [|[d b] ps IH]; intros k args t1 t2 R K W N Inv Sm.
  - destruct args; exact Sm.
  - destruct args as [|e r].
    { cbn [remove_pos_from]. destruct (existsb (Nat.eqb k) ks); destruct b; cbn; try exact Sm;
        destruct (remove_pos_from (S k) ks ps) as [|[? []] ?]; exact Sm. }
    destruct R as [R1 R2]. destruct K as [K1 K2]. destruct W as [W1 W2]. cbn [remove_pos_from].
    destruct (existsb (Nat.eqb k) ks) eqn:Q.
    + destruct (R1 eq_refl) as [Hd Hb]. subst b.
      destruct e; cbn [copy_out]; try (apply IH; assumption).
      cbn [evars] in N, Inv. inversion N as [|? ? Ny Nr]; subst.
      apply IH; try assumption.
      * intros y Iy. rewrite sv_set_other; [apply Inv; now right|]. intros E. subst. contradiction.
      * rewrite (W1 eq_refl x eq_refl). rewrite <- (Inv x (or_introl eq_refl)). now apply sim_none_set_same.
    + specialize (K1 eq_refl).
      destruct e; cbn [copy_out]; try (destruct b; apply IH; assumption).
      cbn [evars] in N, Inv. inversion N as [|? ? Ny Nr]; subst.
      destruct b; apply IH; try assumption.
      * intros y Iy. cbn. apply Inv. now right.
      * apply sim_set_arr; [|exact Sm]. intros i. now apply (proj2 C).
      * intros y Iy. rewrite sv_set_other; [apply Inv; now right|]. intros E. subst. contradiction.
      * rewrite (proj1 C d K1). now apply sim_set_sv.
Qed.

(** from copy-in + frame: the write-back condition *)
Lemma wb_from_bound (X : string -> Prop) s c1 c1' ks :
  (forall d, X d -> sv c1' d = sv c1 d) ->
  forall params k args, rem_ok X k ks params -> bound_ok s c1 params args -> wb_ok s c1' k ks params args.
Proof.
  intros F. induction params as [|[d b] ps IH]; intros k args R B; [exact I|].
  destruct args as [|e r]; [exact I|]. destruct R as [R1 R2]. destruct B as [B1 B2].
  split; [|now apply IH]. intros Q y Ey. destruct (R1 Q) as [Hd Hb]. rewrite (F d Hd). now apply B1.
Qed.

Theorem remove_dummy_call_preserves ps ps' (X : string -> Prop) g P ks args s s' f :
  find_proc ps g = Some P -> find_proc ps' g = Some (rm_dummies ks P) ->
  (forall f0 s0, exec ps' f0 (p_body P) s0 = exec ps f0 (p_body P) s0) ->
  NoDup (map fst (p_params P)) -> NoDup (evars args) ->
  rem_ok X 0 ks (p_params P) -> kept_ok X 0 ks (p_params P) ->
  (forall x, X x -> occurs_l x (p_body P) = false) ->
  exec1 ps f (SCall g args) s = Some s' ->
  exists s'', exec1 ps' f (SCall g (remove_pos ks args)) s = Some s'' /\ sim none s' s''.
Proof.
  intros Fp Fp' Hb Np Na R K O E. cbn [exec1] in E |- *. rewrite Fp in E. rewrite Fp'. cbn [obind] in E |- *.
  apply obind_some in E. destruct E as [c1 [Ci E]]. apply obind_some in E. destruct E as [c1' [Ex E]].
  inversion E; subst s'. clear E.
  destruct (remove_dummy_callee_partial ps X ks (p_params P) (p_body P) s args f c1 c1' R O Ci Ex) as [c2 [c2' [Ci2 [Ex2 S]]]].
  cbn [rm_dummies p_params p_body]. rewrite Ci2. cbn [obind]. rewrite Hb, Ex2. cbn [obind].
  eexists; split; [reflexivity|].
  unfold remove_pos. apply (copy_out_removed X s c1' c2' ks S); try assumption.
  - apply (wb_from_bound X s c1 c1' ks); [|exact R|].
    + intros d Hd. apply (nonoccurring_unchanged ps f _ _ _ d Ex). now apply O.
    + now apply (copy_in_bound s _ _ _ _ Ci).
  - intros y _. reflexivity.
  - apply sim_refl.
Qed.
