(** C32 — proofs, part 4: dead-code removal (branch pruning) preserves behaviour. *)
From Coq Require Import ZArith List Bool String Lia.
From LV Require Import Base.Expr Base.MiniF Base.MiniFFacts models.M_C32 proofs.P_C32 proofs.P_C32_cond.
Import ListNotations.
Open Scope Z_scope.

Section Dce.
  Variable ps : procs.

  (** ** congruences of program equivalence *)

  Lemma equiv_single st st' : (forall s s', runs1 ps st s s' <-> runs1 ps st' s s') -> equiv ps [st] [st'].
  Proof. intros H s s'. rewrite !runs_single. apply H. Qed.

  Lemma if_cong c c' t t' e e' :
    (forall s, evalB (env_st s) c' = evalB (env_st s) c) -> equiv ps t' t -> equiv ps e' e ->
    equiv ps [SIf c' t' e'] [SIf c t e].
  Proof.
    intros Hc Ht He. apply equiv_single. intros s s'.
    destruct (evalB (env_st s) c) as [b|] eqn:Ec.
    - rewrite (runs1_if ps c' t' e' s s' b) by (now rewrite Hc).
      rewrite (runs1_if ps c t e s s' b) by exact Ec.
      destruct b; [apply Ht|apply He].
    - split; intros [f X]; cbn [exec1] in X; rewrite ?Hc, Ec in X; discriminate.
  Qed.

  Lemma if_true c t e : (forall s, evalB (env_st s) c = Some true) -> equiv ps t [SIf c t e].
  Proof. intros Hc s s'. rewrite runs_single. now rewrite (runs1_if ps c t e s s' true (Hc s)). Qed.

  Lemma if_false c t e : (forall s, evalB (env_st s) c = Some false) -> equiv ps e [SIf c t e].
  Proof. intros Hc s s'. rewrite runs_single. now rewrite (runs1_if ps c t e s s' false (Hc s)). Qed.

  Lemma loop_runs_cong b b' v d : equiv ps b' b ->
    forall n i s s', loop_runs ps b v d n i s s' -> loop_runs ps b' v d n i s s'.
  Proof.
    intros H. induction 1 as [|n i s s1 s' R _ IH]; [constructor|].
    econstructor; [apply H; exact R|exact IH].
  Qed.

  Lemma do_cong v lo hi stp b b' : equiv ps b' b -> equiv ps [SDo v lo hi stp b'] [SDo v lo hi stp b].
  Proof.
    intros H. apply equiv_single. intros s s'. rewrite !runs1_do.
    split; intros [a [bb [d [Ea [Eb [Ed [Nd L]]]]]]]; exists a, bb, d; repeat split; try assumption.
    - eapply loop_runs_cong; [apply equiv_sym; exact H|exact L].
    - eapply loop_runs_cong; [exact H|exact L].
  Qed.

  Lemma while_half c b b' : (forall s s', runs ps b s s' -> runs ps b' s s') ->
    forall f s s', exec1 ps f (SWhile c b) s = Some s' -> runs1 ps (SWhile c b') s s'.
  Proof.
    intros H. induction f as [|f IH]; intros s s' X; cbn [exec1] in X;
      apply obind_some in X; destruct X as [bb [Ec X]]; destruct bb.
    - apply obind_some in X. destruct X as [s1 [_ X]]. discriminate.
    - inversion X; subst. exists 0%nat. cbn [exec1]. rewrite Ec. reflexivity.
    - apply obind_some in X. destruct X as [s1 [X1 X2]].
      rewrite exec_unfold in X2. apply obind_some in X2. destruct X2 as [s2 [X2 X3]].
      apply exec_nil in X3. subst s2.
      assert (R1 : runs ps b' s s1) by (apply H; now exists (S f)).
      assert (R2 : runs ps [SWhile c b'] s1 s') by (apply runs_single; now apply IH).
      destruct R1 as [f1 F1]. destruct R2 as [f2 F2].
      exists (Nat.max f1 f2). cbn [exec1]. rewrite Ec. cbn [obind].
      rewrite (exec_fuel_mono ps f1 _ _ _ _ F1 (Nat.le_max_l _ _)). cbn [obind].
      apply (exec_fuel_mono ps f2 _ _ _ _ F2 (Nat.le_max_r _ _)).
    - inversion X; subst. exists 0%nat. cbn [exec1]. rewrite Ec. reflexivity.
  Qed.

  Lemma while_cong c b b' : equiv ps b' b -> equiv ps [SWhile c b'] [SWhile c b].
  Proof.
    intros H. apply equiv_single. intros s s'. split; intros [f X].
    - eapply while_half; [|exact X]. intros s0 s1. apply H.
    - eapply while_half; [|exact X]. intros s0 s1. apply H.
  Qed.

  (** ** the transformer *)

  Definition dce_list (u : bool) : list stmt -> option (list stmt) :=
    fix go (l : list stmt) : option (list stmt) :=
      match l with
      | [] => Some []
      | s :: r => match dce1 u s, go r with Some a, Some b => Some (a ++ b) | _, _ => None end
      end.

  Lemma dce_list_eq u l : dce_list u l = dce u l.
  Proof. induction l as [|s r IH]; [reflexivity|]. cbn [dce]. rewrite <- IH. reflexivity. Qed.

  Lemma dce_list_sound u l :
    Forall (fun st => forall a, dce1 u st = Some a -> equiv ps a [st]) l ->
    forall l', dce_list u l = Some l' -> equiv ps l' l.
  Proof.
    induction 1 as [|st r Hst Hr IH]; intros l'.
    - cbn. intros E; inversion E. apply equiv_refl.
    - change (dce_list u (st :: r)) with
        (match dce1 u st, dce_list u r with Some a, Some b => Some (a ++ b) | _, _ => None end).
      destruct (dce1 u st) as [a|] eqn:E1; [|discriminate].
      destruct (dce_list u r) as [b|] eqn:E2; [|discriminate].
      intros E; inversion E; subst. change (st :: r) with ([st] ++ r).
      apply equiv_app; [now apply Hst|now apply IH].
  Qed.

  Lemma simp_cond_nil_sound c c' : simp_cond false [] c = Some c' ->
    forall s, evalB (env_st s) c' = evalB (env_st s) c.
  Proof. intros H s. apply (simp_cond_sound false [] s (agrees_nil s) c c' H). Qed.

  Lemma dce1_sound u : forall st out, dce1 u st = Some out -> equiv ps out [st].
  Proof.
    induction st using stmt_ind'; intros out.
    - cbn. intros E; inversion E. apply equiv_refl.
    - cbn. intros E; inversion E. apply equiv_refl.
    - change (dce1 u (SDo v lo hi st b)) with
        (match dce_list u b with Some b' => Some [SDo v lo hi st b'] | None => None end).
      destruct (dce_list u b) as [b'|] eqn:E1; [|discriminate].
      intros E; inversion E; subst. apply do_cong. now apply (dce_list_sound u b H).
    - change (dce1 u (SWhile c b)) with
        (match dce_list u b with Some b' => Some [SWhile c b'] | None => None end).
      destruct (dce_list u b) as [b'|] eqn:E1; [|discriminate].
      intros E; inversion E; subst. apply while_cong. now apply (dce_list_sound u b H).
    - change (dce1 u (SIf c t e)) with
        (match (if u then simp_cond false [] c else Some c), dce_list u t, dce_list u e with
         | Some c', Some t', Some e' =>
             match c' with
             | ELog true => Some t'
             | ELog false => Some e'
             | _ => if is_elseif e && is_nil e' then None else Some [SIf c' t' e']
             end
         | _, _, _ => None
         end).
      destruct (if u then simp_cond false [] c else Some c) as [c'|] eqn:Ec; [|discriminate].
      destruct (dce_list u t) as [t'|] eqn:Et; [|discriminate].
      destruct (dce_list u e) as [e'|] eqn:Ee; [|discriminate].
      assert (Hc : forall s, evalB (env_st s) c' = evalB (env_st s) c).
      { destruct u; [now apply simp_cond_nil_sound|inversion Ec; reflexivity]. }
      pose proof (dce_list_sound u t H t' Et) as Ht. pose proof (dce_list_sound u e H0 e' Ee) as He.
      assert (G : equiv ps [SIf c' t' e'] [SIf c t e]) by (now apply if_cong).
      destruct c'; try (destruct (is_elseif e && is_nil e'); intros E; inversion E; subst; exact G).
      intros E. destruct b; inversion E; subst.
      + eapply equiv_trans; [exact Ht|]. apply if_true. intros s. now rewrite <- Hc.
      + eapply equiv_trans; [exact He|]. apply if_false. intros s. now rewrite <- Hc.
    - cbn. intros E; inversion E. apply equiv_refl.
    - cbn. intros E; inversion E. apply equiv_refl.
  Qed.

  Theorem deadcode_preserves u p p' : dce u p = Some p' -> equiv ps p' p.
  Proof.
    rewrite <- dce_list_eq. apply dce_list_sound. apply Forall_forall. intros st _. apply dce1_sound.
  Qed.
End Dce.
