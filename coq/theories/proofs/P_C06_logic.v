(** C06 — the logical layer (comparisons, .not., .and., .or.) on top of the arithmetic layer. *)
From Coq Require Import ZArith List Bool String Lia.
From LV Require Import Base.Expr models.M_C06 proofs.P_C06_base proofs.P_C06_arith.
Import ListNotations.
Open Scope Z_scope.

Definition RB (k : bcls) : list token -> fx -> Prop :=
  match k with
  | KBPrim => G LPrim
  | KBRel => G L4
  | KBNot => G LAndOp
  | KBAnd => andchain
  | KBOr => orchain
  end.

Lemma RB_le1 k ts t : Nat.leb (bcls_rank k) 1 = true -> RB k ts t -> G L4 ts t.
Proof. destruct k; cbn; intros E H; try discriminate; [apply G_add_l4, G_prim_add, H | exact H]. Qed.
Lemma RB_le3 k ts t : Nat.leb (bcls_rank k) 3 = true -> RB k ts t -> andchain ts t.
Proof.
  destruct k; cbn; intros E H; try discriminate.
  - apply ch_one, G_andop_l4, G_add_l4, G_prim_add, H.
  - apply ch_one, G_andop_l4, H.
  - apply ch_one, H.
  - exact H.
Qed.
Lemma RB_le4 k ts t : Nat.leb (bcls_rank k) 4 = true -> RB k ts t -> orchain ts t.
Proof.
  destruct k; intros E H; try exact H.
  - apply ch_one, andchain_orop, (RB_le3 KBPrim); [reflexivity | exact H].
  - apply ch_one, andchain_orop, (RB_le3 KBRel); [reflexivity | exact H].
  - apply ch_one, andchain_orop, (RB_le3 KBNot); [reflexivity | exact H].
  - apply ch_one, andchain_orop, H.
Qed.
Lemma RB_expr k ts t : RB k ts t -> G LExpr ts t.
Proof. intro H. apply orchain_expr, RB_le4 with k; [destruct k; reflexivity | exact H]. Qed.

Definition stmtB (e : expr) (p : nat) (k : bcls) : Prop :=
  exists t, RB k (print LF e (MP p)) t /\ forall rho, evalFB rho t = evalB rho e.
Definition IHB (e : expr) : Prop := forall p k, classifyB e p = Some k -> stmtB e p k.

Lemma to_bprim_some o k : to_bprim o = Some k -> k = KBPrim /\ exists k', o = Some k'.
Proof. destruct o; cbn; intros [= <-]; eauto. Qed.

Lemma wrapB_ok (my p : nat) (body : option bcls) (toks : list token) (v : env -> option bool) k :
  (forall kb, body = Some kb -> exists t, RB kb toks t /\ forall rho, evalFB rho t = v rho) ->
  (if Nat.ltb my p then to_bprim body else body) = Some k ->
  exists t, RB k (paren_if p my toks) t /\ forall rho, evalFB rho t = v rho.
Proof.
  intros Hb. unfold paren_if. destruct (Nat.ltb my p).
  - intro E. apply to_bprim_some in E. destruct E as (-> & kb & ->).
    destruct (Hb kb eq_refl) as (t & HR & Hv). exists t. split; [|exact Hv].
    cbn [RB]. unfold paren. apply G_paren, RB_expr with kb, HR.
  - intro E. apply Hb, E.
Qed.

Section LogicChain.
  Variables (sep : token) (op : binop) (f : option bool -> option bool -> option bool) (unit : bool)
            (my bound : nat) (Hl : list token -> fx -> Prop).
  Hypothesis sem_op : forall rho a b, evalFB rho (FBin op a b) = f (evalFB rho a) (evalFB rho b).
  Hypothesis f_assoc : forall a b c, f (f a b) c = f a (f b c).
  Hypothesis f_unit_r : forall a, f a (Some unit) = a.
  Hypothesis weaken : forall k ts t, Nat.leb (bcls_rank k) bound = true -> RB k ts t -> chain Hl sep op ts t.

  Definition leb_bound (k : option bcls) : bool :=
    match k with Some k => Nat.leb (bcls_rank k) bound | None => false end.

  Lemma logic_rest : forall r, Forall IHB r -> forallb leb_bound (map (fun c => classifyB c my) r) = true ->
    forall X tx, chain Hl sep op X tx ->
    exists t, chain Hl sep op (X ++ flat_map (fun p => sep :: p) (map (fun c => print LF c (MP my)) r)) t /\
      forall rho, evalFB rho t = f (evalFB rho tx) (fold_right (fun c acc => f (evalB rho c) acc) (Some unit) r).
  Proof.
    induction r as [|c r IHr]; intros HF Hok X tx HX.
    - exists tx. cbn. rewrite app_nil_r. split; [exact HX|]. intro; symmetry; apply f_unit_r.
    - inversion HF as [|? ? Hc Hr]; subst.
      cbn [map forallb] in Hok. apply andb_prop in Hok. destruct Hok as [Hok1 Hok2].
      destruct (classifyB c my) as [k|] eqn:Ek; [|discriminate]. cbn [leb_bound] in Hok1.
      destruct (Hc _ k Ek) as (t & HR & Hv).
      assert (HC := weaken _ _ _ Hok1 HR).
      destruct (chain_app (option bool) evalFB f op sep sem_op f_assoc (chain Hl sep op) Hl (ch_more Hl sep op)
                  _ _ HC X tx HX) as (t1 & Ht1 & Hv1).
      destruct (IHr Hr Hok2 _ t1 Ht1) as (t' & Ht' & Hv').
      exists t'. split.
      + cbn [map flat_map]. rewrite <- app_assoc in Ht'. exact Ht'.
      + intro rho. rewrite Hv', Hv1. cbn [fold_right]. rewrite Hv. apply f_assoc.
  Qed.

  Lemma logic_body cs : Forall IHB cs -> all_le bound (map (fun c => classifyB c my) cs) = true ->
    exists t, chain Hl sep op (join sep (map (fun c => print LF c (MP my)) cs)) t /\
      forall rho, evalFB rho t = fold_right (fun c acc => f (evalB rho c) acc) (Some unit) cs.
  Proof.
    intros HF. destruct cs as [|c0 r]; [discriminate|].
    cbn [map all_le]. change (forallb _ (classifyB c0 my :: map (fun c => classifyB c my) r))
      with (forallb leb_bound (classifyB c0 my :: map (fun c => classifyB c my) r)).
    cbn [forallb]. intro Hok. apply andb_prop in Hok. destruct Hok as [Hok1 Hok2].
    inversion HF as [|? ? Hc Hr]; subst.
    destruct (classifyB c0 my) as [k|] eqn:Ek; [|discriminate]. cbn [leb_bound] in Hok1.
    destruct (Hc _ k Ek) as (t0 & HR & Hv).
    destruct (logic_rest r Hr Hok2 _ t0 (weaken _ _ _ Hok1 HR)) as (t & Ht & Hvt).
    exists t. split; [exact Ht|]. intro rho. rewrite Hvt, Hv. reflexivity.
  Qed.
End LogicChain.

Lemma IHB_log b : IHB (ELog b).
Proof.
  intros p k. cbn [classifyB]. intros [= <-]. exists (FLog b). split; [|reflexivity].
  cbn [RB print at_mode]. destruct b; constructor.
Qed.

Lemma IHB_cmp op a b : IHB (ECmp op a b).
Proof.
  intros p k. cbn [classifyB]. intro E. unfold stmtB. cbn [print at_mode].
  refine (wrapB_ok PREC_COMPARISON p _ _ (fun rho => evalB rho (ECmp op a b)) k _ E).
  clear E. intros kb.
  destruct (classify a (MP PREC_COMPARISON)) as [ka|] eqn:Ea; [|discriminate].
  destruct (classify b (MP PREC_COMPARISON)) as [kb'|] eqn:Eb; [|discriminate].
  cbn. intros [= <-].
  destruct (classify_mp _ _ _ Ea) as (ta & HRa & Hva). destruct (classify_mp _ _ _ Eb) as (tb & HRb & Hvb).
  exists (FCmp op ta tb). split.
  - cbn [RB]. apply G_rel; [apply RA_l2 with ka, HRa | apply RA_l2 with kb', HRb].
  - intro rho. cbn [evalFB evalB]. rewrite Hva, Hvb. reflexivity.
Qed.

Lemma IHB_not a : IHB a -> IHB (ENot a).
Proof.
  intros Ha p k. cbn [classifyB]. intro E. unfold stmtB. cbn [print at_mode].
  refine (wrapB_ok PREC_UNARY p _ _ (fun rho => evalB rho (ENot a)) k _ E).
  clear E. intros kb.
  destruct (classifyB a PREC_UNARY) as [ka|] eqn:Ea; [|discriminate].
  destruct (Nat.leb (bcls_rank ka) 1) eqn:El; [|discriminate]. intros [= <-].
  destruct (Ha _ _ Ea) as (t & HR & Hv).
  exists (FNot t). split.
  - cbn [RB]. apply G_not, RB_le1 with ka; assumption.
  - intro rho. cbn [evalFB evalB]. rewrite Hv. reflexivity.
Qed.

Lemma IHB_and cs : Forall IHB cs -> IHB (EAnd cs).
Proof.
  intros HF p k. cbn [classifyB]. intro E. unfold stmtB. cbn [print at_mode].
  refine (wrapB_ok PREC_AND p _ _ (fun rho => evalB rho (EAnd cs)) k _ E).
  clear E. intros kb.
  destruct (all_le 3 (map (fun c => classifyB c PREC_AND) cs)) eqn:Eall; [|discriminate]. intros [= <-].
  destruct (logic_body TAnd BAnd oand true PREC_AND 3 (G LAndOp) evalFB_and oand_assoc oand_true_r RB_le3 cs HF Eall)
    as (t & Ht & Hv).
  exists t. split; [exact Ht|]. intro rho. rewrite Hv, evalB_and. reflexivity.
Qed.

Lemma IHB_or cs : Forall IHB cs -> IHB (EOr cs).
Proof.
  intros HF p k. cbn [classifyB]. intro E. unfold stmtB. cbn [print at_mode].
  refine (wrapB_ok PREC_OR p _ _ (fun rho => evalB rho (EOr cs)) k _ E).
  clear E. intros kb.
  destruct (all_le 4 (map (fun c => classifyB c PREC_OR) cs)) eqn:Eall; [|discriminate]. intros [= <-].
  destruct (logic_body TOr BOr oor false PREC_OR 4 (G LOrOp) evalFB_or oor_assoc oor_false_r RB_le4 cs HF Eall)
    as (t & Ht & Hv).
  exists t. split; [exact Ht|]. intro rho. rewrite Hv, evalB_or. reflexivity.
Qed.

Lemma classifyB_sound : forall e, IHB e.
Proof.
  induction e using expr_ind'; try (intros ?p ?k; discriminate).
  - apply IHB_log.
  - apply IHB_cmp.
  - apply IHB_and; assumption.
  - apply IHB_or; assumption.
  - apply IHB_not; assumption.
Qed.
