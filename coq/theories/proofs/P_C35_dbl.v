(** C35 — the wider class: the double-valued intrinsics (abs -> fabs, 2-argument min/max -> fmin/fmax, literal powers ->
    pow) outside of divisions, [mod] and subscripts.  The C value is then an int or a double that is (exactly) the
    Fortran integer, so the conversion on assignment gives the Fortran value. *)
From Coq Require Import ZArith QArith List Bool String Lia ZifyBool.
From LV Require Import Base.Expr Base.MiniF models.M_C36 models.M_C35 proofs.P_C36_base proofs.P_C36_sem proofs.P_C36 proofs.P_C35_sem.
Import ListNotations.
Open Scope Z_scope.

(** the C value [cv] is the integer [v] (as an int, or as a double equal to it) *)
Definition c_is (v : Z) (cv : cval) : Prop := match cv with CI z => z = v | CD q => q == inject_Z v end.

Lemma cq_is v cv : c_is v cv -> cq cv == inject_Z v.
Proof. destruct cv; cbn; [intros ->; reflexivity | auto]. Qed.

Lemma c_to_int_is v cv : c_is v cv -> c_to_int cv = v.
Proof.
  destruct cv as [z|q]; cbn; [auto|]. intros H. unfold Qeq in H. cbn in H. rewrite Z.mul_1_r in H. rewrite H.
  apply Z.quot_mul. discriminate.
Qed.

Lemma c_arith_is op a b x y : (op = OAdd \/ op = OSub \/ op = OMul) -> c_is a x -> c_is b y ->
  exists z, c_arith op x y = Some z /\
            c_is (match op with OAdd => a + b | OSub => a - b | _ => a * b end) z.
Proof.
  intros Hop Hx Hy. pose proof (cq_is _ _ Hx) as Qx. pose proof (cq_is _ _ Hy) as Qy.
  destruct x as [xa|xq], y as [yb|yq].
  - cbn [c_is] in Hx, Hy. subst. destruct Hop as [-> | [-> | ->]]; eexists; split; reflexivity.
  - destruct Hop as [-> | [-> | ->]]; eexists; (split; [reflexivity|]); cbn [c_is]; rewrite Qred_correct, Qx, Qy.
    + rewrite inject_Z_plus. reflexivity.
    + unfold Zminus. rewrite inject_Z_plus, inject_Z_opp. reflexivity.
    + rewrite inject_Z_mult. reflexivity.
  - destruct Hop as [-> | [-> | ->]]; eexists; (split; [reflexivity|]); cbn [c_is]; rewrite Qred_correct, Qx, Qy.
    + rewrite inject_Z_plus. reflexivity.
    + unfold Zminus. rewrite inject_Z_plus, inject_Z_opp. reflexivity.
    + rewrite inject_Z_mult. reflexivity.
  - destruct Hop as [-> | [-> | ->]]; eexists; (split; [reflexivity|]); cbn [c_is]; rewrite Qred_correct, Qx, Qy.
    + rewrite inject_Z_plus. reflexivity.
    + unfold Zminus. rewrite inject_Z_plus, inject_Z_opp. reflexivity.
    + rewrite inject_Z_mult. reflexivity.
Qed.

Lemma c_neg_is a x : c_is a x -> c_is (- a) (c_neg x).
Proof. destruct x; cbn [c_neg c_is]; [intros ->; reflexivity|]. intros H. rewrite Qred_correct, H, inject_Z_opp. reflexivity. Qed.

Lemma Qcompare_inject a b : Qcompare (inject_Z a) (inject_Z b) = Z.compare a b.
Proof. unfold Qcompare. cbn. rewrite !Z.mul_1_r. reflexivity. Qed.

Lemma cmp_q_inject op a b : cmp_q op (inject_Z a) (inject_Z b) = cmp_z op a b.
Proof.
  unfold cmp_q, cmp_z. rewrite Qcompare_inject.
  destruct op; destruct (Z.compare_spec a b); try reflexivity; try lia;
    repeat match goal with |- context [?x =? ?y] => destruct (Z.eqb_spec x y) | |- context [?x <? ?y] => destruct (Z.ltb_spec x y)
                      | |- context [?x <=? ?y] => destruct (Z.leb_spec x y) end; cbn; try reflexivity; try lia.
Qed.

Lemma cmp_q_is op a b x y : c_is a x -> c_is b y -> cmp_q op (cq x) (cq y) = cmp_z op a b.
Proof.
  intros Hx Hy. rewrite <- cmp_q_inject. unfold cmp_q.
  rewrite (Qcompare_comp _ _ (cq_is _ _ Hx) _ _ (cq_is _ _ Hy)). reflexivity.
Qed.

Lemma c_cmp_is op a b x y : c_is a x -> c_is b y -> c_cmp op x y = b2c (cmp_z op a b).
Proof.
  intros Hx Hy. pose proof (cmp_q_is op a b x y Hx Hy) as H.
  destruct x, y; cbn [c_cmp]; try (rewrite H; reflexivity). cbn in Hx, Hy. subst. reflexivity.
Qed.

Lemma q_abs_is a q : q == inject_Z a -> q_abs q == inject_Z (Z.abs a).
Proof.
  unfold Qeq, q_abs. cbn. rewrite !Z.mul_1_r. intros H. rewrite H, Z.abs_mul. f_equal.
Qed.

Lemma qpow_is a q n : q == inject_Z a -> qpow_pos q n == inject_Z (a ^ Z.of_nat n).
Proof.
  intros H. induction n as [|n IH].
  - reflexivity.
  - cbn [qpow_pos]. rewrite Nat2Z.inj_succ, Z.pow_succ_r by lia. rewrite inject_Z_mult, IH, H. reflexivity.
Qed.

Section CExt.
  Variable byref : list string.
  Variable decl : list (string * list Z).
  Let arrs := map fst decl.
  Variables (rho : env) (ce : cenv).
  Hypothesis Hrel : c_env_rel byref decl rho ce.
  Hypothesis Hok : arrs_ok arrs = true.
  Hypothesis Hpos : forall a sh, shape_of decl a = Some sh -> Forall (fun n => 0 < n) sh.
  (** no array is called like one of the C functions *)
  Hypothesis Hcn : forallb (fun a => negb (existsb (String.eqb a) ["fmin"; "fmax"; "fabs"]%string)) arrs = true.

  Notation ECv := (EC byref ce).

  Lemma c_name_not_arr f : existsb (String.eqb f) ["fmin"; "fmax"; "fabs"]%string = true -> is_arr arrs f = false.
  Proof.
    intros Hf. destruct (is_arr arrs f) eqn:E; [|reflexivity].
    unfold is_arr in E. apply existsb_exists in E. destruct E as (a & Hin & Heq). apply String.eqb_eq in Heq. subst a.
    rewrite forallb_forall in Hcn. specialize (Hcn f Hin). rewrite Hf in Hcn. discriminate.
  Qed.
  Definition ECis (p : pyexpr) (v : Z) : Prop := exists cv, ECv p = Some cv /\ c_is v cv.

  Lemma ECis_int p v : ECv p = Some (CI v) -> ECis p v.
  Proof. intros H. exists (CI v). split; [exact H | reflexivity]. Qed.

  Lemma ECis_bin op cop a b x y :
    (cop = OAdd \/ cop = OSub \/ cop = OMul) ->
    py2c byref (PBin op a b) = CBin cop (py2c byref a) (py2c byref b) ->
    ECis a x -> ECis b y ->
    ECis (PBin op a b) (match cop with OAdd => x + y | OSub => x - y | _ => x * y end).
  Proof.
    intros Hop E (cx & Ha & Hx) (cy & Hb & Hy).
    destruct (c_arith_is cop x y cx cy Hop Hx Hy) as (z & Hz & Hiz).
    exists z. split; [|exact Hiz]. unfold EC in *. rewrite E.
    destruct Hop as [-> | [-> | ->]]; cbn [evalC]; rewrite Ha, Hb; exact Hz.
  Qed.

  Lemma ECis_mul a b x y : ECis a x -> ECis b y -> ECis (PBin BMul a b) (x * y).
  Proof. intros Ha Hb. exact (ECis_bin BMul OMul a b x y (or_intror (or_intror eq_refl)) eq_refl Ha Hb). Qed.
  Lemma ECis_add a b x y : ECis a x -> ECis b y -> ECis (PBin BAdd a b) (x + y).
  Proof. intros Ha Hb. exact (ECis_bin BAdd OAdd a b x y (or_introl eq_refl) eq_refl Ha Hb). Qed.
  Lemma ECis_sub a b x y : ECis a x -> ECis b y -> ECis (PBin BSub a b) (x - y).
  Proof. intros Ha Hb. exact (ECis_bin BSub OSub a b x y (or_intror (or_introl eq_refl)) eq_refl Ha Hb). Qed.
  Lemma ECis_neg a x : ECis a x -> ECis (PNeg a) (- x).
  Proof.
    intros (cx & Ha & Hx). exists (c_neg cx). split; [|apply c_neg_is, Hx].
    unfold EC in *. cbn [py2c evalC]. rewrite Ha. reflexivity.
  Qed.
  Lemma ECis_ext p x y : x = y -> ECis p x -> ECis p y.
  Proof. intros ->. auto. Qed.

  Lemma ECis_chain_mul r : forall xs p0 x0,
    ECis p0 x0 -> Forall2 ECis r xs -> ECis (fold_left (PBin BMul) r p0) (x0 * prodz xs).
  Proof.
    induction r as [|p r IH]; intros xs p0 x0 Hp0 HF; inversion HF as [|? y ? ys Hp Hr]; subst; cbn [fold_left prodz].
    - eapply ECis_ext; [|exact Hp0]. lia.
    - eapply ECis_ext; [|apply (IH ys (PBin BMul p0 p) (x0 * y)); [apply ECis_mul; assumption | exact Hr]]. lia.
  Qed.

  Lemma ECis_prod_ast cs ps vs :
    Forall2 ECis ps vs -> Forall2 (fun c x => is_m1 c = true -> x = -1) cs vs -> ps <> [] ->
    ECis (prod_ast cs ps) (prodz vs).
  Proof.
    intros HP HM Hne.
    assert (Hchain : ECis (chain BMul ps) (prodz vs)).
    { destruct ps as [|p0 r]; [congruence|]. inversion HP as [|? x0 ? xs Hq0 Hr]; subst.
      cbn [chain prodz]. apply ECis_chain_mul; assumption. }
    destruct cs as [|c0 [|c1 [|c2 cr]]].
    1, 2, 4: rewrite prod_ast_chain; [exact Hchain | intros ? ? [=]].
    destruct (is_m1 c0) eqn:Em.
    - inversion HM as [|? x0 ? vs1 Hm0 HM1]; subst. inversion HM1 as [|? x1 ? vs2 Hm1 HM2]; subst. inversion HM2; subst.
      inversion HP as [|p0 ? ps1 ? Hp0 HP1]; subst. inversion HP1 as [|p1 ? ps2 ? Hp1 HP2]; subst. inversion HP2; subst.
      cbn [prod_ast]. rewrite Em. eapply ECis_ext; [|apply ECis_neg, Hp1]. rewrite (Hm0 Em). cbn [prodz]. lia.
    - rewrite prod_ast_chain; [exact Hchain|]. intros ? ? [= <- <-]. exact Em.
  Qed.

  Lemma ECis_sum_fold r : forall xs acc a,
    ECis acc a ->
    Forall2 (fun (np : bool * pyexpr) x => ECis (snd np) (if fst np then - x else x)) r xs ->
    ECis (fold_left (fun acc (np : bool * pyexpr) => PBin (if fst np then BSub else BAdd) acc (snd np)) r acc) (a + sumz xs).
  Proof.
    induction r as [|[n p] r IH]; intros xs acc a Ha HF; inversion HF as [|? x ? ys Hp Hr]; subst; cbn [fold_left sumz].
    - eapply ECis_ext; [|exact Ha]. lia.
    - cbn [fst snd] in *.
      eapply ECis_ext; [|apply (IH ys _ (a + x)); [|exact Hr]]; [lia|].
      destruct n; [eapply ECis_ext; [|apply (ECis_sub _ _ _ _ Ha Hp)] | eapply ECis_ext; [|apply (ECis_add _ _ _ _ Ha Hp)]]; lia.
  Qed.

  Lemma ECis_sum_ast ts xs :
    Forall2 (fun (np : bool * pyexpr) x => ECis (snd np) (if fst np then - x else x)) ts xs ->
    ts <> [] -> ECis (sum_ast ts) (sumz xs).
  Proof.
    intros HF Hne. destruct ts as [|[n0 p0] r]; [congruence|].
    inversion HF as [|? x0 ? ys Hs0 Hr]; subst. cbn [sum_ast sumz]. cbn [fst snd] in Hs0.
    apply ECis_sum_fold; [|exact Hr].
    destruct n0; [|exact Hs0]. eapply ECis_ext; [|apply ECis_neg, Hs0]. lia.
  Qed.

  Definition factsD (e : expr) (v : Z) : Prop :=
    ECis (py_ast arrs e false) v /\ (term_neg e = true -> ECis (py_ast arrs e true) (- v)).

  Lemma facts_factsD e v : facts byref decl ce e v -> factsD e v.
  Proof. intros [HA HB]. split; [apply ECis_int, HA | intros Ht; apply ECis_int, (HB Ht)]. Qed.

  Lemma factsD_term e v : factsD e v ->
    ECis (snd (term_neg e, py_ast arrs e true)) (if fst (term_neg e, py_ast arrs e true) then - v else v).
  Proof.
    intros [HA HB]. cbn [fst snd]. destruct (term_neg e) eqn:Et; [apply HB; reflexivity|].
    rewrite py_ast_t by exact Et. exact HA.
  Qed.

  Definition Pd (e : expr) : Prop :=
    c_ext_class arrs e = true -> forall v, evalZ rho e = Some v -> factsD (c_pre decl e) v.

  Lemma d_children_false cs vs :
    Forall Pd cs -> forallb (c_ext_class arrs) cs = true ->
    Forall2 (fun c x => evalZ rho c = Some x) cs vs ->
    Forall2 ECis (map (fun c => py_ast arrs c false) (map (c_pre decl) cs)) vs.
  Proof.
    intros HF Hc H2. induction H2 as [|c x cs vs Hx _ IH]; [constructor|].
    inversion HF as [|? ? Hc0 HF']; subst. cbn [forallb] in Hc. apply andb_prop in Hc. destruct Hc as [Hc1 Hc2].
    cbn [map]. constructor; [apply (Hc0 Hc1 x Hx) | apply IH; assumption].
  Qed.

  Lemma d_children_term cs vs :
    Forall Pd cs -> forallb (c_ext_class arrs) cs = true ->
    Forall2 (fun c x => evalZ rho c = Some x) cs vs ->
    Forall2 (fun (np : bool * pyexpr) x => ECis (snd np) (if fst np then - x else x))
            (map (fun c => (term_neg c, py_ast arrs c true)) (map (c_pre decl) cs)) vs.
  Proof.
    intros HF Hc H2. induction H2 as [|c x cs vs Hx _ IH]; [constructor|].
    inversion HF as [|? ? Hc0 HF']; subst. cbn [forallb] in Hc. apply andb_prop in Hc. destruct Hc as [Hc1 Hc2].
    cbn [map]. constructor; [|apply IH; assumption].
    apply factsD_term. apply (Hc0 Hc1 x Hx).
  Qed.

  Lemma int_is_ext : forall e, c_int_class arrs e = true -> Pd e.
  Proof. intros e Hi _ v Hv. apply facts_factsD. exact (Pc_all byref decl rho ce Hrel Hok Hpos e Hi v Hv). Qed.

  Lemma Pd_all : forall e, Pd e.
  Proof.
    induction e using expr_ind'; unfold Pd; intros Hc w Hv; try discriminate.
    - apply (int_is_ext (EInt v) eq_refl Hc w Hv).
    - apply (int_is_ext (EPy v) eq_refl Hc w Hv).
    - apply (int_is_ext (EVar x) eq_refl Hc w Hv).
    - (* ESum *) cbn [c_ext_class] in Hc. apply andb_prop in Hc. destruct Hc as [Hne Hc].
      rewrite evalZ_sum in Hv. destruct (omap_list (evalZ rho) cs) as [vs|] eqn:E; [|discriminate].
      cbn [obind] in Hv. injection Hv as <-. apply omap_list_Forall2 in E.
      split; [|discriminate]. cbn [c_pre py_ast].
      apply ECis_sum_ast; [apply d_children_term; assumption|].
      destruct cs; [discriminate | discriminate].
    - (* EProd *) cbn [c_ext_class] in Hc. apply andb_prop in Hc. destruct Hc as [Hc Hsingle].
      apply andb_prop in Hc. destruct Hc as [Hne Hc].
      rewrite evalZ_prod in Hv. destruct (omap_list (evalZ rho) cs) as [vs|] eqn:E; [|discriminate].
      cbn [obind] in Hv. injection Hv as <-. apply omap_list_Forall2 in E.
      pose proof (d_children_false cs vs H Hc E) as HP.
      pose proof (c_children_m1 decl rho cs vs E) as HM.
      split.
      + cbn [c_pre py_ast andb]. apply ECis_prod_ast; [exact HP | exact HM|].
        destruct cs; [discriminate | discriminate].
      + intros Ht. cbn [c_pre py_ast].
        change (EProd p (map (c_pre decl) cs)) with (c_pre decl (EProd p cs)) in *.
        rewrite c_term_neg_pre in *. rewrite Ht. cbn [andb].
        destruct p; [discriminate|]. destruct cs as [|c0 r]; [discriminate|]. cbn [term_neg] in Ht.
        destruct r as [|c1 r']; [cbn [term_neg] in Hsingle; rewrite Ht in Hsingle; discriminate|].
        inversion E as [|? x0 ? vs' Hx0 E']; subst.
        inversion HP as [|? ? ? ? _ HP']; subst. inversion HM as [|? ? ? ? _ HM']; subst.
        cbn [map tl]. cbn [map] in HP', HM'.
        eapply ECis_ext; [|apply (ECis_prod_ast _ _ vs' HP' HM'); discriminate].
        destruct c0; try discriminate. cbn in Ht. cbn in Hx0. injection Hx0 as <-. cbn [prodz]. lia.
    - (* EQuot *) cbn [c_ext_class] in Hc.
      apply (int_is_ext (EQuot p e1 e2)); [cbn [c_int_class]; exact Hc | cbn [c_ext_class]; exact Hc | exact Hv].
    - (* EPow *) cbn [c_ext_class] in Hc. destruct e2; try discriminate.
      apply andb_prop in Hc. destruct Hc as [Hc Hn].
      cbn [evalZ] in Hv. destruct (evalZ rho e1) as [a|] eqn:Ea; [|discriminate]. cbn [obind] in Hv.
      unfold pow_z in Hv. rewrite Hn in Hv. injection Hv as <-.
      split; [|discriminate]. cbn [c_pre py_ast].
      destruct (IHe1 Hc a Ea) as [(cv & HA & His) _].
      exists (CD (Qred (qpow_pos (cq cv) (Z.to_nat v)))). split.
      + unfold EC in *. cbn [py2c evalC]. rewrite HA.
        pose proof (EC_lit byref decl ce v) as Hl. unfold EC in Hl. rewrite Hl.
        cbn [c_builtin String.eqb Ascii.eqb Bool.eqb]. rewrite Hn. reflexivity.
      + cbn [c_is]. rewrite Qred_correct, (qpow_is a _ _ (cq_is _ _ His)). rewrite Z2Nat.id by lia. reflexivity.
    - (* ECall *)
      cbn [c_ext_class] in Hc.
      destruct (is_arr arrs f || String.eqb f "mod") eqn:Eam.
      { apply (int_is_ext (ECall f args) Hc); [cbn [c_ext_class]; rewrite Eam; exact Hc | exact Hv]. }
      apply orb_false_elim in Eam. destruct Eam as [Ea Em].
      apply andb_prop in Hc. destruct Hc as [Hk Hca].
      rewrite evalZ_call in Hv. destruct (omap_list (evalZ rho) args) as [vs|] eqn:E; [|discriminate].
      cbn [obind] in Hv. apply omap_list_Forall2 in E.
      pose proof (d_children_false args vs H Hca E) as HP.
      pose proof (Forall2_length' _ _ _ E) as Hlen.
      rewrite c_pre_call, (not_arr_assoc decl f Ea), Em. cbn [andb].
      split; [|discriminate]. cbn [py_ast].
      unfold dbl_intrinsic in Hk.
      destruct (String.eqb f "min") eqn:E1.
      { apply String.eqb_eq in E1. subst f. cbn [orb andb] in Hk.
        change (String.eqb "min" "abs") with false in Hk. cbn [andb] in Hk. rewrite orb_false_r in Hk. apply Nat.eqb_eq in Hk.
        change (rename_c "min") with "fmin"%string. rewrite (c_name_not_arr "fmin" eq_refl).
        change (rename_py "fmin") with "fmin"%string.
        destruct args as [|a1 [|a2 [|a3 ar]]]; cbn in Hk; try discriminate.
        inversion E as [|? x1 ? vs1 _ E1']; subst. inversion E1' as [|? x2 ? vs2 _ E2']; subst. inversion E2'; subst.
        cbn [map] in HP. inversion HP as [|? ? ? ? (c1 & H1 & I1) HP1]; subst. inversion HP1 as [|? ? ? ? (c2 & H2 & I2) _]; subst.
        cbn in Hv. injection Hv as <-.
        exists (CD (if cmp_q Clt (cq c2) (cq c1) then cq c2 else cq c1)). split.
        - unfold EC in *. cbn [map py2c String.eqb Ascii.eqb Bool.eqb c_fname evalC]. rewrite H1, H2. reflexivity.
        - cbn [c_is]. rewrite (cmp_q_is Clt x2 x1 c2 c1 I2 I1). cbn [cmp_z].
          destruct (x2 <? x1) eqn:El; [rewrite (cq_is _ _ I2) | rewrite (cq_is _ _ I1)]; f_equiv; lia. }
      destruct (String.eqb f "max") eqn:E2.
      { apply String.eqb_eq in E2. subst f. cbn [orb andb] in Hk.
        change (String.eqb "max" "abs") with false in Hk. cbn [andb] in Hk. rewrite orb_false_r in Hk. apply Nat.eqb_eq in Hk.
        change (rename_c "max") with "fmax"%string. rewrite (c_name_not_arr "fmax" eq_refl).
        change (rename_py "fmax") with "fmax"%string.
        destruct args as [|a1 [|a2 [|a3 ar]]]; cbn in Hk; try discriminate.
        inversion E as [|? x1 ? vs1 _ E1']; subst. inversion E1' as [|? x2 ? vs2 _ E2']; subst. inversion E2'; subst.
        cbn [map] in HP. inversion HP as [|? ? ? ? (c1 & H1 & I1) HP1]; subst. inversion HP1 as [|? ? ? ? (c2 & H2 & I2) _]; subst.
        cbn in Hv. injection Hv as <-.
        exists (CD (if cmp_q Clt (cq c1) (cq c2) then cq c2 else cq c1)). split.
        - unfold EC in *. cbn [map py2c String.eqb Ascii.eqb Bool.eqb c_fname evalC]. rewrite H1, H2. reflexivity.
        - cbn [c_is]. rewrite (cmp_q_is Clt x1 x2 c1 c2 I1 I2). cbn [cmp_z].
          destruct (x1 <? x2) eqn:El; [rewrite (cq_is _ _ I2) | rewrite (cq_is _ _ I1)]; f_equiv; lia. }
      cbn [orb andb] in Hk.
      destruct (String.eqb f "abs") eqn:E3; [|discriminate].
      apply String.eqb_eq in E3. subst f. cbn [andb] in Hk. apply Nat.eqb_eq in Hk.
      change (rename_c "abs") with "fabs"%string. rewrite (c_name_not_arr "fabs" eq_refl).
      change (rename_py "fabs") with "fabs"%string.
      destruct args as [|a1 [|a2 ar]]; cbn in Hk; try discriminate.
      inversion E as [|? x1 ? vs1 _ E1']; subst. inversion E1'; subst.
      cbn [map] in HP. inversion HP as [|? ? ? ? (c1 & H1 & I1) _]; subst.
      cbn in Hv. injection Hv as <-.
      exists (CD (q_abs (cq c1))). split.
      + unfold EC in *. cbn [map py2c String.eqb Ascii.eqb Bool.eqb c_fname evalC]. rewrite H1. reflexivity.
      + cbn [c_is]. apply q_abs_is, cq_is, I1.
  Qed.

  Theorem cexpr_preserves_with_doubles e v :
    c_ext_class arrs e = true -> evalZ rho e = Some v ->
    exists cv, evalC ce (c_model byref decl e) = Some cv /\ c_to_int cv = v.
  Proof.
    intros Hc Hv. destruct (proj1 (Pd_all e Hc v Hv)) as (cv & H & I).
    exists cv. split; [exact H | apply c_to_int_is, I].
  Qed.

  (** logical expressions over the wider class *)
  Definition Pdb (e : expr) : Prop :=
    c_ext_class_b arrs e = true -> forall b, evalB rho e = Some b -> ECv (py_ast arrs (c_pre decl e) false) = Some (b2c b).

  Lemma d_children_bool cs bs :
    Forall Pdb cs -> forallb (c_ext_class_b arrs) cs = true ->
    Forall2 (fun c x => evalB rho c = Some x) cs bs ->
    Forall2 (fun p x => ECv p = Some (b2c x)) (map (fun c => py_ast arrs c false) (map (c_pre decl) cs)) bs.
  Proof.
    intros HF Hc H2. induction H2 as [|c x cs vs Hx _ IH]; [constructor|].
    inversion HF as [|? ? Hc0 HF']; subst. cbn [forallb] in Hc. apply andb_prop in Hc. destruct Hc as [Hc1 Hc2].
    cbn [map]. constructor; [apply (Hc0 Hc1 x Hx) | apply IH; assumption].
  Qed.

  Lemma Pdb_all : forall e, Pdb e.
  Proof.
    induction e using expr_ind'; unfold Pdb; intros Hc b0 Hv; try discriminate.
    - cbn in Hv. injection Hv as <-. reflexivity.
    - cbn [c_ext_class_b] in Hc. apply andb_prop in Hc. destruct Hc as [Hc1 Hc2].
      cbn [evalB] in Hv. destruct (evalZ rho e1) as [x|] eqn:E1; [|discriminate].
      destruct (evalZ rho e2) as [y|] eqn:E2; [|discriminate]. cbn [obind] in Hv. injection Hv as <-.
      destruct (proj1 (Pd_all e1 Hc1 x E1)) as (c1 & H1 & I1). destruct (proj1 (Pd_all e2 Hc2 y E2)) as (c2 & H2 & I2).
      unfold EC in *. cbn [c_pre py_ast py2c evalC]. rewrite H1, H2. rewrite (c_cmp_is op x y c1 c2 I1 I2). reflexivity.
    - cbn [c_ext_class_b] in Hc. apply andb_prop in Hc. destruct Hc as [Hn Hc].
      rewrite evalB_and in Hv. destruct (omap_list (evalB rho) cs) as [bs|] eqn:E; [|discriminate].
      cbn [obind] in Hv. injection Hv as <-. apply omap_list_Forall2 in E.
      cbn [c_pre py_ast]. apply (boolop_c_eval byref ce true); [apply d_children_bool; assumption|].
      destruct cs; [discriminate | discriminate].
    - cbn [c_ext_class_b] in Hc. apply andb_prop in Hc. destruct Hc as [Hn Hc].
      rewrite evalB_or in Hv. destruct (omap_list (evalB rho) cs) as [bs|] eqn:E; [|discriminate].
      cbn [obind] in Hv. injection Hv as <-. apply omap_list_Forall2 in E.
      cbn [c_pre py_ast]. apply (boolop_c_eval byref ce false); [apply d_children_bool; assumption|].
      destruct cs; [discriminate | discriminate].
    - cbn [c_ext_class_b] in Hc. cbn [evalB] in Hv.
      destruct (evalB rho e) as [x|] eqn:E1; [|discriminate]. cbn [obind] in Hv. injection Hv as <-.
      unfold EC. cbn [c_pre py_ast py2c evalC]. pose proof (IHe Hc x E1) as H1. unfold EC in H1. rewrite H1.
      rewrite truthy_b2c. reflexivity.
  Qed.

  Theorem ccond_preserves_with_doubles e b :
    c_ext_class_b arrs e = true -> evalB rho e = Some b -> evalC ce (c_model byref decl e) = Some (b2c b).
  Proof. intros Hc Hv. exact (Pdb_all e Hc b Hv). Qed.
End CExt.
