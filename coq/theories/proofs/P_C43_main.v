(** C43 — the main lemma: on the class, the conservative printer applied to the transformed tree gives exactly
    the specified text (unreported statements verbatim, reported ones as the structural printer gives them),
    and raises no exception. *)
From Coq Require Import List String Ascii Bool Arith ZArith Lia.
From LV Require Import Base.Strings Base.Expr models.M_C43 proofs.P_C43.
Import ListNotations.
Open Scope string_scope.
Open Scope list_scope.

(* ------------------------------------------------------------------------------------------------ *)
(** * Shape of the transformed tree *)
Lemma X_untouched k st a fr kids :
  X MUntouched (Blk k st a fr kids) = Blk k (if is_act a then NOSRC else VALID) a fr (map (X MUntouched) kids).
Proof. reflexivity. Qed.

Lemma is_found_act a : is_found a = true -> is_act a = true.
Proof. destruct a; cbn; congruence. Qed.

Lemma X_visit_found k st a fr kids :
  is_found a = true ->
  X MVisit (Blk k st a fr kids) = Blk k NOSRC a fr (map (X MUntouched) kids).
Proof. intros H. cbn. rewrite H, (is_found_act _ H). reflexivity. Qed.

Lemma X_visit_notfound k st a fr kids :
  is_found a = false ->
  X MVisit (Blk k st a fr kids)
  = Blk k (if is_act a then NOSRC else if has_node_kid kids then INV_CHILDREN else VALID) a fr (map (X MVisit) kids).
Proof.
  intros H. cbn. rewrite H, has_node_kid_mark, map_map. destruct (is_act a); cbn; [reflexivity|].
  destruct (has_node_kid kids); reflexivity.
Qed.

(* ------------------------------------------------------------------------------------------------ *)
(** * Children *)
Definition good (c : node) : Prop :=
  forall m prep sm ise, in_class m prep sm ise c = true ->
    emit sm ise (X m c) = List.concat (spec_g prep c) /\ emit_ok ise (X m c) = true.

Lemma kids_flat km p ise kids :
  Forall good kids -> forallb (in_class km p SRegen ise) kids = true ->
  flat_map (emit SRegen ise) (map (X km) kids) = List.concat (flat_map (spec_g p) kids)
  /\ forallb (emit_ok ise) (map (X km) kids) = true.
Proof.
  induction 1 as [|c r Hc _ IH]; cbn; [auto|]. rewrite andb_true_iff. intros [H1 H2].
  destruct (Hc _ _ _ _ H1) as [E1 E2]. destruct (IH H2) as [E3 E4].
  rewrite E1, E2, E3, E4, concat_app. auto.
Qed.

Lemma kids_chain km p sm own e kids :
  Forall good kids -> class_kids (in_class km p sm) own e kids = true ->
  emit_kids (emit sm) own e (map (X km) kids) = List.concat (flat_map (spec_g p) kids)
  /\ ok_kids emit_ok own e (map (X km) kids) = true.
Proof.
  induction 1 as [|c r Hc Hr IH]; [cbn; auto|].
  unfold class_kids. cbn [ok_kids emit_kids map flat_map]. destruct r as [|c2 r].
  - intros H1. destruct (Hc _ _ _ _ H1) as [E1 E2]. cbn. rewrite E1, E2, app_nil_r. auto.
  - rewrite andb_true_iff. intros [H1 H2]. destruct (Hc _ _ _ _ H1) as [E1 E2].
    destruct (IH H2) as [E3 E4]. cbn [map] in *. rewrite E1, E2, concat_app.
    change (emit_kids (emit sm) own e (X km c2 :: map (X km) r)) with (emit_kids (emit sm) own e (map (X km) (c2 :: r))).
    change (ok_kids emit_ok own e (X km c2 :: map (X km) r)) with (ok_kids emit_ok own e (map (X km) (c2 :: r))).
    cbn [map]. rewrite E3, E4. auto.
Qed.

Lemma concat_frame (h f : list line) (mid : list (list line)) :
  List.concat (h :: mid ++ [f]) = h ++ List.concat mid ++ f.
Proof. cbn. rewrite concat_app. cbn. rewrite app_nil_r. reflexivity. Qed.

Lemma one_line_inv l : one_line l = true -> exists x, l = [x].
Proof. destruct l as [|x [|y l]]; cbn; try discriminate. eauto. Qed.

Lemma no_line_inv (l : list line) : no_line l = true -> l = [].
Proof. destruct l; cbn; congruence. Qed.

Lemma sep_kids_X m kids : existsb is_sep (map (X m) kids) = existsb is_sep kids.
Proof. rewrite existsb_map. apply existsb_ext. intros; apply is_sep_X. Qed.

(* ------------------------------------------------------------------------------------------------ *)
(** * Main lemma *)
Lemma main : forall n, good n.
Proof.
  induction n as [k st a src regen|k st a fr kids IH] using node_ind'; intros m prep sm ise H.
  - (* leaves *)
    assert (EX : X m (Leaf k st a src regen) = Leaf k (if leaf_mapped k a then NOSRC else VALID) a src regen)
      by (destruct m; reflexivity).
    rewrite EX. split; [|reflexivity]. cbn in H |- *. rewrite app_nil_r.
    destruct k; cbn in *.
    + destruct a; reflexivity.
    + destruct a; cbn in *; try reflexivity. apply lines_eqb_eq in H. exact H.
    + destruct sm; cbn in *; apply lines_eqb_eq in H; exact H.
    + destruct (is_act a); cbn in *; [reflexivity|]. apply lines_eqb_eq in H. exact H.
  - (* blocks *)
    cbn [in_class] in H. destruct (is_drop a) eqn:Hd.
    { assert (a = ADrop) by (destruct a; cbn in Hd; congruence). subst a.
      destruct m; cbn; auto. }
    cbn [orb] in H.
    set (km := match m with MUntouched => MUntouched | MVisit => if is_found a then MUntouched else MVisit end) in *.
    destruct (is_act a) eqn:Ha.
    + (* reported: printed structurally around its children *)
      assert (EX : X m (Blk k st a fr kids) = Blk k NOSRC a fr (map (X km) kids)).
      { destruct m.
        - destruct (is_found a) eqn:Hf; subst km; cbn zeta iota.
          + apply X_visit_found; assumption.
          + rewrite X_visit_notfound by assumption. rewrite Ha. reflexivity.
        - rewrite X_untouched, Ha. reflexivity. }
      rewrite EX. cbn [spec_g emit emit_ok]. rewrite Hd, Ha. cbn [orb].
      destruct k; try discriminate.
      * destruct (kids_flat km true ise kids IH H) as [E1 E2]. rewrite concat_frame, E1, E2. auto.
      * apply andb_true_iff in H as [He Hk]. destruct (kids_chain km true SRegen false (ei fr) kids IH Hk) as [E1 E2].
        rewrite concat_frame, E1, E2, He. auto.
      * destruct (kids_flat km true ise kids IH H) as [E1 E2]. rewrite concat_frame, E1, E2. auto.
    + (* not reported *)
      assert (Hnf : is_found a = false) by (destruct a; cbn in *; congruence).
      assert (Hkm : km = m) by (subst km; destruct m; [rewrite Hnf|]; reflexivity).
      rewrite Hkm in H. clear km Hkm.
      destruct k.
      * (* DO loop *)
        destruct (match m with MUntouched => false | MVisit => has_node_kid kids end) eqn:Hv.
        -- destruct m; [|discriminate]. rewrite X_visit_notfound by assumption. rewrite Ha, Hv.
           apply andb_true_iff in H as [H Hk]. apply andb_true_iff in H as [Hh Hf].
           destruct (one_line_inv _ Hh) as [h Eh]. destruct (one_line_inv _ Hf) as [f Ef].
           destruct (kids_flat MVisit false ise kids IH Hk) as [E1 E2].
           cbn [spec_g emit emit_ok src_of]. rewrite Hd, Ha. cbn [orb]. rewrite concat_frame, E1, E2, flat_src_X.
           rewrite Eh, Ef. split; [|reflexivity]. cbn [app firstn].
           replace (h :: flat_map src_of kids ++ [f]) with ((h :: flat_map src_of kids) ++ [f]) by reflexivity.
           rewrite last_opt_app_one. reflexivity.
        -- assert (EX : X m (Blk BLoop st a fr kids) = Blk BLoop VALID a fr (map (X m) kids)).
           { destruct m; [rewrite X_visit_notfound by assumption; rewrite Ha, Hv|rewrite X_untouched, Ha]; reflexivity. }
           rewrite EX. cbn [spec_g emit emit_ok src_of]. rewrite Hd, Ha. cbn [orb].
           rewrite concat_frame, (no_act_kids_spec _ H), flat_src_X. auto.
      * (* block IF *)
        destruct (match m with MUntouched => false | MVisit => has_node_kid kids end) eqn:Hv.
        -- destruct m; [|discriminate]. rewrite X_visit_notfound by assumption. rewrite Ha, Hv.
           apply andb_true_iff in H as [H Hk]. apply andb_true_iff in H as [H Hel].
           apply andb_true_iff in H as [H Hie]. apply andb_true_iff in H as [Hh Hf].
           destruct (one_line_inv _ Hh) as [h Eh].
           destruct (kids_chain MVisit false (SElse (last_else (src_of (Blk BCond st a fr kids)))) ise (ei fr) kids IH Hk)
             as [E1 E2].
           cbn [spec_g emit emit_ok]. rewrite Hd, Ha. cbn [orb].
           assert (ES : src_of (Blk BCond INV_CHILDREN a fr (map (X MVisit) kids)) = src_of (Blk BCond st a fr kids))
             by (cbn [src_of]; rewrite flat_src_X; reflexivity).
           rewrite ES, concat_frame, E1, E2, Hie, sep_kids_X. cbn [andb].
           split.
           ++ cbn [src_of]. rewrite Eh. cbn [app firstn]. f_equal. f_equal.
              destruct (ei fr).
              ** rewrite (no_line_inv _ Hf). reflexivity.
              ** destruct (one_line_inv _ Hf) as [f Ef]. rewrite Ef.
                 replace (h :: flat_map src_of kids ++ [f]) with ((h :: flat_map src_of kids) ++ [f]) by reflexivity.
                 rewrite last_opt_app_one. reflexivity.
           ++ destruct (existsb is_sep kids); cbn in *; [|reflexivity]. destruct (ei fr); cbn in *; [reflexivity|].
              match goal with |- match ?l with [] => _ | _ => _ end = _ => destruct l end; cbn in *; congruence.
        -- assert (EX : X m (Blk BCond st a fr kids) = Blk BCond VALID a fr (map (X m) kids)).
           { destruct m; [rewrite X_visit_notfound by assumption; rewrite Ha, Hv|rewrite X_untouched, Ha]; reflexivity. }
           rewrite EX. cbn [spec_g emit emit_ok src_of]. rewrite Hd, Ha. cbn [orb].
           rewrite concat_frame, (no_act_kids_spec _ H), flat_src_X. auto.
      * (* in-line IF: only verbatim *)
        destruct m; [discriminate|]. rewrite X_untouched, Ha.
        cbn [spec_g emit emit_ok]. rewrite Hd, Ha. cbn [orb status_valid].
        rewrite (no_act_kids_has_action _ H). cbn. rewrite app_nil_r. auto.
      * (* frame always printed structurally *)
        apply andb_true_iff in H as [H Hk]. apply andb_true_iff in H as [Hh Hf].
        apply lines_eqb_eq in Hh. apply lines_eqb_eq in Hf.
        assert (EX : exists st', X m (Blk BOther st a fr kids) = Blk BOther st' a fr (map (X m) kids)).
        { destruct m; [rewrite X_visit_notfound by assumption|rewrite X_untouched]; eauto. }
        destruct EX as [st' EX]. rewrite EX.
        destruct (kids_flat m false ise kids IH Hk) as [E1 E2].
        cbn [spec_g emit emit_ok]. rewrite Hd, Ha. cbn [orb]. rewrite concat_frame, E1, E2, Hh, Hf. auto.
Qed.
