(** C40 — proofs: entry point.  The lemmas live in the parts
    P_C40_base (normal-form route, lists, names), P_C40_assoc (associates), P_C40_vec (vector notation, explicit
    dimensions, range normalisation), P_C40_dce + P_C40_simp (dead-code removal, modelled simplification), P_C40_sel (dead-code removal with SELECT CASE),
    P_C40_lower + P_C40_lower2 (lower-casing), P_C40_decl (declarations, imports, sequence association). *)
From LV Require Export proofs.P_C40_base proofs.P_C40_assoc proofs.P_C40_vec proofs.P_C40_dce proofs.P_C40_simp proofs.P_C40_sel
  proofs.P_C40_lower proofs.P_C40_lower2 proofs.P_C40_decl.
