(** C20 — basic facts on strings, slices and line breaks. *)
From Coq Require Import ZArith List Bool String Ascii Lia Arith.
From LV Require Import Base.Strings models.M_C20.
Import ListNotations.
Open Scope Z_scope.

Notation len := String.length.

Lemma slen_eq s : slen s = len s. Proof. reflexivity. Qed.

Lemma len_app a b : len (a ++ b) = (len a + len b)%nat.
Proof. induction a as [|c r IH]; cbn; [reflexivity|]. now rewrite IH. Qed.

Lemma app_assoc_s (a b c : string) : ((a ++ b) ++ c = a ++ (b ++ c))%string.
Proof. induction a as [|x r IH]; cbn; [reflexivity|]. now rewrite IH. Qed.

Lemma app_empty_r (a : string) : (a ++ "" = a)%string.
Proof. induction a as [|x r IH]; cbn; [reflexivity|]. now rewrite IH. Qed.

Lemma count_nl_nonneg s : 0 <= count_nl s.
Proof. induction s as [|c r IH]; cbn [count_nl]; [lia|]. destruct (is_nl c); lia. Qed.

Lemma count_nl_app a b : count_nl (a ++ b) = count_nl a + count_nl b.
Proof. induction a as [|c r IH]; cbn [count_nl append]; [lia|]. rewrite IH. lia. Qed.

Lemma no_nl_count l : no_nl l = true -> count_nl l = 0.
Proof.
  induction l as [|c r IH]; cbn [no_nl count_nl]; [reflexivity|].
  intros H. apply andb_prop in H. destruct H as [H1 H2].
  destruct (is_nl c); [discriminate|]. rewrite (IH H2). reflexivity.
Qed.

Lemma no_nl_stake n : forall l, no_nl l = true -> no_nl (stake n l) = true.
Proof.
  induction n as [|n IH]; intros [|c r]; cbn [stake no_nl]; try reflexivity.
  intros H. apply andb_prop in H. destruct H as [H1 H2]. rewrite H1, (IH r H2). reflexivity.
Qed.

Lemma no_nl_sskip n : forall l, no_nl l = true -> no_nl (sskip n l) = true.
Proof.
  induction n as [|n IH]; intros [|c r]; cbn [sskip no_nl]; try reflexivity; try (intros H; exact H).
  intros H. apply andb_prop in H. destruct H as [H1 H2]. exact (IH r H2).
Qed.

Lemma stake_0 s : stake 0 s = EmptyString.
Proof. destruct s; reflexivity. Qed.

Lemma stake_all n : forall s, (len s <= n)%nat -> stake n s = s.
Proof.
  induction n as [|n IH]; intros [|c r]; cbn [stake len]; intros H; try reflexivity; try lia.
  rewrite IH; [reflexivity|lia].
Qed.

Lemma sskip_all n : forall s, (len s <= n)%nat -> sskip n s = EmptyString.
Proof.
  induction n as [|n IH]; intros [|c r]; cbn [sskip len]; intros H; try reflexivity; try lia.
  apply IH. lia.
Qed.

Lemma len_stake n : forall s, len (stake n s) = Nat.min n (len s).
Proof. induction n as [|n IH]; intros [|c r]; cbn [stake len]; try reflexivity. rewrite IH. reflexivity. Qed.

Lemma len_sskip n : forall s, len (sskip n s) = (len s - n)%nat.
Proof. induction n as [|n IH]; intros [|c r]; cbn [sskip len]; try reflexivity. apply IH. Qed.

Lemma stake_sskip n : forall s, (stake n s ++ sskip n s)%string = s.
Proof. induction n as [|n IH]; intros [|c r]; cbn [stake sskip append]; try reflexivity. now rewrite IH. Qed.

Lemma stake_app_le n : forall a b, (n <= len a)%nat -> stake n (a ++ b) = stake n a.
Proof.
  induction n as [|n IH]; intros a b H.
  - now rewrite !stake_0.
  - destruct a as [|c r]; cbn [len] in H; [lia|]. cbn [append stake]. rewrite IH; [reflexivity|lia].
Qed.

Lemma stake_app_ge a : forall n b, stake (len a + n) (a ++ b) = (a ++ stake n b)%string.
Proof. induction a as [|c r IH]; intros n b; cbn [len append plus stake]; [reflexivity|]. now rewrite IH. Qed.

Lemma sskip_app_le n : forall a b, (n <= len a)%nat -> sskip n (a ++ b) = (sskip n a ++ b)%string.
Proof.
  induction n as [|n IH]; intros a b H; [reflexivity|].
  destruct a as [|c r]; cbn [len] in H; [lia|]. cbn [append sskip]. apply IH. lia.
Qed.

Lemma sskip_app_ge a : forall n b, sskip (len a + n) (a ++ b) = sskip n b.
Proof. induction a as [|c r IH]; intros n b; cbn [len append plus sskip]; [reflexivity|]. apply IH. Qed.

Lemma sskip_sskip a : forall b s, sskip a (sskip b s) = sskip (b + a) s.
Proof.
  intros b. revert a. induction b as [|b IH]; intros a s; [reflexivity|].
  destruct s as [|c r]; cbn [sskip plus]; [destruct a; reflexivity|]. apply IH.
Qed.

Lemma stake_stake a : forall b s, (a <= b)%nat -> stake a (stake b s) = stake a s.
Proof.
  induction a as [|a IH]; intros b s H; [now rewrite !stake_0|].
  destruct b as [|b]; [lia|]. destruct s as [|c r]; cbn [stake]; [reflexivity|].
  rewrite IH; [reflexivity|lia].
Qed.

(** s[:b] = s[:a] + s[a:b] *)
Lemma stake_split a : forall b s, (a <= b)%nat -> stake b s = (stake a s ++ slice a b s)%string.
Proof.
  unfold slice. induction a as [|a IH]; intros b s H.
  - rewrite stake_0. cbn [append sskip]. now rewrite Nat.sub_0_r.
  - destruct b as [|b]; [lia|]. destruct s as [|c r]; cbn [stake sskip append Nat.sub].
    + destruct (b - a)%nat; reflexivity.
    + rewrite (IH b r) by lia. reflexivity.
Qed.

Lemma count_nl_slice a b s : (a <= b)%nat -> count_nl (stake b s) = count_nl (stake a s) + count_nl (slice a b s).
Proof. intros H. rewrite (stake_split a b s H). apply count_nl_app. Qed.

Lemma sskip_stake c : forall n t, sskip c (stake (c + n) t) = stake n (sskip c t).
Proof.
  induction c as [|c IH]; intros n t; [reflexivity|].
  destruct t as [|x r]; cbn [plus stake sskip]; [now rewrite stake_0 || (destruct n; reflexivity)|]. apply IH.
Qed.

Lemma slice_slice a b c d s : (c <= d)%nat -> (d <= b - a)%nat -> slice c d (slice a b s) = slice (a + c) (a + d) s.
Proof.
  intros H1 H2. unfold slice.
  replace (a + d - (a + c))%nat with (d - c)%nat by lia.
  rewrite <- sskip_sskip.
  replace (b - a)%nat with (c + (b - a - c))%nat by lia.
  rewrite sskip_stake. apply stake_stake. lia.
Qed.

(** lower-casing commutes with slicing *)
Lemma lower_stake n : forall s, lower (stake n s) = stake n (lower s).
Proof. induction n as [|n IH]; intros [|c r]; cbn [stake lower]; try reflexivity. now rewrite IH. Qed.
Lemma lower_sskip n : forall s, lower (sskip n s) = sskip n (lower s).
Proof. induction n as [|n IH]; intros [|c r]; cbn [sskip lower]; try reflexivity. apply IH. Qed.
Lemma lower_slice a b s : lower (slice a b s) = slice a b (lower s).
Proof. unfold slice. now rewrite lower_stake, lower_sskip. Qed.
Lemma len_lower s : len (lower s) = len s.
Proof. induction s as [|c r IH]; cbn; [reflexivity|]. now rewrite IH. Qed.

(** '\n'.join *)
Lemma join_nl_cons_ne l t : t <> [] -> join_nl (l :: t) = (l ++ String nl (join_nl t))%string.
Proof. destruct t; [congruence|reflexivity]. Qed.

Lemma count_nl_newlines n : count_nl (newlines n) = Z.of_nat n.
Proof.
  induction n as [|n IH]; [reflexivity|]. cbn [newlines count_nl]. rewrite IH.
  unfold is_nl. rewrite Ascii.eqb_refl. lia.
Qed.
Lemma len_newlines n : len (newlines n) = n.
Proof. induction n as [|n IH]; cbn; [reflexivity|]. now rewrite IH. Qed.
