(** C41 — basic facts: boolean reflection of [well_scoped], lookups in extended environments,
    the generic transfer lemma "uses of T body ⊆ uses of body ∪ introduced, introduced resolve, nothing
    that is still used was removed or re-kinded". *)
From Coq Require Import ZArith List Bool String Ascii Lia.
From LV Require Import Base.Expr Base.MiniF models.M_C41.
From LV Require models.M_C30.
Import ListNotations.

(* ------------------------------------------------------------------------------------------ *)
(** * membership, duplicates *)

Lemma mem_In x l : mem x l = true <-> In x l.
Proof.
  unfold mem. rewrite existsb_exists. split.
  - intros [y [Hy E]]. apply String.eqb_eq in E. subst. exact Hy.
  - intros H. exists x. split; [exact H | apply String.eqb_refl].
Qed.

Lemma mem_false x l : mem x l = false <-> ~ In x l.
Proof.
  split.
  - intros H Hi. apply mem_In in Hi. congruence.
  - intros H. destruct (mem x l) eqn:E; [|reflexivity]. apply mem_In in E. contradiction.
Qed.

Lemma nodupb_NoDup l : nodupb l = true <-> NoDup l.
Proof.
  induction l as [|x r IH]; cbn.
  - split; [constructor | reflexivity].
  - rewrite andb_true_iff, negb_true_iff, mem_false, IH. split.
    + intros [A B]. constructor; assumption.
    + intros H. inversion H; subst. split; assumption.
Qed.

(* ------------------------------------------------------------------------------------------ *)
(** * lookups *)

Lemma klookup_app a b x :
  klookup (a ++ b) x = match klookup a x with Some k => Some k | None => klookup b x end.
Proof.
  induction a as [|[y k] r IH]; cbn; [reflexivity|].
  destruct (String.eqb y x); [reflexivity | exact IH].
Qed.

Lemma klookup_none env x : klookup env x = None <-> ~ In x (map fst env).
Proof.
  induction env as [|[y k] r IH]; cbn.
  - split; [intros _ [] | reflexivity].
  - destruct (String.eqb y x) eqn:E.
    + apply String.eqb_eq in E. subst. split; [discriminate | intros H; exfalso; apply H; left; reflexivity].
    + apply String.eqb_neq in E. rewrite IH. split.
      * intros H [A|A]; [congruence | contradiction].
      * intros H A. apply H. right. exact A.
Qed.

Lemma klookup_some_in env x k : klookup env x = Some k -> In (x, k) env.
Proof.
  induction env as [|[y k'] r IH]; cbn; [discriminate|].
  destruct (String.eqb y x) eqn:E.
  - apply String.eqb_eq in E. subst. intros H. inversion H. left. reflexivity.
  - intros H. right. apply IH. exact H.
Qed.

Lemma klookup_in_names env x k : klookup env x = Some k -> In x (map fst env).
Proof. intros H. apply klookup_some_in in H. apply (in_map fst) in H. exact H. Qed.

Lemma klookup_nodup_in env x k : NoDup (map fst env) -> In (x, k) env -> klookup env x = Some k.
Proof.
  induction env as [|[y k'] r IH]; cbn; [intros _ []|].
  intros Hn [A|A].
  - inversion A; subst. rewrite String.eqb_refl. reflexivity.
  - inversion Hn; subst. destruct (String.eqb y x) eqn:E.
    + apply String.eqb_eq in E. subst. exfalso. apply H1. apply (in_map fst) in A. exact A.
    + apply IH; assumption.
Qed.

Lemma klookup_filter_keep (P : string * kind -> bool) env x k :
  klookup env x = Some k -> (forall k', P (x, k') = true) -> klookup (filter P env) x = Some k.
Proof.
  induction env as [|[y k'] r IH]; cbn; [discriminate|].
  intros H HP. destruct (String.eqb y x) eqn:E.
  - apply String.eqb_eq in E. subst. rewrite HP. cbn. rewrite String.eqb_refl. exact H.
  - destruct (P (y, k')); cbn; [rewrite E|]; apply IH; assumption.
Qed.

(* ------------------------------------------------------------------------------------------ *)
(** * reflection *)

Lemma use_ok_resolves env u : use_ok env u = true <-> resolves env u.
Proof.
  unfold use_ok, resolves. destruct (klookup env (fst u)) as [k|].
  - split; [intros H; exists k; split; [reflexivity | exact H] | intros [k' [A B]]; inversion A; subst; exact B].
  - split; [discriminate | intros [k' [A _]]; discriminate].
Qed.

Lemma uses_ok_Forall env us : uses_ok env us = true <-> Forall (resolves env) us.
Proof.
  unfold uses_ok. rewrite forallb_forall, Forall_forall. split; intros H x Hx.
  - apply use_ok_resolves. apply H. exact Hx.
  - apply use_ok_resolves. apply H. exact Hx.
Qed.

Lemma well_scopedb_spec {B} (uses : B -> list use) (u : unit B) :
  well_scopedb uses u = true <-> well_scoped uses u.
Proof.
  unfold well_scopedb, well_scoped.
  rewrite !andb_true_iff, nodupb_NoDup, !uses_ok_Forall, !forallb_forall.
  split.
  - intros [[[[[A Hb] Hc] D] E] F]. repeat split; try assumption.
    + intros a Ha. apply mem_In. apply Hb. exact Ha.
    + apply Forall_forall. exact F.
  - intros [A [Hb [Hc [D [E F]]]]]. repeat split; try assumption.
    + intros a Ha. apply mem_In. apply Hb. exact Ha.
    + apply Forall_forall. exact F.
Qed.

Lemma resolves_app_l a b u : resolves a u -> resolves (a ++ b) u.
Proof.
  intros [k [A B]]. exists k. split; [|exact B]. rewrite klookup_app, A. reflexivity.
Qed.

(* ------------------------------------------------------------------------------------------ *)
(** * the transfer lemma *)

(** [env'] agrees with [env] on the names of [us] *)
Definition env_keeps (env env' : denv) (names : list string) : Prop :=
  forall x k, In x names -> klookup env x = Some k -> klookup env' x = Some k.

Lemma resolves_keep env env' u :
  resolves env u -> (forall k, klookup env (fst u) = Some k -> klookup env' (fst u) = Some k) -> resolves env' u.
Proof. intros [k [A B]] H. exists k. split; [apply H; exact A | exact B]. Qed.

Lemma Forall_resolves_keep env env' us :
  Forall (resolves env) us -> env_keeps env env' (use_names us) -> Forall (resolves env') us.
Proof.
  intros H K. apply Forall_forall. intros u Hu. rewrite Forall_forall in H.
  apply (resolves_keep env). { apply H. exact Hu. }
  intros k Hk. apply (K (fst u) k); [|exact Hk]. unfold use_names. apply in_map. exact Hu.
Qed.

(** every use of the new body is an old use whose name keeps its declaration, or resolves in the new
    environment by itself (an introduced name) *)
Lemma transfer env env' us us' :
  Forall (resolves env) us ->
  (forall u, In u us' -> (In u us /\ forall k, klookup env (fst u) = Some k -> klookup env' (fst u) = Some k)
                         \/ resolves env' u) ->
  Forall (resolves env') us'.
Proof.
  intros H T. apply Forall_forall. intros u Hu. destruct (T u Hu) as [[A K]|R]; [|exact R].
  rewrite Forall_forall in H. apply (resolves_keep env); [apply H; exact A | exact K].
Qed.

Lemma shape_ok_keep env env' p :
  shape_ok env p = true -> (forall k, klookup env (fst p) = Some k -> klookup env' (fst p) = Some k) ->
  shape_ok env' p = true.
Proof.
  unfold shape_ok. destruct (snd p); [reflexivity|].
  destruct (klookup env (fst p)) as [k|] eqn:E; [|discriminate].
  intros H K. rewrite (K k eq_refl). exact H.
Qed.

(* ------------------------------------------------------------------------------------------ *)
(** * body-only transformations *)

Lemma T_body_preserves {B C} (uses : B -> list use) (uses' : C -> list use) (f : B -> C) (u : unit B) :
  incl (uses' (f (u_body u))) (uses (u_body u)) ->
  well_scoped uses u -> well_scoped uses' (T_body f u).
Proof.
  intros Hi [A [Bq [Cq [D [E F]]]]]. unfold T_body, set_body, well_scoped, u_env. cbn.
  repeat split; try assumption.
  apply Forall_forall. intros x Hx. rewrite Forall_forall in Cq. apply Cq. apply Hi. exact Hx.
Qed.

Lemma T_body_opt_preserves {B C} (uses : B -> list use) (uses' : C -> list use) (f : B -> option C) (u : unit B) u' :
  (forall b', f (u_body u) = Some b' -> incl (uses' b') (uses (u_body u))) ->
  well_scoped uses u -> T_body_opt f u = Some u' -> well_scoped uses' u'.
Proof.
  intros Hi [A [Bq [Cq [D [E F]]]]]. unfold T_body_opt. destruct (f (u_body u)) as [b'|] eqn:Ef; cbn; [|discriminate].
  intros H. inversion H; subst. unfold set_body, well_scoped, u_env. cbn.
  repeat split; try assumption.
  apply Forall_forall. intros x Hx. rewrite Forall_forall in Cq. apply Cq. apply (Hi b' eq_refl). exact Hx.
Qed.

(* ------------------------------------------------------------------------------------------ *)
(** * adding scalar declarations *)

Lemma add_scalars_names ds names x :
  In x (map fst (add_scalars ds names)) <-> In x (map fst ds) \/ In x names.
Proof.
  revert ds. induction names as [|y r IH]; intros ds; cbn.
  - tauto.
  - destruct (mem y (map fst ds)) eqn:E.
    + rewrite IH. apply mem_In in E. split; [tauto|]. intros [A|[A|A]]; subst; tauto.
    + rewrite IH, map_app, in_app_iff. cbn. tauto.
Qed.

Lemma NoDup_snoc {A} (l : list A) y : NoDup l -> ~ In y l -> NoDup (l ++ [y]).
Proof.
  induction l as [|a r IH]; cbn; intros H N.
  - constructor; [intros [] | constructor].
  - inversion H; subst. constructor.
    + rewrite in_app_iff. cbn. intros [Q|[Q|[]]]; [contradiction | subst; apply N; left; reflexivity].
    + apply IH; [assumption | intros Q; apply N; right; exact Q].
Qed.

Lemma add_scalars_nodup ds names : NoDup (map fst ds) -> NoDup (map fst (add_scalars ds names)).
Proof.
  revert ds. induction names as [|y r IH]; intros ds H; cbn; [exact H|].
  destruct (mem y (map fst ds)) eqn:E; [apply IH; exact H|].
  apply IH. rewrite map_app. cbn. apply mem_false in E. apply NoDup_snoc; assumption.
Qed.

Lemma klookup_snoc_old ds y k0 x k : klookup ds x = Some k -> klookup (ds ++ [(y, k0)]) x = Some k.
Proof. intros H. rewrite klookup_app, H. reflexivity. Qed.

Lemma add_scalars_lookup_old ds names x k :
  klookup ds x = Some k -> klookup (add_scalars ds names) x = Some k.
Proof.
  revert ds. induction names as [|y r IH]; intros ds H; cbn; [exact H|].
  destruct (mem y (map fst ds)); apply IH; [exact H | apply klookup_snoc_old; exact H].
Qed.

Lemma add_scalars_lookup_new ds names x :
  In x names -> klookup ds x = None -> klookup (add_scalars ds names) x = Some KScalar.
Proof.
  revert ds. induction names as [|y r IH]; intros ds Hi Hn; cbn; [destruct Hi|].
  destruct (mem y (map fst ds)) eqn:E.
  - destruct Hi as [A|A].
    + subst. apply mem_In in E. apply klookup_none in Hn. contradiction.
    + apply IH; assumption.
  - destruct (String.eqb y x) eqn:Ex.
    + apply String.eqb_eq in Ex. subst. apply add_scalars_lookup_old.
      rewrite klookup_app, Hn. cbn. rewrite String.eqb_refl. reflexivity.
    + destruct Hi as [A|A]; [subst; rewrite String.eqb_refl in Ex; discriminate|].
      apply IH; [exact A|]. rewrite klookup_app, Hn. cbn. rewrite Ex. reflexivity.
Qed.

Lemma add_scalars_lookup_other ds names x :
  ~ In x names -> klookup ds x = None -> klookup (add_scalars ds names) x = None.
Proof.
  intros A Bn. apply klookup_none. rewrite add_scalars_names. apply klookup_none in Bn. tauto.
Qed.

(** lookups in the environment after [add_scalars]: declared names keep their kind, new names are scalars,
    everything else still resolves outside *)
Lemma add_scalars_env ds names ext x :
  klookup (add_scalars ds names ++ ext) x =
  match klookup ds x with
  | Some k => Some k
  | None => if mem x names then Some KScalar else klookup ext x
  end.
Proof.
  rewrite klookup_app. destruct (klookup ds x) as [k|] eqn:E.
  - rewrite (add_scalars_lookup_old _ _ _ _ E). reflexivity.
  - destruct (mem x names) eqn:M.
    + apply mem_In in M. rewrite (add_scalars_lookup_new _ _ _ M E). reflexivity.
    + apply mem_false in M. rewrite (add_scalars_lookup_other _ _ _ M E). reflexivity.
Qed.

(* ------------------------------------------------------------------------------------------ *)
(** * the symbol-based declaration test agrees with the name-based one when no array has one of the names *)

Lemma declared_scalar_mem ds x :
  (forall k, In (x, k) ds -> k = KScalar) -> declared_scalar ds x = mem x (map fst ds).
Proof.
  unfold declared_scalar, mem. induction ds as [|[y k] r IH]; cbn; intros H; [reflexivity|].
  rewrite IH; [|intros k' Hk; apply H; right; exact Hk].
  rewrite (String.eqb_sym x y).
  destruct (String.eqb y x) eqn:E; cbn; [|reflexivity].
  apply String.eqb_eq in E. subst. rewrite (H k (or_introl eq_refl)). reflexivity.
Qed.

Lemma add_scalars_raw_eq ds names :
  (forall x k, In x names -> In (x, k) ds -> k = KScalar) -> add_scalars_raw ds names = add_scalars ds names.
Proof.
  revert ds. induction names as [|y r IH]; intros ds H; cbn; [reflexivity|].
  rewrite declared_scalar_mem; [|intros k Hk; apply (H y k); [left; reflexivity | exact Hk]].
  destruct (mem y (map fst ds)).
  - apply IH. intros x k Hx Hk. apply (H x k); [right; exact Hx | exact Hk].
  - apply IH. intros x k Hx Hk. apply in_app_iff in Hk. destruct Hk as [Hk|[Hk|[]]].
    + apply (H x k); [right; exact Hx | exact Hk].
    + inversion Hk. reflexivity.
Qed.
