(** C33 — the CALL of an outlined routine under by-reference passing ([ocall] with [strict = false] and
    zero-initialised locals) is the CALL of the shared MiniF core. *)
From Coq Require Import ZArith List Bool String Lia.
From LV Require Import Base.Expr Base.MiniF Base.MiniFFacts models.M_C26 models.M_C33 proofs.P_C33_base proofs.P_C33_ni proofs.P_C33_ext.
Import ListNotations.
Open Scope Z_scope.

Definition o_params (o : outlined) : list (string * bool) := map (fun a => (fst (fst a), snd (fst a))) (o_args o).
Definition o_proc (o : outlined) : proc := {| p_params := o_params o; p_body := o_body o |}.

Lemma evar_list_eq : forall l names, list_expr_eqb l (map EVar names) = true -> l = map EVar names.
Proof.
  induction l as [|e r IH]; intros [|x q] H; cbn in H; try discriminate; [reflexivity|].
  apply andb_true_iff in H. destruct H as [H1 H2]. destruct e; cbn in H1; try discriminate.
  apply String.eqb_eq in H1. subst. cbn. f_equal. now apply IH.
Qed.

Lemma o_wf_call o : o_wf o = true -> o_call o = evs (o_params o).
Proof.
  unfold o_wf. intros H. apply andb_true_iff in H. destruct H as [_ H].
  rewrite <- (map_map (fun a : string * bool * intent => fst (fst a)) EVar) in H.
  apply evar_list_eq in H. rewrite H. unfold evs, o_params. now rewrite !map_map.
Qed.

Definition no_inone (o : outlined) : bool := forallb (fun a => match snd a with INone => false | _ => true end) (o_args o).
Definition in_args (o : outlined) : list tn := flat_map (fun a => match a with (x, b, IIn) => [(x, b)] | _ => [] end) (o_args o).

Lemma entry_is_params o : no_inone o = true -> o_consts o = [] -> forall p, In p (o_entry false o) <-> In p (o_params o).
Proof.
  intros Hn Hc p. unfold o_entry, o_params, no_inone in *. rewrite Hc. cbn [map]. rewrite app_nil_r.
  induction (o_args o) as [|[[x b] i] r IH]; cbn; [tauto|].
  cbn in Hn. apply andb_true_iff in Hn. destruct Hn as [Hi Hn]. specialize (IH Hn).
  destruct i; cbn in Hi |- *; try discriminate; rewrite IH; tauto.
Qed.

Lemma exit_or_in o : no_inone o = true -> forall p, In p (o_params o) <-> In p (o_exit o) \/ In p (in_args o).
Proof.
  intros Hn p. unfold o_exit, o_params, in_args, no_inone in *.
  induction (o_args o) as [|[[x b] i] r IH]; cbn; [tauto|].
  cbn in Hn. apply andb_true_iff in Hn. destruct Hn as [Hi Hn]. specialize (IH Hn).
  destruct i; cbn in Hi |- *; try discriminate; rewrite ?in_app_iff; cbn; rewrite IH; tauto.
Qed.

Theorem ocall_is_scall ps f o s s1 :
  o_wf o = true -> no_inone o = true -> o_consts o = [] -> tdisj (in_args o) (wr_l ps (o_body o)) = true ->
  find_proc ps (o_name o) = Some (o_proc o) ->
  exec1 ps f (SCall (o_name o) (o_call o)) s = Some s1 ->
  exists s2, ocall ps false empty_store f o s = Some s2 /\ store_eq s1 s2.
Proof.
  intros Hwf Hn Hc Hin Hf E. cbn [exec1] in E. rewrite Hf in E. cbn [obind] in E.
  rewrite (o_wf_call o Hwf) in E. cbn [o_proc p_params p_body] in E.
  rewrite copy_in_evs in E. cbn [obind] in E.
  apply obind_some in E. destruct E as [c1 [E1 E2]]. inversion E2; subst s1; clear E2. rewrite copy_out_evs.
  unfold ocall.
  assert (A0 : agreeP alltrue (bind_all (o_params o) s empty_store) (pickT (o_entry false o) s empty_store)).
  { pose proof (bind_all_untouched s (o_params o) empty_store) as U. split.
    - intros x _. cbn. destruct (tmem x false (o_entry false o)) eqn:Em.
      + apply tmem_In in Em. apply (entry_is_params o Hn Hc) in Em. now apply bind_all_sv; left.
      + destruct U as [U _]. rewrite <- (U x); [reflexivity|].
        apply negb_true_iff. apply tmemp_false. intros Hp. apply (entry_is_params o Hn Hc) in Hp. apply tmem_In in Hp. congruence.
    - intros a _ i. cbn. destruct (tmem a true (o_entry false o)) eqn:Em.
      + apply tmem_In in Em. apply (entry_is_params o Hn Hc) in Em. now apply bind_all_av; left.
      + destruct U as [_ U]. rewrite <- (U a); [reflexivity|].
        apply negb_true_iff. apply tmemp_false. intros Hp. apply (entry_is_params o Hn Hc) in Hp. apply tmem_In in Hp. congruence. }
  destruct (ni_list ps f alltrue (o_body o) _ _ c1 A0 (fun p _ => eq_refl) E1) as [c1' [N1 A1]].
  rewrite N1. cbn [obind]. eexists. split; [reflexivity|].
  apply Pun_weaken in A1.
  pose proof (frame_list ps f _ _ _ E1) as Fr.
  pose proof (bind_all_untouched c1 (o_params o) s) as U.
  pose proof (bind_all_untouched s (o_params o) empty_store) as U0.
  assert (Hnw : forall p, In p (in_args o) -> ~ In p (wr_l ps (o_body o))) by (apply tdisj_In; exact Hin).
  split.
  - intros x _. cbn. destruct (tmem x false (o_exit o)) eqn:Ex.
    + apply tmem_In in Ex. rewrite (bind_all_sv c1 (o_params o) s x).
      * destruct A1 as [A1 _]. now apply A1.
      * left. apply (exit_or_in o Hn). now left.
    + destruct (tmemp (x, false) (o_params o)) eqn:Ep.
      * apply tmemp_In in Ep. rewrite (bind_all_sv c1 (o_params o) s x (or_introl Ep)).
        apply (exit_or_in o Hn) in Ep. destruct Ep as [Ep|Ep]; [apply tmem_In in Ep; congruence|].
        destruct Fr as [Fr _]. rewrite <- (Fr x) by (apply negb_true_iff; apply tmemp_false; now apply Hnw).
        apply bind_all_sv. left. apply (exit_or_in o Hn). now right.
      * destruct U as [U _]. symmetry. apply U. now rewrite Ep.
  - intros a _ i. cbn. destruct (tmem a true (o_exit o)) eqn:Ex.
    + apply tmem_In in Ex. rewrite (bind_all_av c1 (o_params o) s a).
      * destruct A1 as [_ A1]. now apply A1.
      * left. apply (exit_or_in o Hn). now left.
    + destruct (tmemp (a, true) (o_params o)) eqn:Ep.
      * apply tmemp_In in Ep. rewrite (bind_all_av c1 (o_params o) s a (or_introl Ep)).
        apply (exit_or_in o Hn) in Ep. destruct Ep as [Ep|Ep]; [apply tmem_In in Ep; congruence|].
        destruct Fr as [_ Fr]. rewrite <- (Fr a) by (apply negb_true_iff; apply tmemp_false; now apply Hnw).
        apply bind_all_av. left. apply (exit_or_in o Hn). now right.
      * destruct U as [_ U]. symmetry. apply U. now rewrite Ep.
Qed.
