(** C16 — lemmas for the dataflow attach/detach and for the context managers. *)
From Coq Require Import ZArith List Bool String Ascii Arith Lia.
From LV Require Import Base.Strings models.M_C16 proofs.P_C16 proofs.P_C16_R.
Import ListNotations.
Open Scope list_scope.

Lemma set_pdfa_roundtrip p : pdfa p = false -> set_pdfa false (set_pdfa true p) = p.
Proof. destruct p; cbn; intros ->; reflexivity. Qed.
Lemma set_pdfa_clear p : pdfa p = false -> set_pdfa false p = p.
Proof. destruct p; cbn; intros ->; reflexivity. Qed.

Lemma map_map_id_Forall {A} (f : A -> A) (l : list (list A)) :
  Forall (Forall (fun x => f x = x)) l -> map (map f) l = l.
Proof.
  intros H. rewrite <- (map_id l) at 2. apply map_ext_Forall.
  eapply Forall_impl; [|exact H]. intros s Hs. rewrite <- (map_id s) at 2. now apply map_ext_Forall.
Qed.

Lemma deep_children f ss :
  forallb (forallb (deep f)) ss = true -> Forall (Forall (fun t => deep f t = true)) ss.
Proof.
  intros H. apply forallb_Forall in H. eapply Forall_impl; [|exact H].
  intros s Hs. now apply forallb_Forall in Hs.
Qed.

Lemma Forall2_nested {A} (P Q R : A -> Prop) (l : list (list A)) :
  Forall (Forall P) l -> Forall (Forall Q) l -> (forall x, P x -> Q x -> R x) -> Forall (Forall R) l.
Proof.
  intros HP HQ H. eapply Forall_and_impl; [exact HP|exact HQ|].
  intros s A1 A2. eapply Forall_and_impl; [exact A1|exact A2|exact H].
Qed.

Definition dfa_quiet (t : tree) : bool := deep dfa_clear_top t && no_empty_bodies t.

(** detaching where nothing is attached is the identity *)
Lemma dfaD_quiet t : dfa_quiet t = true -> dfaD t = t.
Proof.
  unfold dfa_quiet, no_empty_bodies.
  induction t as [p|i k a b d ss ms IHs IHm|s e d b IHb] using tree_ind'; intros H;
    apply andb_true_iff in H as [H1 H2]; rewrite deep_unfold in H1, H2.
  - cbn in H1. rewrite andb_true_r in H1. apply negb_true_iff in H1. cbn. now rewrite set_pdfa_clear.
  - apply andb_true_iff in H1 as [C0 H1]. apply andb_true_iff in H1 as [C1 C2].
    apply andb_true_iff in H2 as [E0 H2]. apply andb_true_iff in H2 as [E1 E2].
    cbn in C0, E0. apply negb_true_iff in C0. subst d.
    assert (Hc : forall l, Forall (Forall (fun t => deep dfa_clear_top t && deep multi_ok_top t = true -> dfaD t = t)) l ->
                           forallb (forallb (deep dfa_clear_top)) l = true ->
                           forallb (forallb (deep multi_ok_top)) l = true -> map (map dfaD) l = l).
    { intros l IH A B. apply map_map_id_Forall.
      apply deep_children in A, B.
      eapply Forall2_nested; [exact IH| |].
      - eapply Forall2_nested; [exact A|exact B|]. intros x Hx Hy. exact (conj Hx Hy).
      - cbn. intros x Hx [X1 X2]. apply Hx. now rewrite X1, X2. }
    cbn. rewrite (Hc ss), (Hc ms) by assumption. rewrite strip_id by assumption.
    now destruct (scoped k).
  - apply andb_true_iff in H1 as [C0 C1]. apply andb_true_iff in H2 as [_ E1].
    cbn in C0. apply negb_true_iff in C0. subst d.
    cbn. f_equal. rewrite <- (map_id b) at 2. apply map_ext_Forall.
    apply forallb_Forall in C1, E1.
    eapply Forall_and_impl; [exact IHb| |].
    + eapply Forall_and_impl; [exact C1|exact E1|]. intros x Hx Hy. exact (conj Hx Hy).
    + cbn. intros x Hx [X1 X2]. apply Hx. now rewrite X1, X2.
Qed.

Lemma dfa_detach_attach t : dfa_class t = true -> dfaD (dfaA t) = t.
Proof.
  unfold dfa_class, no_empty_bodies.
  induction t as [p|i k a b d ss ms IHs IHm|s e d b IHb] using tree_ind'; intros H;
    apply andb_true_iff in H as [H H3]; apply andb_true_iff in H as [H1 H2];
    rewrite deep_unfold in H1, H2, H3.
  - cbn in H1. rewrite andb_true_r in H1. apply negb_true_iff in H1. cbn. now rewrite set_pdfa_roundtrip.
  - apply andb_true_iff in H1 as [C0 H1]. apply andb_true_iff in H1 as [C1 C2].
    apply andb_true_iff in H2 as [R0 H2]. apply andb_true_iff in H2 as [R1 R2].
    apply andb_true_iff in H3 as [E0 H3]. apply andb_true_iff in H3 as [E1 E2].
    cbn in C0, R0, E0. apply negb_true_iff in C0. subst d.
    cbn [dfaA]. destruct (dfa_descends k) eqn:Ed.
    + assert (Hc : forall l,
                 Forall (Forall (fun t => deep dfa_clear_top t && deep dfa_reach_top t && deep multi_ok_top t = true
                                          -> dfaD (dfaA t) = t)) l ->
                 forallb (forallb (deep dfa_clear_top)) l = true ->
                 forallb (forallb (deep dfa_reach_top)) l = true ->
                 forallb (forallb (deep multi_ok_top)) l = true -> map (map dfaD) (map (map dfaA) l) = l).
      { intros l IH A B C. rewrite map_map.
        rewrite <- (map_id l) at 2. apply map_ext_Forall.
        apply deep_children in A, B, C.
        assert (ABC : Forall (Forall (fun t => deep dfa_clear_top t = true /\ deep dfa_reach_top t = true
                                               /\ deep multi_ok_top t = true)) l).
        { eapply Forall2_nested; [exact A| |].
          - eapply Forall2_nested; [exact B|exact C|]. intros x Hx Hy. exact (conj Hx Hy).
          - cbn. intros x Hx [Hy Hz]. auto. }
        eapply Forall_and_impl; [exact IH|exact ABC|]. cbn. intros s0 IH0 H0.
        rewrite map_map. rewrite <- (map_id s0) at 2. apply map_ext_Forall.
        eapply Forall_and_impl; [exact IH0|exact H0|]. cbn. intros x Hx (X1 & X2 & X3).
        apply Hx. now rewrite X1, X2, X3. }
      cbn [dfaD]. rewrite (Hc ss), (Hc ms) by assumption. rewrite strip_id by assumption.
      f_equal. destruct (scoped k); cbn in R0; [|reflexivity].
      apply negb_true_iff in R0. now rewrite R0.
    + (* Interface: set on the node itself, children not visited by the attacher *)
      assert (Hk : scoped k = false) by (destruct k; try discriminate; reflexivity).
      cbn [dfaD]. rewrite Hk.
      assert (Hq : forall l, forallb (forallb (deep dfa_clear_top)) l = true ->
                             forallb (forallb (deep multi_ok_top)) l = true -> map (map dfaD) l = l).
      { intros l A B. apply map_map_id_Forall. apply deep_children in A, B.
        eapply Forall2_nested; [exact A|exact B|]. cbn. intros x X1 X2.
        apply dfaD_quiet. unfold dfa_quiet, no_empty_bodies. now rewrite X1, X2. }
      rewrite (Hq ss), (Hq ms) by assumption. now rewrite strip_id.
  - apply andb_true_iff in H1 as [C0 C1]. apply andb_true_iff in H2 as [_ R1]. apply andb_true_iff in H3 as [_ E1].
    cbn in C0. apply negb_true_iff in C0. subst d.
    cbn. f_equal. rewrite map_map. rewrite <- (map_id b) at 2. apply map_ext_Forall.
    apply forallb_Forall in C1, R1, E1.
    assert (ABC : Forall (fun t => deep dfa_clear_top t = true /\ deep dfa_reach_top t = true
                                   /\ deep multi_ok_top t = true) b).
    { eapply Forall_and_impl; [exact C1| |].
      - eapply Forall_and_impl; [exact R1|exact E1|]. intros x Hx Hy. exact (conj Hx Hy).
      - cbn. intros x Hx [Hy Hz]. auto. }
    eapply Forall_and_impl; [exact IHb|exact ABC|]. cbn. intros x Hx (X1 & X2 & X3).
    apply Hx. now rewrite X1, X2, X3.
Qed.

(** F1: the Associate node keeps its dataflow attributes *)
Definition assoc_witness : tree :=
  sec 1 [TN 2 KAssoc NoAttr NoAttr false [[asg 3]] []].
Lemma dfa_detach_attach_refuted :
  deep dfa_clear_top assoc_witness = true /\ no_empty_bodies assoc_witness = true /\
  dfaD (dfaA assoc_witness) = sec 1 [TN 2 KAssoc NoAttr NoAttr true [[asg 3]] []].
Proof. vm_compute. repeat split; reflexivity. Qed.

Example dfa_class_nontrivial :
  let t := sec 1 [TP (p_ 2); TN 3 KLoop ANone ANone false [[asg 4; TN 5 KMulti NoAttr NoAttr false [[]] [[asg 6]; [asg 7]]]] []] in
  dfa_class t = true /\ dfaA t <> t.
Proof. vm_compute. split; [reflexivity|discriminate]. Qed.

(** * context managers *)

Lemma ctx_finally enter leave u body :
  with_ctx enter leave u body =
  match enter u with
  | Err u' => Raised u'
  | Ok u1 => match body u1 with Returned u2 => Returned (leave u2) | Raised u2 => Raised (leave u2) end
  end.
Proof. reflexivity. Qed.

Lemma map_roundtrip {A} (f g : A -> A) (c : A -> bool) l :
  (forall x, c x = true -> g (f x) = x) -> forallb c l = true -> map g (map f l) = l.
Proof.
  intros H Hl. rewrite map_map. rewrite <- (map_id l) at 2. apply map_ext_Forall.
  apply forallb_Forall in Hl. eapply Forall_impl; [|exact Hl]. cbn. auto.
Qed.

Lemma ctx_pragmas_exception nt pf u body :
  forallb (clean (nt_of nt) pf) u = true ->
  body (map (attP (nt_of nt) pf) u) = Raised (map (attP (nt_of nt) pf) u) ->
  pragmas_attached nt pf u body = Raised u.
Proof.
  intros Hc Hb. unfold pragmas_attached, with_ctx. cbn [run_op]. rewrite Hb.
  f_equal. eapply map_roundtrip; [|exact Hc]. intros x. apply detach_attach_strict.
Qed.

Lemma ctx_pragmas_return nt pf u body :
  forallb (clean (nt_of nt) pf) u = true ->
  body (map (attP (nt_of nt) pf) u) = Returned (map (attP (nt_of nt) pf) u) ->
  pragmas_attached nt pf u body = Returned u.
Proof.
  intros Hc Hb. unfold pragmas_attached, with_ctx. cbn [run_op]. rewrite Hb.
  f_equal. eapply map_roundtrip; [|exact Hc]. intros x. apply detach_attach_strict.
Qed.

(** for node types without the fields: the same up to "missing attribute reads as None" *)
Lemma ctx_pragmas_exception_up nt pf u body :
  forallb (no_preattached (nt_of nt) pf) u = true ->
  body (map (attP (nt_of nt) pf) u) = Raised (map (attP (nt_of nt) pf) u) ->
  exists u', pragmas_attached nt pf u body = Raised u' /\ map up u' = map up u.
Proof.
  intros Hc Hb. unfold pragmas_attached, with_ctx. cbn [run_op]. rewrite Hb.
  eexists. split; [reflexivity|].
  rewrite !map_map. apply map_ext_Forall. apply forallb_Forall in Hc.
  eapply Forall_impl; [|exact Hc]. cbn. intros x. apply detach_attach_up.
Qed.

Lemma attR_unit_ok kw u : forall u1,
    attR_unit kw u = Ok u1 -> Forall2 (fun t t' => attach_regions kw t = Some t') u u1.
Proof.
  induction u as [|t r IH]; intros u1 H; cbn in H.
  - inversion H. constructor.
  - destruct (attach_regions kw t) as [t'|] eqn:E; [|discriminate].
    destruct (attR_unit kw r) as [r'|r'] eqn:Er; [|discriminate].
    inversion H; subst. constructor; auto.
Qed.

Lemma regions_unit_roundtrip kw u u1 :
  attR_unit kw u = Ok u1 -> forallb (in_region_class kw) u = true -> map detR u1 = u.
Proof.
  intros H Hc. apply attR_unit_ok in H. apply forallb_Forall in Hc.
  induction H as [|t t' r r' Ht Hr IH]; [reflexivity|].
  inversion Hc; subst. cbn. f_equal; [|now apply IH].
  eapply regions_detach_attach; eauto.
Qed.

Lemma ctx_regions_exception kw u u1 body :
  forallb (in_region_class kw) u = true ->
  attR_unit kw u = Ok u1 ->
  body u1 = Raised u1 ->
  pragma_regions_attached kw u body = Raised u.
Proof.
  intros Hc He Hb. unfold pragma_regions_attached, with_ctx. cbn [run_op]. rewrite He, Hb.
  f_equal. eapply regions_unit_roundtrip; eauto.
Qed.

Lemma ctx_regions_return kw u u1 body :
  forallb (in_region_class kw) u = true ->
  attR_unit kw u = Ok u1 ->
  body u1 = Returned u1 ->
  pragma_regions_attached kw u body = Returned u.
Proof.
  intros Hc He Hb. unfold pragma_regions_attached, with_ctx. cbn [run_op]. rewrite He, Hb.
  f_equal. eapply regions_unit_roundtrip; eauto.
Qed.

(** an IndexError while matching the second section leaves the first one with its regions *)
Lemma ctx_regions_enter_error_partial :
  let spec := sec 1 [TP (pa_ 2 "data"); asg 3; TP (pa_ 4 "end data")] in
  let body := sec 5 [TP (pa_ 6 "data"); asg 7; TP (pa_ 8 "end")] in
  pragma_regions_attached None [spec; body] (fun u => Returned u)
  = Raised [sec 1 [TR (pa_ 2 "data") (pa_ 4 "end data") false [asg 3]]; body].
Proof. vm_compute. reflexivity. Qed.

Lemma ctx_dfa_exception u body :
  forallb dfa_class u = true ->
  body (map dfaA u) = Raised (map dfaA u) ->
  dataflow_analysis_attached u body = Raised u.
Proof.
  intros Hc Hb. unfold dataflow_analysis_attached, with_ctx. cbn [run_op]. rewrite Hb.
  f_equal. eapply map_roundtrip; [|exact Hc]. apply dfa_detach_attach.
Qed.

Lemma ctx_dfa_return u body :
  forallb dfa_class u = true ->
  body (map dfaA u) = Returned (map dfaA u) ->
  dataflow_analysis_attached u body = Returned u.
Proof.
  intros Hc Hb. unfold dataflow_analysis_attached, with_ctx. cbn [run_op]. rewrite Hb.
  f_equal. eapply map_roundtrip; [|exact Hc]. apply dfa_detach_attach.
Qed.
