(** C14 — effects on the original objects: none when inplace = false and rebuild_scopes = true (all four
    transformer classes); witness for the documented exception (scoped nodes without rebuild_scopes);
    what happens to a node that is not mapped. *)
From Coq Require Import ZArith List Bool Lia Arith.
From LV Require Import models.M_C14 proofs.P_C14.
Import ListNotations.
Open Scope Z_scope.

Definition quiet (r : res) : Prop := res_log r = [].

Lemma visit_list_quiet f l : (forall x ms, quiet (f x ms)) ->
  forall ms vs ms' lg rb, visit_list f l ms = OkL vs ms' lg rb -> lg = [].
Proof.
  intros Hf. induction l as [|x l IH]; intros ms vs ms' lg rb; cbn.
  - intros H. now inversion H.
  - pose proof (Hf x ms) as Hx. destruct (f x ms) as [y sm ms1 lg1 rb1|e]; [|discriminate].
    destruct (visit_list f l ms1) as [ys ms2 lg2 rb2|e] eqn:E; [|discriminate].
    intros H. inversion H; subst. apply IH in E. unfold quiet in Hx. cbn in Hx. now subst.
Qed.

Section Quiet.
  Variable c : cfg.
  Hypothesis Hin : c_inplace c = false.
  Hypothesis Hrs : c_rebuild_scopes c = true.
  Variable rec : option bool -> item -> mstate -> res.
  Hypothesis Hrec : forall pa o ms, quiet (rec pa o ms).

  Lemma do_rebuild_quiet o p ch ms r same ms' lg rb :
    do_rebuild c o p ch ms = Ok r same ms' lg rb -> lg = [] /\ same = false.
  Proof.
    unfold do_rebuild. destruct o; try discriminate. rewrite Hin.
    destruct (mk_node _ _ _ _); [|discriminate]. intros H. now inversion H.
  Qed.

  Lemma copy_handle_quiet h ms : quiet (copy_handle h ms).
  Proof. unfold copy_handle. destruct h; try reflexivity. destruct (mk_node _ _ _ _); reflexivity. Qed.

  Ltac vl E :=
    match goal with
    | |- context [visit_list ?f ?l ?ms] =>
        destruct (visit_list f l ms) as [? ? ? ?|?] eqn:E;
        [apply visit_list_quiet in E; [subst|intros; apply Hrec] | try reflexivity]
    end.
  Ltac dr E :=
    match goal with
    | |- context [do_rebuild c ?o ?p ?ch ?ms] =>
        destruct (do_rebuild c o p ch ms) as [? ? ? ? ?|?] eqn:E;
        [apply do_rebuild_quiet in E; destruct E; subst | try reflexivity]
    end.

  Lemma h_tuple_quiet pa l ms : quiet (h_tuple c rec pa l ms).
  Proof. unfold h_tuple. destruct (c_cls c); vl E; reflexivity. Qed.

  Lemma h_generic_quiet pa o ms : quiet (h_generic c rec pa o ms).
  Proof. unfold h_generic. vl E. dr E2. reflexivity. Qed.

  Lemma h_scoped_tail_quiet m pa o ms : quiet (h_scoped_tail c rec m pa o ms).
  Proof.
    unfold h_scoped_tail. rewrite Hrs. dr E. vl E2.
    destruct (m && negb (m_active _)); reflexivity.
  Qed.

  Lemma h_plain_node_quiet pa o ms : quiet (h_plain_node c rec pa o ms).
  Proof.
    unfold h_plain_node.
    assert (T : quiet (if kind_scoped (kind_of o) then h_scoped_tail c rec false pa o ms else h_generic c rec pa o ms)).
    { destruct (kind_scoped _); [apply h_scoped_tail_quiet | apply h_generic_quiet]. }
    destruct (mfind (c_map c) o) as [[k [|h|hs]]|]; try exact T.
    - reflexivity.
    - apply copy_handle_quiet.
    - destruct (mem o hs); [exact T | reflexivity].
  Qed.

  Lemma h_nested_node_quiet pa o ms : quiet (h_nested_node c rec pa o ms).
  Proof.
    unfold h_nested_node. rewrite Hrs.
    assert (G : forall h, quiet
      (if negb (is_nd h) then Err EAttribute
       else if kind_scoped (kind_of o)
       then match do_rebuild c h None (children_of h) ms with
            | Ok h1 same1 ms1 lg1 _ =>
                match visit_list (rec pa) (children_of o) ms1 with
                | OkL vs ms2 lg2 rb2 =>
                    Ok (set_children h1 vs) (same1 && (id_of h =? id_of o)) ms2
                      (lg1 ++ lg2 ++ (if same1 then [EUpd (id_of h1) (src_of h1) (zip_children (children_of h1) vs)] else [])) rb2
                | ErrL e => Err e
                end
            | Err e => Err e
            end
       else match visit_list (rec pa) (children_of o) ms with
            | OkL vs ms1 lg rb =>
                match do_rebuild c h None vs ms1 with
                | Ok r same ms2 lg2 rb2 => Ok r (same && (id_of h =? id_of o)) ms2 (lg ++ lg2) (rb ++ rb2)
                | Err e => Err e
                end
            | ErrL e => Err e
            end)).
    { intros h. destruct (negb (is_nd h)); [reflexivity|]. destruct (kind_scoped (kind_of o)).
      - dr E. vl E2. reflexivity.
      - vl E. dr E2. reflexivity. }
    destruct (mfind (c_map c) o) as [[k [|h|hs]]|].
    - reflexivity.
    - apply G.
    - rewrite andb_true_r. destruct (kind_scoped (kind_of o)); [reflexivity|]. cbn [andb].
      vl E. destruct (children_of o); [reflexivity|]. destruct (extend_first hs _); [|reflexivity].
      destruct (c_invsrc c); [reflexivity|]. destruct (mk_node _ _ _ _); reflexivity.
    - apply G.
  Qed.

  Lemma h_masked_node_quiet pa o ms : quiet (h_masked_node c rec pa o ms).
  Proof.
    unfold h_masked_node. destruct (mfind (c_map c) o) eqn:F.
    - apply h_plain_node_quiet.
    - destruct (kind_scoped _); [apply h_scoped_tail_quiet|].
      vl E. destruct (m_active ms); [|reflexivity]. dr E2. reflexivity.
  Qed.

  Lemma visit_pairs_quiet pa vs : forall bs ms ps ms' lg rb,
    visit_pairs rec pa vs bs ms = inl (ps, ms', lg, rb) -> lg = [].
  Proof.
    induction vs as [|v vs IH]; intros [|b bs] ms ps ms' lg rb; cbn; try (intros H; now inversion H).
    pose proof (Hrec pa v ms) as Hv. destruct (rec pa v ms) as [v1 s1 ms1 lg1 rb1|e]; [|discriminate].
    pose proof (Hrec pa b ms1) as Hb. destruct (rec pa b ms1) as [b1 s2 ms2 lg2 rb2|e]; [|discriminate].
    destruct (visit_pairs rec pa vs bs ms2) as [[[[ps3 ms3] lg3] rb3]|e] eqn:E; [|discriminate].
    intros H. inversion H; subst. apply IH in E. unfold quiet in Hv, Hb. cbn in Hv, Hb. now subst.
  Qed.

  Lemma h_nm_node_quiet pa o ms : quiet (h_nm_node c rec pa o ms).
  Proof.
    unfold h_nm_node. destruct (kind_scoped _); [apply h_masked_node_quiet|].
    destruct (kind_disp _).
    - destruct (mfind _ _); [apply h_plain_node_quiet|].
      destruct (negb (m_active ms)); [reflexivity | apply h_generic_quiet].
    - destruct (mfind _ _); [apply h_plain_node_quiet|].
      vl E. destruct (negb (truthy _)); [reflexivity|]. dr E2. reflexivity.
    - destruct (mfind _ _); [reflexivity|].
      destruct (negb _); [reflexivity|]. vl E.
      destruct (flatten (as_tuple (nth 1 _ NoneI))); [reflexivity|]. dr E2. reflexivity.
    - destruct (mfind _ _); [reflexivity|].
      destruct (negb _); [reflexivity|].
      match goal with |- context [rec pa ?x ms] => pose proof (Hrec pa x ms) as H1; destruct (rec pa x ms) as [? ? ms1 lg1 ?|?] end;
        [|reflexivity].
      unfold quiet in H1; cbn in H1; subst.
      match goal with |- context [visit_pairs rec pa ?a ?b ?m] =>
        destruct (visit_pairs rec pa a b m) as [[[[ps ms2] lg2] rb2]|e] eqn:E end; [|reflexivity].
      apply visit_pairs_quiet in E; subst.
      match goal with |- context [rec pa ?x ms2] => pose proof (Hrec pa x ms2) as H3; destruct (rec pa x ms2) as [? ? ms3 lg3 ?|?] end;
        [|reflexivity].
      unfold quiet in H3; cbn in H3; subst.
      destruct (filter _ ps); [reflexivity|]. dr E2. reflexivity.
  Qed.

  Lemma visit_body_quiet pa o ms : quiet (visit_body c rec pa o ms).
  Proof.
    unfold visit_body.
    set (ms1 := if is_masked c then mask_pre c o ms else ms). clearbody ms1.
    destruct o.
    - destruct (c_cls c); try reflexivity. destruct pa as [[|]|]; reflexivity.
    - destruct (c_cls c); try reflexivity. destruct pa as [[|]|]; reflexivity.
    - apply h_tuple_quiet.
    - assert (W : forall r, quiet r ->
                 quiet (match r with
                        | Ok it same ms2 lg rb => Ok it same ms2 lg (if same then rb else rb ++ [(Nd id kind src pay ch, it)])
                        | Err e => Err e
                        end)) by (intros [? ? ? ? ?|?] Hq; exact Hq).
      apply W. destruct (c_cls c).
      + apply h_plain_node_quiet.
      + apply h_nested_node_quiet.
      + apply h_masked_node_quiet.
      + apply h_nm_node_quiet.
  Qed.
End Quiet.

Theorem no_effect_on_original : forall n c pa o ms,
  c_inplace c = false -> c_rebuild_scopes c = true -> res_log (visit n c pa o ms) = [].
Proof.
  intros n c pa o ms Hin Hrs. revert pa o ms. induction n as [|n IH]; intros pa o ms.
  - reflexivity.
  - cbn [visit]. apply visit_body_quiet; assumption.
Qed.

(** F15: a scoped node is updated in place although inplace = false *)
Definition f15_tree : item :=
  Nd 1 K_Section 0 0 [Tup [Nd 2 K_Associate 0 0 [Tup [Nd 3 K_Comment 0 1 []; Nd 4 K_Comment 0 2 []]; Tup []]]].
Definition f15_cfg : cfg :=
  Build_cfg TPlain [(Nd 3 K_Comment 0 1 [], HNone)] false false true [] false false.

Lemma scoped_effect_refuted :
  exists c t, c_cls c = TPlain /\ c_inplace c = false /\
    res_log (visit 10 c None t (init_ms false [])) = [EUpd 2 0 [Tup [Nd 0 K_Comment 0 2 []]; Tup []]].
Proof. exists f15_cfg, f15_tree. repeat split. Qed.

(** * A node that is not mapped keeps its class, its payload and its number of child slots; it is the same
    object exactly when it is updated in place *)
Lemma mk_node_shape k s p ch r : mk_node k s p ch = Some r ->
  exists ch', r = Nd 0 k s p ch' /\ length ch' = length ch.
Proof.
  unfold mk_node. destruct (norm_children (kind_slots k) ch) as [ch'|] eqn:E; [|discriminate].
  destruct (post_init_ok k p ch'); [|discriminate]. intros H. inversion H; subst. exists ch'. split; [reflexivity|].
  clear H. revert ch' E. generalize (kind_slots k). induction ch as [|x ch IH]; intros ns ch'; cbn.
  - intros H. now inversion H.
  - destruct (norm_slot _ x); [|discriminate]. destruct (norm_children (tl ns) ch) eqn:E2; [|discriminate].
    intros H. inversion H. cbn. f_equal. eauto.
Qed.

Lemma zip_children_length old new : length (zip_children old new) = length old.
Proof.
  unfold zip_children. rewrite app_length, firstn_length, skipn_length. lia.
Qed.

Lemma do_rebuild_shape c i k s p ch vs ms r same ms' lg rb :
  do_rebuild c (Nd i k s p ch) None vs ms = Ok r same ms' lg rb ->
  exists i' s' ch', r = Nd i' k s' p ch' /\ length ch' = length ch /\ (i' = i \/ i' = 0).
Proof.
  unfold do_rebuild. destruct (c_inplace c).
  - intros H. inversion H; subst. do 3 eexists. split; [reflexivity|]. split; [apply zip_children_length|now left].
  - destruct (mk_node _ _ _ _) eqn:E; [|discriminate]. intros H. inversion H; subst.
    apply mk_node_shape in E as (ch' & -> & L). do 3 eexists. split; [reflexivity|].
    split; [now rewrite L, zip_children_length | now right].
Qed.

Lemma unmapped_preserved : forall n c pa i k s p ch ms r same ms' lg rb,
  c_cls c = TPlain -> mfind (c_map c) (Nd i k s p ch) = None ->
  visit n c pa (Nd i k s p ch) ms = Ok r same ms' lg rb ->
  exists i' s' ch', r = Nd i' k s' p ch' /\ length ch' = length ch /\ (i' = i \/ i' = 0).
Proof.
  intros n c pa i k s p ch ms r same ms' lg rb Hc Hm. destruct n as [|n]; [discriminate|].
  cbn [visit]. unfold visit_body, is_masked. rewrite Hc. unfold h_plain_node. rewrite Hm.
  cbn [kind_of].
  match goal with |- match ?X with _ => _ end = _ -> _ => destruct X as [r0 same0 ms0 lg0 rb0|e] eqn:E end; [|discriminate].
  intros H. inversion H; subst. clear H.
  destruct (kind_scoped k).
  - unfold h_scoped_tail in E. cbn [children_of] in E.
    destruct (c_rebuild_scopes c).
    + destruct (do_rebuild c (Nd i k s p ch) None ch ms) as [o1 same1 ms1 lg1 rb1|e] eqn:E1; [|discriminate].
      apply do_rebuild_shape in E1 as (i1 & s1 & ch1 & -> & L1 & Hi).
      cbn [children_of andb] in E.
      destruct (visit_list _ ch1 ms1) as [vs ms2 lg2 rb2|e]; [|discriminate].
      inversion E; subst. cbn [set_children]. do 3 eexists. split; [reflexivity|].
      split; [now rewrite zip_children_length|exact Hi].
    + cbn [children_of andb] in E.
      destruct (visit_list _ ch ms) as [vs ms2 lg2 rb2|e]; [|discriminate].
      inversion E; subst. cbn [set_children]. do 3 eexists. split; [reflexivity|].
      split; [now rewrite zip_children_length|now left].
  - unfold h_generic in E. cbn [children_of] in E.
    destruct (visit_list _ ch ms) as [vs ms1 lg1 rb1|e]; [|discriminate].
    destruct (do_rebuild c (Nd i k s p ch) None vs ms1) as [r1 same1 ms2 lg2 rb2|e] eqn:E1; [|discriminate].
    inversion E; subst. eapply do_rebuild_shape; eauto.
Qed.
