(** C16 — lemmas for the pragma-region attacher / detacher. *)
From Coq Require Import ZArith List Bool String Ascii Arith Lia.
From LV Require Import Base.Strings models.M_C16 proofs.P_C16.
Import ListNotations.
Open Scope list_scope.

Section MkInd.
  Variable P : mk -> Prop.
  Hypothesis HO : forall t, P (MO t).
  Hypothesis HM : forall s e b, Forall P b -> P (MR s e b).
  Fixpoint mk_ind' (m : mk) : P m :=
    match m with
    | MO t => HO t
    | MR s e b => HM s e b ((fix go (l : list mk) : Forall P l :=
                               match l with
                               | [] => Forall_nil _
                               | x :: r => Forall_cons x (mk_ind' x) (go r)
                               end) b)
    end.
End MkInd.

(** the marked elements of a tuple, with every region (new or old) unpacked again *)
Fixpoint Dm1 (m : mk) : list tree :=
  match m with
  | MO t => detR1 t
  | MR s e b => TP s :: flat_map Dm1 b ++ [TP e]
  end.

Lemma detR1_plain m : detR1 (plain m) = Dm1 m.
Proof.
  induction m as [t|s e b IH] using mk_ind'; [reflexivity|].
  cbn. f_equal. f_equal. rewrite flat_map_map. now apply flat_map_ext_Forall.
Qed.

(** ** list surgery *)
Lemma split_at {A} (l : list A) : forall n x, nth_error l n = Some x -> l = firstn n l ++ x :: skipn (S n) l.
Proof.
  induction l as [|y r IH]; intros [|n] x H; cbn in *; try discriminate.
  - now inversion H.
  - f_equal. now apply IH.
Qed.

Lemma nth_error_skipn {A} (l : list A) : forall k n, nth_error (skipn k l) n = nth_error l (k + n).
Proof.
  induction l as [|y r IH]; intros [|k] n; cbn; try reflexivity.
  - now destruct n.
  - apply IH.
Qed.

Lemma skipn_skipn' {A} (l : list A) : forall x y, skipn x (skipn y l) = skipn (y + x) l.
Proof.
  induction l as [|a r IH]; intros x [|y]; cbn; try reflexivity.
  - now destruct x.
  - apply IH.
Qed.

Lemma split_two {A} (l : list A) a b x y :
  (a < b)%nat -> nth_error l a = Some x -> nth_error l b = Some y ->
  l = firstn a l ++ x :: firstn (b - (a + 1)) (skipn (a + 1) l) ++ y :: skipn (b + 1) l.
Proof.
  intros Hab Ha Hb.
  rewrite (split_at l a x Ha) at 1. f_equal. f_equal.
  replace (a + 1)%nat with (S a) by lia.
  assert (Hb' : nth_error (skipn (S a) l) (b - S a) = Some y).
  { rewrite nth_error_skipn. now replace (S a + (b - S a))%nat with b by lia. }
  rewrite (split_at _ _ _ Hb') at 1. f_equal. f_equal.
  rewrite skipn_skipn'. f_equal. lia.
Qed.

Lemma prag_eqb_eq p q : prag_eqb p q = true -> p = q.
Proof.
  destruct p, q. unfold prag_eqb. cbn.
  rewrite !andb_true_iff. intros [[[[H1 H2] H3] H4] H5].
  apply Z.eqb_eq in H1, H2. apply String.eqb_eq in H3, H4. apply Bool.eqb_prop in H5.
  congruence.
Qed.

Lemma mk_same_eq p m : mk_same p m = true -> m = MO (TP p).
Proof.
  destruct m as [[q| |]|]; cbn; try discriminate.
  intros H. apply prag_eqb_eq in H. now subst.
Qed.

(** ** one rewrite step, the whole rewrite, the deep rewrite *)
Lemma rw_step_flat o pr :
  step_safe o pr = true -> flat_map Dm1 (rw_step o pr) = flat_map Dm1 o.
Proof.
  unfold step_safe, rw_step.
  destruct (find_idx (mk_is (fst pr)) o) as [a|]; [|reflexivity].
  destruct (find_idx (mk_is (snd pr)) o) as [b|]; [|reflexivity].
  intros H. apply andb_true_iff in H as [H Hb]. apply andb_true_iff in H as [Hab Ha].
  apply Nat.ltb_lt in Hab.
  destruct (nth_error o a) as [ma|] eqn:Ea; [|discriminate].
  destruct (nth_error o b) as [mb|] eqn:Eb; [|discriminate].
  apply mk_same_eq in Ha, Hb. subst ma mb.
  rewrite (split_two o a b _ _ Hab Ea Eb) at 4.
  rewrite !flat_map_app. cbn [flat_map Dm1 detR1 app].
  rewrite !flat_map_app. cbn [flat_map Dm1 detR1 app].
  rewrite app_nil_r. rewrite <- !app_assoc. reflexivity.
Qed.

Lemma rewrite_flat pairs : forall o,
    rewrite_safe pairs o = true -> flat_map Dm1 (rewrite pairs o) = flat_map Dm1 o.
Proof.
  induction pairs as [|pr r IH]; intros o H; [reflexivity|].
  cbn in H. apply andb_true_iff in H as [H1 H2].
  unfold rewrite. cbn [fold_left]. fold (rewrite r (rw_step o pr)).
  rewrite IH by assumption. now apply rw_step_flat.
Qed.

Lemma rw_deep_flat pairs fuel : forall o,
    deep_safe fuel pairs o = true -> flat_map detR1 (rw_deep fuel pairs o) = flat_map Dm1 o.
Proof.
  induction fuel as [|f IH]; intros o H.
  - cbn. rewrite flat_map_map. apply flat_map_ext. intros m. apply detR1_plain.
  - cbn in H. apply andb_true_iff in H as [H1 H2].
    cbn [rw_deep]. rewrite flat_map_map.
    rewrite <- (rewrite_flat pairs o H1).
    apply flat_map_ext_Forall. apply forallb_Forall in H2.
    eapply Forall_impl; [|exact H2]. intros m Hm.
    destruct m as [t|s e b]; [reflexivity|].
    cbn. now rewrite IH.
Qed.

Lemma rw_tuple_flat pairs o :
  tuple_safe pairs o = true -> flat_map detR1 (rw_tuple pairs o) = flat_map detR1 o.
Proof.
  intros H. unfold rw_tuple. rewrite rw_deep_flat by exact H.
  now rewrite flat_map_map.
Qed.

(** ** the tree level *)
Lemma strip_map_strip {A B} (D : list A -> list B) (l : list (list A)) :
  D [] = [] -> strip (map D (strip l)) = strip (map D l).
Proof.
  intros HD. unfold strip. induction l as [|x r IH]; [reflexivity|].
  destruct x as [|a x]; cbn [filter map is_nil negb].
  - rewrite HD. cbn [filter is_nil negb]. exact IH.
  - destruct (D (a :: x)); cbn [filter is_nil negb]; now rewrite IH.
Qed.

Lemma slot_detR_attR pairs s :
  Forall (fun t => attR_safe pairs t = true -> detR1 (attR pairs t) = detR1 t) s ->
  forallb (attR_safe pairs) s && tuple_safe pairs (map (attR pairs) s) = true ->
  flat_map detR1 (rw_tuple pairs (map (attR pairs) s)) = flat_map detR1 s.
Proof.
  intros IH H. apply andb_true_iff in H as [H1 H2].
  rewrite rw_tuple_flat by assumption. rewrite flat_map_map.
  apply flat_map_ext_Forall. apply forallb_Forall in H1.
  eapply Forall_and_impl; [exact IH|exact H1|]. cbn. auto.
Qed.

Lemma detR1_attR pairs t : attR_safe pairs t = true -> detR1 (attR pairs t) = detR1 t.
Proof.
  induction t as [p|i k a b d ss ms IHs IHm|s e d b IHb] using tree_ind'; intros H.
  - reflexivity.
  - cbn in H. apply andb_true_iff in H as [Hss Hms].
    cbn. f_equal. f_equal.
    + rewrite map_map. apply map_ext_Forall. apply forallb_Forall in Hss.
      eapply Forall_and_impl; [exact IHs|exact Hss|]. cbn. intros s0 IH0 H0.
      now apply slot_detR_attR.
    + rewrite strip_map_strip by reflexivity. f_equal.
      rewrite map_map. apply map_ext_Forall. apply forallb_Forall in Hms.
      eapply Forall_and_impl; [exact IHm|exact Hms|]. cbn. intros s0 IH0 H0.
      now apply slot_detR_attR.
  - cbn in H. cbn. f_equal. f_equal. now apply slot_detR_attR.
Qed.

Lemma strip_id {A} (l : list (list A)) : forallb (fun b => negb (is_nil b)) l = true -> strip l = l.
Proof.
  induction l as [|x r IH]; [reflexivity|]. cbn. intros H. apply andb_true_iff in H as [H1 H2].
  unfold strip in *. cbn. rewrite H1. now rewrite IH.
Qed.

Lemma flat_map_singletons {A} (f : A -> list A) l : Forall (fun x => f x = [x]) l -> flat_map f l = l.
Proof. induction 1; cbn; [reflexivity|]. now rewrite H, IHForall. Qed.

Lemma detR1_region_free t :
  no_regions t = true -> no_empty_bodies t = true -> detR1 t = [t].
Proof.
  induction t as [p|i k a b d ss ms IHs IHm|s e d b IHb] using tree_ind'; intros H1 H2.
  - reflexivity.
  - unfold no_regions in H1. unfold no_empty_bodies in H2. rewrite deep_unfold in H1, H2.
    apply andb_true_iff in H1 as [_ H1]. apply andb_true_iff in H1 as [R1 R2].
    apply andb_true_iff in H2 as [E0 H2]. apply andb_true_iff in H2 as [E1 E2].
    cbn in E0.
    assert (Hslot : forall l, Forall (Forall (fun t => no_regions t = true -> no_empty_bodies t = true -> detR1 t = [t])) l ->
                              forallb (forallb (deep region_free_top)) l = true ->
                              forallb (forallb (deep multi_ok_top)) l = true ->
                              map (flat_map detR1) l = l).
    { intros l IH A B. rewrite <- (map_id l) at 2. apply map_ext_Forall.
      apply forallb_Forall in A, B.
      eapply Forall_and_impl; [exact IH| |].
      - eapply Forall_and_impl; [exact A|exact B|]. intros x Hx Hy. exact (conj Hx Hy).
      - cbn. intros s0 IH0 [A0 B0]. apply flat_map_singletons.
        apply forallb_Forall in A0, B0.
        eapply Forall_and_impl; [exact IH0| |].
        + eapply Forall_and_impl; [exact A0|exact B0|]. intros x Hx Hy. exact (conj Hx Hy).
        + cbn. intros x Hx [? ?]. now apply Hx. }
    cbn. f_equal. f_equal.
    + now apply Hslot.
    + rewrite (Hslot ms) by assumption. now apply strip_id.
  - unfold no_regions in H1. rewrite deep_unfold in H1. cbn in H1. discriminate.
Qed.

Lemma detR_attR_on_class pairs t : region_class pairs t = true -> detR (attR pairs t) = t.
Proof.
  unfold region_class. intros H. apply andb_true_iff in H as [H H3]. apply andb_true_iff in H as [H1 H2].
  unfold detR. rewrite detR1_attR by assumption. now rewrite detR1_region_free.
Qed.

Lemma regions_detach_attach kw t t' :
  attach_regions kw t = Some t' -> in_region_class kw t = true -> detR t' = t.
Proof.
  unfold attach_regions, in_region_class.
  destruct (matching_pairs (kw_filter kw (findp t))) as [pairs|]; [|discriminate].
  intros E H. inversion E; subst. now apply detR_attR_on_class.
Qed.

(** ** witnesses *)
Definition pa_ (n : Z) (c : string) : prag := mkP n 0 "acc" c false.
Definition asg (n : Z) : tree := TN n KAssign NoAttr NoAttr false [] [].
Definition sec (n : Z) (l : list tree) : tree := TN n KSection NoAttr NoAttr false [l] [].

(** F2: pragmas without source; an unmatched [end data] in front of a matched pair *)
Definition dup_witness : tree :=
  sec 1 [TP (pa_ 2 "end data"); asg 3; TP (pa_ 4 "data"); asg 5; TP (pa_ 6 "end data")].

Lemma regions_roundtrip_refuted :
  exists t t', no_regions t = true /\ no_empty_bodies t = true /\
               attach_regions None t = Some t' /\ skel (detR t') <> skel t.
Proof.
  exists dup_witness. eexists. repeat split; try (vm_compute; reflexivity).
  vm_compute. discriminate.
Qed.

Lemma dup_witness_result :
  option_map detR (attach_regions None dup_witness)
  = Some (sec 1 [TP (pa_ 2 "end data"); asg 3; TP (pa_ 4 "data"); TP (pa_ 6 "end data"); asg 3;
                 TP (pa_ 4 "data"); asg 5; TP (pa_ 6 "end data")]).
Proof. vm_compute. reflexivity. Qed.

(** F3: nested regions spelled identically, without source: same structure, other objects *)
Definition nested_same_witness : tree :=
  sec 1 [TP (pa_ 2 "data"); TP (pa_ 3 "data"); asg 4; TP (pa_ 5 "end data"); TP (pa_ 6 "end data")].

Lemma regions_identity_refuted :
  option_map detR (attach_regions None nested_same_witness)
  = Some (sec 1 [TP (pa_ 3 "data"); TP (pa_ 3 "data"); asg 4; TP (pa_ 5 "end data"); TP (pa_ 6 "end data")]).
Proof. vm_compute. reflexivity. Qed.

(** F5: a case body that is empty is dropped by the strip in Transformer.visit_tuple *)
Definition empty_body_witness : tree :=
  sec 1 [TN 2 KMulti NoAttr NoAttr false [[]] [[]; [asg 3]]].
Lemma regions_empty_body_refuted :
  option_map detR (attach_regions None empty_body_witness)
  = Some (sec 1 [TN 2 KMulti NoAttr NoAttr false [[]] [[asg 3]]]).
Proof. vm_compute. reflexivity. Qed.

(** matching raises IndexError for a bare [end] *)
Lemma matching_index_error :
  attach_regions None (sec 1 [TP (pa_ 2 "data"); asg 3; TP (pa_ 4 "end")]) = None.
Proof. vm_compute. reflexivity. Qed.

(** the class is inhabited by nested, unmatched and case-mixed pairs *)
Definition pl_ (n : Z) (k c : string) : prag := mkP n n k c false.
Example region_class_nontrivial :
  let t := sec 1 [TP (pl_ 2 "ACC" "DATA   present(a)"); TP (pl_ 3 "loki" "region-x"); asg 4;
                  TP (pl_ 6 "loki" "end region-x"); TP (pl_ 5 "omp" "parallel");
                  TN 7 KLoop ANone ANone false [[asg 8; TP (pl_ 9 "omp" "end parallel do")]] [];
                  TP (pl_ 10 "acc" "End Data"); TP (pl_ 11 "acc" "end kernels")] in
  in_region_class None t = true /\
  option_map (map (fun pr => (pid (fst pr), pid (snd pr)))) (matching_pairs (findp t)) = Some [(3, 6); (5, 9); (2, 10)]%Z /\
  option_map (fun t' => tree_eqb t' t) (attach_regions None t) = Some false.
Proof. vm_compute. repeat split; reflexivity. Qed.
