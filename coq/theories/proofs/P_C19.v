(** C19, part (i): the parser-class bookkeeping of make_complete — lemmas and proofs. *)
From Coq Require Import NArith List Bool Arith Lia Permutation.
From LV Require Import models.M_C19.
Import ListNotations.

(* ---------------------------------------------------------------------------------------------- *)
(** * class sets *)

Lemma f_sub_spec : forall a b, f_sub a b = true <-> N.lor b a = b.
Proof. intros. unfold f_sub. apply N.eqb_eq. Qed.

Lemma f_union_comm : forall a b, f_union a b = f_union b a.
Proof. intros. apply N.lor_comm. Qed.
Lemma f_union_assoc : forall a b c, f_union a (f_union b c) = f_union (f_union a b) c.
Proof. intros. apply N.lor_assoc. Qed.
Lemma f_union_idem : forall a, f_union a a = a.
Proof. intros. apply N.lor_diag. Qed.
Lemma f_union_0_r : forall a, f_union a 0%N = a.
Proof. intros. apply N.lor_0_r. Qed.

Lemma f_sub_refl : forall a, f_sub a a = true.
Proof. intros. apply f_sub_spec. apply N.lor_diag. Qed.

Lemma f_sub_trans : forall a b c, f_sub a b = true -> f_sub b c = true -> f_sub a c = true.
Proof.
  intros a b c H1 H2. apply f_sub_spec in H1. apply f_sub_spec in H2. apply f_sub_spec.
  rewrite <- H2 at 1. rewrite <- H1 at 1.
  rewrite <- !N.lor_assoc. rewrite (N.lor_diag a). rewrite H1. exact H2.
Qed.

Lemma f_sub_union_l : forall a b, f_sub a (f_union a b) = true.
Proof.
  intros. apply f_sub_spec. unfold f_union.
  rewrite (N.lor_comm a b). rewrite <- N.lor_assoc. now rewrite N.lor_diag.
Qed.
Lemma f_sub_union_r : forall a b, f_sub b (f_union a b) = true.
Proof. intros. rewrite f_union_comm. apply f_sub_union_l. Qed.

Lemma f_sub_absorb : forall r g, f_sub r g = true -> f_union g r = g.
Proof. intros r g H. now apply f_sub_spec in H. Qed.

Lemma f_sub_union_mono : forall a b c, f_sub a b = true -> f_sub a (f_union b c) = true.
Proof. intros. eapply f_sub_trans; [eassumption | apply f_sub_union_l]. Qed.

Lemma has_pu_union_l : forall a b, has_pu a = true -> has_pu (f_union a b) = true.
Proof. intros. unfold has_pu in *. now apply f_sub_union_mono. Qed.
Lemma has_pu_union_r : forall a b, has_pu b = true -> has_pu (f_union a b) = true.
Proof. intros. rewrite f_union_comm. now apply has_pu_union_l. Qed.

Lemma fold_left_union : forall l g, fold_left f_union l g = f_union g (f_unions l).
Proof.
  induction l as [|a l IH]; intros g; cbn [fold_left f_unions fold_right].
  - now rewrite f_union_0_r.
  - rewrite IH. now rewrite f_union_assoc.
Qed.

Lemma f_unions_perm : forall l l', Permutation l l' -> f_unions l = f_unions l'.
Proof.
  induction 1; cbn [f_unions fold_right] in *.
  - reflexivity.
  - now f_equal.
  - rewrite !f_union_assoc. f_equal. apply f_union_comm.
  - congruence.
Qed.

Lemma f_sub_unions_in : forall r l, In r l -> f_sub r (f_unions l) = true.
Proof.
  induction l as [|a l IH]; intros H; [contradiction|].
  cbn [f_unions fold_right]. destruct H as [->|H].
  - apply f_sub_union_l.
  - eapply f_sub_trans; [apply IH, H | apply f_sub_union_r].
Qed.

(* ---------------------------------------------------------------------------------------------- *)
(** * one request *)

Lemma repeat_length' : forall (A : Type) (x : A) n, List.length (repeat x n) = n.
Proof. intros. apply repeat_length. Qed.

(** a request addressed to the top of a chain whose units all carry [g]: all units carry [g ∪ r] afterwards,
    whether the call returned early or re-parsed *)
Lemma unit_req_uniform : forall n g r, unit_req 0 r (repeat g n) = repeat (f_union g r) n.
Proof.
  intros n g r. unfold unit_req. destruct n as [|n]; [reflexivity|].
  cbn [repeat nth_error].
  destruct (negb (N.eqb g 0) && f_sub r g) eqn:E.
  - apply andb_prop in E as [_ E]. now rewrite (f_sub_absorb _ _ E).
  - unfold reset_from. cbn [firstn app List.length]. rewrite Nat.sub_0_r.
    rewrite repeat_length'. now rewrite (f_union_comm r g).
Qed.

Lemma step_uniform : forall n g f q,
  top_level q = true ->
  step {| h_file := f; h_disc := true; h_units := repeat g n |} q =
  {| h_file := match fst q with TFile => f_union f (snd q) | _ => f end;
     h_disc := true; h_units := repeat (f_union g (snd q)) n |}.
Proof.
  intros n g f [t r] Ht. destruct t as [|[|k]]; cbn in Ht; try discriminate; cbn [step fst snd h_disc h_file h_units orb].
  - now rewrite unit_req_uniform.
  - now rewrite unit_req_uniform.
Qed.

Definition file_classes (rs : list request) : flags :=
  f_unions (map snd (filter (fun q => match fst q with TFile => true | _ => false end) rs)).

Lemma run_uniform : forall n rs g f,
  forallb top_level rs = true ->
  fold_left step rs {| h_file := f; h_disc := true; h_units := repeat g n |} =
  {| h_file := f_union f (file_classes rs); h_disc := true; h_units := repeat (f_union g (req_classes rs)) n |}.
Proof.
  induction rs as [|q rs IH]; intros g f H.
  - cbn. unfold file_classes, req_classes. cbn. now rewrite !f_union_0_r.
  - cbn [forallb] in H. apply andb_prop in H as [Hq Hrs].
    cbn [fold_left]. rewrite step_uniform by assumption. rewrite IH by assumption.
    unfold req_classes, file_classes. cbn [map f_unions fold_right filter].
    destruct q as [[|k] r]; cbn [fst snd map f_unions fold_right];
      rewrite ?f_union_assoc; reflexivity.
Qed.

(* ---------------------------------------------------------------------------------------------- *)
(** * the property on the class: requests addressed to the file or to the top-level unit, after an initial
      parse that contains ProgramUnitClass *)

Theorem run_top_level : forall n p0 rs,
  has_pu p0 = true -> forallb top_level rs = true ->
  run n p0 rs = {| h_file := f_union p0 (file_classes rs); h_disc := true;
                   h_units := repeat (f_union p0 (req_classes rs)) n |}.
Proof.
  intros n p0 rs Hp H. unfold run, init. rewrite Hp. now apply run_uniform.
Qed.

Lemma req_classes_single : forall t c, req_classes [(t, c)] = c.
Proof. intros. unfold req_classes. cbn [map snd f_unions fold_right]. apply f_union_0_r. Qed.

(** the final records of the units equal those after ONE request with the union of all classes *)
Theorem incremental_equals_single : forall n p0 rs,
  has_pu p0 = true -> forallb top_level rs = true ->
  h_units (run n p0 rs) = h_units (run n p0 [(TFile, req_classes rs)]) /\
  h_disc (run n p0 rs) = h_disc (run n p0 [(TFile, req_classes rs)]).
Proof.
  intros n p0 rs Hp H. rewrite (run_top_level n p0 rs Hp H).
  rewrite (run_top_level n p0 [(TFile, req_classes rs)] Hp eq_refl).
  cbn [h_units h_disc]. now rewrite req_classes_single.
Qed.

Lemma req_classes_perm : forall rs rs', Permutation rs rs' -> req_classes rs = req_classes rs'.
Proof. intros. unfold req_classes. apply f_unions_perm. now apply Permutation_map. Qed.

Lemma forallb_perm : forall (A : Type) (f : A -> bool) l l', Permutation l l' -> forallb f l = forallb f l'.
Proof.
  induction 1; cbn [forallb].
  - reflexivity.
  - now rewrite IHPermutation.
  - now rewrite !andb_assoc, (andb_comm (f y)).
  - congruence.
Qed.

(** ... hence any two orders of the same requests end in the same records *)
Theorem order_irrelevant_records : forall n p0 rs rs',
  has_pu p0 = true -> forallb top_level rs = true -> Permutation rs rs' ->
  h_units (run n p0 rs) = h_units (run n p0 rs') /\ h_disc (run n p0 rs) = h_disc (run n p0 rs').
Proof.
  intros n p0 rs rs' Hp H P.
  assert (H' : forallb top_level rs' = true) by now rewrite <- (forallb_perm _ _ _ _ P).
  rewrite (run_top_level n p0 rs Hp H), (run_top_level n p0 rs' Hp H'). cbn [h_units h_disc].
  now rewrite (req_classes_perm _ _ P).
Qed.

Section Parse.
  Variables text ir : Type.
  Variable parse : flags -> text -> ir.

  (** the IR after the whole history is the IR of a single parse with the union of everything requested *)
  Theorem incremental_order_irrelevant : forall (texts : list text) p0 rs,
    has_pu p0 = true -> forallb top_level rs = true ->
    final_ir parse texts (run (List.length texts) p0 rs) =
    Some (map (parse (f_union p0 (req_classes rs))) texts).
  Proof.
    intros texts p0 rs Hp H. rewrite (run_top_level _ p0 rs Hp H). unfold final_ir. cbn [h_disc h_units].
    f_equal. generalize (f_union p0 (req_classes rs)). intros g.
    induction texts as [|t ts IH]; cbn; [reflexivity|]. now rewrite IH.
  Qed.

  Corollary incremental_single_request : forall (texts : list text) p0 rs,
    has_pu p0 = true -> forallb top_level rs = true ->
    final_ir parse texts (run (List.length texts) p0 rs) =
    final_ir parse texts (run (List.length texts) p0 [(TFile, req_classes rs)]).
  Proof.
    intros. rewrite !incremental_order_irrelevant by (assumption || reflexivity).
    now rewrite req_classes_single.
  Qed.

  Corollary incremental_permutation : forall (texts : list text) p0 rs rs',
    has_pu p0 = true -> forallb top_level rs = true -> Permutation rs rs' ->
    final_ir parse texts (run (List.length texts) p0 rs) = final_ir parse texts (run (List.length texts) p0 rs').
  Proof.
    intros texts p0 rs rs' Hp H P.
    assert (H' : forallb top_level rs' = true) by now rewrite <- (forallb_perm _ _ _ _ P).
    rewrite !incremental_order_irrelevant by assumption. now rewrite (req_classes_perm _ _ P).
  Qed.

  (** recorded assumption about the frontend: asking for more classes finds more, for the class sets
      satisfying [ok] (measured: sets containing InterfaceClass; without it USE statements of interface
      bodies are attributed to the host unit) *)
  Variable le_ir : ir -> ir -> Prop.
  Variable ok : flags -> bool.
  Hypothesis parse_mono : forall a b t, ok a = true -> f_sub a b = true -> le_ir (parse a t) (parse b t).

  (** nothing a request (or the initial parse) would have found on its own is missing at the end *)
  Theorem incremental_never_loses : forall (texts : list text) p0 rs r,
    has_pu p0 = true -> forallb top_level rs = true -> (r = p0 \/ In r (map snd rs)) -> ok r = true ->
    exists irs, final_ir parse texts (run (List.length texts) p0 rs) = Some irs /\
                Forall2 (fun t i => le_ir (parse r t) i) texts irs.
  Proof.
    intros texts p0 rs r Hp H Hr Hok. eexists. split; [now apply incremental_order_irrelevant|].
    assert (S : f_sub r (f_union p0 (req_classes rs)) = true).
    { destruct Hr as [->|Hr]; [apply f_sub_union_l|].
      eapply f_sub_trans; [apply f_sub_unions_in, Hr | apply f_sub_union_r]. }
    induction texts as [|t ts IH]; cbn [map]; constructor; auto.
  Qed.
End Parse.

(* ---------------------------------------------------------------------------------------------- *)
(** * every request is honoured: whatever happened before, after asking a unit for [r] its record covers [r]
      (so its content is a parse with at least those classes) *)

Lemma nth_error_reset_from : forall k g l, k < List.length l -> nth_error (reset_from k g l) k = Some g.
Proof.
  intros k g l H. unfold reset_from.
  rewrite nth_error_app2 by (rewrite firstn_length; lia).
  rewrite firstn_length, Nat.min_l by lia. rewrite Nat.sub_diag.
  destruct (List.length l - k) eqn:E; [lia|]. reflexivity.
Qed.

Theorem request_is_honoured : forall s k r g,
  h_disc s = true -> nth_error (h_units s) k = Some g ->
  exists g', nth_error (h_units (step s (TUnit k, r))) k = Some g' /\ f_sub r g' = true.
Proof.
  intros s k r g Hd Hk. cbn [step]. rewrite Hd. cbn [h_units]. unfold unit_req. rewrite Hk.
  destruct (negb (N.eqb g 0) && f_sub r g) eqn:E.
  - apply andb_prop in E as [_ E]. eauto.
  - exists (f_union r g). split; [|apply f_sub_union_l].
    apply nth_error_reset_from. apply nth_error_Some. congruence.
Qed.

Lemma length_unit_req : forall k r l, List.length (unit_req k r l) = List.length l.
Proof.
  intros. unfold unit_req. destruct (nth_error l k) eqn:E; [|reflexivity].
  destruct (_ && _); [reflexivity|]. unfold reset_from.
  assert (k < List.length l) by (apply nth_error_Some; congruence).
  rewrite app_length, firstn_length, repeat_length. lia.
Qed.

(** the file-level request reaches the top-level unit in every discovered state *)
Theorem file_request_is_honoured : forall s r g,
  h_disc s = true -> nth_error (h_units s) 0 = Some g ->
  exists g', nth_error (h_units (step s (TFile, r))) 0 = Some g' /\ f_sub r g' = true.
Proof.
  intros s r g Hd Hk. cbn [step h_units]. rewrite Hd. unfold unit_req. rewrite Hk.
  destruct (negb (N.eqb g 0) && f_sub r g) eqn:E.
  - apply andb_prop in E as [_ E]. eauto.
  - exists (f_union r g). split; [|apply f_sub_union_l].
    apply nth_error_reset_from. apply nth_error_Some. congruence.
Qed.

(* ---------------------------------------------------------------------------------------------- *)
(** * invariant of all histories: a nested unit never records less than the unit around it *)

Fixpoint chain_mono (l : list flags) : bool :=
  match l with
  | a :: (b :: _) as t => f_sub a b && chain_mono t
  | _ => true
  end.

Lemma chain_mono_repeat : forall g n, chain_mono (repeat g n) = true.
Proof.
  induction n as [|n IH]; [reflexivity|]. cbn [repeat]. destruct n; [reflexivity|].
  cbn [repeat chain_mono] in *. now rewrite f_sub_refl.
Qed.

Lemma chain_mono_map_const : forall g (l : list flags), chain_mono (map (fun _ => g) l) = true.
Proof.
  induction l as [|a l IH]; [reflexivity|]. cbn [map]. destruct l; [reflexivity|].
  cbn [map chain_mono] in *. now rewrite f_sub_refl.
Qed.

Lemma chain_mono_reset : forall l k g g',
  chain_mono l = true -> nth_error l k = Some g -> f_sub g g' = true ->
  chain_mono (reset_from k g' l) = true.
Proof.
  induction l as [|a l IH]; intros k g g' Hm Hk Hs.
  - destruct k; discriminate.
  - destruct k as [|k].
    + unfold reset_from. cbn [firstn app List.length]. rewrite Nat.sub_0_r. apply (chain_mono_repeat g' (S (List.length l))).
    + cbn [nth_error] in Hk.
      assert (Hl : chain_mono l = true).
      { destruct l; [reflexivity|]. cbn [chain_mono] in Hm. now apply andb_prop in Hm. }
      specialize (IH k g g' Hl Hk Hs).
      unfold reset_from in *. cbn [firstn List.length app]. rewrite Nat.sub_succ.
      destruct k as [|k].
      * cbn [firstn app] in *. destruct l as [|b l]; [discriminate|]. cbn [nth_error] in Hk. injection Hk as ->.
        cbn [List.length]. rewrite Nat.sub_0_r. cbn [repeat].
        cbn [chain_mono] in Hm. apply andb_prop in Hm as [Hab _].
        change (f_sub a g' && chain_mono (repeat g' (S (List.length l))) = true).
        rewrite (f_sub_trans _ _ _ Hab Hs). apply (chain_mono_repeat g' (S (List.length l))).
      * destruct l as [|b l]; [discriminate|]. cbn [firstn app] in *.
        cbn [chain_mono] in Hm. apply andb_prop in Hm as [Hab _].
        change (f_sub a b && chain_mono (b :: firstn k l ++ repeat g' (List.length (b :: l) - S k)) = true).
        rewrite Hab. exact IH.
Qed.

Lemma chain_mono_unit_req : forall k r l, chain_mono l = true -> chain_mono (unit_req k r l) = true.
Proof.
  intros k r l H. unfold unit_req. destruct (nth_error l k) eqn:E; [|assumption].
  destruct (_ && _); [assumption|]. eapply chain_mono_reset; eauto. apply f_sub_union_r.
Qed.

Theorem nested_records_cover_parent : forall n p0 rs, chain_mono (h_units (run n p0 rs)) = true.
Proof.
  intros n p0 rs. unfold run.
  assert (G : forall s, chain_mono (h_units s) = true -> chain_mono (h_units (fold_left step rs s)) = true).
  { induction rs as [|q rs IH]; intros s Hs; [assumption|]. cbn [fold_left]. apply IH.
    destruct q as [[|k] r]; cbn [step h_units].
    - destruct (h_disc s); [now apply chain_mono_unit_req|].
      destruct (has_pu r); [apply chain_mono_map_const | assumption].
    - destruct (h_disc s); [cbn [h_units]; now apply chain_mono_unit_req | assumption]. }
  apply G. apply chain_mono_repeat.
Qed.

(* ---------------------------------------------------------------------------------------------- *)
(** * outside the class the statement fails (what the code does today) *)

(** file-level requests only, ProgramUnitClass not in the initial parse: the units are created by the first
    request that contains ProgramUnitClass, with THAT request's classes only; everything requested earlier
    (including the initial classes) is forgotten *)
Fixpoint after_pu (cs : list flags) : option (list flags) :=
  match cs with
  | [] => None
  | r :: t => if has_pu r then Some cs else after_pu t
  end.

Lemma map_const_repeat : forall (r g : flags) n, map (fun _ : flags => r) (repeat g n) = repeat r n.
Proof. induction n as [|n IH]; cbn; [reflexivity | now rewrite IH]. Qed.

Lemma run_file_undiscovered : forall n cs f g,
  fold_left step (map (fun r => (TFile, r)) cs) {| h_file := f; h_disc := false; h_units := repeat g n |} =
  match after_pu cs with
  | None => {| h_file := f_union f (f_unions cs); h_disc := false; h_units := repeat g n |}
  | Some l => {| h_file := f_union f (f_unions cs); h_disc := true; h_units := repeat (f_unions l) n |}
  end.
Proof.
  induction cs as [|r cs IH]; intros f g.
  - cbn. now rewrite f_union_0_r.
  - cbn [map fold_left after_pu]. cbn [step h_disc h_file h_units orb].
    destruct (has_pu r) eqn:E.
    + rewrite map_const_repeat.
      rewrite (run_uniform n (map (fun r0 => (TFile, r0)) cs) r (f_union f r)).
      2:{ clear. induction cs; cbn; auto. }
      unfold req_classes, file_classes. rewrite map_map. cbn [snd]. rewrite map_id.
      replace (filter _ (map (fun r0 : flags => (TFile, r0)) cs)) with (map (fun r0 : flags => (TFile, r0)) cs).
      2:{ clear. induction cs; cbn; [reflexivity|]. now f_equal. }
      rewrite map_map. cbn [snd]. rewrite map_id. cbn [f_unions fold_right]. now rewrite f_union_assoc.
    + rewrite IH. cbn [f_unions fold_right]. destruct (after_pu cs); now rewrite f_union_assoc.
Qed.

Theorem late_discovery_forgets : forall n p0 cs,
  has_pu p0 = false ->
  let s := run n p0 (map (fun r => (TFile, r)) cs) in
  match after_pu cs with
  | None => h_disc s = false
  | Some l => h_disc s = true /\ h_units s = repeat (f_unions l) n
  end.
Proof.
  intros n p0 cs Hp. cbn zeta. unfold run, init. rewrite Hp. rewrite run_file_undiscovered.
  destruct (after_pu cs); cbn; auto.
Qed.

(** witness: "Call first, ProgramUnit second" vs "ProgramUnit first, Call second" *)
Theorem late_program_unit_refuted :
  h_units (run 1 32%N [(TFile, 1%N)]) = [1%N] /\ h_units (run 1 1%N [(TFile, 32%N)]) = [33%N].
Proof. split; vm_compute; reflexivity. Qed.

(** witness: a request addressed to a nested unit is undone when the enclosing unit is re-parsed later,
    although no request ever asks for less: the two orders of the same two requests end differently *)
Theorem nested_request_lost_refuted :
  exists rs rs', Permutation rs rs' /\
    h_units (run 2 1%N rs) = [5%N; 5%N] /\ h_units (run 2 1%N rs') = [5%N; 37%N].
Proof.
  exists [(TUnit 1, 32%N); (TUnit 0, 4%N)], [(TUnit 0, 4%N); (TUnit 1, 32%N)].
  split; [apply perm_swap|]. split; vm_compute; reflexivity.
Qed.

(** the hypotheses of the class theorems are satisfiable by a non-trivial history *)
Example c19_history_nonvacuous :
  has_pu 1%N = true /\ forallb top_level [(TFile, 32%N); (TUnit 0, 4%N); (TFile, 36%N); (TFile, 8%N)] = true /\
  h_units (run 3 1%N [(TFile, 32%N); (TUnit 0, 4%N); (TFile, 36%N); (TFile, 8%N)]) = [45%N; 45%N; 45%N].
Proof. repeat split; vm_compute; reflexivity. Qed.
