(** C37 — proofs, part 4: demotion [t(h)] -> [t] on column programs is a simulation (the storage of column [i] of
    [t] and the scalar [t] are isomorphic while [h = i]), and structural equality decides equality. *)
From Coq Require Import ZArith List Bool String Lia.
From LV Require Import Base.Expr Base.MiniF Base.MiniFFacts models.M_C37 proofs.P_C37_base.
Import ListNotations.
Open Scope Z_scope.

Lemma intrinsic_none f : mem f intrinsic_names = false -> forall vs, intrinsic f vs = None.
Proof.
  unfold mem, intrinsic_names. cbn [existsb]. intros H vs.
  repeat (apply orb_false_iff in H; destruct H as [? H]).
  unfold intrinsic.
  repeat match goal with E : String.eqb f _ = false |- _ => rewrite E; clear E end. reflexivity.
Qed.

Lemma is_hidx_inv h idx : is_hidx h idx = true -> idx = [EVar h].
Proof.
  destruct idx as [|e [|e2 r]]; cbn; try discriminate. intros E. apply is_var_inv in E. now subst.
Qed.

Section Demote.
Variable h : string.
Variable Dm : list string.
Variable ps : procs.
Variable i : Z.
Hypothesis Hh : mem h Dm = false.
Hypothesis Hintr : disjoint Dm intrinsic_names = true.

Lemma dm_not_intrinsic t : mem t Dm = true -> mem t intrinsic_names = false.
Proof.
  intros Ht. unfold disjoint in Hintr. rewrite forallb_forall in Hintr.
  apply mem_In in Ht. apply Hintr in Ht. now apply negb_true_iff in Ht.
Qed.

Record drel (c q : store) : Prop := {
  dr_h : sv c h = i;
  dr_sc : forall x, mem x Dm = false -> sv c x = sv q x;
  dr_dm : forall t, mem t Dm = true -> sv q t = av c t [i];
  dr_av : forall a idx, ~ (mem a Dm = true /\ idx = [i]) -> av c a idx = av q a idx }.

Lemma dem_e_eval c q : drel c q -> forall e, dclean_e h Dm e = true ->
  evalZ (env_st c) e = evalZ (env_st q) (dem_e h Dm e) /\ evalB (env_st c) e = evalB (env_st q) (dem_e h Dm e).
Proof.
  intros R. induction e using expr_ind'; intros Hc; cbn [dclean_e] in Hc; cbn [dem_e].
  - split; reflexivity.
  - split; reflexivity.
  - split; [|reflexivity]. cbn. f_equal. apply (dr_sc _ _ R). now apply negb_true_iff in Hc.
  - split; reflexivity.
  - assert (HF : Forall (fun c0 => evalZ (env_st c) c0 = evalZ (env_st q) (dem_e h Dm c0)) cs).
    { apply Forall_impl_forallb with (p := dclean_e h Dm); [|exact Hc]. eapply Forall_impl; [|exact H]. intros a Ha Ha'. now apply Ha. }
    split; [|reflexivity]. cbn [evalZ]. now apply fold_z_ext_map.
  - assert (HF : Forall (fun c0 => evalZ (env_st c) c0 = evalZ (env_st q) (dem_e h Dm c0)) cs).
    { apply Forall_impl_forallb with (p := dclean_e h Dm); [|exact Hc]. eapply Forall_impl; [|exact H]. intros a Ha Ha'. now apply Ha. }
    split; [|reflexivity]. cbn [evalZ]. now apply fold_z_ext_map.
  - apply andb_true_iff in Hc. destruct Hc as [H1 H2].
    destruct (IHe1 H1) as [E1 _], (IHe2 H2) as [E2 _]. split; [|reflexivity]. cbn [evalZ]. now rewrite E1, E2.
  - apply andb_true_iff in Hc. destruct Hc as [H1 H2].
    destruct (IHe1 H1) as [E1 _], (IHe2 H2) as [E2 _]. split; [|reflexivity]. cbn [evalZ]. now rewrite E1, E2.
  - apply andb_true_iff in Hc. destruct Hc as [H1 H2].
    destruct (IHe1 H1) as [E1 _], (IHe2 H2) as [E2 _]. split; [reflexivity|]. cbn [evalB]. now rewrite E1, E2.
  - assert (HF : Forall (fun c0 => evalB (env_st c) c0 = evalB (env_st q) (dem_e h Dm c0)) cs).
    { apply Forall_impl_forallb with (p := dclean_e h Dm); [|exact Hc]. eapply Forall_impl; [|exact H]. intros a Ha Ha'. now apply Ha. }
    split; [reflexivity|]. cbn [evalB]. now apply fold_b_ext_map.
  - assert (HF : Forall (fun c0 => evalB (env_st c) c0 = evalB (env_st q) (dem_e h Dm c0)) cs).
    { apply Forall_impl_forallb with (p := dclean_e h Dm); [|exact Hc]. eapply Forall_impl; [|exact H]. intros a Ha Ha'. now apply Ha. }
    split; [reflexivity|]. cbn [evalB]. now apply fold_b_ext_map.
  - destruct (IHe Hc) as [_ E]. split; [reflexivity|]. cbn [evalB]. now rewrite E.
  - destruct (mem f Dm) eqn:Hf.
    + rewrite Hc. cbn [andb]. apply is_hidx_inv in Hc. subst args. split; [|reflexivity].
      rewrite evalZ_call. cbn [eval_args obind evalZ env_st ev_var].
      rewrite (intrinsic_none f (dm_not_intrinsic f Hf)). cbn.
      rewrite (dr_h _ _ R). f_equal. symmetry. now apply (dr_dm _ _ R).
    + cbn [andb].
      assert (HF : Forall (fun c0 => evalZ (env_st c) c0 = evalZ (env_st q) (dem_e h Dm c0)) args).
      { apply Forall_impl_forallb with (p := dclean_e h Dm); [|exact Hc]. eapply Forall_impl; [|exact H]. intros a Ha Ha'. now apply Ha. }
      split; [|reflexivity]. rewrite !evalZ_call.
      rewrite (eval_args_ext_map _ (env_st q) (dem_e h Dm) _ HF).
      destruct (eval_args (env_st q) (map (dem_e h Dm) args)) as [vs|]; [|reflexivity]. cbn [obind].
      destruct (intrinsic f vs); [reflexivity|]. cbn. f_equal. apply (dr_av _ _ R). intros [A _]. congruence.
Qed.

Lemma dem_evalZ c q e : drel c q -> dclean_e h Dm e = true -> evalZ (env_st c) e = evalZ (env_st q) (dem_e h Dm e).
Proof. intros R Hc. now destruct (dem_e_eval c q R e Hc). Qed.

Lemma dem_evalB c q e : drel c q -> dclean_e h Dm e = true -> evalB (env_st c) e = evalB (env_st q) (dem_e h Dm e).
Proof. intros R Hc. now destruct (dem_e_eval c q R e Hc). Qed.

Lemma dem_oe_eval c q st : drel c q -> dclean_oe h Dm st = true ->
  match st with None => Some 1 | Some e => evalZ (env_st c) e end =
  match option_map (dem_e h Dm) st with None => Some 1 | Some e => evalZ (env_st q) e end.
Proof. destruct st; cbn; [apply dem_evalZ|reflexivity]. Qed.

Lemma dem_idx_eval c q idx : drel c q -> forallb (dclean_e h Dm) idx = true ->
  eval_idx c idx = eval_idx q (map (dem_e h Dm) idx).
Proof.
  intros R Hc. rewrite !eval_idx_args. apply eval_args_ext_map.
  rewrite forallb_forall in Hc. apply Forall_forall. intros e He. apply dem_evalZ; auto.
Qed.

Lemma drel_set c q x v : mem x Dm = false -> x <> h -> drel c q -> drel (set_sv x v c) (set_sv x v q).
Proof.
  intros Hx Hxh [A B C E]. split.
  - cbn. destruct (String.eqb h x) eqn:Eq; [apply String.eqb_eq in Eq; congruence|exact A].
  - intros y Hy. cbn. destruct (String.eqb y x); [reflexivity|now apply B].
  - intros t Ht. cbn. destruct (String.eqb t x) eqn:Eq; [apply String.eqb_eq in Eq; congruence|now apply C].
  - exact E.
Qed.

Lemma drel_store c q a iv v : mem a Dm = false -> drel c q -> drel (set_av a iv v c) (set_av a iv v q).
Proof.
  intros Ha [A B C E]. split.
  - exact A.
  - exact B.
  - intros t Ht. cbn. destruct (String.eqb t a) eqn:Eq; [apply String.eqb_eq in Eq; congruence|]. cbn. now apply C.
  - intros b idx Hn. cbn. destruct (String.eqb b a && list_z_eqb idx iv); [reflexivity|now apply E].
Qed.

Lemma drel_demoted_store c q t v : mem t Dm = true -> drel c q -> drel (set_av t [i] v c) (set_sv t v q).
Proof.
  intros Ht [A B C E]. split.
  - exact A.
  - intros y Hy. cbn. destruct (String.eqb y t) eqn:Eq; [apply String.eqb_eq in Eq; congruence|now apply B].
  - intros u Hu. cbn. destruct (String.eqb u t) eqn:Eq.
    + cbn. now rewrite Z.eqb_refl.
    + cbn. now apply C.
  - intros b idx Hn. cbn. destruct (String.eqb b t) eqn:Eq.
    + apply String.eqb_eq in Eq. subst b. cbn. destruct (list_z_eqb idx [i]) eqn:El.
      * apply list_z_eqb_eq in El. subst. exfalso. apply Hn. now split.
      * now apply E.
    + cbn. now apply E.
Qed.

Definition dem_sim_s (s : stmt) : Prop :=
  forall c q c1, dclean_s h Dm false s = true -> drel c q -> runs1 ps s c c1 ->
  exists q1, runs1 ps (dem_s h Dm s) q q1 /\ drel c1 q1.

Definition dem_sim_l (l : list stmt) : Prop :=
  forall c q c1, dclean h Dm false l = true -> drel c q -> runs ps l c c1 ->
  exists q1, runs ps (demote h Dm l) q q1 /\ drel c1 q1.

Lemma dem_sim_list l : Forall dem_sim_s l -> dem_sim_l l.
Proof.
  induction 1 as [|s r Hs _ IH]; intros c q c1 E R Hr.
  - apply runs_nil_inv in Hr. subst. exists q. split; [apply runs_nil|exact R].
  - unfold dclean in E. cbn in E. apply andb_true_iff in E. destruct E as [E1 E2].
    apply runs_cons_inv in Hr. destruct Hr as [c0 [R1 R2]].
    destruct (Hs c q c0 E1 R R1) as [q0 [Q1 D1]].
    destruct (IH c0 q0 c1 E2 D1 R2) as [q1 [Q2 D2]].
    exists q1. split; [|exact D2]. unfold demote. cbn [map]. eapply runs_cons; eassumption.
Qed.

Lemma dem_sim_loop v d body :
  mem v Dm = false -> v <> h -> dem_sim_l body -> dclean h Dm false body = true ->
  forall n a0 c q c1, drel c q -> loop_runs ps body v d n a0 c c1 ->
  exists q1, loop_runs ps (demote h Dm body) v d n a0 q q1 /\ drel c1 q1.
Proof.
  intros Hv Hvh Hb Hcl. induction n as [|n IHn]; intros a0 c q c1 R Hl; inversion Hl; subst.
  - exists (set_sv v a0 q). split; [constructor|now apply drel_set].
  - match goal with H1 : runs _ _ _ _, H2 : loop_runs _ _ _ _ _ _ _ _ |- _ => rename H1 into R1; rename H2 into R2 end.
    destruct (Hb _ (set_sv v a0 q) _ Hcl (drel_set c q v a0 Hv Hvh R) R1) as [q0 [Q1 D1]].
    destruct (IHn (a0 + d) s1 q0 c1 D1 R2) as [q1 [Q2 D2]].
    exists q1. split; [econstructor; eassumption|exact D2].
Qed.

Lemma neqb_neq' x y : negb (String.eqb x y) = true -> x <> y.
Proof. intros H E. subst. rewrite String.eqb_refl in H. discriminate. Qed.

Lemma dem_sim_all : forall s, dem_sim_s s.
Proof.
  induction s using stmt_ind'; intros c0 q c1 E R Hr.
  - cbn in E. apply andb_true_iff in E. destruct E as [E E3]. apply andb_true_iff in E. destruct E as [E1 E2].
    apply negb_true_iff in E1. apply neqb_neq' in E2.
    apply runs1_assign_inv in Hr. destruct Hr as [v [Ev ->]].
    exists (set_sv x v q). split; [|now apply drel_set].
    cbn [dem_s]. apply runs1_assign. rewrite <- (dem_evalZ c0 q e R E3). exact Ev.
  - cbn [dclean_s] in E. apply andb_true_iff in E. destruct E as [E1 E2].
    destruct Hr as [f Ef]. cbn in Ef.
    apply obind_some in Ef. destruct Ef as [iv [Eiv Ef]].
    apply obind_some in Ef. destruct Ef as [v [Ev Ef]]. inversion Ef. subst c1.
    cbn [dem_s]. destruct (mem a Dm) eqn:Ha.
    + rewrite E1. cbn [andb]. apply is_hidx_inv in E1. subst i0.
      cbn in Eiv. inversion Eiv. subst iv. rewrite (dr_h _ _ R).
      exists (set_sv a v q). split; [|now apply drel_demoted_store].
      apply runs1_assign. rewrite <- (dem_evalZ c0 q e R E2). exact Ev.
    + cbn [andb]. exists (set_av a iv v q). split; [|now apply drel_store].
      exists 0%nat. cbn. rewrite <- (dem_idx_eval c0 q i0 R E1), Eiv. cbn.
      rewrite <- (dem_evalZ c0 q e R E2), Ev. reflexivity.
  - cbn [dclean_s] in E. apply andb_true_iff in E. destruct E as [E E6]. apply andb_true_iff in E. destruct E as [E E5].
    apply andb_true_iff in E. destruct E as [E E4]. apply andb_true_iff in E. destruct E as [E E3].
    apply andb_true_iff in E. destruct E as [E1 E2]. apply negb_true_iff in E1. apply neqb_neq' in E2.
    apply runs1_do in Hr. destruct Hr as [a0 [b0 [d [Ea [Eb0 [Ed [Hd Hl]]]]]]].
    destruct (dem_sim_loop v d b E1 E2 (dem_sim_list b H) E6 _ a0 c0 q c1 R Hl) as [q1 [Q1 D1]].
    exists q1. split; [|exact D1]. cbn [dem_s]. apply runs1_do. exists a0, b0, d. repeat split; auto.
    + rewrite <- (dem_evalZ c0 q lo R E3). exact Ea.
    + rewrite <- (dem_evalZ c0 q hi R E4). exact Eb0.
    + rewrite <- (dem_oe_eval c0 q st R E5). exact Ed.
  - cbn in E. discriminate.
  - cbn [dclean_s] in E. apply andb_true_iff in E. destruct E as [E E3]. apply andb_true_iff in E. destruct E as [E1 E2].
    destruct Hr as [f Ef]. cbn in Ef. apply obind_some in Ef. destruct Ef as [bv [Ebv Ef]].
    assert (Ebq : evalB (env_st q) (dem_e h Dm c) = Some bv) by (rewrite <- (dem_evalB c0 q c R E1); exact Ebv).
    destruct bv.
    + destruct (dem_sim_list t H c0 q c1 E2 R (ex_intro _ f Ef)) as [q1 [Q1 D1]].
      exists q1. split; [|exact D1]. cbn [dem_s]. apply (runs1_if ps _ _ _ _ _ true Ebq). exact Q1.
    + destruct (dem_sim_list e H0 c0 q c1 E3 R (ex_intro _ f Ef)) as [q1 [Q1 D1]].
      exists q1. split; [|exact D1]. cbn [dem_s]. apply (runs1_if ps _ _ _ _ _ false Ebq). exact Q1.
  - cbn in E. discriminate.
  - destruct Hr as [f Ef]. cbn in Ef. inversion Ef. subst c1. exists q. split; [apply runs1_skip|exact R].
Qed.

Theorem dem_sim l : dem_sim_l l.
Proof. apply dem_sim_list. apply Forall_forall. intros s _. apply dem_sim_all. Qed.

(** the start store of the demoted column program: scalar [t] := cell [t(i)] *)
Fixpoint dinit (l : list string) (c : store) : store :=
  match l with
  | [] => c
  | t :: r => set_sv t (av c t [i]) (dinit r c)
  end.

Lemma dinit_av l c : av (dinit l c) = av c.
Proof. induction l as [|t r IH]; [reflexivity|]. cbn. exact IH. Qed.

Lemma dinit_sv l c x : sv (dinit l c) x = if mem x l then av c x [i] else sv c x.
Proof.
  induction l as [|t r IH]; [reflexivity|]. cbn [dinit sv set_sv]. rewrite mem_cons.
  destruct (String.eqb x t) eqn:E; cbn [orb]; [|exact IH]. apply String.eqb_eq in E. now subst.
Qed.

Lemma drel_dinit c : sv c h = i -> drel c (dinit Dm c).
Proof.
  intros Hc. split.
  - exact Hc.
  - intros x Hx. now rewrite dinit_sv, Hx.
  - intros t Ht. now rewrite dinit_sv, Ht.
  - intros a idx _. now rewrite dinit_av.
Qed.

End Demote.

(** * structural equality decides equality *)
Lemma list_expr_eqb_eq cs :
  Forall (fun x => forall y, expr_eqb x y = true -> x = y) cs ->
  forall ds, list_expr_eqb cs ds = true -> cs = ds.
Proof.
  induction 1 as [|x r Hx Hr IH]; intros [|y q]; cbn; try discriminate; [reflexivity|].
  intros H. apply andb_true_iff in H. destruct H as [A B]. f_equal; [now apply Hx|now apply IH].
Qed.

Lemma bool_eqb_eq a b : Bool.eqb a b = true -> a = b.
Proof. destruct a, b; cbn; congruence. Qed.

Lemma expr_eqb_eq : forall a b, expr_eqb a b = true -> a = b.
Proof.
  induction a using expr_ind'; intros y; destruct y; try (cbn; discriminate).
  - cbn. intros E. apply Z.eqb_eq in E. now subst.
  - cbn. intros E. apply Z.eqb_eq in E. now subst.
  - cbn. intros E. apply String.eqb_eq in E. now subst.
  - cbn. intros E. apply bool_eqb_eq in E. now subst.
  - intros E. change (Bool.eqb p paren && list_expr_eqb cs cs0 = true) in E.
    apply andb_true_iff in E. destruct E as [A B]. apply bool_eqb_eq in A.
    apply (list_expr_eqb_eq cs H) in B. now subst.
  - intros E. change (Bool.eqb p paren && list_expr_eqb cs cs0 = true) in E.
    apply andb_true_iff in E. destruct E as [A B]. apply bool_eqb_eq in A.
    apply (list_expr_eqb_eq cs H) in B. now subst.
  - cbn. intros E. apply andb_true_iff in E. destruct E as [E C]. apply andb_true_iff in E. destruct E as [A B].
    apply bool_eqb_eq in A. apply IHa1 in B. apply IHa2 in C. now subst.
  - cbn. intros E. apply andb_true_iff in E. destruct E as [E C]. apply andb_true_iff in E. destruct E as [A B].
    apply bool_eqb_eq in A. apply IHa1 in B. apply IHa2 in C. now subst.
  - cbn. intros E. apply andb_true_iff in E. destruct E as [E C]. apply andb_true_iff in E. destruct E as [A B].
    apply IHa1 in B. apply IHa2 in C. subst. destruct op, op0; try discriminate; reflexivity.
  - intros E. change (list_expr_eqb cs cs0 = true) in E. apply (list_expr_eqb_eq cs H) in E. now subst.
  - intros E. change (list_expr_eqb cs cs0 = true) in E. apply (list_expr_eqb_eq cs H) in E. now subst.
  - cbn. intros E. apply IHa in E. now subst.
  - intros E. change (String.eqb f f0 && list_expr_eqb args args0 = true) in E.
    apply andb_true_iff in E. destruct E as [A B]. apply String.eqb_eq in A.
    apply (list_expr_eqb_eq args H) in B. now subst.
Qed.

Lemma list_expr_eqb_eq' cs ds : list_expr_eqb cs ds = true -> cs = ds.
Proof. apply list_expr_eqb_eq. apply Forall_forall. intros x _. apply expr_eqb_eq. Qed.

Lemma oexpr_eqb_eq a b : oexpr_eqb a b = true -> a = b.
Proof. destruct a, b; cbn; try discriminate; [|reflexivity]. intros E. apply expr_eqb_eq in E. now subst. Qed.

Lemma stmts_eqb_eq_aux cs :
  Forall (fun x => forall y, stmt_eqb x y = true -> x = y) cs ->
  forall ds, stmts_eqb cs ds = true -> cs = ds.
Proof.
  induction 1 as [|x r Hx Hr IH]; intros [|y q]; cbn; try discriminate; [reflexivity|].
  intros H. apply andb_true_iff in H. destruct H as [A B]. f_equal; [now apply Hx|now apply IH].
Qed.

Lemma stmt_eqb_eq : forall a b, stmt_eqb a b = true -> a = b.
Proof.
  induction a using stmt_ind'; intros y; destruct y; try (cbn; discriminate).
  - cbn. intros E. apply andb_true_iff in E. destruct E as [A B].
    apply String.eqb_eq in A. apply expr_eqb_eq in B. now subst.
  - cbn. intros E. apply andb_true_iff in E. destruct E as [E C]. apply andb_true_iff in E. destruct E as [A B].
    apply String.eqb_eq in A. apply list_expr_eqb_eq' in B. apply expr_eqb_eq in C. now subst.
  - intros E.
    change (String.eqb v v0 && expr_eqb lo lo0 && expr_eqb hi hi0 && oexpr_eqb st st0 && stmts_eqb b body = true) in E.
    apply andb_true_iff in E. destruct E as [E E5]. apply andb_true_iff in E. destruct E as [E E4].
    apply andb_true_iff in E. destruct E as [E E3]. apply andb_true_iff in E. destruct E as [E1 E2].
    apply String.eqb_eq in E1. apply expr_eqb_eq in E2. apply expr_eqb_eq in E3. apply oexpr_eqb_eq in E4.
    apply (stmts_eqb_eq_aux b H) in E5. now subst.
  - intros E. change (expr_eqb c c0 && stmts_eqb b body = true) in E.
    apply andb_true_iff in E. destruct E as [E1 E2]. apply expr_eqb_eq in E1. apply (stmts_eqb_eq_aux b H) in E2. now subst.
  - intros E. change (expr_eqb c c0 && stmts_eqb t tb && stmts_eqb e eb = true) in E.
    apply andb_true_iff in E. destruct E as [E E3]. apply andb_true_iff in E. destruct E as [E1 E2].
    apply expr_eqb_eq in E1. apply (stmts_eqb_eq_aux t H) in E2. apply (stmts_eqb_eq_aux e H0) in E3. now subst.
  - cbn. intros E. apply andb_true_iff in E. destruct E as [A B].
    apply String.eqb_eq in A. apply list_expr_eqb_eq' in B. now subst.
  - cbn. intros E. apply String.eqb_eq in E. now subst.
Qed.

Lemma stmts_eqb_eq p q : stmts_eqb p q = true -> p = q.
Proof. apply stmts_eqb_eq_aux. apply Forall_forall. intros x _. apply stmt_eqb_eq. Qed.
