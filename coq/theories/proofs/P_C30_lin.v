(** C30 — soundness of the comparison modulo linear normal forms ([expr_eqm], [stmts_eqm]) used by the
    correspondence check: programs identified by [stmts_eqm] have literally the same executions. *)
From Coq Require Import ZArith List Bool String Lia.
From LV Require Import Base.Expr Base.MiniF Base.MiniFFacts models.M_C30.
Import ListNotations.
Open Scope Z_scope.

Definition lsum (rho : env) (l : list (string * Z)) : Z :=
  fold_right (fun t acc => snd t * ev_var rho (fst t) + acc) 0 l.

Lemma leval_unfold rho a : leval rho a = fst a + lsum rho (snd a).
Proof. reflexivity. Qed.

Lemma lsum_add_term rho x c l : lsum rho (ladd_term x c l) = c * ev_var rho x + lsum rho l.
Proof.
  induction l as [|[y d] r IH]; cbn [ladd_term lsum fold_right fst snd].
  - lia.
  - destruct (String.eqb x y) eqn:E.
    + apply String.eqb_eq in E. subst. cbn [lsum fold_right fst snd]. lia.
    + cbn [lsum fold_right fst snd]. fold (lsum rho (ladd_term x c r)). rewrite IH. fold (lsum rho r). lia.
Qed.

Lemma leval_ladd rho a b : leval rho (ladd a b) = leval rho a + leval rho b.
Proof.
  destruct a as [ca la], b as [cb lb]. unfold ladd. rewrite !leval_unfold. cbn [fst snd].
  assert (H : lsum rho (fold_right (fun t acc => ladd_term (fst t) (snd t) acc) lb la) = lsum rho la + lsum rho lb).
  { induction la as [|[x c] r IH]; cbn [fold_right fst snd].
    - cbn. lia.
    - rewrite lsum_add_term, IH. cbn [lsum fold_right fst snd]. fold (lsum rho r). lia. }
  rewrite H. lia.
Qed.

Lemma leval_lscale rho k a : leval rho (lscale k a) = k * leval rho a.
Proof.
  destruct a as [c l]. unfold lscale. rewrite !leval_unfold. cbn [fst snd].
  assert (H : lsum rho (map (fun t => (fst t, k * snd t)) l) = k * lsum rho l).
  { induction l as [|[x d] r IH]; cbn [map lsum fold_right fst snd]; [lia|].
    fold (lsum rho (map (fun t => (fst t, k * snd t)) r)). rewrite IH. fold (lsum rho r). lia. }
  rewrite H. lia.
Qed.

Lemma lis_const_leval rho a : lis_const a = true -> leval rho a = fst a.
Proof.
  destruct a as [c l]. unfold lis_const. rewrite leval_unfold. cbn [fst snd]. intros H.
  assert (E : lsum rho l = 0).
  { induction l as [|[x d] r IH]; cbn [lsum fold_right fst snd]; [reflexivity|].
    cbn [forallb snd] in H. apply andb_prop in H. destruct H as [H1 H2]. apply Z.eqb_eq in H1. subst.
    fold (lsum rho r). rewrite (IH H2). lia. }
  rewrite E. lia.
Qed.

Lemma lmul_sound rho a b c : lmul a b = Some c -> leval rho c = leval rho a * leval rho b.
Proof.
  unfold lmul. destruct (lis_const a) eqn:Ea.
  - intros E. inversion E. subst. rewrite leval_lscale, (lis_const_leval rho a Ea). reflexivity.
  - destruct (lis_const b) eqn:Eb; [|discriminate].
    intros E. inversion E. subst. rewrite leval_lscale, (lis_const_leval rho b Eb). lia.
Qed.

Lemma lin_sound rho e : forall a, lin e = Some a -> evalZ rho e = Some (leval rho a).
Proof.
  induction e using expr_ind'; intros a0 E; cbn [lin] in E; try discriminate.
  - inversion E. cbn [evalZ]. f_equal. unfold leval. cbn [fst snd fold_right]. lia.
  - inversion E. cbn [evalZ]. f_equal. unfold leval. cbn [fst snd fold_right]. lia.
  - inversion E. cbn [evalZ]. f_equal. unfold leval. cbn [fst snd fold_right]. lia.
  - (* sum *)
    revert a0 E. induction H as [|c cs Hc Hcs IH]; intros a0 E; cbn [fold_right] in E.
    + inversion E. reflexivity.
    + apply obind_some in E. destruct E as [a [Ea E]].
      apply obind_some in E. destruct E as [b [Eb E]]. inversion E. subst.
      cbn [evalZ fold_right]. rewrite (Hc _ Ea). cbn [obind].
      specialize (IH _ Eb). cbn [evalZ] in IH. rewrite IH. cbn [obind]. now rewrite leval_ladd.
  - (* product *)
    revert a0 E. induction H as [|c cs Hc Hcs IH]; intros a0 E; cbn [fold_right] in E.
    + inversion E. reflexivity.
    + apply obind_some in E. destruct E as [a [Ea E]].
      apply obind_some in E. destruct E as [b [Eb E]].
      cbn [evalZ fold_right]. rewrite (Hc _ Ea). cbn [obind].
      specialize (IH _ Eb). cbn [evalZ] in IH. rewrite IH. cbn [obind]. now rewrite (lmul_sound rho _ _ _ E).
Qed.

Lemma lin_evalB rho e a : lin e = Some a -> evalB rho e = None.
Proof. destruct e; cbn; intros; try discriminate; reflexivity. Qed.

Lemma lin_eqb_sound e1 e2 : lin_eqb e1 e2 = true ->
  forall rho, evalZ rho e1 = evalZ rho e2 /\ evalB rho e1 = evalB rho e2.
Proof.
  unfold lin_eqb. destruct (lin e1) as [a|] eqn:E1; [|discriminate]. destruct (lin e2) as [b|] eqn:E2; [|discriminate].
  intros H rho. split.
  - rewrite (lin_sound rho _ _ E1), (lin_sound rho _ _ E2). f_equal.
    unfold lzero in H. apply andb_prop in H. destruct H as [H1 H2].
    pose proof (lis_const_leval rho _ H2) as K. rewrite leval_ladd, leval_lscale in K.
    apply Z.eqb_eq in H1. lia.
  - now rewrite (lin_evalB rho _ _ E1), (lin_evalB rho _ _ E2).
Qed.

(** list version of the structural comparison used inside [expr_eqm] *)
Fixpoint leqm (l1 l2 : list expr) : bool :=
  match l1, l2 with
  | [], [] => true
  | x :: r1, y :: r2 => expr_eqm x y && leqm r1 r2
  | _, _ => false
  end.

Definition eq_sem (a b : expr) : Prop := forall rho, evalZ rho a = evalZ rho b /\ evalB rho a = evalB rho b.

Lemma leqm_forall2 cs : Forall (fun a => forall b, expr_eqm a b = true -> eq_sem a b) cs ->
  forall ds, leqm cs ds = true -> Forall2 eq_sem cs ds.
Proof.
  induction 1 as [|c cs Hc Hcs IH]; intros ds E; destruct ds as [|d ds]; cbn in E; try discriminate.
  - constructor.
  - apply andb_prop in E. destruct E as [E1 E2]. constructor; [now apply Hc|now apply IH].
Qed.

Lemma forall2_sum rho cs ds : Forall2 eq_sem cs ds ->
  fold_right (fun c acc => obind (evalZ rho c) (fun v => obind acc (fun a => Some (v + a)))) (Some 0) cs =
  fold_right (fun c acc => obind (evalZ rho c) (fun v => obind acc (fun a => Some (v + a)))) (Some 0) ds.
Proof. induction 1 as [|c d cs ds H _ IH]; cbn [fold_right]; [reflexivity|]. rewrite (proj1 (H rho)), IH. reflexivity. Qed.

Lemma forall2_prod rho cs ds : Forall2 eq_sem cs ds ->
  fold_right (fun c acc => obind (evalZ rho c) (fun v => obind acc (fun a => Some (v * a)))) (Some 1) cs =
  fold_right (fun c acc => obind (evalZ rho c) (fun v => obind acc (fun a => Some (v * a)))) (Some 1) ds.
Proof. induction 1 as [|c d cs ds H _ IH]; cbn [fold_right]; [reflexivity|]. rewrite (proj1 (H rho)), IH. reflexivity. Qed.

Lemma forall2_and rho cs ds : Forall2 eq_sem cs ds ->
  fold_right (fun c acc => obind (evalB rho c) (fun v => obind acc (fun a => Some (v && a)))) (Some true) cs =
  fold_right (fun c acc => obind (evalB rho c) (fun v => obind acc (fun a => Some (v && a)))) (Some true) ds.
Proof. induction 1 as [|c d cs ds H _ IH]; cbn [fold_right]; [reflexivity|]. rewrite (proj2 (H rho)), IH. reflexivity. Qed.

Lemma forall2_or rho cs ds : Forall2 eq_sem cs ds ->
  fold_right (fun c acc => obind (evalB rho c) (fun v => obind acc (fun a => Some (v || a)))) (Some false) cs =
  fold_right (fun c acc => obind (evalB rho c) (fun v => obind acc (fun a => Some (v || a)))) (Some false) ds.
Proof. induction 1 as [|c d cs ds H _ IH]; cbn [fold_right]; [reflexivity|]. rewrite (proj2 (H rho)), IH. reflexivity. Qed.

Lemma forall2_args rho cs ds : Forall2 eq_sem cs ds ->
  (fix go (l : list expr) : option (list Z) :=
     match l with [] => Some [] | a :: r => obind (evalZ rho a) (fun v => obind (go r) (fun vs => Some (v :: vs))) end) cs =
  (fix go (l : list expr) : option (list Z) :=
     match l with [] => Some [] | a :: r => obind (evalZ rho a) (fun v => obind (go r) (fun vs => Some (v :: vs))) end) ds.
Proof. induction 1 as [|c d cs ds H _ IH]; [reflexivity|]. rewrite (proj1 (H rho)), IH. reflexivity. Qed.

Lemma expr_eqm_unfold a b :
  expr_eqm a b = lin_eqb a b ||
  match a, b with
  | EInt x, EInt y => x =? y
  | EPy x, EPy y => x =? y
  | EVar x, EVar y => String.eqb x y
  | ELog x, ELog y => Bool.eqb x y
  | ESum _ cs, ESum _ ds => leqm cs ds
  | EProd _ cs, EProd _ ds => leqm cs ds
  | EQuot _ n d, EQuot _ n' d' => expr_eqm n n' && expr_eqm d d'
  | EPow _ n d, EPow _ n' d' => expr_eqm n n' && expr_eqm d d'
  | ECmp o l r, ECmp o' l' r' => cmpop_eqb o o' && expr_eqm l l' && expr_eqm r r'
  | EAnd cs, EAnd ds => leqm cs ds
  | EOr cs, EOr ds => leqm cs ds
  | ENot x, ENot y => expr_eqm x y
  | ECall f cs, ECall g ds => String.eqb f g && leqm cs ds
  | _, _ => false
  end.
Proof. destruct a; reflexivity. Qed.

Lemma cmpop_eqb_eq o o' : cmpop_eqb o o' = true -> o = o'.
Proof. destruct o, o'; cbn; congruence. Qed.

Theorem expr_eqm_sound a : forall b, expr_eqm a b = true -> eq_sem a b.
Proof.
  induction a using expr_ind'; intros bb E; rewrite expr_eqm_unfold in E;
    apply orb_prop in E; destruct E as [E|E]; try (exact (lin_eqb_sound _ _ E));
    destruct bb; try discriminate.
  - apply Z.eqb_eq in E. subst. intros rho; split; reflexivity.
  - apply Z.eqb_eq in E. subst. intros rho; split; reflexivity.
  - apply String.eqb_eq in E. subst. intros rho; split; reflexivity.
  - apply Bool.eqb_prop in E. subst. intros rho; split; reflexivity.
  - pose proof (leqm_forall2 _ H _ E) as F. intros rho. split; [|reflexivity]. cbn [evalZ]. now apply forall2_sum.
  - pose proof (leqm_forall2 _ H _ E) as F. intros rho. split; [|reflexivity]. cbn [evalZ]. now apply forall2_prod.
  - apply andb_prop in E. destruct E as [E1 E2]. intros rho. split; [|reflexivity]. cbn [evalZ].
    now rewrite (proj1 (IHa1 _ E1 rho)), (proj1 (IHa2 _ E2 rho)).
  - apply andb_prop in E. destruct E as [E1 E2]. intros rho. split; [|reflexivity]. cbn [evalZ].
    now rewrite (proj1 (IHa1 _ E1 rho)), (proj1 (IHa2 _ E2 rho)).
  - apply andb_prop in E. destruct E as [E E2]. apply andb_prop in E. destruct E as [E0 E1].
    apply cmpop_eqb_eq in E0. subst. intros rho. split; [reflexivity|]. cbn [evalB].
    now rewrite (proj1 (IHa1 _ E1 rho)), (proj1 (IHa2 _ E2 rho)).
  - pose proof (leqm_forall2 _ H _ E) as F. intros rho. split; [reflexivity|]. cbn [evalB]. now apply forall2_and.
  - pose proof (leqm_forall2 _ H _ E) as F. intros rho. split; [reflexivity|]. cbn [evalB]. now apply forall2_or.
  - intros rho. split; [reflexivity|]. cbn [evalB]. now rewrite (proj2 (IHa _ E rho)).
  - apply andb_prop in E. destruct E as [E1 E2]. apply String.eqb_eq in E1. subst.
    pose proof (leqm_forall2 _ H _ E2) as F. intros rho. split; [|reflexivity]. cbn [evalZ].
    now rewrite (forall2_args rho _ _ F).
Qed.

Lemma list_expr_eqm_sound rho : forall i j, list_expr_eqm i j = true ->
  omap_list (evalZ rho) i = omap_list (evalZ rho) j.
Proof.
  induction i as [|x i IH]; intros [|y j] E; cbn in E; try discriminate; [reflexivity|].
  apply andb_prop in E. destruct E as [E1 E2]. cbn [omap_list].
  now rewrite (proj1 (expr_eqm_sound _ _ E1 rho)), (IH _ E2).
Qed.

Lemma expr_eqb_eq : forall a b, expr_eqb a b = true -> a = b.
Proof.
  induction a using expr_ind'; intros bb E; destruct bb; cbn in E; try discriminate.
  - apply Z.eqb_eq in E. now subst.
  - apply Z.eqb_eq in E. now subst.
  - apply String.eqb_eq in E. now subst.
  - apply Bool.eqb_prop in E. now subst.
  - apply andb_prop in E. destruct E as [E1 E2]. apply Bool.eqb_prop in E1. subst. f_equal.
    revert cs0 E2. induction H as [|c cs Hc _ IH]; intros [|d ds] E; try discriminate; [reflexivity|].
    apply andb_prop in E. destruct E as [Ea Eb]. f_equal; [now apply Hc|now apply IH].
  - apply andb_prop in E. destruct E as [E1 E2]. apply Bool.eqb_prop in E1. subst. f_equal.
    revert cs0 E2. induction H as [|c cs Hc _ IH]; intros [|d ds] E; try discriminate; [reflexivity|].
    apply andb_prop in E. destruct E as [Ea Eb]. f_equal; [now apply Hc|now apply IH].
  - apply andb_prop in E. destruct E as [E E2]. apply andb_prop in E. destruct E as [E0 E1].
    apply Bool.eqb_prop in E0. subst. f_equal; [now apply IHa1|now apply IHa2].
  - apply andb_prop in E. destruct E as [E E2]. apply andb_prop in E. destruct E as [E0 E1].
    apply Bool.eqb_prop in E0. subst. f_equal; [now apply IHa1|now apply IHa2].
  - apply andb_prop in E. destruct E as [E E2]. apply andb_prop in E. destruct E as [E0 E1].
    f_equal; [destruct op, op0; cbn in E0; congruence|now apply IHa1|now apply IHa2].
  - f_equal. revert cs0 E. induction H as [|c cs Hc _ IH]; intros [|d ds] E; try discriminate; [reflexivity|].
    apply andb_prop in E. destruct E as [Ea Eb]. f_equal; [now apply Hc|now apply IH].
  - f_equal. revert cs0 E. induction H as [|c cs Hc _ IH]; intros [|d ds] E; try discriminate; [reflexivity|].
    apply andb_prop in E. destruct E as [Ea Eb]. f_equal; [now apply Hc|now apply IH].
  - f_equal. now apply IHa.
  - apply andb_prop in E. destruct E as [E1 E2]. apply String.eqb_eq in E1. subst. f_equal.
    revert args0 E2. induction H as [|c cs Hc _ IH]; intros [|d ds] E; try discriminate; [reflexivity|].
    apply andb_prop in E. destruct E as [Ea Eb]. f_equal; [now apply Hc|now apply IH].
Qed.

Lemma oexpr_eqb_eq a b : oexpr_eqb a b = true -> a = b.
Proof. destruct a, b; cbn; intros E; try discriminate; [f_equal; now apply expr_eqb_eq|reflexivity]. Qed.

Lemma list_expr_eqb_eq : forall i j, list_expr_eqb i j = true -> i = j.
Proof.
  induction i as [|x i IH]; intros [|y j] E; cbn in E; try discriminate; [reflexivity|].
  apply andb_prop in E. destruct E as [E1 E2]. f_equal; [now apply expr_eqb_eq|now apply IH].
Qed.

(** statements *)
Fixpoint sleqm (l1 l2 : list stmt) : bool :=
  match l1, l2 with
  | [], [] => true
  | x :: r1, y :: r2 => stmt_eqm x y && sleqm r1 r2
  | _, _ => false
  end.

Lemma sleqm_eq l1 l2 : sleqm l1 l2 = stmts_eqm l1 l2.
Proof. reflexivity. Qed.

Lemma stmt_eqm_unfold a b :
  stmt_eqm a b =
  match a, b with
  | SAssign x e, SAssign y e' => String.eqb x y && expr_eqm e e'
  | SStore x i e, SStore y j e' => String.eqb x y && list_expr_eqm i j && expr_eqm e e'
  | SDo v lo hi st b1, SDo w lo' hi' st' b2 =>
      String.eqb v w && expr_eqm lo lo' && expr_eqm hi hi' && oexpr_eqm st st' && stmts_eqm b1 b2
  | SWhile c b1, SWhile c' b2 => expr_eqm c c' && stmts_eqm b1 b2
  | SIf c t e, SIf c' t' e' => expr_eqm c c' && stmts_eqm t t' && stmts_eqm e e'
  | SCall f x, SCall g y => String.eqb f g && list_expr_eqb x y
  | SSkip l, SSkip m => String.eqb l m
  | _, _ => false
  end.
Proof.
  destruct a, b; reflexivity.
Qed.

Lemma do_loop_ext (r1 r2 : store -> option store) v d n :
  (forall s, r1 s = r2 s) -> forall i s, do_loop r1 v d n i s = do_loop r2 v d n i s.
Proof.
  intros H. induction n as [|n IH]; intros i s; cbn; [reflexivity|].
  rewrite H. destruct (r2 (set_sv v i s)); cbn; [apply IH|reflexivity].
Qed.

Lemma exec_eqm ps : forall f p q, stmts_eqm p q = true -> forall s, exec ps f p s = exec ps f q s.
Proof.
  induction f as [|f IH]; intros p q E s; [reflexivity|].
  destruct p as [|a p], q as [|b q]; cbn [stmts_eqm] in E; try discriminate; [reflexivity|].
  apply andb_prop in E. destruct E as [Ea Ep].
  rewrite !exec_unfold.
  assert (H1 : exec1 ps f a s = exec1 ps f b s).
  { rewrite stmt_eqm_unfold in Ea. destruct a, b; try discriminate.
    - apply andb_prop in Ea. destruct Ea as [E1 E2]. apply String.eqb_eq in E1. subst.
      cbn [exec1]. now rewrite (proj1 (expr_eqm_sound _ _ E2 (env_st s))).
    - apply andb_prop in Ea. destruct Ea as [E E3]. apply andb_prop in E. destruct E as [E1 E2].
      apply String.eqb_eq in E1. subst. cbn [exec1]. unfold eval_idx.
      now rewrite (list_expr_eqm_sound (env_st s) _ _ E2), (proj1 (expr_eqm_sound _ _ E3 (env_st s))).
    - apply andb_prop in Ea. destruct Ea as [E E5]. apply andb_prop in E. destruct E as [E E4].
      apply andb_prop in E. destruct E as [E E3]. apply andb_prop in E. destruct E as [E1 E2].
      apply String.eqb_eq in E1. subst. cbn [exec1].
      rewrite (proj1 (expr_eqm_sound _ _ E2 (env_st s))), (proj1 (expr_eqm_sound _ _ E3 (env_st s))).
      assert (Hst : match st with None => Some 1 | Some e => evalZ (env_st s) e end =
                    match st0 with None => Some 1 | Some e => evalZ (env_st s) e end).
      { destruct st, st0; cbn in E4; try discriminate; [|reflexivity]. apply (proj1 (expr_eqm_sound _ _ E4 (env_st s))). }
      rewrite Hst.
      destruct (evalZ (env_st s) lo0); cbn [obind]; [|reflexivity].
      destruct (evalZ (env_st s) hi0); cbn [obind]; [|reflexivity].
      destruct (match st0 with None => Some 1 | Some e => evalZ (env_st s) e end); cbn [obind]; [|reflexivity].
      destruct (z1 =? 0); [reflexivity|]. apply do_loop_ext. intros s0. now apply IH.
    - apply andb_prop in Ea. destruct Ea as [E1 E2]. cbn [exec1].
      rewrite (proj2 (expr_eqm_sound _ _ E1 (env_st s))).
      destruct (evalB (env_st s) c0) as [[|]|]; cbn [obind]; try reflexivity.
      rewrite (IH _ _ E2 s). destruct (exec ps f body0 s); cbn [obind]; [|reflexivity].
      apply IH. cbn [stmts_eqm]. rewrite stmt_eqm_unfold, E1, E2. reflexivity.
    - apply andb_prop in Ea. destruct Ea as [E E3]. apply andb_prop in E. destruct E as [E1 E2]. cbn [exec1].
      rewrite (proj2 (expr_eqm_sound _ _ E1 (env_st s))).
      destruct (evalB (env_st s) c0) as [[|]|]; cbn [obind]; try reflexivity; now apply IH.
    - apply andb_prop in Ea. destruct Ea as [E1 E2]. apply String.eqb_eq in E1. apply list_expr_eqb_eq in E2. now subst.
    - reflexivity. }
  rewrite H1. destruct (exec1 ps f b s); cbn [obind]; [now apply IH|reflexivity].
Qed.

Theorem eqm_sound ps p q : stmts_eqm p q = true -> equiv ps p q.
Proof. intros E s s'. unfold runs. split; intros [f H]; exists f; [rewrite <- (exec_eqm ps f p q E)|rewrite (exec_eqm ps f p q E)]; exact H. Qed.
