(** C36 — loop ranges and slices emitted by pygen vs Fortran DO trips / array sections. *)
From Coq Require Import ZArith List Bool Lia ZifyBool.
From LV Require Import Base.Expr models.M_C10 proofs.P_C10 models.M_C36.
Import ListNotations.
Open Scope Z_scope.

(** [range(a, b + s, s)] has the Fortran trip count when the stride divides the distance (always for +-1) *)
Lemma pygen_len_div a b s : s <> 0 -> (b - a) mod s = 0 ->
  py_range_len a (b + s) s = M_C10.trip_count a b s.
Proof.
  intros Hs Hm.
  assert (Hq : b - a = s * ((b - a) / s)) by (apply Z_div_exact_full_2; assumption).
  remember ((b - a) / s) as q eqn:Eq. clear Eq Hm.
  assert (Hb : b = a + s * q) by lia. subst b. clear Hq.
  unfold py_range_len, M_C10.trip_count.
  replace (a + s * q - a + s) with ((q + 1) * s) by lia.
  rewrite Z.quot_mul by exact Hs.
  destruct (0 <? s) eqn:E1.
  - destruct (a <? a + s * q + s) eqn:E2.
    + assert (0 < q + 1) by nia.
      assert (Hd : (a + s * q + s - a - 1) / s = q).
      { symmetry. apply Z.div_unique with (r := s - 1); lia. }
      rewrite Hd. lia.
    + assert (q + 1 <= 0) by nia. lia.
  - assert (Hn : s < 0) by lia.
    destruct (a + s * q + s <? a) eqn:E2.
    + assert (0 < q + 1) by nia.
      assert (Hd : (a - (a + s * q + s) - 1) / (- s) = q).
      { symmetry. apply Z.div_unique with (r := - s - 1); lia. }
      rewrite Hd. lia.
    + assert (q + 1 <= 0) by nia. lia.
Qed.

Lemma loop_range_conversion_correct a b s : s <> 0 -> (b - a) mod s = 0 ->
  pygen_range a b s = do_trips a b s.
Proof.
  intros Hs Hm. unfold pygen_range, py_range, do_trips. now rewrite pygen_len_div.
Qed.

Lemma loop_range_unit_stride a b s : s = 1 \/ s = -1 -> pygen_range a b s = do_trips a b s.
Proof.
  intros [-> | ->]; apply loop_range_conversion_correct; lia.
Qed.

Lemma loop_range_refuted : exists a b s, 0 < s /\ a <= b /\ pygen_range a b s <> do_trips a b s.
Proof. exists 1, 4, 2. repeat split; try lia. vm_compute. discriminate. Qed.

(** a loop that Fortran does not enter at all is entered by the generated Python *)
Lemma loop_range_zero_trip_refuted : exists a b s, do_trips a b s = [] /\ pygen_range a b s <> [].
Proof. exists 3, 2, 2. split; vm_compute; [reflexivity | discriminate]. Qed.

(** the loop variable after the loop *)
Lemma iota_steps_snoc n a s : iota_steps (S n) a s = iota_steps n a s ++ [a + Z.of_nat n * s].
Proof.
  revert a. induction n as [|n IH]; intros a.
  - cbn. f_equal. lia.
  - change (iota_steps (S (S n)) a s) with (a :: iota_steps (S n) (a + s) s).
    rewrite IH. cbn [iota_steps app].
    replace (a + Z.of_nat (S n) * s) with (a + s + Z.of_nat n * s) by lia. reflexivity.
Qed.

Lemma loop_var_after_loop a b s : s <> 0 -> (b - a) mod s = 0 ->
  (0 < M_C10.trip_count a b s -> python_final a b s = Some (fortran_final a b s - s)) /\
  (M_C10.trip_count a b s = 0 -> python_final a b s = None).
Proof.
  intros Hs Hm. unfold python_final. rewrite loop_range_conversion_correct by assumption.
  unfold do_trips, fortran_final. split; intros H.
  - destruct (Z.to_nat (M_C10.trip_count a b s)) as [|n] eqn:E; [lia|].
    rewrite iota_steps_snoc, rev_app_distr. cbn [rev app]. f_equal. lia.
  - rewrite H. reflexivity.
Qed.

(** slices *)
Lemma map_succ_iota n a s : map (Z.add 1) (iota_steps n a s) = iota_steps n (a + 1) s.
Proof.
  revert a. induction n as [|n IH]; intros a; [reflexivity|].
  cbn [iota_steps map]. rewrite IH. f_equal; [lia|]. f_equal. lia.
Qed.

Lemma slice_conversion_correct n l u s : 1 <= l -> 0 <= u <= n -> 0 < s ->
  map (Z.add 1) (pygen_slice n l u s) = fortran_section l u s.
Proof.
  intros Hl Hu Hs. unfold pygen_slice, py_slice, fortran_section, do_trips, py_range.
  assert (Eu : slice_adj n s u = u).
  { unfold slice_adj. destruct (u <? 0) eqn:E1; [lia|]. destruct (n <=? u) eqn:E2; [|reflexivity].
    destruct (s <? 0) eqn:E3; lia. }
  rewrite Eu.
  destruct (Z_lt_le_dec (l - 1) n) as [Hin|Hout].
  - assert (El : slice_adj n s (l - 1) = l - 1).
    { unfold slice_adj. destruct (l - 1 <? 0) eqn:E1; [lia|]. destruct (n <=? l - 1) eqn:E2; [lia|reflexivity]. }
    rewrite El, map_succ_iota. replace (l - 1 + 1) with l by lia.
    replace u with ((u - 1) + 1) at 1 by lia. rewrite len_pos by exact Hs.
    unfold M_C10.trip_count. replace (u - 1 - (l - 1) + s) with (u - l + s) by lia. reflexivity.
  - assert (El : slice_adj n s (l - 1) = n).
    { unfold slice_adj. destruct (l - 1 <? 0) eqn:E1; [lia|]. destruct (n <=? l - 1) eqn:E2; [|lia].
      destruct (s <? 0) eqn:E3; lia. }
    rewrite El.
    assert (E0 : py_range_len n u s = 0).
    { unfold py_range_len. destruct (0 <? s) eqn:E1; [|lia]. destruct (n <? u) eqn:E2; [lia|reflexivity]. }
    rewrite E0.
    assert (Et : M_C10.trip_count l u s = 0).
    { unfold M_C10.trip_count.
      destruct (Z_lt_le_dec (u - l + s) 0) as [Hneg|Hpos].
      - assert (Z.quot (u - l + s) s <= 0).
        { rewrite <- (Z.opp_involutive (u - l + s)), Z.quot_opp_l by lia.
          assert (0 <= Z.quot (- (u - l + s)) s) by (apply Z.quot_pos; lia). lia. }
        lia.
      - rewrite Z.quot_small by lia. lia. }
    rewrite Et. reflexivity.
Qed.

Lemma slice_negative_stride_refuted : exists n l u s,
  1 <= u <= l /\ l <= n /\ s < 0 /\ map (Z.add 1) (pygen_slice n l u s) <> fortran_section l u s.
Proof. exists 4, 4, 1, (-1). repeat split; try lia. vm_compute. discriminate. Qed.
