(** C11 — lemmas about the view-level model: class table facts, fuel adequacy, symmetry,
    hash consistency, reflexivity and congruence under case-folding of the printed text. *)
From Coq Require Import ZArith List Bool String Ascii Arith Lia.
From LV Require Import Base.Strings models.M_C11.
Import ListNotations.
Open Scope string_scope.
Open Scope Z_scope.

(* ------------------------------------------------------------------------------------------ *)
(** * Class table facts (finite checks over the class list) *)

Lemma cls_beq_true a b : cls_beq a b = true -> a = b.
Proof. apply internal_cls_dec_bl. Qed.
Lemma cls_beq_refl a : cls_beq a a = true.
Proof. now apply internal_cls_dec_lb. Qed.
Lemma cls_beq_false a b : cls_beq a b = false -> a <> b.
Proof. intros H E. subst. now rewrite cls_beq_refl in H. Qed.
Lemma cls_beq_sym a b : cls_beq a b = cls_beq b a.
Proof.
  destruct (cls_beq a b) eqn:E.
  - apply cls_beq_true in E. subst. now rewrite cls_beq_refl.
  - destruct (cls_beq b a) eqn:E'; [|reflexivity].
    apply cls_beq_true in E'. subst. now rewrite cls_beq_refl in E.
Qed.

Lemma all_cls_complete c : In c all_cls.
Proof.
  assert (H : existsb (cls_beq c) all_cls = true)
    by (destruct c as [[]| | | |[]|[]]; reflexivity).
  apply existsb_exists in H. destruct H as [x [Hin Hx]]. apply cls_beq_true in Hx. now subst.
Qed.

Lemma forall_cls (P : cls -> bool) : forallb P all_cls = true -> forall c, P c = true.
Proof. intros H c. rewrite forallb_forall in H. apply H, all_cls_complete. Qed.

Lemma forall_cls2 (P : cls -> cls -> bool) :
  forallb (fun a => forallb (P a) all_cls) all_cls = true -> forall a b, P a b = true.
Proof. intros H a b. apply (forall_cls (P a)). now apply (forall_cls (fun a => forallb (P a) all_cls)). Qed.

(** the subclass relation is irreflexive and antisymmetric *)
Lemma psub_irrefl c : psub c c = false.
Proof.
  apply negb_true_iff. revert c. apply forall_cls. vm_compute. reflexivity.
Qed.

Lemma psub_asym a b : psub a b = true -> psub b a = false.
Proof.
  intros H.
  assert (T : (fun a b => implb (psub a b) (negb (psub b a))) a b = true)
    by (revert a b H; intros a b _; revert a b; apply forall_cls2; vm_compute; reflexivity).
  cbn beta in T. rewrite H in T. cbn in T. now apply negb_true_iff in T.
Qed.

Lemma psub_neq a b : psub a b = true -> cls_beq a b = false.
Proof.
  intros H. destruct (cls_beq a b) eqn:E; [|reflexivity].
  apply cls_beq_true in E. subst. now rewrite psub_irrefl in H.
Qed.

Definition hash_strlike (h : hsrc) : bool :=
  match h with HStrCompare | HInlineCall | HRange | HRangeIndex => true | _ => false end.
Definition eq_strlike (e : esrc) : bool :=
  match e with EStrCompare | ERange | ERangeIndex => true | _ => false end.

(** every subclass (or the class itself) of a class compared through the canonical string hashes the canonical string *)
Lemma sub_hash_strlike cb ca :
  eq_strlike (eq_src ca) = true -> sub_or_eq cb ca = true -> hash_strlike (hash_src cb) = true.
Proof.
  intros H1 H2.
  assert (T : (fun cb ca => implb (eq_strlike (eq_src ca) && sub_or_eq cb ca) (hash_strlike (hash_src cb))) cb ca = true)
    by (revert cb ca H1 H2; intros cb ca _ _; revert cb ca; apply forall_cls2; vm_compute; reflexivity).
  cbn beta in T. now rewrite H1, H2 in T.
Qed.

(** subclasses of a class with the canonical-string __eq__ are compared through the canonical string, too *)
Lemma sub_eq_strlike cb ca :
  eq_strlike (eq_src ca) = true -> sub_or_eq cb ca = true -> eq_strlike (eq_src cb) = true.
Proof.
  intros H1 H2.
  assert (T : (fun cb ca => implb (eq_strlike (eq_src ca) && sub_or_eq cb ca) (eq_strlike (eq_src cb))) cb ca = true)
    by (revert cb ca H1 H2; intros cb ca _ _; revert cb ca; apply forall_cls2; vm_compute; reflexivity).
  cbn beta in T. now rewrite H1, H2 in T.
Qed.

(** the literal classes stand alone: no sub- or superclasses among the node classes *)
Lemma literal_isolated c c' :
  eq_strlike (eq_src c) = false -> c <> c' -> psub c c' = false /\ psub c' c = false.
Proof.
  intros H1 H2.
  assert (T : (fun c c' => implb (negb (eq_strlike (eq_src c)) && negb (cls_beq c c')) (negb (psub c c') && negb (psub c' c))) c c' = true)
    by (revert c c' H1 H2; intros c c' _ _; revert c c'; apply forall_cls2; vm_compute; reflexivity).
  cbn beta in T. rewrite H1 in T. cbn in T.
  destruct (cls_beq c c') eqn:E; [apply cls_beq_true in E; contradiction|].
  cbn in T. apply andb_true_iff in T. destruct T as [A B].
  now apply negb_true_iff in A, B.
Qed.

(* ------------------------------------------------------------------------------------------ *)
(** * Hash keys *)

Lemma hkey_eqb_refl k : hkey_eqb k k = true.
Proof.
  induction k; cbn; auto using Z.eqb_refl, String.eqb_refl.
  - now rewrite Z.eqb_refl.
  - now rewrite String.eqb_refl.
Qed.

Lemma hkey_eqb_eq k k' : hkey_eqb k k' = true -> k = k'.
Proof.
  revert k'. induction k; destruct k'; cbn; try discriminate; intros H; auto.
  - apply Z.eqb_eq in H. now subst.
  - apply String.eqb_eq in H. now subst.
  - apply andb_true_iff in H. destruct H as [A B]. apply Z.eqb_eq in A. apply IHk in B. now subst.
  - apply andb_true_iff in H. destruct H as [A B]. apply String.eqb_eq in A. apply IHk in B. now subst.
Qed.

Lemma hkey_eqb_sym k k' : hkey_eqb k k' = hkey_eqb k' k.
Proof.
  revert k'. induction k; destruct k'; cbn; auto.
  - apply Z.eqb_sym.
  - apply String.eqb_sym.
  - now rewrite Z.eqb_sym, IHk.
  - now rewrite String.eqb_sym, IHk.
Qed.

Lemma hkey_gen g s fl : hkey_of (VGen g s fl) = HStr (canon s).
Proof. destruct g; reflexivity. Qed.
Lemma hkey_range r a b c s : hkey_of (VRange r a b c s) = HStr (canon s).
Proof. destruct r; reflexivity. Qed.
Lemma hkey_quot p a b s : hkey_of (VQuot p a b s) = HStr (canon s).
Proof. destruct p; reflexivity. Qed.
Lemma hkey_int z k s : hkey_of (VInt z k s) = HTupI (normz z) (hkey_of k).
Proof. reflexivity. Qed.
Lemma hkey_float v k s : hkey_of (VFloat v k s) = HTupF v (hkey_of k).
Proof. reflexivity. Qed.
Lemma hkey_strlit v s : hkey_of (VStrLit v s) = HStr v.
Proof. reflexivity. Qed.

(** the shape of every view fits the class table: the error key is never produced *)
Lemma hkey_not_bad v : hkey_of v <> HBad.
Proof.
  destruct v; rewrite ?hkey_gen, ?hkey_range, ?hkey_quot; discriminate.
Qed.

Lemma hkey_strlike v :
  is_py v = false -> hash_strlike (hash_src (ncls v)) = true -> hkey_of v = HStr (canon (str_of v)).
Proof.
  destruct v; cbn [is_py]; try discriminate; intros _ H; try (cbn in H; discriminate);
    [apply hkey_gen | apply hkey_range | apply hkey_quot].
Qed.

(* ------------------------------------------------------------------------------------------ *)
(** * Shape lemmas for [meth] *)

Lemma meth_gen r g s fl b : meth r (VGen g s fl) b = strcmp r (VGen g s fl) b.
Proof. reflexivity. Qed.
Lemma meth_quot r p x y s b : meth r (VQuot p x y s) b = strcmp r (VQuot p x y s) b.
Proof. reflexivity. Qed.
Lemma meth_int r z k s b : meth r (VInt z k s) b = int_eq r (VInt z k s) b.
Proof. reflexivity. Qed.
Lemma meth_float r v k s b : meth r (VFloat v k s) b = float_eq r (VFloat v k s) b.
Proof. reflexivity. Qed.
Lemma meth_strlit r v s b : meth r (VStrLit v s) b = strlit_eq (VStrLit v s) b.
Proof. reflexivity. Qed.
Lemma meth_range r rc st sp step s b :
  meth r (VRange rc st sp step s) b =
  if r st (VPyInt 1) && is_none step then r sp b || strcmp r (VRange rc st sp step s) b
  else strcmp r (VRange rc st sp step s) b.
Proof.
  destruct rc; unfold meth; cbn [ncls eq_src]; unfold rangeindex_eq, range_eq; try reflexivity.
  destruct (r st (VPyInt 1) && is_none step); [|reflexivity].
  destruct (r sp b); reflexivity.
Qed.

(* ------------------------------------------------------------------------------------------ *)
(** * Fuel: the result does not depend on the fuel once it exceeds the size of the operands *)

Lemma vsize_pos v : (1 <= vsize v)%nat.
Proof. destruct v; cbn; lia. Qed.

Section Ext.
  Variables r1 r2 : view -> view -> bool.

  Lemma pmbl_eq_ext a b :
    (forall u v, (vsize u + vsize v < vsize a + vsize b)%nat -> r1 u v = r2 u v) ->
    pmbl_eq r1 a b = pmbl_eq r2 a b.
  Proof.
    intros H. unfold pmbl_eq. destruct (negb _); [reflexivity|].
    destruct a; try reflexivity. destruct b; try reflexivity.
    rewrite !H by (cbn; lia). reflexivity.
  Qed.

  Lemma strcmp_ext a b :
    (forall u v, (vsize u + vsize v < vsize a + vsize b)%nat -> r1 u v = r2 u v) ->
    strcmp r1 a b = strcmp r2 a b.
  Proof.
    intros H. unfold strcmp.
    destruct b; try reflexivity; (destruct (isinstance _ _); [reflexivity|apply pmbl_eq_ext, H]).
  Qed.

  Lemma meth_ext a b :
    (forall u v, (vsize u + vsize v < vsize a + vsize b)%nat -> r1 u v = r2 u v) ->
    meth r1 a b = meth r2 a b.
  Proof.
    intros H. pose proof (vsize_pos b) as Pb.
    destruct a.
    - reflexivity.
    - reflexivity.
    - reflexivity.
    - rewrite !meth_gen. now apply strcmp_ext.
    - rewrite !meth_int. cbn. destruct b; try reflexivity. rewrite H by (cbn; lia). reflexivity.
    - rewrite !meth_float. cbn. destruct b; try reflexivity. rewrite H by (cbn; lia). reflexivity.
    - reflexivity.
    - rewrite !meth_range.
      rewrite (H a1 (VPyInt 1)) by (cbn; lia).
      rewrite (H a2 b) by (cbn; lia).
      rewrite (strcmp_ext _ b H). reflexivity.
    - rewrite !meth_quot. now apply strcmp_ext.
  Qed.

  Lemma dispatch_ext a b :
    (forall u v, (vsize u + vsize v < vsize a + vsize b)%nat -> r1 u v = r2 u v) ->
    dispatch r1 a b = dispatch r2 a b.
  Proof.
    intros H. unfold dispatch.
    assert (H' : forall u v, (vsize u + vsize v < vsize b + vsize a)%nat -> r1 u v = r2 u v)
      by (intros; apply H; lia).
    destruct (is_py a), (is_py b); try reflexivity; try (now apply meth_ext).
    destruct (psub _ _); now apply meth_ext.
  Qed.
End Ext.

Lemma py_eq_f_fuel n : forall m a b,
  (vsize a + vsize b < n)%nat -> (vsize a + vsize b < m)%nat -> py_eq_f n a b = py_eq_f m a b.
Proof.
  induction n as [|n IH]; intros m a b Hn Hm; [lia|].
  destruct m as [|m]; [lia|].
  cbn [py_eq_f]. apply dispatch_ext. intros u v Huv. apply IH; lia.
Qed.

Lemma py_eq_f_node_eq n a b : (vsize a + vsize b < n)%nat -> py_eq_f n a b = node_eq a b.
Proof. intros H. unfold node_eq. apply py_eq_f_fuel; lia. Qed.

(* ------------------------------------------------------------------------------------------ *)
(** * Symmetry *)

Lemma builtin_eq_sym a b : builtin_eq a b = builtin_eq b a.
Proof. destruct a, b; cbn; auto using Z.eqb_sym, String.eqb_sym. Qed.

Definition lit_shape (v : view) : bool :=
  match v with VInt _ _ _ | VFloat _ _ _ | VStrLit _ _ => true | _ => false end.
Definition str_shape (v : view) : bool :=
  match v with VGen _ _ _ | VRange _ _ _ _ _ | VQuot _ _ _ _ => true | _ => false end.
Definition is_quot (v : view) : bool := match v with VQuot _ _ _ _ => true | _ => false end.
Definition same_ctor (a b : view) : bool :=
  match a, b with
  | VInt _ _ _, VInt _ _ _ | VFloat _ _ _, VFloat _ _ _ | VStrLit _ _, VStrLit _ _ => true
  | _, _ => false
  end.
(** the shortcut test as evaluated with the recursive comparison [r] *)
Definition range_test (r : view -> view -> bool) (a : view) : bool :=
  match a with VRange _ st _ step _ => r st (VPyInt 1) && is_none step | _ => false end.

Lemma shape_cases v : is_py v = false -> lit_shape v = true \/ str_shape v = true.
Proof. destruct v; cbn; auto; discriminate. Qed.

Lemma pmbl_eq_notquot r a b : is_quot a && is_quot b = false -> pmbl_eq r a b = false.
Proof.
  unfold pmbl_eq. destruct (negb _); [reflexivity|].
  destruct a; try reflexivity. destruct b; try reflexivity. discriminate.
Qed.

Lemma strcmp_node r a b :
  is_py b = false ->
  strcmp r a b = if isinstance b (ncls a) then String.eqb (canon (str_of a)) (canon (str_of b)) else pmbl_eq r a b.
Proof. destruct b; try discriminate; reflexivity. Qed.

Lemma meth_str_shape r a b :
  str_shape a = true -> range_test r a = false -> meth r a b = strcmp r a b.
Proof.
  destruct a; try discriminate; intros _ H; try reflexivity.
  rewrite meth_range. cbn in H. now rewrite H.
Qed.

(** a literal against a node of another class *)
Lemma meth_lit_other r a b :
  lit_shape a = true -> is_py b = false -> same_ctor a b = false -> meth r a b = false.
Proof.
  destruct a; try discriminate; intros _; destruct b; try discriminate; intros _ _; reflexivity.
Qed.

(** a string-compared node against a literal *)
Lemma meth_str_lit r a b :
  str_shape a = true -> range_test r a = false -> lit_shape b = true -> meth r a b = false.
Proof.
  intros Ha Ht Hb. rewrite meth_str_shape by assumption.
  rewrite strcmp_node by (destruct b; try discriminate; reflexivity).
  assert (I : isinstance b (ncls a) = false).
  { destruct a; try discriminate; destruct b; try discriminate; reflexivity. }
  rewrite I. unfold pmbl_eq.
  destruct a; try discriminate; destruct b; try discriminate;
    rewrite ?hkey_gen, ?hkey_range, ?hkey_quot, ?hkey_int, ?hkey_float, ?hkey_strlit; cbn [hkey_eqb negb];
    try reflexivity; destruct (String.eqb _ _); reflexivity.
Qed.

Lemma strcmp_sym r a b :
  str_shape a = true -> str_shape b = true ->
  psub (ncls b) (ncls a) = false -> psub (ncls a) (ncls b) = false ->
  strcmp r a b = strcmp r b a.
Proof.
  intros Ha Hb P1 P2.
  assert (Pa : is_py a = false) by (destruct a; try discriminate; reflexivity).
  assert (Pb : is_py b = false) by (destruct b; try discriminate; reflexivity).
  rewrite !strcmp_node by assumption.
  unfold isinstance, sub_or_eq. rewrite Pa, Pb, P1, P2. cbn [negb andb]. rewrite !orb_false_r.
  rewrite (cls_beq_sym (ncls a) (ncls b)).
  destruct (cls_beq (ncls b) (ncls a)) eqn:E; [apply String.eqb_sym|].
  destruct (is_quot a && is_quot b) eqn:Q.
  - destruct a; try discriminate; destruct b; try discriminate.
    destruct par, par0; cbn in *; discriminate.
  - rewrite !pmbl_eq_notquot; auto. now rewrite andb_comm.
Qed.

Lemma pair_ok_unfold a b :
  pair_ok a b = true ->
  shortcut a = false /\ shortcut b = false
  /\ match a with
     | VInt _ k _ => match b with VInt _ k' _ => pair_ok k k' = true | _ => True end
     | VFloat _ k _ => match b with VFloat _ k' _ => pair_ok k k' = true | _ => True end
     | _ => True
     end.
Proof.
  intros H. destruct a; cbn [pair_ok] in H;
  repeat (apply andb_true_iff in H; destruct H as [H ?]);
  rewrite ?negb_true_iff in *; repeat split; auto; destruct b; auto.
Qed.

Lemma range_test_shortcut m a b :
  (vsize a + vsize b < S m)%nat -> shortcut a = false -> range_test (py_eq_f m) a = false.
Proof.
  destruct a; try reflexivity. cbn [range_test shortcut vsize]. intros H S.
  pose proof (vsize_pos b). rewrite py_eq_f_node_eq by (cbn; lia). exact S.
Qed.

Lemma py_eq_f_sym n : forall a b,
  (vsize a + vsize b < n)%nat -> pair_ok a b = true -> py_eq_f n a b = py_eq_f n b a.
Proof.
  induction n as [|m IH]; intros a b Hn Hok; [reflexivity|].
  cbn [py_eq_f]. unfold dispatch.
  destruct (is_py a) eqn:Pa, (is_py b) eqn:Pb; try reflexivity.
  - apply builtin_eq_sym.
  - destruct (pair_ok_unfold _ _ Hok) as (Sa & Sb & Hk).
    pose proof (range_test_shortcut m a b Hn Sa) as Ta.
    assert (Hn' : (vsize b + vsize a < S m)%nat) by lia.
    pose proof (range_test_shortcut m b a Hn' Sb) as Tb.
    destruct (psub (ncls b) (ncls a)) eqn:P1.
    + now rewrite (psub_asym _ _ P1).
    + destruct (psub (ncls a) (ncls b)) eqn:P2; [reflexivity|].
      destruct (shape_cases a Pa) as [La|Sa'], (shape_cases b Pb) as [Lb|Sb'].
      * (* two literals *)
        destruct (same_ctor a b) eqn:SC.
        -- destruct a; try discriminate; destruct b; try discriminate.
           ++ rewrite !meth_int. cbn. rewrite Z.eqb_sym. f_equal. apply IH; [cbn in Hn; lia|exact Hk].
           ++ rewrite !meth_float. cbn. rewrite String.eqb_sym. f_equal. apply IH; [cbn in Hn; lia|exact Hk].
           ++ rewrite !meth_strlit. cbn. apply String.eqb_sym.
        -- rewrite (meth_lit_other _ a b), (meth_lit_other _ b a); auto.
           destruct a; try discriminate; destruct b; try discriminate; reflexivity.
      * rewrite (meth_lit_other _ a b), (meth_str_lit _ b a); auto.
        destruct a; try discriminate; destruct b; try discriminate; reflexivity.
      * rewrite (meth_str_lit _ a b), (meth_lit_other _ b a); auto.
        destruct a; try discriminate; destruct b; try discriminate; reflexivity.
      * rewrite !meth_str_shape by assumption. now apply strcmp_sym.
Qed.

Theorem node_eq_sym a b : pair_ok a b = true -> node_eq a b = node_eq b a.
Proof.
  intros H. unfold node_eq. rewrite (Nat.add_comm (vsize b)). apply py_eq_f_sym; [lia|exact H].
Qed.

(* ---------------- hash consistency ---------------- *)

Definition ok2 (x y : view) : Prop :=
  (pair_ok x y = true /\ homog x y = true) \/ (pair_ok y x = true /\ homog y x = true).

Lemma ok2_sym x y : ok2 x y -> ok2 y x.
Proof. unfold ok2. tauto. Qed.

Lemma homog_unfold a b :
  homog a b = true ->
  is_py a = is_py b
  /\ match a with
     | VInt _ k _ => match b with VInt _ k' _ => homog k k' = true | _ => True end
     | VFloat _ k _ => match b with VFloat _ k' _ => homog k k' = true | _ => True end
     | _ => True
     end.
Proof.
  intros H. destruct a; cbn [homog] in H; apply andb_true_iff in H; destruct H as [H1 H2];
    apply eqb_prop in H1; split; auto; destruct b; auto.
Qed.

Lemma ok2_unfold x y :
  ok2 x y ->
  shortcut x = false /\ shortcut y = false
  /\ is_py x = is_py y
  /\ match x, y with
     | VInt _ k _, VInt _ k' _ => ok2 k k'
     | VFloat _ k _, VFloat _ k' _ => ok2 k k'
     | _, _ => True
     end.
Proof.
  intros [[P H]|[P H]]; destruct (pair_ok_unfold _ _ P) as (A & B & E);
    destruct (homog_unfold _ _ H) as (F & G); repeat split; auto.
  - destruct x; auto; destruct y; auto; left; auto.
  - destruct x; auto; destruct y; auto; right; auto.
Qed.

Lemma str_shape_strlike x : str_shape x = true -> eq_strlike (eq_src (ncls x)) = true.
Proof. destruct x; try discriminate; intros _; try reflexivity. destruct r; reflexivity. Qed.

Lemma sub_or_eq_refl c : sub_or_eq c c = true.
Proof. unfold sub_or_eq. now rewrite cls_beq_refl. Qed.

Lemma meth_true_hkey m x y :
  (forall k k', (vsize k + vsize k' < m)%nat -> ok2 k k' -> py_eq_f m k k' = true -> hkey_of k = hkey_of k') ->
  (vsize x + vsize y < S m)%nat -> ok2 x y -> is_py x = false -> is_py y = false ->
  meth (py_eq_f m) x y = true -> hkey_of x = hkey_of y.
Proof.
  intros IH Hn Hok Px Py Hm.
  destruct (ok2_unfold _ _ Hok) as (Sx & Sy & _ & Hk).
  pose proof (range_test_shortcut m x y Hn Sx) as Tx.
  destruct (shape_cases x Px) as [Lx|Sx'].
  - destruct (same_ctor x y) eqn:SC.
    + destruct x; try discriminate; destruct y; try discriminate.
      * rewrite meth_int in Hm. cbn in Hm. apply andb_true_iff in Hm. destruct Hm as [Hz Hr].
        apply Z.eqb_eq in Hz. subst. rewrite !hkey_int. f_equal.
        apply IH; [cbn in Hn; lia|exact Hk|exact Hr].
      * rewrite meth_float in Hm. cbn in Hm. apply andb_true_iff in Hm. destruct Hm as [Hz Hr].
        apply String.eqb_eq in Hz. subst. rewrite !hkey_float. f_equal.
        apply IH; [cbn in Hn; lia|exact Hk|exact Hr].
      * rewrite meth_strlit in Hm. cbn in Hm. apply String.eqb_eq in Hm. subst. reflexivity.
    + rewrite meth_lit_other in Hm by assumption. discriminate.
  - rewrite meth_str_shape in Hm by assumption.
    rewrite strcmp_node in Hm by assumption.
    pose proof (str_shape_strlike x Sx') as Ex.
    destruct (isinstance y (ncls x)) eqn:I.
    + apply String.eqb_eq in Hm.
      unfold isinstance in I. rewrite Py in I. cbn in I.
      rewrite (hkey_strlike x Px (sub_hash_strlike _ _ Ex (sub_or_eq_refl _))).
      rewrite (hkey_strlike y Py (sub_hash_strlike _ _ Ex I)).
      now rewrite Hm.
    + unfold pmbl_eq in Hm. destruct (hkey_eqb (hkey_of x) (hkey_of y)) eqn:K; [|discriminate].
      now apply hkey_eqb_eq.
Qed.

Lemma py_eq_f_hash n : forall a b,
  (vsize a + vsize b < n)%nat -> ok2 a b -> py_eq_f n a b = true -> hkey_of a = hkey_of b.
Proof.
  induction n as [|m IH]; intros a b Hn Hok He; [discriminate|].
  cbn [py_eq_f] in He. unfold dispatch in He.
  destruct (ok2_unfold _ _ Hok) as (_ & _ & Hpy & _).
  destruct (is_py a) eqn:Pa, (is_py b) eqn:Pb; try discriminate.
  - destruct a; try discriminate; destruct b; try discriminate; cbn in He.
    + reflexivity.
    + apply Z.eqb_eq in He. now subst.
    + apply String.eqb_eq in He. now subst.
  - destruct (psub (ncls b) (ncls a)).
    + symmetry. apply (meth_true_hkey m b a); auto; [lia|now apply ok2_sym].
    + apply (meth_true_hkey m a b); auto.
Qed.

Theorem node_eq_hash a b :
  pair_ok a b = true -> homog a b = true -> node_eq a b = true -> hkey_of a = hkey_of b.
Proof.
  intros P H E. apply (py_eq_f_hash (S (vsize a + vsize b))); [lia|left; auto|exact E].
Qed.

(* ---------------- reflexivity ---------------- *)

Lemma py_eq_f_refl n : forall a, (vsize a + vsize a < n)%nat -> py_eq_f n a a = true.
Proof.
  induction n as [|m IH]; intros a Hn; [lia|].
  cbn [py_eq_f]. unfold dispatch.
  destruct (is_py a) eqn:Pa.
  - destruct a; try discriminate; cbn; auto using Z.eqb_refl, String.eqb_refl.
  - rewrite psub_irrefl.
    assert (S : strcmp (py_eq_f m) a a = true).
    { rewrite strcmp_node by assumption. unfold isinstance. rewrite Pa, sub_or_eq_refl. cbn.
      apply String.eqb_refl. }
    destruct a; try discriminate.
    + exact S.
    + rewrite meth_int. cbn. rewrite Z.eqb_refl. apply IH. cbn in Hn. lia.
    + rewrite meth_float. cbn. rewrite String.eqb_refl. apply IH. cbn in Hn. lia.
    + rewrite meth_strlit. cbn. apply String.eqb_refl.
    + rewrite meth_range. rewrite S. rewrite orb_true_r. now destruct (_ && _).
    + exact S.
Qed.

Theorem node_eq_refl a : node_eq a a = true.
Proof. apply py_eq_f_refl. lia. Qed.

(* ---------------- congruence: views that differ only in the letter case / blanks of the printed text ---------------- *)

Fixpoint vsim (a b : view) : Prop :=
  match a, b with
  | VPyNone, VPyNone => True
  | VPyInt x, VPyInt y => x = y
  | VPyStr s, VPyStr t => s = t
  | VGen g s fl, VGen g' s' fl' => g = g' /\ canon s = canon s' /\ fl = fl'
  | VInt z k s, VInt z' k' s' => z = z' /\ vsim k k' /\ canon s = canon s'
  | VFloat v k s, VFloat v' k' s' => v = v' /\ vsim k k' /\ canon s = canon s'
  | VStrLit v s, VStrLit v' s' => v = v' /\ canon s = canon s'
  | VRange r a1 a2 a3 s, VRange r' b1 b2 b3 s' =>
      r = r' /\ vsim a1 b1 /\ vsim a2 b2 /\ vsim a3 b3 /\ canon s = canon s'
  | VQuot p a1 a2 s, VQuot p' b1 b2 s' => p = p' /\ vsim a1 b1 /\ vsim a2 b2 /\ canon s = canon s'
  | _, _ => False
  end.

Lemma vsim_refl a : vsim a a.
Proof. induction a; cbn; auto 10. Qed.

Ltac vsim_inv H :=
  match type of H with
  | vsim ?a ?b => destruct a; destruct b; cbn [vsim] in H; try contradiction
  end.

Lemma vsim_is_py a b : vsim a b -> is_py a = is_py b.
Proof. intros H. vsim_inv H; reflexivity. Qed.
Lemma vsim_is_none a b : vsim a b -> is_none a = is_none b.
Proof. intros H. vsim_inv H; reflexivity. Qed.
Lemma vsim_ncls a b : vsim a b -> ncls a = ncls b.
Proof. intros H. vsim_inv H; try reflexivity; cbn; intuition congruence. Qed.
Lemma vsim_vsize a : forall b, vsim a b -> vsize a = vsize b.
Proof.
  induction a; intros b H; destruct b; cbn [vsim] in H; try contradiction; cbn; try reflexivity.
  - destruct H as (_ & H & _). now rewrite (IHa _ H).
  - destruct H as (_ & H & _). now rewrite (IHa _ H).
  - destruct H as (_ & H1 & H2 & H3 & _). now rewrite (IHa1 _ H1), (IHa2 _ H2), (IHa3 _ H3).
  - destruct H as (_ & H1 & H2 & _). now rewrite (IHa1 _ H1), (IHa2 _ H2).
Qed.
Lemma vsim_canon a b : vsim a b -> canon (str_of a) = canon (str_of b).
Proof. intros H. vsim_inv H; cbn [str_of]; try reflexivity; intuition congruence. Qed.

Lemma vsim_hkey a : forall b, vsim a b -> hkey_of a = hkey_of b.
Proof.
  induction a; intros b H; destruct b; cbn [vsim] in H; try contradiction;
    rewrite ?hkey_gen, ?hkey_range, ?hkey_quot, ?hkey_int, ?hkey_float, ?hkey_strlit.
  - reflexivity.
  - cbn. now subst.
  - cbn. now subst.
  - destruct H as (_ & H & _). now rewrite H.
  - destruct H as (Hz & H & _). subst. now rewrite (IHa _ H).
  - destruct H as (Hz & H & _). subst. now rewrite (IHa _ H).
  - destruct H as (Hv & _). now subst.
  - destruct H as (_ & _ & _ & _ & H). now rewrite H.
  - destruct H as (_ & _ & _ & H). now rewrite H.
Qed.

Definition not_pystr (b : view) : Prop := match b with VPyStr _ => False | _ => True end.

Lemma strcmp_not_pystr r a b :
  not_pystr b ->
  strcmp r a b = if isinstance b (ncls a) then String.eqb (canon (str_of a)) (canon (str_of b)) else pmbl_eq r a b.
Proof. destruct b; cbn; try contradiction; reflexivity. Qed.

Section Cong.
  Variable r : view -> view -> bool.
  Hypothesis Hr : forall u u' v v', vsim u u' -> vsim v v' -> r u v = r u' v'.

  Lemma pmbl_eq_cong a a' b b' : vsim a a' -> vsim b b' -> pmbl_eq r a b = pmbl_eq r a' b'.
  Proof.
    intros Ha Hb. unfold pmbl_eq. rewrite (vsim_hkey _ _ Ha), (vsim_hkey _ _ Hb).
    destruct (negb _); [reflexivity|].
    vsim_inv Ha; try reflexivity. vsim_inv Hb; try reflexivity.
    destruct Ha as (_ & A1 & A2 & _), Hb as (_ & B1 & B2 & _).
    now rewrite (Hr _ _ _ _ A1 B1), (Hr _ _ _ _ A2 B2).
  Qed.

  Lemma isinstance_cong a a' b b' : vsim a a' -> vsim b b' -> isinstance b (ncls a) = isinstance b' (ncls a').
  Proof. intros Ha Hb. unfold isinstance. now rewrite (vsim_is_py _ _ Hb), (vsim_ncls _ _ Hb), (vsim_ncls _ _ Ha). Qed.

  Lemma strcmp_cong a a' b b' : vsim a a' -> vsim b b' -> strcmp r a b = strcmp r a' b'.
  Proof.
    intros Ha Hb.
    destruct b as [| |t| | | | | |] eqn:Eb.
    3:{ destruct b'; cbn [vsim] in Hb; try contradiction. subst. cbn. now rewrite (vsim_canon _ _ Ha). }
    all: rewrite <- Eb in *;
      assert (N : not_pystr b) by (rewrite Eb; exact I);
      assert (N' : not_pystr b') by (rewrite Eb in Hb; destruct b'; cbn in Hb; try contradiction; exact I);
      rewrite !strcmp_not_pystr by assumption;
      rewrite (isinstance_cong _ _ _ _ Ha Hb), (vsim_canon _ _ Ha), (vsim_canon _ _ Hb), (pmbl_eq_cong _ _ _ _ Ha Hb);
      reflexivity.
  Qed.

  Lemma meth_cong a a' b b' : vsim a a' -> vsim b b' -> meth r a b = meth r a' b'.
  Proof.
    intros Ha Hb.
    pose proof (strcmp_cong _ _ _ _ Ha Hb) as S.
    destruct a; destruct a'; cbn [vsim] in Ha; try contradiction; try reflexivity.
    - rewrite !meth_gen. exact S.
    - rewrite !meth_int. destruct Ha as (Hz & Hk & _). subst.
      vsim_inv Hb; cbn; try reflexivity.
      + now subst.
      + now subst.
      + destruct Hb as (Hz & Hk' & _). subst. now rewrite (Hr _ _ _ _ Hk Hk').
    - rewrite !meth_float. destruct Ha as (Hz & Hk & _). subst.
      vsim_inv Hb; cbn; try reflexivity.
      + now subst.
      + now subst.
      + destruct Hb as (Hz & Hk' & _). subst. now rewrite (Hr _ _ _ _ Hk Hk').
    - rewrite !meth_strlit. destruct Ha as (Hv & _). subst.
      vsim_inv Hb; cbn; try reflexivity.
      + now subst.
      + destruct Hb as (Hv & _). now subst.
    - rewrite !meth_range. destruct Ha as (Hrc & H1 & H2 & H3 & Hs).
      rewrite (Hr _ _ _ _ H1 (vsim_refl (VPyInt 1))), (vsim_is_none _ _ H3), (Hr _ _ _ _ H2 Hb), S.
      reflexivity.
    - rewrite !meth_quot. exact S.
  Qed.

  Lemma dispatch_cong a a' b b' : vsim a a' -> vsim b b' -> dispatch r a b = dispatch r a' b'.
  Proof.
    intros Ha Hb. unfold dispatch.
    rewrite (vsim_is_py _ _ Ha), (vsim_is_py _ _ Hb), (vsim_ncls _ _ Ha), (vsim_ncls _ _ Hb).
    rewrite (meth_cong _ _ _ _ Ha Hb), (meth_cong _ _ _ _ Hb Ha).
    destruct (is_py a'), (is_py b'); try reflexivity.
    vsim_inv Ha; vsim_inv Hb; cbn; try reflexivity; now subst.
  Qed.
End Cong.

Lemma py_eq_f_cong n : forall a a' b b', vsim a a' -> vsim b b' -> py_eq_f n a b = py_eq_f n a' b'.
Proof.
  induction n as [|m IH]; intros; [reflexivity|].
  cbn [py_eq_f]. apply dispatch_cong; auto.
Qed.

Theorem node_eq_cong a a' b b' : vsim a a' -> vsim b b' -> node_eq a b = node_eq a' b'.
Proof.
  intros Ha Hb. unfold node_eq. rewrite (vsim_vsize _ _ Ha), (vsim_vsize _ _ Hb). now apply py_eq_f_cong.
Qed.

Corollary node_eq_vsim a a' : vsim a a' -> node_eq a a' = true.
Proof. intros H. rewrite <- (node_eq_cong a a a a' (vsim_refl a) H). apply node_eq_refl. Qed.
