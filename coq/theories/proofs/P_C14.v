(** C14 — infrastructure: induction principle for the nested item type, equalities, list lemmas. *)
From Coq Require Import ZArith List Bool Lia Arith.
From LV Require Import models.M_C14.
Import ListNotations.
Open Scope Z_scope.

(** * Structural induction over items (the list-of-trees nesting needs its own principle) *)
Section ItemInd.
  Variable P : item -> Prop.
  Hypothesis HObj : forall v, P (Obj v).
  Hypothesis HNone : P NoneI.
  Hypothesis HTup : forall l, Forall P l -> P (Tup l).
  Hypothesis HNd : forall i k s p ch, Forall P ch -> P (Nd i k s p ch).

  Fixpoint item_ind' (o : item) : P o :=
    let fix go (l : list item) : Forall P l :=
      match l with
      | [] => Forall_nil P
      | x :: r => Forall_cons x (item_ind' x) (go r)
      end in
    match o with
    | Obj v => HObj v
    | NoneI => HNone
    | Tup l => HTup l (go l)
    | Nd i k s p ch => HNd i k s p ch (go ch)
    end.
End ItemInd.

(** * The two equalities *)
Lemma ieqb_Tup l m : ieqb (Tup l) (Tup m) = list_eqb ieqb l m.
Proof.
  cbn [ieqb]. revert m. induction l as [|x l IH]; intros [|y m]; cbn [list_eqb]; try reflexivity.
  now rewrite IH.
Qed.

Lemma ieqb_Nd i k s p c i' k' s' p' c' :
  ieqb (Nd i k s p c) (Nd i' k' s' p' c') = (k =? k') && (s =? s') && (p =? p') && list_eqb ieqb c c'.
Proof.
  cbn [ieqb]. f_equal. revert c'. induction c as [|x l IH]; intros [|y m]; cbn [list_eqb]; try reflexivity.
  now rewrite IH.
Qed.

Lemma ideqb_Tup l m : ideqb (Tup l) (Tup m) = list_eqb ideqb l m.
Proof.
  cbn [ideqb]. revert m. induction l as [|x l IH]; intros [|y m]; cbn [list_eqb]; try reflexivity.
  now rewrite IH.
Qed.

Lemma ideqb_Nd i k s p c i' k' s' p' c' :
  ideqb (Nd i k s p c) (Nd i' k' s' p' c') =
  (i =? i') && (k =? k') && (s =? s') && (p =? p') && list_eqb ideqb c c'.
Proof.
  cbn [ideqb]. f_equal. revert c'. induction c as [|x l IH]; intros [|y m]; cbn [list_eqb]; try reflexivity.
  now rewrite IH.
Qed.

Lemma list_eqb_refl {A} (f : A -> A -> bool) l : Forall (fun x => f x x = true) l -> list_eqb f l l = true.
Proof. induction 1; cbn; [reflexivity|]. now rewrite H, IHForall. Qed.

Lemma ieqb_refl : forall a, ieqb a a = true.
Proof.
  induction a using item_ind'.
  - cbn. apply Z.eqb_refl.
  - reflexivity.
  - rewrite ieqb_Tup. now apply list_eqb_refl.
  - rewrite ieqb_Nd, !Z.eqb_refl. cbn. now apply list_eqb_refl.
Qed.

Lemma list_eqb_sym {A} (f : A -> A -> bool) l :
  Forall (fun x => forall y, f x y = f y x) l -> forall m, list_eqb f l m = list_eqb f m l.
Proof.
  induction 1 as [|x l Hx Hl IH]; intros [|y m]; cbn; try reflexivity.
  now rewrite Hx, IH.
Qed.

Lemma ieqb_sym : forall a b, ieqb a b = ieqb b a.
Proof.
  induction a using item_ind'; intros b; destruct b; try reflexivity.
  - cbn. apply Z.eqb_sym.
  - rewrite !ieqb_Tup. now apply list_eqb_sym.
  - rewrite !ieqb_Nd. rewrite (Z.eqb_sym k), (Z.eqb_sym s), (Z.eqb_sym p). f_equal. now apply list_eqb_sym.
Qed.

Lemma list_eqb_trans {A} (f : A -> A -> bool) l :
  Forall (fun x => forall y z, f x y = true -> f y z = true -> f x z = true) l ->
  forall m n, list_eqb f l m = true -> list_eqb f m n = true -> list_eqb f l n = true.
Proof.
  induction 1 as [|x l Hx Hl IH]; intros [|y m] [|z n]; cbn; try congruence.
  intros H1 H2. apply andb_true_iff in H1 as [A1 B1]. apply andb_true_iff in H2 as [A2 B2].
  rewrite (Hx _ _ A1 A2), (IH _ _ B1 B2). reflexivity.
Qed.

Lemma ieqb_trans : forall a b c, ieqb a b = true -> ieqb b c = true -> ieqb a c = true.
Proof.
  induction a using item_ind'; intros b c; destruct b; try (cbn; congruence); destruct c; try (cbn; congruence).
  - cbn. intros A B. apply Z.eqb_eq in A, B. apply Z.eqb_eq. congruence.
  - rewrite !ieqb_Tup. now apply list_eqb_trans.
  - rewrite !ieqb_Nd. intros A B.
    apply andb_true_iff in A as [A A4]. apply andb_true_iff in A as [A A3]. apply andb_true_iff in A as [A1 A2].
    apply andb_true_iff in B as [B B4]. apply andb_true_iff in B as [B B3]. apply andb_true_iff in B as [B1 B2].
    apply Z.eqb_eq in A1, A2, A3, B1, B2, B3. subst.
    rewrite !Z.eqb_refl. cbn. eapply list_eqb_trans; eauto.
Qed.

Lemma list_eqb_eq {A} (f : A -> A -> bool) l :
  Forall (fun x => forall y, f x y = true -> x = y) l -> forall m, list_eqb f l m = true -> l = m.
Proof.
  induction 1 as [|x l Hx Hl IH]; intros [|y m]; cbn; try congruence.
  intros H. apply andb_true_iff in H as [H1 H2]. f_equal; auto.
Qed.

Lemma ideqb_eq : forall a b, ideqb a b = true -> a = b.
Proof.
  induction a using item_ind'; intros b; destruct b; try (cbn; congruence).
  - cbn. intros A. apply Z.eqb_eq in A. congruence.
  - rewrite ideqb_Tup. intros A. f_equal. eapply list_eqb_eq; eauto.
  - rewrite ideqb_Nd. intros A.
    apply andb_true_iff in A as [A A5]. apply andb_true_iff in A as [A A4]. apply andb_true_iff in A as [A A3].
    apply andb_true_iff in A as [A1 A2].
    apply Z.eqb_eq in A1, A2, A3, A4. subst. f_equal. eapply list_eqb_eq; eauto.
Qed.

Lemma ideqb_refl : forall a, ideqb a a = true.
Proof.
  induction a using item_ind'.
  - cbn. apply Z.eqb_refl.
  - reflexivity.
  - rewrite ideqb_Tup. now apply list_eqb_refl.
  - rewrite ideqb_Nd, !Z.eqb_refl. cbn. now apply list_eqb_refl.
Qed.

Lemma list_ideqb_eq l m : list_eqb ideqb l m = true -> l = m.
Proof. apply list_eqb_eq. apply Forall_forall. intros x _ y. apply ideqb_eq. Qed.

(** * Small facts about the result types *)
Lemma visit_list_length rec l ms vs ms' lg rb :
  visit_list rec l ms = OkL vs ms' lg rb -> length vs = length l.
Proof.
  revert ms vs ms' lg rb. induction l as [|x l IH]; intros ms vs ms' lg rb; cbn.
  - intros H. now inversion H.
  - destruct (rec x ms) as [y sm ms1 lg1 rb1|e]; [|discriminate].
    destruct (visit_list rec l ms1) as [ys ms2 lg2 rb2|e] eqn:E; [|discriminate].
    intros H. inversion H; subst. cbn. f_equal. eauto.
Qed.

Lemma zip_children_same old new : length new = length old -> zip_children old new = new.
Proof.
  intros H. unfold zip_children. rewrite <- H, firstn_all, skipn_all2 by lia. apply app_nil_r.
Qed.

Lemma sequence_length {A} (l : list (option A)) r : sequence l = Some r -> length r = length l.
Proof.
  revert r. induction l as [|[x|] l IH]; intros r; cbn; try congruence.
  - intros H. now inversion H.
  - destruct (sequence l); [|discriminate]. intros H. inversion H. cbn. f_equal. auto.
Qed.
