(** C17 — concrete witnesses: where the real clone keeps pointers into the original, and a non-trivial instance of the class. *)
From Coq Require Import ZArith List Bool String Lia.
From LV Require Import models.M_C17 proofs.P_C17 proofs.P_C17_indep.
Import ListNotations.
Open Scope Z_scope.
Open Scope string_scope.

Definition ent (tag : Z) (trs : list tref) : entry := {| e_tag := tag; e_link := LNone; e_trefs := trs |}.
Definition tr (n : string) (r : Z) (b : bool) : tref := {| tr_name := n; tr_ref := Some r; tr_resc := b |}.
Definition oc (n : string) (r : Z) : occ := {| o_name := n; o_ref := Some r |}.

(** subroutine s(n, a); real :: a(n); associate(b => a); b(1) = n; end associate
    — the type of [b] is derived from the type of [a]: its shape holds the symbol [n] attached to s *)
Definition w_assoc : unit :=
  Unit 0 KSub "s" None
       [("a", ent 1 [tr "n" 0 true]); ("n", ent 2 [])]
       [oc "n" 0; oc "a" 0; oc "n" 0]
       [Unit 1 KAssoc "" (Some 0) [("b", ent 1 [tr "n" 0 false])] [oc "a" 0; oc "b" 1; oc "b" 1; oc "n" 0] []].

(** module m; type tt; real :: r; end type; type(tt) :: x; end module
    — the dtype of [tt] and of [x] points to the TypeDef node *)
Definition w_typedef : unit :=
  Unit 0 KMod "m" None
       [("tt", {| e_tag := 1; e_link := LType 1; e_trefs := [] |}); ("x", {| e_tag := 2; e_link := LType 1; e_trefs := [] |})]
       [oc "x" 0]
       [Unit 1 KTypedef "tt" (Some 0) [("r", ent 3 [])] [oc "r" 1] []].

(** subroutine s(n, c); character(len=n) :: c — the length is not among the re-attached attributes *)
Definition w_charlen : unit :=
  Unit 0 KSub "s" None [("c", ent 1 [tr "n" 0 false]); ("n", ent 2 [])] [oc "n" 0; oc "c" 0; oc "n" 0; oc "c" 0] [].

Lemma w_assoc_in_scope : bounded 10 [] w_assoc = true /\ wf [] w_assoc = true.
Proof. split; vm_compute; reflexivity. Qed.

(** well-scoped units whose clone still mentions scope objects of the original *)
Lemma clone_closed_refuted_assoc :
  bounded 10 [] w_assoc = true /\ wf [] w_assoc = true /\
  exists r, In r (refs (clone 10 [] w_assoc)) /\ In r (ids w_assoc).
Proof. split; [|split]; try (vm_compute; reflexivity). exists 0. split; vm_compute; tauto. Qed.

Lemma clone_closed_refuted_typedef :
  bounded 10 [] w_typedef = true /\ wf [] w_typedef = true /\
  exists r, In r (refs (clone 10 [] w_typedef)) /\ In r (ids w_typedef).
Proof. split; [|split]; try (vm_compute; reflexivity). exists 1. split; vm_compute; tauto. Qed.

Lemma clone_closed_refuted_charlen :
  bounded 10 [] w_charlen = true /\ wf [] w_charlen = true /\
  exists r, In r (refs (clone 10 [] w_charlen)) /\ In r (ids w_charlen).
Proof. split; [|split]; try (vm_compute; reflexivity). exists 0. split; vm_compute; tauto. Qed.


Lemma clone_closed_refuted :
  (exists d ctx u, bounded d ctx u = true /\ wf ctx u = true /\ exists r, In r (refs (clone d ctx u)) /\ In r (ids u) /\ u = w_assoc) /\
  (exists d ctx u, bounded d ctx u = true /\ wf ctx u = true /\ exists r, In r (refs (clone d ctx u)) /\ In r (ids u) /\ u = w_typedef) /\
  (exists d ctx u, bounded d ctx u = true /\ wf ctx u = true /\ exists r, In r (refs (clone d ctx u)) /\ In r (ids u) /\ u = w_charlen).
Proof.
  split; [|split].
  - destruct clone_closed_refuted_assoc as [A [B [r [C E]]]]. exists 10, [], w_assoc. repeat split; try assumption. exists r. repeat split; assumption.
  - destruct clone_closed_refuted_typedef as [A [B [r [C E]]]]. exists 10, [], w_typedef. repeat split; try assumption. exists r. repeat split; assumption.
  - destruct clone_closed_refuted_charlen as [A [B [r [C E]]]]. exists 10, [], w_charlen. repeat split; try assumption. exists r. repeat split; assumption.
Qed.

(** ... and then independence fails: setting a type through the shape symbol of the CLONE's [b] (attached to the
    original s) rewrites the table of the original *)
Lemma clone_independence_refuted :
  exists e, valid_edits w_assoc (clone 10 [] w_assoc) [e] /\ apply_edits [e] w_assoc <> w_assoc.
Proof.
  exists (ESetEntry 0 "n" (ent 99 [])). split.
  - constructor; [vm_compute; tauto | intros r H; vm_compute in H; contradiction | constructor].
  - vm_compute. intro H. discriminate H.
Qed.

(** a non-trivial member of the class: module with a variable, a routine with a member procedure, host association,
    shadowing and an ASSOCIATE over a scalar; cloning the routine alone (the module is the context) *)
Definition ex_ctx : chain := [(5, [("v", ent 7 []); ("s", {| e_tag := 8; e_link := LProc 0; e_trefs := [] |})])].
Definition ex_unit : unit :=
  Unit 0 KSub "s" (Some 5)
       [("a", ent 1 [tr "n" 0 true]); ("n", ent 2 []); ("mem", {| e_tag := 3; e_link := LProc 2; e_trefs := [] |})]
       [oc "n" 0; oc "a" 0; oc "n" 0; oc "v" 5; oc "mem" 0]
       [Unit 1 KAssoc "" (Some 0) [("q", ent 2 [])] [oc "n" 0; oc "q" 1; oc "q" 1; oc "v" 5] [];
        Unit 2 KSub "mem" (Some 0) [("x", ent 1 [tr "n" 0 true]); ("a", ent 4 [])] [oc "x" 2; oc "n" 0; oc "a" 2; oc "v" 5] []].

Example c17_nonvacuous :
  bounded 10 ex_ctx ex_unit = true /\ wf ex_ctx ex_unit = true /\ clean ex_unit = true /\
  clone 10 ex_ctx ex_unit <> ex_unit /\
  valid_edits ex_unit (clone 10 ex_ctx ex_unit) [ESetEntry 12 "x" (ent 9 []); EAddOcc 10 (oc "x" 12); ESetEntry 5 "v" (ent 6 [])].
Proof.
  repeat split; try (vm_compute; reflexivity).
  - vm_compute. intro H. discriminate H.
  - repeat (constructor; [vm_compute; tauto | intros r H; vm_compute in H; try contradiction; intro H'; vm_compute in H'; intuition lia |]).
    constructor.
Qed.
