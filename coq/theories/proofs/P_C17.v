(** C17 — lemmas: induction principle, freshness, clone = renaming on the class, closedness. *)
From Coq Require Import ZArith List Bool String Lia.
From LV Require Import models.M_C17.
Import ListNotations.
Open Scope Z_scope.

(** * induction over unit trees *)
Lemma unit_ind' (P : unit -> Prop) :
  (forall i k nm par tab occs ch, Forall P ch -> P (Unit i k nm par tab occs ch)) -> forall u, P u.
Proof.
  intro H. fix IH 1. intros [i k nm par tab occs ch]. apply H.
  induction ch as [|c r IHr]; constructor; [apply IH | apply IHr].
Qed.

(** * small facts *)
Lemma memZ_In : forall x l, memZ x l = true <-> In x l.
Proof.
  intros x l. unfold memZ. rewrite existsb_exists. split.
  - intros [y [Hy E]]. apply Z.eqb_eq in E. subst. exact Hy.
  - intro H. exists x. split; [exact H | apply Z.eqb_refl].
Qed.
Lemma memZ_false : forall x l, memZ x l = false <-> ~ In x l.
Proof.
  intros x l. split.
  - intros H Hin. apply memZ_In in Hin. congruence.
  - intro H. destruct (memZ x l) eqn:E; [|reflexivity]. apply memZ_In in E. contradiction.
Qed.

Lemma opt_sid_eqb_eq : forall a b, opt_sid_eqb a b = true -> a = b.
Proof.
  intros [x|] [y|] H; simpl in H; try discriminate; [apply Z.eqb_eq in H; subst|]; reflexivity.
Qed.

Lemma map_ext_Forall {A B} (f g : A -> B) (l : list A) :
  Forall (fun x => f x = g x) l -> map f l = map g l.
Proof. induction 1; simpl; [reflexivity | f_equal; assumption]. Qed.

Lemma flat_map_map {A B C} (f : A -> B) (g : B -> list C) (l : list A) :
  flat_map g (map f l) = flat_map (fun x => g (f x)) l.
Proof. induction l; simpl; [reflexivity | rewrite IHl; reflexivity]. Qed.

Lemma flat_map_ext_Forall {A B} (f g : A -> list B) (l : list A) :
  Forall (fun x => f x = g x) l -> flat_map f l = flat_map g l.
Proof. induction 1; simpl; [reflexivity | rewrite H, IHForall; reflexivity]. Qed.

Lemma map_flat_map {A B C} (f : B -> C) (g : A -> list B) (l : list A) :
  map f (flat_map g l) = flat_map (fun x => map f (g x)) l.
Proof. induction l; simpl; [reflexivity | rewrite map_app, IHl; reflexivity]. Qed.

(** * ids of the clone *)
Lemma ids_clone_u : forall d u above par, ids (clone_u d above par u) = map (fun i => i + d) (ids u).
Proof.
  intros d u. induction u as [i k nm p tab occs ch IH] using unit_ind'. intros above par.
  simpl. f_equal. rewrite flat_map_map, map_flat_map.
  apply flat_map_ext_Forall. eapply Forall_impl; [|exact IH]. intros c Hc. apply Hc.
Qed.

Lemma ids_clone : forall d ctx u, ids (clone d ctx u) = map (fun i => i + d) (ids u).
Proof. intros. apply ids_clone_u. Qed.

Lemma bounded_parts : forall d ctx u, bounded d ctx u = true ->
  (forall i, In i (ids u) -> 0 <= i < d) /\ (forall i, In i (refs u) -> 0 <= i < d) /\
  (forall i, In i (map fst ctx) -> 0 <= i < d) /\ nodupZ (ids u) = true /\
  (forall i, In i (map fst ctx) -> ~ In i (ids u)).
Proof.
  intros d ctx u H. unfold bounded in H.
  repeat (apply andb_prop in H; destruct H as [H ?]).
  assert (R : forall l, forallb (in_range d) l = true -> forall i, In i l -> 0 <= i < d).
  { intros l Hl i Hi. rewrite forallb_forall in Hl. specialize (Hl i Hi). unfold in_range in Hl.
    apply andb_prop in Hl. destruct Hl as [A B]. apply Z.leb_le in A. apply Z.ltb_lt in B. lia. }
  repeat split; try (apply R; assumption); try assumption.
  - apply (R _ H i H4).
  - apply (R _ H i H4).
  - apply (R _ H3 i H4).
  - apply (R _ H3 i H4).
  - apply (R _ H2 i H4).
  - apply (R _ H2 i H4).
  - intros i Hi Hin. rewrite forallb_forall in H0. specialize (H0 i Hi).
    apply negb_true_iff in H0. apply memZ_false in H0. contradiction.
Qed.

(** the new scope objects are new: none of them is a scope of the original unit or of its context *)
Lemma clone_fresh : forall d ctx u, bounded d ctx u = true ->
  forall i, In i (ids (clone d ctx u)) -> ~ In i (ids u) /\ ~ In i (map fst ctx) /\ ~ In i (refs u).
Proof.
  intros d ctx u B i Hi. destruct (bounded_parts _ _ _ B) as [Hid [Hr [Hc _]]].
  rewrite ids_clone in Hi. apply in_map_iff in Hi. destruct Hi as [j [E Hj]]. subst i.
  pose proof (Hid j Hj) as Hjr.
  repeat split; intro H; [apply Hid in H | apply Hc in H | apply Hr in H]; lia.
Qed.

(** * look-up through a renamed chain *)
Definition ren_chain (f : sid -> sid) (c : chain) : chain := map (fun it => (f (fst it), snd it)) c.
Lemma ren_chain_cons : forall f i t c, ren_chain f ((i, t) :: c) = (f i, t) :: ren_chain f c.
Proof. reflexivity. Qed.

Lemma lookup_scope_ren : forall f c n, lookup_scope (ren_chain f c) n = option_map f (lookup_scope c n).
Proof.
  intros f c n. induction c as [|[i t] r IH]; simpl; [reflexivity|].
  destruct (thas t n); [reflexivity | exact IH].
Qed.
Arguments ren_chain : simpl never.

Lemma ren_in : forall d own i, In i own -> ren d own i = i + d.
Proof. intros. unfold ren. apply memZ_In in H. rewrite H. reflexivity. Qed.
Lemma ren_out : forall d own i, ~ In i own -> ren d own i = i.
Proof. intros. unfold ren. apply memZ_false in H. rewrite H. reflexivity. Qed.

Lemma outside_ren : forall d own r, outside own r = true -> option_map (ren d own) r = r.
Proof.
  intros d own [i|] H; simpl in *; [|reflexivity].
  apply negb_true_iff in H. apply memZ_false in H. rewrite ren_out by assumption. reflexivity.
Qed.

Lemma resc_ren : forall d own c n r,
  wf_ref own c n r = true ->
  resc (ren_chain (ren d own) c) n r = option_map (ren d own) r.
Proof.
  intros d own c n r H. unfold resc, wf_ref in *. rewrite lookup_scope_ren.
  destruct (lookup_scope c n) as [j|]; simpl.
  - apply opt_sid_eqb_eq in H. subst r. reflexivity.
  - symmetry. apply outside_ren. exact H.
Qed.

Lemma clone_occ_ren : forall d own c o,
  wf_ref own c (o_name o) (o_ref o) = true ->
  clone_occ (ren_chain (ren d own) c) o = map_occ (ren d own) o.
Proof. intros. unfold clone_occ, map_occ. rewrite resc_ren by assumption. reflexivity. Qed.

Lemma clone_tref_ren : forall d own c t,
  wf_tref own c t = true -> clean_tref own t = true ->
  clone_tref (ren_chain (ren d own) c) t = map_tref (ren d own) t.
Proof.
  intros d own c [n r b] W C. unfold clone_tref, map_tref, wf_tref, clean_tref in *. simpl in *.
  destruct b; simpl in *.
  - rewrite resc_ren by assumption. reflexivity.
  - rewrite outside_ren by assumption. reflexivity.
Qed.

Lemma member_id_In : forall ch n j, member_id ch n = Some j -> In j (flat_map ids ch).
Proof.
  induction ch as [|u r IH]; simpl; intros n j H; [discriminate|].
  destruct (is_proc_kind (u_kind u) && String.eqb (u_name u) n).
  - inversion H; subst. apply in_or_app. left. destruct u; simpl. left. reflexivity.
  - apply in_or_app. right. eapply IH. exact H.
Qed.

Lemma clone_link_ren : forall d own ch n l,
  (forall j, In j (flat_map ids ch) -> In j own) ->
  clean_link own ch n l = true ->
  clone_link d ch n l = map_link (ren d own) l.
Proof.
  intros d own ch n l Hsub C. destruct l as [|i|i]; simpl in *; [reflexivity| |].
  - destruct (member_id ch n) as [j|] eqn:E.
    + apply Z.eqb_eq in C. subst i. rewrite ren_in; [reflexivity|]. apply Hsub. eapply member_id_In. exact E.
    + apply negb_true_iff in C. apply memZ_false in C. rewrite ren_out by assumption. reflexivity.
  - apply negb_true_iff in C. apply memZ_false in C. rewrite ren_out by assumption. reflexivity.
Qed.

(** * on well-scoped clean units, clone is the renaming of the unit's own scopes *)
Lemma clone_u_rename : forall d own u above par,
  (forall i, In i (ids u) -> In i own) ->
  wf_u own above par u = true -> clean_u own u = true ->
  clone_u d (ren_chain (ren d own) above) (option_map (ren d own) par) u = rename (ren d own) u.
Proof.
  intros d own u. induction u as [i k nm p tab occs ch IH] using unit_ind'.
  intros above par Hsub W C. simpl in W, C.
  apply andb_prop in W. destruct W as [W Wch]. apply andb_prop in W. destruct W as [W Wtab].
  apply andb_prop in W. destruct W as [Wp Wocc]. apply andb_prop in C. destruct C as [Ctab Cch].
  apply opt_sid_eqb_eq in Wp. subst p.
  assert (Hi : ren d own i = i + d) by (apply ren_in; apply Hsub; simpl; left; reflexivity).
  assert (Hc : (i + d, tab) :: ren_chain (ren d own) above = ren_chain (ren d own) ((i, tab) :: above)).
  { rewrite ren_chain_cons, Hi. reflexivity. }
  simpl. rewrite Hc, Hi. f_equal.
  - (* table *)
    apply map_ext_Forall. apply Forall_forall. intros [n e] Hin.
    rewrite forallb_forall in Wtab, Ctab. specialize (Wtab _ Hin). specialize (Ctab _ Hin). simpl in Wtab, Ctab.
    apply andb_prop in Ctab. destruct Ctab as [Cl Ct].
    unfold clone_entry, map_entry. simpl. f_equal. f_equal.
    + apply clone_link_ren; [|exact Cl]. intros j Hj. apply Hsub. simpl. right. exact Hj.
    + apply map_ext_Forall. apply Forall_forall. intros t Ht.
      rewrite forallb_forall in Wtab, Ct. apply clone_tref_ren; [apply Wtab | apply Ct]; exact Ht.
  - (* occurrences *)
    apply map_ext_Forall. apply Forall_forall. intros o Ho.
    rewrite forallb_forall in Wocc. apply clone_occ_ren. apply Wocc. exact Ho.
  - (* children *)
    apply map_ext_Forall. rewrite Forall_forall in IH |- *. intros c Hin.
    rewrite forallb_forall in Wch, Cch.
    replace (Some (i + d)) with (option_map (ren d own) (Some i)) by (simpl; rewrite Hi; reflexivity).
    apply IH; [exact Hin | | apply Wch; exact Hin | apply Cch; exact Hin].
    intros j Hj. apply Hsub. simpl. right. apply in_flat_map. exists c. split; assumption.
Qed.

Lemma ren_chain_ctx : forall d own ctx, (forall i, In i (map fst ctx) -> ~ In i own) -> ren_chain (ren d own) ctx = ctx.
Proof.
  intros d own ctx H. induction ctx as [|[i t] r IH]; [reflexivity|]. rewrite ren_chain_cons.
  rewrite ren_out by (apply H; simpl; left; reflexivity). f_equal. apply IH. intros j Hj. apply H. simpl. right. exact Hj.
Qed.

Theorem clone_iso : forall d ctx u,
  bounded d ctx u = true -> wf ctx u = true -> clean u = true ->
  clone d ctx u = rename (ren d (ids u)) u.
Proof.
  intros d ctx u B W C. destruct (bounded_parts _ _ _ B) as [_ [_ [_ [_ Hctx]]]].
  unfold wf in W. apply andb_prop in W. destruct W as [Wp W]. unfold clean in C.
  unfold clone.
  rewrite <- (ren_chain_ctx d (ids u) ctx Hctx) at 1.
  rewrite <- (outside_ren d (ids u) (u_par u) Wp) at 1.
  apply clone_u_rename; [auto | exact W | exact C].
Qed.

(** * the part that needs no cleanliness: ids, parents, table keys and tags, all symbol occurrences of the IR *)
Lemma clone_u_skeleton : forall d own u above par,
  (forall i, In i (ids u) -> In i own) ->
  wf_u own above par u = true ->
  skeleton (clone_u d (ren_chain (ren d own) above) (option_map (ren d own) par) u) = skeleton (rename (ren d own) u).
Proof.
  intros d own u. induction u as [i k nm p tab occs ch IH] using unit_ind'.
  intros above par Hsub W. simpl in W.
  apply andb_prop in W. destruct W as [W Wch]. apply andb_prop in W. destruct W as [W Wtab].
  apply andb_prop in W. destruct W as [Wp Wocc].
  apply opt_sid_eqb_eq in Wp. subst p.
  assert (Hi : ren d own i = i + d) by (apply ren_in; apply Hsub; simpl; left; reflexivity).
  assert (Hc : (i + d, tab) :: ren_chain (ren d own) above = ren_chain (ren d own) ((i, tab) :: above)).
  { rewrite ren_chain_cons, Hi. reflexivity. }
  simpl. rewrite Hc, Hi. f_equal.
  - rewrite !map_map. apply map_ext. intros [n e]. reflexivity.
  - apply map_ext_Forall. apply Forall_forall. intros o Ho.
    rewrite forallb_forall in Wocc. apply clone_occ_ren. apply Wocc. exact Ho.
  - rewrite !map_map. apply map_ext_Forall. rewrite Forall_forall in IH |- *. intros c Hin.
    rewrite forallb_forall in Wch.
    replace (Some (i + d)) with (option_map (ren d own) (Some i)) by (simpl; rewrite Hi; reflexivity).
    apply IH; [exact Hin | | apply Wch; exact Hin].
    intros j Hj. apply Hsub. simpl. right. apply in_flat_map. exists c. split; assumption.
Qed.

Theorem clone_skeleton_iso : forall d ctx u,
  bounded d ctx u = true -> wf ctx u = true ->
  skeleton (clone d ctx u) = skeleton (rename (ren d (ids u)) u).
Proof.
  intros d ctx u B W. destruct (bounded_parts _ _ _ B) as [_ [_ [_ [_ Hctx]]]].
  unfold wf in W. apply andb_prop in W. destruct W as [Wp W].
  unfold clone.
  rewrite <- (ren_chain_ctx d (ids u) ctx Hctx) at 1.
  rewrite <- (outside_ren d (ids u) (u_par u) Wp) at 1.
  apply clone_u_skeleton; [auto | exact W].
Qed.

(** * references of a renamed unit *)
Lemma opt_list_map {A B} (f : A -> B) (o : option A) : opt_list (option_map f o) = map f (opt_list o).
Proof. destruct o; reflexivity. Qed.

Lemma entry_refs_map : forall f ne, entry_refs (snd (map_entry f ne)) = map f (entry_refs (snd ne)).
Proof.
  intros f [n [tg l ts]]. unfold entry_refs. simpl. rewrite map_app. f_equal.
  - destruct l; reflexivity.
  - rewrite flat_map_map, map_flat_map. apply flat_map_ext. intros t. simpl. apply opt_list_map.
Qed.

Lemma refs_rename : forall f u, refs (rename f u) = map f (refs u).
Proof.
  intros f u. induction u as [i k nm p tab occs ch IH] using unit_ind'. simpl.
  rewrite !map_app. f_equal; [apply opt_list_map|]. f_equal; [|f_equal].
  - unfold table_refs. rewrite flat_map_map, map_flat_map. apply flat_map_ext. intros ne. apply entry_refs_map.
  - unfold occ_refs. rewrite flat_map_map, map_flat_map. apply flat_map_ext. intros o. simpl. apply opt_list_map.
  - rewrite flat_map_map, map_flat_map. apply flat_map_ext_Forall. exact IH.
Qed.

Lemma ids_rename : forall f u, ids (rename f u) = map f (ids u).
Proof.
  intros f u. induction u as [i k nm p tab occs ch IH] using unit_ind'. simpl. f_equal.
  rewrite flat_map_map, map_flat_map. apply flat_map_ext_Forall. exact IH.
Qed.

(** no scope mentioned by the clone is a scope object of the original unit *)
Theorem clone_closed : forall d ctx u,
  bounded d ctx u = true -> wf ctx u = true -> clean u = true ->
  forall r, In r (refs (clone d ctx u)) -> ~ In r (ids u).
Proof.
  intros d ctx u B W C r Hr. rewrite (clone_iso _ _ _ B W C) in Hr.
  destruct (bounded_parts _ _ _ B) as [Hid _].
  rewrite refs_rename in Hr. apply in_map_iff in Hr. destruct Hr as [j [E Hj]]. subst r.
  unfold ren. destruct (memZ j (ids u)) eqn:M.
  - apply memZ_In in M. intro H. apply Hid in H. apply Hid in M. lia.
  - apply memZ_false in M. exact M.
Qed.

Lemma closed_wrt_spec : forall own u, closed_wrt own u = true <-> (forall r, In r (refs u) -> ~ In r own).
Proof.
  intros own u. unfold closed_wrt. rewrite forallb_forall. split; intros H r Hr.
  - specialize (H r Hr). apply negb_true_iff in H. apply memZ_false in H. exact H.
  - apply negb_true_iff. apply memZ_false. apply H. exact Hr.
Qed.
