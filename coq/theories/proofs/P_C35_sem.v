(** C35 — the MiniC value of the modelled C expression equals the Fortran value on the integer-typed class. *)
From Coq Require Import ZArith QArith List Bool String Lia ZifyBool.
From LV Require Import Base.Expr Base.MiniF models.M_C36 models.M_C35 proofs.P_C36_base proofs.P_C36_sem proofs.P_C36.
Import ListNotations.
Open Scope Z_scope.

Lemma assoc_is_arr_gen {A} (l : list (string * A)) a v : assoc_s l a = Some v -> is_arr (map fst l) a = true.
Proof.
  unfold is_arr. induction l as [|[k w] r IH]; cbn [assoc_s map fst existsb]; [discriminate|].
  destruct (String.eqb k a) eqn:E.
  - intros _. rewrite String.eqb_sym, E. reflexivity.
  - intros H. rewrite (IH H). apply orb_true_r.
Qed.

Section CPreservation.
  Variable byref : list string.
  Variable decl : list (string * list Z).
  Let arrs := map fst decl.
  Variables (rho : env) (ce : cenv).
  Hypothesis Hrel : c_env_rel byref decl rho ce.
  Hypothesis Hok : arrs_ok arrs = true.
  (** every declared extent is positive *)
  Hypothesis Hpos : forall a sh, shape_of decl a = Some sh -> Forall (fun n => 0 < n) sh.

  (** value of the C reading of a Python-side structural AST *)
  Definition EC (p : pyexpr) : option cval := evalC ce (py2c byref p).

  Lemma EC_bin op cop a b x y :
    py2c byref (PBin op a b) = CBin cop (py2c byref a) (py2c byref b) ->
    cop <> OAnd -> cop <> OOr ->
    EC a = Some x -> EC b = Some y -> EC (PBin op a b) = c_arith cop x y.
  Proof.
    unfold EC. intros E Hn1 Hn2 Ha Hb. rewrite E. destruct cop; try congruence; cbn [evalC]; rewrite Ha, Hb; reflexivity.
  Qed.

  Lemma EC_mul a b x y : EC a = Some (CI x) -> EC b = Some (CI y) -> EC (PBin BMul a b) = Some (CI (x * y)).
  Proof. unfold EC. intros Ha Hb. cbn [py2c evalC]. rewrite Ha, Hb. reflexivity. Qed.
  Lemma EC_add a b x y : EC a = Some (CI x) -> EC b = Some (CI y) -> EC (PBin BAdd a b) = Some (CI (x + y)).
  Proof. unfold EC. intros Ha Hb. cbn [py2c evalC]. rewrite Ha, Hb. reflexivity. Qed.
  Lemma EC_sub a b x y : EC a = Some (CI x) -> EC b = Some (CI y) -> EC (PBin BSub a b) = Some (CI (x - y)).
  Proof. unfold EC. intros Ha Hb. cbn [py2c evalC]. rewrite Ha, Hb. reflexivity. Qed.
  Lemma EC_neg a x : EC a = Some (CI x) -> EC (PNeg a) = Some (CI (- x)).
  Proof. unfold EC. intros Ha. cbn [py2c evalC]. rewrite Ha. reflexivity. Qed.

  Lemma EC_lit v : EC (lit_ast v) = Some (CI v).
  Proof. unfold lit_ast, EC. destruct (v <? 0) eqn:E; cbn; do 2 f_equal; lia. Qed.

  Lemma EC_chain_mul r : forall xs p0 x0,
    EC p0 = Some (CI x0) -> Forall2 (fun p x => EC p = Some (CI x)) r xs ->
    EC (fold_left (PBin BMul) r p0) = Some (CI (x0 * prodz xs)).
  Proof.
    induction r as [|p r IH]; intros xs p0 x0 Hp0 HF; inversion HF as [|? y ? ys Hp Hr]; subst; cbn [fold_left prodz].
    - rewrite Hp0. do 2 f_equal. lia.
    - rewrite (IH ys (PBin BMul p0 p) (x0 * y)); [do 2 f_equal; lia | apply EC_mul; assumption | exact Hr].
  Qed.

  Lemma EC_prod_ast cs ps vs :
    Forall2 (fun p x => EC p = Some (CI x)) ps vs ->
    Forall2 (fun c x => is_m1 c = true -> x = -1) cs vs ->
    ps <> [] ->
    EC (prod_ast cs ps) = Some (CI (prodz vs)).
  Proof.
    intros HP HM Hne.
    assert (Hchain : EC (chain BMul ps) = Some (CI (prodz vs))).
    { destruct ps as [|p0 r]; [congruence|]. inversion HP as [|? x0 ? xs Hq0 Hr]; subst.
      cbn [chain prodz]. apply EC_chain_mul; assumption. }
    destruct cs as [|c0 [|c1 [|c2 cr]]].
    1, 2, 4: rewrite prod_ast_chain; [exact Hchain | intros ? ? [=]].
    destruct (is_m1 c0) eqn:Em.
    - inversion HM as [|? x0 ? vs1 Hm0 HM1]; subst. inversion HM1 as [|? x1 ? vs2 Hm1 HM2]; subst. inversion HM2; subst.
      inversion HP as [|p0 ? ps1 ? Hp0 HP1]; subst. inversion HP1 as [|p1 ? ps2 ? Hp1 HP2]; subst. inversion HP2; subst.
      cbn [prod_ast]. rewrite Em. rewrite (EC_neg _ _ Hp1). rewrite (Hm0 Em). cbn [prodz]. do 2 f_equal. lia.
    - rewrite prod_ast_chain; [exact Hchain|]. intros ? ? [= <- <-]. exact Em.
  Qed.

  Lemma EC_sum_fold r : forall xs acc a,
    EC acc = Some (CI a) ->
    Forall2 (fun (np : bool * pyexpr) x => EC (snd np) = Some (CI (if fst np then - x else x))) r xs ->
    EC (fold_left (fun acc (np : bool * pyexpr) => PBin (if fst np then BSub else BAdd) acc (snd np)) r acc)
    = Some (CI (a + sumz xs)).
  Proof.
    induction r as [|[n p] r IH]; intros xs acc a Ha HF; inversion HF as [|? x ? ys Hp Hr]; subst; cbn [fold_left sumz].
    - rewrite Ha. do 2 f_equal. lia.
    - cbn [fst snd] in *.
      rewrite (IH ys _ (a + x)); [do 2 f_equal; lia | | exact Hr].
      destruct n; [rewrite (EC_sub _ _ _ _ Ha Hp) | rewrite (EC_add _ _ _ _ Ha Hp)]; do 2 f_equal; lia.
  Qed.

  Lemma EC_sum_ast ts xs :
    Forall2 (fun (np : bool * pyexpr) x => EC (snd np) = Some (CI (if fst np then - x else x))) ts xs ->
    ts <> [] -> EC (sum_ast ts) = Some (CI (sumz xs)).
  Proof.
    intros HF Hne. destruct ts as [|[n0 p0] r]; [congruence|].
    inversion HF as [|? x0 ? ys Hs0 Hr]; subst. cbn [sum_ast sumz]. cbn [fst snd] in Hs0.
    apply EC_sum_fold; [|exact Hr].
    destruct n0; [|exact Hs0]. rewrite (EC_neg _ _ Hs0). do 2 f_equal. lia.
  Qed.

  (** the two facts the induction carries for a tree: its value, and (as a [-] term of a Sum) the value of its tail *)
  Definition facts (e : expr) (v : Z) : Prop :=
    EC (py_ast arrs e false) = Some (CI v) /\
    (term_neg e = true -> EC (py_ast arrs e true) = Some (CI (- v))).

  Lemma facts_term e v : facts e v ->
    EC (snd (term_neg e, py_ast arrs e true)) = Some (CI (if fst (term_neg e, py_ast arrs e true) then - v else v)).
  Proof.
    intros [HA HB]. cbn [fst snd]. destruct (term_neg e) eqn:Et; [apply HB; reflexivity|].
    rewrite py_ast_t by exact Et. exact HA.
  Qed.

  Lemma facts_sum2 x y vx vy : facts x vx -> facts y vy -> facts (ESum false [x; y]) (vx + vy).
  Proof.
    intros Hx Hy. split; [|discriminate]. cbn [py_ast map].
    replace (vx + vy) with (sumz [vx; vy]) by (cbn; lia).
    apply EC_sum_ast; [|discriminate].
    constructor; [apply facts_term, Hx|]. constructor; [apply facts_term, Hy | constructor].
  Qed.

  Lemma facts_M1 : facts M1 (-1).
  Proof. split; [reflexivity | intros _; reflexivity]. Qed.

  Lemma facts_shift_idx d k : facts d k -> facts (shift_idx d) (k - 1).
  Proof.
    intros Hd.
    assert (Hgen : facts (ESum false [d; M1]) (k - 1)).
    { replace (k - 1) with (k + -1) by lia. apply facts_sum2; [exact Hd | exact facts_M1]. }
    destruct d; try exact Hgen.
    - (* EInt *) destruct v; try exact Hgen. destruct Hd as [HA _]. cbn in HA. injection HA as <-. exact facts_M1.
    - (* ESum *) split; [|discriminate]. destruct Hd as [HA _].
      cbn [shift_idx py_ast]. cbn [py_ast] in HA. rewrite map_app. cbn [map].
      change (term_neg M1) with true. change (py_ast arrs M1 true) with (PNum 1).
      destruct cs as [|c0 r]; [discriminate|].
      rewrite sum_ast_snoc by discriminate.
      rewrite (EC_sub _ (PNum 1) _ 1 HA eq_refl). reflexivity.
  Qed.

  Lemma facts_scale n e v : n <> -1 -> facts e v -> facts (EProd false [EInt n; e]) (n * v).
  Proof.
    intros Hn [HA _]. split.
    - cbn [py_ast map andb]. cbn [prod_ast is_m1].
      destruct (n =? -1) eqn:E; [lia|]. cbn [chain fold_left].
      rewrite (EC_mul _ _ n v (EC_lit n) HA). reflexivity.
    - cbn [term_neg is_py_m1]. discriminate.
  Qed.

  Lemma facts_flat_tree : forall ds sh ks,
    Forall2 facts ds ks -> Forall (fun n => 0 < n) sh -> ds <> [] ->
    facts (flat_tree sh ds) (flat sh ks).
  Proof.
    induction ds as [|d r IH]; intros sh ks HF Hsh Hne; [congruence|].
    inversion HF as [|? k ? kr Hd Hr]; subst.
    destruct r as [|d2 r'].
    - inversion Hr; subst. destruct sh; exact Hd.
    - destruct sh as [|n sh']; [inversion Hr; subst; exact Hd|].
      inversion Hsh as [|? ? Hn Hsh']; subst.
      inversion Hr as [|? k2 ? kr' Hd2 Hr']; subst.
      change (flat_tree (n :: sh') (d :: d2 :: r')) with (ESum false [d; EProd false [EInt n; flat_tree sh' (d2 :: r')]]).
      change (flat (n :: sh') (k :: k2 :: kr')) with (k + n * flat sh' (k2 :: kr')).
      apply facts_sum2; [exact Hd|]. apply facts_scale; [lia|]. apply IH; [exact Hr | exact Hsh' | discriminate].
  Qed.

  (** * Structural facts about [c_pre] on the class *)
  Lemma assoc_is_arr (a : string) sh : shape_of decl a = Some sh -> is_arr arrs a = true.
  Proof. apply assoc_is_arr_gen. Qed.

  Lemma not_arr_assoc (a : string) : is_arr arrs a = false -> shape_of decl a = None.
  Proof.
    intros H. destruct (shape_of decl a) eqn:E; [|reflexivity]. rewrite (assoc_is_arr _ _ E) in H. discriminate.
  Qed.

  Lemma c_pre_call f args :
    c_pre decl (ECall f args) =
    match shape_of decl f with
    | Some sh => ECall f [flat_tree sh (map shift_idx args)]
    | None => ECall (if String.eqb f "mod" && existsb has_dcall args then "fmod"%string else rename_c f)
                    (map (c_pre decl) args)
    end.
  Proof. reflexivity. Qed.

  (** the integer class has no double-valued intrinsic, so [mod] stays [%] *)
  Lemma arr_not_dbl f : is_arr arrs f = true -> dbl_name f = false.
  Proof.
    intros H. unfold is_arr in H. apply existsb_exists in H. destruct H as (a & Hin & Heq).
    apply String.eqb_eq in Heq. subst a.
    unfold arrs_ok in Hok. rewrite forallb_forall in Hok. specialize (Hok f Hin). apply negb_true_iff in Hok.
    unfold intrinsic_name in Hok. cbn [existsb] in Hok. rewrite !orb_false_iff in Hok.
    destruct Hok as (E1 & E2 & E3 & E4 & E5 & E6 & _).
    unfold dbl_name. cbn [existsb]. rewrite E3, E4, E5, E6. reflexivity.
  Qed.

  Lemma int_no_dcall : forall e, c_int_class arrs e = true -> has_dcall e = false.
  Proof.
    assert (Hl : forall cs, Forall (fun e => c_int_class arrs e = true -> has_dcall e = false) cs ->
                 forallb (c_int_class arrs) cs = true -> existsb has_dcall cs = false).
    { induction 1 as [|c r Hc _ IH]; [reflexivity|]. cbn [forallb existsb]. intros H.
      apply andb_prop in H. destruct H as [H1 H2]. rewrite (Hc H1), (IH H2). reflexivity. }
    induction e using expr_ind'; cbn [c_int_class has_dcall]; intros Hc; try reflexivity; try discriminate.
    - apply andb_prop in Hc. destruct Hc as [_ Hc]. apply Hl; assumption.
    - apply andb_prop in Hc. destruct Hc as [Hc _]. apply andb_prop in Hc. destruct Hc as [_ Hc]. apply Hl; assumption.
    - apply andb_prop in Hc. destruct Hc as [H1 H2]. rewrite (IHe1 H1), (IHe2 H2). reflexivity.
    - apply andb_prop in Hc. destruct Hc as [Hca Hk]. rewrite (Hl args H Hca), orb_false_r.
      destruct (is_arr arrs f) eqn:Ea; [apply arr_not_dbl, Ea|].
      apply andb_prop in Hk. destruct Hk as [Hm _]. apply String.eqb_eq in Hm. subst f. reflexivity.
  Qed.

  Lemma c_is_py_m1_pre c : is_py_m1 (c_pre decl c) = is_py_m1 c.
  Proof. destruct c; try reflexivity. rewrite c_pre_call. destruct (shape_of decl f); reflexivity. Qed.
  Lemma c_is_m1_pre c : is_m1 (c_pre decl c) = is_m1 c.
  Proof. destruct c; try reflexivity. rewrite c_pre_call. destruct (shape_of decl f); reflexivity. Qed.
  Lemma c_term_neg_pre c : term_neg (c_pre decl c) = term_neg c.
  Proof.
    destruct c; try reflexivity.
    - cbn [c_pre term_neg]. destruct paren; [reflexivity|]. destruct cs as [|c0 r]; [reflexivity|].
      cbn [map]. apply c_is_py_m1_pre.
    - rewrite c_pre_call. destruct (shape_of decl f); reflexivity.
  Qed.

  Lemma ints_no_dcall args : forallb (c_int_class arrs) args = true -> existsb has_dcall args = false.
  Proof.
    induction args as [|a r IH]; [reflexivity|]. cbn [forallb existsb]. intros H.
    apply andb_prop in H. destruct H as [H1 H2]. rewrite (int_no_dcall a H1), (IH H2). reflexivity.
  Qed.

  (** no array reference: [c_pre] only renames intrinsics; on the integer class (only [mod]) it is the identity *)
  Lemma c_pre_id : forall e, no_arr arrs e = true -> c_int_class arrs e = true -> c_pre decl e = e.
  Proof.
    assert (Hmap : forall cs, Forall (fun e => no_arr arrs e = true -> c_int_class arrs e = true -> c_pre decl e = e) cs ->
                   forallb (no_arr arrs) cs = true -> forallb (c_int_class arrs) cs = true -> map (c_pre decl) cs = cs).
    { induction 1 as [|c r Hc _ IH]; [reflexivity|]. cbn [forallb map]. intros H1 H2.
      apply andb_prop in H1. apply andb_prop in H2. destruct H1, H2. rewrite Hc, IH by assumption. reflexivity. }
    induction e using expr_ind'; cbn [no_arr c_int_class]; intros Hn Hc; try reflexivity; try discriminate.
    - cbn [c_pre]. apply andb_prop in Hc. destruct Hc as [_ Hc]. rewrite Hmap by assumption. reflexivity.
    - cbn [c_pre]. apply andb_prop in Hc. destruct Hc as [Hc _]. apply andb_prop in Hc. destruct Hc as [_ Hc].
      rewrite Hmap by assumption. reflexivity.
    - apply andb_prop in Hn. destruct Hn as [Hn1 Hn2]. apply andb_prop in Hc. destruct Hc as [Hc1 Hc2].
      cbn [c_pre]. rewrite IHe1, IHe2 by assumption. reflexivity.
    - apply andb_prop in Hn. destruct Hn as [Hf Hn]. apply negb_true_iff in Hf.
      apply andb_prop in Hc. destruct Hc as [Hca Hk]. rewrite Hf in Hk. apply andb_prop in Hk. destruct Hk as [Hm _].
      apply String.eqb_eq in Hm. subst f.
      pose proof (ints_no_dcall args Hca) as Hd.
      rewrite c_pre_call, (not_arr_assoc _ Hf), Hd. cbn [andb]. rewrite andb_false_r. change (rename_c "mod") with "mod"%string.
      rewrite Hmap by assumption. reflexivity.
  Qed.

  Lemma c_not_intrinsic f : is_arr arrs f = true -> forall vs, intrinsic f vs = None.
  Proof.
    intros H vs. unfold is_arr in H. apply existsb_exists in H. destruct H as (a & Hin & Heq).
    apply String.eqb_eq in Heq. subst a.
    unfold arrs_ok in Hok. rewrite forallb_forall in Hok. specialize (Hok f Hin). apply negb_true_iff in Hok.
    unfold intrinsic_name in Hok. cbn [existsb] in Hok. rewrite !orb_false_iff in Hok.
    destruct Hok as (E1 & E2 & E3 & E4 & E5 & E6 & _).
    unfold intrinsic. rewrite E1, E2, E3, E4, E5. reflexivity.
  Qed.

  Definition Pc (e : expr) : Prop :=
    c_int_class arrs e = true -> forall v, evalZ rho e = Some v -> facts (c_pre decl e) v.

  Lemma c_children_false cs vs :
    Forall Pc cs -> forallb (c_int_class arrs) cs = true ->
    Forall2 (fun c x => evalZ rho c = Some x) cs vs ->
    Forall2 (fun p x => EC p = Some (CI x)) (map (fun c => py_ast arrs c false) (map (c_pre decl) cs)) vs.
  Proof.
    intros HF Hc H2. induction H2 as [|c x cs vs Hx _ IH]; [constructor|].
    inversion HF as [|? ? Hc0 HF']; subst. cbn [forallb] in Hc. apply andb_prop in Hc. destruct Hc as [Hc1 Hc2].
    cbn [map]. constructor; [apply (Hc0 Hc1 x Hx) | apply IH; assumption].
  Qed.

  Lemma c_children_m1 cs vs :
    Forall2 (fun c x => evalZ rho c = Some x) cs vs ->
    Forall2 (fun c x => is_m1 c = true -> x = -1) (map (c_pre decl) cs) vs.
  Proof.
    intros H2. induction H2 as [|c x cs vs Hx _ IH]; [constructor|].
    cbn [map]. constructor; [|exact IH].
    rewrite c_is_m1_pre. intros Hm. rewrite (is_m1_val rho c Hm) in Hx. congruence.
  Qed.

  Lemma c_children_term cs vs :
    Forall Pc cs -> forallb (c_int_class arrs) cs = true ->
    Forall2 (fun c x => evalZ rho c = Some x) cs vs ->
    Forall2 (fun (np : bool * pyexpr) x => EC (snd np) = Some (CI (if fst np then - x else x)))
            (map (fun c => (term_neg c, py_ast arrs c true)) (map (c_pre decl) cs)) vs.
  Proof.
    intros HF Hc H2. induction H2 as [|c x cs vs Hx _ IH]; [constructor|].
    inversion HF as [|? ? Hc0 HF']; subst. cbn [forallb] in Hc. apply andb_prop in Hc. destruct Hc as [Hc1 Hc2].
    cbn [map]. constructor; [|apply IH; assumption].
    apply facts_term. apply (Hc0 Hc1 x Hx).
  Qed.

  Lemma Pc_all : forall e, Pc e.
  Proof.
    induction e using expr_ind'; unfold Pc; intros Hc w Hv; try discriminate.
    - (* EInt *) cbn in Hv. injection Hv as <-. split; [apply EC_lit | discriminate].
    - (* EPy *) cbn in Hv. injection Hv as <-. split; [apply EC_lit | discriminate].
    - (* EVar *) cbn in Hv. injection Hv as <-. split; [|discriminate].
      unfold EC. cbn [c_pre py_ast py2c]. destruct Hrel as (Hval & Hptr & _).
      destruct (existsb (String.eqb x) byref) eqn:Eb; cbn [evalC].
      + rewrite (Hptr x Eb). reflexivity.
      + rewrite (Hval x Eb). reflexivity.
    - (* ESum *) cbn [c_int_class] in Hc. apply andb_prop in Hc. destruct Hc as [Hne Hc].
      rewrite evalZ_sum in Hv. destruct (omap_list (evalZ rho) cs) as [vs|] eqn:E; [|discriminate].
      cbn [obind] in Hv. injection Hv as <-. apply omap_list_Forall2 in E.
      split; [|discriminate]. cbn [c_pre py_ast].
      apply EC_sum_ast; [apply c_children_term; assumption|].
      destruct cs; [discriminate | discriminate].
    - (* EProd *) cbn [c_int_class] in Hc. apply andb_prop in Hc. destruct Hc as [Hc Hsingle].
      apply andb_prop in Hc. destruct Hc as [Hne Hc].
      rewrite evalZ_prod in Hv. destruct (omap_list (evalZ rho) cs) as [vs|] eqn:E; [|discriminate].
      cbn [obind] in Hv. injection Hv as <-. apply omap_list_Forall2 in E.
      pose proof (c_children_false cs vs H Hc E) as HP.
      pose proof (c_children_m1 cs vs E) as HM.
      split.
      + cbn [c_pre py_ast andb]. apply EC_prod_ast; [exact HP | exact HM|].
        destruct cs; [discriminate | discriminate].
      + intros Ht. cbn [c_pre py_ast].
        change (EProd p (map (c_pre decl) cs)) with (c_pre decl (EProd p cs)) in *.
        rewrite c_term_neg_pre in *. rewrite Ht. cbn [andb].
        destruct p; [discriminate|]. destruct cs as [|c0 r]; [discriminate|]. cbn [term_neg] in Ht.
        destruct r as [|c1 r']; [cbn [term_neg] in Hsingle; rewrite Ht in Hsingle; discriminate|].
        inversion E as [|? x0 ? vs' Hx0 E']; subst.
        inversion HP as [|? ? ? ? _ HP']; subst. inversion HM as [|? ? ? ? _ HM']; subst.
        cbn [map tl]. cbn [map] in HP', HM'.
        rewrite (EC_prod_ast _ _ vs' HP' HM') by discriminate.
        destruct c0; try discriminate. cbn in Ht. cbn in Hx0. injection Hx0 as <-.
        cbn [prodz]. do 2 f_equal. lia.
    - (* EQuot *) cbn [c_int_class] in Hc. apply andb_prop in Hc. destruct Hc as [Hc1 Hc2].
      cbn [evalZ] in Hv. destruct (evalZ rho e1) as [a|] eqn:E1; [|discriminate].
      destruct (evalZ rho e2) as [b|] eqn:E2; [|discriminate]. cbn [obind] in Hv.
      unfold div_z in Hv. destruct (b =? 0) eqn:Eb; [discriminate|]. injection Hv as <-.
      split; [|discriminate]. cbn [c_pre py_ast].
      destruct (IHe1 Hc1 a E1) as [HA1 _]. destruct (IHe2 Hc2 b E2) as [HA2 _].
      unfold EC in *. cbn [py2c evalC]. rewrite HA1, HA2. cbn [c_arith]. rewrite Eb. reflexivity.
    - (* ECall *)
      cbn [c_int_class] in Hc. apply andb_prop in Hc. destruct Hc as [Hca Hk].
      rewrite evalZ_call in Hv. destruct (omap_list (evalZ rho) args) as [vs|] eqn:E; [|discriminate].
      cbn [obind] in Hv. apply omap_list_Forall2 in E.
      rewrite c_pre_call.
      destruct (is_arr arrs f) eqn:Ea.
      + (* array read *)
        rewrite (c_not_intrinsic f Ea) in Hv.
        destruct Hrel as (_ & _ & Harr). destruct (Harr f vs w Ea Hv) as (sh & Hsh & Hbox & Hcell).
        rewrite Hsh. split; [|discriminate]. cbn [py_ast map]. rewrite Ea. unfold EC. cbn [py2c].
        assert (HF : Forall2 facts (map shift_idx args) (map (fun k => k - 1) vs)).
        { clear Hv Hbox Hcell. induction E as [|a x args vs Hx _ IH]; [constructor|].
          inversion H as [|? ? Ha0 H']; subst. cbn [forallb] in Hca, Hk.
          apply andb_prop in Hca. destruct Hca as [Hc1 Hc2]. apply andb_prop in Hk. destruct Hk as [Hk1 Hk2].
          cbn [map]. constructor; [|apply IH; assumption].
          apply facts_shift_idx. pose proof (Ha0 Hc1 x Hx) as Hf. rewrite (c_pre_id a Hk1 Hc1) in Hf. exact Hf. }
        destruct args as [|a0 ar].
        * inversion E; subst. cbn [map] in Hcell.
          assert (E0 : flat sh [] = 0) by (destruct sh; reflexivity). rewrite E0 in Hcell.
          assert (E1 : flat_tree sh [] = EInt 0) by (destruct sh; reflexivity). cbn [map]. rewrite E1.
          cbn. rewrite Hcell. reflexivity.
        * destruct (facts_flat_tree _ sh _ HF (Hpos f sh Hsh) ltac:(discriminate)) as [HA _].
          unfold EC in HA. cbn [evalC]. rewrite HA, Hcell. reflexivity.
      + (* mod *)
        apply andb_prop in Hk. destruct Hk as [Hm Hlen]. apply String.eqb_eq in Hm. subst f.
        pose proof (ints_no_dcall args Hca) as Hd.
        rewrite (not_arr_assoc _ Ea), Hd, andb_false_r. change (rename_c "mod") with "mod"%string. split; [|discriminate].
        pose proof (c_children_false args vs H Hca E) as HP.
        cbn [py_ast]. rewrite Ea. change (rename_py "mod") with "mod"%string.
        apply Nat.eqb_eq in Hlen.
        destruct args as [|a1 [|a2 [|a3 ar]]]; cbn in Hlen; try discriminate.
        inversion E as [|? x1 ? vs1 _ E1]; subst. inversion E1 as [|? x2 ? vs2 _ E2]; subst. inversion E2; subst.
        cbn [map] in HP. inversion HP as [|? ? ? ? Hp1 HP1]; subst. inversion HP1 as [|? ? ? ? Hp2 _]; subst.
        cbn in Hv. destruct (x2 =? 0) eqn:Eb; [discriminate|]. injection Hv as <-.
        unfold EC in *. cbn [map py2c String.eqb Ascii.eqb Bool.eqb evalC]. rewrite Hp1, Hp2. cbn [c_arith]. rewrite Eb. reflexivity.
  Qed.

  Theorem cexpr_preserves e v :
    c_int_class arrs e = true -> evalZ rho e = Some v -> evalC ce (c_model byref decl e) = Some (CI v).
  Proof. intros Hc Hv. exact (proj1 (Pc_all e Hc v Hv)). Qed.

  (** * Logical expressions: && and || chains (same-operator children are spliced by the printer) *)
  Definition cop (k : bool) : cexpr -> cexpr -> cexpr := CBin (if k then OAnd else OOr).
  Definition bop (k : bool) (a b : bool) : bool := if k then a && b else a || b.

  Lemma cop_cong k a x y : evalC ce x = evalC ce y -> evalC ce (cop k a x) = evalC ce (cop k a y).
  Proof. intros H. unfold cop. destruct k; cbn [evalC]; rewrite H; reflexivity. Qed.

  Lemma truthy_b2c b : c_truthy (b2c b) = b.
  Proof. destruct b; reflexivity. Qed.

  Lemma cop_assoc k x y z : evalC ce (cop k (cop k x y) z) = evalC ce (cop k x (cop k y z)).
  Proof.
    unfold cop. destruct k; cbn [evalC];
      destruct (evalC ce x) as [vx|]; try reflexivity; destruct (c_truthy vx); cbn [b2c c_truthy Z.eqb negb]; try reflexivity;
      destruct (evalC ce y) as [vy|]; try reflexivity; destruct (c_truthy vy); cbn [b2c c_truthy Z.eqb negb]; try reflexivity;
      destruct (evalC ce z) as [vz|]; try reflexivity; rewrite truthy_b2c; reflexivity.
  Qed.

  Lemma cop_val k x y a b : evalC ce x = Some (b2c a) -> evalC ce y = Some (b2c b) ->
    evalC ce (cop k x y) = Some (b2c (bop k a b)).
  Proof.
    intros Hx Hy. unfold cop, bop. destruct k; cbn [evalC]; rewrite Hx, truthy_b2c; destruct a; cbn [andb orb]; try reflexivity;
      rewrite Hy, truthy_b2c; reflexivity.
  Qed.

  Lemma fold_cop k r : forall acc c,
    evalC ce (fold_left (cop k) r (cop k acc c)) = evalC ce (cop k acc (fold_left (cop k) r c)).
  Proof.
    induction r as [|d r IH]; intros acc c; [reflexivity|]. cbn [fold_left].
    rewrite (IH (cop k acc c) d). rewrite cop_assoc. apply cop_cong. symmetry. apply IH.
  Qed.

  Lemma py2c_boolop k c l : py2c byref (PBoolOp k (c :: l)) = fold_left (cop k) (map (py2c byref) l) (py2c byref c).
  Proof. reflexivity. Qed.

  (** folding the spliced children of one child [p] onto an accumulator = combining with [p] itself *)
  Lemma splice_fold k p acc : EC p <> None ->
    evalC ce (fold_left (cop k) (map (py2c byref) (splice k p)) acc) = evalC ce (cop k acc (py2c byref p)).
  Proof.
    intros Hp. destruct p; try reflexivity.
    cbn [splice]. destruct (Bool.eqb is_and k) eqn:E; [|reflexivity].
    apply eqb_prop in E. subst is_and. destruct cs as [|c l]; [exfalso; apply Hp; reflexivity|].
    rewrite py2c_boolop. cbn [map fold_left]. apply fold_cop.
  Qed.

  Lemma splice_head k p X : EC p <> None ->
    exists c r, map (py2c byref) (splice k p ++ X) = c :: r /\
        evalC ce (fold_left (cop k) r c) = evalC ce (fold_left (cop k) (map (py2c byref) X) (py2c byref p)).
  Proof.
    intros Hp.
    assert (Hdef : exists c r, map (py2c byref) ([p] ++ X) = c :: r /\
              evalC ce (fold_left (cop k) r c) = evalC ce (fold_left (cop k) (map (py2c byref) X) (py2c byref p))).
    { eexists _, _. split; reflexivity. }
    destruct p; try exact Hdef.
    cbn [splice]. destruct (Bool.eqb is_and k) eqn:E; [|exact Hdef].
    apply eqb_prop in E. subst is_and. destruct cs as [|c l]; [exfalso; apply Hp; reflexivity|].
    exists (py2c byref c), (map (py2c byref) (l ++ X)). split; [reflexivity|].
    rewrite py2c_boolop, map_app, fold_left_app. reflexivity.
  Qed.

  Lemma fold_cop_cong k r : forall a b, evalC ce a = evalC ce b -> evalC ce (fold_left (cop k) r a) = evalC ce (fold_left (cop k) r b).
  Proof.
    induction r as [|d r IH]; intros a b H; [exact H|]. cbn [fold_left]. apply IH.
    unfold cop. destruct k; cbn [evalC]; rewrite H; reflexivity.
  Qed.

  Lemma boolchain_fold k ps bs : Forall2 (fun p b => EC p = Some (b2c b)) ps bs ->
    forall acc a, evalC ce acc = Some (b2c a) ->
    evalC ce (fold_left (cop k) (map (py2c byref) (flat_map (splice k) ps)) acc)
    = Some (b2c (bop k a (if k then andl bs else orl bs))).
  Proof.
    induction 1 as [|p b ps bs Hp _ IH]; intros acc a Ha.
    - cbn. rewrite Ha. unfold bop. destruct k, a; reflexivity.
    - cbn [flat_map]. rewrite map_app, fold_left_app.
      assert (Hd : EC p <> None) by (rewrite Hp; discriminate).
      assert (Hin : evalC ce (fold_left (cop k) (map (py2c byref) (splice k p)) acc) = Some (b2c (bop k a b))).
      { rewrite (splice_fold k p acc Hd). apply cop_val; assumption. }
      (* continue from a canonical accumulator with the same value *)
      rewrite (fold_cop_cong k _ _ (cop k acc (py2c byref p))).
      + rewrite (IH _ (bop k a b)); [|apply cop_val; assumption].
        unfold bop. destruct k, a, b; reflexivity.
      + rewrite Hin. symmetry. apply cop_val; assumption.
  Qed.

  Lemma boolop_c_eval k ps bs : Forall2 (fun p b => EC p = Some (b2c b)) ps bs -> ps <> [] ->
    EC (boolop_ast k ps) = Some (b2c (if k then andl bs else orl bs)).
  Proof.
    intros HF Hne. destruct HF as [|p b ps bs Hp HF]; [congruence|].
    unfold EC. rewrite boolop_ast_flat. cbn [flat_map].
    assert (Hd : EC p <> None) by (rewrite Hp; discriminate).
    destruct (splice_head k p (flat_map (splice k) ps) Hd) as (c & r & Hmap & Hval).
    cbn [py2c]. rewrite Hmap. fold (cop k). rewrite Hval.
    rewrite (boolchain_fold k ps bs HF _ b Hp). unfold bop. destruct k; reflexivity.
  Qed.

  Definition Pcb (e : expr) : Prop :=
    c_class_b arrs e = true -> forall b, evalB rho e = Some b -> EC (py_ast arrs (c_pre decl e) false) = Some (b2c b).

  Lemma c_children_bool cs bs :
    Forall Pcb cs -> forallb (c_class_b arrs) cs = true ->
    Forall2 (fun c x => evalB rho c = Some x) cs bs ->
    Forall2 (fun p x => EC p = Some (b2c x)) (map (fun c => py_ast arrs c false) (map (c_pre decl) cs)) bs.
  Proof.
    intros HF Hc H2. induction H2 as [|c x cs vs Hx _ IH]; [constructor|].
    inversion HF as [|? ? Hc0 HF']; subst. cbn [forallb] in Hc. apply andb_prop in Hc. destruct Hc as [Hc1 Hc2].
    cbn [map]. constructor; [apply (Hc0 Hc1 x Hx) | apply IH; assumption].
  Qed.

  Lemma Pcb_all : forall e, Pcb e.
  Proof.
    induction e using expr_ind'; unfold Pcb; intros Hc b0 Hv; try discriminate.
    - (* ELog *) cbn in Hv. injection Hv as <-. reflexivity.
    - (* ECmp *) cbn [c_class_b] in Hc. apply andb_prop in Hc. destruct Hc as [Hc1 Hc2].
      cbn [evalB] in Hv. destruct (evalZ rho e1) as [x|] eqn:E1; [|discriminate].
      destruct (evalZ rho e2) as [y|] eqn:E2; [|discriminate]. cbn [obind] in Hv. injection Hv as <-.
      unfold EC. cbn [c_pre py_ast py2c evalC].
      pose proof (proj1 (Pc_all e1 Hc1 x E1)) as H1. pose proof (proj1 (Pc_all e2 Hc2 y E2)) as H2.
      unfold EC in H1, H2. rewrite H1, H2. reflexivity.
    - (* EAnd *) cbn [c_class_b] in Hc. apply andb_prop in Hc. destruct Hc as [Hn Hc].
      rewrite evalB_and in Hv. destruct (omap_list (evalB rho) cs) as [bs|] eqn:E; [|discriminate].
      cbn [obind] in Hv. injection Hv as <-. apply omap_list_Forall2 in E.
      cbn [c_pre py_ast]. apply (boolop_c_eval true); [apply c_children_bool; assumption|].
      destruct cs; [discriminate | discriminate].
    - (* EOr *) cbn [c_class_b] in Hc. apply andb_prop in Hc. destruct Hc as [Hn Hc].
      rewrite evalB_or in Hv. destruct (omap_list (evalB rho) cs) as [bs|] eqn:E; [|discriminate].
      cbn [obind] in Hv. injection Hv as <-. apply omap_list_Forall2 in E.
      cbn [c_pre py_ast]. apply (boolop_c_eval false); [apply c_children_bool; assumption|].
      destruct cs; [discriminate | discriminate].
    - (* ENot *) cbn [c_class_b] in Hc. cbn [evalB] in Hv.
      destruct (evalB rho e) as [x|] eqn:E1; [|discriminate]. cbn [obind] in Hv. injection Hv as <-.
      unfold EC. cbn [c_pre py_ast py2c evalC]. pose proof (IHe Hc x E1) as H1. unfold EC in H1. rewrite H1.
      rewrite truthy_b2c. reflexivity.
  Qed.

  Theorem ccond_preserves e b :
    c_class_b arrs e = true -> evalB rho e = Some b -> evalC ce (c_model byref decl e) = Some (b2c b).
  Proof. intros Hc Hv. exact (Pcb_all e Hc b Hv). Qed.
End CPreservation.
