(** C37 — proofs, part 1: helpers, the agreement relation between the global store and a column store,
    evaluation of class expressions. *)
From Coq Require Import ZArith List Bool String Lia.
From LV Require Import Base.Expr Base.MiniF Base.MiniFFacts models.M_C37.
Import ListNotations.
Open Scope Z_scope.

(** * small facts *)
Lemma mem_cons x y l : mem x (y :: l) = String.eqb x y || mem x l.
Proof. reflexivity. Qed.

Lemma mem_In x l : mem x l = true <-> In x l.
Proof.
  unfold mem. rewrite existsb_exists. split.
  - intros [y [Hy E]]. apply String.eqb_eq in E. now subst.
  - intros H. exists x. split; [exact H|apply String.eqb_refl].
Qed.

Lemma mem_false_neq x y l : mem x l = false -> mem y l = true -> x <> y.
Proof. intros A B E. subst. congruence. Qed.

Lemma subset_mem a b x : subset a b = true -> mem x a = true -> mem x b = true.
Proof.
  unfold subset. rewrite forallb_forall. intros H Hx. apply mem_In in Hx. now apply H.
Qed.

Lemma list_z_eqb_refl l : list_z_eqb l l = true.
Proof. induction l; cbn; [reflexivity|]. now rewrite Z.eqb_refl. Qed.

Lemma list_z_eqb_eq a : forall b, list_z_eqb a b = true -> a = b.
Proof.
  induction a as [|x r IH]; intros [|y q]; cbn; try discriminate; [reflexivity|].
  intros H. apply andb_true_iff in H. destruct H as [A B]. apply Z.eqb_eq in A. apply IH in B. now subst.
Qed.

Lemma Forall_impl_forallb {A} (p : A -> bool) (Q : A -> Prop) l :
  Forall (fun x => p x = true -> Q x) l -> forallb p l = true -> Forall Q l.
Proof.
  induction 1 as [|x l Hx _ IH]; intros Hp; [constructor|].
  cbn in Hp. apply andb_true_iff in Hp. destruct Hp as [H1 H2]. constructor; auto.
Qed.

(** * evaluation of operand lists *)
Lemma fold_z_ext (f g : expr -> option Z) (op : Z -> Z -> Z) (z : option Z) cs :
  Forall (fun c => f c = g c) cs ->
  fold_right (fun c acc => obind (f c) (fun v => obind acc (fun a => Some (op v a)))) z cs =
  fold_right (fun c acc => obind (g c) (fun v => obind acc (fun a => Some (op v a)))) z cs.
Proof. induction 1 as [|c cs Hc _ IH]; cbn; [reflexivity|]. now rewrite Hc, IH. Qed.

Lemma fold_b_ext (f g : expr -> option bool) (op : bool -> bool -> bool) (z : option bool) cs :
  Forall (fun c => f c = g c) cs ->
  fold_right (fun c acc => obind (f c) (fun v => obind acc (fun a => Some (op v a)))) z cs =
  fold_right (fun c acc => obind (g c) (fun v => obind acc (fun a => Some (op v a)))) z cs.
Proof. induction 1 as [|c cs Hc _ IH]; cbn; [reflexivity|]. now rewrite Hc, IH. Qed.

Lemma fold_z_ext_map (f g : expr -> option Z) (h : expr -> expr) (op : Z -> Z -> Z) (z : option Z) cs :
  Forall (fun c => f c = g (h c)) cs ->
  fold_right (fun c acc => obind (f c) (fun v => obind acc (fun a => Some (op v a)))) z cs =
  fold_right (fun c acc => obind (g c) (fun v => obind acc (fun a => Some (op v a)))) z (map h cs).
Proof. induction 1 as [|c cs Hc _ IH]; cbn; [reflexivity|]. now rewrite Hc, IH. Qed.

Lemma fold_b_ext_map (f g : expr -> option bool) (h : expr -> expr) (op : bool -> bool -> bool) (z : option bool) cs :
  Forall (fun c => f c = g (h c)) cs ->
  fold_right (fun c acc => obind (f c) (fun v => obind acc (fun a => Some (op v a)))) z cs =
  fold_right (fun c acc => obind (g c) (fun v => obind acc (fun a => Some (op v a)))) z (map h cs).
Proof. induction 1 as [|c cs Hc _ IH]; cbn; [reflexivity|]. now rewrite Hc, IH. Qed.

Definition eval_args (rho : env) : list expr -> option (list Z) :=
  fix go (l : list expr) : option (list Z) :=
    match l with
    | [] => Some []
    | a :: r => obind (evalZ rho a) (fun v => obind (go r) (fun vs => Some (v :: vs)))
    end.

Lemma evalZ_call rho f args :
  evalZ rho (ECall f args) =
  obind (eval_args rho args) (fun vs => match intrinsic f vs with Some r => r | None => ev_fun rho f vs end).
Proof. reflexivity. Qed.

Lemma eval_args_ext rho rho' cs :
  Forall (fun c => evalZ rho c = evalZ rho' c) cs -> eval_args rho cs = eval_args rho' cs.
Proof. induction 1 as [|c cs Hc _ IH]; cbn; [reflexivity|]. now rewrite Hc, IH. Qed.

Lemma eval_args_ext_map rho rho' (h : expr -> expr) cs :
  Forall (fun c => evalZ rho c = evalZ rho' (h c)) cs -> eval_args rho cs = eval_args rho' (map h cs).
Proof. induction 1 as [|c cs Hc _ IH]; cbn; [reflexivity|]. now rewrite Hc, IH. Qed.

Lemma eval_args_omap rho l : eval_args rho l = omap_list (evalZ rho) l.
Proof. induction l as [|a r IH]; cbn; [reflexivity|]. now rewrite IH. Qed.

Lemma eval_idx_args s idx : eval_idx s idx = eval_args (env_st s) idx.
Proof. unfold eval_idx. now rewrite eval_args_omap. Qed.

Lemma eval_args_head rho x rest vs :
  eval_args rho (EVar x :: rest) = Some vs -> exists r, vs = ev_var rho x :: r.
Proof.
  cbn. destruct (eval_args rho rest) as [r|]; cbn; [|discriminate]. intros E. inversion E. now exists r.
Qed.

Lemma head_is_inv x l : head_is x l = true -> exists rest, l = EVar x :: rest.
Proof.
  destruct l as [|e rest]; cbn; [discriminate|]. destruct e; cbn; try discriminate.
  intros E. apply String.eqb_eq in E. subst. now exists rest.
Qed.

Lemma is_var_inv x e : is_var x e = true -> e = EVar x.
Proof. destruct e; cbn; try discriminate. intros E. apply String.eqb_eq in E. now subst. Qed.

(** * the relation between the global store [g] and the store [c] of column [i] *)
Section Agree.
Variable k : ctx.

Record agr (D : list string) (i : Z) (g c : store) : Prop := {
  ag_sc : forall x, x <> k_h k -> (mem x (k_L k) = false \/ mem x D = true) -> sv g x = sv c x;
  ag_h : sv c (k_h k) = i;
  ag_col : forall a r, mem a (k_H k) = true -> av g a (i :: r) = av c a (i :: r);
  ag_oth : forall a idx, mem a (k_H k) = false -> av g a idx = av c a idx }.

Lemma agr_weaken D1 D2 i g c :
  (forall x, mem x D2 = true -> mem x D1 = true) -> agr D1 i g c -> agr D2 i g c.
Proof.
  intros Hs [A B C E]. split; try assumption.
  intros x Hx [Hl|Hd]; apply A; auto.
Qed.

Lemma agr_nil D i g c : agr D i g c -> agr [] i g c.
Proof. apply agr_weaken. cbn. discriminate. Qed.

Lemma agr_set_both D i g c x v :
  x <> k_h k -> agr D i g c -> agr (x :: D) i (set_sv x v g) (set_sv x v c).
Proof.
  intros Hx [A B C E]. split.
  - intros y Hy Hc. cbn [sv set_sv]. destruct (String.eqb y x) eqn:Eq; [reflexivity|].
    apply A; [exact Hy|]. destruct Hc as [Hl|Hd]; [now left|]. right. rewrite mem_cons, Eq in Hd. exact Hd.
  - cbn [sv set_sv]. destruct (String.eqb (k_h k) x) eqn:Eq; [|exact B]. apply String.eqb_eq in Eq. congruence.
  - exact C.
  - exact E.
Qed.

Lemma agr_set_both_same D i g c x v :
  x <> k_h k -> agr D i g c -> agr D i (set_sv x v g) (set_sv x v c).
Proof.
  intros Hx H. eapply agr_weaken; [|apply agr_set_both; eassumption].
  intros y Hy. rewrite mem_cons, Hy. apply orb_true_r.
Qed.

(** setting the horizontal index in the global store only *)
Lemma agr_set_h_left D i g c v : agr D i g c -> agr D i (set_sv (k_h k) v g) c.
Proof.
  intros [A B C E]. split; cbn; try assumption.
  intros y Hy Hc. destruct (String.eqb y (k_h k)) eqn:Eq; [apply String.eqb_eq in Eq; congruence|]. now apply A.
Qed.

Lemma agr_store D i g c a r v :
  mem a (k_H k) = true -> agr D i g c -> agr D i (set_av a (i :: r) v g) (set_av a (i :: r) v c).
Proof.
  intros Ha [A B C E]. split; cbn; try assumption.
  - intros b q Hb. destruct (String.eqb b a && ((i =? i) && list_z_eqb q r)); [reflexivity|now apply C].
  - intros b idx Hb. destruct (String.eqb b a) eqn:Eq.
    + apply String.eqb_eq in Eq. subst. congruence.
    + cbn. now apply E.
Qed.

(** evaluation of class expressions agrees *)
Lemma ok_e_eval D i g c inm :
  agr D i g c -> (inm = true -> sv g (k_h k) = i) -> forall e,
  ok_e k inm D e = true ->
  evalZ (env_st g) e = evalZ (env_st c) e /\ evalB (env_st g) e = evalB (env_st c) e.
Proof.
  intros Hag Hh. induction e using expr_ind'; intros Hok; cbn [ok_e] in Hok.
  - split; reflexivity.
  - split; reflexivity.
  - split; [|reflexivity]. cbn. f_equal.
    destruct (String.eqb x (k_h k)) eqn:Eq.
    + apply String.eqb_eq in Eq. subst x. rewrite (Hh Hok). symmetry. apply (ag_h _ _ _ _ Hag).
    + apply (ag_sc _ _ _ _ Hag); [intros ->; now rewrite String.eqb_refl in Eq|].
      apply orb_true_iff in Hok. destruct Hok as [Hl|Hd]; [left; now apply negb_true_iff in Hl|now right].
  - split; reflexivity.
  - assert (HF : Forall (fun c0 => evalZ (env_st g) c0 = evalZ (env_st c) c0) cs).
    { apply Forall_impl_forallb with (p := ok_e k inm D); [|exact Hok]. eapply Forall_impl; [|exact H]. intros a Ha Ha'. now apply Ha. }
    split; [|reflexivity]. cbn [evalZ]. now apply fold_z_ext.
  - assert (HF : Forall (fun c0 => evalZ (env_st g) c0 = evalZ (env_st c) c0) cs).
    { apply Forall_impl_forallb with (p := ok_e k inm D); [|exact Hok]. eapply Forall_impl; [|exact H]. intros a Ha Ha'. now apply Ha. }
    split; [|reflexivity]. cbn [evalZ]. now apply fold_z_ext.
  - apply andb_true_iff in Hok. destruct Hok as [H1 H2].
    destruct (IHe1 H1) as [E1 _], (IHe2 H2) as [E2 _]. split; [|reflexivity]. cbn [evalZ]. now rewrite E1, E2.
  - apply andb_true_iff in Hok. destruct Hok as [H1 H2].
    destruct (IHe1 H1) as [E1 _], (IHe2 H2) as [E2 _]. split; [|reflexivity]. cbn [evalZ]. now rewrite E1, E2.
  - apply andb_true_iff in Hok. destruct Hok as [H1 H2].
    destruct (IHe1 H1) as [E1 _], (IHe2 H2) as [E2 _]. split; [reflexivity|]. cbn [evalB]. now rewrite E1, E2.
  - assert (HF : Forall (fun c0 => evalB (env_st g) c0 = evalB (env_st c) c0) cs).
    { apply Forall_impl_forallb with (p := ok_e k inm D); [|exact Hok]. eapply Forall_impl; [|exact H]. intros a Ha Ha'. now apply Ha. }
    split; [reflexivity|]. cbn [evalB]. now apply fold_b_ext.
  - assert (HF : Forall (fun c0 => evalB (env_st g) c0 = evalB (env_st c) c0) cs).
    { apply Forall_impl_forallb with (p := ok_e k inm D); [|exact Hok]. eapply Forall_impl; [|exact H]. intros a Ha Ha'. now apply Ha. }
    split; [reflexivity|]. cbn [evalB]. now apply fold_b_ext.
  - destruct (IHe Hok) as [_ E]. split; [reflexivity|]. cbn [evalB]. now rewrite E.
  - apply andb_true_iff in Hok. destruct Hok as [H1 H2].
    assert (HF : Forall (fun c0 => evalZ (env_st g) c0 = evalZ (env_st c) c0) args).
    { apply Forall_impl_forallb with (p := ok_e k inm D); [|exact H2]. eapply Forall_impl; [|exact H]. intros a Ha Ha'. now apply Ha. }
    split; [|reflexivity]. rewrite !evalZ_call.
    rewrite (eval_args_ext _ (env_st c) _ HF).
    destruct (eval_args (env_st c) args) as [vs|] eqn:Ev; [|reflexivity]. cbn [obind].
    destruct (intrinsic f vs); [reflexivity|]. cbn. f_equal.
    destruct (mem f (k_H k)) eqn:Hf.
    + apply andb_true_iff in H1. destruct H1 as [Hin Hhd].
      apply head_is_inv in Hhd. destruct Hhd as [rest ->].
      apply eval_args_head in Ev. destruct Ev as [r ->]. cbn.
      rewrite (ag_h _ _ _ _ Hag). now apply (ag_col _ _ _ _ Hag).
    + now apply (ag_oth _ _ _ _ Hag).
Qed.

Lemma ok_e_evalZ D i g c inm e :
  agr D i g c -> (inm = true -> sv g (k_h k) = i) -> ok_e k inm D e = true -> evalZ (env_st g) e = evalZ (env_st c) e.
Proof. intros A B C. now destruct (ok_e_eval D i g c inm A B e C). Qed.

Lemma ok_e_evalB D i g c inm e :
  agr D i g c -> (inm = true -> sv g (k_h k) = i) -> ok_e k inm D e = true -> evalB (env_st g) e = evalB (env_st c) e.
Proof. intros A B C. now destruct (ok_e_eval D i g c inm A B e C). Qed.

Lemma ok_oe_eval D i g c inm st :
  agr D i g c -> (inm = true -> sv g (k_h k) = i) -> ok_oe k inm D st = true ->
  match st with None => Some 1 | Some e => evalZ (env_st g) e end = match st with None => Some 1 | Some e => evalZ (env_st c) e end.
Proof. destruct st; cbn; [apply ok_e_evalZ|reflexivity]. Qed.

Lemma ok_idx_eval D i g c inm idx :
  agr D i g c -> (inm = true -> sv g (k_h k) = i) -> forallb (ok_e k inm D) idx = true -> eval_idx g idx = eval_idx c idx.
Proof.
  intros A B C. rewrite !eval_idx_args. apply eval_args_ext.
  rewrite forallb_forall in C. apply Forall_forall. intros e He. apply (ok_e_evalZ D i g c inm); auto.
Qed.

(** monotonicity of the check in the set of assigned locals *)
Lemma ok_e_mono inm D1 D2 e :
  (forall x, mem x D1 = true -> mem x D2 = true) -> ok_e k inm D1 e = true -> ok_e k inm D2 e = true.
Proof.
  intros Hs. induction e using expr_ind'; cbn [ok_e]; intros Hok; try reflexivity;
    try (apply andb_true_iff in Hok; destruct Hok as [H1 H2]; apply andb_true_iff; split; auto; fail);
    try (rewrite forallb_forall in *; rewrite Forall_forall in H; intros a Ha; apply H; auto; fail).
  - destruct (String.eqb x (k_h k)); [exact Hok|].
    apply orb_true_iff in Hok. apply orb_true_iff. destruct Hok; [now left|right; now apply Hs].
  - auto.
  - apply andb_true_iff in Hok. destruct Hok as [H1 H2]. apply andb_true_iff. split; [exact H1|].
    rewrite forallb_forall in *. rewrite Forall_forall in H. intros a Ha. apply H; auto.
Qed.

End Agree.
