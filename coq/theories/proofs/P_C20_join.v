(** C20 — join_source_list covers first start .. last end and holds every part at its own lines. *)
From Coq Require Import ZArith List Bool String Ascii Lia Arith.
From LV Require Import Base.Strings models.M_C20 proofs.P_C20_base.
Import ListNotations.
Open Scope Z_scope.

Lemma consistent_inv s : consistent s = true -> truthy (s_l1 s) = true ->
  s_l1 s = Some (s_l0 s + count_nl (s_str s)) /\ oval (s_l1 s) 0 = s_l0 s + count_nl (s_str s).
Proof.
  unfold consistent, truthy, oval. destruct (s_l1 s) as [e|]; [|discriminate].
  intros H _. apply Z.eqb_eq in H. subst e. split; reflexivity.
Qed.

Lemma slice_mid (a m b : string) : slice (len a) (len a + len m) (a ++ m ++ b) = m.
Proof.
  unfold slice. replace (len a + len m - len a)%nat with (len m) by lia.
  replace (len a) with (len a + 0)%nat at 1 by lia. rewrite sskip_app_ge. cbn [sskip].
  rewrite stake_app_le by lia. apply stake_all. lia.
Qed.

Lemma stake_prefix (a b : string) : stake (len a) (a ++ b) = a.
Proof. rewrite stake_app_le by lia. apply stake_all. lia. Qed.

Definition last_end (l1 : Z) (rest : list source) : Z :=
  match rest with [] => l1 | _ => oval (s_l1 (List.last rest (mk 0 None EmptyString None))) 0 end.

Lemma join_rest_spec : forall rest l0 l1 str a b out,
  l1 = l0 + count_nl str ->
  ordered_sources l1 rest = true ->
  join_rest l0 l1 str rest = (a, b, out) ->
  a = l0 /\ b = l0 + count_nl out /\ b = last_end l1 rest /\
  (exists suffix, out = (str ++ suffix)%string) /\
  forall k p, nth_error rest k = Some p ->
     slice (len str + join_offset l1 rest k) (len str + join_offset l1 rest k + len (s_str p)) out = s_str p /\
     l0 + count_nl (stake (len str + join_offset l1 rest k) out) = s_l0 p.
Proof.
  induction rest as [|s r IH]; intros l0 l1 str a b out Hinv Hord H.
  - cbn in H. injection H as <- <- <-. split; [reflexivity|]. split; [exact Hinv|]. split; [reflexivity|].
    split; [exists EmptyString; now rewrite app_empty_r|]. intros k p Hk. destruct k; discriminate.
  - cbn [ordered_sources] in Hord.
    apply andb_prop in Hord. destruct Hord as [Hord Hr].
    apply andb_prop in Hord. destruct Hord as [Hord Ht].
    apply andb_prop in Hord. destruct Hord as [Hle Hc].
    apply Z.leb_le in Hle.
    destruct (consistent_inv s Hc Ht) as [E1 E2].
    cbn [join_rest] in H. rewrite Ht in H.
    assert (Hd : (s_l0 s - l1 <? 0) = false) by (apply Z.ltb_ge; lia).
    rewrite Hd in H.
    set (gap := Z.to_nat (s_l0 s - l1)) in *.
    set (str' := (str ++ newlines gap ++ s_str s)%string) in *.
    assert (Hinv' : oval (s_l1 s) 0 = l0 + count_nl str').
    { unfold str'. rewrite !count_nl_app, count_nl_newlines. unfold gap. rewrite Z2Nat.id by lia. lia. }
    destruct (IH l0 (oval (s_l1 s) 0) str' a b out Hinv' Hr H) as (Ha & Hb & Hl & (suf & Hs) & Hparts).
    split; [exact Ha|]. split; [exact Hb|]. split.
    { rewrite Hl. unfold last_end. destruct r as [|x r']; [reflexivity|].
      cbn [List.last]. reflexivity. }
    split.
    { exists (newlines gap ++ s_str s ++ suf)%string. rewrite Hs. unfold str'.
      now rewrite !app_assoc_s. }
    intros k p Hk. destruct k as [|k'].
    + cbn in Hk. injection Hk as <-. cbn [join_offset]. fold gap.
      assert (Eo : out = ((str ++ newlines gap) ++ s_str s ++ suf)%string).
      { rewrite Hs. unfold str'. now rewrite !app_assoc_s. }
      assert (El : len (str ++ newlines gap) = (len str + gap)%nat) by (rewrite len_app, len_newlines; reflexivity).
      split.
      * rewrite Eo, <- El. apply slice_mid.
      * rewrite Eo, <- El, stake_prefix, count_nl_app, count_nl_newlines. unfold gap. rewrite Z2Nat.id by lia. lia.
    + cbn [nth_error] in Hk. cbn [join_offset]. fold gap.
      destruct (Hparts k' p Hk) as [P1 P2].
      assert (El : (len str' = len str + (gap + slen (s_str s)))%nat).
      { unfold str', slen. rewrite !len_app, len_newlines. lia. }
      replace (len str + (gap + slen (s_str s) + join_offset (oval (s_l1 s) 0) r k'))%nat
        with (len str' + join_offset (oval (s_l1 s) 0) r k')%nat by lia.
      split; assumption.
Qed.

Lemma last_end_last s rest :
  truthy (s_l1 s) = true -> ordered_sources (oval (s_l1 s) 0) rest = true ->
  Some (last_end (oval (s_l1 s) 0) rest) = s_l1 (List.last (s :: rest) s).
Proof.
  revert s. induction rest as [|x r IH]; intros s Ht Hord.
  - cbn. unfold truthy in Ht. destruct (s_l1 s); [reflexivity|discriminate].
  - cbn [ordered_sources] in Hord.
    apply andb_prop in Hord. destruct Hord as [Hord Hr].
    apply andb_prop in Hord. destruct Hord as [_ Htx].
    specialize (IH x Htx Hr).
    change (List.last (s :: x :: r) s) with (List.last (x :: r) s).
    destruct r as [|y r'].
    + cbn. unfold truthy in Htx. destruct (s_l1 x); [reflexivity|discriminate].
    + unfold last_end in *.
      assert (G : forall d d', List.last (y :: r') d = List.last (y :: r') d').
      { clear. induction r' as [|z t IHt] in y |- *; intros d d'; [reflexivity|]. cbn. apply (IHt z). }
      change (List.last (x :: y :: r') s) with (List.last (y :: r') s).
      change (List.last (x :: y :: r') x) with (List.last (y :: r') x) in IH.
      change (List.last (x :: y :: r') (mk 0 None "" None)) with (List.last (y :: r') (mk 0 None "" None)).
      rewrite (G s x). rewrite <- IH. reflexivity.
Qed.

Lemma join_covers_lemma s rest r :
  ordered_sources (s_l0 s) (s :: rest) = true ->
  join_source_list (s :: rest) = Some r ->
  s_l0 r = s_l0 s /\ s_l1 r = s_l1 (List.last (s :: rest) s) /\ consistent r = true /\ s_file r = s_file s /\
  forall k p, nth_error (s :: rest) k = Some p ->
    slice (join_offset (s_l0 s) (s :: rest) k) (join_offset (s_l0 s) (s :: rest) k + slen (s_str p)) (s_str r) = s_str p /\
    s_l0 r + count_nl (stake (join_offset (s_l0 s) (s :: rest) k) (s_str r)) = s_l0 p.
Proof.
  intros Hord H. cbn [ordered_sources] in Hord.
  apply andb_prop in Hord. destruct Hord as [Hord Hr].
  apply andb_prop in Hord. destruct Hord as [Hord Ht].
  apply andb_prop in Hord. destruct Hord as [_ Hc].
  destruct (consistent_inv s Hc Ht) as [E1 E2].
  unfold join_source_list in H. rewrite Ht in H.
  destruct (join_rest (s_l0 s) (oval (s_l1 s) 0) (s_str s) rest) as [[a b] out] eqn:J.
  injection H as <-.
  destruct (join_rest_spec rest (s_l0 s) (oval (s_l1 s) 0) (s_str s) a b out E2 Hr J) as (Ha & Hb & Hl & (suf & Hs) & Hparts).
  cbn [s_l0 s_l1 s_str s_file]. subst a.
  split; [reflexivity|]. split.
  { rewrite Hl. apply last_end_last; assumption. }
  split; [unfold consistent; cbn [s_l1 s_l0 s_str]; apply Z.eqb_eq; exact Hb|].
  split; [reflexivity|].
  intros k p Hk. destruct k as [|k'].
  - cbn in Hk. injection Hk as <-. cbn [join_offset]. rewrite Z.sub_diag. cbn [Z.to_nat].
    rewrite Hs. unfold slen. split.
    + unfold slice. cbn [sskip plus]. rewrite Nat.sub_0_r. apply stake_prefix.
    + rewrite stake_0. cbn [count_nl]. lia.
  - cbn [nth_error] in Hk. cbn [join_offset]. rewrite Z.sub_diag. cbn [Z.to_nat plus].
    destruct (Hparts k' p Hk) as [P1 P2]. unfold slen in *. split; assumption.
Qed.

(** on the class the Source constructor's assertion (end >= start) holds *)
Lemma join_py_on_class_lemma s rest r :
  ordered_sources (s_l0 s) (s :: rest) = true ->
  join_source_list (s :: rest) = Some r -> join_source_list_py (s :: rest) = JSrc r.
Proof.
  intros Hord H. destruct (join_covers_lemma s rest r Hord H) as (_ & _ & Hc & _).
  unfold join_source_list_py. rewrite H. unfold consistent in Hc.
  destruct (s_l1 r) as [e|]; [|discriminate]. apply Z.eqb_eq in Hc. cbn [oval].
  assert (E : (e <? s_l0 r) = false) by (apply Z.ltb_ge; pose proof (count_nl_nonneg (s_str r)); lia).
  now rewrite E.
Qed.

(** overlapping ranges: the joined source is no longer consistent (the warning case of the code) *)
Lemma join_overlap_refuted_lemma :
  exists a b r, consistent a = true /\ consistent b = true /\
    join_source_list [a; b] = Some r /\ consistent r = false.
Proof.
  exists (mk 1 (Some 2) ("x" ++ String nl "y") None), (mk 1 (Some 1) "z" None).
  eexists. split; [reflexivity|]. split; [reflexivity|]. split; [vm_compute; reflexivity|]. vm_compute. reflexivity.
Qed.

(** ... and a part that lies before the first one makes the constructor's assertion fail *)
Lemma join_overlap_assert_lemma :
  join_source_list_py [mk 6 (Some 6) "x" None; mk 2 (Some 2) "y" None] = JAssertErr.
Proof. vm_compute. reflexivity. Qed.
