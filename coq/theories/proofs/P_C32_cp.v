(** C32 — proofs, part 3: the constant-propagation transformer preserves behaviour on its class. *)
From Coq Require Import ZArith List Bool String Lia.
From LV Require Import Base.Expr Base.MiniF Base.MiniFFacts models.M_C32 proofs.P_C32 proofs.P_C32_cond.
Import ListNotations.
Open Scope Z_scope.

(** * what a statement may write *)

Lemma writes_l_cons st r : writes_l (st :: r) = writes st ++ writes_l r.
Proof. reflexivity. Qed.

Lemma writes_do v lo hi stp b : writes (SDo v lo hi stp b) = v :: writes_l b.
Proof. reflexivity. Qed.
Lemma writes_while c b : writes (SWhile c b) = writes_l b.
Proof. reflexivity. Qed.
Lemma writes_if c t e : writes (SIf c t e) = writes_l t ++ writes_l e.
Proof. reflexivity. Qed.

Lemma copy_out_sv callee x : forall params args caller,
  ~ In x (evars args) -> sv (copy_out callee params args caller) x = sv caller x.
Proof.
  induction params as [|[d b] ps IH]; intros args caller N; [destruct args; reflexivity|].
  destruct args as [|e r]; [destruct b; reflexivity|].
  destruct e; cbn [copy_out]; try (destruct b; apply IH; exact N).
  cbn [evars] in N. destruct b.
  - rewrite IH by (intros I; apply N; now right). reflexivity.
  - rewrite IH by (intros I; apply N; now right). apply sv_set_other. intros E. apply N. now left.
Qed.

Lemma do_loop_frame (run : store -> option store) v d x :
  (forall s s', run s = Some s' -> sv s' x = sv s x) -> x <> v ->
  forall n i s s', do_loop run v d n i s = Some s' -> sv s' x = sv s x.
Proof.
  intros Hrun N. induction n as [|n IH]; intros i s s'; cbn [do_loop].
  - intros E; inversion E; subst. now apply sv_set_other.
  - intros E. apply obind_some in E. destruct E as [s2 [E1 E2]].
    rewrite (IH _ _ _ E2). rewrite (Hrun _ _ E1). now apply sv_set_other.
Qed.

Lemma frame ps : forall f l s s', exec ps f l s = Some s' ->
  forall x, ~ In x (writes_l l) -> sv s' x = sv s x.
Proof.
  induction f as [|f IH]; intros l s s' E x N; [discriminate|].
  destruct l as [|st rest]; [cbn in E; inversion E; reflexivity|].
  rewrite exec_unfold in E. apply obind_some in E. destruct E as [s1 [E1 E2]].
  rewrite writes_l_cons in N.
  assert (N1 : ~ In x (writes st)) by (intros I; apply N; apply in_or_app; now left).
  assert (N2 : ~ In x (writes_l rest)) by (intros I; apply N; apply in_or_app; now right).
  rewrite (IH _ _ _ E2 x N2). clear E2 N2 N.
  destruct st as [y e|a idx e|v lo hi stp body|c body|c tb eb|g args|lbl]; cbn [exec1] in E1.
  - apply obind_some in E1. destruct E1 as [w [_ E1]]. inversion E1; subst.
    apply sv_set_other. intros E. apply N1. cbn. now left.
  - apply obind_some in E1. destruct E1 as [i [_ E1]]. apply obind_some in E1. destruct E1 as [w [_ E1]].
    inversion E1; subst. reflexivity.
  - apply obind_some in E1. destruct E1 as [a [_ E1]]. apply obind_some in E1. destruct E1 as [b [_ E1]].
    apply obind_some in E1. destruct E1 as [d [_ E1]]. destruct (d =? 0); [discriminate|].
    rewrite writes_do in N1.
    eapply do_loop_frame; [| |exact E1].
    + intros s2 s3 R. eapply IH; [exact R|]. intros I. apply N1. now right.
    + intros E. apply N1. now left.
  - apply obind_some in E1. destruct E1 as [b [_ E1]]. destruct b; [|inversion E1; reflexivity].
    apply obind_some in E1. destruct E1 as [s2 [R1 R2]]. rewrite writes_while in N1.
    rewrite (IH _ _ _ R2 x).
    + now apply (IH _ _ _ R1 x).
    + rewrite writes_l_cons, writes_while. cbn. now rewrite app_nil_r.
  - apply obind_some in E1. destruct E1 as [b [_ E1]]. rewrite writes_if in N1.
    apply (IH _ _ _ E1 x). intros I. apply N1. apply in_or_app. destruct b; [now left|now right].
  - apply obind_some in E1. destruct E1 as [p [_ E1]]. apply obind_some in E1. destruct E1 as [s0 [_ E1]].
    apply obind_some in E1. destruct E1 as [s2 [_ E1]]. inversion E1; subst.
    now apply copy_out_sv.
  - inversion E1; reflexivity.
Qed.

Lemma frame_runs ps l s s' x : runs ps l s s' -> ~ In x (writes_l l) -> sv s' x = sv s x.
Proof. intros [f E] N. eapply frame; eassumption. Qed.

Lemma mem_str_false x l : mem_str x l = false -> ~ In x l.
Proof.
  unfold mem_str. intros H I. assert (T : existsb (String.eqb x) l = true).
  { apply existsb_exists. exists x. split; [exact I|apply String.eqb_refl]. }
  congruence.
Qed.

(** the last write to [x] in [l] is the top-level assignment of the literal [c] *)
Lemma lwc_sound ps x c : forall l s s', lwc l x c = true -> runs ps l s s' -> sv s' x = c.
Proof.
  induction l as [|st r IH]; intros s s' L R; [discriminate|].
  apply runs_cons_inv in R. destruct R as [s1 [R1 R2]].
  cbn [lwc] in L. apply orb_true_iff in L. destruct L as [L|L]; [|now apply (IH _ _ L R2)].
  apply andb_true_iff in L. destruct L as [L1 L2]. apply negb_true_iff in L2. apply mem_str_false in L2.
  destruct st; try discriminate. destruct e; try discriminate.
  apply andb_true_iff in L1. destruct L1 as [A B]. apply String.eqb_eq in A. apply Z.eqb_eq in B. subst.
  apply runs1_assign_inv in R1. destruct R1 as [w [Ew Es]]. cbn in Ew. inversion Ew; subst.
  rewrite (frame_runs _ _ _ _ _ R2 L2). apply sv_set_same.
Qed.

(** * DO loops *)

Lemma do_loop_cong (run run' : store -> option store) v d (I : store -> Prop) :
  (forall s, I s -> run' s = run s) ->
  (forall s s', I s -> run s = Some s' -> I s') ->
  (forall s i, I s -> I (set_sv v i s)) ->
  forall n i s, I s -> do_loop run' v d n i s = do_loop run v d n i s.
Proof.
  intros Heq Hpres Hset. induction n as [|n IH]; intros i s Is; cbn [do_loop]; [reflexivity|].
  rewrite (Heq _ (Hset _ i Is)).
  destruct (run (set_sv v i s)) as [s2|] eqn:R; cbn [obind]; [|reflexivity].
  apply IH. eapply Hpres; [|exact R]. now apply Hset.
Qed.

Lemma do_loop_last (run : store -> option store) v d (I : store -> Prop) :
  (forall s s', I s -> run s = Some s' -> I s') ->
  (forall s i, I s -> I (set_sv v i s)) ->
  forall n i s s', I s -> do_loop run v d (S n) i s = Some s' ->
  exists sl s2 il, I sl /\ run sl = Some s2 /\ s' = set_sv v il s2.
Proof.
  intros Hpres Hset. induction n as [|n IH]; intros i s s' Is E.
  - cbn [do_loop] in E. apply obind_some in E. destruct E as [s2 [R E]]. inversion E; subst.
    exists (set_sv v i s), s2, (i + d). repeat split; [now apply Hset|exact R].
  - change (do_loop run v d (S (S n)) i s) with (obind (run (set_sv v i s)) (fun s2 => do_loop run v d (S n) (i + d) s2)) in E.
    apply obind_some in E. destruct E as [s2 [R E]].
    apply (IH (i + d) s2 s'); [|exact E]. eapply Hpres; [|exact R]. now apply Hset.
Qed.

Lemma lookup_post_nonconst x c : forall asg m, lookup (post_nonconst m asg) x = Some c -> lookup m x = Some c.
Proof.
  induction asg as [|st r IH]; intros m; cbn [post_nonconst]; [auto|].
  destruct st; try apply IH. intros H. apply IH in H. now apply lookup_remove_some in H.
Qed.

Lemma bounds_const_some slo shi sst a b d :
  bounds_const slo shi sst = Some (a, b, d) ->
  slo = SV a /\ shi = SV b /\ ((sst = None /\ d = 1) \/ sst = Some (SV d)).
Proof.
  unfold bounds_const. destruct slo; try discriminate. destruct shi; try discriminate.
  destruct sst as [[]|]; try discriminate; intros E; inversion E; subst; auto.
Qed.

(** * the main invariant *)

Section Sound.
  Variable ps : procs.

  Definition rec_ok (f : nat) (rec : bool -> cmap -> list stmt -> option (list stmt * cmap)) : Prop :=
    forall wl m l l' m', rec wl m l = Some (l', m') ->
    forall s, agrees m s ->
      exec ps f l' s = exec ps f l s /\ (forall s', exec ps f l s = Some s' -> agrees m' s').

  Definition stmt_ok (f : nat) : Prop :=
    forall n wl m st st' m1, cp1 true (cp true n) wl m st = Some (st', m1) ->
    forall s, agrees m s ->
      exec1 ps f st' s = exec1 ps f st s /\ (forall s1, exec1 ps f st s = Some s1 -> agrees m1 s1).

  Lemma step_rec f : (forall n, rec_ok f (cp true n)) -> stmt_ok f -> forall n, rec_ok (S f) (cp true n).
  Proof.
    intros Hrec Hst n wl m l l' m' E s A.
    destruct n as [|k]; [discriminate|]. cbn [cp] in E.
    destruct l as [|st r].
    - inversion E; subst. split; [reflexivity|]. intros s' X. cbn in X. inversion X; subst. exact A.
    - destruct (cp1 true (cp true k) wl m st) as [[st' m1]|] eqn:E1; [|discriminate].
      destruct (cp true k wl m1 r) as [[r' m2]|] eqn:E2; [|discriminate].
      inversion E; subst. rewrite !exec_unfold.
      destruct (Hst _ _ _ _ _ _ E1 s A) as [Q1 Q2]. rewrite Q1.
      destruct (exec1 ps f st s) as [s1|] eqn:X1; cbn [obind]; [|split; [reflexivity|discriminate]].
      exact (Hrec k _ _ _ _ _ E2 s1 (Q2 _ eq_refl)).
  Qed.

  Lemma step_stmt f : (forall n, rec_ok f (cp true n)) -> (forall f', f = S f' -> stmt_ok f') -> stmt_ok f.
  Proof.
    intros Hrec Hprev n wl m st st' m1 E s A.
    destruct st as [x e|a idx e|v lo hi stp body|c body|c tb eb|g args|lbl]; cbn [cp1] in E.
    - (* assignment *)
      destruct (wl && mem_expr (EVar x) (syms e)) eqn:W.
      + cbn [andb] in E. destruct (unknown m x) eqn:U; [|discriminate]. cbn [negb] in E. inversion E; subst st' m1.
        split; [reflexivity|]. intros s1 X. cbn [exec1] in X. apply obind_some in X. destruct X as [w [_ X]].
        inversion X; subst. apply agrees_set_unknown; [exact A|now apply unknown_none].
      + destruct (simp true m e) as [r|] eqn:S; [|discriminate]. inversion E; subst st' m1.
        cbn [exec1]. rewrite (simp_sound true m s A e r S). split; [reflexivity|].
        intros s1 X. apply obind_some in X. destruct X as [w [Ew X]]. inversion X; subst.
        destruct r as [c|q|q|q]; cbn [upd_assign]; try now apply agrees_remove_set.
        destruct (0 <=? c); [|now apply agrees_remove_set].
        rewrite (simp_sv_value true m s e c A S) in Ew. inversion Ew; subst. now apply agrees_setc.
    - (* store *)
      destruct (wl && mem_expr (ECall a idx) (syms e)) eqn:W.
      + inversion E; subst st' m1. split; [reflexivity|]. intros s1 X. cbn [exec1] in X.
        apply obind_some in X. destruct X as [i [_ X]]. apply obind_some in X. destruct X as [w [_ X]].
        inversion X; subst. exact A.
      + destruct (simp_list true m idx) as [idx'|] eqn:S1; [|discriminate].
        destruct (simp_e true m e) as [e'|] eqn:S2; [|discriminate]. inversion E; subst st' m1.
        cbn [exec1]. rewrite (simp_list_sound true m s A _ _ S1), (simp_e_sound true m s _ _ A S2).
        split; [reflexivity|]. intros s1 X.
        apply obind_some in X. destruct X as [i [_ X]]. apply obind_some in X. destruct X as [w [_ X]].
        inversion X; subst. exact A.
    - (* DO *)
      destruct (simp true m lo) as [slo|] eqn:Slo; [|discriminate].
      destruct (simp true m hi) as [shi|] eqn:Shi; [|discriminate].
      destruct (simp_step m stp) as [sst|] eqn:Sst; [|discriminate].
      destruct (cp true n true (remove m v) body) as [[body' mb]|] eqn:Rb; [|discriminate].
      cbn [andb] in E. destruct (disjoint (writes_l body) m) eqn:D; [|discriminate]. cbn [negb] in E.
      (* the rewritten loop runs like the original one *)
      assert (Estep : (match expr_of_step sst with None => Some 1 | Some e0 => evalZ (env_st s) e0 end)
                      = (match stp with None => Some 1 | Some e0 => evalZ (env_st s) e0 end)).
      { unfold simp_step in Sst. destruct stp as [e0|].
        - destruct (simp true m e0) as [r0|] eqn:S0; [|discriminate]. inversion Sst; subst. cbn.
          apply (simp_sound true m s A _ _ S0).
        - inversion Sst; subst. reflexivity. }
      pose (I := fun s0 : store => agrees (remove m v) s0).
      assert (Ipres : forall s0 s', I s0 -> exec ps f body s0 = Some s' -> I s').
      { intros s0 s' I0 X y w L. rewrite (frame ps _ _ _ _ X y); [now apply I0|].
        apply lookup_remove_some in L. destruct L as [L _]. eapply disjoint_not_in; eassumption. }
      assert (Iset : forall s0 i, I s0 -> I (set_sv v i s0)).
      { intros s0 i I0 y w L. pose proof L as L'. apply lookup_remove_some in L'. destruct L' as [_ N].
        rewrite sv_set_other by exact N. now apply I0. }
      assert (I0 : I s) by (now apply agrees_remove).
      assert (Ieq : forall s0, I s0 -> exec ps f body' s0 = exec ps f body s0).
      { intros s0 H0. exact (proj1 (Hrec n _ _ _ _ _ Rb s0 H0)). }
      assert (Q1 : exec1 ps f (SDo v (expr_of slo) (expr_of shi) (expr_of_step sst) body') s
                   = exec1 ps f (SDo v lo hi stp body) s).
      { cbn [exec1]. rewrite (simp_sound true m s A _ _ Slo), (simp_sound true m s A _ _ Shi), Estep.
        destruct (evalZ (env_st s) lo) as [a0|]; cbn [obind]; [|reflexivity].
        destruct (evalZ (env_st s) hi) as [b0|]; cbn [obind]; [|reflexivity].
        destruct (match stp with None => Some 1 | Some e0 => evalZ (env_st s) e0 end) as [d0|]; cbn [obind]; [|reflexivity].
        destruct (d0 =? 0); [reflexivity|].
        apply (do_loop_cong (exec ps f body) (exec ps f body') v d0 I Ieq Ipres Iset). exact I0. }
      (* entries of the incoming map that survive are untouched by the loop *)
      assert (Keep : forall s1 y w, exec1 ps f (SDo v lo hi stp body) s = Some s1 ->
                                    lookup m y = Some w -> y <> v -> sv s1 y = w).
      { intros s1 y w X L N. rewrite <- (A _ _ L).
        assert (R : runs ps [SDo v lo hi stp body] s s1).
        { apply runs_single. now exists f. }
        apply (frame_runs ps _ _ _ y R). cbn. rewrite app_nil_r. intros [Hv|Hb]; [congruence|].
        eapply disjoint_not_in; eassumption. }
      destruct (bounds_const slo shi sst) as [[[a b] d]|] eqn:B.
      + destruct (post_const _ m (flat_map assigns body')) as [mp|] eqn:P; [|discriminate].
        cbn [andb] in E. destruct (loop_entries_ok m (remove mp v) a b d body') eqn:OK; [|discriminate].
        cbn [negb] in E. inversion E; subst st' m1. split; [exact Q1|].
        intros s1 X y w L.
        unfold loop_entries_ok in OK. rewrite forallb_forall in OK.
        pose proof (OK _ (lookup_in _ _ _ L)) as C. cbn [fst snd] in C.
        pose proof (lookup_remove_some _ _ _ _ L) as [_ Nv].
        apply orb_true_iff in C. destruct C as [C|C].
        { apply has_val_true in C. now apply (Keep s1 y w X C Nv). }
        apply andb_true_iff in C. destruct C as [C C3]. apply andb_true_iff in C. destruct C as [C1 C2].
        apply negb_true_iff in C1. apply Z.eqb_neq in C1. apply Z.leb_le in C2.
        apply bounds_const_some in B. destruct B as [Ba [Bb Bd]]. subst slo shi.
        cbn [exec1] in X.
        rewrite (simp_sv_value true m s lo a A Slo) in X. rewrite (simp_sv_value true m s hi b A Shi) in X.
        cbn [obind] in X.
        assert (Ed : (match stp with None => Some 1 | Some e0 => evalZ (env_st s) e0 end) = Some d).
        { unfold simp_step in Sst. destruct stp as [e0|].
          - destruct (simp true m e0) as [r0|] eqn:S0; [|discriminate]. inversion Sst; subst.
            destruct Bd as [[Bd _]|Bd]; [discriminate|]. inversion Bd; subst.
            apply (simp_sv_value true m s e0 d A S0).
          - inversion Sst; subst. destruct Bd as [[_ Bd]|Bd]; [now subst|discriminate]. }
        rewrite Ed in X. cbn [obind] in X.
        destruct (d =? 0) eqn:Ez; [discriminate|].
        destruct (Z.to_nat (trip_count a b d)) as [|k] eqn:Tn; [lia|].
        destruct (do_loop_last (exec ps f body) v d I Ipres Iset k a s s1 I0 X) as [sl [s2 [il [Il [Rl El]]]]].
        subst s1. rewrite sv_set_other by exact Nv.
        rewrite <- (Ieq sl Il) in Rl.
        apply (lwc_sound ps y w body' sl s2 C3). now exists f.
      + inversion E; subst st' m1. split; [exact Q1|].
        intros s1 X y w L. apply lookup_remove_some in L. destruct L as [L Nv].
        apply lookup_post_nonconst in L. now apply (Keep s1 y w X L Nv).
    - (* DO WHILE *)
      destruct (cp true n wl m body) as [[body' mb]|] eqn:Rb; [|discriminate].
      cbn [andb] in E. destruct (disjoint (writes_l body) m && submap mb m) eqn:D; [|discriminate].
      cbn [negb] in E. apply andb_true_iff in D. destruct D as [D1 D2]. inversion E; subst st' m1.
      assert (Ipres : forall s0 s', agrees m s0 -> exec ps f body s0 = Some s' -> agrees m s').
      { intros s0 s' A0 X y w L. rewrite (frame ps _ _ _ _ X y); [now apply A0|].
        eapply disjoint_not_in; eassumption. }
      (* keep the defining equation to re-use the statement at smaller fuel *)
      assert (E' : cp1 true (cp true n) wl m (SWhile c body) = Some (SWhile c body', mb)).
      { cbn [cp1]. rewrite Rb. cbn [andb]. rewrite D1, D2. reflexivity. }
      cbn [exec1].
      destruct (evalB (env_st s) c) as [[|]|] eqn:Ec; cbn [obind].
      + rewrite (proj1 (Hrec n _ _ _ _ _ Rb s A)).
        destruct (exec ps f body s) as [s2|] eqn:X2; cbn [obind]; [|split; [reflexivity|discriminate]].
        pose proof (Ipres _ _ A X2) as A2.
        destruct f as [|f'].
        * split; [reflexivity|discriminate].
        * rewrite !exec_unfold.
          destruct (Hprev f' eq_refl _ _ _ _ _ _ E' s2 A2) as [P1 P2]. rewrite P1.
          split; [reflexivity|]. intros s1 X.
          apply obind_some in X. destruct X as [s3 [X3 X4]]. apply exec_nil in X4. subst. now apply P2.
      + split; [reflexivity|]. intros s1 X. inversion X; subst. now apply (agrees_submap mb m).
      + split; [reflexivity|discriminate].
    - (* IF *)
      destruct (simp_cond true m c) as [c'|] eqn:Sc; [|discriminate].
      destruct (cp true n wl m tb) as [[t' mt]|] eqn:Rt; [|discriminate].
      destruct (cp true n wl m eb) as [[e' me]|] eqn:Re; [|discriminate].
      inversion E; subst st' m1. cbn [exec1]. rewrite (simp_cond_sound true m s A _ _ Sc).
      destruct (evalB (env_st s) c) as [[|]|]; cbn [obind].
      + destruct (Hrec n _ _ _ _ _ Rt s A) as [P1 P2]. split; [exact P1|].
        intros s1 X. apply agrees_merge_l. now apply P2.
      + destruct (Hrec n _ _ _ _ _ Re s A) as [P1 P2]. split; [exact P1|].
        intros s1 X. apply agrees_merge_r. now apply P2.
      + split; [reflexivity|discriminate].
    - (* CALL *)
      cbn [andb] in E. destruct (disjoint (evars args) m) eqn:D; [|discriminate]. cbn [negb] in E.
      inversion E; subst st' m1. split; [reflexivity|]. intros s1 X. cbn [exec1] in X.
      apply obind_some in X. destruct X as [p [_ X]]. apply obind_some in X. destruct X as [s0 [_ X]].
      apply obind_some in X. destruct X as [s2 [_ X]]. inversion X; subst.
      intros y w L. rewrite copy_out_sv; [now apply A|]. eapply disjoint_not_in; eassumption.
    - inversion E; subst st' m1. split; [reflexivity|]. intros s1 X. inversion X; subst. exact A.
  Qed.

  Lemma cp_ok : forall f, (forall n, rec_ok f (cp true n)) /\ stmt_ok f.
  Proof.
    induction f as [|f [IH1 IH2]].
    - assert (R0 : forall n, rec_ok 0 (cp true n)).
      { intros n wl m l l' m' E s A. split; [reflexivity|discriminate]. }
      split; [exact R0|]. apply step_stmt; [exact R0|discriminate].
    - assert (R1 : forall n, rec_ok (S f) (cp true n)) by (now apply step_rec).
      split; [exact R1|]. apply step_stmt; [exact R1|]. intros f' Ef. inversion Ef; subst. exact IH2.
  Qed.

  Theorem cp_correct n wl m p p' m' :
    cp true n wl m p = Some (p', m') ->
    forall f s, agrees m s ->
      exec ps f p' s = exec ps f p s /\ (forall s', exec ps f p s = Some s' -> agrees m' s').
  Proof. intros E f s A. exact (proj1 (cp_ok f) n wl m p p' m' E s A). Qed.
End Sound.

(** ** the statements of the property *)

Theorem fold_sound m s e e' : agrees m s -> simp_e true m e = Some e' -> evalZ (env_st s) e' = evalZ (env_st s) e.
Proof. apply simp_e_sound. Qed.

Theorem cmap_sound ps n wl m st st' m' s s' :
  cp true n wl m [st] = Some ([st'], m') -> agrees m s -> runs ps [st] s s' -> agrees m' s'.
Proof.
  intros E A [f R]. exact (proj2 (cp_correct ps n wl m _ _ _ E f s A) s' R).
Qed.

Theorem cp_from_preserves ps n m p p' m' :
  cp true n false m p = Some (p', m') ->
  forall s s', agrees m s -> (runs ps p' s s' <-> runs ps p s s').
Proof.
  intros E s s' A. split; intros [f R]; exists f.
  - now rewrite <- (proj1 (cp_correct ps n false m _ _ _ E f s A)).
  - now rewrite (proj1 (cp_correct ps n false m _ _ _ E f s A)).
Qed.

Theorem constprop_preserves ps n p p' : constprop n p = Some p' -> equiv ps p' p.
Proof.
  unfold constprop. destruct (cp true n false [] p) as [[q m']|] eqn:E; [|discriminate].
  intros H; inversion H; subst. intros s s'. apply (cp_from_preserves ps n [] p p' m' E). apply agrees_nil.
Qed.
