(** C08 — concrete witnesses (vm_compute): the families on which simplify changes the value, the exception
    family, satisfiable instances of the class, and the rational reading of the distribution steps. *)
From Coq Require Import ZArith QArith List Bool String Lia Field.
From LV Require Import Base.Expr models.M_C08.
Import ListNotations.
Open Scope Z_scope.
Open Scope string_scope.

Definition fl_of (a b c d e : bool) : flags :=
  {| f_flatten := a; f_int := b; f_fp := c; f_cc := d; f_logic := e |}.
Definition only_cc : flags := fl_of false false false true false.
Definition only_logic : flags := fl_of false false false false true.
Definition only_int : flags := fl_of false true false false false.

Definition va := EVar "a". Definition vb := EVar "b". Definition vc := EVar "c". Definition vd := EVar "d".
Definition neg (e : expr) := EProd false [EPy (-1); e].

(** (a + 1) / 2  ->  1/2 + a/2   (Flatten: quotient distributed over a sum) *)
Definition w_dq : expr := EQuot false (ESum false [va; EInt 1]) (EInt 2).
(** 2 * (a / 2)  ->  a           (Flatten: factor moved into the numerator) *)
Definition w_dp : expr := EProd false [EInt 2; EQuot false va (EInt 2)].
(** a/2 + a/2    ->  a           (CollectCoefficients, then the previous step) *)
Definition w_cc : expr := ESum false [EQuot false va (EInt 2); EQuot false va (EInt 2)].
(** (a**b)**c - a**(b**c) -> 0   (CollectCoefficients: summands identified by their string "a**b**c") *)
Definition w_tower : expr :=
  ESum false [EPow false (EPow false va vb) vc; neg (EPow false va (EPow false vb vc))].
(** a + ((-1)*c*b)*d: before commit 6254d3f simplified to a - c*d (separate_coefficients looked at children[1] of a
    minus-prefixed factor only); now inside the class *)
Definition w_sep : expr := ESum false [va; EProd false [EProd false [EPy (-1); vc; vb]; vd]].
(** -(-5) == 5 with LogicEvaluation: before commit fb957a2 an AttributeError in get_constant_value; now True *)
Definition w_attr : expr := ECmp Ceq (neg (neg (EInt 5))) (EInt 5).

Definition changes_value (fl : flags) (e : expr) (rho : env) : bool :=
  match simplify fl e with
  | Some e' =>
      match evalZ rho e, evalZ rho e' with
      | Some v, Some v' => negb (v =? v')%Z
      | _, _ => false
      end
  | None => false
  end.

Lemma changes_value_spec fl e rho : changes_value fl e rho = true ->
  exists e' v v', simplify fl e = Some e' /\ evalZ rho e = Some v /\ evalZ rho e' = Some v' /\ v <> v'.
Proof.
  unfold changes_value. destruct (simplify fl e) as [e'|] eqn:E1; [|discriminate].
  destruct (evalZ rho e) as [v|] eqn:E2; [|discriminate]. destruct (evalZ rho e') as [v'|] eqn:E3; [|discriminate].
  intros H. apply negb_true_iff, Z.eqb_neq in H. exists e', v, v'. auto.
Qed.

Definition rho1 : env := env_of [("a", 1); ("b", 1); ("c", 1); ("d", 1)].
Definition rho2 : env := env_of [("a", 2); ("b", 1); ("c", 2); ("d", 1)].
Definition rho3 : env := env_of [("a", 2); ("b", 3); ("c", 2); ("d", 1)].

Lemma wit_dq : changes_value all_flags w_dq rho1 = true /\ in_class all_flags w_dq = false.
Proof. split; vm_compute; reflexivity. Qed.
Lemma wit_dp : changes_value all_flags w_dp rho1 = true /\ in_class all_flags w_dp = false.
Proof. split; vm_compute; reflexivity. Qed.
Lemma wit_cc : changes_value all_flags w_cc rho1 = true /\ in_class all_flags w_cc = false.
Proof. split; vm_compute; reflexivity. Qed.
Lemma wit_tower : changes_value only_cc w_tower rho2 = true /\ in_class only_cc w_tower = false.
Proof. split; vm_compute; reflexivity. Qed.
(** the two repaired defects: the current code is right on the former witnesses ... *)
Lemma wit_sep_fixed : in_class only_cc w_sep = true /\ changes_value only_cc w_sep rho3 = false.
Proof. split; vm_compute; reflexivity. Qed.
Lemma wit_attr_fixed : in_class only_logic w_attr = true /\ simplify only_logic w_attr = Some (ELog true).
Proof. split; vm_compute; reflexivity. Qed.

(** ... and what the old helpers did: the factor [b] of (-1)*c*b is dropped; the doubly negated literal has no value *)
Definition w_sep_child : sx := SProd KL [SPy (-1); SVar "c"; SVar "b"].
Lemma wit_sep_old : sc_process_old true w_sep_child = (-1, Some (SVar "c")) /\
  evalZ rho3 (to_expr w_sep_child) = Some (-6) /\ evalZ rho3 (to_expr (SProd KL [SInt (-1); SVar "c"])) = Some (-2) /\
  sc_process true w_sep_child = (-1, Some (SProd KL [SVar "c"; SVar "b"])).
Proof. repeat split; vm_compute; reflexivity. Qed.
Lemma wit_attr_old : is_constant (of_expr (neg (neg (EInt 5)))) = true /\ cval_old (of_expr (neg (neg (EInt 5)))) = None /\
  cval (of_expr (neg (neg (EInt 5)))) = 5.
Proof. repeat split; vm_compute; reflexivity. Qed.

(** what the model computes for the witnesses (documentation) *)
Lemma wit_dq_result : simplify all_flags w_dq = Some (ESum false [EQuot false (EInt 1) (EInt 2); EQuot false va (EInt 2)]).
Proof. vm_compute. reflexivity. Qed.
Lemma wit_dp_result : simplify all_flags w_dp = Some va.
Proof. vm_compute. reflexivity. Qed.
Lemma wit_cc_result : simplify all_flags w_cc = Some va.
Proof. vm_compute. reflexivity. Qed.
Lemma wit_tower_result : simplify only_cc w_tower = Some (EInt 0).
Proof. vm_compute. reflexivity. Qed.

(** satisfiable, non-trivial members of the class *)
Definition ex_linear : expr := ESum false [EVar "n"; neg (ESum true [EVar "n"; EInt 1])].
Lemma ex_linear_in : in_class all_flags ex_linear = true /\ simplify all_flags ex_linear = Some (neg (EInt 1)).
Proof. split; vm_compute; reflexivity. Qed.
(** ceil_division(a, b) as built by Loki, simplified with IntegerArithmetic *)
Definition ex_ceil : expr := ESum false [EQuot false (ESum false [va; EInt (-1)]) vb; EInt 1].
Lemma ex_ceil_in : in_class only_int ex_ceil = true.
Proof. vm_compute. reflexivity. Qed.
(** a quotient under Flatten that stays in the class:  -(a/b)/c  ->  -(a/(b*c)) *)
Definition ex_quot : expr := EQuot false (neg (EQuot false va vb)) vc.
Lemma ex_quot_in : in_class all_flags ex_quot = true /\ simplify all_flags ex_quot <> Some ex_quot.
Proof. split; vm_compute; [reflexivity|discriminate]. Qed.

(** In exact rational arithmetic the two distribution steps are valid: the defect is specific to
    truncating integer division. *)
Definition qagree (rho : qenv) (e e' : expr) : Prop :=
  match evalQ rho e, evalQ rho e' with
  | Some x, Some y => Qeq x y
  | None, None => True
  | _, _ => False
  end.

Lemma wit_dq_Q rho : qagree rho w_dq (ESum false [EQuot false (EInt 1) (EInt 2); EQuot false va (EInt 2)]).
Proof. unfold qagree. cbn. field. Qed.
Lemma wit_dp_Q rho : qagree rho w_dp va.
Proof. unfold qagree. cbn. field. Qed.
Lemma wit_cc_Q rho : qagree rho w_cc va.
Proof. unfold qagree. cbn. field. Qed.
