(** C40 — proofs, part 6: convert_to_lower_case on statements, programs and declarations; witnesses. *)
From Coq Require Import ZArith List Bool String Ascii Lia.
From LV Require Import Base.Strings Base.Expr Base.MiniF models.M_C40 proofs.P_C40_base proofs.P_C40_lower.
Import ListNotations.
Open Scope Z_scope.
Open Scope list_scope.

Definition lcs (n : nat) (s : stmt) : stmt := lcc_stmt n (lcv_stmt n s).

Lemma lc_n_map n p : lc_n n p = map (lcs n) p.
Proof. unfold lc_n, lcs. now rewrite map_map. Qed.

Lemma low_e_parts e : low_e e = true -> lowv e = true /\ lowi e = true.
Proof. unfold low_e. intros H. now apply andb_true_iff in H. Qed.

(** * normal form => identity *)
Lemma lc_list_fix n (l : list expr) : forallb low_e l = true -> map (lcc n) (map (lcv n) l) = l.
Proof.
  intros H. apply forallb_F in H. rewrite map_map. apply map_id_F.
  eapply Forall_impl; [|exact H]. intros a Ha. apply (lc_e_fix a n Ha).
Qed.

Lemma lcs_fix_list n b :
  Forall (fun s => low_stmt s = true -> lcs n s = s) b -> forallb low_stmt b = true ->
  map (lcc_stmt n) (map (lcv_stmt n) b) = b.
Proof.
  intros H Hc. apply forallb_F in Hc. rewrite map_map. apply map_id_F.
  eapply Forall_mp; [|exact Hc]. eapply Forall_impl; [|exact H]. intros a Ha Hb. now apply Ha.
Qed.

Lemma lcs_fix n : forall s, low_stmt s = true -> lcs n s = s.
Proof.
  induction s using stmt_ind'; intros Hc; unfold lcs; cbn [lcv_stmt lcc_stmt].
  - cbn [low_stmt] in Hc. apply andb_true_iff in Hc. destruct Hc as [H1 H2].
    apply negb_true_iff in H1. rewrite (has_upper_false _ H1). fold (lc_e n e). now rewrite lc_e_fix.
  - cbn [low_stmt] in Hc. apply andb_true_iff in Hc. destruct Hc as [Hc H3].
    apply andb_true_iff in Hc. destruct Hc as [H1 H2]. apply negb_true_iff in H1.
    rewrite (has_upper_false _ H1). unfold lcv_lhs. rewrite H1. rewrite (lc_list_fix n i H2).
    fold (lc_e n e). now rewrite lc_e_fix.
  - cbn [low_stmt] in Hc. apply andb_true_iff in Hc. destruct Hc as [Hc H5].
    apply andb_true_iff in Hc. destruct Hc as [Hc H4]. apply andb_true_iff in Hc. destruct Hc as [Hc H3].
    apply andb_true_iff in Hc. destruct Hc as [H1 H2]. apply negb_true_iff in H1.
    rewrite (has_upper_false _ H1). fold (lc_e n lo) (lc_e n hi). rewrite !lc_e_fix by assumption.
    rewrite (lcs_fix_list n b H H5). destruct st as [e|]; cbn [option_map]; [|reflexivity].
    cbn [low_o] in H4. fold (lc_e n e). now rewrite lc_e_fix.
  - cbn [low_stmt] in Hc. apply andb_true_iff in Hc. destruct Hc as [H1 H2].
    fold (lc_e n c). rewrite lc_e_fix by assumption. now rewrite (lcs_fix_list n b H H2).
  - cbn [low_stmt] in Hc. apply andb_true_iff in Hc. destruct Hc as [Hc H3].
    apply andb_true_iff in Hc. destruct Hc as [H1 H2].
    fold (lc_e n c). rewrite lc_e_fix by assumption.
    now rewrite (lcs_fix_list n t H H2), (lcs_fix_list n e H0 H3).
  - cbn [low_stmt] in Hc. apply andb_true_iff in Hc. destruct Hc as [H1 H2]. apply negb_true_iff in H1.
    rewrite (has_upper_false _ H1). now rewrite (lc_list_fix n a H2).
  - reflexivity.
Qed.

(** * in the class one application reaches every name *)
Lemma shallow_e_parts n e : shallow_e n e = true -> (vdepth e <= S n)%nat /\ (idepth e <= S n)%nat.
Proof.
  unfold shallow_e. intros H. apply andb_true_iff in H. destruct H as [H1 H2].
  apply Nat.leb_le in H1. apply Nat.leb_le in H2. now split.
Qed.

Lemma low_list n (l : list expr) : forallb (shallow_e n) l = true -> forallb low_e (map (lcc n) (map (lcv n) l)) = true.
Proof.
  intros H. apply forallb_F in H. apply forallb_F. rewrite map_map. apply Forall_map.
  eapply Forall_impl; [|exact H]. intros a Ha. apply (lc_e_low a n Ha).
Qed.

Lemma lhs_low n a idx : is_intr_ci a = false -> shallow_e n (ECall a idx) = true ->
  forallb low_e (map (lcc n) (lcv_lhs n a idx)) = true.
Proof.
  intros Ei H. apply shallow_e_parts in H. destruct H as [Hv Hi]. cbn [vdepth idepth] in Hv, Hi. rewrite Ei in Hv, Hi.
  assert (Hv' : (maxl (map vdepth idx) <= n)%nat) by lia.
  apply maxl_le, Forall_map_iff in Hv'. apply maxl_le, Forall_map_iff in Hi.
  apply forallb_F. apply Forall_map. unfold lcv_lhs.
  destruct (has_upper a).
  - destruct n as [|m].
    + eapply Forall_impl2 with (P := fun x => (vdepth x <= 0)%nat) (Q := fun x => (idepth x <= 1)%nat); [|exact Hv'|exact Hi].
      apply Forall_forall. intros x _ Hx Hy. unfold low_e. apply andb_true_iff. split.
      * rewrite lcc_lowv. apply vdepth0_lowv. lia.
      * apply lcc_reaches. lia.
    + apply Forall_map.
      eapply Forall_impl2 with (P := fun x => (vdepth x <= S m)%nat) (Q := fun x => (idepth x <= S (S m))%nat); [|exact Hv'|exact Hi].
      apply Forall_forall. intros x _ Hx Hy. unfold low_e. apply andb_true_iff. split.
      * rewrite lcc_lowv. now apply lcv_reaches.
      * apply lcc_reaches. now rewrite lcv_idepth.
  - apply Forall_map.
    eapply Forall_impl2 with (P := fun x => (vdepth x <= n)%nat) (Q := fun x => (idepth x <= S n)%nat); [|exact Hv'|exact Hi].
    apply Forall_forall. intros x _ Hx Hy. unfold low_e. apply andb_true_iff. split.
    + rewrite lcc_lowv. apply lcv_reaches. lia.
    + apply lcc_reaches. now rewrite lcv_idepth.
Qed.

Lemma lcs_low_list n b :
  Forall (fun s => shallow_lc_stmt n s = true -> low_stmt (lcs n s) = true) b ->
  forallb (shallow_lc_stmt n) b = true -> forallb low_stmt (map (lcc_stmt n) (map (lcv_stmt n) b)) = true.
Proof.
  intros H Hc. apply forallb_F in Hc. apply forallb_F. rewrite map_map. apply Forall_map.
  eapply Forall_mp; [|exact Hc]. eapply Forall_impl; [|exact H]. intros a Ha Hb. now apply Ha.
Qed.

Lemma lcs_low n : forall s, shallow_lc_stmt n s = true -> low_stmt (lcs n s) = true.
Proof.
  induction s using stmt_ind'; intros Hc; unfold lcs; cbn [lcv_stmt lcc_stmt low_stmt].
  - cbn [shallow_lc_stmt] in Hc. rewrite has_upper_lower. cbn [negb andb]. apply (lc_e_low e n Hc).
  - cbn [shallow_lc_stmt] in Hc. apply andb_true_iff in Hc. destruct Hc as [Hc H3].
    apply andb_true_iff in Hc. destruct Hc as [H1 H2]. apply negb_true_iff in H2.
    rewrite has_upper_lower. cbn [negb andb]. rewrite (lhs_low n a i H2 H1). cbn [andb]. apply (lc_e_low e n H3).
  - cbn [shallow_lc_stmt] in Hc. apply andb_true_iff in Hc. destruct Hc as [Hc H4].
    apply andb_true_iff in Hc. destruct Hc as [Hc H3]. apply andb_true_iff in Hc. destruct Hc as [H1 H2].
    rewrite has_upper_lower. cbn [negb andb].
    fold (lc_e n lo) (lc_e n hi). rewrite (lc_e_low lo n H1), (lc_e_low hi n H2). cbn [andb].
    rewrite (lcs_low_list n b H H4). rewrite andb_true_r.
    destruct st as [e|]; cbn [option_map low_o]; [apply (lc_e_low e n H3)|reflexivity].
  - cbn [shallow_lc_stmt] in Hc. apply andb_true_iff in Hc. destruct Hc as [H1 H2].
    fold (lc_e n c). rewrite (lc_e_low c n H1). cbn [andb]. apply (lcs_low_list n b H H2).
  - cbn [shallow_lc_stmt] in Hc. apply andb_true_iff in Hc. destruct Hc as [Hc H3].
    apply andb_true_iff in Hc. destruct Hc as [H1 H2].
    fold (lc_e n c). rewrite (lc_e_low c n H1). cbn [andb].
    now rewrite (lcs_low_list n t H H2), (lcs_low_list n e H0 H3).
  - cbn [shallow_lc_stmt] in Hc. rewrite has_upper_lower. cbn [negb andb]. apply (low_list n a Hc).
  - reflexivity.
Qed.

Theorem lc_class_low p : lc_class p = true -> low_prog (lc p) = true.
Proof.
  unfold lc_class, low_prog, lc. intros H. rewrite lc_n_map. apply forallb_F. apply Forall_map.
  apply forallb_F in H. eapply Forall_impl; [|exact H]. intros s Hs. apply (lcs_low LC_ITER s Hs).
Qed.

Theorem low_prog_fix p : low_prog p = true -> lc p = p.
Proof.
  unfold low_prog, lc. intros H. rewrite lc_n_map. apply map_id_F. apply forallb_F in H.
  eapply Forall_impl; [|exact H]. intros s Hs. apply (lcs_fix LC_ITER s Hs).
Qed.

Theorem lc_idem_on_class p : lc_class p = true -> lc (lc p) = lc p.
Proof. intros H. apply low_prog_fix, lc_class_low, H. Qed.

(** * the specification "every name lower-case" is idempotent without any bound *)
Lemma lower_e_idem : forall e, lower_e (lower_e e) = lower_e e.
Proof.
  induction e using expr_ind'; cbn [lower_e]; try reflexivity.
  - now rewrite lower_idem.
  - f_equal. rewrite map_map. now apply map_ext_F.
  - f_equal. rewrite map_map. now apply map_ext_F.
  - now rewrite IHe1, IHe2.
  - now rewrite IHe1, IHe2.
  - now rewrite IHe1, IHe2.
  - f_equal. rewrite map_map. now apply map_ext_F.
  - f_equal. rewrite map_map. now apply map_ext_F.
  - now rewrite IHe.
  - rewrite lower_idem. f_equal. rewrite map_map. now apply map_ext_F.
Qed.

Lemma lower_stmt_idem : forall s, lower_stmt (lower_stmt s) = lower_stmt s.
Proof.
  induction s using stmt_ind'; cbn [lower_stmt]; rewrite ?lower_idem, ?lower_e_idem; try reflexivity.
  - f_equal. rewrite map_map. apply map_ext_F. apply Forall_forall. intros x _. apply lower_e_idem.
  - f_equal.
    + destruct st as [e|]; cbn [option_map]; [now rewrite lower_e_idem|reflexivity].
    + rewrite map_map. now apply map_ext_F.
  - f_equal. rewrite map_map. now apply map_ext_F.
  - f_equal; rewrite map_map; now apply map_ext_F.
  - f_equal. rewrite map_map. apply map_ext_F. apply Forall_forall. intros x _. apply lower_e_idem.
Qed.

Theorem lower_all_idem p : lower_all (lower_all p) = lower_all p.
Proof. unfold lower_all. rewrite map_map. apply map_ext_F. apply Forall_forall. intros s _. apply lower_stmt_idem. Qed.

(** * beyond the class the function needs a second application *)
Open Scope string_scope.
Fixpoint chain (k : nat) (e : expr) : expr := match k with O => e | S m => ECall "IDX" [chain m e] end.
Definition w_deep : list stmt := [SStore "ARR" [chain 10 (EVar "I")] (EInt 1)].

Theorem lc_refuted : exists p, lc (lc p) <> lc p /\ lc_class p = false.
Proof. exists w_deep. split; [intros C; vm_compute in C; discriminate C|vm_compute; reflexivity]. Qed.

Fixpoint ichain (k : nat) (e : expr) : expr := match k with O => e | S m => ECall "MAX" [ichain m e; EInt 1] end.
Definition w_deep_intr : list stmt := [SAssign "y" (ichain 12 (EVar "x"))].

Lemma lc_refuted_intr : lc (lc w_deep_intr) <> lc w_deep_intr /\ lc_class w_deep_intr = false.
Proof. split; [intros C; vm_compute in C; discriminate C|vm_compute; reflexivity]. Qed.

(** the deepest nests inside the class are handled in one application *)
Example lc_class_deepest :
  lc_class [SStore "ARR" [chain 9 (EVar "I")] (ichain 11 (EVar "X"))] = true
  /\ lc [SStore "ARR" [chain 9 (EVar "I")] (ichain 11 (EVar "X"))]
     = lower_all [SStore "ARR" [chain 9 (EVar "I")] (ichain 11 (EVar "X"))].
Proof. split; vm_compute; reflexivity. Qed.

(** * declarations *)
Lemma lcv_list_fix n (l : list expr) : forallb lowv l = true -> map (lcv n) l = l.
Proof.
  intros H. apply forallb_F in H. apply map_id_F. eapply Forall_impl; [|exact H]. intros a Ha. now apply lcv_fix.
Qed.

Lemma lowv_lower_e : forall e, lowv (lower_e e) = true.
Proof.
  induction e using expr_ind'; cbn [lower_e lowv]; try reflexivity.
  - now rewrite has_upper_lower.
  - apply forallb_F, Forall_map. exact H.
  - apply forallb_F, Forall_map. exact H.
  - now rewrite IHe1, IHe2.
  - now rewrite IHe1, IHe2.
  - now rewrite IHe1, IHe2.
  - apply forallb_F, Forall_map. exact H.
  - apply forallb_F, Forall_map. exact H.
  - exact IHe.
  - rewrite has_upper_lower. cbn [negb]. rewrite orb_true_r. cbn [andb]. apply forallb_F, Forall_map. exact H.
Qed.

Definition low_decl (d : ldecl) : bool :=
  let '(x, dims, init) := d in
  negb (has_upper x) && forallb lowv dims && match init with Some e => lowv e | None => true end.

Lemma lc_decl_fix n d : low_decl d = true -> lc_decl n d = d.
Proof.
  destruct d as [[x dims] init]. cbn [low_decl]. intros H.
  apply andb_true_iff in H. destruct H as [H H3]. apply andb_true_iff in H. destruct H as [H1 H2].
  apply negb_true_iff in H1. unfold lc_decl. rewrite H1. rewrite (lcv_list_fix n dims H2).
  destruct init as [e|]; cbn [option_map]; [now rewrite (lcv_fix e n H3)|reflexivity].
Qed.

Lemma lc_decl_low d : init_class_decl d = true -> low_decl (lc_decl LC_ITER d) = true.
Proof.
  destruct d as [[x dims] init]. cbn [init_class_decl]. intros H.
  apply andb_true_iff in H. destruct H as [H1 H2]. apply forallb_F in H1.
  unfold lc_decl, LC_ITER in *. destruct (has_upper x) eqn:Eu.
  - cbn [low_decl]. rewrite has_upper_lower. cbn [negb andb]. apply andb_true_iff. split.
    + apply forallb_F, Forall_map. eapply Forall_impl; [|exact H1]. intros a Ha. cbn beta in Ha.
      apply Nat.leb_le in Ha. apply lcv_reaches. lia.
    + destruct init as [e|]; [|reflexivity]. apply expr_eqb_true in H2. rewrite <- H2. apply lowv_lower_e.
  - cbn [low_decl]. rewrite Eu. cbn [negb andb]. apply andb_true_iff. split.
    + apply forallb_F, Forall_map. eapply Forall_impl; [|exact H1]. intros a Ha. cbn beta in Ha.
      apply Nat.leb_le in Ha. apply lcv_reaches. lia.
    + destruct init as [e|]; cbn [option_map]; [|reflexivity]. apply Nat.leb_le in H2. now apply lcv_reaches.
Qed.

Theorem lc_decls_idem_on_class ds : init_class ds = true -> lc_decls (lc_decls ds) = lc_decls ds.
Proof.
  unfold init_class, lc_decls. intros H. rewrite map_map. apply map_ext_F. apply forallb_F in H.
  eapply Forall_impl; [|exact H]. intros d Hd. apply lc_decl_fix, lc_decl_low, Hd.
Qed.

Definition w_init : list ldecl := [("W0", [], Some (EVar "K0"))].

Theorem lc_decls_refuted : exists ds, lc_decls (lc_decls ds) <> lc_decls ds /\ init_class ds = false.
Proof. exists w_init. split; [intros C; vm_compute in C; discriminate C|vm_compute; reflexivity]. Qed.
