(** C04 — on strings whose character literals are terminated on the same line and contain no doubled quote,
    the chunk splitter never cuts inside a literal (the class on which F13 cannot happen). *)
From Coq Require Import ZArith List Bool Ascii Lia.
From Coq Require String.
From LV Require Import models.M_C04 proofs.P_C04.
Import ListNotations.

(** class predicate (decidable): scanning from state [st], no doubled quote, no newline inside a literal, no open literal at the end *)
Fixpoint lit_clean_from (st : lst) (s : str) : bool :=
  match s with
  | [] => match st with LIn _ => false | _ => true end
  | c :: r =>
    match st with
    | LIn q => if Ascii.eqb c ch_nl then false else lit_clean_from (lit_step st c) r
    | LClosed q => if Ascii.eqb c q then false else lit_clean_from (lit_step st c) r
    | LOut => lit_clean_from (lit_step st c) r
    end
  end.
Definition lit_clean (s : str) : bool := lit_clean_from LOut s.

Definition outside (st : lst) : Prop := match st with LIn _ => False | _ => True end.
Definition run (F : lst) (x : str) : lst := fold_left lit_step x F.

Lemma run_app F a b : run F (a ++ b) = run (run F a) b.
Proof. unfold run. apply fold_left_app. Qed.

Lemma clean_app a : forall F b, lit_clean_from F (a ++ b) = true -> lit_clean_from (run F a) b = true.
Proof.
  induction a as [|c r IH]; intros F b H; [exact H|].
  cbn [app] in H. cbn [lit_clean_from] in H. change (run F (c :: r)) with (run (lit_step F c) r).
  destruct F as [|q|q].
  - apply IH. exact H.
  - destruct (Ascii.eqb c ch_nl); [discriminate|]. apply IH. exact H.
  - destruct (Ascii.eqb c q) eqn:E; [discriminate|]. apply IH. exact H.
Qed.

Lemma clean_has_close q r : lit_clean_from (LIn q) r = true -> has_close q r = true.
Proof.
  induction r as [|c r IH]; cbn [lit_clean_from has_close]; [discriminate|].
  destruct (Ascii.eqb c ch_nl) eqn:En; [discriminate|].
  cbn [lit_step]. destruct (Ascii.eqb c q) eqn:E; [reflexivity|]. exact IH.
Qed.

(** the scanner state and the compiler state agree *)
Definition Inv (st : qst) (F0 : lst) (acc : str) : Prop :=
  match st with
  | QOut => forall a1 a2, acc = a1 ++ a2 -> outside (run F0 a1)
  | QIn q => outside F0 /\ run F0 acc = LIn q
  end.

Lemma plain_chunks_prefix acc l1 l2 :
  flat_map seg_chunks (plain acc) = l1 ++ l2 -> acc = concat l1 ++ concat l2.
Proof.
  intros H. rewrite <- (concat_app l1 l2). transitivity (concat (flat_map seg_chunks (plain acc))); [|f_equal; exact H]. destruct acc as [|c r]; [reflexivity|].
  cbn [plain flat_map seg_chunks]. rewrite app_nil_r, split_seps_concat. reflexivity.
Qed.

Lemma step_outside_quote F c r :
  outside F -> lit_clean_from F (c :: r) = true -> is_quote c = true -> lit_step F c = LIn c.
Proof.
  intros Ho Hc Hq. destruct F as [|q|q]; cbn [lit_step]; [now rewrite Hq | contradiction |].
  cbn [lit_clean_from] in Hc. destruct (Ascii.eqb c q); [discriminate | now rewrite Hq].
Qed.

Lemma step_outside_other F c r :
  outside F -> lit_clean_from F (c :: r) = true -> is_quote c = false -> lit_step F c = LOut.
Proof.
  intros Ho Hc Hq. destruct F as [|q|q]; cbn [lit_step]; [now rewrite Hq | contradiction |].
  cbn [lit_clean_from] in Hc. destruct (Ascii.eqb c q); [discriminate | now rewrite Hq].
Qed.

Lemma clean_step F c r : lit_clean_from F (c :: r) = true -> lit_clean_from (lit_step F c) r = true.
Proof. intros H. apply (clean_app [c] F r). exact H. Qed.

Lemma scan_cuts s : forall st acc F0,
  Inv st F0 acc -> lit_clean_from (run F0 acc) s = true ->
  forall l1 l2, flat_map seg_chunks (scan s st acc) = l1 ++ l2 -> outside (run F0 (concat l1)).
Proof.
  induction s as [|c r IH]; intros st acc F0 HI HC l1 l2 HE; cbn [scan] in HE.
  - destruct st as [|q].
    + apply plain_chunks_prefix in HE. apply (HI _ _ HE).
    + destruct HI as [_ HI]. rewrite HI in HC. discriminate.
  - destruct st as [|q].
    + (* outside a literal *)
      assert (Hacc : outside (run F0 acc)) by (apply (HI acc []); now rewrite app_nil_r).
      destruct (is_quote c && has_close c r) eqn:EQ.
      * apply andb_true_iff in EQ. destruct EQ as [Hq _].
        rewrite flat_map_app in HE. apply app_eq_app in HE. destruct HE as (l & [[HA HB] | [HA HB]]).
        -- apply plain_chunks_prefix in HA. apply (HI _ _ HA).
        -- subst l1. rewrite concat_app, run_app.
           assert (Hp : concat (flat_map seg_chunks (plain acc)) = acc).
           { rewrite <- (app_nil_r (flat_map seg_chunks (plain acc))). 
             pose proof (plain_chunks_prefix acc (flat_map seg_chunks (plain acc)) [] (eq_sym (app_nil_r _))) as X.
             cbn in X. rewrite app_nil_r in X. rewrite app_nil_r. now symmetry. }
           rewrite Hp. eapply (IH (QIn c) [c] (run F0 acc)); [| |exact HB].
           ++ split; [exact Hacc|]. cbn. eapply step_outside_quote; eassumption.
           ++ cbn. apply clean_step. exact HC.
      * eapply (IH QOut (acc ++ [c]) F0); [| |exact HE].
        -- intros a1 a2 Ha. destruct a2 as [|x a2'] using rev_ind.
           ++ rewrite app_nil_r in Ha. subst a1. rewrite run_app. cbn.
              destruct (is_quote c) eqn:Hq.
              ** cbn [andb] in EQ. pose proof (step_outside_quote _ _ _ Hacc HC Hq) as HS.
                 pose proof (clean_step _ _ _ HC) as HC2. rewrite HS in HC2. apply clean_has_close in HC2. congruence.
              ** rewrite (step_outside_other _ _ _ Hacc HC Hq). exact I.
           ++ rewrite app_assoc in Ha. apply app_inj_tail in Ha. destruct Ha as [Ha _]. apply (HI _ _ Ha).
        -- rewrite run_app. cbn. apply clean_step. exact HC.
    + (* inside a literal opened by q *)
      destruct HI as [HO HI].
      destruct (Ascii.eqb c q) eqn:E.
      * apply Ascii.eqb_eq in E. subst c. cbn [flat_map seg_chunks app] in HE.
        destruct l1 as [|x l1']; [cbn; exact HO|].
        cbn [app] in HE. injection HE as Hx HE. subst x. cbn [concat]. rewrite run_app.
        eapply (IH QOut [] (run F0 (acc ++ [q]))); [| |exact HE].
        -- intros a1 a2 Ha. symmetry in Ha. apply app_eq_nil in Ha. destruct Ha as [-> _]. cbn.
           rewrite run_app, HI. cbn. rewrite Ascii.eqb_refl. exact I.
        -- cbn. rewrite run_app. cbn. rewrite HI in *. apply clean_step. exact HC.
      * eapply (IH (QIn q) (acc ++ [c]) F0); [| |exact HE].
        -- split; [exact HO|]. rewrite run_app, HI. cbn. now rewrite E.
        -- rewrite run_app. cbn. rewrite HI in *. apply clean_step. exact HC.
Qed.

Lemma chunks_respect_literals s l1 l2 :
  lit_clean s = true -> chunk_list s = l1 ++ l2 -> cut_in_literal (concat l1) (concat l2) = false.
Proof.
  intros HC HE. unfold chunk_list in HE.
  assert (HO : outside (run LOut (concat l1))).
  { eapply (scan_cuts s QOut [] LOut); [| exact HC | exact HE].
    intros a1 a2 Ha. symmetry in Ha. apply app_eq_nil in Ha. destruct Ha as [-> _]. exact I. }
  assert (Hs : s = concat l1 ++ concat l2).
  { rewrite <- (concat_app l1 l2). transitivity (concat (chunk_list s)); [symmetry; apply chunk_list_concat | f_equal; exact HE]. }
  unfold lit_clean in HC. rewrite Hs in HC. apply clean_app in HC.
  unfold cut_in_literal, lit_state. change (fold_left lit_step (concat l1) LOut) with (run LOut (concat l1)).
  destruct (run LOut (concat l1)) as [|q|q]; [reflexivity | contradiction |].
  destruct (concat l2) as [|c r]; [reflexivity|].
  cbn [lit_clean_from] in HC. destruct (Ascii.eqb c q); [discriminate | reflexivity].
Qed.

(** ** all atoms of a list of strings *)
Lemma chunks_respect_from F0 s l1 l2 :
  outside F0 -> lit_clean_from F0 s = true -> chunk_list s = l1 ++ l2 -> outside (run F0 (concat l1)).
Proof.
  intros HO HC HE. eapply (scan_cuts s QOut [] F0); [| exact HC | exact HE].
  intros a1 a2 Ha. symmetry in Ha. apply app_eq_nil in Ha. destruct Ha as [-> _]. exact HO.
Qed.

Lemma clean_end s : forall F, lit_clean_from F s = true -> outside (run F s).
Proof.
  induction s as [|c r IH]; intros F H.
  - destruct F; cbn in *; try exact I. discriminate.
  - change (run F (c :: r)) with (run (lit_step F c) r). apply IH. apply clean_step. exact H.
Qed.

Lemma clean_from_outside F x rest :
  outside F -> lit_clean_from F (x ++ rest) = true -> lit_clean x = true -> lit_clean_from F x = true.
Proof.
  intros HO HW HX. destruct F as [|q|q]; [exact HX | contradiction |].
  destruct x as [|c r]; [reflexivity|].
  cbn [app lit_clean_from] in HW. unfold lit_clean in HX. cbn [lit_clean_from] in *.
  destruct (Ascii.eqb c q) eqn:E; [discriminate|].
  cbn [lit_step] in *. rewrite E. exact HX.
Qed.

Lemma atoms_cuts ps : forall F,
  outside F -> lit_clean_from F (concat ps) = true -> Forall (fun x => lit_clean x = true) ps ->
  forall l1 l2, flat_map chunk_list ps = l1 ++ l2 -> outside (run F (concat l1)).
Proof.
  induction ps as [|x ps IH]; intros F HO HW HP l1 l2 HE.
  - cbn in HE. symmetry in HE. apply app_eq_nil in HE. destruct HE as [-> _]. exact HO.
  - inversion HP as [|? ? HX HPs]; subst. cbn [concat] in HW. cbn [flat_map] in HE.
    pose proof (clean_from_outside F x (concat ps) HO HW HX) as HFx.
    apply app_eq_app in HE. destruct HE as (l & [[HA HB] | [HA HB]]).
    + eapply chunks_respect_from; eassumption.
    + subst l1. rewrite concat_app, chunk_list_concat, run_app.
      eapply IH; [apply clean_end; exact HFx | apply clean_app; exact HW | exact HPs | exact HB].
Qed.

Lemma outside_cut a b : lit_clean (a ++ b) = true -> outside (run LOut a) -> cut_in_literal a b = false.
Proof.
  intros HC HO. unfold lit_clean in HC. apply clean_app in HC.
  unfold cut_in_literal, lit_state. change (fold_left lit_step a LOut) with (run LOut a).
  destruct (run LOut a) as [|q|q]; [reflexivity | contradiction |].
  destruct b as [|c r]; [reflexivity|].
  cbn [lit_clean_from] in HC. destruct (Ascii.eqb c q); [discriminate | reflexivity].
Qed.

(** on the class, no place where the wrapping may break (any atom boundary) lies inside a character literal *)
Lemma no_cut_in_literal p ss l1 l2 :
  Forall (fun x => lit_clean x = true) (pieces p ss) -> lit_clean (flat_skip p ss) = true ->
  atoms p ss = l1 ++ l2 -> cut_in_literal (concat l1) (concat l2) = false.
Proof.
  intros HP HW HE. apply outside_cut.
  - replace (concat l1 ++ concat l2) with (flat_skip p ss); [exact HW|].
    rewrite <- atoms_concat, HE. apply concat_app.
  - eapply (atoms_cuts (pieces p ss) LOut); [exact I | exact HW | exact HP | exact HE].
Qed.

Import String.
Local Open Scope list_scope.
(** non-vacuity: a statement with literals of both kinds is in the class, the F13 literal is not *)
Example ex_clean : lit_clean (list_ascii_of_string "x = 'say ""hi"" there' // ""it's"" // f(a)%b") = true.
Proof. vm_compute. reflexivity. Qed.
Example ex_not_clean : lit_clean (list_ascii_of_string "x = 'it''s'") = false.
Proof. vm_compute. reflexivity. Qed.
