(** C20 — concrete witnesses (refutations of the unconditional statements) and non-vacuity examples. *)
From Coq Require Import ZArith List Bool String Ascii Lia Arith Sorting.Sorted.
From LV Require Import Base.Strings models.M_C20 proofs.P_C20_base.
Import ListNotations.
Open Scope Z_scope.

(** the ignore_space fall-back of Source.find: the end can lie before the start ... *)
Lemma find_space_reversed_lemma :
  find "c a" "a  c" true true = FSpan 2%nat 1%nat.
Proof. vm_compute. reflexivity. Qed.

(** ... the located text can hold more than the searched string ... *)
Lemma find_space_extra_lemma :
  find "a + b * a" "a  *" true true = FSpan 0%nat 7%nat /\
  remove_ws (lower (slice 0%nat 7%nat "a + b * a")) <> remove_ws (lower "a  *").
Proof. split; [vm_compute; reflexivity|vm_compute; discriminate]. Qed.

(** ... and a blank search string raises IndexError *)
Lemma find_space_index_error_lemma : find "x" " " true true = FIndexError.
Proof. vm_compute. reflexivity. Qed.

(** the frontend's use: a character literal continued over two lines is "found" with its continuation markers *)
Definition continued_literal : string :=
  ("  s = 'hello &" ++ String nl "     &world'")%string.
Lemma cws_continued_literal_lemma :
  exists r, clone_with_string (mk 3 (Some 4) continued_literal None) "'hello world'" true true = Some r /\
    s_str r = ("'hello &" ++ String nl "     &world'")%string /\ s_l0 r = 3 /\ s_l1 r = Some 4.
Proof. eexists. split; [vm_compute; reflexivity|]. repeat split. Qed.

(** non-vacuity: a three-line text, the span from column 2 of line 0 to column 1 of line 2 *)
Example span_example :
  let ls := ["ab cd"; ""; "xyz"]%string in
  let r := clone_with_span (mk 10 (Some 12) (join_nl ls) (Some "f.F90"%string)) 2%nat (Some 8%nat) in
  forallb no_nl ls = true /\ line_start ls 0%nat = 0%nat /\ line_start ls 2%nat = 7%nat /\
  s_l0 r = 10 /\ s_l1 r = Some 12 /\ s_str r = text_between ls 0%nat 2%nat 2%nat 1%nat /\
  s_str r = (" cd" ++ String nl (String nl "x"))%string.
Proof. cbv zeta. repeat split; vm_compute; reflexivity. Qed.

(** non-vacuity: a text with a continued statement, an interleaved comment, a pragma, a statement list *)
Definition reader_demo : string :=
  join_nl ["! head"; "call foo(a, &"; "  ! note"; "   & b) ! tail"; "!$acc loop"; "x = 1; Y = 2"]%string.
Example reader_example :
  map (fun x => (r_text x, r_s x, r_e x)) (rd_san (reader_of_text reader_demo)) =
    [("call foo(a,  b)", 2, 4); ("!$acc loop", 5, 5); ("x = 1", 6, 6); ("y = 2", 6, 6)]%string /\
  inner_ok (fp_read (text_lines reader_demo)) = true /\
  rd_spans (reader_of_text reader_demo) = [0; 16; 27; 33; 39].
Proof. repeat split; vm_compute; reflexivity. Qed.
