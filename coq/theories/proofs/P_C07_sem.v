(** C07 — proofs, part 2: on the class [std_*] the tree built by the parser (after PymbolicMapper) has the
    value the Fortran grammar assigns to the derivation. *)
From Coq Require Import ZArith List Bool String Ascii Lia Arith.
From LV Require Import Base.Expr models.M_C07 proofs.P_C07.
Import ListNotations.
Open Scope Z_scope.

(** * induction principle for [pexp] through the argument lists *)
Section pexp_ind'.
  Variable P : pexp -> Prop.
  Hypothesis HNum : forall n, P (PNum n).
  Hypothesis HM1 : P PM1.
  Hypothesis HVar : forall s, P (PVar s).
  Hypothesis HLog : forall b, P (PLog b).
  Hypothesis HSum : forall p l r, P l -> P r -> P (PSum p l r).
  Hypothesis HProd : forall p l r, P l -> P r -> P (PProd p l r).
  Hypothesis HQuot : forall p l r, P l -> P r -> P (PQuot p l r).
  Hypothesis HPow : forall p l r, P l -> P r -> P (PPow p l r).
  Hypothesis HCmp : forall op l r, P l -> P r -> P (PCmp op l r).
  Hypothesis HAnd : forall l r, P l -> P r -> P (PAnd l r).
  Hypothesis HOr : forall l r, P l -> P r -> P (POr l r).
  Hypothesis HNot : forall x, P x -> P (PNot x).
  Hypothesis HCall : forall f args, P f -> Forall P args -> P (PCall f args).
  Hypothesis HLookup : forall a n, P a -> P n -> P (PLookup a n).

  Fixpoint pexp_ind' (e : pexp) : P e :=
    let fix go (l : list pexp) : Forall P l :=
      match l with
      | [] => Forall_nil P
      | x :: r => Forall_cons x (pexp_ind' x) (go r)
      end in
    match e with
    | PNum n => HNum n
    | PM1 => HM1
    | PVar s => HVar s
    | PLog b => HLog b
    | PSum p l r => HSum p l r (pexp_ind' l) (pexp_ind' r)
    | PProd p l r => HProd p l r (pexp_ind' l) (pexp_ind' r)
    | PQuot p l r => HQuot p l r (pexp_ind' l) (pexp_ind' r)
    | PPow p l r => HPow p l r (pexp_ind' l) (pexp_ind' r)
    | PCmp op l r => HCmp op l r (pexp_ind' l) (pexp_ind' r)
    | PAnd l r => HAnd l r (pexp_ind' l) (pexp_ind' r)
    | POr l r => HOr l r (pexp_ind' l) (pexp_ind' r)
    | PNot x => HNot x (pexp_ind' x)
    | PCall f args => HCall f args (pexp_ind' f) (go args)
    | PLookup a n => HLookup a n (pexp_ind' a) (pexp_ind' n)
    end.
End pexp_ind'.

(** * PymbolicMapper on lookup-free trees is a plain homomorphism *)
Fixpoint mappable (e : pexp) : bool :=
  match e with
  | PNum _ | PM1 | PVar _ | PLog _ => true
  | PSum _ l r | PProd _ l r | PQuot _ l r | PPow _ l r | PCmp _ l r | PAnd l r | POr l r => mappable l && mappable r
  | PNot x => mappable x
  | PCall (PVar name) args => negb (is_cast_name name) && forallb mappable args
  | PCall _ _ => false
  | PLookup _ _ => false
  end.

Fixpoint pma (e : pexp) : expr :=
  match e with
  | PNum n => EInt n
  | PM1 => EPy (-1)
  | PVar s => EVar s
  | PLog b => ELog b
  | PSum p l r => ESum p [pma l; pma r]
  | PProd p l r => EProd p [pma l; pma r]
  | PQuot p l r => EQuot p (pma l) (pma r)
  | PPow p l r => EPow p (pma l) (pma r)
  | PCmp op l r => ECmp op (pma l) (pma r)
  | PAnd l r => EAnd [pma l; pma r]
  | POr l r => EOr [pma l; pma r]
  | PNot x => ENot (pma x)
  | PCall (PVar name) args => ECall name (map pma args)
  | PCall _ _ => EVar ""
  | PLookup _ _ => EVar ""
  end.

Lemma pm_list_map f l : Forall (fun x => f x = Ok (pma x)) l -> pm_list f l = Ok (map pma l).
Proof.
  induction 1 as [|x r Hx Hr IH]; [reflexivity|].
  unfold pm_list in *. cbn [map]. rewrite Hx. cbn [bind]. rewrite IH. reflexivity.
Qed.

Lemma Forall_mappable (Q : pexp -> Prop) l :
  Forall (fun x => mappable x = true -> Q x) l -> forallb mappable l = true -> Forall Q l.
Proof.
  induction 1 as [|x r Hx Hr IH]; intros H; [constructor|].
  cbn [forallb] in H. apply andb_true_iff in H. destruct H as [H1 H2]. constructor; auto.
Qed.

Lemma pm_pma e : mappable e = true -> pm None e = Ok (pma e).
Proof.
  induction e using pexp_ind'; intros Hm; cbn [mappable] in Hm; try reflexivity; try discriminate.
  all: try (repeat match goal with Hx : _ && _ = true |- _ => apply andb_true_iff in Hx; destruct Hx end;
            cbn [pm pma];
            repeat match goal with IH : mappable ?x = true -> pm None ?x = _, Hx : mappable ?x = true |- _ => rewrite (IH Hx); clear IH end;
            reflexivity).
  destruct e; try discriminate. apply andb_true_iff in Hm. destruct Hm as [H1 H2].
  cbn [pm pma]. destruct (is_cast_name s); [discriminate|].
  assert (HF : Forall (fun x => pm None x = Ok (pma x)) args) by (eapply Forall_mappable; eauto).
  destruct (fintr_name s); rewrite (pm_list_map (fun x => pm None x) args HF); reflexivity.
Qed.

(** * evaluation of binary nodes *)
Lemma evalZ_sum2 rho b x y : evalZ rho (ESum b [x; y]) = addo (evalZ rho x) (evalZ rho y).
Proof.
  cbn [evalZ fold_right]. unfold addo, lift2.
  destruct (evalZ rho x), (evalZ rho y); cbn [obind]; try reflexivity. f_equal. lia.
Qed.
Lemma evalZ_prod2 rho b x y : evalZ rho (EProd b [x; y]) = mulo (evalZ rho x) (evalZ rho y).
Proof.
  cbn [evalZ fold_right]. unfold mulo, lift2.
  destruct (evalZ rho x), (evalZ rho y); cbn [obind]; try reflexivity. f_equal. lia.
Qed.
Lemma evalZ_quot rho b x y : evalZ rho (EQuot b x y) = divo (evalZ rho x) (evalZ rho y).
Proof. reflexivity. Qed.
Lemma evalZ_pow rho b x y : evalZ rho (EPow b x y) = powo (evalZ rho x) (evalZ rho y).
Proof. reflexivity. Qed.
Lemma evalZ_negp rho x : evalZ rho (EProd false [EPy (-1); x]) = nego (evalZ rho x).
Proof.
  rewrite evalZ_prod2. cbn [evalZ]. unfold mulo, nego, lift2. cbn [obind].
  destruct (evalZ rho x); cbn [obind]; try reflexivity; try (f_equal; lia).
Qed.
Lemma evalZ_call rho f l :
  evalZ rho (ECall f l) =
  obind (omap_list (evalZ rho) l) (fun vs => match intrinsic f vs with Some r => r | None => ev_fun rho f vs end).
Proof.
  cbn [evalZ].
  match goal with |- obind ?X _ = obind ?Y _ => assert (E : X = Y) end.
  { induction l as [|a r IH]; [reflexivity|]. cbn [omap_list]. rewrite <- IH. reflexivity. }
  rewrite E. reflexivity.
Qed.

Lemma evalL_and2 rho x y : evalL rho (EAnd [x; y]) = ando (evalL rho x) (evalL rho y).
Proof.
  cbn [evalL fold_right]. unfold ando, lift2.
  destruct (evalL rho x), (evalL rho y); cbn [obind]; try reflexivity. now rewrite andb_true_r.
Qed.
Lemma evalL_or2 rho x y : evalL rho (EOr [x; y]) = oro (evalL rho x) (evalL rho y).
Proof.
  cbn [evalL fold_right]. unfold oro, lift2.
  destruct (evalL rho x), (evalL rho y); cbn [obind]; try reflexivity. now rewrite orb_false_r.
Qed.

(** option arithmetic *)
Lemma mulo_assoc x y z : mulo (mulo x y) z = mulo x (mulo y z).
Proof. destruct x, y, z; cbn; try reflexivity. f_equal. ring. Qed.
Lemma mulo_none_r x : mulo x None = None.
Proof. destruct x; reflexivity. Qed.
Lemma mulo_nego x y : mulo (nego x) y = nego (mulo x y).
Proof. destruct x, y; cbn; try reflexivity. f_equal. ring. Qed.
Lemma divo_nego x y : divo (nego x) y = nego (divo x y).
Proof.
  destruct x as [a|], y as [b|]; cbn; try reflexivity.
  unfold div_z. destruct (b =? 0) eqn:E; cbn; [reflexivity|].
  f_equal. apply Z.quot_opp_l. now apply Z.eqb_neq.
Qed.

(** * Shapes *)
Definition bareQ (t : expr) : bool := match t with EQuot false _ _ => true | _ => false end.

Definition mul_reassoc_e (l r : expr) : expr :=
  match r with
  | EQuot false n d => EQuot false (EProd false [l; n]) d
  | EProd false [x; y] => EProd false [EProd false [l; x]; y]
  | _ => EProd false [l; r]
  end.

Lemma pma_mul_reassoc l r : pma (mul_reassoc l r) = mul_reassoc_e (pma l) (pma r).
Proof.
  destruct r; try reflexivity.
  - destruct paren; reflexivity.
  - destruct paren; reflexivity.
  - destruct r; reflexivity.
Qed.

Lemma mappable_mul_reassoc l r : mappable (mul_reassoc l r) = mappable l && mappable r.
Proof.
  destruct r; try reflexivity.
  - destruct paren; cbn [mul_reassoc mappable]; [reflexivity|now rewrite andb_assoc].
  - destruct paren; cbn [mul_reassoc mappable]; [reflexivity|now rewrite andb_assoc].
Qed.

Lemma reassoc_val_nq rho l r : bareQ r = false ->
  evalZ rho (mul_reassoc_e l r) = mulo (evalZ rho l) (evalZ rho r).
Proof.
  intros H. destruct r; try (unfold mul_reassoc_e; apply evalZ_prod2).
  - (* EProd *) destruct paren; [apply evalZ_prod2|].
    destruct cs as [|x [|y [|z cs]]]; try apply evalZ_prod2.
    unfold mul_reassoc_e. rewrite !evalZ_prod2. apply mulo_assoc.
  - destruct paren; [apply evalZ_prod2|discriminate].
Qed.

Lemma reassoc_val_q rho l n d :
  evalZ rho (mul_reassoc_e l (EQuot false n d)) = divo (mulo (evalZ rho l) (evalZ rho n)) (evalZ rho d).
Proof. unfold mul_reassoc_e. rewrite evalZ_quot, evalZ_prod2. reflexivity. Qed.

Lemma bareQ_reassoc l r : bareQ r = false -> bareQ (mul_reassoc_e l r) = false.
Proof.
  intros H. destruct r; try reflexivity.
  - destruct paren; [reflexivity|]. destruct cs as [|x [|y [|z cs]]]; reflexivity.
  - destruct paren; [reflexivity|discriminate].
Qed.

Lemma mappable_parenthesise x : mappable (parenthesise x) = mappable x.
Proof. destruct x; reflexivity. Qed.
Lemma bareQ_paren x : bareQ (pma (parenthesise x)) = false.
Proof.
  destruct x; try reflexivity. destruct x; reflexivity.
Qed.
Lemma evalZ_parenthesise rho x : evalZ rho (pma (parenthesise x)) = evalZ rho (pma x).
Proof. destruct x; reflexivity. Qed.
Lemma evalL_parenthesise rho x : evalL rho (pma (parenthesise x)) = evalL rho (pma x).
Proof. destruct x; reflexivity. Qed.

(** * Tails at the [expr] level *)
Definition te_mul (m : mulopd) : expr := pma (tr_mul m).
Definition te_add (a : addopd) : expr := pma (tr_add a).

Fixpoint tre_mtail (l : expr) (t : mtail) : expr :=
  match t with
  | MNil => l
  | MMul m r => mul_reassoc_e l (tre_mtail (te_mul m) r)
  | MDiv m r => tre_mtail (EQuot false l (te_mul m)) r
  end.

Lemma pma_tr_mtail t : forall l, pma (tr_mtail l t) = tre_mtail (pma l) t.
Proof.
  induction t as [|m r IH|m r IH]; intros l; cbn [tr_mtail tre_mtail].
  - reflexivity.
  - rewrite pma_mul_reassoc, IH. reflexivity.
  - rewrite IH. reflexivity.
Qed.

Fixpoint all_m (Q : mulopd -> Prop) (t : mtail) : Prop :=
  match t with
  | MNil => True
  | MMul m r | MDiv m r => Q m /\ all_m Q r
  end.
Fixpoint all_a (Q : addopd -> Prop) (t : atail) : Prop :=
  match t with
  | ANil => True
  | AAdd a r | ASub a r => Q a /\ all_a Q r
  end.

Lemma all_m_impl (Q Q' : mulopd -> Prop) t : (forall m, Q m -> Q' m) -> all_m Q t -> all_m Q' t.
Proof. intros H. induction t; cbn; intuition. Qed.
Lemma all_a_impl (Q Q' : addopd -> Prop) t : (forall m, Q m -> Q' m) -> all_a Q t -> all_a Q' t.
Proof. intros H. induction t; cbn; intuition. Qed.

Lemma mappable_tr_mtail t : forall l, mappable l = true ->
  all_m (fun m => mappable (tr_mul m) = true) t -> mappable (tr_mtail l t) = true.
Proof.
  induction t as [|m r IH|m r IH]; intros l Hl Ha; cbn [tr_mtail all_m] in *.
  - exact Hl.
  - destruct Ha as [Hm Hr]. rewrite mappable_mul_reassoc, Hl. cbn. now apply IH.
  - destruct Ha as [Hm Hr]. apply IH; [|exact Hr]. cbn [mappable]. now rewrite Hl, Hm.
Qed.

(** element facts *)
Definition Qm (m : mulopd) : Prop :=
  mappable (tr_mul m) = true /\ bareQ (te_mul m) = false /\ forall rho, evalZ rho (te_mul m) = v_mul rho m.

(** reference values of simple tails *)
Fixpoint v_front (rho : env) (acc : option Z) (t : mtail) : option Z :=
  match t with
  | MMul m r => v_front rho (mulo acc (v_mul rho m)) r
  | _ => acc
  end.
Fixpoint lastdiv (t : mtail) : option mulopd :=
  match t with
  | MNil => None
  | MMul _ r => lastdiv r
  | MDiv m _ => Some m
  end.

Lemma v_front_scale rho t : forall x y, v_front rho (mulo x y) t = mulo x (v_front rho y t).
Proof.
  induction t as [|m r IH|m r IH]; intros x y; cbn [v_front]; try reflexivity.
  rewrite mulo_assoc. apply IH.
Qed.

Lemma simple_val rho t : forall acc, simple_mtail t = true ->
  v_mtail rho acc t = match lastdiv t with
                      | None => v_front rho acc t
                      | Some md => divo (v_front rho acc t) (v_mul rho md)
                      end.
Proof.
  induction t as [|m r IH|m r IH]; intros acc H; cbn [v_mtail lastdiv v_front simple_mtail] in *.
  - reflexivity.
  - now apply IH.
  - destruct r; [reflexivity|discriminate|discriminate].
Qed.

Lemma simple_shape t : simple_mtail t = true -> all_m Qm t -> forall l, bareQ l = false ->
  match lastdiv t with
  | None => bareQ (tre_mtail l t) = false /\ forall rho, evalZ rho (tre_mtail l t) = v_front rho (evalZ rho l) t
  | Some md => exists n, tre_mtail l t = EQuot false n (te_mul md) /\
                 (forall rho, evalZ rho n = v_front rho (evalZ rho l) t) /\
                 (forall rho, evalZ rho (te_mul md) = v_mul rho md)
  end.
Proof.
  induction t as [|m r IH|m r IH]; intros Hs Ha l Hl; cbn [lastdiv tre_mtail v_front simple_mtail all_m] in *.
  - split; [exact Hl|reflexivity].
  - destruct Ha as [(Hm1 & Hm2 & Hm3) Hr].
    specialize (IH Hs Hr (te_mul m) Hm2).
    destruct (lastdiv r) as [md|].
    + destruct IH as (n & En & Vn & Vd). rewrite En. exists (EProd false [l; n]). split; [reflexivity|]. split; [|exact Vd].
      intros rho. rewrite evalZ_prod2, Vn, Hm3. now rewrite v_front_scale.
    + destruct IH as [Hb Hv]. split; [now apply bareQ_reassoc|].
      intros rho. rewrite reassoc_val_nq by exact Hb. rewrite Hv, Hm3. now rewrite v_front_scale.
  - destruct Ha as [(Hm1 & Hm2 & Hm3) Hr].
    destruct r; try discriminate. cbn [tre_mtail]. exists l. split; [reflexivity|]. split; [reflexivity|exact Hm3].
Qed.

Lemma ok_val t : ok_mtail t = true -> all_m Qm t -> forall l rho,
  evalZ rho (tre_mtail l t) = v_mtail rho (evalZ rho l) t.
Proof.
  induction t as [|m r IH|m r IH]; intros Hok Ha l rho; cbn [tre_mtail v_mtail ok_mtail all_m] in *.
  - reflexivity.
  - destruct Ha as [(Hm1 & Hm2 & Hm3) Hr].
    pose proof (simple_shape r Hok Hr (te_mul m) Hm2) as Sh.
    rewrite (simple_val rho r _ Hok).
    destruct (lastdiv r) as [md|].
    + destruct Sh as (n & En & Vn & Vd). rewrite En, reassoc_val_q, Vn, Vd, Hm3.
      now rewrite v_front_scale.
    + destruct Sh as [Hb Hv]. rewrite reassoc_val_nq by exact Hb. rewrite Hv, Hm3. now rewrite v_front_scale.
  - destruct Ha as [(Hm1 & Hm2 & Hm3) Hr].
    rewrite (IH Hok Hr). rewrite evalZ_quot, Hm3. reflexivity.
Qed.

(** a leading minus on the first primary = minus on the whole add-operand *)
Lemma v_mtail_nego rho t : forall x, v_mtail rho (nego x) t = nego (v_mtail rho x t).
Proof.
  induction t as [|m r IH|m r IH]; intros x; cbn [v_mtail].
  - reflexivity.
  - rewrite mulo_nego. apply IH.
  - rewrite divo_nego. apply IH.
Qed.

(** [+] [-] tails *)
Fixpoint tre_atail (l : expr) (t : atail) : expr :=
  match t with
  | ANil => l
  | AAdd a r => tre_atail (ESum false [l; te_add a]) r
  | ASub a r => tre_atail (ESum false [l; EProd false [EPy (-1); te_add a]]) r
  end.

Lemma pma_tr_atail t : forall l, pma (tr_atail l t) = tre_atail (pma l) t.
Proof.
  induction t as [|a r IH|a r IH]; intros l; cbn [tr_atail tre_atail]; [reflexivity| |]; rewrite IH; reflexivity.
Qed.

Lemma mappable_tr_atail t : forall l, mappable l = true ->
  all_a (fun a => mappable (tr_add a) = true) t -> mappable (tr_atail l t) = true.
Proof.
  induction t as [|a r IH|a r IH]; intros l Hl Ha; cbn [tr_atail all_a] in *.
  - exact Hl.
  - destruct Ha as [H1 H2]. apply IH; [|exact H2]. cbn [mappable]. now rewrite Hl, H1.
  - destruct Ha as [H1 H2]. apply IH; [|exact H2]. cbn [mappable negp]. now rewrite Hl, H1.
Qed.

Definition Qa (a : addopd) : Prop :=
  mappable (tr_add a) = true /\ forall rho, evalZ rho (te_add a) = v_add rho a.

Lemma subo_addo x y : addo x (nego y) = subo x y.
Proof. destruct x, y; cbn; try reflexivity; try (f_equal; lia). Qed.

Lemma atail_val t : all_a Qa t -> forall l rho, evalZ rho (tre_atail l t) = v_atail rho (evalZ rho l) t.
Proof.
  induction t as [|a r IH|a r IH]; intros Ha l rho; cbn [tre_atail v_atail all_a] in *.
  - reflexivity.
  - destruct Ha as [[H1 H2] Hr]. rewrite (IH Hr), evalZ_sum2, H2. reflexivity.
  - destruct Ha as [[H1 H2] Hr]. rewrite (IH Hr), evalZ_sum2, evalZ_negp, H2, subo_addo. reflexivity.
Qed.

(** * Mutual induction over the arithmetic derivation families *)
Scheme prim_mind := Induction for prim Sort Prop
  with mulopd_mind := Induction for mulopd Sort Prop
  with mtail_mind := Induction for mtail Sort Prop
  with addopd_mind := Induction for addopd Sort Prop
  with atail_mind := Induction for atail Sort Prop
  with lvl2_mind := Induction for lvl2 Sort Prop
  with args_mind := Induction for args Sort Prop.
Combined Scheme arith_mutind from prim_mind, mulopd_mind, mtail_mind, addopd_mind, atail_mind, lvl2_mind, args_mind.

Definition S_prim (p : prim) : Prop := std_prim p = true ->
  mappable (tr_prim p) = true /\ bareQ (pma (tr_prim p)) = false /\ forall rho, evalZ rho (pma (tr_prim p)) = v_prim rho p.
Definition S_mul (m : mulopd) : Prop := std_mul m = true -> Qm m /\
  (mappable (tr_prim (base_of m)) = true /\ forall rho, evalZ rho (pma (tr_prim (base_of m))) = v_prim rho (base_of m)).
Definition S_mtail (t : mtail) : Prop := std_mtail t = true -> all_m Qm t.
Definition S_add (a : addopd) : Prop := std_add a = true ->
  match a with AO m mt => S_mul m /\ std_mul m = true /\ all_m Qm mt /\ ok_mtail mt = true end.
Definition S_atail (t : atail) : Prop := std_atail t = true -> all_a Qa t.
Definition S_l2 (e : lvl2) : Prop := std_l2 e = true ->
  mappable (tr_l2 e) = true /\ forall rho, evalZ rho (pma (tr_l2 e)) = v_l2 rho e.
Definition S_args (a : args) : Prop := std_args a = true ->
  forallb mappable (tr_args a) = true /\ forall rho, omap_list (evalZ rho) (map pma (tr_args a)) = v_args rho a.

Lemma Qa_of_parts m mt : Qm m -> all_m Qm mt -> ok_mtail mt = true -> Qa (AO m mt).
Proof.
  intros (H1 & H2 & H3) Hm Hok. split.
  - cbn [tr_add]. apply mappable_tr_mtail; [exact H1|]. eapply all_m_impl; [|exact Hm]. intros m' Hq. apply Hq.
  - intros rho. unfold te_add. cbn [tr_add v_add]. rewrite pma_tr_mtail. rewrite (ok_val mt Hok Hm). fold (te_mul m). now rewrite H3.
Qed.

Lemma sem_arith :
  (forall p, S_prim p) /\ (forall m, S_mul m) /\ (forall t, S_mtail t) /\ (forall a, S_add a) /\
  (forall t, S_atail t) /\ (forall e, S_l2 e) /\ (forall a, S_args a).
Proof.
  apply arith_mutind.
  - (* PrInt *) intros n _. repeat split.
  - (* PrVar *) intros x _. repeat split.
  - (* PrParen *) intros e IH Hs. cbn [std_prim] in Hs. destruct (IH Hs) as [H1 H2].
    cbn [tr_prim v_prim]. split; [now rewrite mappable_parenthesise|]. split; [apply bareQ_paren|].
    intros rho. now rewrite evalZ_parenthesise.
  - (* PrCall *) intros f a IH Hs. cbn [std_prim] in Hs. apply andb_true_iff in Hs. destruct Hs as [Hc Ha].
    destruct (IH Ha) as [H1 H2]. cbn [tr_prim v_prim pma mappable]. split; [now rewrite Hc, H1|]. split; [reflexivity|].
    intros rho. rewrite evalZ_call, H2. reflexivity.
  - (* MBase *) intros p IH Hs. cbn [std_mul] in Hs. destruct (IH Hs) as (H1 & H2 & H3).
    split; [split; [exact H1|split; [exact H2|exact H3]]|]. split; [exact H1|exact H3].
  - (* MPow *) intros p IHp m IHm Hs. cbn [std_mul] in Hs. apply andb_true_iff in Hs. destruct Hs as [Hp Hm].
    destruct (IHp Hp) as (P1 & P2 & P3). destruct (IHm Hm) as [(M1 & M2 & M3) _].
    split; [|split; [exact P1|exact P3]].
    unfold Qm, te_mul in *. change (tr_mul (MPow p m)) with (PPow false (tr_prim p) (tr_mul m)).
    cbn [pma mappable v_mul]. split; [now rewrite P1, M1|]. split; [reflexivity|].
    intros rho. rewrite evalZ_pow, P3, M3. reflexivity.
  - (* MNil *) intros _. exact I.
  - (* MMul *) intros m IHm r IHr Hs. cbn [std_mtail] in Hs. apply andb_true_iff in Hs. destruct Hs as [H1 H2].
    cbn [all_m]. split; [apply (IHm H1)|apply (IHr H2)].
  - (* MDiv *) intros m IHm r IHr Hs. cbn [std_mtail] in Hs. apply andb_true_iff in Hs. destruct Hs as [H1 H2].
    cbn [all_m]. split; [apply (IHm H1)|apply (IHr H2)].
  - (* AO *) intros m IHm t IHt Hs. cbn [std_add] in Hs. apply andb_true_iff in Hs. destruct Hs as [Hs Hok].
    apply andb_true_iff in Hs. destruct Hs as [H1 H2].
    split; [exact IHm|]. split; [exact H1|]. split; [apply (IHt H2)|exact Hok].
  - (* ANil *) intros _. exact I.
  - (* AAdd *) intros a IHa r IHr Hs. cbn [std_atail] in Hs. apply andb_true_iff in Hs. destruct Hs as [H1 H2].
    cbn [all_a]. split; [|apply (IHr H2)].
    destruct a as [m mt]. destruct (IHa H1) as (Sm & Hm & Hmt & Hok). apply Qa_of_parts; [apply (Sm Hm)|exact Hmt|exact Hok].
  - (* ASub *) intros a IHa r IHr Hs. cbn [std_atail] in Hs. apply andb_true_iff in Hs. destruct Hs as [H1 H2].
    cbn [all_a]. split; [|apply (IHr H2)].
    destruct a as [m mt]. destruct (IHa H1) as (Sm & Hm & Hmt & Hok). apply Qa_of_parts; [apply (Sm Hm)|exact Hmt|exact Hok].
  - (* L2 *) intros s a IHa t IHt Hs. cbn [std_l2] in Hs. apply andb_true_iff in Hs. destruct Hs as [Hs Ht].
    apply andb_true_iff in Hs. destruct Hs as [Hnp Ha].
    destruct a as [m mt]. destruct (IHa Ha) as (Sm & Hm & Hmt & Hok).
    destruct (Sm Hm) as [(M1 & M2 & M3) (B1 & B3)].
    pose proof (IHt Ht) as Hat.
    assert (HmapT : all_a (fun a => mappable (tr_add a) = true) t).
    { eapply all_a_impl; [|exact Hat]. intros a' Hq. apply Hq. }
    assert (HmapM : all_m (fun m => mappable (tr_mul m) = true) mt).
    { eapply all_m_impl; [|exact Hmt]. intros m' Hq. apply Hq. }
    cbn [tr_l2].
    assert (Hcase : (wrap_of s = idp /\ forall rho, v_l2 rho (L2 s (AO m mt) t) = v_atail rho (v_add rho (AO m mt)) t)
                    \/ (s = Some SMinus /\ exists p, m = MBase p)).
    { destruct s as [[|]|]; [left; split; reflexivity| |left; split; reflexivity].
      right. split; [reflexivity|]. cbn [neg_pow_free] in Hnp. destruct m; [eauto|discriminate]. }
    destruct Hcase as [[Hw Hv]|[-> [p ->]]].
    + rewrite Hw. split.
      * apply mappable_tr_atail; [|exact HmapT]. apply mappable_tr_mtail; [exact M1|exact HmapM].
      * intros rho. rewrite pma_tr_atail, (atail_val t Hat), pma_tr_mtail, (ok_val mt Hok Hmt).
        fold (te_mul m). rewrite M3. rewrite (Hv rho). reflexivity.
    + cbn [wrap_of tr_mulw base_of] in *. split.
      * apply mappable_tr_atail; [|exact HmapT]. apply mappable_tr_mtail; [|exact HmapM]. cbn [negp mappable]. exact B1.
      * intros rho. rewrite pma_tr_atail, (atail_val t Hat), pma_tr_mtail, (ok_val mt Hok Hmt).
        cbn [negp pma]. rewrite evalZ_negp, B3, v_mtail_nego. reflexivity.
  - (* AOne *) intros e IH Hs. cbn [std_args] in Hs. destruct (IH Hs) as [H1 H2].
    cbn [tr_args forallb map omap_list v_args]. split; [now rewrite H1|].
    intros rho. rewrite H2. destruct (v_l2 rho e); reflexivity.
  - (* ACons *) intros e IHe r IHr Hs. cbn [std_args] in Hs. apply andb_true_iff in Hs. destruct Hs as [H1 H2].
    destruct (IHe H1) as [E1 E2]. destruct (IHr H2) as [R1 R2].
    cbn [tr_args forallb map omap_list v_args]. split; [now rewrite E1, R1|].
    intros rho. rewrite E2, R2. reflexivity.
Qed.

Theorem parser_agrees_arith e : std_l2 e = true ->
  exists t, parse (y_l2 e) = Some t /\ forall rho, evalZ rho t = v_l2 rho e.
Proof.
  intros Hs. destruct sem_arith as (_ & _ & _ & _ & _ & H & _). destruct (H e Hs) as [H1 H2].
  exists (pma (tr_l2 e)). split; [|exact H2].
  unfold parse, parse_res. rewrite parse_p_l2. cbn [bind]. now rewrite pm_pma.
Qed.

(** * Logical levels *)
Fixpoint tre_andtail (l : expr) (t : andtail) : expr :=
  match t with DNil => l | DAnd x r => tre_andtail (EAnd [l; pma (tr_and x)]) r end.
Fixpoint tre_ortail (l : expr) (t : ortail) : expr :=
  match t with ONil => l | OOr x r => tre_ortail (EOr [l; pma (tr_or x)]) r end.
Fixpoint all_d (Q : andopd -> Prop) (t : andtail) : Prop :=
  match t with DNil => True | DAnd x r => Q x /\ all_d Q r end.
Fixpoint all_o (Q : oropd -> Prop) (t : ortail) : Prop :=
  match t with ONil => True | OOr x r => Q x /\ all_o Q r end.

Lemma pma_tr_andtail t : forall l, pma (tr_andtail l t) = tre_andtail (pma l) t.
Proof. induction t as [|x r IH]; intros l; cbn [tr_andtail tre_andtail]; [reflexivity|]. now rewrite IH. Qed.
Lemma pma_tr_ortail t : forall l, pma (tr_ortail l t) = tre_ortail (pma l) t.
Proof. induction t as [|x r IH]; intros l; cbn [tr_ortail tre_ortail]; [reflexivity|]. now rewrite IH. Qed.

Definition Qd (x : andopd) : Prop := mappable (tr_and x) = true /\ forall rho, evalL rho (pma (tr_and x)) = v_and rho x.
Definition Qo (x : oropd) : Prop := mappable (tr_or x) = true /\ forall rho, evalL rho (pma (tr_or x)) = v_or rho x.

Lemma andtail_facts t : all_d Qd t -> forall l, mappable l = true ->
  mappable (tr_andtail l t) = true /\ forall rho, evalL rho (tre_andtail (pma l) t) = v_andtail rho (evalL rho (pma l)) t.
Proof.
  induction t as [|x r IH]; intros Ha l Hl; cbn [tr_andtail tre_andtail v_andtail all_d] in *.
  - split; [exact Hl|reflexivity].
  - destruct Ha as [[H1 H2] Hr].
    destruct (IH Hr (PAnd l (tr_and x))) as [I1 I2]; [cbn [mappable]; now rewrite Hl, H1|].
    split; [exact I1|]. intros rho. cbn [pma] in I2. rewrite I2, evalL_and2, H2. reflexivity.
Qed.
Lemma ortail_facts t : all_o Qo t -> forall l, mappable l = true ->
  mappable (tr_ortail l t) = true /\ forall rho, evalL rho (tre_ortail (pma l) t) = v_ortail rho (evalL rho (pma l)) t.
Proof.
  induction t as [|x r IH]; intros Ha l Hl; cbn [tr_ortail tre_ortail v_ortail all_o] in *.
  - split; [exact Hl|reflexivity].
  - destruct Ha as [[H1 H2] Hr].
    destruct (IH Hr (POr l (tr_or x))) as [I1 I2]; [cbn [mappable]; now rewrite Hl, H1|].
    split; [exact I1|]. intros rho. cbn [pma] in I2. rewrite I2, evalL_or2, H2. reflexivity.
Qed.

Scheme lprim_mind := Induction for lprim Sort Prop
  with l4_mind := Induction for l4 Sort Prop
  with andopd_mind := Induction for andopd Sort Prop
  with andtail_mind := Induction for andtail Sort Prop
  with oropd_mind := Induction for oropd Sort Prop
  with ortail_mind := Induction for ortail Sort Prop
  with lexpr_mind := Induction for lexpr Sort Prop.
Combined Scheme logic_mutind from lprim_mind, l4_mind, andopd_mind, andtail_mind, oropd_mind, ortail_mind, lexpr_mind.

Definition SL (A : Type) (std : A -> bool) (tr : A -> pexp) (v : env -> A -> option bool) (x : A) : Prop :=
  std x = true -> mappable (tr x) = true /\ forall rho, evalL rho (pma (tr x)) = v rho x.

Lemma sem_logic :
  (forall p, SL lprim std_lprim tr_lprim v_lprim p) /\ (forall x, SL l4 std_l4 tr_l4 v_l4 x) /\
  (forall x, SL andopd std_and tr_and v_and x) /\ (forall t, std_andtail t = true -> all_d Qd t) /\
  (forall x, SL oropd std_or tr_or v_or x) /\ (forall t, std_ortail t = true -> all_o Qo t) /\
  (forall e, SL lexpr std_lexpr tr_lexpr v_lexpr e).
Proof.
  apply logic_mutind; unfold SL.
  - intros _. split; reflexivity.
  - intros _. split; reflexivity.
  - intros x _. split; reflexivity.
  - (* LParen *) intros e IH Hs. cbn [std_lprim] in Hs. destruct (IH Hs) as [H1 H2].
    cbn [tr_lprim v_lprim]. split; [now rewrite mappable_parenthesise|]. intros rho. now rewrite evalL_parenthesise.
  - (* L4Prim *) intros p IH Hs. apply (IH Hs).
  - (* L4Cmp *) intros a op b Hs. cbn [std_l4] in Hs. apply andb_true_iff in Hs. destruct Hs as [Ha Hb].
    destruct sem_arith as (_ & _ & _ & _ & _ & H & _).
    destruct (H a Ha) as [A1 A2]. destruct (H b Hb) as [B1 B2].
    cbn [tr_l4 mappable pma v_l4]. split; [now rewrite A1, B1|].
    intros rho. cbn [evalL]. rewrite A2, B2. reflexivity.
  - (* AndBase *) intros y IH Hs. apply (IH Hs).
  - (* AndNot *) intros y IH Hs. destruct y as [p|a op b]; [|discriminate]. cbn [std_and] in Hs.
    destruct (IH Hs) as [H1 H2]. cbn [tr_and mappable pma v_and]. split; [exact H1|].
    intros rho. cbn [evalL]. rewrite H2. reflexivity.
  - intros _. exact I.
  - (* DAnd *) intros x IHx r IHr Hs. cbn [std_andtail] in Hs. apply andb_true_iff in Hs. destruct Hs as [H1 H2].
    cbn [all_d]. split; [apply (IHx H1)|apply (IHr H2)].
  - (* OrO *) intros y IHy t IHt Hs. cbn [std_or] in Hs. apply andb_true_iff in Hs. destruct Hs as [H1 H2].
    destruct (IHy H1) as [Y1 Y2]. destruct (andtail_facts t (IHt H2) (tr_and y) Y1) as [T1 T2].
    cbn [tr_or v_or]. split; [exact T1|]. intros rho. rewrite pma_tr_andtail, T2, Y2. reflexivity.
  - intros _. exact I.
  - (* OOr *) intros x IHx r IHr Hs. cbn [std_ortail] in Hs. apply andb_true_iff in Hs. destruct Hs as [H1 H2].
    cbn [all_o]. split; [apply (IHx H1)|apply (IHr H2)].
  - (* LE *) intros x IHx t IHt Hs. cbn [std_lexpr] in Hs. apply andb_true_iff in Hs. destruct Hs as [H1 H2].
    destruct (IHx H1) as [X1 X2]. destruct (ortail_facts t (IHt H2) (tr_or x) X1) as [T1 T2].
    cbn [tr_lexpr v_lexpr]. split; [exact T1|]. intros rho. rewrite pma_tr_ortail, T2, X2. reflexivity.
Qed.

Theorem parser_agrees_logic e : std_lexpr e = true ->
  exists t, parse (y_lexpr e) = Some t /\ forall rho, evalL rho t = v_lexpr rho e.
Proof.
  intros Hs. destruct sem_logic as (_ & _ & _ & _ & _ & _ & H). destruct (H e Hs) as [H1 H2].
  exists (pma (tr_lexpr e)). split; [|exact H2].
  unfold parse, parse_res. rewrite (parse_p_lexpr e Hs). cbn [bind]. now rewrite pm_pma.
Qed.

(** the main statement: every derivation in the class is parsed to a tree with the derivation's value *)
Theorem parser_agrees_on_class d : std_prec d = true ->
  exists t, parse (y_fexpr d) = Some t /\ forall rho, tree_val rho d t = v_fexpr rho d.
Proof.
  destruct d as [e|e]; cbn [std_prec y_fexpr tree_val v_fexpr]; intros Hs.
  - destruct (parser_agrees_arith e Hs) as (t & H1 & H2). exists t. split; [exact H1|]. intros rho. now rewrite H2.
  - destruct (parser_agrees_logic e Hs) as (t & H1 & H2). exists t. split; [exact H1|]. intros rho. now rewrite H2.
Qed.

(** [evalL] agrees with the shared [evalB] wherever the latter is defined *)
Lemma evalL_extends rho t : forall b, evalB rho t = Some b -> evalL rho t = Some b.
Proof.
  induction t using expr_ind'; intros bb Hb; cbn [evalB] in Hb; try discriminate; cbn [evalL].
  - exact Hb.
  - exact Hb.
  - (* EAnd *) revert bb Hb. induction H as [|c cs Hc Hcs IH]; intros bb Hb; cbn [fold_right] in *; [exact Hb|].
    destruct (evalB rho c) as [v|] eqn:E; [|discriminate]. rewrite (Hc v eq_refl).
    cbn [obind] in *.
    destruct (fold_right (fun c acc => obind (evalB rho c) (fun v => obind acc (fun a => Some (v && a)))) (Some true) cs) as [a|] eqn:E2; [|discriminate].
    rewrite (IH a eq_refl). exact Hb.
  - (* EOr *) revert bb Hb. induction H as [|c cs Hc Hcs IH]; intros bb Hb; cbn [fold_right] in *; [exact Hb|].
    destruct (evalB rho c) as [v|] eqn:E; [|discriminate]. rewrite (Hc v eq_refl).
    cbn [obind] in *.
    destruct (fold_right (fun c acc => obind (evalB rho c) (fun v => obind acc (fun a => Some (v || a)))) (Some false) cs) as [a|] eqn:E2; [|discriminate].
    rewrite (IH a eq_refl). exact Hb.
  - (* ENot *) destruct (evalB rho t) as [v|] eqn:E; [|discriminate]. rewrite (IHt v eq_refl). exact Hb.
Qed.

(** * Witnesses: the unconditional statement is false for the real parser *)
Definition rho0 : env := env_of [].

Definition d_neg_pow : lvl2 :=                      (* -2**2 *)
  L2 (Some SMinus) (AO (MPow (PrInt 2) (MBase (PrInt 2))) MNil) ANil.
Lemma neg_pow_refuted :
  exists t, parse (y_l2 d_neg_pow) = Some t /\ evalZ rho0 t = Some 4 /\ v_l2 rho0 d_neg_pow = Some (-4).
Proof. eexists. split; [vm_compute; reflexivity|]. split; vm_compute; reflexivity. Qed.

Definition d_mul_div : lvl2 :=                      (* 2*3/2*1 *)
  L2 None (AO (MBase (PrInt 2)) (MMul (MBase (PrInt 3)) (MDiv (MBase (PrInt 2)) (MMul (MBase (PrInt 1)) MNil)))) ANil.
Lemma mul_div_refuted :
  exists t, parse (y_l2 d_mul_div) = Some t /\ evalZ rho0 t = Some 2 /\ v_l2 rho0 d_mul_div = Some 3.
Proof. eexists. split; [vm_compute; reflexivity|]. split; vm_compute; reflexivity. Qed.

Definition d_not_cmp : lexpr :=                     (* .not. 1 == 2 *)
  LE (OrO (AndNot (L4Cmp (L2 None (AO (MBase (PrInt 1)) MNil) ANil) Ceq (L2 None (AO (MBase (PrInt 2)) MNil) ANil))) DNil) ONil.
Lemma not_cmp_refuted :
  exists t, parse (y_lexpr d_not_cmp) = Some t /\ t = ECmp Ceq (ENot (EInt 1)) (EInt 2) /\
            evalL rho0 t = None /\ v_lexpr rho0 d_not_cmp = Some true.
Proof. eexists. split; [vm_compute; reflexivity|]. split; [reflexivity|]. split; vm_compute; reflexivity. Qed.

Lemma eqv_refuted :                                  (* l .eqv. m : the dots are read as '%' *)
  parse [TId "l"; TPct; TId "eqv"; TPct; TId "m"] = Some (EVar "l%eqv%m").
Proof. vm_compute. reflexivity. Qed.

Lemma comp_times_refuted :                           (* x%y*z : z is looked up inside x *)
  parse [TId "x"; TPct; TId "y"; TStar; TId "z"] = Some (EProd false [EVar "x%y"; EVar "x%z"]).
Proof. vm_compute. reflexivity. Qed.

(** the class is inhabited by non-trivial derivations:  -a*b/c + 2**3**2 - mod(a, (b))  *)
Definition d_example : lvl2 :=
  L2 (Some SMinus)
     (AO (MBase (PrVar "a")) (MMul (MBase (PrVar "b")) (MDiv (MBase (PrVar "c")) MNil)))
     (AAdd (AO (MPow (PrInt 2) (MPow (PrInt 3) (MBase (PrInt 2)))) MNil)
       (ASub (AO (MBase (PrCall "mod" (ACons (L2 None (AO (MBase (PrVar "a")) MNil) ANil)
                                            (AOne (L2 None (AO (MBase (PrParen (L2 None (AO (MBase (PrVar "b")) MNil) ANil))) MNil) ANil))))) MNil)
          ANil)).
Example class_inhabited :
  std_l2 d_example = true /\
  v_l2 (env_of [("a", 7); ("b", 3); ("c", 2)]%string) d_example = Some 501.
Proof. split; vm_compute; reflexivity. Qed.
