(** C40 — proofs, part 7: single_variable_declaration, sanitise_imports and
    do_resolve_sequence_association are idempotent (own models). *)
From Coq Require Import ZArith List Bool String Lia.
From LV Require Import Base.Strings Base.Expr Base.MiniF models.M_C30 models.M_C40 proofs.P_C40_base.
Import ListNotations.
Open Scope Z_scope.
Open Scope list_scope.

(** * single_variable_declaration *)
Lemma filter_filter_neg {A} (f : A -> bool) l : filter f (filter (fun x => negb (f x)) l) = [].
Proof.
  induction l as [|x l IH]; cbn; [reflexivity|]. destruct (f x) eqn:E; cbn; [exact IH|]. now rewrite E.
Qed.

Lemma svd1_single vars ty it : svd1 vars (ty, [it]) = [(ty, [it])].
Proof. reflexivity. Qed.

Lemma svd_singles vars ty (l : list sitem) :
  flat_map (svd1 vars) (map (fun it => (ty, [it])) l) = map (fun it => (ty, [it])) l.
Proof. induction l as [|x l IH]; cbn [map flat_map]; [reflexivity|]. now rewrite IH. Qed.

Lemma svd1_keep vs ty its :
  svd1 (Some vs) (ty, filter (fun it => negb (memb (fst it) vs)) its)
  = [(ty, filter (fun it => negb (memb (fst it) vs)) its)].
Proof.
  unfold svd1. destruct (filter (fun it => negb (memb (fst it) vs)) its) as [|a [|b r]] eqn:E; try reflexivity.
  rewrite <- E. rewrite (filter_filter_neg (fun it => memb (fst it) vs) its). reflexivity.
Qed.

Lemma svd1_idem vars d : flat_map (svd1 vars) (svd1 vars d) = svd1 vars d.
Proof.
  destruct d as [ty its]. destruct its as [|a [|b r]]; try (cbn; reflexivity).
  unfold svd1 at 2 3. destruct vars as [vs|].
  - destruct (filter (fun it => memb (fst it) vs) (a :: b :: r)) as [|u us] eqn:Eu.
    + cbn [flat_map]. rewrite app_nil_r. unfold svd1. now rewrite Eu.
    + destruct (filter (fun it => negb (memb (fst it) vs)) (a :: b :: r)) as [|k ks] eqn:Ek.
      * cbn [app]. apply svd_singles.
      * rewrite flat_map_app. rewrite svd_singles. f_equal.
        cbn [flat_map]. rewrite app_nil_r. rewrite <- Ek. apply svd1_keep.
  - cbn [app]. apply svd_singles.
Qed.

Theorem svd_idem vars ds : svd vars (svd vars ds) = svd vars ds.
Proof. unfold svd. apply flat_map_idem. apply svd1_idem. Qed.

(** ** group_by_shape *)
Definition uniform (k : string) (l : list sitem) : Prop := Forall (fun it => snd it = k) l.
Definition ginv (gs : list (string * list sitem)) : Prop :=
  Forall (fun g => snd g <> [] /\ uniform (fst g) (snd g)) gs.

Lemma ins_group_inv it gs : ginv gs -> ginv (ins_group (snd it) it gs).
Proof.
  unfold ginv. induction 1 as [|[k l] r [H1 H2] Hr IH]; cbn [ins_group].
  - constructor; [|constructor]. cbn [fst snd]. split; [discriminate|]. constructor; [reflexivity|constructor].
  - destruct (String.eqb k (snd it)) eqn:E.
    + constructor; [|exact Hr]. cbn [fst snd] in *. split; [destruct l; discriminate|].
      apply Forall_app. split; [exact H2|]. constructor; [|constructor]. apply String.eqb_eq in E. now subst.
    + constructor; [|exact IH]. cbn [fst snd] in *. now split.
Qed.

Lemma groups_inv_from its : forall gs, ginv gs -> ginv (fold_left (fun gs it => ins_group (snd it) it gs) its gs).
Proof. induction its as [|it its IH]; intros gs H; cbn [fold_left]; [exact H|]. apply IH. now apply ins_group_inv. Qed.

Lemma groups_inv its : ginv (groups its).
Proof. unfold groups. apply groups_inv_from. constructor. Qed.

Lemma groups_uniform_from k l : uniform k l -> forall acc,
  fold_left (fun gs it => ins_group (snd it) it gs) l [(k, acc)] = [(k, acc ++ l)].
Proof.
  induction 1 as [|it l H _ IH]; intros acc; cbn [fold_left]; [now rewrite app_nil_r|].
  cbn [ins_group]. rewrite H, String.eqb_refl. rewrite IH. now rewrite <- app_assoc.
Qed.

Lemma groups_uniform k it l : uniform k (it :: l) -> groups (it :: l) = [(k, it :: l)].
Proof.
  intros H. inversion H; subst. unfold groups. cbn [fold_left ins_group].
  now rewrite (groups_uniform_from (snd it) l H3 [it]).
Qed.

Lemma svd_shape1_uniform ty k l : l <> [] -> uniform k l -> svd_shape1 (ty, l) = [(ty, l)].
Proof.
  intros Hn Hu. destruct l as [|a [|b r]]; [contradiction|reflexivity|].
  unfold svd_shape1. now rewrite (groups_uniform k a (b :: r) Hu).
Qed.

Lemma svd_shape1_idem d : flat_map svd_shape1 (svd_shape1 d) = svd_shape1 d.
Proof.
  destruct d as [ty its]. destruct its as [|a [|b r]]; try (cbn; reflexivity).
  unfold svd_shape1 at 2 3. generalize (groups_inv (a :: b :: r)). generalize (groups (a :: b :: r)).
  intros gs H. unfold ginv in H. induction H as [|[k l] gs' [H1 H2] _ IH]; [reflexivity|].
  cbn [fst snd] in H1, H2. cbn [map flat_map snd]. rewrite IH. now rewrite (svd_shape1_uniform ty k l H1 H2).
Qed.

Theorem svd_shape_idem ds : svd_shape (svd_shape ds) = svd_shape ds.
Proof. unfold svd_shape. apply flat_map_idem. apply svd_shape1_idem. Qed.

Theorem svd_mode_idem mode ds : svd_mode mode (svd_mode mode ds) = svd_mode mode ds.
Proof. destruct mode as [[vs|]|]; cbn [svd_mode]; [apply svd_idem|apply svd_shape_idem|apply svd_idem]. Qed.

(** * sanitise_imports *)
Lemma existsb_filter_neg {A} (f : A -> bool) l : existsb f (filter (fun s => negb (f s)) l) = false.
Proof.
  induction l as [|x l IH]; [reflexivity|]. cbn [filter].
  destruct (f x) eqn:Ex; cbn [negb]; [exact IH|]. cbn [existsb]. now rewrite Ex, IH.
Qed.

Lemma prune1_clean used im : Forall (fun im' => has_redundant used im' = false) (prune1 used im).
Proof.
  unfold prune1. destruct (filter (fun s => negb (redundant used s)) (snd im)) as [|s ss] eqn:E; [constructor|].
  constructor; [|constructor]. unfold has_redundant. cbn [snd]. rewrite <- E. apply existsb_filter_neg.
Qed.

Lemma existsb_false_F {A} (f : A -> bool) l : Forall (fun x => f x = false) l -> existsb f l = false.
Proof. induction 1 as [|x l H _ IH]; cbn; [reflexivity|]. now rewrite H, IH. Qed.

Lemma Forall_flat_map' {A B} (P : B -> Prop) (f : A -> list B) l :
  (forall x, Forall P (f x)) -> Forall P (flat_map f l).
Proof. intros H. induction l as [|x l IH]; cbn; [constructor|]. apply Forall_app. split; [apply H|exact IH]. Qed.

(** normal form: no imported symbol is redundant *)
Definition imports_nf (used : list string) (ims : list imp) : bool := negb (existsb (has_redundant used) ims).

Lemma prune_nf used ims : imports_nf used (prune used ims) = true.
Proof.
  unfold imports_nf, prune. destruct (existsb (has_redundant used) ims) eqn:E; [|now rewrite E].
  apply negb_true_iff. apply existsb_false_F. apply Forall_flat_map'. apply prune1_clean.
Qed.

Lemma prune_fix used ims : imports_nf used ims = true -> prune used ims = ims.
Proof. unfold imports_nf, prune. intros H. apply negb_true_iff in H. now rewrite H. Qed.

Theorem prune_idem used ims : prune used (prune used ims) = prune used ims.
Proof. apply prune_fix, prune_nf. Qed.

(** * do_resolve_sequence_association *)
Lemma seq_arg_idem ds rank a : seq_arg ds rank (seq_arg ds rank a) = seq_arg ds rank a.
Proof.
  destruct (scalar_syntax rank a) eqn:E.
  2:{ assert (R : seq_arg ds rank a = a) by (unfold seq_arg; now rewrite E). now rewrite !R. }
  destruct rank as [n|]; [|discriminate]. destruct a as [e|x dims]; [discriminate|].
  destruct dims as [|d dr]; [discriminate|].
  destruct n as [|m].
  - (* rank 0: nothing is added, the argument is returned as it was *)
    assert (R : seq_arg ds (Some 0%nat) (CRef x (d :: dr)) = CRef x (d :: dr)).
    { unfold seq_arg. rewrite E. destruct (lookup_decl ds x) as [[|s sh]|]; reflexivity. }
    now rewrite !R.
  - (* rank >= 1: the first new subscript is a range, so the result no longer has scalar syntax *)
    cbn [scalar_syntax forallb] in E. apply andb_true_iff in E. destruct E as [Ed Er].
    destruct d as [e|lo hi]; [|discriminate].
    assert (R : exists lo hi qs, seq_arg ds (Some (S m)) (CRef x (QS e :: dr)) = CRef x (QR lo hi :: qs)).
    { unfold seq_arg. cbn [scalar_syntax forallb is_qs andb]. rewrite Er.
      destruct (lookup_decl ds x) as [[|s sh]|]; cbn [firstn zip_dims repeat app]; eexists; eexists; eexists; reflexivity. }
    destruct R as [lo [hi [qs R]]]. rewrite R. reflexivity.
Qed.

Theorem seq_args_idem ds : forall ranks args, seq_args ds ranks (seq_args ds ranks args) = seq_args ds ranks args.
Proof.
  induction ranks as [|r rr IH]; intros args; [reflexivity|].
  destruct args as [|a ar]; [reflexivity|]. cbn [seq_args]. now rewrite seq_arg_idem, IH.
Qed.

(** normal form: no argument is passed in scalar syntax to an array dummy of positive rank *)
Fixpoint seq_nf (ranks : list (option nat)) (args : list carg) : bool :=
  match ranks, args with
  | r :: rr, a :: ar => negb (scalar_syntax r a && negb (match r with Some O => true | _ => false end)) && seq_nf rr ar
  | _, _ => true
  end.

Lemma seq_nf_fix ds : forall ranks args, seq_nf ranks args = true -> seq_args ds ranks args = args.
Proof.
  induction ranks as [|r rr IH]; intros args H; [reflexivity|].
  destruct args as [|a ar]; [reflexivity|]. cbn [seq_nf] in H. apply andb_true_iff in H. destruct H as [H1 H2].
  cbn [seq_args]. rewrite (IH ar H2). f_equal.
  unfold seq_arg. destruct (scalar_syntax r a) eqn:E; [|reflexivity].
  cbn [andb] in H1. apply negb_true_iff, negb_false_iff in H1.
  destruct r as [[|m]|]; try discriminate. destruct a as [e|x dims]; [reflexivity|].
  destruct (lookup_decl ds x) as [[|s sh]|]; reflexivity.
Qed.

Open Scope string_scope.
(** [call callee(a(i, j), b(3), n)] with dummies d1(5), d2(3,4) and a scalar: elements become sections, once *)
Example seq_example :
  let ds := [("a", [DSize (EVar "m"); DSize (EVar "n")]); ("b", [DSize (EInt 10)])] in
  let args := [CRef "a" [QS (EVar "i"); QS (EVar "j")]; CRef "b" [QS (EInt 3)]; CExpr (EVar "n")] in
  let ranks := [Some 1%nat; Some 2%nat; None] in
  seq_args ds ranks args =
    [CRef "a" [QR (Some (EVar "i")) (Some (EVar "m")); QS (EVar "j")]; CRef "b" [QR (Some (EInt 3)) (Some (EInt 10))]; CExpr (EVar "n")]
  /\ seq_nf ranks (seq_args ds ranks args) = true.
Proof. split; vm_compute; reflexivity. Qed.
