(** C28 — main results: inlining a call in the class [inlinable] preserves behaviour (modulo the hoisted locals);
    offset arithmetic of [_map_unbound_dims]; constant parameters; refutation witnesses (F10). *)
From Coq Require Import ZArith List Bool String Lia.
From LV Require Import Base.Expr Base.MiniF Base.MiniFFacts models.M_C28
     proofs.P_C28_norm proofs.P_C28_subst proofs.P_C28_sim proofs.P_C28_frame.
Import ListNotations.
Open Scope Z_scope.

Lemma assoc_app {A} (l1 l2 : list (string * A)) x :
  assoc (l1 ++ l2) x = match assoc l1 x with Some v => Some v | None => assoc l2 x end.
Proof. induction l1 as [|[k v] r IH]; cbn; [reflexivity|]. destruct (String.eqb k x); [reflexivity|exact IH]. Qed.

Lemma nodupb_NoDup l : nodupb l = true -> NoDup l.
Proof.
  induction l as [|x r IH]; cbn; intros H; constructor.
  - apply andb_prop in H. destruct H as [H _]. apply negb_true_iff in H. now apply mem_false_In.
  - apply andb_prop in H. apply IH, H.
Qed.

Lemma NoDup_app_l {A} (l1 l2 : list A) : NoDup (l1 ++ l2) -> NoDup l1.
Proof.
  induction l1 as [|x r IH]; cbn; intros H; [constructor|]. inversion H. subst. constructor.
  - intro K. apply H2. apply in_or_app. now left.
  - now apply IH.
Qed.

Lemma in_sdummies ce d : In (d, false) (ce_params ce) -> In d (sdummies ce).
Proof. intros H. unfold sdummies. apply in_flat_map. exists (d, false). split; [exact H|cbn; now left]. Qed.
Lemma in_adummies ce d : In (d, true) (ce_params ce) -> In d (adummies ce).
Proof. intros H. unfold adummies. apply in_flat_map. exists (d, true). split; [exact H|cbn; now left]. Qed.

Section Main.
  Variables (cvars : list string) (ce : callee) (amap : list (string * (string * list dspec)))
            (args : list expr) (Q : list stmt).
  Hypothesis Hin : inlinable_m cvars ce amap args = true.
  Hypothesis HQ : inline_call_m cvars ce amap args = Some Q.

  Let m := call_smap cvars ce amap args.
  Let Vall := (sdummies ce ++ ce_locals ce)%list.
  Let A := adummies ce.
  Let offs := amap_offs amap.
  Let Hs := hoisted_s cvars ce.

  Lemma main_facts :
    List.length args = List.length (ce_params ce) /\ arr_args_ok (ce_params ce) args = true /\
    NoDup (map fst (ce_params ce)) /\ ce_larrs ce = [] /\
    c1 m (wrs (ce_body ce)) = true /\ c2 m Vall (wrs (ce_body ce)) = true /\ c3 m Vall A (wra (ce_body ce)) = true /\
    c4 m A = true /\ amap_ok amap (ce_params ce) args = true /\
    (exists V', da_stmts Vall A (sdummies ce) (ce_body ce) = Some V') /\
    forallb (fun z => mem z (actual_vars (ce_params ce) args) || mem z Hs) (wrs Q) = true /\
    forallb (fun a => mem a (actual_arrs (ce_params ce) args)) (wra Q) = true.
  Proof.
    pose proof Hin as H0. unfold inlinable_m in H0. fold m Vall A in H0. rewrite HQ in H0.
    repeat (apply andb_prop in H0; let H := fresh "K" in destruct H0 as [H0 H]).
    repeat split; try assumption.
    - apply Nat.eqb_eq. exact H0.
    - apply nodupb_NoDup in K8. apply NoDup_app_l in K8. exact K8.
    - destruct (ce_larrs ce); [reflexivity|discriminate].
    - destruct (da_stmts Vall A (sdummies ce) (ce_body ce)) as [V'|]; [eauto|discriminate].
    - apply andb_prop in K. apply K.
    - apply andb_prop in K. apply K.
  Qed.

  Lemma main_subst : subst_stmts m (ce_body ce) = Some Q.
  Proof.
    destruct main_facts as [Hlen _]. unfold inline_call_m in HQ. fold m in HQ.
    apply Nat.eqb_eq in Hlen. rewrite Hlen in HQ. exact HQ.
  Qed.

  Lemma main_HA : forall a, In a A ->
    all_off (snd (lk_a m a)) = true /\ intrinsic_name a = false /\ intrinsic_name (fst (lk_a m a)) = false.
  Proof.
    destruct main_facts as [_ [_ [_ [_ [_ [_ [_ [H4 _]]]]]]]]. unfold c4 in H4. rewrite forallb_forall in H4.
    intros a Ha. specialize (H4 a Ha). apply andb_prop in H4. destruct H4 as [H4 H3]. apply andb_prop in H4. destruct H4 as [H1 H2].
    apply negb_true_iff in H2. apply negb_true_iff in H3. auto.
  Qed.

  Lemma main_goodS : forall x, In x (wrs (ce_body ce)) -> goodS m Vall x.
  Proof.
    destruct main_facts as [_ [_ [_ [_ [_ [H2 _]]]]]]. unfold c2 in H2. rewrite forallb_forall in H2.
    intros x Hx. specialize (H2 x Hx). destruct (lk_s m x) eqn:E; try discriminate.
    exists x0. split; [exact E|]. rewrite forallb_forall in H2. intros y Hy Hne. specialize (H2 y Hy).
    apply String.eqb_neq in Hne. rewrite Hne in H2. exact H2.
  Qed.

  Lemma main_goodA : forall a, In a (wra (ce_body ce)) -> goodA m Vall A a.
  Proof.
    destruct main_facts as [_ [_ [_ [_ [_ [_ [H3 _]]]]]]]. unfold c3 in H3. rewrite forallb_forall in H3.
    intros a Ha. specialize (H3 a Ha). apply andb_prop in H3. destruct H3 as [G1 G2].
    rewrite forallb_forall in G1, G2. split.
    - intros b Hb Hne. specialize (G1 b Hb). apply String.eqb_neq in Hne. rewrite Hne in G1. cbn in G1.
      apply negb_true_iff in G1. apply String.eqb_neq. exact G1.
    - intros y Hy. apply G2; exact Hy.
  Qed.

  Lemma lk_s_dummy d e : In ((d, false), e) (combine (ce_params ce) args) -> lk_s m d = e.
  Proof.
    destruct main_facts as [_ [_ [Hnd _]]]. intros H. unfold lk_s, m, call_smap. cbn [sm_s].
    rewrite assoc_app, (argmap_s_assoc _ _ _ _ Hnd H). reflexivity.
  Qed.

  Lemma lk_a_dummy d a : In ((d, true), EVar a) (combine (ce_params ce) args) ->
    exists t, lk_a m d = (a, t) /\ offs d = offs_of t.
  Proof.
    destruct main_facts as [_ [_ [_ [_ [_ [_ [_ [_ [Hok _]]]]]]]]]. intros H.
    destruct (amap_ok_in _ _ _ _ _ Hok H) as [t Ht]. exists t. unfold lk_a, m, call_smap, offs, amap_offs. cbn [sm_a].
    rewrite assoc_app, Ht. split; reflexivity.
  Qed.

  Lemma main_init s sc0 :
    copy_in_o s (ce_params ce) args offs empty_store = Some sc0 -> Rel m Vall A (sdummies ce) sc0 s.
  Proof.
    intros Hci. destruct main_facts as [Hlen [Harr [Hnd _]]].
    destruct (copy_in_o_spec s offs _ _ _ _ Hci Hnd) as [_ [P2 P3]]. split.
    - intros y Hy _. destruct (sdummies_in_combine _ _ _ Hlen Hy) as [e He].
      rewrite (lk_s_dummy y e He). apply P2; exact He.
    - intros a Ha idx. destruct (adummies_in_combine _ _ _ Harr Ha) as [a' Ha'].
      destruct (lk_a_dummy a a' Ha') as [t [E1 E2]]. rewrite E1. cbn [fst snd]. rewrite <- E2. apply P3; exact Ha'.
  Qed.

  Theorem inline_call_sound ps fuel s sc0 :
    copy_in_o s (ce_params ce) args offs empty_store = Some sc0 ->
    orel (agree_except Hs [])
         (obind (exec ps fuel (ce_body ce) sc0) (fun s1 => Some (copy_out_o s1 (ce_params ce) args offs s)))
         (exec ps fuel Q s).
  Proof.
    intros Hci. pose proof (main_init s sc0 Hci) as HR0.
    destruct main_facts as [Hlen [Harr [Hnd [Hla [_ [_ [_ [_ [Hok [[V' Hda] [HQs HQa]]]]]]]]]]].
    pose proof (sim m Vall A ps main_HA fuel (ce_body ce) (sdummies ce) V' Q sc0 s Hda main_subst main_goodS main_goodA HR0) as Hsim.
    destruct (exec ps fuel (ce_body ce) sc0) as [sc1|] eqn:E1; destruct (exec ps fuel Q s) as [s2|] eqn:E2;
      cbn in Hsim; try contradiction; cbn; [|exact I].
    destruct Hsim as [RS RA]. destruct (exec_frame ps fuel Q s s2 E2) as [F1 F2].
    apply copy_out_agree.
    - intros d x Hd. assert (Hd' : In d (sdummies ce)).
      { apply in_sdummies. apply in_combine_l in Hd. exact Hd. }
      assert (Hv : In d Vall) by (unfold Vall; apply in_or_app; now left).
      pose proof (RS d Hd' Hv) as K. rewrite (lk_s_dummy d (EVar x) Hd) in K. cbn in K. congruence.
    - intros d a Hd j. assert (Hd' : In d A).
      { apply in_adummies. apply in_combine_l in Hd. exact Hd. }
      destruct (lk_a_dummy d a Hd) as [t [T1 T2]].
      rewrite (RA d Hd' (shiftz (map Z.opp (offs d)) j)). rewrite T1. cbn [fst snd]. rewrite <- T2, shiftz_inv. reflexivity.
    - intros z Hz1 Hz2. symmetry. apply F1. intro Hw. rewrite forallb_forall in HQs. specialize (HQs z Hw).
      apply orb_prop in HQs. destruct HQs as [K|K]; apply mem_In in K; contradiction.
    - intros a Ha j. symmetry. apply F2. intro Hw. rewrite forallb_forall in HQa. specialize (HQa a Hw).
      apply mem_In in HQa. contradiction.
  Qed.

  (** the substitution lemma for statements, as used above *)
  Theorem subst_stmt_sound_m ps fuel s sc0 :
    Rel m Vall A (sdummies ce) sc0 s ->
    orel (Rel m Vall A (sdummies ce)) (exec ps fuel (ce_body ce) sc0) (exec ps fuel Q s).
  Proof.
    intros HR0. destruct main_facts as [_ [_ [_ [_ [_ [_ [_ [_ [_ [[V' Hda] _]]]]]]]]]].
    exact (sim m Vall A ps main_HA fuel (ce_body ce) (sdummies ce) V' Q sc0 s Hda main_subst main_goodS main_goodA HR0).
  Qed.
End Main.

(** * MiniF's [SCall]: whole-array actuals, equal lower bounds *)
Lemma plain_amap_snd ps : forall args d t, assoc (plain_amap ps args) d = Some t -> snd t = [].
Proof.
  induction ps as [|[d0 b] ps IH]; intros args d t H; [discriminate|].
  destruct args as [|e r]; [destruct b; discriminate|].
  destruct b; [destruct e|]; cbn [plain_amap] in H; try (eapply IH; exact H).
  cbn [assoc] in H. destruct (String.eqb d0 d); [inversion H; reflexivity|eapply IH; exact H].
Qed.

Lemma plain_offs ps args d : amap_offs (plain_amap ps args) d = [].
Proof.
  unfold amap_offs. destruct (assoc (plain_amap ps args) d) as [t|] eqn:E; [|reflexivity].
  rewrite (plain_amap_snd _ _ _ _ E). reflexivity.
Qed.

Theorem inline_sub_lockstep cvars ce args Q ps :
  inlinable cvars ce args = true -> inline_plain cvars ce args = Some Q ->
  find_proc ps (ce_name ce) = Some (proc_of ce) ->
  forall fuel s, copy_in s (ce_params ce) args empty_store <> None ->
  orel (agree_except (hoisted_s cvars ce) []) (exec1 ps fuel (SCall (ce_name ce) args) s) (exec ps fuel Q s).
Proof.
  intros Hin HQ Hf fuel s Hci. cbn [exec1]. rewrite Hf. cbn [obind proc_of p_params p_body].
  destruct (copy_in s (ce_params ce) args empty_store) as [sc0|] eqn:E; [|congruence]. cbn [obind].
  pose proof (inline_call_sound cvars ce _ args Q Hin HQ ps fuel s sc0) as K.
  rewrite (copy_in_o_plain s _ (plain_offs _ _)) in K. specialize (K E).
  destruct (exec ps fuel (ce_body ce) sc0) as [sc1|]; cbn [obind] in *; [|exact K].
  rewrite (copy_out_o_plain sc1 _ (plain_offs _ _)) in K. exact K.
Qed.

Theorem inline_sub_preserves_on_class cvars ce args Q ps :
  inlinable cvars ce args = true -> inline_plain cvars ce args = Some Q ->
  find_proc ps (ce_name ce) = Some (proc_of ce) ->
  forall s,
    (forall s1, runs ps [SCall (ce_name ce) args] s s1 ->
       exists s2, runs ps Q s s2 /\ agree_except (hoisted_s cvars ce) [] s1 s2) /\
    (copy_in s (ce_params ce) args empty_store <> None ->
     forall s2, runs ps Q s s2 ->
       exists s1, runs ps [SCall (ce_name ce) args] s s1 /\ agree_except (hoisted_s cvars ce) [] s1 s2).
Proof.
  intros Hin HQ Hf s. split.
  - intros s1 Hr. apply runs_single in Hr. destruct Hr as [fuel E].
    assert (Hci : copy_in s (ce_params ce) args empty_store <> None).
    { intro K. cbn [exec1] in E. rewrite Hf in E. cbn [obind proc_of p_params] in E. rewrite K in E. discriminate. }
    pose proof (inline_sub_lockstep cvars ce args Q ps Hin HQ Hf fuel s Hci) as L. rewrite E in L.
    destruct (exec ps fuel Q s) as [s2|] eqn:E2; cbn in L; [|contradiction].
    exists s2. split; [exists fuel; exact E2|exact L].
  - intros Hci s2 [fuel E2].
    pose proof (inline_sub_lockstep cvars ce args Q ps Hin HQ Hf fuel s Hci) as L. rewrite E2 in L.
    destruct (exec1 ps fuel (SCall (ce_name ce) args) s) as [s1|] eqn:E1; cbn in L; [|contradiction].
    exists s1. split; [apply runs_single; exists fuel; exact E1|exact L].
Qed.

(** the same with declared lower-bound offsets (own call semantics [call_sem]) *)
Theorem inline_sub_offsets_preserves cvars ce amap args Q ps :
  inlinable_m cvars ce amap args = true -> inline_call_m cvars ce amap args = Some Q ->
  forall fuel s, copy_in_o s (ce_params ce) args (amap_offs amap) empty_store <> None ->
  orel (agree_except (hoisted_s cvars ce) []) (call_sem ps fuel (proc_of ce) (amap_offs amap) args s) (exec ps fuel Q s).
Proof.
  intros Hin HQ fuel s Hci. unfold call_sem. cbn [proc_of p_params p_body].
  destruct (copy_in_o s (ce_params ce) args (amap_offs amap) empty_store) as [sc0|] eqn:E; [|congruence]. cbn [obind].
  exact (inline_call_sound cvars ce amap args Q Hin HQ ps fuel s sc0 E).
Qed.

(** * constant parameters *)
Theorem inline_const_preserves cmap Vall A body Q ps :
  const_ok cmap Vall A body = true -> inline_const cmap body = Some Q ->
  forall fuel s,
    (forall y, In y Vall -> evalZ (env_st s) (lk_s {| sm_s := cmap; sm_a := [] |} y) = Some (sv s y)) ->
    orel (fun s1 s2 => (forall y, In y Vall -> assoc cmap y = None -> sv s1 y = sv s2 y) /\
                       (forall a, In a A -> forall i, av s1 a i = av s2 a i))
         (exec ps fuel body s) (exec ps fuel Q s).
Proof.
  intros Hok HQ fuel s Hs. unfold const_ok in Hok. set (m := {| sm_s := cmap; sm_a := [] |}) in *.
  repeat (apply andb_prop in Hok; let H := fresh "K" in destruct Hok as [Hok H]).
  destruct (da_stmts Vall A Vall body) as [V'|] eqn:Hda; [|discriminate].
  assert (HA : forall a, In a A -> all_off (snd (lk_a m a)) = true /\ intrinsic_name a = false /\ intrinsic_name (fst (lk_a m a)) = false).
  { unfold c4 in K0. rewrite forallb_forall in K0. intros a Ha. specialize (K0 a Ha).
    apply andb_prop in K0. destruct K0 as [K0 H3]. apply andb_prop in K0. destruct K0 as [H1 H2].
    apply negb_true_iff in H2. apply negb_true_iff in H3. auto. }
  assert (GS : forall x, In x (wrs body) -> goodS m Vall x).
  { unfold c2 in K2. rewrite forallb_forall in K2. intros x Hx. specialize (K2 x Hx).
    destruct (lk_s m x) eqn:E; try discriminate. exists x0. split; [exact E|].
    rewrite forallb_forall in K2. intros y Hy Hne. specialize (K2 y Hy). apply String.eqb_neq in Hne. rewrite Hne in K2. exact K2. }
  assert (GA : forall a, In a (wra body) -> goodA m Vall A a).
  { unfold c3 in K1. rewrite forallb_forall in K1. intros a Ha. specialize (K1 a Ha).
    apply andb_prop in K1. destruct K1 as [G1 G2]. rewrite forallb_forall in G1, G2. split.
    - intros b Hb Hne. specialize (G1 b Hb). apply String.eqb_neq in Hne. rewrite Hne in G1. cbn in G1.
      apply negb_true_iff in G1. apply String.eqb_neq. exact G1.
    - intros y Hy. apply G2; exact Hy. }
  assert (R0 : Rel m Vall A Vall s s).
  { split; [intros y Hy _; apply Hs; exact Hy|]. intros a Ha idx. reflexivity. }
  eapply orel_impl; [exact (sim m Vall A ps HA fuel body Vall V' Q s s Hda HQ GS GA R0)|].
  intros s1 s2 [RS RA]. split.
  - intros y Hy Hn. pose proof (RS y Hy Hy) as E. unfold lk_s, m in E. cbn [sm_s] in E. rewrite Hn in E. cbn in E. congruence.
  - intros a Ha i. apply (RA a Ha i).
Qed.

(** * the offset arithmetic *)
Lemma dim_map_aux Lv Ld (all : list secdim) : forall (dims pre : list secdim) p r seen,
  all = (pre ++ dims)%list -> List.length pre = p -> (seen = false -> p = r) ->
  dims_ok_aux Lv p seen dims = true ->
  loki_tmpl_aux Lv Ld all r dims = true_tmpl_aux Lv Ld p r dims.
Proof.
  induction dims as [|d q IH]; intros pre p r seen Hall Hlen Hpr Hok; [reflexivity|].
  destruct d as [e|lo]; cbn [loki_tmpl_aux true_tmpl_aux dims_ok_aux] in *.
  - f_equal. apply (IH (pre ++ [SdFix e])%list (S p) r true).
    + rewrite <- app_assoc. exact Hall.
    + rewrite app_length. cbn. lia.
    + discriminate.
    + exact Hok.
  - apply andb_prop in Hok. destruct Hok as [Hok H3]. apply andb_prop in Hok. destruct Hok as [H1 H2].
    apply negb_true_iff in H1. specialize (Hpr H1). subst seen. subst r.
    f_equal.
    + f_equal. unfold loki_off, true_off. subst all. rewrite <- Hlen. rewrite nth_middle.
      destruct lo as [l|]; [|reflexivity].
      destruct (l =? 0) eqn:El; [|reflexivity].
      apply Z.eqb_eq in El. subst l. cbn in H2. apply Z.eqb_eq in H2. rewrite Hlen in *. lia.
    + apply (IH (pre ++ [SdRange lo])%list (S p) (S p) false).
      * rewrite <- app_assoc. exact Hall.
      * rewrite app_length. cbn. lia.
      * reflexivity.
      * exact H3.
Qed.

Theorem dim_map_correct Lv Ld dims : dims_ok Lv dims = true -> loki_tmpl Lv Ld dims = true_tmpl Lv Ld dims.
Proof. intros H. unfold loki_tmpl, true_tmpl. apply (dim_map_aux Lv Ld dims dims [] 0%nat 0%nat false); auto. Qed.

(** what the "true" offset means: subscript [i] of the dummy (declared lower bound [Ld_r]) is the
    [(i - Ld_r)]-th element after the lower bound of the section *)
Lemma true_off_meaning Lv Ld p r lo i :
  i + true_off Lv Ld p r lo = (match lo with Some l => l | None => nth p Lv 1 end) + (i - nth r Ld 1).
Proof. unfold true_off. lia. Qed.

Lemma dim_map_zero_lower_refuted :
  exists Lv Ld dims, loki_tmpl Lv Ld dims <> true_tmpl Lv Ld dims.
Proof. exists [-2], [1], [SdRange (Some 0)]. vm_compute. discriminate. Qed.

Lemma dim_map_misaligned_refuted :
  exists Lv Ld dims, (forall lo, ~ In (SdRange (Some lo)) dims) /\ loki_tmpl Lv Ld dims <> true_tmpl Lv Ld dims.
Proof.
  exists [0; 1], [1], [SdFix (EVar "j"); SdRange None]. split.
  - intros lo [K|[K|K]]; try discriminate; contradiction.
  - vm_compute. discriminate.
Qed.

(** * F10: the expression actual is re-evaluated after the callee changed one of its variables *)
Open Scope string_scope.
Lemma inline_expr_actual_refuted :
  exists cvars ce args q s s1 s2,
    inline_plain cvars ce args = Some q /\
    exec [(ce_name ce, proc_of ce)] 5 [SCall (ce_name ce) args] s = Some s1 /\
    exec [(ce_name ce, proc_of ce)] 5 q s = Some s2 /\
    sv s1 "y" <> sv s2 "y".
Proof.
  exists ["x"; "y"], f10_callee, f10_args,
         [SAssign "x" (EInt 0); SAssign "y" (ESum false [EVar "x"; EInt 1])], f10_store.
  eexists. eexists. split; [vm_compute; reflexivity|]. split; [vm_compute; reflexivity|].
  split; [vm_compute; reflexivity|]. vm_compute. discriminate.
Qed.

Example const_ok_nontrivial :
  const_ok [("n", EInt 4); ("k", ESum false [EInt 1; EInt 2])] ["x"; "y"; "i"; "n"; "k"] ["a"]
           [SAssign "x" (ESum false [EVar "n"; EVar "y"]);
            SDo "i" (EInt 1) (EVar "k") None [SStore "a" [EVar "i"] (EProd false [EVar "n"; EVar "x"])]] = true.
Proof. vm_compute. reflexivity. Qed.

(** the class is not empty: a callee with a written scalar, a local that clashes, an array dummy and a loop *)
Definition ex_callee : callee :=
  {| ce_name := "f"; ce_params := [("p", false); ("q", false); ("v", true)]; ce_locals := ["t"; "i"]; ce_larrs := [];
     ce_lbs := [("v", [1])];
     ce_body := [SAssign "t" (ESum false [EVar "p"; EInt 1]);
                 SDo "i" (EInt 1) (EInt 3) None [SStore "v" [EVar "i"] (ESum false [ECall "v" [EVar "i"]; EVar "t"])];
                 SAssign "q" (EProd false [EVar "t"; EVar "q"])] |}.
Example inlinable_nontrivial :
  inlinable ["x"; "y"; "t"; "a"] ex_callee [ESum false [EVar "x"; EInt 2]; EVar "y"; EVar "a"] = true.
Proof. vm_compute. reflexivity. Qed.
