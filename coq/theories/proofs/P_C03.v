(** C03 — lemmas, part 1: induction principle, verbatim printing of tiled trees. *)
From Coq Require Import ZArith List Bool String Ascii Lia.
From LV Require Import Base.Strings models.M_C03.
Import ListNotations.
Open Scope list_scope.
Open Scope Z_scope.

(** * induction over trees with nested lists of children *)
Section tree_ind'.
  Variable P : tree -> Prop.
  Hypothesis H : forall k u lbl src tm grp lits alt slots,
      Forall (Forall P) slots -> P (T k u lbl src tm grp lits alt slots).
  Fixpoint tree_ind' (t : tree) : P t :=
    match t with
    | T k u lbl src tm grp lits alt slots =>
        H k u lbl src tm grp lits alt slots
          ((fix go (sls : list (list tree)) : Forall (Forall P) sls :=
              match sls with
              | [] => Forall_nil _
              | sl :: r =>
                  Forall_cons _
                    ((fix go2 (l : list tree) : Forall P l :=
                        match l with
                        | [] => Forall_nil _
                        | c :: l' => Forall_cons _ (tree_ind' c) (go2 l')
                        end) sl)
                    (go r)
              end) slots)
    end.
End tree_ind'.

(** * small facts *)
Lemma text_eqb_eq a b : text_eqb a b = true -> a = b.
Proof.
  revert b; induction a as [|x a IH]; intros [|y b]; cbn; try discriminate; auto.
  intros E. apply andb_true_iff in E as [E1 E2]. apply String.eqb_eq in E1. f_equal; auto.
Qed.

Lemma text_eqb_refl a : text_eqb a a = true.
Proof. induction a; cbn; auto. now rewrite String.eqb_refl. Qed.

Lemma mode_eqb_eq a b : mode_eqb a b = true -> a = b.
Proof. destruct a, b; cbn; congruence. Qed.

Lemma omap_ext_in {A B} (f g : A -> option B) l :
  (forall x, In x l -> f x = g x) -> omap f l = omap g l.
Proof.
  induction l as [|x l IH]; cbn; intros Hx; [reflexivity|].
  rewrite (Hx x (or_introl eq_refl)), IH; auto.
Qed.

Lemma omapi_ext_in {A B} (f g : nat -> A -> option B) l : forall i,
  (forall j x, nth_error l j = Some x -> f (i + j)%nat x = g (i + j)%nat x) -> omapi f i l = omapi g i l.
Proof.
  induction l as [|x l IH]; cbn; intros i Hx; [reflexivity|].
  pose proof (Hx 0%nat x eq_refl) as H0. replace (i + 0)%nat with i in H0 by lia. rewrite H0.
  rewrite (IH (S i)); [reflexivity|].
  intros j y Hj. replace (S i + j)%nat with (i + S j)%nat by lia. apply Hx. exact Hj.
Qed.

Lemma forallbi_nth {A} (f : nat -> A -> bool) l : forall i,
  forallbi f i l = true -> forall j x, nth_error l j = Some x -> f (i + j)%nat x = true.
Proof.
  induction l as [|y l IH]; cbn; intros i Hf j x Hj.
  - destruct j; discriminate.
  - apply andb_true_iff in Hf as [H1 H2]. destruct j as [|j]; cbn in Hj.
    + inversion Hj; subst. now replace (i + 0)%nat with i by lia.
    + replace (i + S j)%nat with (S i + j)%nat by lia. eapply IH; eauto.
Qed.

Lemma forallbi_intro {A} (f : nat -> A -> bool) l : forall i,
  (forall j x, nth_error l j = Some x -> f (i + j)%nat x = true) -> forallbi f i l = true.
Proof.
  induction l as [|y l IH]; cbn; intros i Hf; [reflexivity|].
  apply andb_true_iff; split.
  - specialize (Hf 0%nat y eq_refl). now replace (i + 0)%nat with i in Hf by lia.
  - apply IH. intros j x Hj. replace (S i + j)%nat with (i + S j)%nat by lia. now apply Hf.
Qed.

Lemma Forall_nth {A} (P : A -> Prop) l j x : Forall P l -> nth_error l j = Some x -> P x.
Proof. intros HF Hj. eapply Forall_forall; eauto. eapply nth_error_In; eauto. Qed.

Lemma pslot_ext dir (f g : tree -> option text) sl :
  (forall c, In c sl -> f c = g c) -> pslot dir f sl = pslot dir g sl.
Proof.
  intros Hc. unfold pslot. destruct sl as [|c0 sl']; [reflexivity|].
  rewrite (omap_ext_in (pitem dir f) (pitem dir g)); [reflexivity|].
  intros c Hin. unfold pitem. now rewrite Hc.
Qed.

(** the flag only matters for a structurally printed IF; the mode in which a text is framed is never that *)
Lemma assemble_ei k src lits alt si ei ps :
  assemble k src lits alt si (cmode k) ei ps = assemble k src lits alt si (cmode k) false ps.
Proof. destruct k; cbn; reflexivity. Qed.

Lemma assemble_ei_opt k src lits alt si ei (o : option (list text)) :
  match o with Some ps => assemble k src lits alt si (cmode k) ei ps | None => None end
  = match o with Some ps => assemble k src lits alt si (cmode k) false ps | None => None end.
Proof. destruct o; [apply assemble_ei|reflexivity]. Qed.

(** * a tree accepted by [verb] is printed as its own text *)
Definition verb_spec (t : tree) : Prop := forall ei, verb ei t = true -> cp ei t = text_of t.

Lemma verb_step k u lbl src tm grp lits alt slots md ei :
  Forall (Forall verb_spec) slots ->
  negb (is_leaf_kind k) && mode_eqb md (cmode k) && tiled1 (T k u lbl src tm grp lits alt slots) &&
    forallbi (fun i sl => match child_ei k md ei i with
                          | Some e => forallb (verb e) sl
                          | None => false end) 0%nat slots = true ->
  match omapi (fun i sl => match child_ei k md ei i with
                           | Some e => pslot (direct k i) (cp e) sl
                           | None => None end) 0%nat slots with
  | Some ps => assemble k src lits alt (map sinfo slots) md ei ps
  | None => None
  end = option_map s_txt src.
Proof.
  intros IH Hv.
  apply andb_true_iff in Hv as [Hv Hkids]. apply andb_true_iff in Hv as [Hv Ht1].
  apply andb_true_iff in Hv as [Hleaf Hmode]. apply mode_eqb_eq in Hmode. subst md.
  assert (Hsame : omapi (fun i sl => match child_ei k (cmode k) ei i with
                                     | Some e => pslot (direct k i) (cp e) sl
                                     | None => None end) 0%nat slots
                  = omapi (fun i sl => pslot (direct k i) text_of sl) 0%nat slots).
  { apply omapi_ext_in. intros j sl Hj. cbn.
    pose proof (forallbi_nth _ _ _ Hkids j sl Hj) as Hf. cbn in Hf.
    destruct (child_ei k (cmode k) ei j) as [e|]; [|discriminate].
    apply pslot_ext. intros c Hc.
    pose proof (Forall_nth _ _ _ _ IH Hj) as IHsl.
    rewrite Forall_forall in IHsl. apply IHsl; auto.
    rewrite forallb_forall in Hf. now apply Hf. }
  rewrite Hsame. rewrite assemble_ei_opt.
  cbn [tiled1] in Ht1. destruct src as [s|]; [|discriminate].
  destruct k; cbn [is_leaf_kind negb] in Hleaf; try discriminate;
    (destruct (omapi (fun i sl => pslot (direct _ i) text_of sl) 0%nat slots) as [ts|]; [|discriminate]);
    (match type of Ht1 with
     | match ?a with _ => _ end = true => destruct a as [x|] eqn:Ea; [|discriminate]
     end);
    apply text_eqb_eq in Ht1; subst x; cbn [option_map]; first [exact Ea | reflexivity].
Qed.

Lemma verb_cp : forall t, verb_spec t.
Proof.
  induction t as [k u lbl src tm grp lits alt slots IH] using tree_ind'. intros ei Hv.
  cbn [verb] in Hv. cbn [cp]. unfold text_of; cbn [src_of].
  destruct (mode_of k src) eqn:Emd.
  - destruct src as [s|]; [|discriminate]. cbn.
    destruct (is_comment k); [|reflexivity].
    unfold plain_comment in Hv. apply text_eqb_eq in Hv. now rewrite Hv.
  - eapply verb_step; eauto.
  - eapply verb_step; eauto.
Qed.

(** * tiled trees *)
Lemma forallbi_const {A} (f : A -> bool) l : forall i, forallbi (fun _ x => f x) i l = forallb f l.
Proof. induction l; cbn; intros; [reflexivity|]. now rewrite IHl. Qed.

Lemma nested_lift (a c : tree -> bool) slots :
  Forall (Forall (fun t => a t = true -> c t = true)) slots ->
  forallb (forallb a) slots = true -> forallb (forallb c) slots = true.
Proof.
  induction 1 as [|sl r Hsl _ IH]; cbn; [reflexivity|]. intros E. apply andb_true_iff in E as [E1 E2].
  rewrite IH by assumption. rewrite andb_true_r. clear IH E2.
  induction Hsl as [|c0 l Hc _ IHl]; cbn in *; [reflexivity|].
  apply andb_true_iff in E1 as [E1 E3]. rewrite Hc, IHl; auto.
Qed.

Lemma forallb_nested_and (a b : tree -> bool) (slots : list (list tree)) :
  forallb (forallb (fun t => a t && b t)) slots = forallb (forallb a) slots && forallb (forallb b) slots.
Proof.
  induction slots as [|sl r IH]; cbn; [reflexivity|]. rewrite IH.
  assert (E : forallb (fun t => a t && b t) sl = forallb a sl && forallb b sl).
  { induction sl as [|c l IHl]; cbn; [reflexivity|]. rewrite IHl.
    destruct (a c), (b c), (forallb a l), (forallb b l); reflexivity. }
  rewrite E. destruct (forallb a sl), (forallb b sl), (forallb (forallb a) r), (forallb (forallb b) r); reflexivity.
Qed.

Lemma tiled_valid_verb : forall t ei, tiled t && all_valid t = true -> verb ei t = true.
Proof.
  induction t as [k u lbl src tm grp lits alt slots IH] using tree_ind'. intros ei Ht.
  apply andb_true_iff in Ht as [Ht Hv].
  cbn [tiled slots_of] in Ht. apply andb_true_iff in Ht as [Ht1 Htk].
  cbn [all_valid src_of slots_of] in Hv. apply andb_true_iff in Hv as [Hs Hvk].
  destruct src as [s|]; [|discriminate]. unfold is_valid in Hs. destruct (s_st s) eqn:Est; try discriminate.
  assert (Hkids : forall e, forallb (forallb (verb e)) slots = true).
  { intros e. apply (nested_lift (fun t => tiled t && all_valid t)).
    - eapply Forall_impl; [|exact IH]. intros sl Hsl. eapply Forall_impl; [|exact Hsl]. intros c Hc. apply Hc.
    - rewrite forallb_nested_and, Htk, Hvk. reflexivity. }
  cbn [verb]. unfold mode_of. rewrite Est.
  destruct k; cbn [is_comment is_leaf_kind negb mode_eqb cmode has_crule andb]; try reflexivity.
  - cbn [tiled1] in Ht1. exact Ht1.
  - rewrite Ht1. cbn [andb child_ei]. rewrite forallbi_const. apply Hkids.
  - rewrite Ht1. cbn [andb child_ei]. rewrite forallbi_const. apply Hkids.
Qed.

Lemma tiled_ok_verb : forall t, tiled t && okstatus t && ei_free t = true -> verb false t = true.
Proof.
  induction t as [k u lbl src tm grp lits alt slots IH] using tree_ind'. intros Ht.
  apply andb_true_iff in Ht as [Ht He]. apply andb_true_iff in Ht as [Ht Ho].
  cbn [tiled slots_of] in Ht. apply andb_true_iff in Ht as [Ht1 Htk].
  cbn [okstatus] in Ho. apply andb_true_iff in Ho as [Hs Hok].
  cbn [ei_free kind_of slots_of] in He. apply andb_true_iff in He as [Hk Hek].
  destruct src as [s|]; [|discriminate].
  assert (Hkids : forallb (forallb (verb false)) slots = true).
  { apply (nested_lift (fun t => tiled t && okstatus t && ei_free t)).
    - eapply Forall_impl; [|exact IH]. intros sl Hsl. eapply Forall_impl; [|exact Hsl]. intros c Hc. apply Hc.
    - rewrite !forallb_nested_and, Htk, Hok, Hek. reflexivity. }
  cbn [verb]. unfold mode_of.
  destruct (s_st s) eqn:Est; try discriminate.
  - destruct k; cbn [is_comment is_leaf_kind negb mode_eqb cmode has_crule andb]; try reflexivity.
    + cbn [tiled1] in Ht1. exact Ht1.
    + rewrite Ht1. cbn [andb child_ei]. rewrite forallbi_const. apply Hkids.
    + rewrite Ht1. cbn [andb child_ei]. rewrite forallbi_const. apply Hkids.
  - destruct k; cbn [is_leaf_kind negb] in Hs; try discriminate; try discriminate Hk;
      cbn [has_crule is_comment is_leaf_kind negb mode_eqb cmode andb]; rewrite Ht1; cbn [andb child_ei];
      rewrite forallbi_const; apply Hkids.
Qed.

(** * every emitted VALID node appears with its own text *)
Lemma omapi_nth {A B} (f : nat -> A -> option B) l : forall i ys j x,
  omapi f i l = Some ys -> nth_error l j = Some x ->
  exists y, f (i + j)%nat x = Some y /\ nth_error ys j = Some y.
Proof.
  induction l as [|a l IH]; cbn; intros i ys j x Ho Hj.
  - destruct j; discriminate.
  - destruct (f i a) as [y0|] eqn:Ea; [|discriminate].
    destruct (omapi f (S i) l) as [ys'|] eqn:Er; [|discriminate]. inversion Ho; subst ys.
    destruct j as [|j]; cbn in Hj.
    + inversion Hj; subst. exists y0. replace (i + 0)%nat with i by lia. split; [assumption|reflexivity].
    + destruct (IH (S i) ys' j x Er Hj) as [y [Hy1 Hy2]]. exists y.
      replace (i + S j)%nat with (S i + j)%nat by lia. split; assumption.
Qed.

Lemma omap_in {A B} (f : A -> option B) l ys x :
  omap f l = Some ys -> In x l -> exists y a b, f x = Some y /\ ys = a ++ y :: b.
Proof.
  revert ys; induction l as [|a0 l IH]; cbn; intros ys Ho Hin; [contradiction|].
  destruct (f a0) as [y0|] eqn:Ea; [|discriminate].
  destruct (omap f l) as [ys'|] eqn:Er; [|discriminate]. inversion Ho; subst ys.
  destruct Hin as [->|Hin].
  - exists y0, [], ys'. split; [assumption|reflexivity].
  - destruct (IH ys' eq_refl Hin) as [y [a [b [Hy ->]]]]. exists y, (y0 :: a), b. split; [assumption|reflexivity].
Qed.

Lemma concat_mid {A} (a : list (list A)) y b : List.concat (a ++ y :: b) = List.concat a ++ y ++ List.concat b.
Proof. rewrite concat_app. cbn. reflexivity. Qed.

Lemma nonblank_mid (a x b : text) : nonblank x = true -> nonblank (a ++ x ++ b) = true.
Proof.
  intros Hx. destruct x as [|s x]; [discriminate|].
  destruct a as [|a0 a]; cbn.
  - destruct x as [|s' x]; cbn.
    + destruct b; cbn; [exact Hx|reflexivity].
    + reflexivity.
  - destruct (a ++ s :: x ++ b) eqn:E; [|reflexivity].
    destruct a; discriminate.
Qed.

Lemma nonblank_not_nil (x : text) : nonblank x = true -> x <> [].
Proof. destruct x; [discriminate|congruence]. Qed.

Lemma interleave_contains : forall lits ps i, (i < List.length ps)%nat ->
  exists pre post, interleave lits ps = pre ++ nth i ps [] ++ post.
Proof.
  induction lits as [|l ls IH]; intros ps i Hi.
  - cbn. revert i Hi. induction ps as [|p ps IHp]; intros i Hi; [cbn in Hi; lia|].
    destruct i as [|i]; cbn.
    + exists [], (List.concat ps). reflexivity.
    + cbn in Hi. destruct (IHp i ltac:(lia)) as [pre [post E]]. exists (p ++ pre), post. rewrite E. now rewrite app_assoc.
  - destruct ps as [|p ps]; [cbn in Hi; lia|]. cbn [interleave].
    destruct i as [|i]; cbn [nth].
    + exists l, (interleave ls ps). reflexivity.
    + cbn in Hi. destruct (IH ps i ltac:(lia)) as [pre [post E]]. exists (l ++ p ++ pre), post.
      rewrite E. now rewrite <- !app_assoc.
Qed.

Lemma omapi_length {A B} (f : nat -> A -> option B) l : forall i ys, omapi f i l = Some ys -> List.length ys = List.length l.
Proof.
  induction l as [|a l IH]; cbn; intros i ys Ho; [now inversion Ho|].
  destruct (f i a); [|discriminate]. destruct (omapi f (S i) l) eqn:Er; [|discriminate].
  inversion Ho; subst. cbn. f_equal. eapply IH; eauto.
Qed.

Lemma oapp_some a b out : oapp a b = Some out -> exists x y, a = Some x /\ b = Some y /\ out = x ++ y.
Proof. destruct a, b; cbn; try discriminate. intros E; inversion E; eauto. Qed.

Ltac unit4 :=
  match goal with
  | Hd : drop_blank (nth ?i ?ps []) = nth ?i ?ps [] |- exists pre post, interleave ?lits ?l = pre ++ nth ?i ?ps [] ++ post =>
      let a := fresh "a" in let b := fresh "b" in let E := fresh "E" in
      destruct (interleave_contains lits l i ltac:(cbn; lia)) as [a [b E]];
      cbn [nth] in E; exists a, b; rewrite E; rewrite ?Hd; reflexivity
  end.
Ltac ctx pre post := exists pre, post; rewrite <- ?app_assoc; cbn [app]; rewrite <- ?app_assoc; reflexivity.

Lemma assemble_contains k src lits alt si md ei ps out i :
  assemble k src lits alt si md ei ps = Some out ->
  used_slot k md i = true -> (i < List.length ps)%nat -> nonblank (nth i ps []) = true ->
  exists pre post, out = pre ++ nth i ps [] ++ post.
Proof.
  intros Ha Hu Hi Hnb.
  assert (Hdrop : drop_blank (nth i ps []) = nth i ps []) by (unfold drop_blank; now rewrite Hnb).
  unfold assemble in Ha.
  destruct md.
  - (* MT: structural branch *)
    destruct k; cbn [used_slot] in Hu;
      try (inversion Ha; subst out; apply interleave_contains; exact Hi).
    + apply Nat.ltb_lt in Hu. inversion Ha; subst out.
      destruct i as [|[|[|[|i]]]]; try lia; cbn [nth] in *.
      all: unit4.
    + apply Nat.ltb_lt in Hu. inversion Ha; subst out.
      destruct i as [|[|[|[|i]]]]; try lia; cbn [nth] in *.
      all: unit4.
  - (* MC *)
    destruct src as [s|]; [|discriminate].
    destruct k; cbn [used_slot] in Hu; try discriminate.
    + apply Nat.eqb_eq in Hu; subst i.
      apply oapp_some in Ha as [x [y [Hx [Hy ->]]]]. apply oapp_some in Hy as [y1 [y2 [Hy1 [Hy2 ->]]]].
      inversion Hy1; subst y1. ctx x y2.
    + apply Nat.ltb_lt in Hu.
      apply oapp_some in Ha as [x [y [Hx [Hy ->]]]]. apply oapp_some in Hy as [y1 [y2 [Hy1 [Hy2 ->]]]].
      apply oapp_some in Hy2 as [y3 [y4 [Hy3 [Hy4 ->]]]]. apply oapp_some in Hy4 as [y5 [y6 [Hy5 [Hy6 ->]]]].
      inversion Hy1; subst y1. inversion Hy5; subst y5.
      destruct i as [|[|i]]; try lia.
      * ctx x (y3 ++ nth 1 ps [] ++ y6).
      * ctx (x ++ nth 0 ps [] ++ y3) y6.
    + apply Nat.ltb_lt in Hu.
      apply oapp_some in Ha as [x [y [Hx [Hy ->]]]]. inversion Hy; subst y.
      destruct i as [|[|i]]; try lia.
      * ctx x (nth 1 ps []).
      * exists (x ++ nth 0 ps []), []. rewrite app_nil_r, <- !app_assoc. reflexivity.
    + apply Nat.ltb_lt in Hu.
      apply oapp_some in Ha as [x [y [Hx [Hy ->]]]]. apply oapp_some in Hy as [y1 [y2 [Hy1 [Hy2 ->]]]].
      inversion Hy1; subst y1.
      destruct i as [|[|[|[|i]]]]; try lia; cbn [nth] in *.
      * ctx x (nth 1 ps [] ++ nth 2 ps [] ++ drop_blank (nth 3 ps []) ++ y2).
      * ctx (x ++ nth 0 ps []) (nth 2 ps [] ++ drop_blank (nth 3 ps []) ++ y2).
      * ctx (x ++ nth 0 ps [] ++ nth 1 ps []) (drop_blank (nth 3 ps []) ++ y2).
      * rewrite Hdrop. ctx (x ++ nth 0 ps [] ++ nth 1 ps [] ++ nth 2 ps []) y2.
    + apply oapp_some in Ha as [x [y [Hx [Hy ->]]]]. apply oapp_some in Hy as [y1 [y2 [Hy1 [Hy2 ->]]]].
      inversion Hy1; subst y1.
      apply orb_true_iff in Hu as [Hu|Hu]; apply Nat.eqb_eq in Hu; subst i; cbn [nth] in *.
      * ctx x (drop_blank (nth 2 ps []) ++ y2).
      * rewrite Hdrop. ctx (x ++ nth 1 ps []) y2.
  - (* MS *)
    destruct k; cbn [used_slot] in Hu;
      try (inversion Ha; subst out; apply interleave_contains; exact Hi).
    + apply Nat.ltb_lt in Hu. inversion Ha; subst out.
      destruct i as [|[|[|[|i]]]]; try lia; cbn [nth] in *.
      all: unit4.
    + apply Nat.ltb_lt in Hu. inversion Ha; subst out.
      destruct i as [|[|[|[|i]]]]; try lia; cbn [nth] in *.
      all: unit4.
Qed.

Lemma nth_error_nth' {A} (l : list A) i x d : nth_error l i = Some x -> nth i l d = x.
Proof. revert i; induction l; intros [|i]; cbn; try discriminate; [now inversion 1|auto]. Qed.

Lemma nth_error_lt {A} (l : list A) i x : nth_error l i = Some x -> (i < List.length l)%nat.
Proof. intros E. apply nth_error_Some. congruence. Qed.

Theorem emitted_valid_verbatim : forall ei t n, emits ei t n ->
  forall out s, cp ei t = Some out -> src_of n = Some s ->
  mode_of (kind_of n) (src_of n) = MT ->
  (is_comment (kind_of n) = true -> plain_comment (s_txt s) = true) ->
  nonblank (s_txt s) = true ->
  exists pre post, out = pre ++ s_txt s ++ post.
Proof.
  induction 1 as [ei t|ei t i sl c e n Hmd Hsl Hused Hin Hlbl Hei Hem IH]; intros out s Hcp Hsrc Hmt Hplain Hnb.
  - destruct t as [k u lbl src tm grp lits alt slots]. cbn [src_of kind_of] in *. cbn [cp] in Hcp.
    rewrite Hmt in Hcp. subst src. inversion Hcp; subst out. exists [], [].
    rewrite app_nil_r. cbn [app].
    destruct (is_comment k) eqn:Ec; [|reflexivity].
    specialize (Hplain eq_refl). unfold plain_comment in Hplain. now apply text_eqb_eq in Hplain.
  - destruct t as [k u lbl src tm grp lits alt slots]. cbn [src_of kind_of slots_of] in *.
    cbn [cp] in Hcp.
    destruct (mode_of k src) eqn:Emd; [congruence| |].
    all: destruct (omapi _ 0%nat slots) as [ps|] eqn:Eo; [|discriminate].
    all: destruct (omapi_nth _ _ _ _ _ _ Eo Hsl) as [y [Hy Hnth]]; cbn [Nat.add] in Hy; rewrite Hei in Hy.
    all: assert (Hyc : exists a b oc, cp e c = Some oc /\ y = a ++ oc ++ b).
    1,3: unfold pslot in Hy; destruct sl as [|c0 sl']; [contradiction|];
      destruct (omap (pitem (direct k i) (cp e)) (c0 :: sl')) as [parts|] eqn:Ep; [|discriminate];
      destruct (omap_in _ _ _ _ Ep Hin) as [pc [a [b [Hpc ->]]]];
      unfold pitem in Hpc; destruct (cp e c) as [oc|] eqn:Ecc; [|discriminate];
      assert (pc = oc) by
        (destruct (direct k i); [now inversion Hpc|];
         destruct Hlbl as [Hd|Hl]; [discriminate|]; rewrite Hl in Hpc; cbn in Hpc; now inversion Hpc);
      subst pc; unfold text in *; rewrite (@concat_mid string a oc b) in Hy;
      exists (List.concat a), (List.concat b), oc; split; [reflexivity|];
      destruct (IH oc s eq_refl Hsrc Hmt Hplain Hnb) as [p1 [p2 Hoc]];
      assert (Hne : List.concat a ++ oc ++ List.concat b <> [])
        by (rewrite Hoc; intros Hnil; apply app_eq_nil in Hnil as [_ Hnil]; apply app_eq_nil in Hnil as [Hnil _];
            apply app_eq_nil in Hnil as [_ Hnil]; apply app_eq_nil in Hnil as [Hnil _];
            exact (nonblank_not_nil _ Hnb Hnil));
      destruct (direct k i); [now inversion Hy|];
      destruct (List.concat a ++ oc ++ List.concat b) eqn:Ecat; [congruence|]; now inversion Hy.
    all: destruct Hyc as [a [b [oc [Hoc ->]]]];
      destruct (IH oc s Hoc Hsrc Hmt Hplain Hnb) as [p1 [p2 ->]];
      pose proof (nth_error_nth' _ _ _ [] Hnth) as Hn;
      assert (Hnby : nonblank (nth i ps []) = true)
        by (unfold text in *; rewrite Hn; replace (a ++ (p1 ++ s_txt s ++ p2) ++ b) with ((a ++ p1) ++ s_txt s ++ (p2 ++ b))
              by (now rewrite <- !app_assoc); now apply nonblank_mid);
      destruct (assemble_contains _ _ _ _ _ _ _ _ _ i Hcp Hused (nth_error_lt _ _ _ Hnth) Hnby) as [q1 [q2 ->]];
      unfold text in *; rewrite Hn; exists (q1 ++ a ++ p1), (p2 ++ b ++ q2); now rewrite <- !app_assoc.
Qed.
