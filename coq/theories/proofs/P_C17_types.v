(** C17 — the types read by the symbols are invariant under renaming of scope objects (and do not depend on
    links / symbols inside types), hence the symbols of the clone read the same types as those of the original. *)
From Coq Require Import ZArith List Bool String Lia.
From LV Require Import models.M_C17 proofs.P_C17.
Import ListNotations.
Open Scope Z_scope.

(** a generic tag-preserving map over units *)
Fixpoint gmap (f : sid -> sid) (g : string * entry -> string * entry) (u : unit) : unit :=
  match u with
  | Unit i k nm par tab occs ch =>
      Unit (f i) k nm (option_map f par) (map g tab) (map (map_occ f) occs) (map (gmap f g) ch)
  end.

Definition tag_preserving (g : string * entry -> string * entry) : Prop :=
  forall ne, fst (g ne) = fst ne /\ e_tag (snd (g ne)) = e_tag (snd ne).

Lemma rename_gmap : forall f u, rename f u = gmap f (map_entry f) u.
Proof.
  intros f u. induction u as [i k nm p tab occs ch IH] using unit_ind'. simpl. f_equal.
  apply map_ext_Forall. exact IH.
Qed.

Lemma map_occ_id : forall o, map_occ (fun x => x) o = o.
Proof. intros [n [r|]]; reflexivity. Qed.

Lemma skeleton_gmap : forall u, skeleton u = gmap (fun x => x) skel_entry u.
Proof.
  intros u. induction u as [i k nm p tab occs ch IH] using unit_ind'. simpl. f_equal.
  - destruct p; reflexivity.
  - rewrite <- (map_id occs) at 1. apply map_ext. intros o. symmetry. apply map_occ_id.
  - apply map_ext_Forall. exact IH.
Qed.

Lemma map_entry_tag : forall f, tag_preserving (map_entry f).
Proof. intros f [n e]. split; reflexivity. Qed.
Lemma skel_entry_tag : tag_preserving skel_entry.
Proof. intros [n e]. split; reflexivity. Qed.

(** ** similar chains resolve the same tags *)
Definition tab_sim (t t' : table) : Prop := forall n, option_map e_tag (tget t n) = option_map e_tag (tget t' n).
Definition chain_sim (c c' : chain) : Prop := Forall2 (fun x y => tab_sim (snd x) (snd y)) c c'.

Lemma tab_sim_map : forall g t, tag_preserving g -> tab_sim t (map g t).
Proof.
  intros g t Hg n. induction t as [|[k v] r IH]; simpl; [reflexivity|].
  destruct (Hg (k, v)) as [A B]. destruct (g (k, v)) as [k' v'] eqn:E. simpl in A, B. subst k'.
  destruct (String.eqb k n); simpl; [rewrite B; reflexivity | exact IH].
Qed.

Lemma lookup_entry_sim : forall c c' n, chain_sim c c' ->
  option_map e_tag (lookup_entry c n) = option_map e_tag (lookup_entry c' n).
Proof.
  intros c c' n H. induction H as [|[i t] [i' t'] r r' Ht Hr IH]; simpl; [reflexivity|].
  simpl in Ht. specialize (Ht n).
  destruct (tget t n) as [e|], (tget t' n) as [e'|]; simpl in *; try discriminate; [exact Ht | exact IH].
Qed.

Lemma chain_sim_refl : forall c, chain_sim c c.
Proof. induction c; constructor; [intro n; reflexivity | assumption]. Qed.

Definition opt_sim (a b : option chain) : Prop :=
  match a, b with Some c, Some c' => chain_sim c c' | None, None => True | _, _ => False end.

(** [chain_at] with its inner loop named *)
Fixpoint first_chain (cc : chain) (l : list unit) (i : sid) : option chain :=
  match l with
  | [] => None
  | x :: r => match chain_at cc x i with Some z => Some z | None => first_chain cc r i end
  end.
Lemma chain_at_unfold : forall above j k nm p tab occs ch i,
  chain_at above (Unit j k nm p tab occs ch) i =
  if j =? i then Some ((j, tab) :: above) else first_chain ((j, tab) :: above) ch i.
Proof.
  intros. simpl. destruct (j =? i); [reflexivity|].
  induction ch as [|c r IH]; [reflexivity|]. simpl. destruct (chain_at ((j, tab) :: above) c i); [reflexivity | exact IH].
Qed.

(** ** the chain of the scope a symbol is attached to, before and after the map *)
Lemma chain_at_gmap : forall f g i, tag_preserving g -> forall u above above',
  chain_sim above above' ->
  (forall j, In j (ids u) -> f j = f i -> j = i) ->
  opt_sim (chain_at above u i) (chain_at above' (gmap f g u) (f i)).
Proof.
  intros f g i Hg u. induction u as [j k nm p tab occs ch IH] using unit_ind'.
  intros above above' S Inj. cbn [gmap]. rewrite !chain_at_unfold.
  assert (Sc : chain_sim ((j, tab) :: above) (@cons (sid * table) (@pair sid table (f j) (map g tab)) above')).
  { constructor; [simpl; apply tab_sim_map; exact Hg | exact S]. }
  destruct (j =? i) eqn:E.
  - apply Z.eqb_eq in E. subst j. rewrite Z.eqb_refl. exact Sc.
  - assert (E' : (f j =? f i) = false).
    { apply Z.eqb_neq. intro H. apply Z.eqb_neq in E. apply E. apply Inj; [simpl; left; reflexivity | exact H]. }
    rewrite E'.
    assert (Inj' : forall c, In c ch -> forall j0, In j0 (ids c) -> f j0 = f i -> j0 = i).
    { intros c Hc j0 Hj0. apply Inj. simpl. right. apply in_flat_map. exists c. split; assumption. }
    clear Inj E E'. induction ch as [|c r IHr]; [exact I|].
    inversion IH as [|? ? IHc IHrest]; subst.
    specialize (IHc _ _ Sc (Inj' c (or_introl eq_refl))).
    cbn [map first_chain].
    destruct (chain_at ((j, tab) :: above) c i) as [z|] eqn:E1;
      destruct (chain_at (@cons (sid * table) (@pair sid table (f j) (map g tab)) above') (gmap f g c) (f i)) as [z'|] eqn:E2;
      simpl in IHc; try contradiction.
    + exact IHc.
    + apply IHr; [exact IHrest|]. intros c0 Hc0. apply Inj'. right. exact Hc0.
Qed.

Lemma all_occs_gmap : forall f g u, all_occs (gmap f g u) = map (map_occ f) (all_occs u).
Proof.
  intros f g u. induction u as [i k nm p tab occs ch IH] using unit_ind'. simpl.
  rewrite map_app. f_equal. rewrite flat_map_map, map_flat_map. apply flat_map_ext_Forall. exact IH.
Qed.

Lemma all_occs_refs : forall u o i, In o (all_occs u) -> o_ref o = Some i -> In i (refs u).
Proof.
  intros u. induction u as [j k nm p tab occs ch IH] using unit_ind'. intros o i Ho E. simpl in Ho |- *.
  apply in_app_or in Ho. apply in_or_app. right. apply in_or_app. right. destruct Ho as [Ho|Ho].
  - apply in_or_app. left. unfold occ_refs. apply in_flat_map. exists o. split; [exact Ho|]. rewrite E. simpl. left. reflexivity.
  - apply in_or_app. right. apply in_flat_map in Ho. destruct Ho as [c [Hc Ho]]. apply in_flat_map. exists c. split; [exact Hc|].
    rewrite Forall_forall in IH. eapply IH; eassumption.
Qed.

Lemma chain_at_None_ids : forall u above i, ~ In i (ids u) -> chain_at above u i = None.
Proof.
  intros u. induction u as [j k nm p tab occs ch IH] using unit_ind'. intros above i H.
  rewrite chain_at_unfold. simpl in H.
  destruct (j =? i) eqn:E; [apply Z.eqb_eq in E; exfalso; apply H; left; exact E|].
  assert (H' : forall c, In c ch -> ~ In i (ids c)).
  { intros c Hc Hin. apply H. right. apply in_flat_map. exists c. split; assumption. }
  clear H E. induction ch as [|c r IHr]; [reflexivity|].
  inversion IH; subst. cbn [first_chain]. rewrite H1 by (apply H'; left; reflexivity). apply IHr; [assumption|].
  intros c0 Hc0. apply H'. right. exact Hc0.
Qed.

Lemma chain_at_Some_ids : forall u above i c, chain_at above u i = Some c -> In i (ids u).
Proof.
  intros u above i c H. destruct (in_dec Z.eq_dec i (ids u)) as [Hin|Hn]; [exact Hin|].
  rewrite chain_at_None_ids in H by assumption. discriminate.
Qed.

Lemma chain_at_In_Some : forall u above i, In i (ids u) -> chain_at above u i <> None.
Proof.
  intros u. induction u as [j k nm p tab occs ch IH] using unit_ind'. intros above i Hi.
  rewrite chain_at_unfold. simpl in Hi.
  destruct (j =? i) eqn:Eq; [discriminate|]. destruct Hi as [Hi|Hi]; [apply Z.eqb_neq in Eq; contradiction|].
  apply in_flat_map in Hi. destruct Hi as [c [Hc Hi]].
  generalize ((j, tab) :: above). intro cc. clear Eq.
  induction ch as [|c0 r IHr]; [contradiction|]. inversion IH; subst. cbn [first_chain].
  destruct (chain_at cc c0 i) eqn:E0; [discriminate|].
  destruct Hc as [Hc|Hc]; [subst c0; exfalso; eapply H1; eassumption | apply IHr; assumption].
Qed.

(** the types read by all symbol occurrences are invariant under a tag-preserving map that is injective where it matters *)
Theorem occ_types_gmap : forall f g ctx u, tag_preserving g ->
  (forall i, In i (refs u) -> (forall j, In j (ids u) -> f j = f i -> j = i) /\ (~ In i (ids u) -> f i = i)) ->
  occ_types ctx (gmap f g u) = occ_types ctx u.
Proof.
  intros f g ctx u Hg H. unfold occ_types. rewrite all_occs_gmap, map_map.
  apply map_ext_in. intros o Ho. simpl.
  destruct (o_ref o) as [i|] eqn:E; [|reflexivity]. simpl.
  destruct (H i (all_occs_refs _ _ _ Ho E)) as [Inj Fix].
  pose proof (chain_at_gmap f g i Hg u ctx ctx (chain_sim_refl ctx) Inj) as S.
  destruct (chain_at ctx u i) as [c|] eqn:E1, (chain_at ctx (gmap f g u) (f i)) as [c'|] eqn:E2; simpl in S; try contradiction.
  - symmetry. apply lookup_entry_sim. exact S.
  - rewrite Fix; [reflexivity|]. intro Hin. apply (chain_at_In_Some u ctx i) in Hin. congruence.
Qed.

Lemma occ_types_skeleton : forall ctx u, occ_types ctx (skeleton u) = occ_types ctx u.
Proof.
  intros ctx u. rewrite skeleton_gmap. apply occ_types_gmap; [apply skel_entry_tag|].
  intros i _. split; [intros j _ E; exact E | reflexivity].
Qed.

Lemma ren_conditions : forall d ctx u, bounded d ctx u = true ->
  forall i, In i (refs u) ->
    (forall j, In j (ids u) -> ren d (ids u) j = ren d (ids u) i -> j = i) /\ (~ In i (ids u) -> ren d (ids u) i = i).
Proof.
  intros d ctx u B i Hi. destruct (bounded_parts _ _ _ B) as [Hid [Hr _]]. split.
  - intros j Hj E. rewrite (ren_in d _ j Hj) in E. unfold ren in E. destruct (memZ i (ids u)); [lia|].
    specialize (Hid j Hj). specialize (Hr i Hi). lia.
  - intro Hn. apply ren_out. exact Hn.
Qed.

(** every symbol occurrence of the clone reads the type the corresponding symbol of the original reads
    (well-scoped units; links and symbols inside types play no role) *)
Theorem clone_types_equal : forall d ctx u,
  bounded d ctx u = true -> wf ctx u = true ->
  occ_types ctx (clone d ctx u) = occ_types ctx u.
Proof.
  intros d ctx u B W.
  rewrite <- occ_types_skeleton, (clone_skeleton_iso _ _ _ B W), occ_types_skeleton, rename_gmap.
  apply occ_types_gmap; [apply map_entry_tag | apply ren_conditions with (ctx := ctx); exact B].
Qed.
