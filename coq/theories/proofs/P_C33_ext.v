(** C33 — extraction of an internal procedure: host association = passing the host variables. *)
From Coq Require Import ZArith List Bool String Lia.
From LV Require Import Base.Expr Base.MiniF Base.MiniFFacts models.M_C26 models.M_C33 proofs.P_C33_base proofs.P_C33_ni.
Import ListNotations.
Open Scope Z_scope.

(** * copy-in / copy-out over appended argument lists *)
Lemma copy_in_app s : forall params args q b c, List.length args = List.length params ->
  copy_in s (params ++ q) (args ++ b) c = obind (copy_in s params args c) (fun c' => copy_in s q b c').
Proof.
  induction params as [|[d fl] ps IH]; intros args q b c Hl.
  - destruct args; [|discriminate]. reflexivity.
  - destruct args as [|e r]; [discriminate|]. cbn in Hl. injection Hl as Hl.
    destruct fl.
    + destruct e; cbn; try reflexivity. now apply IH.
    + cbn. destruct (evalZ (env_st s) e); [|reflexivity]. now apply IH.
Qed.

Lemma copy_out_app c : forall params args q b t, List.length args = List.length params ->
  copy_out c (params ++ q) (args ++ b) t = copy_out c q b (copy_out c params args t).
Proof.
  induction params as [|[d fl] ps IH]; intros args q b t Hl.
  - destruct args; [|discriminate]. reflexivity.
  - destruct args as [|e r]; [discriminate|]. cbn in Hl. injection Hl as Hl.
    destruct fl; destruct e; cbn; now apply IH.
Qed.

(** binding a list of typed names to their namesakes: what [copy_in]/[copy_out] do for the added
    dummies, whose actuals are the variables of the same name *)
Fixpoint bind_all (l : list tn) (src tgt : store) : store :=
  match l with
  | [] => tgt
  | (x, true) :: r => bind_all r src (set_arr x (av src x) tgt)
  | (x, false) :: r => bind_all r src (set_sv x (sv src x) tgt)
  end.

Definition evs (l : list tn) : list expr := map (fun p => EVar (fst p)) l.

Lemma copy_in_evs s : forall l c, copy_in s l (evs l) c = Some (bind_all l s c).
Proof. induction l as [|[x b] r IH]; intros c; [reflexivity|]. destruct b; cbn; apply IH. Qed.

Lemma copy_out_evs c : forall l t, copy_out c l (evs l) t = bind_all l c t.
Proof. induction l as [|[x b] r IH]; intros t; [reflexivity|]. destruct b; cbn; apply IH. Qed.

Lemma bind_all_untouched src : forall l t, untouched l t (bind_all l src t).
Proof.
  induction l as [|[x b] r IH]; intros t; [apply agreeP_refl|]. destruct b; cbn [bind_all].
  - eapply agreeP_trans; [apply (untouched_set_arr _ x (av src x) t); now left|].
    eapply untouched_mono; [|apply IH]. intros p Hp. now right.
  - eapply agreeP_trans; [apply (untouched_set_sv _ x (sv src x) t); now left|].
    eapply untouched_mono; [|apply IH]. intros p Hp. now right.
Qed.

(** on the bound names the result holds the source's values (all bindings of a name copy the same value) *)
Lemma bind_all_sv src : forall l t x, In (x, false) l \/ sv t x = sv src x -> sv (bind_all l src t) x = sv src x.
Proof.
  induction l as [|[y b] r IH]; intros t x H.
  - destruct H as [[]|H]. exact H.
  - destruct b; cbn [bind_all]; apply IH.
    + destruct H as [[H|H]|H]; [discriminate|now left|right; exact H].
    + destruct H as [[H|H]|H].
      * inversion H; subst. right. cbn. now rewrite String.eqb_refl.
      * now left.
      * right. cbn. destruct (String.eqb x y) eqn:E; [apply String.eqb_eq in E; now subst|exact H].
Qed.

Lemma bind_all_av src : forall l t a, In (a, true) l \/ (forall i, av t a i = av src a i) -> forall i, av (bind_all l src t) a i = av src a i.
Proof.
  induction l as [|[y b] r IH]; intros t a H.
  - destruct H as [[]|H]. exact H.
  - destruct b; cbn [bind_all]; apply IH.
    + destruct H as [[H|H]|H].
      * inversion H; subst. right. intros i. cbn. now rewrite String.eqb_refl.
      * now left.
      * right. intros i. cbn. destruct (String.eqb a y) eqn:E; [apply String.eqb_eq in E; now subst|apply H].
    + destruct H as [[H|H]|H]; [discriminate|now left|right; exact H].
Qed.

(** * copy-in from the same caller into two callee stores; frames *)
Lemma copy_in_same_caller (Q : tn -> bool) s : forall params args c1 c2 r1,
  agreeP Q c1 c2 -> copy_in s params args c1 = Some r1 ->
  exists r2, copy_in s params args c2 = Some r2 /\ agreeP Q r1 r2.
Proof.
  induction params as [|[d b] ps IH]; intros args c1 c2 r1 Ag E.
  - destruct args; [|discriminate]. cbn in E. inversion E; subst. exists c2. split; [reflexivity|exact Ag].
  - destruct args as [|e r]; [destruct b; discriminate|]. destruct b.
    + destruct e; try discriminate. cbn in E |- *. eapply IH; [|exact E].
      eapply agreeP_weaken; [|apply agreeP_set_arr; [|exact Ag]]; [intros p Hp; cbn; now rewrite Hp|reflexivity].
    + cbn in E |- *. destruct (evalZ (env_st s) e) as [v|]; [|discriminate].
      eapply IH; [|exact E]. now apply agreeP_set_sv_same.
Qed.

Definition typed (params : list (string * bool)) : list tn := params.

Lemma copy_in_untouched s : forall params args c r, copy_in s params args c = Some r -> untouched params c r.
Proof.
  induction params as [|[d b] ps IH]; intros args c r E.
  - destruct args; [|discriminate]. cbn in E. inversion E; subst. apply agreeP_refl.
  - destruct args as [|e ar]; [destruct b; discriminate|]. destruct b.
    + destruct e; try discriminate. cbn in E.
      eapply agreeP_trans; [apply (untouched_set_arr _ d (av s x) c); now left|].
      eapply untouched_mono; [|apply (IH _ _ _ E)]. intros p Hp. now right.
    + cbn in E. destruct (evalZ (env_st s) e) as [v|]; [|discriminate].
      eapply agreeP_trans; [apply (untouched_set_sv _ d v c); now left|].
      eapply untouched_mono; [|apply (IH _ _ _ E)]. intros p Hp. now right.
Qed.

(** the value that copy-out leaves in a written location does not depend on the target store *)
Lemma copy_out_indep c : forall params (Q : tn -> bool) args t t',
  agreeP Q t t' -> agreeP (Pun Q (call_writes params args)) (copy_out c params args t) (copy_out c params args t').
Proof.
  induction params as [|[d b] ps IH]; intros Q args t t' Ag.
  - cbn. eapply agreeP_weaken; [|exact Ag]. intros p Hp. unfold Pun in Hp. cbn in Hp. now rewrite orb_false_r in Hp.
  - destruct args as [|e r].
    + destruct b; cbn; (eapply agreeP_weaken; [|exact Ag]); intros p Hp; unfold Pun in Hp; cbn in Hp; now rewrite orb_false_r in Hp.
    + destruct b; destruct e; cbn [copy_out call_writes]; try (apply IH; exact Ag).
      * eapply agreeP_weaken; [|apply (IH (Pun Q [(x, true)])); apply agreeP_set_arr; [reflexivity|exact Ag]].
        intros [y fl] Hp. unfold Pun in *. unfold tmemp, tmem in *. cbn in *.
        rewrite orb_false_r. now rewrite <- orb_assoc.
      * eapply agreeP_weaken; [|apply (IH (Pun Q [(x, false)])); apply agreeP_set_sv; exact Ag].
        intros [y fl] Hp. unfold Pun in *. unfold tmemp, tmem in *. cbn in *.
        rewrite orb_false_r. now rewrite <- orb_assoc.
Qed.

(** copy-out from two callee stores that agree on the dummies *)
Lemma copy_out_agree2 (Q : tn -> bool) c1 c2 : forall params args t1 t2,
  (forall p, In p params -> (snd p = false -> sv c1 (fst p) = sv c2 (fst p)) /\ (snd p = true -> forall i, av c1 (fst p) i = av c2 (fst p) i)) ->
  agreeP Q t1 t2 -> agreeP Q (copy_out c1 params args t1) (copy_out c2 params args t2).
Proof.
  induction params as [|[d b] ps IH]; intros args t1 t2 Hd Ag; [exact Ag|].
  destruct args as [|e r]; [destruct b; exact Ag|].
  assert (Hd' : forall p, In p ps -> (snd p = false -> sv c1 (fst p) = sv c2 (fst p)) /\ (snd p = true -> forall i, av c1 (fst p) i = av c2 (fst p) i)).
  { intros p Hp. apply Hd. now right. }
  destruct b; destruct e; cbn [copy_out]; try (apply IH; assumption).
  - apply IH; [exact Hd'|]. eapply agreeP_weaken; [|apply agreeP_set_arr; [|exact Ag]].
    + intros p Hp. cbn. now rewrite Hp.
    + intros i. exact (proj2 (Hd (d, true) (or_introl eq_refl)) eq_refl i).
  - apply IH; [exact Hd'|]. pose proof (proj1 (Hd (d, false) (or_introl eq_refl)) eq_refl) as Hv. cbn in Hv. rewrite Hv. now apply agreeP_set_sv_same.
Qed.

(** * the theorem, in terms of the lists of host-visible ([hv]) and passed ([hvp]) variables *)
Section EXTRACT.
  Variables (ps : procs) (g : store) (hv hvp : list tn) (params : list (string * bool)) (body : list stmt) (args : list expr).
  Hypothesis Hsub : forall p, In p hvp -> In p hv.
  Hypothesis Hdecl : forall p, In p hv -> ~ In p params.
  Hypothesis Htouch : tdisj (ue_l ps body ++ wr_l ps body) (tdiff hv hvp) = true.
  Hypothesis Halias : tdisj (call_writes params args) hvp = true.
  Hypothesis Hlen : List.length args = List.length params.

  Let P : tn -> bool := fun p => negb (tmemp p (tdiff hv hvp)).

  Lemma entry_agree s c0o : copy_in s params args (pickT hv s g) = Some c0o ->
    exists c0n, copy_in s (params ++ hvp) (args ++ evs hvp) (pickT [] s g) = Some c0n /\ agreeP P c0o c0n.
  Proof.
    intros E. rewrite (copy_in_app s params args hvp (evs hvp) _ Hlen).
    destruct (copy_in_same_caller (fun p => negb (tmemp p hv)) s params args (pickT hv s g) (pickT [] s g) c0o) as [c' [E' A']]; [|exact E|].
    - split.
      + intros x Hx. cbn. unfold tmemp in Hx. cbn in Hx. apply negb_true_iff in Hx. now rewrite Hx.
      + intros a Ha i. cbn. unfold tmemp in Ha. cbn in Ha. apply negb_true_iff in Ha. now rewrite Ha.
    - rewrite E'. cbn [obind]. rewrite copy_in_evs. eexists. split; [reflexivity|].
      pose proof (copy_in_untouched s params args _ _ E) as Fo.
      pose proof (bind_all_untouched s hvp c') as Fn.
      split.
      + intros x Hx. destruct (tmemp (x, false) hvp) eqn:Eh.
        * apply tmemp_In in Eh. rewrite (bind_all_sv s hvp c' x (or_introl Eh)).
          destruct Fo as [Fo _]. rewrite <- Fo.
          -- cbn. assert (Hin : tmem x false hv = true) by (apply tmem_In; now apply Hsub). now rewrite Hin.
          -- apply negb_true_iff. apply tmemp_false. apply Hdecl. now apply Hsub.
        * destruct Fn as [Fn _]. rewrite <- Fn by (now rewrite Eh).
          destruct A' as [A' _]. apply A'. apply negb_true_iff. apply tmemp_false. intros Hin.
          unfold P in Hx. apply negb_true_iff in Hx. apply tmemp_false in Hx. apply Hx. apply In_tdiff. split; [exact Hin|now apply tmemp_false].
      + intros a Ha i. destruct (tmemp (a, true) hvp) eqn:Eh.
        * apply tmemp_In in Eh. rewrite (bind_all_av s hvp c' a (or_introl Eh) i).
          destruct Fo as [_ Fo]. rewrite <- Fo.
          -- cbn. assert (Hin : tmem a true hv = true) by (apply tmem_In; now apply Hsub). now rewrite Hin.
          -- apply negb_true_iff. apply tmemp_false. apply Hdecl. now apply Hsub.
        * destruct Fn as [_ Fn]. rewrite <- Fn by (now rewrite Eh).
          destruct A' as [_ A']. apply A'. apply negb_true_iff. apply tmemp_false. intros Hin.
          unfold P in Ha. apply negb_true_iff in Ha. apply tmemp_false in Ha. apply Ha. apply In_tdiff. split; [exact Hin|now apply tmemp_false].
  Qed.

  Lemma params_in_P p : In p params -> P p = true.
  Proof.
    intros Hp. unfold P. apply negb_true_iff. apply tmemp_false. intros Hin. apply In_tdiff in Hin.
    exact (Hdecl p (proj1 Hin) Hp).
  Qed.

  Lemma exit_eq s c0o c1o c1n :
    untouched params (pickT hv s g) c0o -> untouched (wr_l ps body) c0o c1o -> agreeP P c1o c1n ->
    store_eq (copy_out c1o params args (pickT hv c1o s)) (copy_out c1n (params ++ hvp) (args ++ evs hvp) s).
  Proof.
    intros F0 F1 Ag. rewrite (copy_out_app c1n params args hvp (evs hvp) s Hlen). rewrite copy_out_evs.
    assert (Hdum : forall p, In p params -> (snd p = false -> sv c1o (fst p) = sv c1n (fst p)) /\ (snd p = true -> forall i, av c1o (fst p) i = av c1n (fst p) i)).
    { intros [d b] Hp. pose proof (params_in_P _ Hp) as HP. destruct Ag as [A B]. cbn. split; intros Eb; subst b; [now apply A|now apply B]. }
    (* written locations: the same dummy values arrive, whatever the target *)
    assert (Af : agreeP (fun _ : tn => false) (pickT hv c1o s) s) by (split; intros; discriminate).
    pose proof (copy_out_indep c1o params (fun _ => false) args (pickT hv c1o s) s Af) as I1.
    pose proof (copy_out_agree2 alltrue c1o c1n params args s s Hdum (agreeP_refl _ _)) as I2.
    pose proof (copy_out_untouched c1o params args (pickT hv c1o s)) as U1.
    pose proof (copy_out_untouched c1n params args s) as U2.
    pose proof (bind_all_untouched c1n hvp (copy_out c1n params args s)) as U3.
    assert (Hw : forall p, In p (call_writes params args) -> ~ In p hvp) by (apply tdisj_In; exact Halias).
    assert (Hnt : forall p, In p (tdiff hv hvp) -> ~ In p (wr_l ps body)).
    { intros p Hp Hin. exact (proj1 (tdisj_In _ _) Htouch p (in_or_app _ _ _ (or_intror Hin)) Hp). }
    split.
    - intros x _. destruct (tmemp (x, false) (call_writes params args)) eqn:Ew.
      + (* a variable actual *)
        destruct I1 as [I1 _]. rewrite (I1 x) by (unfold Pun; cbn [orb]; exact Ew).
        destruct I2 as [I2 _]. rewrite (I2 x eq_refl).
        destruct U3 as [U3 _]. apply U3. apply negb_true_iff. apply tmemp_false. apply Hw. now apply tmemp_In.
      + destruct U1 as [U1 _]. rewrite <- (U1 x) by (now rewrite Ew). cbn.
        destruct (tmem x false hvp) eqn:Ep.
        * apply tmem_In in Ep. rewrite (bind_all_sv c1n hvp _ x (or_introl Ep)).
          assert (Hin : tmem x false hv = true) by (apply tmem_In; now apply Hsub). rewrite Hin.
          destruct Ag as [A _]. apply A. unfold P. apply negb_true_iff. apply tmemp_false. intros Hd. apply In_tdiff in Hd. now apply (proj2 Hd).
        * destruct U3 as [U3 _]. rewrite <- (U3 x) by (unfold tmemp; cbn; now rewrite Ep).
          destruct U2 as [U2 _]. rewrite <- (U2 x) by (now rewrite Ew).
          destruct (tmem x false hv) eqn:Eh; [|reflexivity].
          assert (Hd : In (x, false) (tdiff hv hvp)).
          { apply In_tdiff. split; [now apply tmem_In|]. intros Hin. apply tmem_In in Hin. congruence. }
          destruct F1 as [F1 _]. rewrite <- (F1 x) by (apply negb_true_iff; apply tmemp_false; now apply Hnt).
          destruct F0 as [F0 _]. rewrite <- (F0 x).
          -- cbn. now rewrite Eh.
          -- apply negb_true_iff. apply tmemp_false. apply Hdecl. now apply tmem_In.
    - intros a _ i. destruct (tmemp (a, true) (call_writes params args)) eqn:Ew.
      + destruct I1 as [_ I1]. rewrite (I1 a) by (unfold Pun; cbn [orb]; exact Ew).
        destruct I2 as [_ I2]. rewrite (I2 a eq_refl).
        destruct U3 as [_ U3]. apply U3. apply negb_true_iff. apply tmemp_false. apply Hw. now apply tmemp_In.
      + destruct U1 as [_ U1]. rewrite <- (U1 a) by (now rewrite Ew). cbn.
        destruct (tmem a true hvp) eqn:Ep.
        * apply tmem_In in Ep. rewrite (bind_all_av c1n hvp _ a (or_introl Ep)).
          assert (Hin : tmem a true hv = true) by (apply tmem_In; now apply Hsub). rewrite Hin.
          destruct Ag as [_ B]. apply B. unfold P. apply negb_true_iff. apply tmemp_false. intros Hd. apply In_tdiff in Hd. now apply (proj2 Hd).
        * destruct U3 as [_ U3]. rewrite <- (U3 a) by (unfold tmemp; cbn; now rewrite Ep).
          destruct U2 as [_ U2]. rewrite <- (U2 a) by (now rewrite Ew).
          destruct (tmem a true hv) eqn:Eh; [|reflexivity].
          assert (Hd : In (a, true) (tdiff hv hvp)).
          { apply In_tdiff. split; [now apply tmem_In|]. intros Hin. apply tmem_In in Hin. congruence. }
          destruct F1 as [_ F1]. rewrite <- (F1 a) by (apply negb_true_iff; apply tmemp_false; now apply Hnt).
          destruct F0 as [_ F0]. rewrite <- (F0 a).
          -- cbn. now rewrite Eh.
          -- apply negb_true_iff. apply tmemp_false. apply Hdecl. now apply tmem_In.
  Qed.

  Lemma body_reads_ok : reads_ok P (ue_l ps body).
  Proof.
    intros p Hp. unfold P. apply negb_true_iff. apply tmemp_false.
    exact (proj1 (tdisj_In _ _) Htouch p (in_or_app _ _ _ (or_introl Hp))).
  Qed.

  Theorem extract_call_forward f s s1 :
    icall ps g f hv params body args s = Some s1 ->
    exists s2, icall ps g f [] (params ++ hvp) body (args ++ evs hvp) s = Some s2 /\ store_eq s1 s2.
  Proof.
    unfold icall. intros E.
    apply obind_some in E. destruct E as [c0o [E0 E]]. apply obind_some in E. destruct E as [c1o [E1 E2]].
    inversion E2; subst s1; clear E2.
    destruct (entry_agree s c0o E0) as [c0n [N0 A0]]. rewrite N0. cbn [obind].
    destruct (ni_list ps f P body c0o c0n c1o A0 body_reads_ok E1) as [c1n [N1 A1]]. rewrite N1. cbn [obind].
    eexists. split; [reflexivity|].
    assert (Ex : store_eq (copy_out c1o params args (pickT hv c1o s)) (copy_out c1n (params ++ hvp) (args ++ evs hvp) s)).
    { apply exit_eq with (c0o := c0o).
      - exact (copy_in_untouched s params args _ _ E0).
      - exact (frame_list ps f body _ _ E1).
      - now apply Pun_weaken in A1. }
    eapply agreeP_trans; [exact Ex|].
    apply copy_out_agree; [apply agreeP_refl|]. split; intros; reflexivity.
  Qed.
  Theorem extract_call_backward f s s2 :
    icall ps g f [] (params ++ hvp) body (args ++ evs hvp) s = Some s2 ->
    exists s1, icall ps g f hv params body args s = Some s1 /\ store_eq s1 s2.
  Proof.
    unfold icall. intros E.
    apply obind_some in E. destruct E as [c0n [N0 E]]. apply obind_some in E. destruct E as [c1n [N1 E2]].
    inversion E2; subst s2; clear E2.
    pose proof N0 as N0'. rewrite (copy_in_app s params args hvp (evs hvp) _ Hlen) in N0'.
    apply obind_some in N0'. destruct N0' as [c' [Ec' _]].
    destruct (copy_in_same_caller (fun _ => false) s params args (pickT [] s g) (pickT hv s g) c') as [c0o [E0 _]];
      [split; intros; discriminate|exact Ec'|].
    rewrite E0. cbn [obind].
    destruct (entry_agree s c0o E0) as [c0n' [N0'' A0]].
    assert (c0n' = c0n) by congruence. subst c0n'.
    destruct (ni_list ps f P body c0n c0o c1n (agreeP_sym _ _ _ A0) body_reads_ok N1) as [c1o [E1 A1]]. rewrite E1. cbn [obind].
    eexists. split; [reflexivity|].
    assert (Ex : store_eq (copy_out c1o params args (pickT hv c1o s)) (copy_out c1n (params ++ hvp) (args ++ evs hvp) s)).
    { apply exit_eq with (c0o := c0o).
      - exact (copy_in_untouched s params args _ _ E0).
      - exact (frame_list ps f body _ _ E1).
      - apply agreeP_sym. now apply Pun_weaken in A1. }
    eapply agreeP_trans; [exact Ex|].
    apply copy_out_agree; [apply agreeP_refl|]. split; intros; reflexivity.
  Qed.
End EXTRACT.

(** * the model's output satisfies the hypotheses *)
Lemma memb_In x l : mem x l = true <-> In x l.
Proof.
  unfold mem. rewrite existsb_exists. split.
  - intros [y [Hin E]]. apply String.eqb_eq in E. now subst.
  - intros H. exists x. split; [exact H|apply String.eqb_refl].
Qed.

Lemma In_ins_by {A} (key : A -> string) x y l : In y (ins_by key x l) <-> y = x \/ In y l.
Proof.
  induction l as [|z r IH]; cbn; [intuition congruence|].
  destruct (str_leb (key z) (key x)); cbn; [rewrite IH|]; intuition congruence.
Qed.

Lemma In_sort_by {A} (key : A -> string) l y : In y (sort_by key l) <-> In y l.
Proof.
  unfold sort_by. assert (G : forall acc, In y (fold_left (fun acc x => ins_by key x acc) l acc) <-> In y acc \/ In y l).
  { induction l as [|x r IH]; intros acc; cbn; [tauto|]. rewrite IH, In_ins_by. intuition congruence. }
  rewrite G. cbn. tauto.
Qed.

Lemma host_refs_spec h m x : In x (host_refs h m) -> mem x (h_vars h) = true /\ mem x (m_decls m) = false.
Proof.
  unfold host_refs. rewrite In_sort_by, in_map_iff. intros [o [E Hin]]. subst x.
  apply filter_In in Hin. destruct Hin as [_ Hc]. apply andb_true_iff in Hc. destruct Hc as [H1 H2].
  split; [exact H1|now apply negb_true_iff].
Qed.

Lemma call_writes_actual : forall params args p, In p (call_writes params args) -> In (fst p) (actual_vars args).
Proof.
  induction params as [|[d b] ps IH]; intros args p Hp; [destruct args; destruct Hp|].
  destruct args as [|e r]; [destruct b; destruct Hp|].
  unfold actual_vars. cbn [flat_map]. apply in_or_app.
  destruct b; destruct e; cbn [call_writes] in Hp; try (right; now apply IH).
  - destruct Hp as [Hp|Hp]; [left; subst p; now left|right; now apply IH].
  - destruct Hp as [Hp|Hp]; [left; subst p; now left|right; now apply IH].
Qed.

Lemma model_hyps ps h m args :
  host_vars_passed ps h m args = true ->
  (forall p, In p (passed h m) -> In p (host_visible h m)) /\
  (forall p, In p (host_visible h m) -> ~ In p (m_params m)) /\
  tdisj (ue_l ps (m_body m) ++ wr_l ps (m_body m)) (tdiff (host_visible h m) (passed h m)) = true /\
  tdisj (call_writes (m_params m) args) (passed h m) = true /\
  List.length args = List.length (m_params m).
Proof.
  intros Hp. unfold host_vars_passed in Hp.
  apply andb_true_iff in Hp; destruct Hp as [Hp HE]. apply andb_true_iff in Hp; destruct Hp as [Hp HD].
  apply andb_true_iff in Hp; destruct Hp as [Hp HC]. apply andb_true_iff in Hp; destruct Hp as [HA HB].
  split; [|split; [|split; [exact HA|split]]].
  - intros p Hin. unfold passed in Hin. apply in_map_iff in Hin. destruct Hin as [x [Ex Hin]]. subst p.
    destruct (host_refs_spec h m x Hin) as [A B]. unfold host_visible. apply in_map_iff. exists x. split; [reflexivity|].
    apply filter_In. split; [now apply memb_In|now rewrite B].
  - intros p Hin Hpar. unfold host_visible in Hin. apply in_map_iff in Hin. destruct Hin as [x [Ex Hin]]. subst p.
    apply filter_In in Hin. destruct Hin as [_ Hn]. apply negb_true_iff in Hn.
    assert (Hd : In x (m_decls m)). { unfold m_decls. apply in_or_app. left. apply in_map_iff. exists (x, is_arr h x). split; [reflexivity|exact Hpar]. }
    apply memb_In in Hd. congruence.
  - apply tdisj_In. intros p Hw Hin. unfold passed in Hin. apply in_map_iff in Hin. destruct Hin as [x [Ex Hin]]. subst p.
    apply call_writes_actual in Hw. cbn in Hw.
    unfold disjointb in HD. rewrite forallb_forall in HD. specialize (HD x Hw).
    apply negb_true_iff in HD. apply memb_In in Hin. congruence.
  - now apply Nat.eqb_eq.
Qed.

Theorem extract_internal_preserves ps g f h m args s :
  host_vars_passed ps h m args = true ->
  let call0 := icall ps g f (host_visible h m) (m_params m) (m_body m) args s in
  let call1 := icall ps g f [] (m_params (extract_member h m)) (m_body (extract_member h m)) (args ++ map EVar (host_refs h m)) s in
  (forall s1, call0 = Some s1 -> exists s2, call1 = Some s2 /\ store_eq s1 s2) /\
  (forall s2, call1 = Some s2 -> exists s1, call0 = Some s1 /\ store_eq s1 s2).
Proof.
  intros Hp. destruct (model_hyps ps h m args Hp) as [H1 [H2 [H3 [H4 H5]]]].
  assert (Eq : map EVar (host_refs h m) = evs (passed h m)).
  { unfold evs, passed. rewrite map_map. reflexivity. }
  cbn zeta. rewrite Eq. cbn [extract_member m_params m_body]. fold (passed h m). split.
  - intros s1. now apply (extract_call_forward ps g (host_visible h m) (passed h m) (m_params m) (m_body m) args).
  - intros s2. now apply (extract_call_backward ps g (host_visible h m) (passed h m) (m_params m) (m_body m) args).
Qed.

(** with no host association and zero-initialised locals, [icall] is the CALL of [MiniF.exec] *)
Theorem icall_is_scall ps f n p args s :
  find_proc ps n = Some p ->
  (forall s1, exec1 ps f (SCall n args) s = Some s1 ->
     exists s2, icall ps empty_store f [] (p_params p) (p_body p) args s = Some s2 /\ store_eq s1 s2) /\
  (forall s2, icall ps empty_store f [] (p_params p) (p_body p) args s = Some s2 ->
     exists s1, exec1 ps f (SCall n args) s = Some s1 /\ store_eq s1 s2).
Proof.
  intros Hf. cbn [exec1]. rewrite Hf. cbn [obind]. unfold icall.
  change (pickT [] s empty_store) with empty_store.
  destruct (copy_in s (p_params p) args empty_store) as [c0|]; cbn [obind]; [|split; intros; discriminate].
  destruct (exec ps f (p_body p) c0) as [c1|]; cbn [obind]; [|split; intros; discriminate].
  assert (Ag : store_eq (copy_out c1 (p_params p) args s) (copy_out c1 (p_params p) args (pickT [] c1 s))).
  { apply copy_out_agree; [apply agreeP_refl|]. split; intros; reflexivity. }
  split; intros t Ht; inversion Ht; subst; eexists; (split; [reflexivity|exact Ag]).
Qed.
