(** C43 — file level: the property theorems about [fix_file]. *)
From Coq Require Import List String Ascii Bool Arith ZArith Lia.
From LV Require Import Base.Strings Base.Expr models.M_C43 proofs.P_C43 proofs.P_C43_main.
Import ListNotations.
Open Scope string_scope.
Open Scope list_scope.

(* ------------------------------------------------------------------------------------------------ *)
(** * Routines and items on the class *)
Lemma routine_main rk fa r :
  routine_in_class rk fa r = true ->
  emit_routine rk fa r = List.concat (routine_spec r) /\ routine_ok rk fa r = true.
Proof.
  unfold routine_in_class, emit_routine, routine_ok, routine_spec. destruct (touched rk fa r).
  - rewrite !andb_true_iff. intros [[Hh Hf] Hk]. apply lines_eqb_eq in Hh. apply lines_eqb_eq in Hf.
    assert (G : Forall good (r_kids r)) by (apply Forall_forall; intros; apply main).
    destruct (kids_flat MVisit false false (r_kids r) G Hk) as [E1 E2].
    rewrite flat_map_map in E1. rewrite forallb_map in E2.
    cbn [negb orb]. rewrite concat_frame, <- E1, Hh, Hf. split; [reflexivity|exact E2].
  - intros Hk. cbn [negb orb]. split; [|reflexivity]. unfold routine_src.
    rewrite concat_frame, (no_act_kids_spec _ Hk). reflexivity.
Qed.

Lemma item_main rk fa it :
  item_in_class rk fa it = true ->
  emit_item rk fa it = List.concat (item_spec it)
  /\ match it with IRoutine x => routine_ok rk fa x | _ => true end = true.
Proof.
  destruct it as [l|rp s g|r]; cbn.
  - intros _. rewrite app_nil_r. auto.
  - intros _. rewrite app_nil_r. auto.
  - apply routine_main.
Qed.

Lemma items_main rk fa f :
  forallb (item_in_class rk fa) f = true ->
  emit_items rk fa f = List.concat (file_spec f) /\ items_ok rk fa f = true.
Proof.
  unfold emit_items, file_spec, items_ok. induction f as [|it f IH]; cbn; [auto|].
  rewrite andb_true_iff. intros [H1 H2]. destruct (item_main _ _ _ H1) as [E1 E2]. destruct (IH H2) as [E3 E4].
  rewrite concat_app, E1, E3, E2, E4. auto.
Qed.

(** without any report the specification is the original text *)
Lemma touched_false rk f r : file_act f = false -> In (IRoutine r) f -> touched rk false r = false.
Proof.
  intros Hf Hin. destruct rk; [reflexivity|]. cbn. unfold file_act in Hf.
  destruct (routine_act r) eqn:E; [|reflexivity].
  assert (existsb (fun it => match it with IRoutine r0 => routine_act r0 | IOpaque rp _ _ => rp | IText _ => false end) f = true)
    by (apply existsb_exists; exists (IRoutine r); auto).
  congruence.
Qed.

Lemma file_spec_orig rk f :
  file_act f = false -> forallb (item_in_class rk false) f = true -> List.concat (file_spec f) = orig f.
Proof.
  intros Hf Hc. unfold file_spec, orig. rewrite concat_flat_map. apply flat_map_ext_Forall.
  apply Forall_forall. intros it Hin. rewrite forallb_forall in Hc. specialize (Hc _ Hin).
  destruct it as [l|rp s g|r]; cbn [item_in_class item_spec item_src] in *.
  - apply app_nil_r.
  - apply lines_eqb_eq in Hc. subst. apply app_nil_r.
  - unfold routine_in_class in Hc. rewrite (touched_false rk f r Hf Hin) in Hc.
    unfold routine_spec, routine_src. rewrite concat_frame, (no_act_kids_spec _ Hc). reflexivity.
Qed.

Lemma file_groups_src f : List.concat (map snd (file_groups f)) = orig f.
Proof.
  unfold file_groups, orig. induction f as [|it f IH]; cbn; [reflexivity|].
  rewrite map_app, concat_app, IH. f_equal.
  destruct it as [l|rp s g|r]; cbn; try apply app_nil_r.
  unfold routine_src. rewrite map_app, concat_app. cbn. rewrite app_nil_r. f_equal. f_equal.
  induction (r_kids r) as [|c k IHk]; cbn; [reflexivity|]. rewrite map_app, concat_app, groups_src, IHk. reflexivity.
Qed.

Lemma file_spec_keeps rk fa f :
  forallb (item_in_class rk fa) f = true -> Forall2 keeps (file_groups f) (file_spec f).
Proof.
  unfold file_groups, file_spec. intros H. apply Forall2_flat_map. apply Forall_forall. intros it Hin.
  rewrite forallb_forall in H. specialize (H _ Hin). destruct it as [l|rp s g|r]; cbn in *.
  - constructor; [intro; reflexivity|constructor].
  - apply lines_eqb_eq in H. subst. constructor; [intro; reflexivity|constructor].
  - unfold routine_groups, routine_spec. constructor; [intro; reflexivity|].
    apply Forall2_app; [|constructor; [intro; reflexivity|constructor]].
    apply Forall2_flat_map. apply Forall_forall. intros c _. apply spec_keeps.
Qed.

(** what [fix_file] writes *)
Definition written (f : list item) (body : list line) : list line :=
  if file_act f then write_lines body else body.

Theorem fix_file_spec rk f :
  file_in_class rk f = true -> fix_file rk f = Some (written f (List.concat (file_spec f))).
Proof.
  unfold file_in_class, fix_file, written. intros H. destruct (file_act f) eqn:Ha; cbn [negb].
  - destruct (items_main _ _ _ H) as [E1 E2]. rewrite E2, E1. reflexivity.
  - rewrite (file_spec_orig rk f Ha H). reflexivity.
Qed.

(** ** fix_other_nodes_verbatim *)
Theorem fix_other_nodes_verbatim rk f :
  file_in_class rk f = true ->
  exists outs,
    fix_file rk f = Some (written f (List.concat outs))
    /\ Forall2 keeps (file_groups f) outs
    /\ List.concat (map snd (file_groups f)) = orig f.
Proof.
  intros H. exists (file_spec f). split; [apply fix_file_spec; exact H|].
  split; [eapply file_spec_keeps; exact H | apply file_groups_src].
Qed.

(* ------------------------------------------------------------------------------------------------ *)
(** * Tokens of the fixed statements *)
Definition same_tokens (g : bool * list line) (o : list line) : Prop := fst g = true -> toks_match (snd g) o = true.

Lemma only_self_not_drop a : match a with ANone | ASelf | AVisit => true | _ => false end = true -> is_drop a = false.
Proof. destruct a; cbn; congruence. Qed.

Lemma spec_tokens : forall n prep, only_self n = true -> toks_ok prep n = true ->
  Forall2 same_tokens (groups prep n) (spec_g prep n).
Proof.
  induction n as [k st a src regen|k st a fr kids IH] using node_ind'; intros prep Hs Ht.
  - cbn in *. constructor; [|constructor]. unfold same_tokens; cbn.
    destruct k; cbn in *.
    + destruct a; cbn in *; try discriminate; auto.
    + destruct a; cbn in *; try discriminate; auto.
    + intros ->. cbn in Ht. exact Ht.
    + intros E. rewrite E in *. cbn in Ht. exact Ht.
  - cbn [only_self] in Hs. apply andb_true_iff in Hs as [Hs Hk]. apply andb_true_iff in Hs as [Hs Hi].
    pose proof (only_self_not_drop _ Hs) as Hd. cbn [groups spec_g toks_ok] in *. rewrite Hd in *. cbn [orb] in Ht.
    apply andb_true_iff in Ht as [Hfr Htk].
    assert (K : Forall2 same_tokens (flat_map (groups (is_act a)) kids) (flat_map (spec_g (is_act a)) kids)).
    { apply Forall2_flat_map. rewrite Forall_forall in *. rewrite forallb_forall in Hk, Htk. intros c Hc. apply IH; auto. }
    destruct k.
    + constructor; [|apply Forall2_app; [exact K|constructor; [|constructor]]]; unfold same_tokens; cbn; intros E;
        rewrite E in *; cbn in Hfr; apply andb_true_iff in Hfr as [? ?]; assumption.
    + constructor; [|apply Forall2_app; [exact K|constructor; [|constructor]]]; unfold same_tokens; cbn; intros E;
        rewrite E in *; cbn in Hfr; apply andb_true_iff in Hfr as [? ?]; assumption.
    + constructor; [|constructor]. unfold same_tokens; cbn. intros E.
      apply negb_true_iff in Hi. congruence.
    + constructor; [|apply Forall2_app; [exact K|constructor; [|constructor]]]; unfold same_tokens; cbn; intros E;
        rewrite E in *; cbn in Hfr; apply andb_true_iff in Hfr as [? ?]; assumption.
Qed.

Lemma file_spec_tokens f :
  file_forall only_self f = true -> file_forall (toks_ok false) f = true ->
  Forall2 same_tokens (file_groups f) (file_spec f).
Proof.
  unfold file_forall, file_groups, file_spec. intros Hs Ht. apply Forall2_flat_map. apply Forall_forall. intros it Hin.
  rewrite forallb_forall in Hs, Ht. specialize (Hs _ Hin). specialize (Ht _ Hin). destruct it as [l|rp s g|r]; cbn in *.
  - constructor; [intro; discriminate|constructor].
  - constructor; [intro; discriminate|constructor].
  - unfold routine_groups, routine_spec. constructor; [intro; discriminate|].
    apply Forall2_app; [|constructor; [intro; discriminate|constructor]].
    apply Forall2_flat_map. apply Forall_forall. intros c Hc. rewrite forallb_forall in Hs, Ht. apply spec_tokens; auto.
Qed.

(** ** fixed_stmt_same_tokens_modulo_ops *)
Theorem fixed_stmt_same_tokens_modulo_ops rk f :
  file_in_class rk f = true -> file_forall only_self f = true -> file_forall (toks_ok false) f = true ->
  exists outs,
    fix_file rk f = Some (written f (List.concat outs))
    /\ Forall2 (fun g o => fst g = true ->
                  map foldt (lex_lines o) = map foldt (map f90_spelling (lex_lines (snd g)))) (file_groups f) outs.
Proof.
  intros Hc Hs Ht. exists (file_spec f). split; [apply fix_file_spec; exact Hc|].
  pose proof (file_spec_tokens f Hs Ht) as H. induction H; constructor; auto.
  intros E. apply lines_eqb_eq. apply H. exact E.
Qed.

(* ------------------------------------------------------------------------------------------------ *)
(** * No F77 operator is left *)
Lemma spec_f77_free : forall n prep, only_self n = true -> toks_ok prep n = true -> reports_complete prep n = true ->
  forallb f77_free (spec_g prep n) = true.
Proof.
  induction n as [k st a src regen|k st a fr kids IH] using node_ind'; intros prep Hs Ht Hr.
  - cbn in *. rewrite andb_true_r. destruct k; cbn in *.
    + destruct a; cbn in *; try discriminate; auto; eapply toks_match_f77_free; eauto.
    + destruct a; cbn in *; try discriminate; auto; eapply toks_match_f77_free; eauto.
    + destruct prep; cbn in *; [eapply toks_match_f77_free; eauto | exact Hr].
    + destruct (is_act a); cbn in *; [eapply toks_match_f77_free; eauto | exact Hr].
  - cbn [only_self] in Hs. apply andb_true_iff in Hs as [Hs Hk]. apply andb_true_iff in Hs as [Hs Hi].
    pose proof (only_self_not_drop _ Hs) as Hd. cbn [spec_g toks_ok reports_complete] in *. rewrite Hd in *. cbn [orb] in Ht, Hr.
    apply andb_true_iff in Ht as [Hfr Htk].
    assert (K : forall p, forallb (reports_complete p) kids = true -> p = is_act a ->
                          forallb f77_free (flat_map (spec_g p) kids) = true).
    { intros p Hrk ->. apply forallb_forall. intros x Hx. apply in_flat_map in Hx as [c [Hc Hx]].
      rewrite Forall_forall in IH. rewrite forallb_forall in Hk, Htk, Hrk.
      specialize (IH c Hc (is_act a) (Hk _ Hc) (Htk _ Hc) (Hrk _ Hc)). rewrite forallb_forall in IH. auto. }
    destruct k.
    + apply andb_true_iff in Hr as [Hr Hrk]. cbn [forallb]. rewrite forallb_app, (K _ Hrk eq_refl). cbn.
      destruct (is_act a); cbn in *.
      * apply andb_true_iff in Hfr as [H1 H2]. rewrite (toks_match_f77_free _ _ H1), (toks_match_f77_free _ _ H2). reflexivity.
      * apply andb_true_iff in Hr as [H1 H2]. rewrite H1, H2. reflexivity.
    + apply andb_true_iff in Hr as [Hr Hrk]. cbn [forallb]. rewrite forallb_app, (K _ Hrk eq_refl). cbn.
      destruct (is_act a); cbn in *.
      * apply andb_true_iff in Hfr as [H1 H2]. rewrite (toks_match_f77_free _ _ H1), (toks_match_f77_free _ _ H2). reflexivity.
      * apply andb_true_iff in Hr as [H1 H2]. rewrite H1, H2. reflexivity.
    + apply negb_true_iff in Hi. rewrite Hi in *. cbn in *. rewrite Hr. reflexivity.
    + apply andb_true_iff in Hr as [Hr Hrk]. cbn [forallb]. rewrite forallb_app, (K _ Hrk eq_refl). cbn.
      destruct (is_act a); cbn in *.
      * apply andb_true_iff in Hfr as [H1 H2]. rewrite (toks_match_f77_free _ _ H1), (toks_match_f77_free _ _ H2). reflexivity.
      * apply andb_true_iff in Hr as [H1 H2]. rewrite H1, H2. reflexivity.
Qed.

Lemma file_spec_f77_free f :
  file_forall only_self f = true -> file_forall (toks_ok false) f = true ->
  file_forall (reports_complete false) f = true -> file_frame_clean f = true ->
  f77_free (List.concat (file_spec f)) = true.
Proof.
  unfold file_forall, file_frame_clean, file_spec. intros Hs Ht Hr Hf. rewrite f77_free_concat.
  apply forallb_forall. intros x Hx. apply in_flat_map in Hx as [it [Hin Hx]].
  rewrite forallb_forall in Hs, Ht, Hr, Hf. specialize (Hs _ Hin). specialize (Ht _ Hin). specialize (Hr _ Hin). specialize (Hf _ Hin).
  destruct it as [l|rp s g|r]; cbn in *.
  - destruct Hx as [<-|[]]. exact Hf.
  - destruct Hx as [<-|[]]. exact Hf.
  - apply andb_true_iff in Hf as [H1 H2]. unfold routine_spec in Hx. destruct Hx as [<-|Hx]; [exact H1|].
    apply in_app_or in Hx as [Hx|[<-|[]]]; [|exact H2].
    apply in_flat_map in Hx as [c [Hc Hx]]. rewrite forallb_forall in Hs, Ht, Hr.
    pose proof (spec_f77_free c false (Hs _ Hc) (Ht _ Hc) (Hr _ Hc)) as E. rewrite forallb_forall in E. auto.
Qed.

(** ** fix_clears_rule: re-running the rule's check (as the token predicate) on the fixed text reports nothing *)
Theorem fix_clears_rule rk f :
  file_in_class rk f = true -> file_forall only_self f = true -> file_forall (toks_ok false) f = true ->
  file_forall (reports_complete false) f = true -> file_frame_clean f = true ->
  exists out, fix_file rk f = Some out /\ f77_free out = true.
Proof.
  intros Hc Hs Ht Hr Hf. eexists. split; [apply fix_file_spec; exact Hc|].
  pose proof (file_spec_f77_free f Hs Ht Hr Hf) as E. unfold written. destruct (file_act f); [apply f77_free_write|]; exact E.
Qed.

(* ------------------------------------------------------------------------------------------------ *)
(** * Fixing twice = fixing once *)
Lemma fix_no_reports rk f : file_act f = false -> fix_file rk f = Some (orig f).
Proof. unfold fix_file. intros ->. reflexivity. Qed.

Lemma reparse_no_action : forall n prep, has_action (reparse prep n) = false.
Proof.
  induction n as [k st a src regen|k st a fr kids IH] using node_ind'; intros prep.
  - cbn. destruct k; reflexivity.
  - cbn [reparse]. destruct (is_drop a); [reflexivity|]. cbn. rewrite existsb_map.
    induction IH as [|c r Hc _ IHr]; cbn; [reflexivity|]. rewrite Hc. exact IHr.
Qed.

Lemma reparse_file_no_action f : file_act (reparse_file f) = false.
Proof.
  unfold file_act, reparse_file. rewrite existsb_map. induction f as [|it f IH]; cbn; [reflexivity|].
  rewrite IH, orb_false_r. destruct it as [l|rp s g|r]; cbn; try reflexivity.
  unfold routine_act. cbn. rewrite existsb_map. induction (r_kids r) as [|c k IHk]; cbn; [reflexivity|].
  rewrite reparse_no_action. exact IHk.
Qed.

Lemma reparse_src : forall n prep, inline_ok n = true -> src_of (reparse prep n) = List.concat (spec_g prep n).
Proof.
  induction n as [k st a src regen|k st a fr kids IH] using node_ind'; intros prep Hi.
  - cbn. rewrite app_nil_r. destruct k; reflexivity.
  - cbn [reparse spec_g inline_ok] in *. destruct (is_drop a) eqn:Hd; [reflexivity|]. cbn [orb] in Hi.
    apply andb_true_iff in Hi as [Hin Hk].
    assert (K : flat_map src_of (map (reparse (is_act a)) kids) = List.concat (flat_map (spec_g (is_act a)) kids)).
    { rewrite flat_map_map, concat_flat_map. apply flat_map_ext_Forall. rewrite Forall_forall in *.
      rewrite forallb_forall in Hk. intros c Hc. apply IH; auto. }
    destruct k; cbn [src_of hs fs].
    + rewrite concat_frame, K. reflexivity.
    + rewrite concat_frame, K. reflexivity.
    + apply negb_true_iff in Hin. rewrite Hin. apply orb_false_iff in Hin as [Ha _]. rewrite Ha. cbn. rewrite app_nil_r. reflexivity.
    + rewrite concat_frame, K. reflexivity.
Qed.

Lemma reparse_file_orig f : file_forall inline_ok f = true -> orig (reparse_file f) = List.concat (file_spec f).
Proof.
  unfold file_forall, orig, reparse_file, file_spec. intros H. rewrite flat_map_map, concat_flat_map.
  apply flat_map_ext_Forall. apply Forall_forall. intros it Hin. rewrite forallb_forall in H. specialize (H _ Hin).
  destruct it as [l|rp s g|r]; cbn [item_src item_spec].
  - symmetry. apply app_nil_r.
  - symmetry. apply app_nil_r.
  - unfold routine_src, routine_spec. cbn [r_hsrc r_kids r_fsrc]. rewrite concat_frame. f_equal. f_equal.
    rewrite flat_map_map, concat_flat_map. apply flat_map_ext_Forall. apply Forall_forall. intros c Hc.
    rewrite forallb_forall in H. apply reparse_src. auto.
Qed.

(** ** fix_idempotent: the fixed text (read back: same statements, sources = the specified text, and - by
       fix_clears_rule - no reports) is left alone by a second run *)
Theorem fix_idempotent rk f :
  file_in_class rk f = true -> file_forall inline_ok f = true ->
  exists body,
    fix_file rk f = Some (written f body)
    /\ orig (reparse_file f) = body
    /\ fix_file rk (reparse_file f) = Some body.
Proof.
  intros Hc Hi. exists (List.concat (file_spec f)). split; [apply fix_file_spec; exact Hc|].
  split; [apply reparse_file_orig; exact Hi|].
  rewrite (fix_no_reports rk _ (reparse_file_no_action f)), (reparse_file_orig f Hi). reflexivity.
Qed.

(** the shipped Fortran90OperatorsRule.fix_subroutine never fixes anything *)
Theorem shipped_f90_fix_never_fixes f : file_act f = true -> fix_file_shipped_f90 f = None.
Proof. unfold fix_file_shipped_f90. intros ->. reflexivity. Qed.
